(** Encoding names: encodingForName / nameForEncoding, name -> transcoder resolution, and the agreement between the
    auto-sensed family and the declared name in XMLReader::setEncoding. *)
From XV Require Import C05.Spec05 C05.Spec05s C05.Model05 C05.Model05r C05.Model05s.
From Coq Require Import ZArith ZifyBool ZifyN ZifyNat Lia Bool String.
Local Open Scope N_scope.

(** * strings *)
Lemma list_eqb_eq : forall a b, list_eqb a b = true -> a = b.
Proof.
  induction a as [|x a IH]; destruct b as [|y b]; cbn [list_eqb]; intros H; try discriminate; [reflexivity|].
  apply andb_true_iff in H. destruct H as [H1 H2]. apply N.eqb_eq in H1. subst y. f_equal. apply IH. exact H2.
Qed.

Lemma list_eqb_refl' : forall l, list_eqb l l = true.
Proof. induction l as [|x l IH]; [reflexivity|]. cbn [list_eqb]. rewrite N.eqb_refl, IH. reflexivity. Qed.

Lemma up1_idem : forall c, up1 (up1 c) = up1 c.
Proof.
  intros c. unfold up1.
  destruct ((0x61 <=? c) && (c <=? 0x7A)) eqn:E; [|rewrite E; reflexivity].
  assert (H : (0x61 <=? c - 0x61 + 0x41) && (c - 0x61 + 0x41 <=? 0x7A) = false) by lia.
  rewrite H. reflexivity.
Qed.

Lemma upper_ascii_idem : forall s, upper_ascii (upper_ascii s) = upper_ascii s.
Proof. intros s. unfold upper_ascii. rewrite map_map. apply map_ext. exact up1_idem. Qed.

(** * name -> transcoder *)

(** the lookup is insensitive to ASCII case: two spellings that differ only in case get the same transcoder *)
Lemma make_transcoder_case : forall s t, upper_ascii s = upper_ascii t -> make_transcoder_name s = make_transcoder_name t.
Proof. intros s t H. unfold make_transcoder_name. rewrite H. reflexivity. Qed.

Lemma make_transcoder_upper : forall s, make_transcoder_name (upper_ascii s) = make_transcoder_name s.
Proof. intros s. apply make_transcoder_case. apply upper_ascii_idem. Qed.

Definition opt_eqb (a b : option (N * bool)) : bool :=
  match a, b with
  | Some (x, p), Some (y, q) => (x =? y) && Bool.eqb p q
  | None, None => true
  | _, _ => false
  end.

Lemma opt_eqb_eq : forall a b, opt_eqb a b = true -> a = b.
Proof.
  intros [[x p]|] [[y q]|]; cbn [opt_eqb]; intros H; try discriminate; [|reflexivity].
  apply andb_true_iff in H. destruct H as [H1 H2]. apply N.eqb_eq in H1. apply Bool.eqb_prop in H2. subst. reflexivity.
Qed.

(** obligation over the generated gMappings: every registered name is in upper case and resolves to its own
    registration (no name is registered twice with different transcoders) *)
Definition mapping_ok (kv : list N * (N * bool)) : bool :=
  list_eqb (upper_ascii (fst kv)) (fst kv) && opt_eqb (assoc_names (fst kv) ts_mappings) (Some (snd kv)).

Lemma ts_mappings_ok : forallb mapping_ok ts_mappings = true.
Proof. vm_compute. reflexivity. Qed.

Lemma registered_alias_resolves : forall k v s, In (k, v) ts_mappings -> upper_ascii s = k ->
  make_transcoder_name s = Some v.
Proof.
  intros k v s Hin Hs. pose proof (proj1 (forallb_forall _ _) ts_mappings_ok _ Hin) as H.
  unfold mapping_ok in H. cbn [fst snd] in H. apply andb_true_iff in H. destruct H as [_ H2].
  apply opt_eqb_eq in H2. unfold make_transcoder_name. rewrite Hs. exact H2.
Qed.

(** the encodings the property names, with the transcoder class (numbering of Gen/GenEncNames.v) and the byte
    swapping each must get on this little-endian host *)
Definition expected_intrinsic : list (list N * (N * bool)) :=
  map (fun p => (units_of_string (fst p), snd p))
    [ ("UTF-8", (2, false)); ("US-ASCII", (1, false)); ("ISO-8859-1", (3, false)); ("WINDOWS-1252", (9, false));
      ("IBM037", (6, false)); ("EBCDIC-CP-US", (6, false)); ("IBM1047", (7, false)); ("IBM1140", (8, false));
      ("UTF-16", (4, false)); ("UTF-16LE", (4, false)); ("UTF-16BE", (4, true));
      ("UCS-4", (5, false)); ("UCS-4LE", (5, false)); ("UCS-4BE", (5, true)); ("UTF-32", (5, false));
      ("UTF-16 (LE)", (4, false)); ("UTF-16 (BE)", (4, true)); ("UCS-4 (LE)", (5, false)); ("UCS-4 (BE)", (5, true)) ]%string.

Lemma expected_intrinsic_ok :
  forallb (fun kv => opt_eqb (assoc_names (fst kv) ts_mappings) (Some (snd kv)) && list_eqb (upper_ascii (fst kv)) (fst kv))
          expected_intrinsic = true.
Proof. vm_compute. reflexivity. Qed.

Lemma intrinsic_names_resolve : forall nm cls s, In (nm, cls) expected_intrinsic -> upper_ascii s = nm ->
  make_transcoder_name s = Some cls.
Proof.
  intros nm cls s Hin Hs. pose proof (proj1 (forallb_forall _ _) expected_intrinsic_ok _ Hin) as H.
  cbn [fst snd] in H. apply andb_true_iff in H. destruct H as [H1 _]. apply opt_eqb_eq in H1.
  unfold make_transcoder_name. rewrite Hs. exact H1.
Qed.

(** * encodingForName *)
Lemma existsb_list_eqb : forall s names, in_names s names = true -> In s names.
Proof.
  intros s names H. unfold in_names in H. apply existsb_exists in H. destruct H as [n [Hin He]].
  apply list_eqb_eq in He. subst n. exact Hin.
Qed.

Lemma efn_go_in : forall s chain, efn_go s chain <> R_Other ->
  exists names code, In (names, code) chain /\ In s names.
Proof.
  intros s chain. induction chain as [|[names code] rest IH]; cbn [efn_go]; intros H; [congruence|].
  destruct (in_names s names) eqn:E.
  - exists names, code. split; [left; reflexivity|apply existsb_list_eqb; exact E].
  - destruct (IH H) as [n' [c' [Hin Hs]]]. exists n', c'. split; [right; exact Hin|exact Hs].
Qed.

(** obligation over the generated clause list and mappings: for every name some clause of encodingForName tests,
    creating the transcoder by that name and by the enumerator encodingForName returns is the same thing *)
Definition clause_ok (cl : list (list N) * N) : bool :=
  forallb (fun n => opt_eqb (assoc_names (upper_ascii n) ts_mappings) (make_transcoder_enum (efn_go n efn_chain))
                    && negb (renc_eqb (efn_go n efn_chain) R_Other)) (fst cl).

Lemma efn_chain_ok : forallb clause_ok efn_chain = true.
Proof. vm_compute. reflexivity. Qed.

Lemma name_enum_agree : forall s e, encoding_for_name (upper_ascii s) = e -> e <> R_Other ->
  make_transcoder_name s = make_transcoder_enum e.
Proof.
  intros s e He Hne. unfold encoding_for_name in He. subst e.
  destruct (efn_go_in _ _ Hne) as [names [code [Hin Hs]]].
  pose proof (proj1 (forallb_forall _ _) efn_chain_ok _ Hin) as H. unfold clause_ok in H. cbn [fst] in H.
  pose proof (proj1 (forallb_forall _ _) H _ Hs) as H2. apply andb_true_iff in H2. destruct H2 as [H2 _].
  apply opt_eqb_eq in H2. rewrite upper_ascii_idem in H2. exact H2.
Qed.

(** nameForEncoding then encodingForName gives the enumerator back, for every enumerator but EBCDIC (which
    encodingForName deliberately leaves to "other": the variant must be named by the declaration) *)
Definition all_renc : list renc := [R_EBCDIC; R_UCS_4B; R_UCS_4L; R_US_ASCII; R_UTF_8; R_UTF_16B; R_UTF_16L; R_XMLCH].

Lemma enc_name_roundtrip : forall e, e <> R_EBCDIC -> e <> R_Other ->
  exists s, name_for_encoding e = Some s /\ encoding_for_name s = e /\ upper_ascii s = s /\
            make_transcoder_name s = make_transcoder_enum e.
Proof.
  intros e H1 H2. destruct e; try congruence;
    (eexists; split; [vm_compute; reflexivity|split; [vm_compute; reflexivity|split; vm_compute; reflexivity]]).
Qed.

Lemma enc_name_ebcdic : exists s, name_for_encoding R_EBCDIC = Some s /\ encoding_for_name s = R_Other.
Proof. eexists. split; vm_compute; reflexivity. Qed.

(** * setEncoding *)
Definition renc_of_family (f : family) : renc :=
  match f with
  | FamByte => R_UTF_8 | Fam16B => R_UTF_16B | Fam16L => R_UTF_16L | Fam32B => R_UCS_4B | Fam32L => R_UCS_4L
  | FamEBCDIC => R_EBCDIC
  end.

Lemma set_encoding_upper : forall b cur s, set_encoding b cur (upper_ascii s) = set_encoding b cur s.
Proof. intros b cur s. unfold set_encoding. rewrite upper_ascii_idem. reflexivity. Qed.

(** repaired reader: a declaration that names one of the recognizer's encodings is accepted only if it keeps
    the family that was detected from the bytes in which the declaration itself was written *)
Lemma set_encoding_family : forall cur s nb str tr,
  set_encoding true cur s = SE_Accept nb str tr -> nb <> R_Other -> family_code nb = family_code cur.
Proof.
  intros cur s nb str tr H Hnb. unfold set_encoding in H.
  destruct (in_names (upper_ascii s) se_utf16_generic).
  { destruct cur; try discriminate; destruct (name_for_encoding _); try discriminate;
      inversion H; subst; reflexivity. }
  destruct (in_names (upper_ascii s) se_ucs4_generic).
  { destruct cur; try discriminate; destruct (name_for_encoding _); try discriminate;
      inversion H; subst; reflexivity. }
  destruct (encoding_for_name (upper_ascii s)) eqn:E; destruct cur; cbn in H; try discriminate;
    inversion H; subst; try reflexivity; congruence.
Qed.

(** decision over the names of the specification: accepted <-> compatible (XML 1.0 4.3.3), and an accepted
    declaration selects a transcoder of the detected unit size and byte order *)
Definition swapped_of_family (f : family) : bool := match f with Fam16B | Fam32B => true | _ => false end.

Definition decl_case_ok (b : bool) (f : family) (nd : list N * dfam) : bool :=
  match set_encoding b (renc_of_family f) (fst nd) with
  | SE_Reject => negb (compat f (snd nd))
  | SE_Accept nb _ tr =>
      compat f (snd nd) && (family_code nb =? family_code (renc_of_family f)) &&
      match tr with Some (_, sw) => Bool.eqb sw (swapped_of_family f) | None => false end
  | SE_Throw => false
  end.

Lemma decl_compat_table : forallb (fun f => forallb (decl_case_ok true f) spec_names) all_families = true.
Proof. vm_compute. reflexivity. Qed.

Lemma all_families_complete : forall f, In f all_families.
Proof. destruct f; cbn; tauto. Qed.

Lemma decl_compat : forall f nm d s, In (nm, d) spec_names -> upper_ascii s = nm ->
  (set_encoding true (renc_of_family f) s <> SE_Reject <-> compat f d = true) /\
  (forall nb str tr, set_encoding true (renc_of_family f) s = SE_Accept nb str tr ->
     family_code nb = family_code (renc_of_family f) /\ exists cls, tr = Some (cls, swapped_of_family f)).
Proof.
  intros f nm d s Hin Hs.
  pose proof (proj1 (forallb_forall _ _) decl_compat_table f (all_families_complete f)) as H.
  pose proof (proj1 (forallb_forall _ _) H _ Hin) as H2. unfold decl_case_ok in H2. cbn [fst snd] in H2.
  rewrite <- set_encoding_upper, Hs.
  destruct (set_encoding true (renc_of_family f) nm) as [|nb str tr|].
  - split; [split; [congruence|]|discriminate]. intros Hc. rewrite Hc in H2. discriminate.
  - apply andb_true_iff in H2. destruct H2 as [H2 H3]. apply andb_true_iff in H2. destruct H2 as [Hc Hf].
    split; [split; [intros _; exact Hc|discriminate]|].
    intros nb' str' tr' E. inversion E; subst. split; [apply N.eqb_eq; exact Hf|].
    destruct tr' as [[cls sw]|]; [|discriminate]. apply Bool.eqb_prop in H3. subst sw. exists cls. reflexivity.
  - discriminate.
Qed.

(** the reader as it stands: a declaration in the bytes of one family may name an encoding of another family and
    is accepted; the rest of the entity is then decoded with the other family's transcoder.
    "utf-16le" declared in an entity detected as UTF-8 *)
Lemma decl_compat_refuted :
  exists cur s nb str tr, set_encoding false cur s = SE_Accept nb str tr /\ nb <> R_Other /\
                          family_code nb <> family_code cur.
Proof.
  exists R_UTF_8, (units_of_string "utf-16le"), R_UTF_16L, (units_of_string "UTF-16LE"), (Some (4, false)).
  split; [vm_compute; reflexivity|split; [discriminate|vm_compute; discriminate]].
Qed.

(** not covered by the repair either: a name the recognizer does not know (here ISO-8859-1, a byte encoding)
    declared in an entity detected as UTF-16: accepted, and a byte transcoder is installed *)
Lemma decl_other_refuted : forall b,
  set_encoding b R_UTF_16L (units_of_string "ISO-8859-1") = SE_Accept R_Other (units_of_string "ISO-8859-1") (Some (3, false)).
Proof. intros [|]; vm_compute; reflexivity. Qed.

(** setEncoding never needs a transcoder or a name that is not there *)
Lemma set_encoding_no_throw : forall b cur s, cur <> R_Other -> set_encoding b cur s <> SE_Throw.
Proof.
  intros b cur s Hc. unfold set_encoding.
  destruct (in_names _ se_utf16_generic); [destruct cur; try discriminate; vm_compute; discriminate|].
  destruct (in_names _ se_ucs4_generic); [destruct cur; try discriminate; vm_compute; discriminate|].
  destruct (encoding_for_name _); try discriminate; destruct (_ && _); discriminate.
Qed.

(** names used in the examples of Properties_C05.v *)
Definition n_Utf16be_mixed := units_of_string "Utf-16be".
Definition n_Shift_JIS := units_of_string "Shift_JIS".
Definition n_utf16_lower := units_of_string "utf-16".
Definition n_UTF16BE_paren := units_of_string "UTF-16 (BE)".
Definition n_UTF16LE := units_of_string "UTF-16LE".
Definition n_ISO88591 := units_of_string "ISO-8859-1".
