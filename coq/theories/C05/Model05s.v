(** Models of the name side of encoding selection, following the C++:
    - XMLString::upperCaseASCII                                   (src/xercesc/util/XMLString.cpp)
    - XMLRecognizer::encodingForName / nameForEncoding            (src/xercesc/framework/XMLRecognizer.cpp)
    - XMLTransService::makeNewTranscoderFor (by name / by enum)   (src/xercesc/util/TransService.cpp)
    - XMLReader::setEncoding for a reader whose encoding was auto-sensed (not forced) and that has not yet
      created a transcoder (the state in which XMLScanner::scanXMLDecl / DTDScanner::scanTextDecl call it)
    - XMLReader::checkForSwapped
    The name tables (gEncodingNameMap, the clause list of encodingForName, the generic UTF-16/UCS-4 name lists of
    setEncoding, gMappings and gMappingsRecognizer of initTransService) are generated: Gen/GenEncNames.v.
    Strings are lists of UTF-16 units.  The host is little endian.  No proofs here. *)
From XV Require Export Base.XDefs.
From XV Require Export Gen.GenEncNames.
From XV Require Export C05.Model05r.
Local Open Scope N_scope.

(** enum XMLRecognizer::Encodings (numbers checked by the translator) + OtherEncoding *)
Inductive renc : Type :=
| R_EBCDIC | R_UCS_4B | R_UCS_4L | R_US_ASCII | R_UTF_8 | R_UTF_16B | R_UTF_16L | R_XMLCH | R_Other.

Definition renc_code (e : renc) : N :=
  match e with
  | R_EBCDIC => 0 | R_UCS_4B => 1 | R_UCS_4L => 2 | R_US_ASCII => 3 | R_UTF_8 => 4 | R_UTF_16B => 5 | R_UTF_16L => 6
  | R_XMLCH => 7 | R_Other => 999
  end.

Definition renc_of_code (c : N) : renc :=
  match c with
  | 0 => R_EBCDIC | 1 => R_UCS_4B | 2 => R_UCS_4L | 3 => R_US_ASCII | 4 => R_UTF_8 | 5 => R_UTF_16B | 6 => R_UTF_16L
  | 7 => R_XMLCH | _ => R_Other
  end.

Definition renc_eqb (a b : renc) : bool := renc_code a =? renc_code b.

(** what basicEncodingProbe returns, as a member of the full enum *)
Definition renc_of_enc (e : enc) : renc :=
  match e with
  | EBCDIC => R_EBCDIC | UCS_4B => R_UCS_4B | UCS_4L => R_UCS_4L | UTF_8 => R_UTF_8 | UTF_16B => R_UTF_16B
  | UTF_16L => R_UTF_16L
  end.

(** XMLString::upperCaseASCII *)
Definition up1 (c : N) : N := if (0x61 <=? c) && (c <=? 0x7A) then c - 0x61 + 0x41 else c.
Definition upper_ascii (s : list N) : list N := map up1 s.

(** [!compareString(a, b)] / [equals(a, b)] on null-terminated strings *)
Definition in_names (s : list N) (names : list (list N)) : bool := existsb (list_eqb s) names.

(** XMLRecognizer::encodingForName: the else-if chain, first matching clause wins *)
Fixpoint efn_go (s : list N) (chain : list (list (list N) * N)) : renc :=
  match chain with
  | [] => R_Other
  | (names, code) :: rest => if in_names s names then renc_of_code code else efn_go s rest
  end.
Definition encoding_for_name (s : list N) : renc := efn_go s efn_chain.

(** XMLRecognizer::nameForEncoding (throws for values outside the enum: None) *)
Definition name_for_encoding (e : renc) : option (list N) :=
  match e with R_Other => None | _ => nth_error rec_name_map (N.to_nat (renc_code e)) end.

(** XMLTransService::makeNewTranscoderFor(const XMLCh* name): upper-case, look up gMappings; [None] = not an
    intrinsic encoding: the request goes to the transcoding service (ICU), which is not modelled *)
Fixpoint assoc_names (s : list N) (m : list (list N * (N * bool))) : option (N * bool) :=
  match m with
  | [] => None
  | (k, v) :: rest => if list_eqb s k then Some v else assoc_names s rest
  end.
Definition make_transcoder_name (s : list N) : option (N * bool) := assoc_names (upper_ascii s) ts_mappings.

(** XMLTransService::makeNewTranscoderFor(XMLRecognizer::Encodings): gMappingsRecognizer *)
Definition make_transcoder_enum (e : renc) : option (N * bool) :=
  match e with R_Other => None | _ => nth_error ts_recognizer (N.to_nat (renc_code e)) end.

(** XMLReader::checkForSwapped on the little-endian host *)
Definition check_swapped (e : renc) : bool :=
  match e with R_UTF_16B | R_UCS_4B => true | _ => false end.

(** the family of an encoding the recognizer knows: the size and byte order of a code unit, or EBCDIC;
    0 = bytes, ASCII compatible.  (In the proposed repair fixes/C05-setencoding-family.patch this is the static
    function encodingFamily of XMLReader.cpp.) *)
Definition family_code (e : renc) : N :=
  match e with
  | R_UTF_16L => 1 | R_UTF_16B => 2 | R_UCS_4L => 3 | R_UCS_4B => 4 | R_EBCDIC => 5
  | R_XMLCH => 1                      (* XMLCh in host order *)
  | R_US_ASCII | R_UTF_8 | R_Other => 0
  end.

(** result of setEncoding *)
Inductive se_result : Type :=
| SE_Reject                                   (* return false: the caller emits XMLErrs::ContradictoryEncoding *)
| SE_Accept (newEnc : renc) (encStr : list N) (trans : option (N * bool))
                                              (* return true; trans = None: transcoder requested from the service by name *)
| SE_Throw.                                   (* nameForEncoding/makeNewTranscoderFor cannot serve (unreachable) *)

(** [repaired] = false: the code as it stands; true: with fixes/C05-setencoding-family.patch applied *)
Definition set_encoding (repaired : bool) (cur : renc) (newEncoding : list N) : se_result :=
  let inputEncoding := upper_ascii newEncoding in
  if in_names inputEncoding se_utf16_generic then
    match cur with
    | R_UTF_16L | R_UTF_16B =>
      match name_for_encoding cur with
      | Some s => SE_Accept cur s (make_transcoder_enum cur)
      | None => SE_Throw
      end
    | _ => SE_Reject
    end
  else if in_names inputEncoding se_ucs4_generic then
    match cur with
    | R_UCS_4L | R_UCS_4B =>
      match name_for_encoding cur with
      | Some s => SE_Accept cur s (make_transcoder_enum cur)
      | None => SE_Throw
      end
    | _ => SE_Reject
    end
  else
    match encoding_for_name inputEncoding with
    | R_Other => SE_Accept R_Other inputEncoding (make_transcoder_name inputEncoding)
    | nb =>
      if repaired && negb (family_code nb =? family_code cur) then SE_Reject
      else SE_Accept nb inputEncoding (make_transcoder_enum nb)
    end.
