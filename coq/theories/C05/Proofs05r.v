(** the recognizer identifies the family of every entity that starts with `<?xml ` in that family, or with
    the family's byte order mark, whatever follows *)
From XV Require Import C05.Spec05 C05.Model05 C05.Model05r.
From Coq Require Import ZArith ZifyBool ZifyN ZifyNat Lia.
Local Open Scope N_scope.

(** "<?xml " *)
Definition xml_decl_start : list N := [0x3C; 0x3F; 0x78; 0x6D; 0x6C; 0x20].

Definition enc_units (e : enc) (cps : list N) : list N :=
  match e with
  | UTF_8 => flat_map utf8_enc cps
  | UTF_16B => flat_map (fun c => [c / 256; c mod 256]) cps
  | UTF_16L => flat_map (fun c => [c mod 256; c / 256]) cps
  | UCS_4B => flat_map (ucs4_enc true) cps
  | UCS_4L => flat_map (ucs4_enc false) cps
  | EBCDIC => [0x4C; 0x6F; 0xA7; 0x94; 0x93; 0x40]     (* "<?xml " in the invariant EBCDIC code points *)
  end.

Lemma list_eqb_refl : forall l, list_eqb l l = true.
Proof. induction l as [|x l IH]; [reflexivity|]. cbn [list_eqb]. rewrite N.eqb_refl, IH. reflexivity. Qed.

(** obligations over the generated constants: each prefix is `<?xml ` in its family and has its declared length *)
Lemma prefixes_ok :
  fgASCIIPre = enc_units UTF_8 xml_decl_start /\ fgASCIIPre_len = length fgASCIIPre /\
  fgUTF16BPre = enc_units UTF_16B xml_decl_start /\ fgUTF16BPre_len = length fgUTF16BPre /\
  fgUTF16LPre = enc_units UTF_16L xml_decl_start /\ fgUTF16LPre_len = length fgUTF16LPre /\
  fgUCS4BPre = enc_units UCS_4B xml_decl_start /\ fgUCS4BPre_len = length fgUCS4BPre /\
  fgUCS4LPre = enc_units UCS_4L xml_decl_start /\ fgUCS4LPre_len = length fgUCS4LPre /\
  fgEBCDICPre = enc_units EBCDIC xml_decl_start /\ fgEBCDICPre_len = length fgEBCDICPre /\
  fgUTF8BOM = [0xEF; 0xBB; 0xBF].
Proof. vm_compute. repeat split. Qed.

(** every entity beginning with `<?xml ` encoded in family e is recognised as e (for EBCDIC at least one
    more byte must follow, as the code demands) *)
Theorem probe_decl : forall e rest, (e = EBCDIC -> rest <> []) ->
  probe (enc_units e xml_decl_start ++ rest) = e.
Proof.
  intros e rest He. destruct e.
  - (* EBCDIC *) destruct rest as [|r0 rest]; [exfalso; apply He; reflexivity|]. vm_compute. reflexivity.
  - vm_compute. reflexivity.
  - vm_compute. reflexivity.
  - vm_compute. reflexivity.
  - vm_compute. reflexivity.
  - vm_compute. reflexivity.
Qed.

(** byte order marks *)
Theorem probe_bom16 : forall b2 b3 rest, ~ (b2 = 0 /\ b3 = 0) ->
  probe (0xFE :: 0xFF :: b2 :: b3 :: rest) = UTF_16B /\ probe (0xFF :: 0xFE :: b2 :: b3 :: rest) = UTF_16L.
Proof.
  intros b2 b3 rest H. unfold probe, has_prefix. cbn [length firstn byte_at nth].
  split.
  - vm_compute. reflexivity.
  - change (0xFF =? 0xFE) with false. cbn [andb]. 
    destruct (N.eqb_spec b2 0); destruct (N.eqb_spec b3 0); try (exfalso; apply H; split; assumption); vm_compute; reflexivity.
Qed.

Theorem probe_bom4 : forall rest,
  probe (0x00 :: 0x00 :: 0xFE :: 0xFF :: rest) = UCS_4B /\ probe (0xFF :: 0xFE :: 0x00 :: 0x00 :: rest) = UCS_4L.
Proof. intros rest. split; vm_compute; reflexivity. Qed.

(** anything that starts with an ASCII-compatible `<` that is not one of the prefixes is read as UTF-8 *)
Theorem probe_utf8_bom : forall rest, probe (0xEF :: 0xBB :: 0xBF :: rest) = UTF_8.
Proof.
  intros rest. destruct rest as [|r0 rest]; [vm_compute; reflexivity|].
  unfold probe, has_prefix. cbn [length firstn byte_at nth].
  destruct rest as [|r1 [|r2 [|r3 rest]]]; vm_compute; reflexivity.
Qed.
