(** The recognizer as a decision: XMLRecognizer::basicEncodingProbe computes exactly the detection of XML 1.0
    Appendix F.1 (Spec05s.spec_detect) for EVERY byte string of every length: the length tiers (< 2, < 4 bytes),
    the `rawByteCount >= len` conjuncts, the first-byte gate in front of the UTF-16/UCS-4 prefixes and the
    early test for the ASCII prefix never change the answer. *)
From XV Require Import C05.Spec05 C05.Spec05s C05.Model05 C05.Model05r C05.Proofs05r.
From Coq Require Import ZArith ZifyBool ZifyN ZifyNat Lia Bool.
Local Open Scope N_scope.

Definition family_of_enc (e : enc) : family :=
  match e with
  | EBCDIC => FamEBCDIC | UCS_4B => Fam32B | UCS_4L => Fam32L | UTF_8 => FamByte | UTF_16B => Fam16B | UTF_16L => Fam16L
  end.

Lemma prefix_sw : forall pre raw,
  list_eqb (firstn (length pre) raw) (firstn (length pre) pre) && Nat.leb (length pre) (length raw) = starts_with pre raw.
Proof.
  induction pre as [|p pre IH]; intros raw.
  - reflexivity.
  - destruct raw as [|r raw]; [reflexivity|].
    cbn [length firstn list_eqb starts_with Nat.leb]. rewrite <- IH, andb_assoc. reflexivity.
Qed.

Lemma has_prefix_sw : forall pre len raw, len = length pre -> has_prefix pre len raw = starts_with pre raw.
Proof. intros pre len raw E. subst len. unfold has_prefix. apply prefix_sw. Qed.

Lemma ebcdic_sw : forall pre len raw, len = length pre ->
  list_eqb (firstn len raw) (firstn len pre) && Nat.ltb len (length raw) = starts_with pre raw && Nat.ltb len (length raw).
Proof.
  intros pre len raw E. subst len. rewrite <- prefix_sw.
  destruct (Nat.ltb (length pre) (length raw)) eqn:L.
  - apply Nat.ltb_lt in L. assert (H : Nat.leb (length pre) (length raw) = true) by (apply Nat.leb_le; lia).
    rewrite H, !andb_true_r. reflexivity.
  - rewrite !andb_false_r. reflexivity.
Qed.

(** the probe with every prefix test written as [starts_with] *)
Definition probe_sw (raw : list N) : enc :=
  let n := length raw in
  if starts_with fgASCIIPre raw then UTF_8 else
  if Nat.ltb n 2 then UTF_8 else
  let b0 := byte_at raw 0 in let b1 := byte_at raw 1 in let b2 := byte_at raw 2 in let b3 := byte_at raw 3 in
  if Nat.ltb n 4 then
    (if (b0 =? 0xFE) && (b1 =? 0xFF) then UTF_16B else if (b0 =? 0xFF) && (b1 =? 0xFE) then UTF_16L else UTF_8)
  else
  if (b0 =? 0x00) && (b1 =? 0x00) && (b2 =? 0xFE) && (b3 =? 0xFF) then UCS_4B else
  if (b0 =? 0xFF) && (b1 =? 0xFE) && (b2 =? 0x00) && (b3 =? 0x00) then UCS_4L else
  if (b0 =? 0xFE) && (b1 =? 0xFF) then UTF_16B else
  if (b0 =? 0xFF) && (b1 =? 0xFE) then UTF_16L else
  let pre4 :=
    if (b0 =? 0x00) || (b0 =? 0x3C) then
      if starts_with fgUCS4BPre raw then Some UCS_4B
      else if starts_with fgUCS4LPre raw then Some UCS_4L
      else if starts_with fgUTF16BPre raw then Some UTF_16B
      else if starts_with fgUTF16LPre raw then Some UTF_16L
      else None
    else None in
  match pre4 with
  | Some e => e
  | None => if starts_with fgEBCDICPre raw && Nat.ltb fgEBCDICPre_len n then EBCDIC else UTF_8
  end.

Lemma probe_probe_sw : forall raw, probe raw = probe_sw raw.
Proof.
  intros raw. unfold probe, probe_sw.
  rewrite (has_prefix_sw fgASCIIPre fgASCIIPre_len raw eq_refl).
  rewrite (has_prefix_sw fgUCS4BPre fgUCS4BPre_len raw eq_refl).
  rewrite (has_prefix_sw fgUCS4LPre fgUCS4LPre_len raw eq_refl).
  rewrite (has_prefix_sw fgUTF16BPre fgUTF16BPre_len raw eq_refl).
  rewrite (has_prefix_sw fgUTF16LPre fgUTF16LPre_len raw eq_refl).
  rewrite (ebcdic_sw fgEBCDICPre fgEBCDICPre_len raw eq_refl).
  reflexivity.
Qed.

(** the generated prefixes are the specification's patterns *)
Lemma prefixes_spec :
  fgASCIIPre = in_family FamByte decl_start /\ fgUCS4BPre = in_family Fam32B decl_start /\
  fgUCS4LPre = in_family Fam32L decl_start /\ fgUTF16BPre = in_family Fam16B decl_start /\
  fgUTF16LPre = in_family Fam16L decl_start /\ fgEBCDICPre = in_family FamEBCDIC decl_start /\
  fgEBCDICPre_len = 6%nat.
Proof. vm_compute. repeat split. Qed.

Lemma byte_cases : forall b,
  b = 0x00 \/ b = 0x3C \/ b = 0xFE \/ b = 0xFF \/ b = 0x4C \/ b = 0x3F \/
  ((b =? 0x00) = false /\ (b =? 0x3C) = false /\ (b =? 0xFE) = false /\ (b =? 0xFF) = false /\ (b =? 0x4C) = false /\
   (b =? 0x3F) = false).
Proof.
  intros b.
  destruct (N.eqb_spec b 0x00); [tauto|]. destruct (N.eqb_spec b 0x3C); [tauto|].
  destruct (N.eqb_spec b 0xFE); [tauto|]. destruct (N.eqb_spec b 0xFF); [tauto|].
  destruct (N.eqb_spec b 0x4C); [tauto|]. destruct (N.eqb_spec b 0x3F); [tauto|].
  right; right; right; right; right; right. tauto.
Qed.

(** evaluate every comparison between two literals *)
Ltac eval_closed_eqb :=
  repeat match goal with
  | |- context [N.eqb ?a ?b] =>
      tryif is_var a then fail else
      (let v := eval vm_compute in (N.eqb a b) in change (N.eqb a b) with v)
  end.

Ltac bsimp := cbn [andb orb negb]; rewrite <- ?andb_assoc; rewrite ?andb_false_r, ?andb_true_r, ?orb_false_r, ?orb_true_r; cbn [andb orb negb].

Ltac split_ifs :=
  repeat match goal with
  | |- context [if ?c then _ else _] => destruct c
  end; try reflexivity.

Ltac others H :=
  destruct H as (E1 & E2 & E3 & E4 & E5 & E6); rewrite ?E1, ?E2, ?E3, ?E4, ?E5, ?E6.

Lemma probe_sw_decision : forall raw, family_of_enc (probe_sw raw) = spec_detect raw.
Proof.
  intros raw. unfold probe_sw, spec_detect.
  destruct prefixes_spec as (A1 & A2 & A3 & A4 & A5 & A6 & A7).
  rewrite A1, A2, A3, A4, A5, A6, A7. clear A1 A2 A3 A4 A5 A6 A7.
  change (in_family FamByte decl_start) with [0x3C; 0x3F; 0x78; 0x6D; 0x6C; 0x20].
  change (in_family Fam32B decl_start) with
    [0;0;0;0x3C; 0;0;0;0x3F; 0;0;0;0x78; 0;0;0;0x6D; 0;0;0;0x6C; 0;0;0;0x20].
  change (in_family Fam32L decl_start) with
    [0x3C;0;0;0; 0x3F;0;0;0; 0x78;0;0;0; 0x6D;0;0;0; 0x6C;0;0;0; 0x20;0;0;0].
  change (in_family Fam16B decl_start) with [0;0x3C; 0;0x3F; 0;0x78; 0;0x6D; 0;0x6C; 0;0x20].
  change (in_family Fam16L decl_start) with [0x3C;0; 0x3F;0; 0x78;0; 0x6D;0; 0x6C;0; 0x20;0].
  change (in_family FamEBCDIC decl_start) with [0x4C; 0x6F; 0xA7; 0x94; 0x93; 0x40].
  destruct raw as [|b0 [|b1 [|b2 [|b3 rest]]]].
  - reflexivity.
  - cbn [starts_with length byte_at nth Nat.ltb Nat.leb]. bsimp. reflexivity.
  - (* two bytes *)
    cbn [starts_with length byte_at nth Nat.ltb Nat.leb]. bsimp.
    destruct (byte_cases b0) as [E|[E|[E|[E|[E|[E|E]]]]]]; try subst b0; try others E; eval_closed_eqb; bsimp; split_ifs.
  - (* three bytes *)
    cbn [starts_with length byte_at nth Nat.ltb Nat.leb]. bsimp.
    destruct (byte_cases b0) as [E|[E|[E|[E|[E|[E|E]]]]]]; try subst b0; try others E; eval_closed_eqb; bsimp; split_ifs.
  - (* at least four bytes *)
    cbn [length byte_at nth]. change (Nat.ltb (S (S (S (S (length rest))))) 2) with false.
    change (Nat.ltb (S (S (S (S (length rest))))) 4) with false. cbn iota.
    cbn [starts_with].
    destruct (byte_cases b0) as [E|[E|[E|[E|[E|[E|E]]]]]]; try subst b0; try others E; eval_closed_eqb; bsimp.
    + (* 00 *) destruct (byte_cases b1) as [F|[F|[F|[F|[F|[F|F]]]]]]; try subst b1; try others F; eval_closed_eqb; bsimp;
               split_ifs.
    + (* 3C *) destruct (byte_cases b1) as [F|[F|[F|[F|[F|[F|F]]]]]]; try subst b1; try others F; eval_closed_eqb; bsimp;
               destruct (byte_cases b2) as [G|[G|[G|[G|[G|[G|G]]]]]]; try subst b2; try others G; eval_closed_eqb; bsimp;
               split_ifs.
    + (* FE *) split_ifs.
    + (* FF *) split_ifs.
    + (* 4C *) split_ifs.
    + (* 3F *) split_ifs.
    + split_ifs.
Qed.

Theorem probe_decision : forall raw, family_of_enc (probe raw) = spec_detect raw.
Proof. intros raw. rewrite probe_probe_sw. apply probe_sw_decision. Qed.

(** consequences read off the specification: the two UCS-4 octet orders XML lists as "unusual" (2143, 3412) are
    not UCS-4 for this processor: the first is read as bytes, the second as UTF-16 BE followed by U+0000 *)
Lemma probe_unusual_orders : forall rest,
  probe (0x00 :: 0x00 :: 0xFF :: 0xFE :: rest) = UTF_8 /\ probe (0xFE :: 0xFF :: 0x00 :: 0x00 :: rest) = UTF_16B.
Proof.
  intros rest. split.
  - assert (H := probe_decision (0x00 :: 0x00 :: 0xFF :: 0xFE :: rest)).
    destruct (probe _); try reflexivity; exfalso; revert H; unfold spec_detect; cbn [starts_with in_family decl_start flat_map app];
      eval_closed_eqb; bsimp; cbn [family_of_enc]; discriminate.
  - assert (H := probe_decision (0xFE :: 0xFF :: 0x00 :: 0x00 :: rest)).
    destruct (probe _); try reflexivity; exfalso; revert H; unfold spec_detect; cbn [starts_with in_family decl_start flat_map app];
      eval_closed_eqb; bsimp; cbn [family_of_enc]; discriminate.
Qed.
