(** Executable models of the intrinsic transcoders, following the C++ line by line.
    - XMLUTF8Transcoder::transcodeFrom / transcodeTo / canTranscodeTo   (src/xercesc/util/XMLUTF8Transcoder.cpp)
    - XMLUCS4Transcoder::transcodeFrom / transcodeTo                    (XMLUCS4Transcoder.cpp)
    - XMLUTF16Transcoder::transcodeFrom / transcodeTo                   (XMLUTF16Transcoder.cpp)
    - XML256TableTranscoder::transcodeFrom / transcodeTo / xlatOneTo / canTranscodeTo
    - XML88591Transcoder / XMLASCIITranscoder
    No proofs here, so that the models still extract and run when a proof breaks.
    Tables come from the generated files Gen/GenUtf8.v and Gen/GenTables.v. *)
From XV Require Export Base.XDefs.
From XV Require Export Gen.GenUtf8 Gen.GenTables.
Local Open Scope N_scope.

Inductive xerr : Type :=
| E_UTF8_FormatError | E_UTF8_Invalid_3BytesSeq | E_UTF8_Irregular_3BytesSeq | E_UTF8_Invalid_4BytesSeq
| E_UTF8_Exceeds_BytesLimit | E_Trans_BadSrcSeq | E_Trans_Unrepresentable | E_Trans_BadTrailingSurrogate
| E_Fuel.

Definition w32 : N := 4294967296.
Definition sub32 (a b : N) : N := (a + w32 - b) mod w32.   (* unsigned 32-bit subtraction *)

(* ------------------------------------------------------------------------------------------- *)
(** * UTF-8 decoding: XMLUTF8Transcoder::transcodeFrom *)

(** checkTrailingBytes: [(toCheck & 0xC0) != 0x80] *)
Definition trail_bad (b : N) : bool := negb (N.land b 0xC0 =? 0x80).

Inductive sres : Type :=
| SStop                         (* leave the loop: need more source bytes, or no room *)
| SBreak32                      (* value > 0x10FFFF after more than 32 chars: break, error on the next call *)
| SErr (e : xerr)
| SOut (u : list N) (n : nat).  (* one or two UTF-16 units produced from n source bytes *)

(** one iteration of the main loop.  [room] = outEnd - outPtr, [produced] = outPtr - toFill.
    (the ASCII run special case is the same function of the input as decoding it byte by byte) *)
Definition x8_step (src : list N) (room produced : nat) : sres :=
  match src with
  | [] => SStop
  | b0 :: rest =>
    if Nat.eqb room 0 then SStop else
    if b0 <=? 127 then SOut [b0] 1 else
    let tb := tbl gUTFBytes b0 in
    (* if (srcPtr + trailingBytes >= srcEnd) break; *)
    if Nat.ltb (length rest) (N.to_nat tb) then SStop else
    (* first byte test *)
    if negb (N.land (tbl gUTFByteIndicatorTest tb) b0 =? tbl gUTFByteIndicator tb) then SErr E_UTF8_FormatError else
    let finish (tmp : N) :=
      let v := sub32 tmp (tbl gUTFOffsets tb) in
      if N.land v 0xFFFF0000 =? 0 then SOut [v] (N.to_nat tb + 1)
      else if 0x10FFFF <? v then
        (if Nat.ltb 32 produced then SBreak32 else SErr E_Trans_BadSrcSeq)
      else if Nat.leb room 1 then SStop       (* outPtr + 1 >= outEnd: pretend it never happened *)
      else let w := v - 0x10000 in
           SOut [N.shiftr w 10 + 0xD800; N.land w 0x3FF + 0xDC00] (N.to_nat tb + 1) in
    match tb, rest with
    | 1, b1 :: _ =>
        if trail_bad b1 then SErr E_UTF8_FormatError else
        finish (N.shiftl b0 6 + b1)
    | 2, b1 :: b2 :: _ =>
        if (b0 =? 0xE0) && (b1 <? 0xA0) then SErr E_UTF8_Invalid_3BytesSeq else
        if trail_bad b1 then SErr E_UTF8_FormatError else
        if trail_bad b2 then SErr E_UTF8_FormatError else
        if (b0 =? 0xED) && (0xA0 <=? b1) then SErr E_UTF8_Irregular_3BytesSeq else
        finish (N.shiftl (N.shiftl b0 6 + b1) 6 + b2)
    | 3, b1 :: b2 :: b3 :: _ =>
        if ((b0 =? 0xF0) && (b1 <? 0x90)) || ((b0 =? 0xF4) && (0x8F <? b1)) then SErr E_UTF8_Invalid_4BytesSeq else
        if trail_bad b1 then SErr E_UTF8_FormatError else
        if trail_bad b2 then SErr E_UTF8_FormatError else
        if trail_bad b3 then SErr E_UTF8_FormatError else
        finish (N.shiftl (N.shiftl (N.shiftl b0 6 + b1) 6 + b2) 6 + b3)
    | _, _ => SErr E_UTF8_Exceeds_BytesLimit
    end
  end.

(** charSizes entries for one step *)
Definition sizes_of (u : list N) (n : nat) : list N :=
  match u with [_; _] => [N.of_nat n; 0] | _ => [N.of_nat n] end.

(** the loop; result = (chars written, charSizes, bytesEaten) *)
Fixpoint x8_loop (fuel : nat) (src : list N) (room produced : nat) : res (list N * list N * nat) xerr :=
  match fuel with
  | O => Err E_Fuel
  | S f =>
    match x8_step src room produced with
    | SStop | SBreak32 => Ok ([], [], O)
    | SErr e => Err e
    | SOut u n =>
      match x8_loop f (skipn n src) (room - length u) (produced + length u) with
      | Ok (o, s, e) => Ok (u ++ o, sizes_of u n ++ s, (n + e)%nat)
      | Err e => Err e
      end
    end
  end.

Definition x8_from (src : list N) (maxChars : nat) : res (list N * list N * nat) xerr :=
  x8_loop (S (length src)) src maxChars 0.

(* ------------------------------------------------------------------------------------------- *)
(** * UTF-8 encoding: XMLUTF8Transcoder::transcodeTo *)

Inductive tres : Type :=
| TStop
| TErr (e : xerr)
| TOut (bs : list N) (used : nat).

Definition enc_bytes (cur : N) (n : nat) : list N :=
  (* the fall-through switch writing continuation bytes from the end, then the first byte *)
  let cont v := N.land (N.lor v 0x80) 0xBF in
  match n with
  | 1%nat => [N.lor cur (tbl gFirstByteMark 1) mod 256]
  | 2%nat => [N.lor (N.shiftr cur 6) (tbl gFirstByteMark 2) mod 256; cont cur mod 256]
  | 3%nat => [N.lor (N.shiftr cur 12) (tbl gFirstByteMark 3) mod 256; cont (N.shiftr cur 6) mod 256; cont cur mod 256]
  | _ => [N.lor (N.shiftr cur 18) (tbl gFirstByteMark 4) mod 256; cont (N.shiftr cur 12) mod 256;
          cont (N.shiftr cur 6) mod 256; cont cur mod 256]
  end.

(** one iteration.  [throw] = (options == UnRep_Throw); [room] = outEnd - outPtr *)
Definition x8_to_step (src : list N) (room : nat) (throw : bool) : tres :=
  match src with
  | [] => TStop
  | u :: rest =>
    let lead := (0xD800 <=? u) && (u <=? 0xDBFF) in
    let enc (cur : N) (used : nat) : tres :=
      let n := if cur <? 0x80 then 1%nat else if cur <? 0x800 then 2%nat else if cur <? 0x10000 then 3%nat
               else if cur <? 0x110000 then 4%nat else 0%nat in
      match n with
      | O => if throw then TErr E_Trans_Unrepresentable else TOut [32] used   (* replacement, no room check *)
      | _ => if Nat.ltb room n then TStop else TOut (enc_bytes cur n) used
      end in
    if lead then
      match rest with
      | [] => TStop                                  (* leave the leading surrogate for the next call *)
      | t :: _ =>
        (* after the repair (F7): the next unit must be a trailing surrogate *)
        if (t <? 0xDC00) || (0xDFFF <? t) then TErr E_Trans_BadTrailingSurrogate else
        (* ((curVal - 0xD800) << 10) + ((trailCh - 0xDC00) + 0x10000), 32-bit unsigned wrap *)
        enc (((u - 0xD800) * 1024 + (t + w32 - 0xDC00) + 0x10000) mod w32) 2%nat
      end
    else if (0xDC00 <=? u) && (u <=? 0xDFFF) then TErr E_Trans_BadSrcSeq   (* trailing surrogate on its own *)
    else enc u 1%nat
  end.

Fixpoint x8_to_loop (fuel : nat) (src : list N) (room : nat) (throw : bool) : res (list N * nat) xerr :=
  match fuel with
  | O => Err E_Fuel
  | S f =>
    match x8_to_step src room throw with
    | TStop => Ok ([], O)
    | TErr e => Err e
    | TOut bs used =>
      match x8_to_loop f (skipn used src) (room - length bs) throw with
      | Ok (o, e) => Ok (bs ++ o, (used + e)%nat)
      | Err e => Err e
      end
    end
  end.

(** result = (bytes written, charsEaten) *)
Definition x8_to (src : list N) (maxBytes : nat) (throw : bool) : res (list N * nat) xerr :=
  match src, maxBytes with
  | [], _ | _, O => Ok ([], O)
  | _, _ => x8_to_loop (S (length src)) src maxBytes throw
  end.

Definition x8_can (c : N) : bool := c <=? 0x10FFFF.

(* ------------------------------------------------------------------------------------------- *)
(** * UCS-4: XMLUCS4Transcoder (host is little endian; [swapped] = the encoding's order differs) *)

(** reading a UCS4Ch from memory on the little-endian host, then swapBytes when fSwapped *)
Definition ucs4_val (swapped : bool) (b0 b1 b2 b3 : N) : N :=
  if swapped then b3 + 256 * b2 + 65536 * b1 + 16777216 * b0
  else b0 + 256 * b1 + 65536 * b2 + 16777216 * b3.

(** decode step; after the repair (fix: commit) values that are not Unicode scalar values are rejected *)
Definition u4_step (swapped : bool) (src : list N) (room : nat) : sres :=
  match src with
  | b0 :: b1 :: b2 :: b3 :: _ =>
    if Nat.eqb room 0 then SStop else
    let v := ucs4_val swapped b0 b1 b2 b3 in
    if (0x10FFFF <? v) || ((0xD800 <=? v) && (v <=? 0xDFFF)) then SErr E_Trans_BadSrcSeq else
    if negb (N.land v 0xFFFF0000 =? 0) then
      if Nat.eqb room 1 then SStop else
      (* LEAD_OFFSET = 0xD800 - (0x10000 >> 10) = 0xD7C0 *)
      SOut [(0xD7C0 + N.shiftr v 10) mod 65536; (0xDC00 + N.land v 0x3FF) mod 65536] 4
    else SOut [v mod 65536] 4
  | _ => SStop
  end.

Fixpoint u4_loop (fuel : nat) (sw : bool) (src : list N) (room : nat) : res (list N * list N * nat) xerr :=
  match fuel with
  | O => Err E_Fuel
  | S f =>
    match u4_step sw src room with
    | SStop | SBreak32 => Ok ([], [], O)
    | SErr e => Err e
    | SOut u n =>
      match u4_loop f sw (skipn n src) (room - length u) with
      | Ok (o, s, e) => Ok (u ++ o, sizes_of u n ++ s, (n + e)%nat)
      | Err e => Err e
      end
    end
  end.

Definition u4_from (sw : bool) (src : list N) (maxChars : nat) := u4_loop (S (length src)) sw src maxChars.

Definition ucs4_bytes (swapped : bool) (v : N) : list N :=
  let b0 := v mod 256 in let b1 := (v / 256) mod 256 in
  let b2 := (v / 65536) mod 256 in let b3 := (v / 16777216) mod 256 in
  if swapped then [b3; b2; b1; b0] else [b0; b1; b2; b3].

(** encode step: [room] in UCS4Ch units (maxBytes / 4) *)
Definition u4_to_step (swapped : bool) (src : list N) (room : nat) : tres :=
  match src with
  | [] => TStop
  | u :: rest =>
    if Nat.eqb room 0 then TStop else
    if (0xD800 <=? u) && (u <=? 0xDBFF) then
      match rest with
      | [] => TStop
      | t :: _ =>
        if negb ((0xDC00 <=? t) && (t <=? 0xDFFF)) then TErr E_Trans_BadTrailingSurrogate else
        (* (curCh << 10) + trailCh + SURROGATE_OFFSET;  SURROGATE_OFFSET = 0x10000 - (0xD800<<10) - 0xDC00;
           after the repair the combined value is byte-swapped like any other *)
        TOut (ucs4_bytes swapped ((u * 1024 + t + w32 + 0x10000 - 0xD800 * 1024 - 0xDC00) mod w32)) 2
      end
    else TOut (ucs4_bytes swapped u) 1
  end.

Fixpoint u4_to_loop (fuel : nat) (sw : bool) (src : list N) (room : nat) : res (list N * nat) xerr :=
  match fuel with
  | O => Err E_Fuel
  | S f =>
    match u4_to_step sw src room with
    | TStop => Ok ([], O)
    | TErr e => Err e
    | TOut bs used =>
      match u4_to_loop f sw (skipn used src) (room - 1) with
      | Ok (o, e) => Ok (bs ++ o, (used + e)%nat)
      | Err e => Err e
      end
    end
  end.

Definition u4_to (sw : bool) (src : list N) (maxBytes : nat) := u4_to_loop (S (length src)) sw src (Nat.div maxBytes 4).

(* ------------------------------------------------------------------------------------------- *)
(** * UTF-16: XMLUTF16Transcoder (copy, optionally byte swapped; no validation at this level) *)

Fixpoint u16_from (swapped : bool) (src : list N) (maxChars : nat) : list N :=
  match maxChars, src with
  | S m, b0 :: b1 :: rest => (if swapped then b1 + 256 * b0 else b0 + 256 * b1) :: u16_from swapped rest m
  | _, _ => []
  end.

Fixpoint u16_to (swapped : bool) (src : list N) (maxUnits : nat) : list N :=
  match maxUnits, src with
  | S m, u :: rest => (if swapped then [u / 256; u mod 256] else [u mod 256; u / 256]) ++ u16_to swapped rest m
  | _, _ => []
  end.

(* ------------------------------------------------------------------------------------------- *)
(** * XML256TableTranscoder *)

Definition tab_from (from : list N) (src : list N) (maxChars : nat) : list N * nat :=
  let todo := Nat.min (length src) maxChars in
  (* entries equal to 0xFFFF are silently skipped but still counted as returned chars *)
  (filter (fun c => negb (c =? 0xFFFF)) (map (tbl from) (firstn todo src)), todo).

Definition intCh (t : list (N * N)) (i : N) : N := fst (nth (N.to_nat i) t (0, 0)).
Definition extCh (t : list (N * N)) (i : N) : N := snd (nth (N.to_nat i) t (0, 0)).

(** xlatOneTo: the do/while binary search exactly as written *)
Fixpoint xlat_loop (fuel : nat) (t : list (N * N)) (c lo hi : N) : N :=
  match fuel with
  | O => 0
  | S f =>
    let mid := (hi - lo) / 2 + lo in
    if intCh t mid <? c then
      (if mid + 1 <? hi then xlat_loop f t c mid hi else if c =? intCh t hi then extCh t hi else 0)
    else if c <? intCh t mid then
      (if lo + 1 <? mid then xlat_loop f t c lo mid else if c =? intCh t mid then extCh t mid else 0)
    else extCh t mid
  end.

Definition xlat_to (t : list (N * N)) (sz : N) (c : N) : N := xlat_loop 64 t c 0 (sz - 1).

(** canTranscodeTo(unsigned int toCheck); after the repair values above 0xFFFF are not truncated *)
Definition tab_can (t : list (N * N)) (sz : N) (c : N) : bool :=
  if 0xFFFF <? c then false else negb (xlat_to t sz c =? 0).

Definition tab_to (t : list (N * N)) (sz : N) (src : list N) (maxBytes : nat) (throw : bool)
  : res (list N * nat) xerr :=
  let todo := Nat.min (length src) maxBytes in
  let fix go (l : list N) : res (list N) xerr :=
    match l with
    | [] => Ok []
    | u :: r =>
      let b := xlat_to t sz u in
      if negb (b =? 0) then match go r with Ok o => Ok (b :: o) | Err e => Err e end
      else if throw then Err E_Trans_Unrepresentable
      else match go r with Ok o => Ok (0x3F :: o) | Err e => Err e end
    end in
  match go (firstn todo src) with Ok o => Ok (o, todo) | Err e => Err e end.

(** XMLASCIITranscoder::transcodeFrom: identity below 0x80; a non-ASCII byte throws, unless more than 32
    chars were already done in this call (then break and fail on the next call) *)
Fixpoint ascii_go (l : list N) (done : nat) : res (list N) xerr :=
  match l with
  | [] => Ok []
  | b :: r =>
    if b <? 0x80 then match ascii_go r (S done) with Ok o => Ok (b :: o) | Err e => Err e end
    else if Nat.ltb 32 done then Ok [] else Err E_Trans_Unrepresentable
  end.
Definition ascii_from (src : list N) (maxChars : nat) : res (list N) xerr :=
  ascii_go (firstn (Nat.min (length src) maxChars) src) 0.

(** XML88591Transcoder::transcodeFrom: plain widening of each byte *)
Definition l1_from (src : list N) (maxChars : nat) : list N := firstn (Nat.min (length src) maxChars) src.

(** canTranscodeTo of the two: below 0x80 / below 0x100 *)
Definition id_can (lim : N) (c : N) : bool := c <? lim.
