(** C05 proofs, part e: UCS-4, UTF-16 and the single-byte table transcoders. *)
From XV Require Import C05.Spec05 C05.Model05 C05.Proofs05a C05.Proofs05b C05.Proofs05c.
From Coq Require Import ZArith ZifyBool ZifyN ZifyNat Lia.
Ltac Zify.zify_post_hook ::= Z.div_mod_to_equations.
Local Open Scope N_scope.

(* ---------------------------------------------------------------------------------------- *)
(** * UCS-4 *)

Lemma ucs4_val_lt : forall sw b0 b1 b2 b3, b0 < 256 -> b1 < 256 -> b2 < 256 -> b3 < 256 -> ucs4_val sw b0 b1 b2 b3 < w32.
Proof. intros sw b0 b1 b2 b3 H0 H1 H2 H3. unfold ucs4_val, w32. destruct sw; lia. Qed.

Lemma SOut_inj : forall u n u' n', SOut u n = SOut u' n' -> u = u' /\ n = n'.
Proof. intros u n u' n' H. inversion H. split; reflexivity. Qed.

(** decode: whatever is accepted is the UCS-4 form of a scalar value, and it is decoded to exactly it *)
Theorem u4_step_sound : forall sw src room u n, bytes src -> u4_step sw src room = SOut u n ->
  exists c, scalar c /\ firstn 4 src = ucs4_enc sw c /\ u = utf16_enc c /\ n = 4%nat /\ (length u <= room)%nat.
Proof.
  intros sw src room u n Hb H. destruct src as [|b0 [|b1 [|b2 [|b3 r]]]]; try discriminate.
  apply bytes_cons in Hb. destruct Hb as [H0 Hb]. apply bytes_cons in Hb. destruct Hb as [H1 Hb].
  apply bytes_cons in Hb. destruct Hb as [H2 Hb]. apply bytes_cons in Hb. destruct Hb as [H3 _].
  unfold u4_step in H. destruct (Nat.eqb_spec room 0) as [|Hr]; [discriminate|]. cbv zeta in H.
  pose proof (ucs4_val_lt sw b0 b1 b2 b3 H0 H1 H2 H3) as Hlt.
  set (v := ucs4_val sw b0 b1 b2 b3) in *.
  destruct ((0x10FFFF <? v) || ((0xD800 <=? v) && (v <=? 0xDFFF))) eqn:Hbad; [discriminate|].
  rewrite (land_hi16 v Hlt), shiftr_div, land_3FF in H. change (2^10) with 1024 in H.
  assert (Henc : [b0; b1; b2; b3] = ucs4_enc sw v).
  { unfold ucs4_enc, v, ucs4_val. destruct sw; repeat (f_equal; try lia). }
  clearbody v.
  destruct (N.ltb_spec v 65536) as [Hs|Hbig]; cbn [negb] in H.
  - apply SOut_inj in H. destruct H as [Hu Hn]. subst u n. exists v. repeat split.
    + apply scalar_bounds. lia.
    + exact Henc.
    + rewrite utf16_enc_small by lia. f_equal. apply N.mod_small. lia.
    + cbn [length]. lia.
  - destruct (Nat.eqb_spec room 1); [discriminate|]. apply SOut_inj in H. destruct H as [Hu Hn]. subst u n. exists v. repeat split.
    + apply scalar_bounds. lia.
    + exact Henc.
    + rewrite utf16_enc_big by lia. f_equal; [lia|f_equal; lia].
    + cbn [length]. lia.
Qed.

Lemma ucs4_enc_shape : forall sw c, c < w32 ->
  exists a b c' d, ucs4_enc sw c = [a; b; c'; d] /\ ucs4_val sw a b c' d = c.
Proof.
  intros sw c Hc. unfold ucs4_enc, w32 in *. cbv zeta.
  destruct sw; do 4 eexists; (split; [reflexivity|]); unfold ucs4_val; lia.
Qed.

Theorem u4_step_complete : forall sw c rest room, scalar c -> (length (utf16_enc c) <= room)%nat ->
  u4_step sw (ucs4_enc sw c ++ rest) room = SOut (utf16_enc c) 4.
Proof.
  intros sw c rest room Hc Hroom. apply scalar_bounds in Hc. pose proof (utf16_enc_len c) as Hl.
  destruct (ucs4_enc_shape sw c) as (a & b & c' & d & Es & Ev); [unfold w32; lia|].
  rewrite Es. cbn [app]. unfold u4_step. rewrite Ev.
  destruct (Nat.eqb_spec room 0); [lia|].
  assert (Eb : ((0x10FFFF <? c) || ((0xD800 <=? c) && (c <=? 0xDFFF))) = false) by lia. rewrite Eb.
  rewrite (land_hi16 c) by (unfold w32; lia). rewrite shiftr_div, land_3FF. change (2^10) with 1024.
  destruct (N.ltb_spec c 65536); cbn [negb].
  - rewrite utf16_enc_small by lia. f_equal. f_equal. apply N.mod_small. lia.
  - rewrite utf16_enc_big in * by lia. cbn [length] in Hroom. destruct (Nat.eqb_spec room 1); [lia|].
    f_equal. f_equal; [lia|f_equal; lia].
Qed.

(** encode: a scalar value's UTF-16 form is written as its four bytes in the requested byte order
    (including supplementary characters -- that is the repaired defect) *)
Theorem u4_to_step_complete : forall sw c rest room, scalar c -> (0 < room)%nat ->
  u4_to_step sw (utf16_enc c ++ rest) room = TOut (ucs4_enc sw c) (length (utf16_enc c)).
Proof.
  intros sw c rest room Hc Hroom. apply scalar_bounds in Hc. unfold utf16_enc.
  destruct (N.ltb_spec c 0x10000).
  - cbn [app length u4_to_step]. destruct (Nat.eqb_spec room 0); [lia|].
    assert (E : ((0xD800 <=? c) && (c <=? 0xDBFF)) = false) by lia. rewrite E. reflexivity.
  - cbn [app length u4_to_step]. destruct (Nat.eqb_spec room 0); [lia|].
    remember (0xD800 + (c - 0x10000) / 1024) as u eqn:Eu. remember (0xDC00 + (c - 0x10000) mod 1024) as t eqn:Et.
    assert (E : ((0xD800 <=? u) && (u <=? 0xDBFF)) = true) by lia. rewrite E.
    assert (E2 : ((0xDC00 <=? t) && (t <=? 0xDFFF)) = true) by lia. rewrite E2. cbn [negb].
    assert (Ev : (u * 1024 + t + w32 + 0x10000 - 0xD800 * 1024 - 0xDC00) mod w32 = c) by (unfold w32; lia).
    rewrite Ev. reflexivity.
Qed.

(** an unpaired leading surrogate followed by a non-trailing unit is an error, never output *)
Theorem u4_to_bad_trail : forall sw u t rest room, (0 < room)%nat -> 0xD800 <= u <= 0xDBFF -> ~ (0xDC00 <= t <= 0xDFFF) ->
  u4_to_step sw (u :: t :: rest) room = TErr E_Trans_BadTrailingSurrogate.
Proof.
  intros sw u t rest room Hr Hu Ht. cbn [u4_to_step]. destruct (Nat.eqb_spec room 0); [lia|].
  assert (E : ((0xD800 <=? u) && (u <=? 0xDBFF)) = true) by lia. rewrite E.
  assert (E2 : ((0xDC00 <=? t) && (t <=? 0xDFFF)) = false) by lia. rewrite E2. reflexivity.
Qed.

(* ---------------------------------------------------------------------------------------- *)
(** * UTF-16 *)

Definition unit16 (u : N) : Prop := u < 65536.

Theorem u16_roundtrip : forall sw w m, Forall unit16 w -> (length w <= m)%nat -> u16_from sw (u16_to sw w m) m = w.
Proof.
  intros sw w. induction w as [|u w IH]; intros m Hw Hm.
  - destruct m; reflexivity.
  - destruct m as [|m]; [cbn in Hm; lia|]. inversion Hw as [|? ? Hu Hw']; subst. unfold unit16 in Hu.
    cbn [u16_to]. destruct sw; cbn [app u16_from]; (f_equal; [lia|apply IH; [assumption|cbn in Hm; lia]]).
Qed.

(* ---------------------------------------------------------------------------------------- *)
(** * single-byte tables: generic facts about the search as written *)

Lemma xlat_loop_sound : forall fuel t c lo hi b, xlat_loop fuel t c lo hi = b -> b <> 0 -> In (c, b) t.
Proof.
  assert (Hnth : forall t i c b, intCh t i = c -> extCh t i = b -> b <> 0 -> In (c, b) t).
  { intros t i c b Hi He Hb. unfold intCh, extCh in *.
    destruct (Nat.ltb_spec (N.to_nat i) (length t)) as [Hlt|Hge].
    - pose proof (nth_In t (0, 0) Hlt) as Hin. destruct (nth (N.to_nat i) t (0, 0)) as [x y]. cbn in *. subst. exact Hin.
    - rewrite nth_overflow in He by exact Hge. cbn in He. congruence. }
  induction fuel as [|f IH]; intros t c lo hi b H Hb; [cbn in H; congruence|].
  cbn [xlat_loop] in H. cbv zeta in H.
  destruct (N.ltb_spec (intCh t ((hi - lo) / 2 + lo)) c).
  - destruct ((hi - lo) / 2 + lo + 1 <? hi); [eapply IH; eassumption|].
    destruct (N.eqb_spec c (intCh t hi)); [|congruence]. eapply Hnth; eauto.
  - destruct (N.ltb_spec c (intCh t ((hi - lo) / 2 + lo))).
    + destruct (lo + 1 <? (hi - lo) / 2 + lo); [eapply IH; eassumption|].
      destruct (N.eqb_spec c (intCh t ((hi - lo) / 2 + lo))); [|congruence]. eapply Hnth; eauto.
    + eapply Hnth; [|eassumption|assumption]. lia.
Qed.

Lemma tab_can_sound_gen : forall fuel lo hi t c,
  (if 0xFFFF <? c then false else negb (xlat_loop fuel t c lo hi =? 0)) = true ->
  c <= 0xFFFF /\ exists b, b <> 0 /\ In (c, b) t.
Proof.
  intros fuel lo hi t c H. destruct (N.ltb_spec 0xFFFF c); [discriminate|]. split; [assumption|].
  remember (xlat_loop fuel t c lo hi) as b eqn:Eb. exists b.
  destruct (N.eqb_spec b 0) as [|Hne]; [discriminate|]. split; [exact Hne|].
  symmetry in Eb. eapply xlat_loop_sound; eassumption.
Qed.

Theorem tab_can_sound : forall t sz c, tab_can t sz c = true -> c <= 0xFFFF /\ exists b, b <> 0 /\ In (c, b) t.
Proof. intros t sz c. exact (tab_can_sound_gen 64 0 (sz - 1) t c). Qed.

(* ---------------------------------------------------------------------------------------- *)
(** * the generated tables (obligations over Gen/GenTables.v) *)

Fixpoint strictly_sorted (l : list (N * N)) : bool :=
  match l with
  | a :: ((b :: _) as r) => (fst a <? fst b) && strictly_sorted r
  | _ => true
  end.

(** bytes that do not round-trip in a generated table.  The only one on the pinned tree is the known
    finding F24: IBM1047 decodes byte 0x15 (NEL) to U+000A although it encodes U+0085 as 0x15. *)
Definition table_exceptions : list (list N) := [ []; []; [21]; [] ].

Definition table_ok (xe : (list N * list (N * N) * N) * list N) : bool :=
  let '((from, to, sz), exc) := xe in
  (length from =? 256)%nat && (N.of_nat (length to) =? sz) &&
  forallb (fun c => negb (c =? 0xFFFF)) from &&           (* the silent-skip branch of transcodeFrom is dead *)
  forallb (fun c => c <? 65536) from &&
  strictly_sorted to &&                                   (* precondition of the binary search *)
  forallb (fun p => snd p <? 256) to &&
  (* decoding then encoding gives the byte back, for every byte but NUL (index 0 is never probed) *)
  forallb (fun b => existsb (N.eqb b) exc || (xlat_to to sz (tbl from b) =? b)) (tl (nrange 256)) &&
  (* every record of the table is found by the search as written, except record 0 *)
  forallb (fun p => xlat_to to sz (fst p) =? snd p) (tl to) &&
  (* record 0 maps NUL, which is why the blind spot is harmless *)
  (match to with (0, 0) :: _ => true | _ => false end).

Theorem all_tables_ok : forallb table_ok (combine all_tables table_exceptions) = true.
Proof. vm_compute. reflexivity. Qed.

Lemma table_in_ok : forall x, In x (combine all_tables table_exceptions) -> table_ok x = true.
Proof. intros x H. pose proof all_tables_ok as A. rewrite forallb_forall in A. apply A. exact H. Qed.

(** consequence, for each generated table: byte round trip through decode and encode *)
Theorem tables_byte_roundtrip : forall from to sz exc b, In ((from, to, sz), exc) (combine all_tables table_exceptions) ->
  0 < b < 256 -> ~ In b exc ->
  xlat_to to sz (tbl from b) = b /\ tab_can to sz (tbl from b) = true.
Proof.
  intros from to sz exc b Hin Hb Hexc. apply table_in_ok in Hin. unfold table_ok in Hin.
  repeat (apply andb_prop in Hin; destruct Hin as [Hin ?]).
  match goal with H : forallb (fun b => existsb _ _ || _) _ = true |- _ => rename H into Hrt end.
  match goal with H : forallb (fun c => c <? 65536) from = true |- _ => rename H into Hlt end.
  match goal with H : (length from =? 256)%nat = true |- _ => rename H into Hlen end.
  rewrite forallb_forall in Hrt.
  assert (E : xlat_to to sz (tbl from b) = b).
  { assert (Hi : In b (tl (nrange 256))).
    { assert (Hi : In b (nrange 256)) by (apply nrange_in; lia).
      unfold nrange in *. cbn [seq map] in Hi. cbn [seq map tl]. destruct Hi as [Hi|Hi]; [cbn in Hi; lia|exact Hi]. }
    specialize (Hrt b Hi). apply orb_prop in Hrt. destruct Hrt as [Hx|Hx]; [|apply N.eqb_eq; exact Hx].
    exfalso. apply Hexc. apply existsb_exists in Hx. destruct Hx as (y & Hy & Ey). apply N.eqb_eq in Ey. subst y. exact Hy. }
  split; [exact E|]. unfold tab_can. rewrite E.
  rewrite forallb_forall in Hlt. apply Nat.eqb_eq in Hlen.
  assert (Hc : tbl from b <? 65536 = true).
  { apply Hlt. unfold tbl. apply nth_In. lia. }
  destruct (N.ltb_spec 0xFFFF (tbl from b)); [lia|]. destruct (N.eqb_spec b 0); [lia|reflexivity].
Qed.

(** encode soundness over the generated tables: every record (u, b) of a to-table is the inverse of the
    from-table, i.e. byte b decodes to u -- no best-fit record that writes a character as a different one
    (the repaired defect F42 of C05 = F46 of C12).  The only exception on the pinned tree is U+0085 in IBM1047 (finding F24). *)
Definition table_to_exceptions : list (list N) := [ []; []; [133]; [] ].

Definition table_enc_ok (xe : (list N * list (N * N) * N) * list N) : bool :=
  let '((from, to, sz), uexc) := xe in
  forallb (fun p => existsb (N.eqb (fst p)) uexc || (tbl from (snd p) =? fst p)) to.

Theorem all_tables_enc_ok : forallb table_enc_ok (combine all_tables table_to_exceptions) = true.
Proof. vm_compute. reflexivity. Qed.

(** consequence: a unit the table claims to encode is written as a byte that decodes back to that unit *)
Lemma xlat_in_gen : forall fuel t c lo hi, xlat_loop fuel t c lo hi <> 0 -> In (c, xlat_loop fuel t c lo hi) t.
Proof. intros fuel t c lo hi H. eapply xlat_loop_sound; [reflexivity|exact H]. Qed.

Lemma xlat_to_in : forall t sz c, xlat_to t sz c <> 0 -> In (c, xlat_to t sz c) t.
Proof. intros t sz c. exact (xlat_in_gen 64 t c 0 (sz - 1)). Qed.

Lemma table_enc_in_ok : forall x, In x (combine all_tables table_to_exceptions) -> table_enc_ok x = true.
Proof. intros x H. pose proof all_tables_enc_ok as A. rewrite forallb_forall in A. apply A. exact H. Qed.

Lemma table_enc_rec : forall from to sz uexc u b, table_enc_ok ((from, to, sz), uexc) = true ->
  In (u, b) to -> ~ In u uexc -> tbl from b = u.
Proof.
  intros from to sz uexc u b A Hrec Hexc. unfold table_enc_ok in A. rewrite forallb_forall in A.
  specialize (A _ Hrec). cbn [fst snd] in A. apply orb_prop in A. destruct A as [Hx|Hx].
  - exfalso. apply Hexc. apply existsb_exists in Hx. destruct Hx as (y & Hy & Ey). apply N.eqb_eq in Ey. subst y. exact Hy.
  - apply N.eqb_eq. exact Hx.
Qed.

Theorem tables_enc_roundtrip : forall from to sz uexc c,
  In ((from, to, sz), uexc) (combine all_tables table_to_exceptions) ->
  tab_can to sz c = true -> ~ In c uexc -> tbl from (xlat_to to sz c) = c.
Proof.
  intros from to sz uexc c Hin Hcan Hexc. apply table_enc_in_ok in Hin.
  assert (Hne : xlat_to to sz c <> 0).
  { unfold tab_can in Hcan. destruct (0xFFFF <? c); [discriminate|].
    destruct (N.eqb_spec (xlat_to to sz c) 0) as [|Hne]; [discriminate|exact Hne]. }
  eapply table_enc_rec; [exact Hin|apply xlat_to_in; exact Hne|exact Hexc].
Qed.

(** known finding F24 (faithful model): IBM1047 byte 0x15 decodes to LF and does not round-trip *)
Theorem ibm1047_nel_refuted :
  tbl ibm1047_from 0x15 = 0x0A /\ xlat_to ibm1047_to ibm1047_tosz 0x85 = 0x15 /\
  xlat_to ibm1047_to ibm1047_tosz (tbl ibm1047_from 0x15) <> 0x15.
Proof. vm_compute. repeat split. discriminate. Qed.

(** canTranscodeTo never claims a supplementary code point (the repaired truncation defect) *)
Theorem tab_can_supplementary : forall t sz c, 0xFFFF < c -> tab_can t sz c = false.
Proof. intros t sz c H. unfold tab_can. destruct (N.ltb_spec 0xFFFF c); [reflexivity|lia]. Qed.
