(** Property C05 -- Transcoders and encoding detection decode every supported encoding exactly.
    This file contains only the property theorems; each is closed by [exact] of a lemma proved in
    Proofs05*.v and followed by [Print Assumptions].  Models: Model05.v (tables: Gen/*.v, regenerated
    from /repo on every run).  Specs: Spec05.v. *)
From XV Require Import C05.Spec05 C05.Model05 C05.Proofs05a C05.Proofs05b C05.Proofs05c C05.Proofs05d C05.Proofs05e C05.Proofs05f.
From XV Require Import C05.Model05r C05.Proofs05r.
From XV Require Import C05.Spec05s C05.Model05s C05.Proofs05s C05.Proofs05t.
Local Open Scope N_scope.

(** the specification itself is consistent: Table 3-6 (bit distribution) and Table 3-7 (well-formed
    sequences) describe the same set *)
Theorem T05_spec_tables_agree : forall l, wf8_seq l = true <-> exists c, scalar c /\ l = utf8_enc c.
Proof.
  intros l. split.
  - intros H. exists (utf8_val l). destruct (wf8_seq_enc l H) as [Hs He]. split; [exact Hs|symmetry; exact He].
  - intros [c [Hc E]]. subst l. exact (utf8_enc_wf c Hc).
Qed.
Print Assumptions T05_spec_tables_agree.

(** UTF-8 decoding is sound: whatever [transcodeFrom] consumes is a concatenation of well-formed
    encodings of scalar values, the output is exactly their UTF-16 form, charSizes add up to the bytes
    eaten, and no bound is exceeded.  Hence no over-long form, surrogate, value above U+10FFFF, 5/6-byte
    form or stray continuation byte is ever decoded. *)
Theorem T05_utf8_dec_sound : forall src maxChars out sizes eaten, bytes src ->
  x8_from src maxChars = Ok (out, sizes, eaten) ->
  exists cps, Forall scalar cps /\ firstn eaten src = flat_map utf8_enc cps /\ out = flat_map utf16_enc cps /\
              sumN sizes = N.of_nat eaten /\ (length out <= maxChars)%nat /\ (eaten <= length src)%nat /\
              length sizes = length out.
Proof. exact x8_from_sound. Qed.
Print Assumptions T05_utf8_dec_sound.

(** UTF-8 decoding is complete: every well-formed string is decoded entirely (no legal sequence is
    rejected), for every output room that can hold the result *)
Theorem T05_utf8_dec_complete : forall cps maxChars, Forall scalar cps ->
  (length (flat_map utf16_enc cps) <= maxChars)%nat ->
  exists sizes, x8_from (flat_map utf8_enc cps) maxChars =
                Ok (flat_map utf16_enc cps, sizes, length (flat_map utf8_enc cps)).
Proof. exact x8_from_complete. Qed.
Print Assumptions T05_utf8_dec_complete.

(** one legal sequence followed by anything decodes to its code point and eats exactly its bytes *)
Theorem T05_utf8_dec_step : forall c rest room p, scalar c -> bytes rest -> (length (utf16_enc c) <= room)%nat ->
  x8_step (utf8_enc c ++ rest) room p = SOut (utf16_enc c) (length (utf8_enc c)).
Proof. exact x8_step_complete. Qed.
Print Assumptions T05_utf8_dec_step.

(** progress / no silent skipping: with >= 6 source bytes and room for a pair, a call that does not
    throw consumes at least one byte; together with soundness, an ill-formed sequence at the head of
    such an input always raises an exception *)
Theorem T05_utf8_dec_progress : forall src maxChars out sizes eaten, bytes src ->
  (6 <= length src)%nat -> (2 <= maxChars)%nat -> x8_from src maxChars = Ok (out, sizes, eaten) -> (0 < eaten)%nat.
Proof. exact x8_from_progress. Qed.
Print Assumptions T05_utf8_dec_progress.

Theorem T05_utf8_dec_total : forall src maxChars, bytes src -> x8_from src maxChars <> Err E_Fuel.
Proof. exact x8_from_no_fuel_error. Qed.
Print Assumptions T05_utf8_dec_total.

(** UTF-8 encoding of well-formed UTF-16 yields exactly the legal byte sequence, and decoding it
    gives the original string back *)
Theorem T05_utf8_enc : forall cps maxBytes throw, Forall scalar cps -> cps <> [] ->
  (length (flat_map utf8_enc cps) <= maxBytes)%nat ->
  x8_to (flat_map utf16_enc cps) maxBytes throw = Ok (flat_map utf8_enc cps, length (flat_map utf16_enc cps)).
Proof. exact x8_to_complete. Qed.
Print Assumptions T05_utf8_enc.

(** ... and on EVERY source of 16-bit units the encoder is sound: a result without error is the UTF-8
    form of the scalar values of a well-formed UTF-16 prefix of the source, and that prefix is what is
    reported as eaten; unpaired surrogates are reported (defect F7, repaired) *)
Theorem T05_utf8_enc_sound : forall src maxBytes throw bs n, Forall u16 src ->
  x8_to src maxBytes throw = Ok (bs, n) ->
  exists cps, Forall scalar cps /\ firstn n src = flat_map utf16_enc cps /\ bs = flat_map utf8_enc cps.
Proof. exact x8_to_sound. Qed.
Print Assumptions T05_utf8_enc_sound.

Theorem T05_utf8_enc_lone_trail : forall u rest maxBytes throw, 0xDC00 <= u <= 0xDFFF -> maxBytes <> O ->
  x8_to (u :: rest) maxBytes throw = Err E_Trans_BadSrcSeq.
Proof. exact x8_to_rejects_lone_trail. Qed.
Print Assumptions T05_utf8_enc_lone_trail.

Theorem T05_utf8_enc_bad_trail : forall u t rest maxBytes throw, 0xD800 <= u <= 0xDBFF -> ~ (0xDC00 <= t <= 0xDFFF) ->
  maxBytes <> O -> x8_to (u :: t :: rest) maxBytes throw = Err E_Trans_BadTrailingSurrogate.
Proof. exact x8_to_rejects_bad_trail. Qed.
Print Assumptions T05_utf8_enc_bad_trail.

Example T05_nonvacuous_enc_sound : x8_to [0x41; 0xD800; 0xDF48; 0x20AC] 16 true = Ok ([0x41; 0xF0; 0x90; 0x8D; 0x88; 0xE2; 0x82; 0xAC], 4%nat).
Proof. vm_compute. reflexivity. Qed.

Theorem T05_utf8_roundtrip : forall cps maxBytes maxChars throw, Forall scalar cps -> cps <> [] ->
  (length (flat_map utf8_enc cps) <= maxBytes)%nat -> (length (flat_map utf16_enc cps) <= maxChars)%nat ->
  exists bs n sizes, x8_to (flat_map utf16_enc cps) maxBytes throw = Ok (bs, n) /\
                     x8_from bs maxChars = Ok (flat_map utf16_enc cps, sizes, length bs).
Proof. exact utf8_roundtrip. Qed.
Print Assumptions T05_utf8_roundtrip.

(** UCS-4 (both byte orders): accepted => the four bytes are the UCS-4 form of a scalar value and the
    output is its UTF-16 form (values above U+10FFFF and surrogate code points are rejected);
    every scalar value is accepted *)
Theorem T05_ucs4_dec_sound : forall sw src room u n, bytes src -> u4_step sw src room = SOut u n ->
  exists c, scalar c /\ firstn 4 src = ucs4_enc sw c /\ u = utf16_enc c /\ n = 4%nat /\ (length u <= room)%nat.
Proof. exact u4_step_sound. Qed.
Print Assumptions T05_ucs4_dec_sound.

Theorem T05_ucs4_dec_complete : forall sw c rest room, scalar c -> (length (utf16_enc c) <= room)%nat ->
  u4_step sw (ucs4_enc sw c ++ rest) room = SOut (utf16_enc c) 4.
Proof. exact u4_step_complete. Qed.
Print Assumptions T05_ucs4_dec_complete.

Theorem T05_ucs4_enc : forall sw c rest room, scalar c -> (0 < room)%nat ->
  u4_to_step sw (utf16_enc c ++ rest) room = TOut (ucs4_enc sw c) (length (utf16_enc c)).
Proof. exact u4_to_step_complete. Qed.
Print Assumptions T05_ucs4_enc.

Theorem T05_utf16_roundtrip : forall sw w m, Forall unit16 w -> (length w <= m)%nat -> u16_from sw (u16_to sw w m) m = w.
Proof. exact u16_roundtrip. Qed.
Print Assumptions T05_utf16_roundtrip.

(** single-byte code pages: obligations over the regenerated tables (Windows-1252, IBM037, IBM1047,
    IBM1140): 256 entries, none 0xFFFF, `to` strictly sorted and as long as declared, every byte but
    NUL round-trips through the binary search as written, every record but record 0 is found *)
Theorem T05_tables : forallb table_ok (combine all_tables table_exceptions) = true.
Proof. exact all_tables_ok. Qed.
Print Assumptions T05_tables.

Theorem T05_tables_roundtrip : forall from to sz exc b, In ((from, to, sz), exc) (combine all_tables table_exceptions) ->
  0 < b < 256 -> ~ In b exc ->
  xlat_to to sz (tbl from b) = b /\ tab_can to sz (tbl from b) = true.
Proof. exact tables_byte_roundtrip. Qed.
Print Assumptions T05_tables_roundtrip.

(** encode side of the tables: a unit that canTranscodeTo accepts is written as a byte that decodes back
    to the same unit ("encoding yields exactly the legal byte sequence or an unrepresentable-character
    report"); obligation over the regenerated tables, exception U+0085/IBM1047 = finding F24 *)
Theorem T05_tables_enc : forallb table_enc_ok (combine all_tables table_to_exceptions) = true.
Proof. exact all_tables_enc_ok. Qed.
Print Assumptions T05_tables_enc.

Theorem T05_tables_enc_roundtrip : forall from to sz uexc c,
  In ((from, to, sz), uexc) (combine all_tables table_to_exceptions) ->
  tab_can to sz c = true -> ~ In c uexc -> tbl from (xlat_to to sz c) = c.
Proof. exact tables_enc_roundtrip. Qed.
Print Assumptions T05_tables_enc_roundtrip.

(** known finding F24, stated on the faithful model: IBM1047 decodes byte 0x15 (NEL) to U+000A *)
Theorem T05_ibm1047_nel_refuted :
  tbl ibm1047_from 0x15 = 0x0A /\ xlat_to ibm1047_to ibm1047_tosz 0x85 = 0x15 /\
  xlat_to ibm1047_to ibm1047_tosz (tbl ibm1047_from 0x15) <> 0x15.
Proof. exact ibm1047_nel_refuted. Qed.
Print Assumptions T05_ibm1047_nel_refuted.

(** canTranscodeTo is exact in the direction the serializer relies on: "representable" implies the
    table really has a record for that code point, and no supplementary code point is representable *)
Theorem T05_can_transcode_sound : forall t sz c, tab_can t sz c = true -> c <= 0xFFFF /\ exists b, b <> 0 /\ In (c, b) t.
Proof. exact tab_can_sound. Qed.
Print Assumptions T05_can_transcode_sound.

Theorem T05_can_transcode_supplementary : forall t sz c, 0xFFFF < c -> tab_can t sz c = false.
Proof. exact tab_can_supplementary. Qed.
Print Assumptions T05_can_transcode_supplementary.

(** encoding detection (XMLRecognizer::basicEncodingProbe): the generated prefixes are `<?xml ` in each
    family; an entity that starts with `<?xml ` in family e, or with e's byte order mark, is recognised as e
    whatever follows *)
Theorem T05_probe_prefixes :
  fgASCIIPre = enc_units UTF_8 xml_decl_start /\ fgASCIIPre_len = length fgASCIIPre /\
  fgUTF16BPre = enc_units UTF_16B xml_decl_start /\ fgUTF16BPre_len = length fgUTF16BPre /\
  fgUTF16LPre = enc_units UTF_16L xml_decl_start /\ fgUTF16LPre_len = length fgUTF16LPre /\
  fgUCS4BPre = enc_units UCS_4B xml_decl_start /\ fgUCS4BPre_len = length fgUCS4BPre /\
  fgUCS4LPre = enc_units UCS_4L xml_decl_start /\ fgUCS4LPre_len = length fgUCS4LPre /\
  fgEBCDICPre = enc_units EBCDIC xml_decl_start /\ fgEBCDICPre_len = length fgEBCDICPre /\
  fgUTF8BOM = [0xEF; 0xBB; 0xBF].
Proof. exact prefixes_ok. Qed.
Print Assumptions T05_probe_prefixes.

Theorem T05_probe_decl : forall e rest, (e = EBCDIC -> rest <> []) ->
  probe (enc_units e xml_decl_start ++ rest) = e.
Proof. exact probe_decl. Qed.
Print Assumptions T05_probe_decl.

Theorem T05_probe_bom16 : forall b2 b3 rest, ~ (b2 = 0 /\ b3 = 0) ->
  probe (0xFE :: 0xFF :: b2 :: b3 :: rest) = UTF_16B /\ probe (0xFF :: 0xFE :: b2 :: b3 :: rest) = UTF_16L.
Proof. exact probe_bom16. Qed.
Print Assumptions T05_probe_bom16.

Theorem T05_probe_bom4 : forall rest,
  probe (0x00 :: 0x00 :: 0xFE :: 0xFF :: rest) = UCS_4B /\ probe (0xFF :: 0xFE :: 0x00 :: 0x00 :: rest) = UCS_4L.
Proof. exact probe_bom4. Qed.
Print Assumptions T05_probe_bom4.

Theorem T05_probe_utf8_bom : forall rest, probe (0xEF :: 0xBB :: 0xBF :: rest) = UTF_8.
Proof. exact probe_utf8_bom. Qed.
Print Assumptions T05_probe_utf8_bom.

(** the recognizer as a DECISION: for every byte string of every length (also shorter than 2 or 4 bytes)
    basicEncodingProbe returns exactly the family XML 1.0 Appendix F.1 prescribes (Spec05s.spec_detect) *)
Theorem T05_probe_decision : forall raw, family_of_enc (probe raw) = spec_detect raw.
Proof. exact probe_decision. Qed.
Print Assumptions T05_probe_decision.

Theorem T05_probe_unusual_orders : forall rest,
  probe (0x00 :: 0x00 :: 0xFF :: 0xFE :: rest) = UTF_8 /\ probe (0xFE :: 0xFF :: 0x00 :: 0x00 :: rest) = UTF_16B.
Proof. exact probe_unusual_orders. Qed.
Print Assumptions T05_probe_unusual_orders.

(** encoding names (tables regenerated from XMLUni.cpp / XMLRecognizer.cpp / TransService.cpp / XMLReader.cpp) *)
Theorem T05_enc_name_roundtrip : forall e, e <> R_EBCDIC -> e <> R_Other ->
  exists s, name_for_encoding e = Some s /\ encoding_for_name s = e /\ upper_ascii s = s /\
            make_transcoder_name s = make_transcoder_enum e.
Proof. exact enc_name_roundtrip. Qed.
Print Assumptions T05_enc_name_roundtrip.

(** for EVERY name: if encodingForName knows it, creating the transcoder by name and by the returned
    enumerator is the same transcoder class with the same byte swapping *)
Theorem T05_name_enum_agree : forall s e, encoding_for_name (upper_ascii s) = e -> e <> R_Other ->
  make_transcoder_name s = make_transcoder_enum e.
Proof. exact name_enum_agree. Qed.
Print Assumptions T05_name_enum_agree.

(** makeNewTranscoderFor: every registered alias, in any ASCII case, resolves to its own registration; the names
    of the encodings the property lists resolve to the intrinsic transcoder of that encoding and byte order *)
Theorem T05_alias_registered : forall k v s, In (k, v) ts_mappings -> upper_ascii s = k -> make_transcoder_name s = Some v.
Proof. exact registered_alias_resolves. Qed.
Print Assumptions T05_alias_registered.

Theorem T05_alias_intrinsic : forall nm cls s, In (nm, cls) expected_intrinsic -> upper_ascii s = nm ->
  make_transcoder_name s = Some cls.
Proof. exact intrinsic_names_resolve. Qed.
Print Assumptions T05_alias_intrinsic.

Theorem T05_alias_case_insensitive : forall s t, upper_ascii s = upper_ascii t ->
  make_transcoder_name s = make_transcoder_name t.
Proof. exact make_transcoder_case. Qed.
Print Assumptions T05_alias_case_insensitive.

Example T05_nonvacuous_alias :
  make_transcoder_name n_Utf16be_mixed = Some (4, true) /\ make_transcoder_name n_Shift_JIS = None.
Proof. vm_compute. split; reflexivity. Qed.

(** declaration vs. detected family (XMLReader::setEncoding).  [set_encoding true] is the reader with
    fixes/C05-setencoding-family.patch, [set_encoding false] the reader as it stands.
    Repaired: over the names of the specification, accepted <-> compatible with the detected family, and what is
    accepted keeps the unit size and byte order; for every name at all, an accepted recognizer-known encoding
    keeps the family. *)
Theorem T05_decl_compat : forall f nm d s, In (nm, d) spec_names -> upper_ascii s = nm ->
  (set_encoding true (renc_of_family f) s <> SE_Reject <-> compat f d = true) /\
  (forall nb str tr, set_encoding true (renc_of_family f) s = SE_Accept nb str tr ->
     family_code nb = family_code (renc_of_family f) /\ exists cls, tr = Some (cls, swapped_of_family f)).
Proof. exact decl_compat. Qed.
Print Assumptions T05_decl_compat.

Theorem T05_decl_family_preserved : forall cur s nb str tr,
  set_encoding true cur s = SE_Accept nb str tr -> nb <> R_Other -> family_code nb = family_code cur.
Proof. exact set_encoding_family. Qed.
Print Assumptions T05_decl_family_preserved.

Example T05_nonvacuous_decl :
  set_encoding true R_UTF_16B n_utf16_lower = SE_Accept R_UTF_16B n_UTF16BE_paren (Some (4, true)) /\
  set_encoding true R_UTF_8 n_utf16_lower = SE_Reject /\
  set_encoding true R_UTF_8 n_UTF16LE = SE_Reject.
Proof. vm_compute. repeat split. Qed.

(** the reader as it stands (finding F560): a declaration written in the bytes of one family that names an
    encoding of another family is accepted and the decoder is switched *)
Theorem T05_decl_compat_refuted :
  exists cur s nb str tr, set_encoding false cur s = SE_Accept nb str tr /\ nb <> R_Other /\
                          family_code nb <> family_code cur.
Proof. exact decl_compat_refuted. Qed.
Print Assumptions T05_decl_compat_refuted.

(** finding F561 (not repaired): a byte encoding the recognizer does not list, declared in a UTF-16 entity *)
Theorem T05_decl_other_refuted : forall b,
  set_encoding b R_UTF_16L n_ISO88591 = SE_Accept R_Other n_ISO88591 (Some (3, false)).
Proof. exact decl_other_refuted. Qed.
Print Assumptions T05_decl_other_refuted.

Theorem T05_decl_total : forall b cur s, cur <> R_Other -> set_encoding b cur s <> SE_Throw.
Proof. exact set_encoding_no_throw. Qed.
Print Assumptions T05_decl_total.

(** non-vacuity: the hypotheses are satisfiable by non-trivial values, and the error branches are real *)
Example T05_nonvacuous_scalars : Forall scalar [0x24; 0xA2; 0x20AC; 0x10348; 0x10FFFF].
Proof. repeat constructor. Qed.
Example T05_nonvacuous_decode :
  x8_from (flat_map utf8_enc [0x24; 0xA2; 0x20AC; 0x10348; 0x10FFFF]) 16 =
    Ok ([0x24; 0xA2; 0x20AC; 0xD800; 0xDF48; 0xDBFF; 0xDFFF], [1; 2; 3; 4; 0; 4; 0], 14%nat).
Proof. vm_compute. reflexivity. Qed.
Example T05_nonvacuous_overlong : x8_from [0xC0; 0x80; 0; 0; 0; 0] 8 = Err E_UTF8_FormatError.
Proof. vm_compute. reflexivity. Qed.
Example T05_nonvacuous_surrogate : x8_from [0xED; 0xA0; 0x80; 0; 0; 0] 8 = Err E_UTF8_Irregular_3BytesSeq.
Proof. vm_compute. reflexivity. Qed.
Example T05_nonvacuous_range : x8_from [0xF4; 0x90; 0x80; 0x80; 0; 0] 8 = Err E_UTF8_Invalid_4BytesSeq.
Proof. vm_compute. reflexivity. Qed.
Example T05_nonvacuous_ucs4 : u4_step false [0; 0; 0x11; 0] 4 = SErr E_Trans_BadSrcSeq.
Proof. vm_compute. reflexivity. Qed.
