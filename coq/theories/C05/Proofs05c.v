(** C05 proofs, part c: the decoding loop [x8_from] (XMLUTF8Transcoder::transcodeFrom as a whole). *)
From XV Require Import C05.Spec05 C05.Model05 C05.Proofs05a C05.Proofs05b.
From Coq Require Import ZArith ZifyBool ZifyN ZifyNat Lia.
Local Open Scope N_scope.

Lemma bytes_skipn : forall n l, bytes l -> bytes (skipn n l).
Proof.
  induction n as [|n IH]; intros l H; [exact H|]. destruct l as [|x l]; [exact H|].
  cbn [skipn]. apply IH. inversion H; assumption.
Qed.

Lemma firstn_plus : forall (A : Type) n m (l : list A), firstn (n + m) l = firstn n l ++ firstn m (skipn n l).
Proof.
  induction n as [|n IH]; intros m l; [reflexivity|]. destruct l as [|x l].
  - cbn. rewrite firstn_nil. reflexivity.
  - cbn [Nat.add firstn skipn app]. rewrite IH. reflexivity.
Qed.

Lemma sizes_of_sum : forall u n, sumN (sizes_of u n) = N.of_nat n.
Proof. intros u n. destruct u as [|a [|b [|c r]]]; cbn [sizes_of sumN]; lia. Qed.

Lemma sizes_of_len : forall c n, length (sizes_of (utf16_enc c) n) = length (utf16_enc c).
Proof. intros c n. unfold utf16_enc. destruct (c <? 0x10000); reflexivity. Qed.

Definition dec_post (src : list N) (room : nat) (out sizes : list N) (eaten : nat) : Prop :=
  exists cps, Forall scalar cps /\ firstn eaten src = flat_map utf8_enc cps /\ out = flat_map utf16_enc cps /\
              sumN sizes = N.of_nat eaten /\ (length out <= room)%nat /\ (eaten <= length src)%nat /\
              length sizes = length out.

Lemma x8_loop_sound : forall fuel src room p out sizes eaten, bytes src ->
  x8_loop fuel src room p = Ok (out, sizes, eaten) -> dec_post src room out sizes eaten.
Proof.
  induction fuel as [|f IH]; intros src room p out sizes eaten Hb H; [discriminate|].
  cbn [x8_loop] in H.
  destruct (x8_step src room p) as [| |e|u n] eqn:Hs.
  - inversion H; subst. exists []. cbn. repeat split; try lia. constructor.
  - inversion H; subst. exists []. cbn. repeat split; try lia. constructor.
  - discriminate.
  - destruct (x8_loop f (skipn n src) (room - length u) (p + length u)) as [[[o s] e]|e] eqn:Hr; [|discriminate].
    inversion H; subst. clear H.
    apply x8_step_sound in Hs; [|exact Hb]. destruct Hs as (c & Hc & Hf & Hu & Hlen & Hn & Hpos).
    apply IH in Hr; [|apply bytes_skipn; exact Hb].
    destruct Hr as (cps & Hcps & Hf2 & Ho & Hsum & Hlen2 & He & Hsl).
    exists (c :: cps). subst u o.
    repeat split.
    + constructor; assumption.
    + rewrite firstn_plus, Hf, Hf2. reflexivity.
    + rewrite sumN_app, sizes_of_sum, Hsum. lia.
    + cbn [flat_map]. rewrite app_length. lia.
    + rewrite skipn_length in He. lia.
    + cbn [flat_map]. rewrite !app_length, sizes_of_len, Hsl. reflexivity.
Qed.

Theorem x8_from_sound : forall src maxChars out sizes eaten, bytes src ->
  x8_from src maxChars = Ok (out, sizes, eaten) -> dec_post src maxChars out sizes eaten.
Proof. intros. unfold x8_from in *. eapply x8_loop_sound; eassumption. Qed.

(** the fuel is never the reason for an answer *)
Lemma x8_loop_fuel : forall fuel src room p, bytes src -> (length src < fuel)%nat -> x8_loop fuel src room p <> Err E_Fuel.
Proof.
  induction fuel as [|f IH]; intros src room p Hb Hl; [lia|].
  cbn [x8_loop]. destruct (x8_step src room p) as [| |e|u n] eqn:Hs; try discriminate.
  - intros H. inversion H; subst. clear H. destruct src as [|b0 rest]; [discriminate|].
    rewrite x8_step_eq in Hs by exact Hb. unfold x8_step_a in Hs.
    destruct (Nat.eqb room 0); [discriminate|]. destruct (b0 <=? 127); [discriminate|]. cbv zeta in Hs.
    destruct (Nat.ltb (length rest) (N.to_nat (trailing b0))); [discriminate|].
    destruct (negb ((194 <=? b0) && (b0 <? 254))); [inversion Hs|].
    assert (Hfin : forall tb tmp, finish_a tb room p tmp <> SErr E_Fuel).
    { intros tb tmp. unfold finish_a. cbv zeta. repeat match goal with |- context [if ?c then _ else _] => destruct c end; discriminate. }
    destruct (trailing b0) as [|[[q|q|]|[q|q|]|]]; try (inversion Hs; fail);
    destruct rest as [|b1 [|b2 [|b3 r]]]; try (inversion Hs; fail);
    repeat match type of Hs with (if ?c then _ else _) = _ => destruct c end; try (inversion Hs; fail);
    apply Hfin in Hs; exact Hs.
  - apply x8_step_sound in Hs; [|exact Hb]. destruct Hs as (c & _ & _ & _ & _ & Hn & Hpos).
    specialize (IH (skipn n src) (room - length u)%nat (p + length u)%nat (bytes_skipn n src Hb)).
    destruct (x8_loop f (skipn n src) (room - length u) (p + length u)) as [[[o s] e]|e]; [discriminate|].
    intros H. inversion H; subst. apply IH; [|reflexivity]. rewrite skipn_length. lia.
Qed.

Theorem x8_from_no_fuel_error : forall src maxChars, bytes src -> x8_from src maxChars <> Err E_Fuel.
Proof. intros. unfold x8_from. apply x8_loop_fuel; [assumption|lia]. Qed.

(** completeness: every well-formed string is decoded completely, to exactly its code points *)
Lemma flat_bytes : forall cps, Forall scalar cps -> bytes (flat_map utf8_enc cps).
Proof.
  induction cps as [|c cps IH]; intros H; [constructor|]. inversion H; subst. cbn [flat_map].
  apply bytes_app; [apply utf8_enc_bytes; assumption|apply IH; assumption].
Qed.

Lemma skipn_app_len : forall (A : Type) (a b : list A), skipn (length a) (a ++ b) = b.
Proof. induction a as [|x a IH]; intros b; [reflexivity|]. cbn. apply IH. Qed.

Lemma x8_loop_complete : forall cps fuel room p, Forall scalar cps ->
  (length (flat_map utf8_enc cps) < fuel)%nat -> (length (flat_map utf16_enc cps) <= room)%nat ->
  exists sizes, x8_loop fuel (flat_map utf8_enc cps) room p =
                Ok (flat_map utf16_enc cps, sizes, length (flat_map utf8_enc cps)).
Proof.
  induction cps as [|c cps IH]; intros fuel room p Hs Hf Hr.
  - destruct fuel as [|f]; [cbn in Hf; lia|]. exists []. reflexivity.
  - inversion Hs as [|? ? Hc Hcps]; subst. cbn [flat_map] in *. rewrite app_length in *.
    destruct fuel as [|f]; [lia|]. cbn [x8_loop].
    rewrite x8_step_complete; [|assumption|apply flat_bytes; assumption|lia].
    rewrite skipn_app_len. pose proof (utf8_enc_len c) as Hl.
    destruct (IH f (room - length (utf16_enc c))%nat (p + length (utf16_enc c))%nat Hcps) as [sz E]; [lia|lia|].
    rewrite E. eexists. reflexivity.
Qed.

Theorem x8_from_complete : forall cps maxChars, Forall scalar cps ->
  (length (flat_map utf16_enc cps) <= maxChars)%nat ->
  exists sizes, x8_from (flat_map utf8_enc cps) maxChars =
                Ok (flat_map utf16_enc cps, sizes, length (flat_map utf8_enc cps)).
Proof. intros. unfold x8_from. apply x8_loop_complete; [assumption|lia|assumption]. Qed.

(** progress: with at least 6 source bytes and room for a surrogate pair, a call either consumes
    something or throws -- an ill-formed sequence can never be silently skipped or stall the reader *)
Theorem x8_from_progress : forall src maxChars out sizes eaten, bytes src ->
  (6 <= length src)%nat -> (2 <= maxChars)%nat -> x8_from src maxChars = Ok (out, sizes, eaten) -> (0 < eaten)%nat.
Proof.
  intros src room out sizes eaten Hb Hl Hr H. unfold x8_from in H. cbn [x8_loop] in H.
  destruct (x8_step src room 0) as [| |e|u n] eqn:Hs.
  - exfalso. rewrite x8_step_eq in Hs by exact Hb. destruct src as [|b0 rest]; [cbn in Hl; lia|].
    cbn [length] in Hl. unfold x8_step_a in Hs.
    destruct (Nat.eqb_spec room 0); [lia|]. destruct (b0 <=? 127); [discriminate|]. cbv zeta in Hs.
    assert (Ht : (N.to_nat (trailing b0) <= 5)%nat).
    { unfold trailing. repeat match goal with |- context [if ?c then _ else _] => destruct c end; cbn; lia. }
    destruct (Nat.ltb_spec (length rest) (N.to_nat (trailing b0))); [lia|].
    destruct (negb ((194 <=? b0) && (b0 <? 254))); [discriminate|].
    assert (Hfin : forall tb tmp, finish_a tb room 0 tmp <> SStop).
    { intros tb tmp. unfold finish_a. cbv zeta. destruct (Nat.leb_spec room 1); [lia|].
      repeat match goal with |- context [if ?c then _ else _] => destruct c end; discriminate. }
    destruct (trailing b0) as [|[[q|q|]|[q|q|]|]]; try discriminate;
    destruct rest as [|b1 [|b2 [|b3 r]]]; try discriminate;
    repeat match type of Hs with (if ?c then _ else _) = _ => destruct c end; try discriminate;
    apply Hfin in Hs; exact Hs.
  - exfalso. rewrite x8_step_eq in Hs by exact Hb. destruct src as [|b0 rest]; [discriminate|].
    unfold x8_step_a in Hs.
    destruct (Nat.eqb room 0); [discriminate|]. destruct (b0 <=? 127); [discriminate|]. cbv zeta in Hs.
    destruct (Nat.ltb (length rest) (N.to_nat (trailing b0))); [discriminate|].
    destruct (negb ((194 <=? b0) && (b0 <? 254))); [discriminate|].
    assert (Hfin : forall tb tmp, finish_a tb room 0 tmp <> SBreak32).
    { intros tb tmp. unfold finish_a. cbv zeta. cbn [Nat.ltb Nat.leb].
      repeat match goal with |- context [if ?c then _ else _] => destruct c end; discriminate. }
    destruct (trailing b0) as [|[[q|q|]|[q|q|]|]]; try discriminate;
    destruct rest as [|b1 [|b2 [|b3 r]]]; try discriminate;
    repeat match type of Hs with (if ?c then _ else _) = _ => destruct c end; try discriminate;
    apply Hfin in Hs; exact Hs.
  - discriminate.
  - apply x8_step_sound in Hs; [|exact Hb]. destruct Hs as (c & _ & _ & _ & _ & _ & Hpos).
    destruct (x8_loop (length src) (skipn n src) (room - length u) (0 + length u)) as [[[o s] e]|e]; [|discriminate].
    inversion H; subst. lia.
Qed.
