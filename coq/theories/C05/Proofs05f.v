(** C05 proofs, part f: XMLUTF8Transcoder::transcodeTo (model [x8_to]) is SOUND on every input of 16-bit
    units: whatever it returns without an error is the UTF-8 encoding of the scalar values of a well-formed
    UTF-16 prefix of the source, and exactly that prefix is reported as eaten.  Hence no byte is ever
    written for an unpaired surrogate (the repaired defect F7). *)
From XV Require Import C05.Spec05 C05.Model05 C05.Proofs05a C05.Proofs05b C05.Proofs05c C05.Proofs05d.
From Coq Require Import ZArith ZifyBool ZifyN ZifyNat Lia.
Ltac Zify.zify_post_hook ::= Z.div_mod_to_equations.
Local Open Scope N_scope.

Definition u16 (u : N) : Prop := u < 65536.

(** the three shapes of one loop iteration that produces output *)
Lemma x8_to_step_sound : forall src room throw bs used, Forall u16 src ->
  x8_to_step src room throw = TOut bs used ->
  exists c, scalar c /\ firstn used src = utf16_enc c /\ bs = utf8_enc c /\ (1 <= used)%nat /\ length (utf16_enc c) = used.
Proof.
  intros src room throw bs used Hsrc H. destruct src as [|u rest]; [discriminate|].
  inversion Hsrc as [|? ? Hu Hrest]; subst. unfold u16 in Hu.
  unfold x8_to_step in H. cbv zeta in H.
  destruct ((0xD800 <=? u) && (u <=? 0xDBFF)) eqn:Elead.
  - (* leading surrogate *)
    destruct rest as [|t rest']; [discriminate|].
    inversion Hrest as [|? ? Ht _]; subst. unfold u16 in Ht.
    destruct ((t <? 0xDC00) || (0xDFFF <? t)) eqn:Etr; [discriminate|].
    set (c := 0x10000 + (u - 0xD800) * 1024 + (t - 0xDC00)).
    assert (Ev : ((u - 0xD800) * 1024 + (t + w32 - 0xDC00) + 0x10000) mod w32 = c) by (unfold c, w32; lia).
    rewrite Ev in H.
    assert (Hc1 : 0x10000 <= c) by (unfold c; lia).
    assert (Hc2 : c < 0x110000) by (unfold c; lia).
    destruct (N.ltb_spec c 0x80); [lia|]. destruct (N.ltb_spec c 0x800); [lia|].
    destruct (N.ltb_spec c 0x10000); [lia|]. destruct (N.ltb_spec c 0x110000); [|lia].
    destruct (Nat.ltb room 4); [discriminate|].
    assert (E16 : utf16_enc c = [u; t]).
    { unfold utf16_enc. destruct (N.ltb_spec c 0x10000); [lia|].
      assert (E1 : 0xD800 + (c - 0x10000) / 1024 = u) by (unfold c; lia).
      assert (E2 : 0xDC00 + (c - 0x10000) mod 1024 = t) by (unfold c; lia).
      rewrite E1, E2. reflexivity. }
    exists c. split; [apply scalar_bounds; lia|].
    assert (Hb : bs = enc_bytes c 4 /\ used = 2%nat) by (split; congruence). destruct Hb as [Hb Hused]. subst used.
    split; [rewrite E16; reflexivity|]. split.
    + rewrite Hb. rewrite <- (enc_bytes_spec c) by lia. unfold nbytes.
      destruct (N.ltb_spec c 0x80); [lia|]. destruct (N.ltb_spec c 0x800); [lia|].
      destruct (N.ltb_spec c 0x10000); [lia|]. reflexivity.
    + split; [lia|]. rewrite E16. reflexivity.
  - destruct ((0xDC00 <=? u) && (u <=? 0xDFFF)) eqn:Etrail; [discriminate|].
    (* an ordinary BMP unit *)
    assert (E16 : utf16_enc u = [u]) by (unfold utf16_enc; destruct (N.ltb_spec u 0x10000); [reflexivity|lia]).
    exists u. split; [apply scalar_bounds; lia|].
    destruct (N.ltb_spec u 0x80).
    { destruct (Nat.ltb room 1); [discriminate|].
      assert (Hb : bs = enc_bytes u 1 /\ used = 1%nat) by (split; congruence). destruct Hb as [Hb Hused]. subst used.
      split; [rewrite E16; reflexivity|]. split; [|split; [lia|rewrite E16; reflexivity]].
      rewrite Hb. rewrite <- (enc_bytes_spec u) by lia. unfold nbytes. destruct (N.ltb_spec u 0x80); [reflexivity|lia]. }
    destruct (N.ltb_spec u 0x800).
    { destruct (Nat.ltb room 2); [discriminate|].
      assert (Hb : bs = enc_bytes u 2 /\ used = 1%nat) by (split; congruence). destruct Hb as [Hb Hused]. subst used.
      split; [rewrite E16; reflexivity|]. split; [|split; [lia|rewrite E16; reflexivity]].
      rewrite Hb. rewrite <- (enc_bytes_spec u) by lia. unfold nbytes.
      destruct (N.ltb_spec u 0x80); [lia|]. destruct (N.ltb_spec u 0x800); [reflexivity|lia]. }
    destruct (N.ltb_spec u 0x10000); [|lia].
    destruct (Nat.ltb room 3); [discriminate|].
    assert (Hb : bs = enc_bytes u 3 /\ used = 1%nat) by (split; congruence). destruct Hb as [Hb Hused]. subst used.
    split; [rewrite E16; reflexivity|]. split; [|split; [lia|rewrite E16; reflexivity]].
    rewrite Hb. rewrite <- (enc_bytes_spec u) by lia. unfold nbytes.
    destruct (N.ltb_spec u 0x80); [lia|]. destruct (N.ltb_spec u 0x800); [lia|].
    destruct (N.ltb_spec u 0x10000); [reflexivity|lia].
Qed.

Lemma firstn_add_skipn : forall (A : Type) (a b : nat) (l : list A),
  firstn (a + b) l = firstn a l ++ firstn b (skipn a l).
Proof.
  induction a as [|a IH]; intros b l; [reflexivity|].
  destruct l as [|x l]; [destruct b; reflexivity|]. cbn [Nat.add firstn skipn app]. f_equal. apply IH.
Qed.

Lemma Forall_skipn : forall (A : Type) (P : A -> Prop) n (l : list A), Forall P l -> Forall P (skipn n l).
Proof.
  induction n as [|n IH]; intros l H; [exact H|]. destruct l as [|x l]; [exact H|].
  inversion H; subst. cbn [skipn]. apply IH. assumption.
Qed.

Lemma x8_to_loop_sound : forall fuel src room throw bs n, Forall u16 src ->
  x8_to_loop fuel src room throw = Ok (bs, n) ->
  exists cps, Forall scalar cps /\ firstn n src = flat_map utf16_enc cps /\ bs = flat_map utf8_enc cps.
Proof.
  induction fuel as [|f IH]; intros src room throw bs n Hsrc H; [discriminate|].
  cbn [x8_to_loop] in H. destruct (x8_to_step src room throw) as [| e | b1 used] eqn:Es.
  - exists []. assert (E : bs = [] /\ n = O) by (split; congruence). destruct E; subst. repeat split; constructor.
  - discriminate.
  - destruct (x8_to_loop f (skipn used src) (room - length b1) throw) as [[o e]|e] eqn:El; [|discriminate].
    assert (E : bs = b1 ++ o /\ n = (used + e)%nat) by (split; congruence). destruct E; subst.
    destruct (x8_to_step_sound _ _ _ _ _ Hsrc Es) as (c & Hc & Hf & Hb & _ & _).
    destruct (IH _ _ _ _ _ (Forall_skipn _ _ used _ Hsrc) El) as (cps & Hcps & Hf2 & Hb2).
    exists (c :: cps). split; [constructor; assumption|]. cbn [flat_map]. split.
    + rewrite firstn_add_skipn, Hf, Hf2. reflexivity.
    + rewrite Hb, Hb2. reflexivity.
Qed.

(** soundness of transcodeTo: no error => the bytes are the UTF-8 form of a well-formed prefix *)
Theorem x8_to_sound : forall src maxBytes throw bs n, Forall u16 src ->
  x8_to src maxBytes throw = Ok (bs, n) ->
  exists cps, Forall scalar cps /\ firstn n src = flat_map utf16_enc cps /\ bs = flat_map utf8_enc cps.
Proof.
  intros src maxBytes throw bs n Hsrc H. unfold x8_to in H.
  destruct src as [|u rest].
  { exists []. assert (E : bs = [] /\ n = O) by (split; congruence). destruct E; subst. repeat split; constructor. }
  destruct maxBytes as [|m].
  { exists []. assert (E : bs = [] /\ n = O) by (split; congruence). destruct E; subst. repeat split; constructor. }
  eapply x8_to_loop_sound; eassumption.
Qed.

(** the two shapes of ill-formed UTF-16 are reported, whatever the room and the options *)
Theorem x8_to_rejects_lone_trail : forall u rest maxBytes throw, 0xDC00 <= u <= 0xDFFF -> maxBytes <> O ->
  x8_to (u :: rest) maxBytes throw = Err E_Trans_BadSrcSeq.
Proof.
  intros u rest maxBytes throw Hu Hm. unfold x8_to. destruct maxBytes as [|m]; [congruence|].
  cbn [x8_to_loop length]. unfold x8_to_step. cbv zeta.
  assert (E1 : ((0xD800 <=? u) && (u <=? 0xDBFF)) = false) by lia. rewrite E1.
  assert (E2 : ((0xDC00 <=? u) && (u <=? 0xDFFF)) = true) by lia. rewrite E2. reflexivity.
Qed.

Theorem x8_to_rejects_bad_trail : forall u t rest maxBytes throw, 0xD800 <= u <= 0xDBFF -> ~ (0xDC00 <= t <= 0xDFFF) ->
  maxBytes <> O -> x8_to (u :: t :: rest) maxBytes throw = Err E_Trans_BadTrailingSurrogate.
Proof.
  intros u t rest maxBytes throw Hu Ht Hm. unfold x8_to. destruct maxBytes as [|m]; [congruence|].
  cbn [x8_to_loop length]. unfold x8_to_step. cbv zeta.
  assert (E1 : ((0xD800 <=? u) && (u <=? 0xDBFF)) = true) by lia. rewrite E1.
  assert (E2 : ((t <? 0xDC00) || (0xDFFF <? t)) = true) by lia. rewrite E2. reflexivity.
Qed.
