(** C05 proofs, part b: XMLUTF8Transcoder::transcodeFrom (model [x8_from]) is sound and complete
    with respect to Unicode Table 3-7, for every input, every output room. *)
From XV Require Import C05.Spec05 C05.Model05 C05.Proofs05a.
From Coq Require Import ZArith ZifyBool ZifyN Lia.
Ltac Zify.zify_post_hook ::= Z.div_mod_to_equations.
Local Open Scope N_scope.

(** arithmetic version of the tail of one iteration *)
Definition finish_a (tb : N) (room produced : nat) (tmp : N) : sres :=
  let v := sub32 tmp (tbl gUTFOffsets tb) in
  if v <? 65536 then SOut [v] (N.to_nat tb + 1)
  else if 0x10FFFF <? v then (if Nat.ltb 32 produced then SBreak32 else SErr E_Trans_BadSrcSeq)
  else if Nat.leb room 1 then SStop
  else SOut [(v - 0x10000) / 1024 + 0xD800; (v - 0x10000) mod 1024 + 0xDC00] (N.to_nat tb + 1).

Definition in_trail (b : N) : bool := (128 <=? b) && (b <? 192).

(** arithmetic version of one iteration: no table, no bit operation *)
Definition x8_step_a (src : list N) (room produced : nat) : sres :=
  match src with
  | [] => SStop
  | b0 :: rest =>
    if Nat.eqb room 0 then SStop else
    if b0 <=? 127 then SOut [b0] 1 else
    let tb := trailing b0 in
    if Nat.ltb (length rest) (N.to_nat tb) then SStop else
    if negb ((0xC2 <=? b0) && (b0 <? 0xFE)) then SErr E_UTF8_FormatError else
    match tb, rest with
    | 1, b1 :: _ =>
        if negb (in_trail b1) then SErr E_UTF8_FormatError else finish_a 1 room produced (b0 * 64 + b1)
    | 2, b1 :: b2 :: _ =>
        if (b0 =? 0xE0) && (b1 <? 0xA0) then SErr E_UTF8_Invalid_3BytesSeq else
        if negb (in_trail b1) then SErr E_UTF8_FormatError else
        if negb (in_trail b2) then SErr E_UTF8_FormatError else
        if (b0 =? 0xED) && (0xA0 <=? b1) then SErr E_UTF8_Irregular_3BytesSeq else
        finish_a 2 room produced ((b0 * 64 + b1) * 64 + b2)
    | 3, b1 :: b2 :: b3 :: _ =>
        if ((b0 =? 0xF0) && (b1 <? 0x90)) || ((b0 =? 0xF4) && (0x8F <? b1)) then SErr E_UTF8_Invalid_4BytesSeq else
        if negb (in_trail b1) then SErr E_UTF8_FormatError else
        if negb (in_trail b2) then SErr E_UTF8_FormatError else
        if negb (in_trail b3) then SErr E_UTF8_FormatError else
        finish_a 3 room produced (((b0 * 64 + b1) * 64 + b2) * 64 + b3)
    | _, _ => SErr E_UTF8_Exceeds_BytesLimit
    end
  end.

Lemma sub32_lt : forall a b, sub32 a b < w32.
Proof. intros. unfold sub32, w32. apply N.mod_lt. discriminate. Qed.

Lemma bytes_cons : forall b l, bytes (b :: l) -> b < 256 /\ bytes l.
Proof. intros b l H. inversion H; subst. split; assumption. Qed.

(** the table/bit-level model equals the arithmetic one on byte strings *)
Lemma x8_step_eq : forall src room produced, bytes src -> x8_step src room produced = x8_step_a src room produced.
Proof.
  intros src room produced Hb. destruct src as [|b0 rest]; [reflexivity|].
  apply bytes_cons in Hb. destruct Hb as [Hb0 Hrest].
  unfold x8_step, x8_step_a.
  destruct (Nat.eqb room 0); [reflexivity|].
  destruct (b0 <=? 127) eqn:Hascii; [reflexivity|].
  cbv zeta.
  change (N.land (tbl gUTFByteIndicatorTest (tbl gUTFBytes b0)) b0 =? tbl gUTFByteIndicator (tbl gUTFBytes b0))
    with (first_ok b0).
  rewrite (first_ok_spec b0 Hb0).
  rewrite (gUTFBytes_spec b0 Hb0).
  assert (Hna : (b0 <? 0x80) = false) by lia. rewrite Hna. cbn [orb].
  destruct (Nat.ltb (length rest) (N.to_nat (trailing b0))); [reflexivity|].
  destruct (negb ((0xC2 <=? b0) && (b0 <? 0xFE))); [reflexivity|].
  assert (Hfin : forall tb tmp,
    (let v := sub32 tmp (tbl gUTFOffsets tb) in
      if N.land v 0xFFFF0000 =? 0 then SOut [v] (N.to_nat tb + 1)
      else if 0x10FFFF <? v then
        (if Nat.ltb 32 produced then SBreak32 else SErr E_Trans_BadSrcSeq)
      else if Nat.leb room 1 then SStop
      else let w := v - 0x10000 in
           SOut [N.shiftr w 10 + 0xD800; N.land w 0x3FF + 0xDC00] (N.to_nat tb + 1)) = finish_a tb room produced tmp).
  { intros tb tmp. unfold finish_a. cbv zeta. rewrite (land_hi16 _ (sub32_lt _ _)).
    rewrite shiftr_div, land_3FF. reflexivity. }
  destruct (trailing b0) as [|p]; [reflexivity|].
  destruct p as [p|p|]; try reflexivity.
  - (* tb = 2p+1 : 3 or other *)
    destruct p as [p|p|]; try reflexivity.
    destruct rest as [|b1 [|b2 [|b3 r]]]; try reflexivity.
    apply bytes_cons in Hrest. destruct Hrest as [H1 Hrest].
    apply bytes_cons in Hrest. destruct Hrest as [H2 Hrest].
    apply bytes_cons in Hrest. destruct Hrest as [H3 _].
    rewrite !trail_bad_spec by assumption. fold (in_trail b1) (in_trail b2) (in_trail b3).
    rewrite !shiftl6. rewrite <- Hfin. reflexivity.
  - (* tb = 2p : 2 or other *)
    destruct p as [p|p|]; try reflexivity.
    destruct rest as [|b1 [|b2 r]]; try reflexivity.
    apply bytes_cons in Hrest. destruct Hrest as [H1 Hrest].
    apply bytes_cons in Hrest. destruct Hrest as [H2 _].
    rewrite !trail_bad_spec by assumption. fold (in_trail b1) (in_trail b2).
    rewrite !shiftl6. rewrite <- Hfin. reflexivity.
  - (* tb = 1 *)
    destruct rest as [|b1 r]; try reflexivity.
    apply bytes_cons in Hrest. destruct Hrest as [H1 _].
    rewrite !trail_bad_spec by assumption. fold (in_trail b1).
    rewrite !shiftl6. rewrite <- Hfin. reflexivity.
Qed.

(* ---------------------------------------------------------------------------------------- *)
(** * soundness of one iteration *)

Lemma finish_a_out : forall tb room p tmp u n, finish_a tb room p tmp = SOut u n ->
  let v := sub32 tmp (tbl gUTFOffsets tb) in
  n = (N.to_nat tb + 1)%nat /\
  ((v < 65536 /\ u = [v]) \/
   (65536 <= v <= 0x10FFFF /\ (2 <= room)%nat /\ u = [(v - 0x10000) / 1024 + 0xD800; (v - 0x10000) mod 1024 + 0xDC00])).
Proof.
  intros tb room p tmp u n H. unfold finish_a in H. cbv zeta in *.
  destruct (N.ltb_spec (sub32 tmp (tbl gUTFOffsets tb)) 65536) as [Hlt|Hge].
  - inversion H; subst. split; [reflexivity|]. left. split; [exact Hlt|reflexivity].
  - destruct (N.ltb_spec 0x10FFFF (sub32 tmp (tbl gUTFOffsets tb))) as [Hbig|Hok].
    + destruct (Nat.ltb 32 p); discriminate.
    + destruct (Nat.leb_spec room 1) as [Hr|Hr]; [discriminate|].
      inversion H; subst. split; [reflexivity|]. right. repeat split; try lia.
Qed.

Lemma utf16_enc_small : forall v, v < 65536 -> utf16_enc v = [v].
Proof. intros v H. unfold utf16_enc. destruct (N.ltb_spec v 0x10000); [reflexivity|lia]. Qed.

Lemma utf16_enc_big : forall v, 65536 <= v ->
  utf16_enc v = [0xD800 + (v - 0x10000) / 1024; 0xDC00 + (v - 0x10000) mod 1024].
Proof. intros v H. unfold utf16_enc. destruct (N.ltb_spec v 0x10000); [lia|reflexivity]. Qed.

Definition step_post (src : list N) (room : nat) (u : list N) (n : nat) : Prop :=
  exists c, scalar c /\ firstn n src = utf8_enc c /\ u = utf16_enc c /\
            (length u <= room)%nat /\ (n <= length src)%nat /\ (0 < n)%nat.

Lemma x8_step_a_sound : forall src room p u n, x8_step_a src room p = SOut u n -> step_post src room u n.
Proof.
  intros src room p u n H. unfold step_post. destruct src as [|b0 rest]; [discriminate|].
  unfold x8_step_a in H.
  destruct (Nat.eqb_spec room 0) as [Hr0|Hr0]; [discriminate|].
  destruct (N.leb_spec b0 127) as [Hascii|Hna].
  { inversion H; subst. exists b0. repeat split; cbn [length firstn]; try lia.
    - apply scalar_bounds. lia.
    - unfold utf8_enc. destruct (N.ltb_spec b0 0x80); [reflexivity|lia].
    - symmetry. apply utf16_enc_small. lia. }
  cbv zeta in H.
  destruct (Nat.ltb (length rest) (N.to_nat (trailing b0))); [discriminate|].
  destruct ((0xC2 <=? b0) && (b0 <? 0xFE)) eqn:Hfirst; cbn [negb] in H; [|discriminate].
  destruct gUTFOffsets_vals as (Ho1 & Ho2 & Ho3).
  unfold trailing in H.
  destruct (N.ltb_spec b0 0xC2); [lia|].
  destruct (N.ltb_spec b0 0xE0).
  { (* two bytes *)
    destruct rest as [|b1 r]; [discriminate|].
    unfold in_trail in H. destruct ((128 <=? b1) && (b1 <? 192)) eqn:Ht1; cbn [negb] in H; [|discriminate].
    apply finish_a_out in H. cbv zeta in H. rewrite Ho1 in H. unfold sub32, w32 in H.
    destruct H as [Hn [[Hv Hu]|[Hv _]]]; [|lia].
    subst n u. set (v := (b0 * 64 + b1 + 4294967296 - 12416) mod 4294967296) in *.
    assert (Ev : v = (b0 - 0xC0) * 64 + (b1 - 0x80)) by (unfold v; lia). clearbody v.
    exists v. change (N.to_nat 1 + 1)%nat with 2%nat. change (N.to_nat 2 + 1)%nat with 3%nat. change (N.to_nat 3 + 1)%nat with 4%nat.
    repeat split; cbn [length firstn]; try lia.
    - apply scalar_bounds. lia.
    - unfold utf8_enc. destruct (N.ltb_spec v 0x80); [lia|]. destruct (N.ltb_spec v 0x800); [|lia].
      f_equal; [lia|f_equal; lia].
    - symmetry. apply utf16_enc_small. lia. }
  destruct (N.ltb_spec b0 0xF0).
  { (* three bytes *)
    destruct rest as [|b1 [|b2 r]]; try discriminate.
    destruct ((b0 =? 0xE0) && (b1 <? 0xA0)) eqn:He0; [discriminate|].
    unfold in_trail in H.
    destruct ((128 <=? b1) && (b1 <? 192)) eqn:Ht1; cbn [negb] in H; [|discriminate].
    destruct ((128 <=? b2) && (b2 <? 192)) eqn:Ht2; cbn [negb] in H; [|discriminate].
    destruct ((b0 =? 0xED) && (0xA0 <=? b1)) eqn:Hed; [discriminate|].
    apply finish_a_out in H. cbv zeta in H. rewrite Ho2 in H. unfold sub32, w32 in H.
    destruct H as [Hn [[Hv Hu]|[Hv _]]]; [|lia].
    subst n u. set (v := ((b0 * 64 + b1) * 64 + b2 + 4294967296 - 925824) mod 4294967296) in *.
    assert (Ev : v = (b0 - 0xE0) * 4096 + (b1 - 0x80) * 64 + (b2 - 0x80)) by (unfold v; lia). clearbody v.
    exists v. change (N.to_nat 1 + 1)%nat with 2%nat. change (N.to_nat 2 + 1)%nat with 3%nat. change (N.to_nat 3 + 1)%nat with 4%nat.
    repeat split; cbn [length firstn]; try lia.
    - apply scalar_bounds. lia.
    - unfold utf8_enc. destruct (N.ltb_spec v 0x80); [lia|]. destruct (N.ltb_spec v 0x800); [lia|].
      destruct (N.ltb_spec v 0x10000); [|lia].
      f_equal; [lia|f_equal; [lia|f_equal; lia]].
    - symmetry. apply utf16_enc_small. lia. }
  destruct (N.ltb_spec b0 0xF8).
  { (* four bytes *)
    destruct rest as [|b1 [|b2 [|b3 r]]]; try discriminate.
    destruct (((b0 =? 0xF0) && (b1 <? 0x90)) || ((b0 =? 0xF4) && (0x8F <? b1))) eqn:Hf; [discriminate|].
    unfold in_trail in H.
    destruct ((128 <=? b1) && (b1 <? 192)) eqn:Ht1; cbn [negb] in H; [|discriminate].
    destruct ((128 <=? b2) && (b2 <? 192)) eqn:Ht2; cbn [negb] in H; [|discriminate].
    destruct ((128 <=? b3) && (b3 <? 192)) eqn:Ht3; cbn [negb] in H; [|discriminate].
    apply finish_a_out in H. cbv zeta in H. rewrite Ho3 in H. unfold sub32, w32 in H.
    set (v := (((b0 * 64 + b1) * 64 + b2) * 64 + b3 + 4294967296 - 63447168) mod 4294967296) in *.
    assert (Ev : v = (b0 - 0xF0) * 262144 + (b1 - 0x80) * 4096 + (b2 - 0x80) * 64 + (b3 - 0x80)) by (unfold v; lia).
    clearbody v.
    destruct H as [Hn [[Hv Hu]|[Hv [Hroom Hu]]]]; [lia|].
    subst n u.
    exists v. change (N.to_nat 1 + 1)%nat with 2%nat. change (N.to_nat 2 + 1)%nat with 3%nat. change (N.to_nat 3 + 1)%nat with 4%nat.
    repeat split; cbn [length firstn]; try lia.
    - apply scalar_bounds. lia.
    - unfold utf8_enc. destruct (N.ltb_spec v 0x80); [lia|]. destruct (N.ltb_spec v 0x800); [lia|].
      destruct (N.ltb_spec v 0x10000); [lia|].
      f_equal; [lia|f_equal; [lia|f_equal; [lia|f_equal; lia]]].
    - rewrite utf16_enc_big by lia. f_equal; [lia|f_equal; lia]. }
  destruct (N.ltb_spec b0 0xFC); discriminate.
Qed.

Theorem x8_step_sound : forall src room p u n, bytes src -> x8_step src room p = SOut u n -> step_post src room u n.
Proof. intros src room p u n Hb H. rewrite x8_step_eq in H by exact Hb. eapply x8_step_a_sound. exact H. Qed.

(* ---------------------------------------------------------------------------------------- *)
(** * completeness of one iteration: every encoding of a scalar value is decoded to it *)

Lemma utf16_enc_len : forall c, (1 <= length (utf16_enc c) <= 2)%nat.
Proof. intros c. unfold utf16_enc. destruct (c <? 0x10000); cbn; lia. Qed.

Lemma x8_step_a_complete : forall c rest room p, scalar c -> (length (utf16_enc c) <= room)%nat ->
  x8_step_a (utf8_enc c ++ rest) room p = SOut (utf16_enc c) (length (utf8_enc c)).
Proof.
  intros c rest room p Hc Hroom. apply scalar_bounds in Hc.
  pose proof (utf16_enc_len c) as Hl.
  destruct gUTFOffsets_vals as (Ho1 & Ho2 & Ho3).
  unfold utf8_enc.
  destruct (N.ltb_spec c 0x80) as [H1|H1].
  { cbn [app length]. unfold x8_step_a.
    destruct (Nat.eqb_spec room 0); [lia|].
    destruct (N.leb_spec c 127); [|lia]. rewrite utf16_enc_small by lia. reflexivity. }
  destruct (N.ltb_spec c 0x800) as [H2|H2].
  { cbn [app length]. remember (0xC0 + c / 64) as b0 eqn:E0. remember (0x80 + c mod 64) as b1 eqn:E1.
    unfold x8_step_a.
    destruct (Nat.eqb_spec room 0); [lia|].
    destruct (N.leb_spec b0 127); [lia|]. cbv zeta.
    assert (Et : trailing b0 = 1).
    { unfold trailing. destruct (N.ltb_spec b0 0xC2); [lia|]. destruct (N.ltb_spec b0 0xE0); [reflexivity|lia]. }
    rewrite Et. change (N.to_nat 1) with 1%nat.
    cbn [length Nat.ltb Nat.leb Nat.add].
    assert (Ef : ((0xC2 <=? b0) && (b0 <? 0xFE)) = true) by lia. rewrite Ef. cbn [negb].
    assert (Et1 : in_trail b1 = true) by (unfold in_trail; lia). rewrite Et1. cbn [negb].
    unfold finish_a. cbv zeta. rewrite Ho1. unfold sub32, w32.
    assert (Ev : (b0 * 64 + b1 + 4294967296 - 12416) mod 4294967296 = c) by lia. rewrite Ev.
    destruct (N.ltb_spec c 65536); [|lia]. rewrite utf16_enc_small by lia. reflexivity. }
  destruct (N.ltb_spec c 0x10000) as [H3|H3].
  { cbn [app length]. remember (0xE0 + c / 4096) as b0 eqn:E0. remember (0x80 + (c / 64) mod 64) as b1 eqn:E1.
    remember (0x80 + c mod 64) as b2 eqn:E2.
    unfold x8_step_a.
    destruct (Nat.eqb_spec room 0); [lia|].
    destruct (N.leb_spec b0 127); [lia|]. cbv zeta.
    assert (Et : trailing b0 = 2).
    { unfold trailing. destruct (N.ltb_spec b0 0xC2); [lia|]. destruct (N.ltb_spec b0 0xE0); [lia|].
      destruct (N.ltb_spec b0 0xF0); [reflexivity|lia]. }
    rewrite Et. change (N.to_nat 1) with 1%nat. change (N.to_nat 2) with 2%nat. change (N.to_nat 3) with 3%nat.
    cbn [length Nat.ltb Nat.leb Nat.add].
    assert (Ef : ((0xC2 <=? b0) && (b0 <? 0xFE)) = true) by lia. rewrite Ef. cbn [negb].
    assert (Ee0 : ((b0 =? 0xE0) && (b1 <? 0xA0)) = false) by lia. rewrite Ee0.
    assert (Et1 : in_trail b1 = true) by (unfold in_trail; lia). rewrite Et1. cbn [negb].
    assert (Et2 : in_trail b2 = true) by (unfold in_trail; lia). rewrite Et2. cbn [negb].
    assert (Eed : ((b0 =? 0xED) && (0xA0 <=? b1)) = false) by lia. rewrite Eed.
    unfold finish_a. cbv zeta. rewrite Ho2. unfold sub32, w32.
    assert (Ev : ((b0 * 64 + b1) * 64 + b2 + 4294967296 - 925824) mod 4294967296 = c) by lia. rewrite Ev.
    destruct (N.ltb_spec c 65536); [|lia]. rewrite utf16_enc_small by lia. reflexivity. }
  { cbn [app length]. remember (0xF0 + c / 262144) as b0 eqn:E0. remember (0x80 + (c / 4096) mod 64) as b1 eqn:E1.
    remember (0x80 + (c / 64) mod 64) as b2 eqn:E2. remember (0x80 + c mod 64) as b3 eqn:E3.
    unfold x8_step_a.
    destruct (Nat.eqb_spec room 0); [lia|].
    destruct (N.leb_spec b0 127); [lia|]. cbv zeta.
    assert (Et : trailing b0 = 3).
    { unfold trailing. destruct (N.ltb_spec b0 0xC2); [lia|]. destruct (N.ltb_spec b0 0xE0); [lia|].
      destruct (N.ltb_spec b0 0xF0); [lia|]. destruct (N.ltb_spec b0 0xF8); [reflexivity|lia]. }
    rewrite Et. change (N.to_nat 1) with 1%nat. change (N.to_nat 2) with 2%nat. change (N.to_nat 3) with 3%nat.
    cbn [length Nat.ltb Nat.leb Nat.add].
    assert (Ef : ((0xC2 <=? b0) && (b0 <? 0xFE)) = true) by lia. rewrite Ef. cbn [negb].
    assert (Ee0 : (((b0 =? 0xF0) && (b1 <? 0x90)) || ((b0 =? 0xF4) && (0x8F <? b1))) = false) by lia. rewrite Ee0.
    assert (Et1 : in_trail b1 = true) by (unfold in_trail; lia). rewrite Et1. cbn [negb].
    assert (Et2 : in_trail b2 = true) by (unfold in_trail; lia). rewrite Et2. cbn [negb].
    assert (Et3 : in_trail b3 = true) by (unfold in_trail; lia). rewrite Et3. cbn [negb].
    unfold finish_a. cbv zeta. rewrite Ho3. unfold sub32, w32.
    assert (Ev : (((b0 * 64 + b1) * 64 + b2) * 64 + b3 + 4294967296 - 63447168) mod 4294967296 = c) by lia. rewrite Ev.
    destruct (N.ltb_spec c 65536); [lia|]. destruct (N.ltb_spec 0x10FFFF c); [lia|].
    rewrite utf16_enc_big in * by lia. cbn [length] in Hroom.
    destruct (Nat.leb_spec room 1); [lia|].
    f_equal. f_equal; [lia|f_equal; lia]. }
Qed.

Lemma bytes_app : forall a b, bytes a -> bytes b -> bytes (a ++ b).
Proof. intros a b Ha Hb. unfold bytes in *. apply Forall_app. split; assumption. Qed.

Theorem x8_step_complete : forall c rest room p, scalar c -> bytes rest -> (length (utf16_enc c) <= room)%nat ->
  x8_step (utf8_enc c ++ rest) room p = SOut (utf16_enc c) (length (utf8_enc c)).
Proof.
  intros c rest room p Hc Hb Hroom. rewrite x8_step_eq.
  - apply x8_step_a_complete; assumption.
  - apply bytes_app; [apply utf8_enc_bytes; exact Hc|exact Hb].
Qed.
