(** C05 proofs, part a: the specification is self-consistent (Table 3-6 vs Table 3-7), bit-operation
    lemmas, and the generated UTF-8 tables are what the arithmetic characterisation says. *)
From XV Require Import C05.Spec05 C05.Model05.
From Coq Require Import ZArith ZifyBool ZifyN Lia.
Ltac Zify.zify_post_hook ::= Z.div_mod_to_equations.
Local Open Scope N_scope.

(* ---------------------------------------------------------------------------------------- *)
(** * bit operations as arithmetic *)

Lemma shiftl6 : forall a, N.shiftl a 6 = a * 64.
Proof. intros a. rewrite N.shiftl_mul_pow2. reflexivity. Qed.

Lemma shiftr_div : forall a n, N.shiftr a n = a / 2 ^ n.
Proof. intros. apply N.shiftr_div_pow2. Qed.

Lemma land_3FF : forall a, N.land a 0x3FF = a mod 1024.
Proof. intros a. change 0x3FF with (N.ones 10). rewrite N.land_ones. reflexivity. Qed.

Lemma land_hi16 : forall v, v < w32 -> (N.land v 0xFFFF0000 =? 0) = (v <? 65536).
Proof.
  intros v Hv. destruct (N.ltb_spec v 65536) as [Hlt|Hge].
  - apply N.eqb_eq.
    assert (E : v = N.land v (N.ones 16)).
    { rewrite N.land_ones. symmetry. apply N.mod_small. exact Hlt. }
    rewrite E. rewrite <- N.land_assoc. change (N.land (N.ones 16) 0xFFFF0000) with 0. apply N.land_0_r.
  - apply N.eqb_neq. intros H.
    assert (H2 : N.shiftr (N.land v 0xFFFF0000) 16 = 0) by (rewrite H; reflexivity).
    rewrite N.shiftr_land in H2. change (N.shiftr 0xFFFF0000 16) with (N.ones 16) in H2.
    rewrite N.land_ones, N.shiftr_div_pow2 in H2. change (2 ^ 16) with 65536 in H2.
    unfold w32 in Hv. lia.
Qed.

Lemma trail_bad_spec : forall b, b < 256 -> trail_bad b = negb ((128 <=? b) && (b <? 192)).
Proof.
  intros b Hb.
  apply (sweep256 (fun b => Bool.eqb (trail_bad b) (negb ((128 <=? b) && (b <? 192))))) in Hb.
  - apply Bool.eqb_prop. exact Hb.
  - vm_compute. reflexivity.
Qed.

(* ---------------------------------------------------------------------------------------- *)
(** * the generated tables (obligations over Gen/GenUtf8.v; a changed entry breaks these) *)

(** number of trailing bytes as a function of the first byte, arithmetically *)
Definition trailing (b0 : N) : N :=
  if b0 <? 0xC2 then 0 else if b0 <? 0xE0 then 1 else if b0 <? 0xF0 then 2 else if b0 <? 0xF8 then 3
  else if b0 <? 0xFC then 4 else 5.

Lemma gUTFBytes_spec : forall b, b < 256 -> tbl gUTFBytes b = trailing b.
Proof.
  intros b Hb. apply (sweep256 (fun b => tbl gUTFBytes b =? trailing b)) in Hb.
  - apply N.eqb_eq. exact Hb.
  - vm_compute. reflexivity.
Qed.

(** the first-byte test passes exactly for ASCII and for C2..FD *)
Definition first_ok (b0 : N) : bool :=
  N.land (tbl gUTFByteIndicatorTest (tbl gUTFBytes b0)) b0 =? tbl gUTFByteIndicator (tbl gUTFBytes b0).

Lemma first_ok_spec : forall b, b < 256 -> first_ok b = ((b <? 0x80) || ((0xC2 <=? b) && (b <? 0xFE))).
Proof.
  intros b Hb.
  apply (sweep256 (fun b => Bool.eqb (first_ok b) ((b <? 0x80) || ((0xC2 <=? b) && (b <? 0xFE))))) in Hb.
  - apply Bool.eqb_prop. exact Hb.
  - vm_compute. reflexivity.
Qed.

Lemma gUTFOffsets_vals :
  tbl gUTFOffsets 1 = 0x3080 /\ tbl gUTFOffsets 2 = 0xE2080 /\ tbl gUTFOffsets 3 = 0x3C82080.
Proof. vm_compute. repeat split. Qed.

Lemma gFirstByteMark_vals :
  tbl gFirstByteMark 1 = 0 /\ tbl gFirstByteMark 2 = 0xC0 /\ tbl gFirstByteMark 3 = 0xE0 /\ tbl gFirstByteMark 4 = 0xF0.
Proof. vm_compute. repeat split. Qed.

(* ---------------------------------------------------------------------------------------- *)
(** * Spec consistency: the encoder of Table 3-6 produces exactly the rows of Table 3-7 *)

Lemma scalar_bounds : forall c, scalar c <-> c <= 0x10FFFF /\ ~ (0xD800 <= c <= 0xDFFF).
Proof. intros c. unfold scalar, scalarb. lia. Qed.

Lemma utf8_enc_wf : forall c, scalar c -> wf8_seq (utf8_enc c) = true.
Proof.
  intros c Hc. apply scalar_bounds in Hc. unfold utf8_enc.
  destruct (N.ltb_spec c 0x80); [cbn [wf8_seq]; unfold inr; lia|].
  destruct (N.ltb_spec c 0x800); [cbn [wf8_seq]; unfold inr; lia|].
  destruct (N.ltb_spec c 0x10000); cbn [wf8_seq]; unfold inr; lia.
Qed.

Lemma utf8_enc_val : forall c, scalar c -> utf8_val (utf8_enc c) = c.
Proof.
  intros c Hc. apply scalar_bounds in Hc. unfold utf8_enc.
  destruct (N.ltb_spec c 0x80); [reflexivity|].
  destruct (N.ltb_spec c 0x800); [cbn [utf8_val]; lia|].
  destruct (N.ltb_spec c 0x10000); cbn [utf8_val]; lia.
Qed.

Lemma wf8_seq_enc : forall l, wf8_seq l = true -> scalar (utf8_val l) /\ utf8_enc (utf8_val l) = l.
Proof.
  intros l H.
  destruct l as [|b0 [|b1 [|b2 [|b3 [|b4 r]]]]]; cbn [wf8_seq] in H; try discriminate; unfold inr in H.
  - split; [apply scalar_bounds; cbn [utf8_val]; lia|].
    cbn [utf8_val]. unfold utf8_enc. destruct (N.ltb_spec b0 0x80); [reflexivity|lia].
  - split; [apply scalar_bounds; cbn [utf8_val]; lia|].
    cbn [utf8_val]. unfold utf8_enc.
    destruct (N.ltb_spec ((b0 - 192) * 64 + (b1 - 128)) 0x80); [lia|].
    destruct (N.ltb_spec ((b0 - 192) * 64 + (b1 - 128)) 0x800); [|lia].
    f_equal; [lia|f_equal; lia].
  - split; [apply scalar_bounds; cbn [utf8_val]; lia|].
    cbn [utf8_val]. unfold utf8_enc.
    set (v := (b0 - 224) * 4096 + (b1 - 128) * 64 + (b2 - 128)).
    assert (Hv : v = (b0 - 224) * 4096 + (b1 - 128) * 64 + (b2 - 128)) by reflexivity. clearbody v.
    destruct (N.ltb_spec v 0x80); [lia|]. destruct (N.ltb_spec v 0x800); [lia|].
    destruct (N.ltb_spec v 0x10000); [|lia].
    f_equal; [lia|f_equal; [lia|f_equal; lia]].
  - split; [apply scalar_bounds; cbn [utf8_val]; lia|].
    cbn [utf8_val]. unfold utf8_enc.
    set (v := (b0 - 240) * 262144 + (b1 - 128) * 4096 + (b2 - 128) * 64 + (b3 - 128)).
    assert (Hv : v = (b0 - 240) * 262144 + (b1 - 128) * 4096 + (b2 - 128) * 64 + (b3 - 128)) by reflexivity.
    clearbody v.
    destruct (N.ltb_spec v 0x80); [lia|]. destruct (N.ltb_spec v 0x800); [lia|].
    destruct (N.ltb_spec v 0x10000); [lia|].
    f_equal; [lia|f_equal; [lia|f_equal; [lia|f_equal; lia]]].
Qed.

Lemma utf8_enc_len : forall c, (1 <= length (utf8_enc c) <= 4)%nat.
Proof.
  intros c. unfold utf8_enc.
  destruct (c <? 0x80); [cbn; lia|]. destruct (c <? 0x800); [cbn; lia|]. destruct (c <? 0x10000); cbn; lia.
Qed.

Lemma utf8_enc_bytes : forall c, scalar c -> bytes (utf8_enc c).
Proof.
  intros c Hc. apply scalar_bounds in Hc. unfold utf8_enc, bytes, is_byte.
  destruct (N.ltb_spec c 0x80); [repeat constructor; lia|].
  destruct (N.ltb_spec c 0x800); [repeat constructor; lia|].
  destruct (N.ltb_spec c 0x10000); repeat constructor; lia.
Qed.
