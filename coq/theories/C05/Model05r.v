(** Model of XMLRecognizer::basicEncodingProbe (src/xercesc/framework/XMLRecognizer.cpp), the auto-sensing
    of the encoding family from the first bytes of an entity.  Prefix constants are generated. *)
From XV Require Export Base.XDefs.
From XV Require Export Gen.GenRecognizer.
Local Open Scope N_scope.

Inductive enc : Type := EBCDIC | UCS_4B | UCS_4L | UTF_8 | UTF_16B | UTF_16L.

Fixpoint list_eqb (a b : list N) : bool :=
  match a, b with
  | [], [] => true
  | x :: a', y :: b' => (x =? y) && list_eqb a' b'
  | _, _ => false
  end.

(** rawByteCount >= len && !memcmp(rawBuffer, pre, len)   (both conjuncts are pure; the comparison is written
    first so that it reduces on inputs with a symbolic tail) *)
Definition has_prefix (pre : list N) (len : nat) (raw : list N) : bool :=
  list_eqb (firstn len raw) (firstn len pre) && Nat.leb len (length raw).

Definition byte_at (raw : list N) (i : nat) : N := nth i raw 0.

Definition probe (raw : list N) : enc :=
  let n := length raw in
  if has_prefix fgASCIIPre fgASCIIPre_len raw then UTF_8 else
  if Nat.ltb n 2 then UTF_8 else
  let b0 := byte_at raw 0 in let b1 := byte_at raw 1 in let b2 := byte_at raw 2 in let b3 := byte_at raw 3 in
  if Nat.ltb n 4 then
    (if (b0 =? 0xFE) && (b1 =? 0xFF) then UTF_16B else if (b0 =? 0xFF) && (b1 =? 0xFE) then UTF_16L else UTF_8)
  else
  if (b0 =? 0x00) && (b1 =? 0x00) && (b2 =? 0xFE) && (b3 =? 0xFF) then UCS_4B else
  if (b0 =? 0xFF) && (b1 =? 0xFE) && (b2 =? 0x00) && (b3 =? 0x00) then UCS_4L else
  if (b0 =? 0xFE) && (b1 =? 0xFF) then UTF_16B else
  if (b0 =? 0xFF) && (b1 =? 0xFE) then UTF_16L else
  let pre4 :=
    if (b0 =? 0x00) || (b0 =? 0x3C) then
      if has_prefix fgUCS4BPre fgUCS4BPre_len raw then Some UCS_4B
      else if has_prefix fgUCS4LPre fgUCS4LPre_len raw then Some UCS_4L
      else if has_prefix fgUTF16BPre fgUTF16BPre_len raw then Some UTF_16B
      else if has_prefix fgUTF16LPre fgUTF16LPre_len raw then Some UTF_16L
      else None
    else None in
  match pre4 with
  | Some e => e
  | None =>
    (* rawByteCount > fgEBCDICPreLen (strictly) *)
    if list_eqb (firstn fgEBCDICPre_len raw) (firstn fgEBCDICPre_len fgEBCDICPre) && Nat.ltb fgEBCDICPre_len n
    then EBCDIC else UTF_8
  end.
