(** Specification side of C05: Unicode scalar values, UTF-8 (Unicode Table 3-6 bit distribution and
    Table 3-7 well-formed byte sequences), UTF-16, UCS-4. Nothing here mentions the C++ code. *)
From XV Require Export Base.XDefs.
Local Open Scope N_scope.

Definition scalarb (c : N) : bool := (c <=? 0x10FFFF) && negb ((0xD800 <=? c) && (c <=? 0xDFFF)).
Definition scalar (c : N) : Prop := scalarb c = true.

(** UTF-8 encoding of a scalar value (Table 3-6). *)
Definition utf8_enc (c : N) : list N :=
  if c <? 0x80 then [c]
  else if c <? 0x800 then [0xC0 + c / 64; 0x80 + c mod 64]
  else if c <? 0x10000 then [0xE0 + c / 4096; 0x80 + (c / 64) mod 64; 0x80 + c mod 64]
  else [0xF0 + c / 262144; 0x80 + (c / 4096) mod 64; 0x80 + (c / 64) mod 64; 0x80 + c mod 64].

(** UTF-16 encoding of a scalar value. *)
Definition utf16_enc (c : N) : list N :=
  if c <? 0x10000 then [c] else [0xD800 + (c - 0x10000) / 1024; 0xDC00 + (c - 0x10000) mod 1024].

(** Table 3-7: the well-formed UTF-8 byte sequences, row by row. *)
Definition inr (lo hi b : N) : bool := (lo <=? b) && (b <=? hi).
Definition wf8_seq (l : list N) : bool :=
  match l with
  | [b0] => inr 0x00 0x7F b0
  | [b0; b1] => inr 0xC2 0xDF b0 && inr 0x80 0xBF b1
  | [b0; b1; b2] =>
      (  (b0 =? 0xE0) && inr 0xA0 0xBF b1
      || inr 0xE1 0xEC b0 && inr 0x80 0xBF b1
      || (b0 =? 0xED) && inr 0x80 0x9F b1
      || inr 0xEE 0xEF b0 && inr 0x80 0xBF b1) && inr 0x80 0xBF b2
  | [b0; b1; b2; b3] =>
      (  (b0 =? 0xF0) && inr 0x90 0xBF b1
      || inr 0xF1 0xF3 b0 && inr 0x80 0xBF b1
      || (b0 =? 0xF4) && inr 0x80 0x8F b1) && inr 0x80 0xBF b2 && inr 0x80 0xBF b3
  | _ => false
  end.

(** the value denoted by a well-formed sequence (Table 3-6 read right to left) *)
Definition utf8_val (l : list N) : N :=
  match l with
  | [b0] => b0
  | [b0; b1] => (b0 - 0xC0) * 64 + (b1 - 0x80)
  | [b0; b1; b2] => (b0 - 0xE0) * 4096 + (b1 - 0x80) * 64 + (b2 - 0x80)
  | [b0; b1; b2; b3] => (b0 - 0xF0) * 262144 + (b1 - 0x80) * 4096 + (b2 - 0x80) * 64 + (b3 - 0x80)
  | _ => 0
  end.

(** a byte string is well-formed UTF-8 iff it is a concatenation of encodings of scalar values *)
Definition WF8 (bs : list N) : Prop := exists cps, Forall scalar cps /\ bs = flat_map utf8_enc cps.
(** a unit string is well-formed UTF-16 iff it is a concatenation of encodings of scalar values *)
Definition WF16 (w : list N) : Prop := exists cps, Forall scalar cps /\ w = flat_map utf16_enc cps.

(** UCS-4: four bytes, big or little endian *)
Definition ucs4_enc (be : bool) (c : N) : list N :=
  let b0 := c mod 256 in let b1 := (c / 256) mod 256 in
  let b2 := (c / 65536) mod 256 in let b3 := (c / 16777216) mod 256 in
  if be then [b3; b2; b1; b0] else [b0; b1; b2; b3].
