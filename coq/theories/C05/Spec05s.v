(** Specification side of encoding detection and of the agreement between the detected encoding family and the
    encoding declaration (XML 1.0 Appendix F.1 and section 4.3.3).  Nothing here mentions the C++ code. *)
From XV Require Export Base.XDefs.
From XV Require Import C05.Spec05.
From Coq Require Import String Ascii.
Local Open Scope N_scope.

(** the families Appendix F distinguishes: what a code unit is and in which byte order it arrives *)
Inductive family : Type := FamByte | Fam16B | Fam16L | Fam32B | Fam32L | FamEBCDIC.

Fixpoint starts_with (pat raw : list N) : bool :=
  match pat, raw with
  | [], _ => true
  | p :: ps, r :: rs => (r =? p) && starts_with ps rs
  | _ :: _, [] => false
  end.

(** "<?xml " *)
Definition decl_start : list N := [0x3C; 0x3F; 0x78; 0x6D; 0x6C; 0x20].

(** the characters of [cps] (all below U+0080) as they arrive in each family; for EBCDIC only the invariant
    code points of "<?xml " are needed *)
Definition in_family (f : family) (cps : list N) : list N :=
  match f with
  | FamByte => cps
  | Fam16B => flat_map (fun c => [0; c]) cps
  | Fam16L => flat_map (fun c => [c; 0]) cps
  | Fam32B => flat_map (fun c => [0; 0; 0; c]) cps
  | Fam32L => flat_map (fun c => [c; 0; 0; 0]) cps
  | FamEBCDIC => [0x4C; 0x6F; 0xA7; 0x94; 0x93; 0x40]
  end.

(** Appendix F.1 as ordered rules, first match wins:
      with a byte order mark    00 00 FE FF  UCS-4 BE | FF FE 00 00  UCS-4 LE | FE FF  UTF-16 BE | FF FE  UTF-16 LE
      without                   "<?xml " in UCS-4 BE / UCS-4 LE / UTF-16 BE / UTF-16 LE / EBCDIC (and more to come)
      otherwise                 bytes: UTF-8 or another ASCII-compatible encoding (EF BB BF included)           *)
Definition spec_detect (raw : list N) : family :=
  if starts_with [0x00; 0x00; 0xFE; 0xFF] raw then Fam32B else
  if starts_with [0xFF; 0xFE; 0x00; 0x00] raw then Fam32L else
  if starts_with [0xFE; 0xFF] raw then Fam16B else
  if starts_with [0xFF; 0xFE] raw then Fam16L else
  if starts_with (in_family Fam32B decl_start) raw then Fam32B else
  if starts_with (in_family Fam32L decl_start) raw then Fam32L else
  if starts_with (in_family Fam16B decl_start) raw then Fam16B else
  if starts_with (in_family Fam16L decl_start) raw then Fam16L else
  if starts_with (in_family FamEBCDIC decl_start) raw && Nat.ltb 6 (List.length raw) then FamEBCDIC else
  FamByte.

(** ** declared names *)
Definition units_of_string (s : string) : list N := map N_of_ascii (list_ascii_of_string s).

(** what a declared name (upper case) promises about the entity's bytes *)
Inductive dfam : Type := D_Byte | D_16 | D_16L | D_16B | D_32 | D_32L | D_32B.

Definition spec_names : list (list N * dfam) :=
  map (fun p => (units_of_string (fst p), snd p))
    [ ("UTF-8", D_Byte); ("UTF8", D_Byte); ("US-ASCII", D_Byte); ("ASCII", D_Byte);
      ("UTF-16", D_16); ("UTF-16LE", D_16L); ("UTF-16BE", D_16B); ("UTF-16 (LE)", D_16L); ("UTF-16 (BE)", D_16B);
      ("ISO-10646-UCS-2", D_16); ("UCS-2", D_16);
      ("UCS-4", D_32); ("UCS-4LE", D_32L); ("UCS-4BE", D_32B); ("UCS-4 (LE)", D_32L); ("UCS-4 (BE)", D_32B);
      ("ISO-10646-UCS-4", D_32); ("UTF-32", D_32) ]%string.

(** XML 1.0 4.3.3: the declaration must name the encoding the entity is in: the declared name is compatible
    with the family detected from the entity's first bytes *)
Definition compat (sensed : family) (d : dfam) : bool :=
  match d, sensed with
  | D_Byte, FamByte => true
  | D_16, Fam16L | D_16, Fam16B | D_16L, Fam16L | D_16B, Fam16B => true
  | D_32, Fam32L | D_32, Fam32B | D_32L, Fam32L | D_32B, Fam32B => true
  | _, _ => false
  end.

Definition all_families : list family := [FamByte; Fam16B; Fam16L; Fam32B; Fam32L; FamEBCDIC].
