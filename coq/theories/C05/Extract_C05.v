(** Extraction of the executable C05 models (and the specification functions used as oracle) to OCaml.
    Only ExtrOcamlBasic is used: N/positive/nat stay the extracted inductive types.
    The path is relative to the directory coqc runs in (coq/). *)
From Coq Require Import Extraction ExtrOcamlBasic.
From XV Require Import C05.Spec05 C05.Model05 C05.Model05r C05.Spec05s C05.Model05s.
Extraction Language OCaml.
Extraction "../ocaml/C05/gen_c05.ml"
  scalarb utf8_enc utf16_enc wf8_seq utf8_val ucs4_enc
  probe spec_detect renc_of_enc upper_ascii encoding_for_name name_for_encoding make_transcoder_name make_transcoder_enum
  set_encoding check_swapped family_code renc_code renc_of_code
  x8_from x8_to x8_can u4_from u4_to u16_from u16_to tab_from xlat_to tab_can tab_to ascii_from l1_from id_can
  win1252_from win1252_to win1252_tosz ibm037_from ibm037_to ibm037_tosz
  ibm1047_from ibm1047_to ibm1047_tosz ibm1140_from ibm1140_to ibm1140_tosz.
