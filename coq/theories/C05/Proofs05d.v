(** C05 proofs, part d: XMLUTF8Transcoder::transcodeTo (model [x8_to]) on well-formed UTF-16. *)
From XV Require Import C05.Spec05 C05.Model05 C05.Proofs05a C05.Proofs05b C05.Proofs05c.
From Coq Require Import ZArith ZifyBool ZifyN ZifyNat Lia.
Ltac Zify.zify_post_hook ::= Z.div_mod_to_equations.
Local Open Scope N_scope.

Definition cont (v : N) : N := N.land (N.lor v 0x80) 0xBF.

Lemma cont_spec : forall v, cont v mod 256 = 0x80 + v mod 64.
Proof.
  intros v. unfold cont. rewrite N.land_lor_distr_l. change (N.land 0x80 0xBF) with 0x80.
  assert (E : N.land v 0xBF = N.land (v mod 256) 0xBF).
  { change 0xBF with (N.land (N.ones 8) 0xBF) at 1. rewrite N.land_assoc, N.land_ones. reflexivity. }
  rewrite E.
  assert (Hb : v mod 256 < 256) by (apply N.mod_lt; discriminate).
  assert (S := sweep256 (fun b => (N.lor (N.land b 0xBF) 0x80) mod 256 =? 0x80 + b mod 64)).
  rewrite (proj1 (N.eqb_eq _ _) (S ltac:(vm_compute; reflexivity) _ Hb)). lia.
Qed.

Definition nbytes (c : N) : nat :=
  if c <? 0x80 then 1%nat else if c <? 0x800 then 2%nat else if c <? 0x10000 then 3%nat else 4%nat.

Lemma lor_sweep : forall x, x < 256 ->
  ((if x <? 32 then N.lor x 0xC0 mod 256 =? 0xC0 + x else true) &&
   (if x <? 16 then N.lor x 0xE0 mod 256 =? 0xE0 + x else true) &&
   (if x <? 8 then N.lor x 0xF0 mod 256 =? 0xF0 + x else true))%bool = true.
Proof. apply sweep256. vm_compute. reflexivity. Qed.

Lemma lor_C0 : forall x, x < 32 -> N.lor x 0xC0 mod 256 = 0xC0 + x.
Proof. intros x H. pose proof (lor_sweep x ltac:(lia)) as S. destruct (N.ltb_spec x 32); [|lia]. lia. Qed.
Lemma lor_E0 : forall x, x < 16 -> N.lor x 0xE0 mod 256 = 0xE0 + x.
Proof. intros x H. pose proof (lor_sweep x ltac:(lia)) as S. destruct (N.ltb_spec x 16); [|lia]. lia. Qed.
Lemma lor_F0 : forall x, x < 8 -> N.lor x 0xF0 mod 256 = 0xF0 + x.
Proof. intros x H. pose proof (lor_sweep x ltac:(lia)) as S. destruct (N.ltb_spec x 8); [|lia]. lia. Qed.

Lemma enc_bytes_spec : forall c, c < 0x110000 ->
  enc_bytes c (nbytes c) = utf8_enc c.
Proof.
  intros c Hc. destruct gFirstByteMark_vals as (M1 & M2 & M3 & M4). unfold utf8_enc, nbytes.
  destruct (N.ltb_spec c 0x80).
  { cbn [enc_bytes]. rewrite M1, N.lor_0_r. f_equal. apply N.mod_small. lia. }
  destruct (N.ltb_spec c 0x800).
  { cbn [enc_bytes]. fold (cont c). rewrite M2, cont_spec, shiftr_div.
    rewrite lor_C0 by (change (2^6) with 64; lia). reflexivity. }
  destruct (N.ltb_spec c 0x10000).
  { cbn [enc_bytes]. fold (cont c) (cont (N.shiftr c 6)). rewrite M3, !cont_spec, !shiftr_div.
    rewrite lor_E0 by (change (2^12) with 4096; lia). reflexivity. }
  { cbn [enc_bytes]. fold (cont c) (cont (N.shiftr c 6)) (cont (N.shiftr c 12)). rewrite M4, !cont_spec, !shiftr_div.
    rewrite lor_F0 by (change (2^18) with 262144; lia). reflexivity. }
Qed.

Lemma x8_to_step_complete : forall c rest room throw, scalar c -> (length (utf8_enc c) <= room)%nat ->
  x8_to_step (utf16_enc c ++ rest) room throw = TOut (utf8_enc c) (length (utf16_enc c)).
Proof.
  intros c rest room throw Hc Hroom. apply scalar_bounds in Hc.
  assert (Hlen : length (utf8_enc c) = nbytes c).
  { unfold utf8_enc, nbytes. destruct (c <? 0x80); [reflexivity|]. destruct (c <? 0x800); [reflexivity|].
    destruct (c <? 0x10000); reflexivity. }
  unfold utf16_enc. destruct (N.ltb_spec c 0x10000) as [Hs|Hb].
  - cbn [app length]. unfold x8_to_step. cbv zeta.
    assert (Ep : ((0xD800 <=? c) && (c <=? 0xDBFF)) = false) by lia. rewrite Ep.
    assert (Eq : ((0xDC00 <=? c) && (c <=? 0xDFFF)) = false) by lia. rewrite Eq.
    rewrite <- (enc_bytes_spec c) by lia. rewrite Hlen in Hroom. unfold nbytes in *.
    destruct (N.ltb_spec c 0x80). { destruct (Nat.ltb_spec room 1); [lia|reflexivity]. }
    destruct (N.ltb_spec c 0x800). { destruct (Nat.ltb_spec room 2); [lia|reflexivity]. }
    destruct (N.ltb_spec c 0x10000); [|lia]. destruct (Nat.ltb_spec room 3); [lia|reflexivity].
  - cbn [app length]. unfold x8_to_step. cbv zeta.
    remember (0xD800 + (c - 0x10000) / 1024) as u eqn:Eu. remember (0xDC00 + (c - 0x10000) mod 1024) as t eqn:Et.
    assert (Ep : ((0xD800 <=? u) && (u <=? 0xDBFF)) = true) by lia. rewrite Ep.
    assert (Et2 : ((t <? 0xDC00) || (0xDFFF <? t)) = false) by lia. rewrite Et2.
    assert (Ev : ((u - 0xD800) * 1024 + (t + w32 - 0xDC00) + 0x10000) mod w32 = c) by (unfold w32; lia).
    rewrite Ev. rewrite <- (enc_bytes_spec c) by lia. rewrite Hlen in Hroom. unfold nbytes in *.
    destruct (N.ltb_spec c 0x80); [lia|]. destruct (N.ltb_spec c 0x800); [lia|].
    destruct (N.ltb_spec c 0x10000); [lia|]. destruct (N.ltb_spec c 0x110000); [|lia].
    destruct (Nat.ltb_spec room 4); [lia|reflexivity].
Qed.

Lemma x8_to_loop_complete : forall cps fuel room throw, Forall scalar cps ->
  (length (flat_map utf16_enc cps) < fuel)%nat -> (length (flat_map utf8_enc cps) <= room)%nat ->
  x8_to_loop fuel (flat_map utf16_enc cps) room throw = Ok (flat_map utf8_enc cps, length (flat_map utf16_enc cps)).
Proof.
  induction cps as [|c cps IH]; intros fuel room throw Hs Hf Hr.
  - destruct fuel as [|f]; [cbn in Hf; lia|]. reflexivity.
  - inversion Hs as [|? ? Hc Hcps]; subst. cbn [flat_map] in *. rewrite app_length in *.
    destruct fuel as [|f]; [lia|]. cbn [x8_to_loop].
    rewrite x8_to_step_complete; [|assumption|lia].
    rewrite skipn_app_len. pose proof (utf16_enc_len c) as Hl.
    rewrite IH; [reflexivity|assumption|lia|lia].
Qed.

(** encoding a well-formed UTF-16 string with enough room yields exactly the UTF-8 encoding of its
    code points and consumes all of it *)
Theorem x8_to_complete : forall cps maxBytes throw, Forall scalar cps -> cps <> [] ->
  (length (flat_map utf8_enc cps) <= maxBytes)%nat ->
  x8_to (flat_map utf16_enc cps) maxBytes throw = Ok (flat_map utf8_enc cps, length (flat_map utf16_enc cps)).
Proof.
  intros cps maxBytes throw Hs Hne Hr. unfold x8_to.
  destruct cps as [|c cps]; [congruence|].
  pose proof (utf16_enc_len c) as Hl. pose proof (utf8_enc_len c) as Hl8.
  destruct (flat_map utf16_enc (c :: cps)) as [|x w] eqn:E.
  { cbn [flat_map] in E. apply (f_equal (@length N)) in E. rewrite app_length in E. cbn [length] in E. lia. }
  destruct maxBytes as [|m]. { cbn [flat_map] in Hr. rewrite app_length in Hr. lia. }
  rewrite <- E. apply x8_to_loop_complete; [assumption|lia|assumption].
Qed.

(** round trip: decode (encode w) = w for every well-formed UTF-16 string *)
Theorem utf8_roundtrip : forall cps maxBytes maxChars throw, Forall scalar cps -> cps <> [] ->
  (length (flat_map utf8_enc cps) <= maxBytes)%nat -> (length (flat_map utf16_enc cps) <= maxChars)%nat ->
  exists bs n sizes, x8_to (flat_map utf16_enc cps) maxBytes throw = Ok (bs, n) /\
                     x8_from bs maxChars = Ok (flat_map utf16_enc cps, sizes, length bs).
Proof.
  intros cps maxBytes maxChars throw Hs Hne Hb Hc.
  destruct (x8_from_complete cps maxChars Hs Hc) as [sizes E].
  exists (flat_map utf8_enc cps), (length (flat_map utf16_enc cps)), sizes. split.
  - apply x8_to_complete; assumption.
  - exact E.
Qed.

(** canTranscodeTo: exactly the code points up to 0x10FFFF *)
Theorem x8_can_spec : forall c, x8_can c = true <-> c <= 0x10FFFF.
Proof. intros c. unfold x8_can. lia. Qed.
