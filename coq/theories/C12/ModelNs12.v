(** Executable model of DOMNormalizer::InScopeNamespaces (src/xercesc/dom/impl/DOMNormalizer.cpp): the scope
    table used by namespace fix-up in DOMDocument::normalizeDocument().  No proofs here.
    Prefixes and namespace URIs are pooled strings; the model identifies each with a number.
    A Scope object either has its own two hash tables (fPrefixHash: prefix -> uri, fUriHash: uri -> prefix), which
    start as a copy of those of fBaseScopeWithBindings, or has none and defers to fBaseScopeWithBindings. *)
From XV Require Export Base.XDefs.
Local Open Scope N_scope.

Definition table := list (N * N).

Fixpoint aget (k : N) (l : table) : option N :=
  match l with [] => None | (k', v) :: r => if k' =? k then Some v else aget k r end.
Fixpoint aremove (k : N) (l : table) : table :=
  match l with [] => [] | (k', v) :: r => if k' =? k then aremove k r else (k', v) :: aremove k r end.
Definition aput (k v : N) (l : table) : table := (k, v) :: aremove k l.

Record tabs : Type := { t_pre : table;   (* fPrefixHash *)
                        t_uri : table }. (* fUriHash *)
Definition no_tabs : tabs := {| t_pre := []; t_uri := [] |}.

(** Scope::addOrChangeBinding on initialised tables, as found: the uri -> prefix entry of the prefix's old URI is
    removed unconditionally; RefHashTableOf::removeKey throws NoSuchElementException when the key is absent: [None] *)
Definition bind_tabs_old (t : tabs) (p u : N) : option tabs :=
  match aget p (t_pre t) with
  | Some old =>
    match aget old (t_uri t) with
    | None => None
    | Some _ => Some {| t_pre := aput p u (t_pre t); t_uri := aput u p (aremove old (t_uri t)) |}
    end
  | None => Some {| t_pre := aput p u (t_pre t); t_uri := aput u p (t_uri t) |}
  end.

(** repaired (fixes/C12-normalizer-scope.patch): the entry is removed only if it names this very prefix *)
Definition bind_tabs (t : tabs) (p u : N) : option tabs :=
  let uri0 :=
    match aget p (t_pre t) with
    | Some old => match aget old (t_uri t) with
                  | Some p' => if p' =? p then aremove old (t_uri t) else t_uri t
                  | None => t_uri t
                  end
    | None => t_uri t
    end in
  Some {| t_pre := aput p u (t_pre t); t_uri := aput u p uri0 |}.

(** the stack of scopes, innermost first; [None] = a scope that has not had to create its tables *)
Definition nsstate := list (option tabs).

(** fBaseScopeWithBindings of a new scope = lastScopeWithBindings = the nearest scope below that has tables *)
Fixpoint visible (st : nsstate) : tabs :=
  match st with [] => no_tabs | Some t :: _ => t | None :: r => visible r end.

Inductive nsop : Type := Push | Pop | Bind (p u : N).

Definition ns_step (st : nsstate) (o : nsop) : option nsstate :=
  match o with
  | Push => Some (None :: st)                          (* addScope *)
  | Pop => Some (tl st)                                (* removeScope *)
  | Bind p u =>                                        (* InScopeNamespaces::addOrChangeBinding *)
    let st1 := match st with [] => [None] | _ => st end in
    match st1 with
    | top :: rest =>
      let t := match top with Some t => t | None => visible rest end in   (* "initialize and copy forward" *)
      match bind_tabs t p u with Some t' => Some (Some t' :: rest) | None => None end
    | [] => None
    end
  end.

Definition ns_step_old (st : nsstate) (o : nsop) : option nsstate :=
  match o with
  | Bind p u =>
    let st1 := match st with [] => [None] | _ => st end in
    match st1 with
    | top :: rest =>
      let t := match top with Some t => t | None => visible rest end in
      match bind_tabs_old t p u with Some t' => Some (Some t' :: rest) | None => None end
    | [] => None
    end
  | _ => ns_step st o
  end.

Fixpoint ns_run_old (ops : list nsop) (st : nsstate) : option nsstate :=
  match ops with
  | [] => Some st
  | o :: r => match ns_step_old st o with Some st' => ns_run_old r st' | None => None end
  end.

Fixpoint ns_run (ops : list nsop) (st : nsstate) : option nsstate :=
  match ops with
  | [] => Some st
  | o :: r => match ns_step st o with Some st' => ns_run r st' | None => None end
  end.

(** Scope::getUri / getPrefix as written: the scope's own tables if it has any, else the base scope *)
Definition get_uri (st : nsstate) (p : N) : option N := aget p (t_pre (visible st)).
Definition get_prefix (st : nsstate) (u : N) : option N := aget u (t_uri (visible st)).
Definition is_valid_binding (st : nsstate) (p u : N) : bool :=
  match get_uri st p with Some a => a =? u | None => false end.

(** the variant "if nothing is found here, ask the base scope": the base scope's tables still hold what the inner
    scope pruned when it rebound a prefix *)
Fixpoint get_prefix_fallback (st : nsstate) (u : N) : option N :=
  match st with
  | [] => None
  | None :: r => get_prefix_fallback r u
  | Some t :: r => match aget u (t_uri t) with Some p => Some p | None => get_prefix_fallback r u end
  end.
