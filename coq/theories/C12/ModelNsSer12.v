(** Executable model of the namespace fix-up that DOMLSSerializerImpl::processNode(ELEMENT_NODE) does while it
    writes a start tag (src/xercesc/dom/impl/DOMLSSerializerImpl.cpp, with the committed repair 686075e).  No proofs.
    Prefixes and namespace URIs are identified with numbers; prefix 0 is the empty prefix, URI 0 is "no namespace"
    (null or empty).  fNamespaceStack is a stack of prefix -> uri maps, innermost first. *)
From XV Require Export Base.XDefs C12.ModelNs12.
Local Open Scope N_scope.

(** an attribute of the element: a namespace declaration xmlns:dp="val" (dp = 0: xmlns="val"), or an ordinary one *)
Inductive nsattr : Type :=
| ADecl (dp val : N)
| AOrd (prefix uri local : N).

Inductive nselem : Type := NsE (prefix uri local : N) (attrs : list nsattr) (kids : list nselem).

Definition nsstack := list table.

(** the loop of isNamespaceBindingActive / isDefaultNamespacePrefixDeclared: the innermost map that has the prefix *)
Fixpoint ns_lookup (st : nsstack) (p : N) : option N :=
  match st with
  | [] => None
  | m :: r => match aget p m with Some u => Some u | None => ns_lookup r p end
  end.
Definition ns_active (st : nsstack) (p u : N) : bool :=
  match ns_lookup st p with Some u' => u' =? u | None => false end.
Definition default_declared (st : nsstack) : bool :=
  match ns_lookup st 0 with Some _ => true | None => false end.

(** state while one start tag is written: the element's own map (namespaceMap) and the declarations written *)
Record fixst : Type := { f_map : table; f_emitted : list (N * N) }.

(** the element's own name, or a prefixed attribute in a namespace: declare the prefix unless the binding is active.
    (For the element: only if it is in a namespace, or unprefixed while some default namespace is declared.) *)
Definition need_binding (outer : nsstack) (s : fixst) (p u : N) : fixst :=
  if (u =? 0) && negb (default_declared (f_map s :: outer)) then s
  else if ns_active (f_map s :: outer) p u then s
  else {| f_map := aput p u (f_map s); f_emitted := f_emitted s ++ [(p, u)] |}.

(** an xmlns attribute of the tree: skipped if the element's map already has the prefix, else recorded and written *)
Definition explicit_decl (s : fixst) (dp val : N) : fixst :=
  match aget dp (f_map s) with
  | Some _ => s
  | None => {| f_map := aput dp val (f_map s); f_emitted := f_emitted s ++ [(dp, val)] |}
  end.

Definition fix_attr (outer : nsstack) (s : fixst) (a : nsattr) : fixst :=
  match a with
  | ADecl dp val => explicit_decl s dp val
  | AOrd p u _ => if (u =? 0) || (p =? 0) then s else need_binding outer s p u
  end.

Definition fix_start_tag (outer : nsstack) (p u : N) (attrs : list nsattr) : fixst :=
  fold_left (fix_attr outer) attrs (need_binding outer {| f_map := []; f_emitted := [] |} p u).

(** what a namespace-aware parser makes of a written start tag: the declarations written on the element shadow
    the outer ones; a prefix resolves to its binding, the empty prefix of an element to the default namespace,
    an unprefixed attribute to no namespace *)
Definition resolve (scope : nsstack) (p : N) : N := match ns_lookup scope p with Some u => u | None => 0 end.
Definition written_scope (outer : nsstack) (emitted : list (N * N)) : nsstack := rev emitted :: outer.

Fixpoint distinct_keys (l : list (N * N)) : bool :=
  match l with [] => true | (k, _) :: r => (match aget k r with Some _ => false | None => true end) && distinct_keys r end.

Definition attr_resolves (scope : nsstack) (a : nsattr) : bool :=
  match a with
  | ADecl _ _ => true
  | AOrd p u _ => if p =? 0 then u =? 0 else resolve scope p =? u
  end.

(** the whole tree is written ([sst]: the serializer's stack of maps; [pst]: the declarations a parser has seen on
    the ancestors); every start tag is well-formed (no prefix declared twice) and every element and attribute
    resolves to its namespace *)
Fixpoint tree_resolves (sst pst : nsstack) (e : nselem) : bool :=
  match e with
  | NsE p u _ attrs kids =>
    let s := fix_start_tag sst p u attrs in
    let scope := written_scope pst (f_emitted s) in
    distinct_keys (rev (f_emitted s)) && (resolve scope p =? u) && forallb (attr_resolves scope) attrs &&
    (fix go (l : list nselem) : bool :=
       match l with [] => true | k :: r => tree_resolves (f_map s :: sst) scope k && go r end) kids
  end.

(** the two gaps of the fix-up (known findings): F52 an attribute in a namespace without prefix; F51 one prefix
    needed for two namespaces on the same element *)
Definition attr_req (a : nsattr) : list (N * N) :=
  match a with ADecl dp val => [(dp, val)] | AOrd p u _ => if (u =? 0) || (p =? 0) then [] else [(p, u)] end.
Definition elem_reqs (p u : N) (attrs : list nsattr) : list (N * N) := (p, u) :: flat_map attr_req attrs.
Definition consistent (l : list (N * N)) : Prop := forall p u u', In (p, u) l -> In (p, u') l -> u = u'.
(** an ordinary attribute is unprefixed and in no namespace, or prefixed and in a namespace (F52: in a namespace
    without prefix) *)
Definition attr_has_prefix (a : nsattr) : bool :=
  match a with ADecl _ _ => true | AOrd p u _ => Bool.eqb (u =? 0) (p =? 0) end.

Fixpoint fixable (e : nselem) : Prop :=
  match e with
  | NsE p u _ attrs kids =>
    (u = 0 -> p = 0) /\ consistent (elem_reqs p u attrs) /\ forallb attr_has_prefix attrs = true /\
    (fix go (l : list nselem) : Prop := match l with [] => True | k :: r => fixable k /\ go r end) kids
  end.
