(** C12 lemmas: the serializer's own namespace fix-up makes every element and attribute resolve to its namespace
    (outside the two known gaps F51, F52). *)
From Coq Require Import ZArith ZifyBool ZifyN ZifyNat Lia.
From XV Require Import C12.ModelNs12 C12.Proofs12g C12.ModelNsSer12.
Local Open Scope N_scope.

Lemma aremove_absent : forall k m, aget k m = None -> aremove k m = m.
Proof.
  intros k. induction m as [|[k' v] r IH]; intros H; [reflexivity|]. cbn [aget] in H. cbn [aremove].
  destruct (k' =? k); [discriminate|]. rewrite (IH H). reflexivity.
Qed.

Lemma aget_in : forall k v m, aget k m = Some v -> In (k, v) m.
Proof.
  intros k v. induction m as [|[k' v'] r IH]; intros H; [discriminate|]. cbn [aget] in H.
  destruct (N.eqb_spec k' k) as [E|_]; [injection H as H; subst; left; reflexivity|right; apply IH; exact H].
Qed.

Section StartTag.
Variable sst : nsstack.
Variable C : list (N * N).                     (* everything the element requires or declares *)
Hypothesis HC : consistent C.

Definition sat (s : fixst) (r : N * N) : Prop := resolve (f_map s :: sst) (fst r) = snd r.

Record Inv (s : fixst) (done : list (N * N)) : Prop := {
  i_map : f_map s = rev (f_emitted s);
  i_from : forall k v, In (k, v) (f_map s) -> In (k, v) C;
  i_done : forall r, In r done -> In r C;
  i_sat : forall r, In r done -> sat s r;
  i_dist : distinct_keys (rev (f_emitted s)) = true }.

Lemma resolve_put_same : forall m p u, resolve (aput p u m :: sst) p = u.
Proof. intros. unfold resolve. cbn [ns_lookup]. rewrite aget_aput_eq. reflexivity. Qed.

Lemma resolve_put_other : forall m p u q, q <> p -> resolve (aput p u m :: sst) q = resolve (m :: sst) q.
Proof. intros m p u q H. unfold resolve. cbn [ns_lookup]. rewrite aget_aput_neq by exact H. reflexivity. Qed.

Lemma put_inv : forall s done p u, Inv s done -> In (p, u) C -> aget p (f_map s) = None ->
  Inv {| f_map := aput p u (f_map s); f_emitted := f_emitted s ++ [(p, u)] |} ((p, u) :: done).
Proof.
  intros s done p u [I1 I2 I3 I4 I5] Hin Habs. split; cbn [f_map f_emitted].
  - unfold aput. rewrite (aremove_absent p _ Habs), rev_app_distr, I1. reflexivity.
  - intros k v H. unfold aput in H. rewrite (aremove_absent p _ Habs) in H.
    destruct H as [E|H]; [injection E as E1 E2; subst; exact Hin|apply I2; exact H].
  - intros r [E|H]; [subst; exact Hin|apply I3; exact H].
  - intros [q w] Hr. unfold sat. cbn [fst snd f_map]. destruct Hr as [E|Hr].
    + injection E as E1 E2. subst. apply resolve_put_same.
    + destruct (N.eq_dec q p) as [E|N].
      * subst q. rewrite resolve_put_same. apply (HC p u w Hin (I3 _ Hr)).
      * rewrite resolve_put_other by exact N. apply (I4 (q, w) Hr).
  - rewrite rev_app_distr. cbn [rev app distinct_keys]. rewrite <- I1, Habs, I1, I5. reflexivity.
Qed.

Lemma keep_inv : forall s done r, Inv s done -> In r C -> sat s r -> Inv s (r :: done).
Proof.
  intros s done r [I1 I2 I3 I4 I5] Hin Hs. split; try assumption.
  - intros r' [E|H]; [subst; exact Hin|apply I3; exact H].
  - intros r' [E|H]; [subst; exact Hs|apply I4; exact H].
Qed.

Lemma need_inv : forall s done p u, Inv s done -> In (p, u) C -> (u = 0 -> p = 0) ->
  Inv (need_binding sst s p u) ((p, u) :: done).
Proof.
  intros s done p u HI Hin Hz. unfold need_binding.
  destruct ((u =? 0) && negb (default_declared (f_map s :: sst))) eqn:E1.
  - apply andb_true_iff in E1. destruct E1 as [Eu Ed]. apply N.eqb_eq in Eu. subst u. rewrite (Hz eq_refl) in *.
    apply keep_inv; [exact HI|exact Hin|]. unfold sat, resolve. cbn [fst snd]. unfold default_declared in Ed.
    destruct (ns_lookup (f_map s :: sst) 0); [discriminate|reflexivity].
  - destruct (ns_active (f_map s :: sst) p u) eqn:E2.
    + apply keep_inv; [exact HI|exact Hin|]. unfold sat, resolve. cbn [fst snd]. unfold ns_active in E2.
      destruct (ns_lookup (f_map s :: sst) p) as [w|]; [apply N.eqb_eq; exact E2|discriminate].
    + apply put_inv; [exact HI|exact Hin|].
      destruct (aget p (f_map s)) as [w|] eqn:Ea; [|reflexivity]. exfalso.
      pose proof (i_from s done HI p w (aget_in p w _ Ea)) as Hw. pose proof (HC p u w Hin Hw) as E. subst w.
      unfold ns_active in E2. cbn [ns_lookup] in E2. rewrite Ea, N.eqb_refl in E2. discriminate.
Qed.

Lemma decl_inv : forall s done dp val, Inv s done -> In (dp, val) C -> Inv (explicit_decl s dp val) ((dp, val) :: done).
Proof.
  intros s done dp val HI Hin. unfold explicit_decl. destruct (aget dp (f_map s)) as [w|] eqn:Ea.
  - apply keep_inv; [exact HI|exact Hin|]. unfold sat, resolve. cbn [fst snd ns_lookup]. rewrite Ea.
    pose proof (i_from s done HI dp w (aget_in dp w _ Ea)) as Hw. apply (HC dp w val Hw Hin).
  - apply put_inv; assumption.
Qed.

Lemma attr_inv : forall s done a, Inv s done -> (forall r, In r (attr_req a) -> In r C) ->
  exists done', Inv (fix_attr sst s a) done' /\ (forall r, In r done \/ In r (attr_req a) -> In r done').
Proof.
  intros s done a HI Hin. destruct a as [dp val|p u l]; cbn [fix_attr attr_req] in *.
  - exists ((dp, val) :: done). split; [apply decl_inv; [exact HI|apply Hin; left; reflexivity]|].
    intros r [H|[H|[]]]; [right; exact H|left; exact H].
  - destruct ((u =? 0) || (p =? 0)) eqn:E.
    + exists done. split; [exact HI|]. intros r [H|[]]. exact H.
    + apply orb_false_iff in E. destruct E as [Eu Ep]. apply N.eqb_neq in Eu.
      exists ((p, u) :: done). split; [apply need_inv; [exact HI|apply Hin; left; reflexivity|intros; contradiction]|].
      intros r [H|[H|[]]]; [right; exact H|left; exact H].
Qed.

Lemma fold_inv : forall attrs s done, Inv s done -> (forall r, In r (flat_map attr_req attrs) -> In r C) ->
  exists done', Inv (fold_left (fix_attr sst) attrs s) done' /\
                (forall r, In r done \/ In r (flat_map attr_req attrs) -> In r done').
Proof.
  induction attrs as [|a r IH]; intros s done HI Hin.
  - exists done. split; [exact HI|]. intros x [H|[]]. exact H.
  - cbn [fold_left flat_map] in *.
    destruct (attr_inv s done a HI) as [d1 [H1 S1]]; [intros x Hx; apply Hin; apply in_or_app; left; exact Hx|].
    destruct (IH (fix_attr sst s a) d1 H1) as [d2 [H2 S2]]; [intros x Hx; apply Hin; apply in_or_app; right; exact Hx|].
    exists d2. split; [exact H2|]. intros x [H|H].
    + apply S2. left. apply S1. left. exact H.
    + apply in_app_or in H. destruct H as [H|H]; [apply S2; left; apply S1; right; exact H|apply S2; right; exact H].
Qed.
End StartTag.

Lemma start_tag_ok : forall sst p u attrs, consistent (elem_reqs p u attrs) -> (u = 0 -> p = 0) ->
  let s := fix_start_tag sst p u attrs in
  f_map s = rev (f_emitted s) /\ distinct_keys (rev (f_emitted s)) = true /\
  forall r, In r (elem_reqs p u attrs) -> resolve (f_map s :: sst) (fst r) = snd r.
Proof.
  intros sst p u attrs HC Hz s.
  assert (H0 : Inv sst (elem_reqs p u attrs) {| f_map := []; f_emitted := [] |} []).
  { split; try reflexivity; intros; contradiction. }
  pose proof (need_inv sst _ HC _ [] p u H0 (or_introl eq_refl) Hz) as H1.
  destruct (fold_inv sst _ HC attrs _ _ H1) as [d [H2 S2]]; [intros r Hr; right; exact Hr|].
  fold (fix_start_tag sst p u attrs) in H2. fold s in H2. destruct H2 as [I1 I2 I3 I4 I5].
  split; [exact I1|]. split; [exact I5|]. intros r Hr. apply (I4 r). apply S2.
  destruct Hr as [E|Hr]; [left; left; exact E|right; exact Hr].
Qed.

Lemma lookup_equiv_cons : forall m sst pst, (forall q, ns_lookup sst q = ns_lookup pst q) ->
  forall q, ns_lookup (m :: sst) q = ns_lookup (m :: pst) q.
Proof. intros m sst pst H q. cbn [ns_lookup]. rewrite H. reflexivity. Qed.

Fixpoint essize (e : nselem) : nat :=
  match e with NsE _ _ _ _ kids => S ((fix go (l : list nselem) : nat := match l with [] => O | k :: r => (essize k + go r)%nat end) kids) end.

Theorem serializer_fixup_resolves : forall n e sst pst, (essize e <= n)%nat ->
  (forall q, ns_lookup sst q = ns_lookup pst q) -> fixable e -> tree_resolves sst pst e = true.
Proof.
  induction n as [|n IH]; intros e sst pst Hn Heq Hf; [destruct e; cbn [essize] in Hn; lia|].
  destruct e as [p u l attrs kids]. cbn [fixable] in Hf. destruct Hf as [Hz [HC [Hap Hk]]].
  cbn [tree_resolves]. destruct (start_tag_ok sst p u attrs HC Hz) as [Em [Hd Hsat]].
  set (s := fix_start_tag sst p u attrs) in *. unfold written_scope.
  assert (Heq' : forall q, ns_lookup (f_map s :: sst) q = ns_lookup (rev (f_emitted s) :: pst) q).
  { rewrite <- Em. apply lookup_equiv_cons. exact Heq. }
  assert (Hres : forall q, resolve (rev (f_emitted s) :: pst) q = resolve (f_map s :: sst) q).
  { intros q. unfold resolve. rewrite Heq'. reflexivity. }
  pose proof (Hsat (p, u) (or_introl eq_refl)) as Hpu. cbn [fst snd] in Hpu.
  rewrite Hd. rewrite Hres. rewrite Hpu. rewrite N.eqb_refl. cbn [andb].
  apply andb_true_iff. split.
  - apply forallb_forall. intros a Ha. destruct a as [dp val|ap au al]; [reflexivity|]. cbn [attr_resolves].
    rewrite forallb_forall in Hap. specialize (Hap _ Ha). cbn [attr_has_prefix] in Hap. apply Bool.eqb_prop in Hap.
    destruct (N.eqb_spec ap 0) as [Ep|Np].
    + rewrite Hap. reflexivity.
    + rewrite Hres. apply N.eqb_eq.
      apply (Hsat (ap, au)). right. apply in_flat_map. exists (AOrd ap au al). split; [exact Ha|].
      cbn [attr_req]. rewrite Hap. destruct (N.eqb_spec ap 0); [contradiction|]. left. reflexivity.
  - cbn [essize] in Hn. clear Hap Hsat HC. revert Hk Hn. generalize kids. clear kids.
    induction kids as [|k r IHr]; intros Hk Hn; [reflexivity|]. destruct Hk as [Hk1 Hk2].
    apply andb_true_iff. split.
    + apply IH; [lia|exact Heq'|exact Hk1].
    + apply IHr; [exact Hk2|lia].
Qed.

(** the two gaps, on the model *)
Lemma f51_refuted :
  tree_resolves [] [] (NsE 1 20 7 [AOrd 1 10 8] []) = false /\
  f_emitted (fix_start_tag [] 1 20 [AOrd 1 10 8]) = [(1, 20); (1, 10)].
Proof. vm_compute. split; reflexivity. Qed.
Lemma f52_refuted : tree_resolves [] [] (NsE 0 0 7 [AOrd 0 10 8] []) = false.
Proof. vm_compute. reflexivity. Qed.
(** F50 as repaired: r{u} > x{} > y{u}, only r declared in the tree *)
Lemma f50_repaired : tree_resolves [] [] (NsE 0 10 1 [ADecl 0 10] [NsE 0 0 2 [] [NsE 0 10 3 [] []]]) = true.
Proof. vm_compute. reflexivity. Qed.
