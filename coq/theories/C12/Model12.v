(** Executable models for property C12, following the C++ line by line.  No proofs here.
    - XMLFormatter::inEscapeList / formatBuf / handleUnEscapedChars / writeCharRef / specialFormat
      (src/xercesc/framework/XMLFormatter.cpp); the escape table rows, reference strings and the switch come
      from the generated file Gen/GenEsc.v
    - DOMLSSerializerImpl::processNode (Element, Text, CDATASection, Comment, PI, Document with XML declaration),
      procCdataSection, procUnrepCharInCdataSection, ensureValidString
      (src/xercesc/dom/impl/DOMLSSerializerImpl.cpp); pretty-print off, no filter, DOM level 1 trees
      (no namespace fix-up)
    Strings are lists of UTF-16 code units ([N]); the transcoders are C05's models.
    Functions named [..._old] are the behaviour before the proposed repairs (fixes/C12-*.patch); the unnamed
    ones model the repaired code. *)
From XV Require Export Base.XDefs Gen.GenEsc.
From XV Require Import C05.Spec05 C05.Model05.
Local Open Scope N_scope.

(* ------------------------------------------------------------------------------------------- *)
(** * XMLFormatter *)

Inductive emode : Type := NoEscapes | StdEscapes | AttrEscapes | CharEscapes.
Inductive unrep : Type := UnRep_Fail | UnRep_CharRef.      (* UnRep_Replace is not modelled *)

(** row of gEscapeChars for a mode (rows are generated in the order of enum EscapeFlags) *)
Definition esc_row (m : emode) : list N :=
  match m with
  | NoEscapes => esc_row_NoEscapes | StdEscapes => esc_row_StdEscapes
  | AttrEscapes => esc_row_AttrEscapes | CharEscapes => esc_row_CharEscapes
  end.

(** the scan of inEscapeList: stops at the first null entry of the row *)
Fixpoint in_zlist (row : list N) (c : N) : bool :=
  match row with
  | [] => false
  | e :: r => if e =? 0 then false else if e =? c then true else in_zlist r c
  end.

(** XMLChar1_1::isControlChar / isWhitespace (table lookups in the C++; checked by the correspondence) *)
Definition is_control11 (c : N) : bool := ((1 <=? c) && (c <=? 0x1F)) || ((0x7F <=? c) && (c <=? 0x9F)).
Definition is_ws11 (c : N) : bool :=
  (c =? 0x20) || (c =? 0x9) || (c =? 0xD) || (c =? 0xA) || (c =? 0x85) || (c =? 0x2028).

(** XMLFormatter::inEscapeList as found (before fixes/C12-xml11-lineends.patch) *)
Definition in_escape_list_old (xml11 : bool) (m : emode) (c : N) : bool :=
  in_zlist (esc_row m) c || (xml11 && is_control11 c && negb (is_ws11 c)).

(** ... and repaired: in XML 1.1 NEL and LSEP are written as character references as well *)
Definition in_escape_list (xml11 : bool) (m : emode) (c : N) : bool :=
  in_zlist (esc_row m) c ||
  (xml11 && ((is_control11 c && negb (is_ws11 c)) || (c =? 0x85) || (c =? 0x2028))).

(** XMLString::binToText(val, buf, n, 16): upper-case hexadecimal without leading zeros *)
Definition hexdigit (d : N) : N := if d <? 10 then 48 + d else 55 + d.
Fixpoint hex_go (fuel : nat) (v : N) (acc : list N) : list N :=
  match fuel with
  | O => acc
  | S f => if v / 16 =? 0 then hexdigit (v mod 16) :: acc else hex_go f (v / 16) (hexdigit (v mod 16) :: acc)
  end.
Definition hex (v : N) : list N := hex_go 16 v [].

(** writeCharRef: "&#x" hex ";" *)
Definition charref (v : N) : list N := [38; 35; 120] ++ hex v ++ [59].

(** the switch of formatBuf: named reference for the five characters, writeCharRef for any other *)
Definition esc_ref (c : N) : list N :=
  match find (fun p => fst p =? c) esc_switch with
  | Some p => snd p
  | None => charref c
  end.

(** what one character becomes under a mode (NoEscapes never consults inEscapeList) *)
Definition esc1_gen (inl : bool -> emode -> N -> bool) (xml11 : bool) (m : emode) (c : N) : list N :=
  match m with
  | NoEscapes => [c]
  | _ => if inl xml11 m c then esc_ref c else [c]
  end.
Definition esc1 := esc1_gen in_escape_list.
Definition esc1_old := esc1_gen in_escape_list_old.

(** formatBuf with UnRep_Fail/UnRep_Replace: the sequence of strings handed to the transcoder
    (handleUnEscapedChars for the runs between escaped characters, the reference strings for the others) *)
Definition flush (run : list N) : list (list N) := match run with [] => [] | _ => [rev run] end.

Fixpoint fb_calls (inl : bool -> emode -> N -> bool) (xml11 : bool) (m : emode) (s run : list N) : list (list N) :=
  match s with
  | [] => flush run
  | c :: r => if inl xml11 m c then flush run ++ [esc_ref c] ++ fb_calls inl xml11 m r []
              else fb_calls inl xml11 m r (c :: run)
  end.

Definition format_fail (inl : bool -> emode -> N -> bool) (xml11 : bool) (m : emode) (s : list N) : list (list N) :=
  match m with
  | NoEscapes => match s with [] => [] | _ => [s] end
  | _ => fb_calls inl xml11 m s []
  end.

(** specialFormat (UnRep_CharRef): runs of representable units go through formatBuf(UnRep_Fail), every other
    unit becomes a character reference; a high surrogate is combined with the unit that follows it
    (the terminating NUL when there is none: all callers pass NUL-terminated strings) *)
Inductive sitem : Type := SRun (l : list N) | SRef (v : N).
Definition is_high (c : N) : bool := N.land c 0xFC00 =? 0xD800.
Definition comb (c d : N) : N := 0x10000 + N.shiftl (c - 0xD800) 10 + d - 0xDC00.
Definition srun (run : list N) : list sitem := match run with [] => [] | _ => [SRun (rev run)] end.

Fixpoint sp_items (can : N -> bool) (s run : list N) : list sitem :=
  match s with
  | [] => srun run
  | c :: r =>
    if can c then sp_items can r (c :: run)
    else if is_high c then
      match r with
      | [] => srun run ++ [SRef (comb c 0)]
      | d :: r' => srun run ++ [SRef (comb c d)] ++ sp_items can r' []
      end
    else srun run ++ [SRef c] ++ sp_items can r []
  end.

Definition special_calls inl (can : N -> bool) (xml11 : bool) (m : emode) (s : list N) : list (list N) :=
  flat_map (fun it => match it with SRun l => format_fail inl xml11 m l | SRef v => [charref v] end)
           (sp_items can s []).

(** formatBuf: every string passed to transcodeTo (UnRep_Throw), in order *)
Definition format_calls_gen inl (can : N -> bool) (xml11 : bool) (m : emode) (u : unrep) (s : list N) : list (list N) :=
  match u with
  | UnRep_CharRef => special_calls inl can xml11 m s
  | UnRep_Fail => format_fail inl xml11 m s
  end.
Definition format_calls := format_calls_gen in_escape_list.
Definition format_calls_old := format_calls_gen in_escape_list_old.

(** the output as a UTF-16 string, before transcoding *)
Definition format16 (can : N -> bool) (xml11 : bool) (m : emode) (u : unrep) (s : list N) : list N :=
  concat (format_calls can xml11 m u s).

(* ------------------------------------------------------------------------------------------- *)
(** * the transcoders behind fXCoder (C05 models) and handleUnEscapedChars *)

Inductive encoding : Type := EUtf8 | ELatin1 | EAscii | EWin1252 | EUtf16.
Inductive ferr : Type := F_Unrepresentable | F_Hang | F_Other | F_BadSrcSeq | F_BadTrailingSurrogate.

Definition enc_can (e : encoding) (c : N) : bool :=
  match e with
  | EUtf8 => x8_can c
  | ELatin1 => id_can 256 c
  | EAscii => id_can 128 c
  | EWin1252 => tab_can win1252_to win1252_tosz c
  | EUtf16 => true
  end.

(** XML88591Transcoder / XMLASCIITranscoder::transcodeTo with UnRep_Throw *)
Fixpoint id_to (lim : N) (s : list N) : res (list N) ferr :=
  match s with
  | [] => Ok []
  | c :: r => if c <? lim then match id_to lim r with Ok o => Ok (c :: o) | Err e => Err e end
              else Err F_Unrepresentable
  end.

Definition ferr_of (e : xerr) : ferr :=
  match e with
  | E_Trans_Unrepresentable => F_Unrepresentable | E_Fuel => F_Hang
  | E_Trans_BadSrcSeq => F_BadSrcSeq | E_Trans_BadTrailingSurrogate => F_BadTrailingSurrogate   (* unpaired surrogates (C05 F7) *)
  | _ => F_Other
  end.

(** handleUnEscapedChars over the UTF-8 transcoder: chunks of kTmpBufSize units into a buffer of kTmpBufSize
    bytes until everything is eaten.  As found, a call that eats nothing repeated forever (the fuel runs out =
    F_Hang); repaired (fixes/C12-formatter-no-progress.patch) it raises TranscodingException Trans_BadSrcSeq *)
Fixpoint hue8_old (fuel : nat) (k : nat) (src : list N) : res (list N) ferr :=
  match src with
  | [] => Ok []
  | _ =>
    match fuel with
    | O => Err F_Hang
    | S f =>
      match x8_to (firstn k src) k true with
      | Err e => Err (ferr_of e)
      | Ok (bs, eaten) =>
        match hue8_old f k (skipn eaten src) with Ok o => Ok (bs ++ o) | Err e => Err e end
      end
    end
  end.

Fixpoint hue8 (fuel : nat) (k : nat) (src : list N) : res (list N) ferr :=
  match src with
  | [] => Ok []
  | _ =>
    match fuel with
    | O => Err F_Hang
    | S f =>
      match x8_to (firstn k src) k true with
      | Err e => Err (ferr_of e)
      | Ok (bs, O) => Err F_BadSrcSeq
      | Ok (bs, eaten) =>
        match hue8 f k (skipn eaten src) with Ok o => Ok (bs ++ o) | Err e => Err e end
      end
    end
  end.

(** kTmpBufSize as a [nat], computed once *)
Definition k_tmp : nat := N.to_nat kTmpBufSize.

(** one handleUnEscapedChars call: the per-unit transcoders are insensitive to the chunking *)
Definition enc_tr (e : encoding) (s : list N) : res (list N) ferr :=
  match e with
  | EUtf8 => hue8 (S (length s)) k_tmp s
  | ELatin1 => id_to 256 s
  | EAscii => id_to 128 s
  | EWin1252 => match tab_to win1252_to win1252_tosz s (length s) true with
                | Ok (o, _) => Ok o | Err e => Err (ferr_of e) end
  | EUtf16 => Ok (u16_to false s (length s))
  end.

Fixpoint run_calls (e : encoding) (calls : list (list N)) : res (list N) ferr :=
  match calls with
  | [] => Ok []
  | c :: r => match enc_tr e c with
              | Err x => Err x
              | Ok b => match run_calls e r with Ok o => Ok (b ++ o) | Err x => Err x end
              end
  end.

(** XMLFormatter(enc, version, target, mode, unrep).formatBuf(s): the bytes that reach the target *)
Definition format_bytes (e : encoding) (xml11 : bool) (m : emode) (u : unrep) (s : list N) : res (list N) ferr :=
  run_calls e (format_calls (enc_can e) xml11 m u s).
Definition format_bytes_old (e : encoding) (xml11 : bool) (m : emode) (u : unrep) (s : list N) : res (list N) ferr :=
  run_calls e (format_calls_old (enc_can e) xml11 m u s).

(* ------------------------------------------------------------------------------------------- *)
(** * DOMLSSerializerImpl *)

(** procCdataSection as found: the value is cut at every "]]>" and the three characters are dropped;
    an empty piece (also the one after a trailing "]]>") is written as an empty section *)
Fixpoint cdata_pieces_old (s cur : list N) : list (list N) :=
  match s with
  | [] => [rev cur]
  | a :: r =>
    match r with
    | b :: c :: r' => if (a =? 93) && (b =? 93) && (c =? 62) then rev cur :: cdata_pieces_old r' []
                      else cdata_pieces_old r (a :: cur)
    | _ => cdata_pieces_old r (a :: cur)
    end
  end.

(** repaired (fixes/C12-cdata-split.patch): a section ends after the "]]" and the next one starts with ">" *)
Fixpoint cdata_pieces (s cur : list N) : list (list N) :=
  match s with
  | [] => [rev cur]
  | a :: r =>
    match r with
    | b :: ((c :: _) as r') => if (a =? 93) && (b =? 93) && (c =? 62) then rev (b :: a :: cur) :: cdata_pieces r' []
                               else cdata_pieces r (a :: cur)
    | _ => cdata_pieces r (a :: cur)
    end
  end.

(** procUnrepCharInCdataSection: representable runs are wrapped in their own CDATA section, every other
    unit is written as a character reference between sections.
    As found, each UTF-16 unit got its own reference; repaired (fixes/C12-cdata-chars.patch) a surrogate
    pair is combined, as XMLFormatter::specialFormat does. *)
Inductive citem : Type := CSect (l : list N) | CRef (v : N).
Definition csect (run : list N) : list citem := match run with [] => [] | _ => [CSect (rev run)] end.

Fixpoint cd_items_old (can : N -> bool) (s run : list N) : list citem :=
  match s with
  | [] => csect run
  | c :: r => if can c then cd_items_old can r (c :: run) else csect run ++ [CRef c] ++ cd_items_old can r []
  end.

Fixpoint cd_items (can : N -> bool) (s run : list N) : list citem :=
  match s with
  | [] => csect run
  | c :: r =>
    if can c then cd_items can r (c :: run)
    else if is_high c then
      match r with
      | [] => csect run ++ [CRef c]        (* (srcPtr + 1) < endPtr fails: no pairing *)
      | d :: r' => csect run ++ [CRef (comb c d)] ++ cd_items can r' []
      end
    else csect run ++ [CRef c] ++ cd_items can r []
  end.

(** all items of one CDATASection node under split-cdata-sections=true *)
Definition cdata_items (can : N -> bool) (s : list N) : list citem :=
  match s with
  | [] => [CSect []]
  | _ => flat_map (fun p => cd_items can p []) (cdata_pieces s [])
  end.
Definition cdata_items_old (can : N -> bool) (s : list N) : list citem :=
  flat_map (fun p => match p with [] => [CSect []] | _ => cd_items_old can p [] end)
           (cdata_pieces_old s []).

Definition citem_out (it : citem) : list N :=
  match it with
  | CSect l => ser_gStartCDATA ++ l ++ ser_gEndCDATA
  | CRef v => charref v
  end.

(** ensureValidString: every unit is an XML Char of the document's version, or a high surrogate followed by a
    low surrogate *)
Definition is_low (c : N) : bool := N.land c 0xFC00 =? 0xDC00.
Definition char10_unit (c : N) : bool :=
  (c =? 9) || (c =? 0xA) || (c =? 0xD) || ((0x20 <=? c) && (c <=? 0xD7FF)) || ((0xE000 <=? c) && (c <=? 0xFFFD)).
(** XMLChar1_1::isXMLChar is the table of the characters allowed *literally* in XML 1.1 (Char minus
    RestrictedChar), so ensureValidString refuses the C0/C1 controls although they could be written as references *)
Definition char11_unit (c : N) : bool :=
  (c =? 9) || (c =? 0xA) || (c =? 0xD) || ((0x20 <=? c) && (c <=? 0x7E)) || (c =? 0x85) ||
  ((0xA0 <=? c) && (c <=? 0xD7FF)) || ((0xE000 <=? c) && (c <=? 0xFFFD)).
(** repaired (fixes/C12-xml11-restricted.patch): where the data can be written as character references (Text
    nodes, attribute values: [refs = true]) the RestrictedChars of XML 1.1 are accepted, XMLFormatter writes them
    as references; as found, ensureValidString refused them everywhere *)
Definition char11_data (c : N) : bool := ((1 <=? c) && (c <=? 0xD7FF)) || ((0xE000 <=? c) && (c <=? 0xFFFD)).
Definition char_unit (refs xml11 : bool) (c : N) : bool :=
  if xml11 then (if refs then char11_data c else char11_unit c) else char10_unit c.

Fixpoint valid_string (refs xml11 : bool) (s : list N) : bool :=
  match s with
  | [] => true
  | c :: r =>
    if char_unit refs xml11 c then valid_string refs xml11 r
    else if is_high c then
      match r with
      | d :: r' => is_low d && valid_string refs xml11 r'
      | [] => false
      end
    else false
  end.

(** the two units [a b] occur in [s]; [s] ends with [c] *)
Fixpoint occurs2 (a b : N) (s : list N) : bool :=
  match s with
  | [] => false
  | c :: r => match r with
              | d :: _ => ((c =? a) && (d =? b)) || occurs2 a b r
              | [] => false
              end
  end.
Fixpoint ends_with (c : N) (s : list N) : bool :=
  match s with [] => false | [d] => d =? c | _ :: r => ends_with c r end.

Inductive node : Type :=
| Elem (name : list N) (attrs : list (list N * list N)) (kids : list node)
| Text (s : list N)
| CData (s : list N)
| Comment (s : list N)
| PI (target data : list N).

Inductive serr : Type :=
| S_Unrepresentable      (* TranscodingException inside markup: fatal error, write() returns false *)
| S_InvalidChar          (* ensureValidString: fatal DOMError INVALID_CHARACTER_ERR, DOMLSException *)
| S_NestedCDATA.         (* "]]>" in a CDATA section with split-cdata-sections=false *)

Record scfg : Type := { c_can : N -> bool; c_xml11 : bool; c_split : bool; c_decl : bool; c_enc : list N;
                        c_fixed : bool (* false = behaviour as found, for the _old/_refuted statements *) }.

(** markup written inside TRY_CATCH_THROW (NoEscapes, UnRep_Fail) *)
Definition markup (cf : scfg) (s : list N) : res (list N) serr :=
  if forallb (c_can cf) s then Ok s else Err S_Unrepresentable.

Definition bind {A B E} (x : res A E) (f : A -> res B E) : res B E :=
  match x with Ok a => f a | Err e => Err e end.

Definition inl_of (cf : scfg) := if c_fixed cf then in_escape_list else in_escape_list_old.
Definition data16 (cf : scfg) (m : emode) (s : list N) : list N :=
  concat (format_calls_gen (inl_of cf) (c_can cf) (c_xml11 cf) m UnRep_CharRef s).

Fixpoint ser_attrs (cf : scfg) (l : list (list N * list N)) : res (list N) serr :=
  match l with
  | [] => Ok []
  | (n, v) :: r =>
    (* repaired (fixes/C12-attrname-unrep.patch): the name is markup, written under UnRep_Fail; as found it was
       written under UnRep_CharRef and an unrepresentable name character became a reference inside the name *)
    bind (if c_fixed cf then markup cf (32 :: n) else Ok ([32] ++ data16 cf NoEscapes n)) (fun nm =>
    if negb (valid_string (c_fixed cf) (c_xml11 cf) v) then Err S_InvalidChar else
    bind (ser_attrs cf r) (fun o => Ok (nm ++ [61; 34] ++ data16 cf AttrEscapes v ++ [34] ++ o)))
  end.

Fixpoint ser_node (cf : scfg) (n : node) : res (list N) serr :=
  match n with
  | Text s =>
    if negb (valid_string (c_fixed cf) (c_xml11 cf) s) then Err S_InvalidChar else Ok (data16 cf CharEscapes s)
  | CData s =>
    if c_split cf then
      if c_fixed cf then
        if negb (valid_string false (c_xml11 cf) s) then Err S_InvalidChar
        else Ok (flat_map citem_out (cdata_items (c_can cf) s))
      else Ok (flat_map citem_out (cdata_items_old (c_can cf) s))
    else
      if negb (valid_string false (c_xml11 cf) s) then Err S_InvalidChar else
      if Nat.ltb 1 (length (cdata_pieces_old s [])) then Err S_NestedCDATA else
      markup cf (ser_gStartCDATA ++ s ++ ser_gEndCDATA)
  | Comment s =>
    if negb (valid_string false (c_xml11 cf) s) then Err S_InvalidChar else
    (* repaired (fixes/C12-comment-pi-wf.patch): "--" in a comment, a comment ending in "-", "?>" in PI data are
       fatal errors; as found they were written *)
    if c_fixed cf && (occurs2 45 45 s || ends_with 45 s) then Err S_InvalidChar else
    markup cf (ser_gStartComment ++ s ++ ser_gEndComment)
  | PI t d =>
    if negb (valid_string false (c_xml11 cf) t && valid_string false (c_xml11 cf) d) then Err S_InvalidChar else
    if c_fixed cf && occurs2 63 62 d then Err S_InvalidChar else
    markup cf (ser_gStartPI ++ t ++ (match d with [] => [] | _ => 32 :: d end) ++ ser_gEndPI)
  | Elem name attrs kids =>
    bind (markup cf (60 :: name)) (fun st =>
    bind (ser_attrs cf attrs) (fun at_ =>
    match kids with
    | [] => Ok (st ++ at_ ++ [47; 62])
    | _ =>
      bind ((fix go (l : list node) : res (list N) serr :=
               match l with
               | [] => Ok []
               | k :: r => bind (ser_node cf k) (fun a => bind (go r) (fun b => Ok (a ++ b)))
               end) kids) (fun body =>
      bind (markup cf (ser_gEndElement ++ name ++ [62])) (fun et =>
      Ok (st ++ at_ ++ [62] ++ body ++ et)))
    end))
  end.

Definition ver_string (xml11 : bool) : list N := if xml11 then [49; 46; 49] else [49; 46; 48].

(** Document: XML declaration (version, encoding as given, standalone="no") then the children *)
Definition ser_doc (cf : scfg) (kids : list node) : res (list N) serr :=
  let decl := if c_decl cf then
      ser_gXMLDecl_VersionInfo ++ ver_string (c_xml11 cf) ++ ser_gXMLDecl_separator ++
      ser_gXMLDecl_EncodingDecl ++ c_enc cf ++ ser_gXMLDecl_separator ++
      ser_gXMLDecl_SDDecl ++ [110; 111] ++ ser_gXMLDecl_separator ++ ser_gXMLDecl_endtag
    else [] in
  bind ((fix go (l : list node) : res (list N) serr :=
           match l with
           | [] => Ok []
           | k :: r => bind (ser_node cf k) (fun a => bind (go r) (fun b => Ok (a ++ b)))
           end) kids) (fun body => Ok (decl ++ body)).

(** whole-output transcoding used by the document-level correspondence *)
Definition mk_cfg (e : encoding) (xml11 split decl fixed : bool) (encname : list N) : scfg :=
  {| c_can := enc_can e; c_xml11 := xml11; c_split := split; c_decl := decl; c_enc := encname; c_fixed := fixed |}.

Inductive dres : Type := D_Bytes (b : list N) | D_Err (e : serr) | D_TransErr (e : ferr).
Definition ser_doc_bytes (e : encoding) (xml11 split decl fixed : bool) (encname : list N) (kids : list node) : dres :=
  match ser_doc (mk_cfg e xml11 split decl fixed encname) kids with
  | Err x => D_Err x
  | Ok u => match enc_tr e u with Ok b => D_Bytes b | Err x => D_TransErr x end
  end.
