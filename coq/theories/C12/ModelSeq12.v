(** A serializer / formatter object that is used several times (one DOMLSSerializer writing several documents, one
    XMLFormatter formatting several buffers with different escape modes).  In the model every write is a function of
    its own arguments: there is no state that one call could leave for the next.  No proofs here. *)
From XV Require Export C12.Model12.
Local Open Scope N_scope.

Definition write1 (job : scfg * list node) : res (list N) serr := ser_doc (fst job) (snd job).
Definition write_seq (jobs : list (scfg * list node)) : list (res (list N) serr) := map write1 jobs.

Definition format1 (e : encoding) (xml11 : bool) (u : unrep) (job : emode * list N) : res (list N) ferr :=
  format_bytes e xml11 (fst job) u (snd job).
Definition format_seq (e : encoding) (xml11 : bool) (u : unrep) (jobs : list (emode * list N)) : list (res (list N) ferr) :=
  map (format1 e xml11 u) jobs.
