(** C12 tree-level lemmas, part g: content the model refuses is refused wherever it occurs in the tree. *)
From Coq Require Import ZArith ZifyBool ZifyN ZifyNat Lia.
From XV Require Import C05.Spec05 C05.Model05 C12.Spec12 C12.Model12 C12.SpecTree12 C12.ProofsTree12e C12.ProofsTree12f.
Local Open Scope N_scope.

(** a place where the tree cannot be written as well-formed XML in the configuration, as far as the model checks *)
Inductive unwritable (cf : scfg) : node -> Prop :=
| UW_text : forall s, valid_string true (c_xml11 cf) s = false -> unwritable cf (Text s)
| UW_cdata_chars : forall s, valid_string false (c_xml11 cf) s = false -> unwritable cf (CData s)
| UW_cdata_nested : forall s, c_split cf = false -> (1 < length (cdata_pieces_old s []))%nat -> unwritable cf (CData s)
| UW_cdata_unrep : forall s, c_split cf = false -> forallb (c_can cf) s = false -> unwritable cf (CData s)
| UW_comment_chars : forall s, valid_string false (c_xml11 cf) s = false -> unwritable cf (Comment s)
| UW_comment_unrep : forall s, forallb (c_can cf) s = false -> unwritable cf (Comment s)
| UW_comment_dashes : forall s, occurs2 45 45 s || ends_with 45 s = true -> unwritable cf (Comment s)
| UW_pi_end : forall t d, occurs2 63 62 d = true -> unwritable cf (PI t d)
| UW_pi_chars : forall t d, valid_string false (c_xml11 cf) t && valid_string false (c_xml11 cf) d = false ->
                unwritable cf (PI t d)
| UW_pi_unrep : forall t d, forallb (c_can cf) t && forallb (c_can cf) d = false -> unwritable cf (PI t d)
| UW_name : forall n a k, forallb (c_can cf) n = false -> unwritable cf (Elem n a k)
| UW_attr_name : forall n a k an av, In (an, av) a -> forallb (c_can cf) an = false -> unwritable cf (Elem n a k)
| UW_attr_value : forall n a k an av, In (an, av) a -> valid_string true (c_xml11 cf) av = false ->
                  unwritable cf (Elem n a k)
| UW_kid : forall n a kids k, In k kids -> unwritable cf k -> unwritable cf (Elem n a kids).

Definition is_err {A E} (r : res A E) : Prop := exists e, r = Err e.

Lemma markup_unrep : forall cf a s b, forallb (c_can cf) s = false -> is_err (markup cf (a ++ s ++ b)).
Proof.
  intros cf a s b H. unfold markup. rewrite !forallb_app, H, andb_false_r. eexists. reflexivity.
Qed.

Lemma bind_err : forall {A B E} (x : res A E) (f : A -> res B E), is_err x -> is_err (bind x f).
Proof. intros A B E x f [e H]. subst. eexists. reflexivity. Qed.

Lemma bind_err2 : forall {A B E} (x : res A E) (f : A -> res B E), (forall a, is_err (f a)) -> is_err (bind x f).
Proof. intros A B E x f H. destruct x as [a|e]; [apply H|eexists; reflexivity]. Qed.

Lemma ser_attrs_err : forall cf a an av, c_fixed cf = true -> In (an, av) a ->
  forallb (c_can cf) an = false \/ valid_string true (c_xml11 cf) av = false -> is_err (ser_attrs cf a).
Proof.
  intros cf a an av Hf. induction a as [|[n v] r IH]; intros Hin Hbad; [destruct Hin|].
  cbn [ser_attrs]. rewrite Hf. destruct Hin as [E|Hin].
  - injection E as E1 E2. subst n v. destruct Hbad as [Hb|Hb].
    + apply bind_err. unfold markup. cbn [forallb]. rewrite Hb, andb_false_r. eexists. reflexivity.
    + apply bind_err2. intros nm. rewrite Hb. eexists. reflexivity.
  - apply bind_err2. intros nm. destruct (negb (valid_string true (c_xml11 cf) v)); [eexists; reflexivity|].
    apply bind_err. apply IH; assumption.
Qed.

Lemma ser_kids_err : forall cf kids k, In k kids -> is_err (ser_node cf k) -> is_err (ser_kids cf kids).
Proof.
  intros cf. induction kids as [|x r IH]; intros k Hin He; [destruct Hin|].
  rewrite ser_kids_cons. destruct Hin as [E|Hin].
  - subst x. apply bind_err. exact He.
  - apply bind_err2. intros a. apply bind_err. apply (IH k); assumption.
Qed.

Theorem unwritable_refused : forall cf n, c_fixed cf = true -> unwritable cf n -> is_err (ser_node cf n).
Proof.
  intros cf n Hf H. induction H as [s H|s H|s Hs H|s Hs H|s H|s H|s H|t d H|t d H|t d H|n a k H|n a k an av Hin H|n a k an av Hin H|n a kids k Hin H IH].
  - cbn [ser_node]. rewrite Hf, H. eexists. reflexivity.
  - cbn [ser_node]. rewrite Hf, H. destruct (c_split cf); eexists; reflexivity.
  - cbn [ser_node]. rewrite Hs. destruct (negb (valid_string false (c_xml11 cf) s)); [eexists; reflexivity|].
    apply Nat.ltb_lt in H. rewrite H. eexists. reflexivity.
  - cbn [ser_node]. rewrite Hs. destruct (negb (valid_string false (c_xml11 cf) s)); [eexists; reflexivity|].
    destruct (Nat.ltb 1 (length (cdata_pieces_old s []))); [eexists; reflexivity|]. apply markup_unrep. exact H.
  - cbn [ser_node]. rewrite H. eexists. reflexivity.
  - cbn [ser_node]. destruct (negb (valid_string false (c_xml11 cf) s)); [eexists; reflexivity|].
    destruct (c_fixed cf && (occurs2 45 45 s || ends_with 45 s)); [eexists; reflexivity|]. apply markup_unrep. exact H.
  - cbn [ser_node]. destruct (negb (valid_string false (c_xml11 cf) s)); [eexists; reflexivity|].
    rewrite Hf, H. eexists. reflexivity.
  - cbn [ser_node]. destruct (negb _); [eexists; reflexivity|]. rewrite Hf, H. eexists. reflexivity.
  - cbn [ser_node]. rewrite H. eexists. reflexivity.
  - cbn [ser_node]. destruct (negb _); [eexists; reflexivity|]. destruct (c_fixed cf && occurs2 63 62 d); [eexists; reflexivity|].
    unfold markup. rewrite !forallb_app.
    apply andb_false_iff in H. destruct H as [H|H].
    + rewrite H, andb_false_r. eexists. reflexivity.
    + destruct d as [|c d']; [discriminate|]. cbn [forallb] in *. rewrite H. rewrite !andb_false_r. eexists. reflexivity.
  - rewrite ser_node_elem. apply bind_err. unfold markup. cbn [forallb]. rewrite H, andb_false_r. eexists. reflexivity.
  - rewrite ser_node_elem. apply bind_err2. intros st. apply bind_err. apply (ser_attrs_err cf a an av Hf Hin). left. exact H.
  - rewrite ser_node_elem. apply bind_err2. intros st. apply bind_err. apply (ser_attrs_err cf a an av Hf Hin). right. exact H.
  - rewrite ser_node_elem. apply bind_err2. intros st. apply bind_err2. intros at_.
    destruct kids as [|k1 ks]; [destruct Hin|]. apply bind_err. apply (ser_kids_err cf (k1 :: ks) k Hin IH).
Qed.

Theorem unwritable_doc_refused : forall cf kids k, c_fixed cf = true -> In k kids -> unwritable cf k ->
  is_err (ser_doc cf kids).
Proof.
  intros cf kids k Hf Hin H. rewrite ser_doc_eq. apply bind_err. apply (ser_kids_err cf kids k Hin).
  apply unwritable_refused; assumption.
Qed.
