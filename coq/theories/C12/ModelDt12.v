(** C12, DocumentType nodes and the choice of the output encoding.  No proofs here.
    - DOMLSSerializerImpl::processNode(DOCUMENT_TYPE_NODE): <!DOCTYPE name [PUBLIC ''pub'' ''sys'' | SYSTEM ''sys'']
      [ [subset] ] > written with NoEscapes inside TRY_CATCH_THROW.  [fixed = false] is the code as found: both
      literals are always delimited by double quotes and nothing is checked; [fixed = true] is the repair proposed in
      fixes/C12-doctype-literals.patch: the system literal is delimited by the kind of quote it does not contain, an
      identifier that cannot be written as a literal (system id with both kinds of quote or with a character that is
      no XML Char, public id with a character that is no PubidChar) is a fatal error.
    - DOMLSSerializerImpl::write / writeToString: which encoding and which XML version are used. *)
From XV Require Export Base.XDefs Gen.GenEsc.
From XV Require Import C12.Spec12 C12.Model12.
Local Open Scope N_scope.

Record doctype : Type := mk_dt { dt_name : list N; dt_pub : list N; dt_sys : list N; dt_sub : list N }.

Definition has (c : N) (s : list N) : bool := existsb (fun d => d =? c) s.

(** XMLChar1_0::isPublicIdChar (a table lookup in the C++; checked by the correspondence):
    #x20 | #xD | #xA | [a-zA-Z0-9] | [-'()+,./:=?;!*#@$_%] *)
Definition pubid_char (c : N) : bool :=
  (c =? 0x20) || (c =? 0xD) || (c =? 0xA) || ((97 <=? c) && (c <=? 122)) || ((65 <=? c) && (c <=? 90)) ||
  ((48 <=? c) && (c <=? 57)) || has c [45; 39; 40; 41; 43; 44; 46; 47; 58; 61; 63; 59; 33; 42; 35; 64; 36; 95; 37].

(** XMLUni::fgSysIDString *)
Definition sysid_kw : list N := [83; 89; 83; 84; 69; 77].

Definition sys_quote (fixed : bool) (sys : list N) : N := if fixed && has 34 sys then 39 else 34.

Definition ser_doctype (cf : scfg) (fixed : bool) (d : doctype) : res (list N) serr :=
  let q := sys_quote fixed (dt_sys d) in
  if fixed && negb (valid_string false (c_xml11 cf) (dt_sys d)) then Err S_InvalidChar else
  if fixed && negb (forallb pubid_char (dt_pub d)) then Err S_InvalidChar else
  if fixed && has 34 (dt_sys d) && has 39 (dt_sys d) then Err S_InvalidChar else
  bind (markup cf (ser_gStartDoctype ++ dt_name d)) (fun a =>
  bind (match dt_pub d, dt_sys d with
        | _ :: _, _ :: _ => markup cf ([32] ++ ser_gPublic ++ dt_pub d ++ [34] ++ [32; q] ++ dt_sys d ++ [q])
        | _ :: _, [] =>      (* Writer_NotRecognizedType: a public identifier needs a system literal *)
          bind (markup cf ([32] ++ ser_gPublic ++ dt_pub d ++ [34])) (fun _ => Err S_InvalidChar)
        | [], _ :: _ =>
          markup cf ([32] ++ (if fixed then sysid_kw ++ [32; q] else ser_gSystem) ++ dt_sys d ++ [q])
        | [], [] => Ok []
        end) (fun e =>
  bind (markup cf ((match dt_sub d with [] => [] | _ => [32; 91] ++ dt_sub d ++ [93] end) ++ [62])) (fun s =>
  Ok (a ++ e ++ s)))).

(** Document whose first child is a DocumentType: XML declaration, doctype, the other children *)
Definition nodecl (cf : scfg) : scfg :=
  {| c_can := c_can cf; c_xml11 := c_xml11 cf; c_split := c_split cf; c_decl := false; c_enc := c_enc cf;
     c_fixed := c_fixed cf |}.

Definition ser_doc_dt (cf : scfg) (fixed : bool) (dt : option doctype) (kids : list node) : res (list N) serr :=
  match dt with
  | None => ser_doc cf kids
  | Some d =>
    bind (ser_doc cf []) (fun decl =>
    bind (ser_doctype cf fixed d) (fun o =>
    bind (ser_doc (nodecl cf) kids) (fun b => Ok (decl ++ o ++ b))))
  end.

Definition ser_doc_dt_bytes (e : encoding) (xml11 split decl fixed dq : bool) (encname : list N)
           (dt : option doctype) (kids : list node) : dres :=
  match ser_doc_dt (mk_cfg e xml11 split decl fixed encname) dq dt kids with
  | Err x => D_Err x
  | Ok u => match enc_tr e u with Ok b => D_Bytes b | Err x => D_TransErr x end
  end.

(* ------------------------------------------------------------------------------------------- *)
(** * DOMLSSerializerImpl::write: the encoding and the version used

    fEncodingUsed: the encoding of the DOMLSOutput; else, for a Document node, its inputEncoding; else its
    xmlEncoding; else UTF-8 (a null or empty string counts as absent).  writeToString always uses UTF-16 and
    ignores all of them.  fDocumentVersion: the document's xmlVersion when it is non-empty, else ''1.0''; XML 1.1
    rules are applied exactly when that string is ''1.1''. *)
Definition first_nonempty (l : list (list N)) (dflt : list N) : list N :=
  match find (fun s => match s with [] => false | _ => true end) l with Some s => s | None => dflt end.

Definition utf8_name : list N := [85; 84; 70; 45; 56].
Definition utf16_name : list N := [85; 84; 70; 45; 49; 54].

Definition encoding_used (to_string : bool) (out_enc input_enc xml_enc : list N) : list N :=
  if to_string then utf16_name else first_nonempty [out_enc; input_enc; xml_enc] utf8_name.

Definition version_used (xml_version : list N) : list N :=
  match xml_version with [] => [49; 46; 48] | _ => xml_version end.
Definition is_xml11 (xml_version : list N) : bool := list_eqb (version_used xml_version) [49; 46; 49].
