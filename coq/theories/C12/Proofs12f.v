(** C12 lemmas, part f: the serializer model's leaf nodes are read back by the specification scanners. *)
From Coq Require Import ZArith ZifyBool ZifyN ZifyNat Lia.
From XV Require Import C05.Spec05 C05.Model05 C12.Spec12 C12.Model12 C12.Proofs12a C12.Proofs12b C12.Proofs12c
  C12.Proofs12d C12.Proofs12e.
Local Open Scope N_scope.

Definition units16 (s : list N) : Prop := Forall (fun c => c < 65536) s.

Lemma is_low_sweep :
  forallb (fun h => forallb (fun l => Bool.eqb (is_low (1024 * h + l)) (lo_sur (1024 * h + l))) (nrange 1024)) (nrange 64) = true.
Proof. vm_compute. reflexivity. Qed.

Lemma is_low_spec : forall c, c < 65536 -> is_low c = lo_sur c.
Proof.
  intros c Hc. pose proof is_low_sweep as H. rewrite forallb_forall in H.
  assert (Hh : In (c / 1024) (nrange 64)) by (apply nrange_in; change (N.of_nat 64) with 64; lia).
  specialize (H _ Hh). rewrite forallb_forall in H.
  assert (Hl : In (c mod 1024) (nrange 1024)) by (apply nrange_in; change (N.of_nat 1024) with 1024; lia).
  specialize (H _ Hl). replace (1024 * (c / 1024) + c mod 1024) with c in H by lia.
  apply Bool.eqb_prop in H. exact H.
Qed.

(** what ensureValidString accepts is a string of XML characters *)
Lemma valid_is_xml : forall refs x n s, (length s <= n)%nat -> units16 s -> valid_string refs x s = true -> xml_string x s = true.
Proof.
  intros refs x. induction n as [|n IH]; intros s Hn Hu Hv.
  - destruct s; [reflexivity|cbn [length] in Hn; lia].
  - destruct s as [|c r]; [reflexivity|]. cbn [length] in Hn. inversion Hu as [|c' r' Hc Hr]; subst.
    cbn [valid_string] in Hv. cbn [xml_string].
    destruct (char_unit refs x c) eqn:Ec.
    + assert (Hb : bmp_char x c = true).
      { unfold char_unit, char11_unit, char11_data, char10_unit in Ec. unfold bmp_char. destruct x, refs; lia. }
      rewrite Hb. apply IH; [lia|exact Hr|exact Hv].
    + destruct (is_high c) eqn:Eh; [|discriminate]. rewrite is_high_spec in Eh by exact Hc.
      assert (Hb : bmp_char x c = false).
      { unfold hi_sur in Eh. unfold bmp_char. destruct x; lia. }
      rewrite Hb, Eh. destruct r as [|d r2]; [discriminate|]. inversion Hr as [|d' r2' Hd Hr2]; subst.
      apply andb_true_iff in Hv. destruct Hv as [Hl Hv]. rewrite is_low_spec in Hl by exact Hd. rewrite Hl.
      cbn [andb]. cbn [length] in Hn. apply IH; [lia|exact Hr2|exact Hv].
Qed.

Lemma data16_fixed : forall cf m s, c_fixed cf = true ->
  data16 cf m s = format16 (c_can cf) (c_xml11 cf) m UnRep_CharRef s.
Proof. intros cf m s H. unfold data16, inl_of, format16, format_calls. rewrite H. reflexivity. Qed.

(** a Text node: the serializer either reports INVALID_CHARACTER_ERR or writes character data that an XML
    processor reads back as the node's data *)
Lemma text_node_roundtrip : forall cf s out, c_fixed cf = true -> can_uniform (c_can cf) -> units16 s ->
  ser_node cf (Text s) = Ok out -> unescape_parse false (c_xml11 cf) out = Some s.
Proof.
  intros cf s out Hf Hu H16 H. cbn [ser_node] in H.
  destruct (valid_string (c_fixed cf) (c_xml11 cf) s) eqn:Ev; cbn [negb] in H; [|discriminate].
  injection H as H. subst out. rewrite data16_fixed by exact Hf.
  apply roundtrip_text; [exact Hu|]. apply (valid_is_xml _ _ (length s) s (le_n _) H16 Ev).
Qed.

(** an attribute: an unrepresentable name is refused; otherwise name="value" with the value read back as the
    attribute's value *)
Lemma attr_roundtrip : forall cf n v out, c_fixed cf = true -> can_uniform (c_can cf) -> units16 v ->
  ser_attrs cf [(n, v)] = Ok out ->
  forallb (c_can cf) n = true /\
  out = [32] ++ n ++ [61; 34] ++ data16 cf AttrEscapes v ++ [34] /\
  unescape_parse true (c_xml11 cf) (data16 cf AttrEscapes v) = Some v.
Proof.
  intros cf n v out Hf Hu H16 H. cbn [ser_attrs] in H. rewrite Hf in H. unfold markup in H.
  change (forallb (c_can cf) (32 :: n)) with (c_can cf 32 && forallb (c_can cf) n) in H.
  destruct (c_can cf 32); cbn [andb bind] in H; [|discriminate].
  destruct (forallb (c_can cf) n) eqn:En; cbn [bind] in H; [|discriminate].
  destruct (valid_string true (c_xml11 cf) v) eqn:Ev; cbn [negb] in H; [|discriminate].
  cbn [bind] in H. injection H as H. subst out. split; [reflexivity|]. split; [cbn [app]; reflexivity|].
  rewrite data16_fixed by exact Hf.
  apply roundtrip_attr; [exact Hu|]. apply (valid_is_xml _ _ (length v) v (le_n _) H16 Ev).
Qed.

(** a CDATASection node under split-cdata-sections: the written sections read back as the node's data *)
Lemma cdata_node_roundtrip : forall cf s out, c_fixed cf = true -> c_split cf = true -> forallb (c_can cf) s = true ->
  ser_node cf (CData s) = Ok out -> parse_sections (S (length s)) out = Some s.
Proof.
  intros cf s out Hf Hs Hc H. cbn [ser_node] in H. rewrite Hs, Hf in H.
  destruct (valid_string false (c_xml11 cf) s); cbn [negb] in H; [|discriminate].
  injection H as H. subst out. apply cdata_reparse. exact Hc.
Qed.
