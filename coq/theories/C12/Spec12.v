(** Specification side of C12.  Nothing here mentions the C++ code.
    [unescape_parse attr xml11 s]: what an XML processor reports for the character data [s] found between two
    tags ([attr = false]; XML 1.0/1.1 sections 2.4, 2.11, 4.1, 4.6) resp. for the text [s] found between the
    double quotes of an attribute value ([attr = true]; additionally section 3.3.3 for a CDATA-typed
    attribute), or [None] when [s] is not entirely character data / not a well-formed attribute value:
      - "&lt;" "&gt;" "&amp;" "&quot;" "&apos;" and "&#xH;" / "&#D;" denote one character; a reference must denote a
        Char of the document's XML version; any other use of "&" is an error (no DTD: no other entities);
      - "<" starts markup, and the value delimiter ends an attribute value: [None];
      - "]]>" must not occur literally in content;
      - literal CR LF / CR (XML 1.1: also CR NEL, NEL, LSEP) is one LF (2.11); in an attribute value each literal
        TAB / LF (after 2.11) becomes a space (3.3.3); characters that came from a reference are kept;
      - a literal unit must be allowed literally in the version (XML 1.1 forbids the C0/C1 controls).
    Strings are UTF-16 code units; pairing of surrogates is the decoder's business (C05). *)
From XV Require Export Base.XDefs.
From XV Require Import C05.Spec05.
Local Open Scope N_scope.

Inductive pstate : Type :=
| PText (cr : bool) (nb : nat)   (* cr: the previous literal unit was CR; nb: literal "]" just seen (max 2) *)
| PAmp                           (* after "&" *)
| PName (n : list N)             (* after "&" and the name characters n (reversed) *)
| PHash                          (* after "&#" *)
| PHexStart                      (* after "&#x" *)
| PHex (v : N)
| PDec (v : N).

Definition predefined : list (list N * N) :=
  [ ([108; 116], 60); ([103; 116], 62); ([97; 109; 112], 38); ([113; 117; 111; 116], 34); ([97; 112; 111; 115], 39) ].

Fixpoint list_eqb (a b : list N) : bool :=
  match a, b with
  | [], [] => true
  | x :: a', y :: b' => (x =? y) && list_eqb a' b'
  | _, _ => false
  end.

Definition lookup_entity (n : list N) : option N :=
  match find (fun p => list_eqb (fst p) n) predefined with Some p => Some (snd p) | None => None end.

Definition hexval (c : N) : option N :=
  if (48 <=? c) && (c <=? 57) then Some (c - 48)
  else if (65 <=? c) && (c <=? 70) then Some (c - 55)
  else if (97 <=? c) && (c <=? 102) then Some (c - 87)
  else None.
Definition decval (c : N) : option N := if (48 <=? c) && (c <=? 57) then Some (c - 48) else None.
Definition is_letter (c : N) : bool := ((97 <=? c) && (c <=? 122)) || ((65 <=? c) && (c <=? 90)).

(** Char production of the version, on code points (what a character reference may denote) *)
Definition ref_ok (xml11 : bool) (v : N) : bool :=
  if xml11 then ((1 <=? v) && (v <=? 0xD7FF)) || ((0xE000 <=? v) && (v <=? 0xFFFD)) || ((0x10000 <=? v) && (v <=? 0x10FFFF))
  else (v =? 9) || (v =? 0xA) || (v =? 0xD) || ((0x20 <=? v) && (v <=? 0xD7FF)) || ((0xE000 <=? v) && (v <=? 0xFFFD))
       || ((0x10000 <=? v) && (v <=? 0x10FFFF)).

(** units that may appear literally (TAB, LF, CR, NEL, LSEP are handled before this test) *)
Definition lit_ok (xml11 : bool) (c : N) : bool :=
  (0x20 <=? c) && (c <=? 0xFFFD) && negb (xml11 && (0x7F <=? c) && (c <=? 0x9F)).

Definition step (attr xml11 : bool) (st : pstate) (c : N) : option (pstate * list N) :=
  let nl := if attr then 0x20 else 0xA in
  match st with
  | PText cr nb =>
    if c =? 38 then Some (PAmp, [])
    else if c =? 60 then None
    else if attr && (c =? 34) then None
    else if negb attr && (c =? 62) && Nat.eqb nb 2 then None
    else if c =? 0xD then Some (PText true 0, [nl])
    else if (c =? 0xA) || (xml11 && (c =? 0x85)) then Some (PText false 0, if cr then [] else [nl])
    else if xml11 && (c =? 0x2028) then Some (PText false 0, [nl])
    else if c =? 9 then Some (PText false 0, [if attr then 0x20 else 9])
    else if lit_ok xml11 c then Some (PText false (if c =? 93 then Nat.min 2 (S nb) else 0), [c])
    else None
  | PAmp => if c =? 35 then Some (PHash, []) else if is_letter c then Some (PName [c], []) else None
  | PName n =>
    if c =? 59 then match lookup_entity (rev n) with Some ch => Some (PText false 0, [ch]) | None => None end
    else if is_letter c then Some (PName (c :: n), []) else None
  | PHash => if c =? 120 then Some (PHexStart, [])
             else match decval c with Some d => Some (PDec d, []) | None => None end
  | PHexStart => match hexval c with Some d => Some (PHex d, []) | None => None end
  | PHex v =>
    if c =? 59 then (if ref_ok xml11 v then Some (PText false 0, utf16_enc v) else None)
    else match hexval c with Some d => Some (PHex (v * 16 + d), []) | None => None end
  | PDec v =>
    if c =? 59 then (if ref_ok xml11 v then Some (PText false 0, utf16_enc v) else None)
    else match decval c with Some d => Some (PDec (v * 10 + d), []) | None => None end
  end.

Fixpoint unesc (attr xml11 : bool) (st : pstate) (s : list N) : option (list N) :=
  match s with
  | [] => match st with PText _ _ => Some [] | _ => None end
  | c :: r =>
    match step attr xml11 st c with
    | None => None
    | Some (st', o) => match unesc attr xml11 st' r with Some t => Some (o ++ t) | None => None end
    end
  end.

Definition unescape_parse (attr xml11 : bool) (s : list N) : option (list N) := unesc attr xml11 (PText false 0) s.

(** strings of XML characters, on UTF-16 units: every unit is a BMP Char of the version, or a surrogate pair *)
Definition bmp_char (xml11 : bool) (c : N) : bool :=
  if xml11 then ((1 <=? c) && (c <=? 0xD7FF)) || ((0xE000 <=? c) && (c <=? 0xFFFD))
  else (c =? 9) || (c =? 0xA) || (c =? 0xD) || ((0x20 <=? c) && (c <=? 0xD7FF)) || ((0xE000 <=? c) && (c <=? 0xFFFD)).
Definition hi_sur (c : N) : bool := (0xD800 <=? c) && (c <=? 0xDBFF).
Definition lo_sur (c : N) : bool := (0xDC00 <=? c) && (c <=? 0xDFFF).

Fixpoint xml_string (xml11 : bool) (s : list N) : bool :=
  match s with
  | [] => true
  | c :: r =>
    if bmp_char xml11 c then xml_string xml11 r
    else if hi_sur c then match r with d :: r' => lo_sur d && xml_string xml11 r' | [] => false end
    else false
  end.

(** "]]>" does not occur in [s] *)
Fixpoint no_cdata_end (s : list N) : bool :=
  match s with
  | [] => true
  | a :: r => match r with
              | b :: c :: _ => negb ((a =? 93) && (b =? 93) && (c =? 62)) && no_cdata_end r
              | _ => true
              end
  end.

(** what a parser reports for "<![CDATA[" s "]]>" rest: the text up to the first "]]>" and the rest *)
Fixpoint scan_cdata (s acc : list N) : option (list N * list N) :=
  match s with
  | [] => None
  | a :: r => match r with
              | b :: c :: r' => if (a =? 93) && (b =? 93) && (c =? 62) then Some (rev acc, r') else scan_cdata r (a :: acc)
              | _ => None
              end
  end.

(** a sequence of CDATA sections as a parser reads it: "<![CDATA[", text up to the first "]]>", repeated until the
    input is exhausted; the concatenated text, or [None] when the input is not such a sequence *)
Fixpoint parse_sections (fuel : nat) (out : list N) : option (list N) :=
  match out with
  | [] => Some []
  | _ =>
    match fuel with
    | O => None
    | S f =>
      if list_eqb (firstn 9 out) [60; 33; 91; 67; 68; 65; 84; 65; 91] then
        match scan_cdata (skipn 9 out) [] with
        | Some (t, rest) => match parse_sections f rest with Some u => Some (t ++ u) | None => None end
        | None => None
        end
      else None
    end
  end.
