(** Specification side of C12, tree level.  [parse_content] / [parse_doc]: a small XML scanner for the output
    language of the serializer -- start/end/empty-element tags with double-quoted attributes, character data,
    CDATA sections, comments, processing instructions, the XML declaration.  It reports what an XML processor
    reports for such a document: character data and attribute values through [Spec12.unescape_parse], CDATA text up
    to the first "]]>" ([Spec12.scan_cdata]), comment text up to the first "--" (which must be followed by ">"), PI
    data after the white space that follows the target up to the first "?>", line ends of literal data normalised
    (XML 2.11); maximal runs of character data form one Text node.  It does not check what the serializer cannot
    violate (attribute uniqueness, Name start characters, ...).
    [normalise]: the tree a parser reports for a tree that was written: a CDATASection that had to be split
    becomes its sections (CDATASection nodes) and the references between them (text), adjacent text is one Text
    node, empty text disappears. *)
From XV Require Export Base.XDefs.
From XV Require Import C05.Spec05 C12.Spec12 C12.Model12.
Local Open Scope N_scope.

(** no unit of [p] is [c] *)
Definition none_is (c : N) (p : list N) : bool := forallb (fun d => negb (d =? c)) p.

Definition is_ws (c : N) : bool := (c =? 32) || (c =? 9) || (c =? 10) || (c =? 13).

(** units that can be part of a name as far as this scanner is concerned: none of the delimiters *)
Definition name_unit (c : N) : bool :=
  negb (is_ws c || (c =? 62) || (c =? 47) || (c =? 61) || (c =? 60) || (c =? 38) || (c =? 34) || (c =? 39) ||
        (c =? 63) || (c =? 33)).
Definition name_ok (n : list N) : bool := match n with [] => false | _ => forallb name_unit n end.

Fixpoint take_name (s : list N) : list N * list N :=
  match s with
  | [] => ([], [])
  | c :: r => if name_unit c then let (n, q) := take_name r in (c :: n, q) else ([], s)
  end.

Fixpoint span_until (c : N) (s : list N) : list N * list N :=
  match s with
  | [] => ([], [])
  | d :: r => if d =? c then ([], s) else let (p, q) := span_until c r in (d :: p, q)
  end.

Fixpoint prefix_b (p s : list N) : bool :=
  match p, s with
  | [], _ => true
  | a :: p', b :: s' => (a =? b) && prefix_b p' s'
  | _ :: _, [] => false
  end.

Fixpoint skip_ws (s : list N) : list N :=
  match s with [] => [] | c :: r => if is_ws c then skip_ws r else s end.

(** text before the first occurrence of the two units [a b], and what follows it *)
Fixpoint scan2 (a b : N) (s acc : list N) : option (list N * list N) :=
  match s with
  | [] => None
  | c :: r => match r with
              | d :: r' => if (c =? a) && (d =? b) then Some (rev acc, r') else scan2 a b r (c :: acc)
              | [] => None
              end
  end.

(** [a b] does not occur in [s] *)
Fixpoint no2 (a b : N) (s : list N) : bool :=
  match s with
  | [] => true
  | c :: r => match r with
              | d :: _ => negb ((c =? a) && (d =? b)) && no2 a b r
              | [] => true
              end
  end.

(** XML 2.11 on literal data: CR LF, CR (XML 1.1: CR NEL, NEL, LSEP) become LF *)
Fixpoint norm_eol (x cr : bool) (s : list N) : list N :=
  match s with
  | [] => []
  | c :: r =>
    if c =? 13 then 10 :: norm_eol x true r
    else if (c =? 10) || (x && (c =? 0x85)) then (if cr then norm_eol x false r else 10 :: norm_eol x false r)
    else if x && (c =? 0x2028) then 10 :: norm_eol x false r
    else c :: norm_eol x false r
  end.

Definition pc_cons (n : node) (o : option (list node * list N)) : option (list node * list N) :=
  match o with Some (k, r) => Some (n :: k, r) | None => None end.

(** attributes: (S Name '="' value '"')* *)
Fixpoint parse_attrs (x : bool) (fuel : nat) (s : list N) : option (list (list N * list N) * list N) :=
  match fuel with
  | O => None
  | S f =>
    match s with
    | [] => Some ([], [])
    | c :: r =>
      if c =? 32 then
        let (an, r1) := take_name r in
        match an with
        | [] => None
        | _ =>
          if prefix_b [61; 34] r1 then
            let (ev, r2) := span_until 34 (skipn 2 r1) in
            match r2 with
            | [] => None
            | _ :: r3 =>
              match unescape_parse true x ev with
              | None => None
              | Some v => match parse_attrs x f r3 with
                          | Some (l, r4) => Some ((an, v) :: l, r4)
                          | None => None
                          end
              end
            end
          else None
        end
      else Some ([], s)
    end
  end.

Definition xml_target : list N := [120; 109; 108].

(** content: everything up to the end tag that closes the enclosing element (returned unconsumed) or the end *)
Fixpoint parse_content (x : bool) (fuel : nat) (s : list N) : option (list node * list N) :=
  match fuel with
  | O => None
  | S f =>
    match s with
    | [] => Some ([], [])
    | c :: r =>
      if prefix_b [60; 47] s then Some ([], s)
      else if prefix_b [60; 33; 45; 45] s then
        match scan2 45 45 (skipn 4 s) [] with
        | Some (d, g :: r') => if g =? 62 then pc_cons (Comment (norm_eol x false d)) (parse_content x f r') else None
        | _ => None
        end
      else if prefix_b [60; 33; 91; 67; 68; 65; 84; 65; 91] s then
        match scan_cdata (skipn 9 s) [] with
        | Some (d, r') => pc_cons (CData (norm_eol x false d)) (parse_content x f r')
        | None => None
        end
      else if prefix_b [60; 63] s then
        let (t, r1) := take_name (skipn 2 s) in
        match t with
        | [] => None
        | _ =>
          match scan2 63 62 (skip_ws r1) [] with
          | Some (d, r') =>
            (* the XML declaration is not a node *)
            if list_eqb t xml_target then parse_content x f r'
            else pc_cons (PI t (norm_eol x false d)) (parse_content x f r')
          | None => None
          end
        end
      else if c =? 60 then
        let (name, r1) := take_name r in
        match name with
        | [] => None
        | _ =>
          match parse_attrs x f r1 with
          | None => None
          | Some (attrs, r2) =>
            if prefix_b [47; 62] r2 then pc_cons (Elem name attrs []) (parse_content x f (skipn 2 r2))
            else if prefix_b [62] r2 then
              match parse_content x f (skipn 1 r2) with
              | Some (kids, r3) =>
                if prefix_b ([60; 47] ++ name ++ [62]) r3
                then pc_cons (Elem name attrs kids) (parse_content x f (skipn (3 + length name) r3))
                else None
              | None => None
              end
            else None
          end
        end
      else
        let (run, r') := span_until 60 s in
        match unescape_parse false x run with
        | Some t => pc_cons (Text t) (parse_content x f r')
        | None => None
        end
    end
  end.

Definition reparse (x : bool) (fuel : nat) (out : list N) : option (list node) :=
  match parse_content x fuel out with
  | Some (kids, []) => Some kids
  | _ => None
  end.

(* ------------------------------------------------------------------------------------------- *)
(** * the tree a parser reports for a written tree *)

Definition flushT (acc : list N) : list node := match acc with [] => [] | _ => [Text acc] end.

(** adjacent Text nodes are one node, empty Text nodes disappear *)
Fixpoint merge_acc (acc : list N) (l : list node) : list node :=
  match l with
  | [] => flushT acc
  | Text a :: r => merge_acc (acc ++ a) r
  | n :: r => flushT acc ++ n :: merge_acc [] r
  end.

Definition cd_node (it : citem) : node :=
  match it with CSect p => CData p | CRef v => Text (utf16_enc v) end.

Fixpoint expand (cf : scfg) (n : node) : list node :=
  match n with
  | Elem nm at_ kids =>
    [Elem nm at_ (merge_acc [] ((fix go (l : list node) : list node :=
                                   match l with [] => [] | k :: r => expand cf k ++ go r end) kids))]
  | CData s => if c_split cf then map cd_node (cdata_items (c_can cf) s) else [CData s]
  | _ => [n]
  end.

Fixpoint expand_list (cf : scfg) (l : list node) : list node :=
  match l with [] => [] | k :: r => expand cf k ++ expand_list cf r end.

Definition normalise (cf : scfg) (kids : list node) : list node := merge_acc [] (expand_list cf kids).

(* ------------------------------------------------------------------------------------------- *)
(** * what the model does not check but XML requires (the DOM guarantees Names; the rest are the known findings
      F40 "--" in comments, F41 "?>" / leading white space in PI data, F47 line ends in literal data) *)

Definition no_eol (x : bool) (s : list N) : bool :=
  forallb (fun c => negb ((c =? 13) || (x && ((c =? 0x85) || (c =? 0x2028))))) s.

Fixpoint expressible (cf : scfg) (n : node) : bool :=
  match n with
  | Text _ => true
  | CData s => no_eol (c_xml11 cf) s
  | Comment s => no2 45 45 (s ++ [45]) && no_eol (c_xml11 cf) s
  | PI t d => name_ok t && negb (list_eqb t xml_target) && no2 63 62 (d ++ [63]) && no_eol (c_xml11 cf) d &&
              (match d with c :: _ => negb (is_ws c) | [] => true end)
  | Elem nm at_ kids =>
    name_ok nm && forallb (fun a => name_ok (fst a)) at_ &&
    (fix go (l : list node) : bool := match l with [] => true | k :: r => expressible cf k && go r end) kids
  end.

Fixpoint expressible_list (cf : scfg) (l : list node) : bool :=
  match l with [] => true | k :: r => expressible cf k && expressible_list cf r end.

(** recursion bound that suffices for [parse_content] on the output for these nodes *)
Fixpoint node_weight (n : node) : nat :=
  match n with
  | Elem _ at_ kids =>
    (6 + length at_ + (fix go (l : list node) : nat := match l with [] => O | k :: r => node_weight k + go r end) kids)%nat
  | CData s => (2 * S (length s))%nat
  | Text _ => O
  | _ => 2%nat
  end.
Fixpoint list_weight (l : list node) : nat :=
  match l with [] => O | k :: r => (node_weight k + list_weight r)%nat end.

(** scope of the tree-level theorems: strings are UTF-16 code units; the data of CDATASection nodes is representable
    in the output encoding (limitation of the proof: sections interleaved with character references are covered by
    the document-level oracle only) *)
Definition u16b (s : list N) : bool := forallb (fun c => c <? 65536) s.
Fixpoint in_scope (cf : scfg) (n : node) : bool :=
  match n with
  | Text s => u16b s
  | CData s => forallb (c_can cf) s
  | Elem _ at_ kids =>
    forallb (fun a => u16b (snd a)) at_ &&
    (fix go (l : list node) : bool := match l with [] => true | k :: r => in_scope cf k && go r end) kids
  | _ => true
  end.
Fixpoint in_scope_list (cf : scfg) (l : list node) : bool :=
  match l with [] => true | k :: r => in_scope cf k && in_scope_list cf r end.
