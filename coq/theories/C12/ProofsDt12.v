(** C12: the document type declaration written by the (repaired) serializer reads back as the same DocumentType;
    the code as found does not; unquotable identifiers are refused. *)
From Coq Require Import ZArith ZifyBool ZifyN ZifyNat Lia.
From XV Require Import C05.Spec05 C12.Spec12 C12.Model12 C12.SpecTree12 C12.ModelDt12 C12.SpecDt12 C12.ProofsTree12a.
Local Open Scope N_scope.

Lemma markup_ok : forall cf s o, markup cf s = Ok o -> o = s.
Proof. intros cf s o. unfold markup. destruct (forallb (c_can cf) s); intros H; [injection H as <-; reflexivity | discriminate]. Qed.

Lemma bind_ok : forall A B E (x : res A E) (f : A -> res B E) o, bind x f = Ok o -> exists a, x = Ok a /\ f a = Ok o.
Proof. intros A B E x f o. destruct x as [a|e]; cbn [bind]; intros H; [exists a; split; [reflexivity | exact H] | discriminate]. Qed.

Lemma has_none_is : forall c s, has c s = false -> none_is c s = true.
Proof.
  intros c. induction s as [|d s IH]; [reflexivity|].
  unfold has, none_is in *. cbn [existsb forallb]. intros H. apply orb_false_iff in H. destruct H as [H1 H2].
  rewrite H1. cbn [negb andb]. apply IH. exact H2.
Qed.

Lemma take_lit_app : forall q v rest, (q =? 34) || (q =? 39) = true -> none_is q v = true ->
  take_lit (q :: v ++ q :: rest) = Some (v, rest).
Proof.
  intros q v rest Hq Hv. unfold take_lit. rewrite Hq.
  rewrite (span_until_app q v (q :: rest) Hv); [reflexivity | reflexivity].
Qed.

(** the delimiter chosen by the repaired code does not occur in the system identifier *)
Lemma sys_quote_ok : forall sys, (has 34 sys && has 39 sys) = false ->
  ((sys_quote true sys =? 34) || (sys_quote true sys =? 39) = true) /\ none_is (sys_quote true sys) sys = true.
Proof.
  intros sys H. unfold sys_quote. cbn [andb]. destruct (has 34 sys) eqn:E34.
  - cbn [andb] in H. split; [reflexivity | apply has_none_is; exact H].
  - split; [reflexivity | apply has_none_is; exact E34].
Qed.

Lemma pubid_no_dquote : forall p, forallb pubid_char p = true -> none_is 34 p = true.
Proof.
  induction p as [|c p IH]; [reflexivity|]. cbn [forallb]. intros H. apply andb_true_iff in H. destruct H as [Hc Hp].
  unfold none_is. cbn [forallb]. fold (none_is 34 p). rewrite (IH Hp), andb_true_r.
  destruct (N.eqb_spec c 34) as [->|]; [vm_compute in Hc; discriminate | reflexivity].
Qed.

Lemma prefix_b_neq2 : forall a b p c d r, (b =? d) = false -> prefix_b (a :: b :: p) (c :: d :: r) = false.
Proof. intros. cbn [prefix_b]. rewrite H. destruct (a =? c); reflexivity. Qed.

Lemma parse_sub_some : forall sb rest, none_is 93 sb = true ->
  parse_sub ((match sb with [] => [] | _ => [32; 91] ++ sb ++ [93] end) ++ 62 :: rest) = Some (sb, 62 :: rest).
Proof.
  intros sb rest Hs. destruct sb as [|c sb'] eqn:E.
  - reflexivity.
  - rewrite <- E in *. unfold parse_sub.
    change (([32; 91] ++ sb ++ [93]) ++ 62 :: rest) with (32 :: 91 :: (sb ++ [93]) ++ 62 :: rest).
    change (prefix_b [32; 91] (32 :: 91 :: (sb ++ [93]) ++ 62 :: rest)) with true. cbv iota.
    change (skipn 2 (32 :: 91 :: (sb ++ [93]) ++ 62 :: rest)) with ((sb ++ [93]) ++ 62 :: rest).
    rewrite <- app_assoc. cbn [app].
    rewrite (span_until_app 93 sb (93 :: 62 :: rest) Hs); reflexivity.
Qed.

Definition dt_out_tail (d : doctype) (rest : list N) : list N :=
  (match dt_sub d with [] => [] | _ => [32; 91] ++ dt_sub d ++ [93] end) ++ 62 :: rest.

Lemma tail_starts : forall d rest, exists c t, dt_out_tail d rest = c :: t /\ ((c = 32 /\ exists t', t = 91 :: t') \/ c = 62).
Proof.
  intros d rest. unfold dt_out_tail. destruct (dt_sub d) as [|x sb].
  - exists 62, rest. split; [reflexivity | right; reflexivity].
  - exists 32, (91 :: (x :: sb) ++ [93] ++ 62 :: rest). split.
    + cbn [app]. rewrite <- app_assoc. reflexivity.
    + left. split; [reflexivity | eexists; reflexivity].
Qed.

(** the three shapes of the external identifier *)
Lemma parse_ext_none : forall d rest, parse_ext (dt_out_tail d rest) = Some ([], [], dt_out_tail d rest).
Proof.
  intros d rest. destruct (tail_starts d rest) as (c & t & E & [[-> [t' ->]] | ->]); rewrite E; unfold parse_ext.
  - unfold kw_public, kw_system. rewrite !prefix_b_neq2 by reflexivity. reflexivity.
  - reflexivity.
Qed.

Lemma parse_ext_system : forall sys T, (has 34 sys && has 39 sys) = false ->
  parse_ext ([32] ++ (sysid_kw ++ [32; sys_quote true sys]) ++ sys ++ [sys_quote true sys] ++ T) = Some ([], sys, T).
Proof.
  intros sys T H. destruct (sys_quote_ok sys H) as [Hq Hn]. set (q := sys_quote true sys) in *.
  change ([32] ++ (sysid_kw ++ [32; q]) ++ sys ++ [q] ++ T) with (kw_system ++ q :: sys ++ q :: T).
  unfold parse_ext.
  assert (Hp : prefix_b kw_public (kw_system ++ q :: sys ++ q :: T) = false) by reflexivity.
  rewrite Hp, prefix_b_app.
  change 8%nat with (length kw_system). rewrite skipn_app_exact, (take_lit_app q sys T Hq Hn). reflexivity.
Qed.

Lemma parse_ext_public : forall pub sys T, forallb pubid_char pub = true -> (has 34 sys && has 39 sys) = false ->
  parse_ext ([32] ++ ser_gPublic ++ pub ++ [34] ++ [32; sys_quote true sys] ++ sys ++ [sys_quote true sys] ++ T)
  = Some (pub, sys, T).
Proof.
  intros pub sys T Hpub H. destruct (sys_quote_ok sys H) as [Hq Hn]. set (q := sys_quote true sys) in *.
  change ([32] ++ ser_gPublic ++ pub ++ [34] ++ [32; q] ++ sys ++ [q] ++ T)
    with (kw_public ++ 34 :: pub ++ 34 :: 32 :: q :: sys ++ q :: T).
  unfold parse_ext. rewrite prefix_b_app.
  change 8%nat with (length kw_public). rewrite skipn_app_exact.
  rewrite (take_lit_app 34 pub (32 :: q :: sys ++ q :: T) eq_refl (pubid_no_dquote pub Hpub)).
  rewrite Hpub, (take_lit_app q sys T Hq Hn). reflexivity.
Qed.

(** T12_doctype_roundtrip *)
Theorem doctype_roundtrip : forall cf d out rest,
  ser_doctype cf true d = Ok out -> dt_expressible d = true ->
  parse_doctype (out ++ rest) = Some (d, rest).
Proof.
  intros cf d out rest Hs Hx. destruct d as [name pub sys sb]. unfold dt_expressible in Hx. cbn [dt_name dt_sub] in Hx.
  apply andb_true_iff in Hx. destruct Hx as [Hname Hsb].
  unfold ser_doctype in Hs. cbn [dt_name dt_pub dt_sys dt_sub andb] in Hs.
  destruct (valid_string false (c_xml11 cf) sys); cbn [negb] in Hs; [|discriminate].
  destruct (forallb pubid_char pub) eqn:Hpub; cbn [negb] in Hs; [|discriminate].
  destruct (has 34 sys && has 39 sys) eqn:Hq; [discriminate|].
  apply bind_ok in Hs. destruct Hs as (a & Ha & Hs). apply markup_ok in Ha.
  apply bind_ok in Hs. destruct Hs as (e & He & Hs).
  apply bind_ok in Hs. destruct Hs as (s & Hs' & Hs). apply markup_ok in Hs'. injection Hs as <-.
  subst a s.
  assert (Hn : name <> [] /\ forallb name_unit name = true).
  { unfold name_ok in Hname. destruct name; [discriminate | split; [discriminate | exact Hname]]. }
  destruct Hn as [Hne Hnu].
  set (T := dt_out_tail (mk_dt name pub sys sb) rest).
  assert (HT : forall X, ((ser_gStartDoctype ++ name) ++ X ++
                 (match sb with [] => [] | _ => [32; 91] ++ sb ++ [93] end) ++ [62]) ++ rest
               = kw_doctype ++ name ++ X ++ T).
  { intros X. unfold T, dt_out_tail. cbn [dt_sub]. change ser_gStartDoctype with kw_doctype.
    rewrite <- !app_assoc. reflexivity. }
  assert (Hfin : forall X, parse_ext (X ++ T) = Some (pub, sys, T) -> starts_non_name (X ++ T) ->
            parse_doctype (kw_doctype ++ name ++ X ++ T) = Some (mk_dt name pub sys sb, rest)).
  { intros X HX Hst. unfold parse_doctype. rewrite prefix_b_app.
    change 10%nat with (length kw_doctype). rewrite skipn_app_exact.
    rewrite (take_name_app name (X ++ T) Hnu Hst).
    destruct name as [|n0 name']; [congruence|]. rewrite HX.
    unfold T, dt_out_tail. cbn [dt_sub]. rewrite (parse_sub_some sb rest Hsb). reflexivity. }
  destruct pub as [|p0 pub']; destruct sys as [|s0 sys'].
  - injection He as <-. rewrite HT. apply Hfin.
    + apply parse_ext_none.
    + cbn [app]. destruct (tail_starts (mk_dt name [] [] sb) rest) as (c & t & E & [[-> _] | ->]); fold T in E; rewrite E; reflexivity.
  - apply markup_ok in He. subst e. rewrite HT.
    set (sys := s0 :: sys') in *. apply Hfin; [|reflexivity].
    replace (([32] ++ (sysid_kw ++ [32; sys_quote true sys]) ++ sys ++ [sys_quote true sys]) ++ T)
      with ([32] ++ (sysid_kw ++ [32; sys_quote true sys]) ++ sys ++ [sys_quote true sys] ++ T)
      by (rewrite <- !app_assoc; reflexivity).
    apply parse_ext_system; exact Hq.
  - apply bind_ok in He. destruct He as (x & _ & He). discriminate.
  - apply markup_ok in He. subst e. rewrite HT.
    set (sys := s0 :: sys') in *. set (pub := p0 :: pub') in *. apply Hfin; [|reflexivity].
    replace (([32] ++ ser_gPublic ++ pub ++ [34] ++ [32; sys_quote true sys] ++ sys ++ [sys_quote true sys]) ++ T)
      with ([32] ++ ser_gPublic ++ pub ++ [34] ++ [32; sys_quote true sys] ++ sys ++ [sys_quote true sys] ++ T)
      by (rewrite <- !app_assoc; reflexivity).
    apply parse_ext_public; assumption.
Qed.

(** the code as found: a system identifier containing a double quote is written between double quotes *)
Definition cf_utf8 : scfg := mk_cfg EUtf8 false true false true [].
Theorem doctype_old_refuted :
  exists d out, dt_expressible d = true /\ ser_doctype cf_utf8 false d = Ok out /\ parse_doctype out = None /\
                (exists out', ser_doctype cf_utf8 true d = Ok out' /\ parse_doctype out' = Some (d, [])).
Proof.
  exists (mk_dt [97] [] [120; 34; 121] []). eexists. split; [reflexivity|]. split; [vm_compute; reflexivity|].
  split; [vm_compute; reflexivity|]. eexists. split; vm_compute; reflexivity.
Qed.

(** identifiers that cannot be written as literals are refused by the repaired code *)
Definition dt_unquotable (cf : scfg) (d : doctype) : Prop :=
  (has 34 (dt_sys d) = true /\ has 39 (dt_sys d) = true) \/ forallb pubid_char (dt_pub d) = false \/
  valid_string false (c_xml11 cf) (dt_sys d) = false \/ (dt_pub d <> [] /\ dt_sys d = []) \/
  forallb (c_can cf) (dt_name d ++ dt_pub d ++ dt_sys d ++ dt_sub d) = false.

Lemma markup_err : forall cf s, forallb (c_can cf) s = false -> markup cf s = Err S_Unrepresentable.
Proof. intros cf s H. unfold markup. rewrite H. reflexivity. Qed.

Theorem doctype_unquotable_refused : forall cf d, dt_unquotable cf d -> exists e, ser_doctype cf true d = Err e.
Proof.
  intros cf d H. unfold ser_doctype. cbn [andb].
  destruct (valid_string false (c_xml11 cf) (dt_sys d)) eqn:Hv; cbn [negb]; [|eexists; reflexivity].
  destruct (forallb pubid_char (dt_pub d)) eqn:Hp; cbn [negb]; [|eexists; reflexivity].
  destruct (has 34 (dt_sys d) && has 39 (dt_sys d)) eqn:Hq; [eexists; reflexivity|].
  destruct H as [[H1 H2] | [H | [H | [[H1 H2] | H]]]]; try congruence.
  - rewrite H1, H2 in Hq. discriminate.
  - destruct (markup cf (ser_gStartDoctype ++ dt_name d)); cbn [bind]; [|eexists; reflexivity].
    rewrite H2. destruct (dt_pub d); [congruence|].
    destruct (markup cf _); cbn [bind]; eexists; reflexivity.
  - rewrite !forallb_app in H.
    destruct (forallb (c_can cf) (dt_name d)) eqn:Hn.
    2:{ rewrite markup_err by (rewrite forallb_app, Hn, andb_false_r; reflexivity). eexists; reflexivity. }
    destruct (markup cf (ser_gStartDoctype ++ dt_name d)); cbn [bind]; [|eexists; reflexivity].
    destruct (forallb (c_can cf) (dt_pub d)) eqn:Hpu; destruct (forallb (c_can cf) (dt_sys d)) eqn:Hsy;
      destruct (forallb (c_can cf) (dt_sub d)) eqn:Hsu; cbn [andb] in H; try discriminate.
    + destruct (dt_sub d) as [|x sb] eqn:Esb; [discriminate|].
      match goal with |- context [bind ?X _] => destruct X; cbn [bind]; [|eexists; reflexivity] end.
      rewrite markup_err; [eexists; reflexivity|].
      rewrite !forallb_app, Hsu. cbn [andb]. rewrite andb_false_r. reflexivity.
    + destruct (dt_sys d) as [|y sy] eqn:Esy; [discriminate|].
      destruct (dt_pub d); rewrite markup_err; try (eexists; reflexivity);
        rewrite !forallb_app, Hsy; cbn [andb]; rewrite ?andb_false_r; reflexivity.
    + destruct (dt_sys d) as [|y sy] eqn:Esy; [discriminate|].
      destruct (dt_pub d); rewrite markup_err; try (eexists; reflexivity);
        rewrite !forallb_app, Hsy; cbn [andb]; rewrite ?andb_false_r; reflexivity.
    + destruct (dt_pub d) as [|y pu] eqn:Epu; [discriminate|].
      destruct (dt_sys d); rewrite markup_err; cbn [bind]; try (eexists; reflexivity);
        rewrite !forallb_app, Hpu; cbn [andb]; rewrite ?andb_false_r; reflexivity.
    + destruct (dt_pub d) as [|y pu] eqn:Epu; [discriminate|].
      destruct (dt_sys d); rewrite markup_err; cbn [bind]; try (eexists; reflexivity);
        rewrite !forallb_app, Hpu; cbn [andb]; rewrite ?andb_false_r; reflexivity.
    + destruct (dt_pub d) as [|y pu] eqn:Epu; [discriminate|].
      destruct (dt_sys d); rewrite markup_err; cbn [bind]; try (eexists; reflexivity);
        rewrite !forallb_app, Hpu; cbn [andb]; rewrite ?andb_false_r; reflexivity.
    + destruct (dt_pub d) as [|y pu] eqn:Epu; [discriminate|].
      destruct (dt_sys d); rewrite markup_err; cbn [bind]; try (eexists; reflexivity);
        rewrite !forallb_app, Hpu; cbn [andb]; rewrite ?andb_false_r; reflexivity.
Qed.

(** the encoding selection of write(): LSOutput.encoding, Document.inputEncoding, Document.xmlEncoding, UTF-8 *)
Theorem encoding_order : forall o i x,
  encoding_used false o i x =
    match o with _ :: _ => o | [] => match i with _ :: _ => i | [] => match x with _ :: _ => x | [] => utf8_name end end end.
Proof. intros o i x. unfold encoding_used, first_nonempty. destruct o; [|reflexivity]. destruct i; [|reflexivity]. destruct x; reflexivity. Qed.

Theorem encoding_to_string : forall o i x, encoding_used true o i x = utf16_name.
Proof. reflexivity. Qed.

Theorem encoding_never_empty : forall ts o i x, encoding_used ts o i x <> [].
Proof.
  intros ts o i x. destruct ts; [discriminate|]. rewrite encoding_order.
  destruct o; [|discriminate]. destruct i; [|discriminate]. destruct x; discriminate.
Qed.
