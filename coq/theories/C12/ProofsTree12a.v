(** C12 tree-level lemmas, part a: the elementary scanners. *)
From Coq Require Import ZArith ZifyBool ZifyN ZifyNat Lia.
From XV Require Import C05.Spec05 C12.Spec12 C12.Model12 C12.SpecTree12.
Local Open Scope N_scope.

Definition starts_non_name (rest : list N) : Prop :=
  match rest with [] => True | c :: _ => name_unit c = false end.

Lemma take_name_app : forall n rest, forallb name_unit n = true -> starts_non_name rest ->
  take_name (n ++ rest) = (n, rest).
Proof.
  induction n as [|c n IH]; intros rest Hn Hr.
  - cbn [app]. destruct rest as [|d r]; [reflexivity|]. cbn [take_name]. cbn [starts_non_name] in Hr. rewrite Hr. reflexivity.
  - cbn [forallb] in Hn. apply andb_true_iff in Hn. destruct Hn as [Hc Hn].
    cbn [app take_name]. rewrite Hc, (IH rest Hn Hr). reflexivity.
Qed.

Definition starts_with_or_nil (c : N) (rest : list N) : Prop :=
  match rest with [] => True | d :: _ => d = c end.

Lemma span_until_app : forall c p rest, none_is c p = true -> starts_with_or_nil c rest ->
  span_until c (p ++ rest) = (p, rest).
Proof.
  intros c. induction p as [|d p IH]; intros rest Hp Hr.
  - cbn [app]. destruct rest as [|e r]; [reflexivity|]. cbn [starts_with_or_nil] in Hr. subst e.
    cbn [span_until]. rewrite N.eqb_refl. reflexivity.
  - unfold none_is in Hp. cbn [forallb] in Hp. apply andb_true_iff in Hp. destruct Hp as [Hd Hp].
    cbn [app span_until]. destruct (d =? c); [discriminate|]. rewrite (IH rest Hp Hr). reflexivity.
Qed.

Lemma prefix_b_app : forall p r, prefix_b p (p ++ r) = true.
Proof. induction p as [|a p IH]; intros r; [reflexivity|]. cbn [app prefix_b]. rewrite N.eqb_refl, IH. reflexivity. Qed.

Lemma skipn_app_exact : forall (p r : list N), skipn (length p) (p ++ r) = r.
Proof. induction p as [|a p IH]; intros r; [reflexivity|]. cbn [length app skipn]. apply IH. Qed.

Lemma scan2_app : forall a b d rest acc, no2 a b (d ++ [a]) = true ->
  scan2 a b (d ++ a :: b :: rest) acc = Some (rev acc ++ d, rest).
Proof.
  intros a b. induction d as [|c d IH]; intros rest acc H.
  - cbn [app scan2]. rewrite !N.eqb_refl. cbn [andb]. rewrite app_nil_r. reflexivity.
  - cbn [app] in H. cbn [app].
    assert (Hstep : scan2 a b (c :: d ++ a :: b :: rest) acc = scan2 a b (d ++ a :: b :: rest) (c :: acc) /\
                    no2 a b (d ++ [a]) = true).
    { destruct d as [|e d'].
      - cbn [app] in *. cbn [no2] in H. apply andb_true_iff in H. destruct H as [H1 _].
        cbn [scan2]. destruct ((c =? a) && (a =? b)); [discriminate|]. split; reflexivity.
      - cbn [app] in *. cbn [no2] in H. apply andb_true_iff in H. destruct H as [H1 H2].
        split; [|exact H2]. cbn [scan2]. destruct ((c =? a) && (e =? b)); [discriminate|]. reflexivity. }
    destruct Hstep as [Hs Hn]. rewrite Hs, IH by exact Hn. cbn [rev]. rewrite <- app_assoc. reflexivity.
Qed.

Lemma norm_eol_id : forall x s, no_eol x s = true -> norm_eol x false s = s.
Proof.
  intros x. induction s as [|c r IH]; intros H; [reflexivity|].
  unfold no_eol in H. cbn [forallb] in H. apply andb_true_iff in H. destruct H as [Hc Hr].
  cbn [norm_eol].
  destruct (N.eqb_spec c 13) as [E|N13]; [subst; destruct x; discriminate|].
  destruct (N.eqb_spec c 10) as [E|N10].
  - cbn [orb]. rewrite (IH Hr). subst. reflexivity.
  - cbn [orb].
    assert (H85 : (x && (c =? 0x85)) = false) by (destruct x; cbn [andb] in *; [|reflexivity]; destruct (c =? 0x85); [rewrite orb_true_r in Hc; discriminate|reflexivity]).
    assert (H28 : (x && (c =? 0x2028)) = false) by (destruct x; cbn [andb] in *; [|reflexivity]; destruct (c =? 0x2028); [rewrite !orb_true_r in Hc; discriminate|reflexivity]).
    rewrite H85, H28, (IH Hr). reflexivity.
Qed.

(** character data / attribute value text never contains "<" (nor the quote, in an attribute value) *)
Lemma step_no_lt : forall attr x st c st' o, step attr x st c = Some (st', o) ->
  (c =? 60) = false /\ (attr = true -> (c =? 34) = false).
Proof.
  intros attr x st c st' o H. unfold step in H.
  destruct st as [cr nb| |n| | |v|v].
  - destruct (N.eqb_spec c 38) as [E|_]; [subst; split; [reflexivity|intros; reflexivity]|].
    destruct (N.eqb_spec c 60) as [E|_]; [discriminate|]. split; [reflexivity|]. intros Ha. subst attr. cbn [andb] in H.
    destruct (c =? 34); [discriminate|reflexivity].
  - destruct (N.eqb_spec c 35) as [E|_]; [subst; split; [reflexivity|intros; reflexivity]|].
    unfold is_letter in H. destruct (N.eqb_spec c 60); [subst; discriminate|]. split; [reflexivity|]. intros _.
    destruct (N.eqb_spec c 34); [subst; discriminate|reflexivity].
  - destruct (N.eqb_spec c 59) as [E|_]; [subst; split; [reflexivity|intros; reflexivity]|].
    unfold is_letter in H. destruct (N.eqb_spec c 60); [subst; discriminate|]. split; [reflexivity|]. intros _.
    destruct (N.eqb_spec c 34); [subst; discriminate|reflexivity].
  - destruct (N.eqb_spec c 120) as [E|_]; [subst; split; [reflexivity|intros; reflexivity]|].
    unfold decval in H. destruct (N.eqb_spec c 60); [subst; discriminate|]. split; [reflexivity|]. intros _.
    destruct (N.eqb_spec c 34); [subst; discriminate|reflexivity].
  - unfold hexval in H. destruct (N.eqb_spec c 60); [subst; discriminate|]. split; [reflexivity|]. intros _.
    destruct (N.eqb_spec c 34); [subst; discriminate|reflexivity].
  - destruct (N.eqb_spec c 59) as [E|_]; [subst; split; [reflexivity|intros; reflexivity]|].
    unfold hexval in H. destruct (N.eqb_spec c 60); [subst; discriminate|]. split; [reflexivity|]. intros _.
    destruct (N.eqb_spec c 34); [subst; discriminate|reflexivity].
  - destruct (N.eqb_spec c 59) as [E|_]; [subst; split; [reflexivity|intros; reflexivity]|].
    unfold decval in H. destruct (N.eqb_spec c 60); [subst; discriminate|]. split; [reflexivity|]. intros _.
    destruct (N.eqb_spec c 34); [subst; discriminate|reflexivity].
Qed.

Lemma unesc_no_lt : forall attr x s st t, unesc attr x st s = Some t ->
  none_is 60 s = true /\ (attr = true -> none_is 34 s = true).
Proof.
  intros attr x. induction s as [|c r IH]; intros st t H; [split; [reflexivity|intros; reflexivity]|].
  cbn [unesc] in H. destruct (step attr x st c) as [[st' o]|] eqn:E; [|discriminate].
  destruct (unesc attr x st' r) as [t'|] eqn:E2; [|discriminate].
  destruct (step_no_lt _ _ _ _ _ _ E) as [H1 H2]. destruct (IH st' t' E2) as [H3 H4].
  unfold none_is in *. cbn [forallb]. rewrite H1. split; [exact H3|]. intros Ha. rewrite (H2 Ha), (H4 Ha). reflexivity.
Qed.
