(** C12 tree-level lemmas, part f: documents (XML declaration), the round-trip theorem. *)
From Coq Require Import ZArith ZifyBool ZifyN ZifyNat Lia.
From XV Require Import C05.Spec05 C05.Model05 C12.Spec12 C12.Model12 C12.SpecTree12
  C12.Proofs12a C12.Proofs12b C12.Proofs12c C12.Proofs12d C12.Proofs12e C12.Proofs12f
  C12.ProofsTree12a C12.ProofsTree12b C12.ProofsTree12c C12.ProofsTree12d C12.ProofsTree12e.
Local Open Scope N_scope.

Definition decl_of (cf : scfg) : list N :=
  if c_decl cf then
    ser_gXMLDecl_VersionInfo ++ ver_string (c_xml11 cf) ++ ser_gXMLDecl_separator ++
    ser_gXMLDecl_EncodingDecl ++ c_enc cf ++ ser_gXMLDecl_separator ++
    ser_gXMLDecl_SDDecl ++ [110; 111] ++ ser_gXMLDecl_separator ++ ser_gXMLDecl_endtag
  else [].

Lemma ser_doc_eq : forall cf kids, ser_doc cf kids = bind (ser_kids cf kids) (fun body => Ok (decl_of cf ++ body)).
Proof. reflexivity. Qed.

Lemma no2_none : forall a b l, none_is b l = true -> no2 a b l = true.
Proof.
  intros a b. induction l as [|c r IH]; intros H; [reflexivity|].
  unfold none_is in H. cbn [forallb] in H. apply andb_true_iff in H. destruct H as [_ Hr].
  cbn [no2]. destruct r as [|d r']; [reflexivity|].
  pose proof Hr as Hr'. cbn [forallb] in Hr'. apply andb_true_iff in Hr'. destruct Hr' as [Hd _].
  rewrite (IH Hr). destruct (d =? b); [discriminate|]. rewrite andb_false_r. reflexivity.
Qed.

(** the declaration body between "<?xml " and "?>" *)
Definition decl_body (cf : scfg) : list N :=
  [118; 101; 114; 115; 105; 111; 110; 61; 34] ++ ver_string (c_xml11 cf) ++ [34; 32] ++
  [101; 110; 99; 111; 100; 105; 110; 103; 61; 34] ++ c_enc cf ++ [34; 32] ++
  [115; 116; 97; 110; 100; 97; 108; 111; 110; 101; 61; 34] ++ [110; 111] ++ [34; 32].

Lemma decl_shape : forall cf body, c_decl cf = true ->
  decl_of cf ++ body = 60 :: 63 :: [120; 109; 108] ++ 32 :: decl_body cf ++ 63 :: 62 :: body.
Proof.
  intros cf body H. unfold decl_of, decl_body. rewrite H.
  cbv [ser_gXMLDecl_VersionInfo ser_gXMLDecl_separator ser_gXMLDecl_EncodingDecl ser_gXMLDecl_SDDecl ser_gXMLDecl_endtag].
  repeat first [rewrite <- app_assoc | progress cbn [app]]. reflexivity.
Qed.

Lemma decl_body_no_gt : forall cf, none_is 62 (c_enc cf) = true -> none_is 62 (decl_body cf ++ [63]) = true.
Proof.
  intros cf H. unfold decl_body, none_is in *. rewrite !forallb_app, H.
  assert (Hv : forallb (fun d => negb (d =? 62)) (ver_string (c_xml11 cf)) = true) by (destruct (c_xml11 cf); reflexivity).
  rewrite Hv. reflexivity.
Qed.

Lemma decl_fact : forall cf f body, c_decl cf = true -> none_is 62 (c_enc cf) = true ->
  parse_content (c_xml11 cf) (S f) (decl_of cf ++ body) = parse_content (c_xml11 cf) f body.
Proof.
  intros cf f body Hd He. rewrite (decl_shape cf body Hd). cbn [parse_content prefix_b skipn andb N.eqb Pos.eqb].
  rewrite (take_name_app [120; 109; 108] (32 :: decl_body cf ++ 63 :: 62 :: body) eq_refl eq_refl). cbv iota beta.
  assert (Es : skip_ws (32 :: decl_body cf ++ 63 :: 62 :: body) = decl_body cf ++ 63 :: 62 :: body) by reflexivity.
  rewrite Es. rewrite (scan2_app 63 62 (decl_body cf) body []) by (apply no2_none; apply decl_body_no_gt; exact He).
  reflexivity.
Qed.

Theorem tree_roundtrip : forall cf kids out fuel, c_fixed cf = true -> can_uniform (c_can cf) ->
  ser_doc cf kids = Ok out -> expressible_list cf kids = true -> in_scope_list cf kids = true ->
  (c_decl cf = true -> none_is 62 (c_enc cf) = true) -> (list_weight kids + 4 <= fuel)%nat ->
  reparse (c_xml11 cf) fuel out = Some (normalise cf kids).
Proof.
  intros cf kids out fuel Hf Hu Hs He Hg Hdecl Hfu. rewrite ser_doc_eq in Hs.
  destruct (ser_kids cf kids) as [body|] eqn:Eb; cbn [bind] in Hs; [|discriminate]. injection Hs as Hs. subst out.
  pose proof (kids_parse cf Hf Hu (lsize kids) kids (le_n _) body Eb He Hg [] [] [] 2
                (parses_base (c_xml11 cf) [] (or_introl eq_refl))) as HP.
  assert (Hbody : forall f', (2 + list_weight kids <= f')%nat ->
                  parse_content (c_xml11 cf) f' body = Some (normalise cf kids, [])).
  { intros f' Hf'. pose proof (HP [] [] (escof_nil _) f' Hf') as E. cbn [app] in E. rewrite !app_nil_r in E. exact E. }
  unfold reparse. destruct (c_decl cf) eqn:Ed.
  - destruct fuel as [|f]; [lia|]. rewrite (decl_fact cf f body Ed (Hdecl eq_refl)). rewrite Hbody by lia. reflexivity.
  - unfold decl_of. rewrite Ed. cbn [app]. rewrite Hbody by lia. reflexivity.
Qed.

(** the character data of a tree is not changed by [normalise] when nothing had to be split: a tree without
    CDATASection nodes, without adjacent or empty Text nodes is its own normal form -- shown on an example here,
    the general statement is [tree_roundtrip] *)
