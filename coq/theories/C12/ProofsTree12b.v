(** C12 tree-level lemmas, part b: escaped text under a continuation; the [Parses] framework. *)
From Coq Require Import ZArith ZifyBool ZifyN ZifyNat Lia.
From XV Require Import C05.Spec05 C05.Model05 C12.Spec12 C12.Model12 C12.SpecTree12
  C12.Proofs12a C12.Proofs12b C12.Proofs12c C12.ProofsTree12a.
Local Open Scope N_scope.

Definition kont (attr x : bool) (nb' : nat) (tail pre : list N) : option (list N) :=
  match unesc attr x (PText false nb') tail with Some t => Some (pre ++ t) | None => None end.

(** [roundtrip_gen] with something following the escaped string *)
Lemma roundtrip_k : forall attr m x can, mode_pair attr m -> can_uniform can ->
  forall n s, (length s <= n)%nat -> xml_string x s = true -> forall nb tail,
  exists nb', unesc attr x (PText false nb) (special16 in_escape_list can x m s ++ tail) = kont attr x nb' tail s.
Proof.
  intros attr m x can Hm Hu. unfold kont. induction n as [|n IH]; intros s Hn Hs nb tail.
  - destruct s; [|cbn [length] in Hn; lia]. exists nb. cbn [special16 app]. destruct (unesc attr x (PText false nb) tail); reflexivity.
  - destruct s as [|c r]; [exists nb; cbn [special16 app]; destruct (unesc attr x (PText false nb) tail); reflexivity|].
    cbn [length] in Hn.
    destruct (xml_string_cons x c r Hs) as [[Hb Hr]|[Hb [Hh [d [r' [Er [Hd Hr']]]]]]].
    + cbn [special16]. destruct (can c) eqn:Ec.
      * assert (Hl : lit_unit x c = true) by (unfold lit_unit; rewrite Hb; reflexivity).
        rewrite <- app_assoc.
        destruct (unesc_esc1 attr m x c nb (special16 in_escape_list can x m r ++ tail) Hm Hl) as [nb1 E].
        change (esc1_gen in_escape_list x m c) with (esc1 x m c). rewrite E.
        destruct (IH r ltac:(lia) Hr nb1 tail) as [nb' E2]. exists nb'. rewrite E2.
        destruct (unesc attr x (PText false nb') tail); reflexivity.
      * assert (Hh : is_high c = false).
        { destruct (ref_ok_bmp x c Hb) as [_ Hlt]. rewrite is_high_spec by exact Hlt.
          unfold bmp_char in Hb. unfold hi_sur. destruct x; lia. }
        rewrite Hh. destruct (ref_ok_bmp x c Hb) as [Hok Hlt]. rewrite <- app_assoc.
        rewrite unesc_charref; [|lia|exact Hok].
        destruct (IH r ltac:(lia) Hr 0%nat tail) as [nb' E2]. exists nb'. rewrite E2.
        rewrite utf16_enc_bmp by lia. destruct (unesc attr x (PText false nb') tail); reflexivity.
    + subst r. cbn [length] in Hn. destruct (hi_lo_bounds c d Hh Hd) as [Bc Bd].
      cbn [special16]. destruct (can c) eqn:Ec.
      * assert (Ed : can d = true) by (rewrite <- (Hu c d Hh Hd); exact Ec). rewrite Ed.
        assert (Hlc : lit_unit x c = true) by (unfold lit_unit; rewrite Hh; destruct (bmp_char x c); reflexivity).
        assert (Hld : lit_unit x d = true) by (unfold lit_unit; rewrite Hd; apply orb_true_r).
        change (esc1_gen in_escape_list x m c) with (esc1 x m c).
        change (esc1_gen in_escape_list x m d) with (esc1 x m d).
        rewrite <- !app_assoc.
        destruct (unesc_esc1 attr m x c nb (esc1 x m d ++ special16 in_escape_list can x m r' ++ tail) Hm Hlc) as [nb1 E1].
        rewrite E1.
        destruct (unesc_esc1 attr m x d nb1 (special16 in_escape_list can x m r' ++ tail) Hm Hld) as [nb2 E2].
        rewrite E2. destruct (IH r' ltac:(lia) Hr' nb2 tail) as [nb' E3]. exists nb'. rewrite E3.
        destruct (unesc attr x (PText false nb') tail); reflexivity.
      * assert (Hhi : is_high c = true) by (rewrite is_high_spec by lia; exact Hh).
        rewrite Hhi. destruct (comb_enc c d Hh Hd) as [Henc [Hok1 [Hok0 Hlt]]].
        assert (Hok : ref_ok x (comb c d) = true) by (destruct x; assumption).
        rewrite <- app_assoc. rewrite unesc_charref; [|exact Hlt|exact Hok].
        destruct (IH r' ltac:(lia) Hr' 0%nat tail) as [nb' E3]. exists nb'. rewrite E3, Henc.
        destruct (unesc attr x (PText false nb') tail); reflexivity.
Qed.

(** [eacc] is written character data that reads back as [acc], whatever follows *)
Definition EscOf (x : bool) (eacc acc : list N) : Prop :=
  none_is 60 eacc = true /\ (acc = [] -> eacc = []) /\
  forall nb tail, exists nb', unesc false x (PText false nb) (eacc ++ tail) = kont false x nb' tail acc.

Lemma escof_unescape : forall x eacc acc, EscOf x eacc acc -> unescape_parse false x eacc = Some acc.
Proof.
  intros x eacc acc [_ [_ H]]. destruct (H 0%nat []) as [nb' E]. unfold unescape_parse. rewrite app_nil_r in E.
  rewrite E. unfold kont. cbn [unesc]. rewrite app_nil_r. reflexivity.
Qed.

Lemma escof_nil_inv : forall x acc, EscOf x [] acc -> acc = [].
Proof.
  intros x acc H. pose proof (escof_unescape x [] acc H) as E. unfold unescape_parse in E. cbn [unesc] in E.
  injection E as E. symmetry. exact E.
Qed.

Lemma escof_nil : forall x, EscOf x [] [].
Proof.
  intros x. split; [reflexivity|]. split; [reflexivity|]. intros nb tail. exists nb. unfold kont. cbn [app].
  destruct (unesc false x (PText false nb) tail); reflexivity.
Qed.

Lemma escof_app : forall x e1 a1 e2 a2, EscOf x e1 a1 -> EscOf x e2 a2 -> EscOf x (e1 ++ e2) (a1 ++ a2).
Proof.
  intros x e1 a1 e2 a2 [N1 [Z1 K1]] [N2 [Z2 K2]]. split; [|split].
  - unfold none_is in *. rewrite forallb_app, N1, N2. reflexivity.
  - intros H. apply app_eq_nil in H. destruct H as [H1 H2]. rewrite (Z1 H1), (Z2 H2). reflexivity.
  - intros nb tail. rewrite <- app_assoc. destruct (K1 nb (e2 ++ tail)) as [nb1 E1]. rewrite E1. unfold kont.
    destruct (K2 nb1 tail) as [nb2 E2]. rewrite E2. exists nb2. unfold kont.
    destruct (unesc false x (PText false nb2) tail); [rewrite app_assoc|]; reflexivity.
Qed.

Lemma escof_of_kont : forall x e a, (a = [] -> e = []) ->
  (forall nb tail, exists nb', unesc false x (PText false nb) (e ++ tail) = kont false x nb' tail a) -> EscOf x e a.
Proof.
  intros x e a Z K. split; [|split; assumption].
  destruct (K 0%nat []) as [nb' E]. rewrite app_nil_r in E. unfold kont in E. cbn [unesc] in E.
  destruct (unesc_no_lt false x e (PText false 0) _ E) as [H _]. exact H.
Qed.

Lemma escof_text : forall x can s, can_uniform can -> xml_string x s = true ->
  EscOf x (format16 can x CharEscapes UnRep_CharRef s) s.
Proof.
  intros x can s Hu Hs. rewrite format16_charref. apply escof_of_kont.
  - intros E. subst s. reflexivity.
  - intros nb tail.
    apply (roundtrip_k false CharEscapes x can (or_introl (conj eq_refl eq_refl)) Hu (length s) s (le_n _) Hs).
Qed.

Lemma utf16_enc_nonempty : forall v, utf16_enc v <> [].
Proof. intros v. unfold utf16_enc. destruct (v <? 0x10000); discriminate. Qed.

Lemma escof_ref : forall x v, v < 4294967296 -> ref_ok x v = true -> EscOf x (charref v) (utf16_enc v).
Proof.
  intros x v Hv Hok. apply escof_of_kont.
  - intros E. destruct (utf16_enc_nonempty v E).
  - intros nb tail. exists 0%nat. rewrite unesc_charref by assumption. reflexivity.
Qed.

(* ------------------------------------------------------------------------------------------- *)
(** * [Parses S L rest w]: with any pending character data in front, [S] parses to the nodes [L] (the pending data
      joining a leading Text of [L]) and leaves [rest] *)

Definition Parses (x : bool) (S : list N) (L : list node) (rest : list N) (w : nat) : Prop :=
  forall acc eacc, EscOf x eacc acc -> forall fuel, (w <= fuel)%nat ->
  parse_content x fuel (eacc ++ S) = Some (merge_acc acc L, rest).

Definition rest_ok (rest : list N) : Prop := rest = [] \/ prefix_b [60; 47] rest = true.

Lemma parses_mono : forall x S L rest w w', Parses x S L rest w -> (w <= w')%nat -> Parses x S L rest w'.
Proof. intros x S L rest w w' H Hw acc eacc He fuel Hf. apply H; [exact He|lia]. Qed.

(** pending character data in front of markup (or of the end) is one Text node *)
Lemma pending : forall x eacc acc T f, EscOf x eacc acc -> starts_with_or_nil 60 T ->
  parse_content x (S f) (eacc ++ T) =
  match eacc with [] => parse_content x (S f) T | _ => pc_cons (Text acc) (parse_content x f T) end.
Proof.
  intros x eacc acc T f He HT. destruct eacc as [|e es]; [reflexivity|].
  pose proof He as [Hn _]. pose proof Hn as Hn'. unfold none_is in Hn'. cbn [forallb] in Hn'. apply andb_true_iff in Hn'.
  destruct Hn' as [He60 _]. destruct (N.eqb_spec e 60) as [E|Ne]; [discriminate|].
  assert (E60 : (60 =? e) = false) by (apply N.eqb_neq; intros E; apply Ne; symmetry; exact E).
  cbn [app parse_content prefix_b]. rewrite E60. cbn [andb].
  destruct (N.eqb_spec e 60) as [E|_]; [contradiction|].
  change (e :: es ++ T) with ((e :: es) ++ T). rewrite (span_until_app 60 (e :: es) T Hn HT).
  rewrite (escof_unescape x (e :: es) acc He). reflexivity.
Qed.

Lemma rest_ok_starts : forall rest, rest_ok rest -> starts_with_or_nil 60 rest.
Proof.
  intros rest [E|E]; [subst; exact I|]. destruct rest as [|c r]; [exact I|]. cbn [prefix_b] in E.
  apply andb_true_iff in E. destruct E as [E _]. apply N.eqb_eq in E. symmetry. exact E.
Qed.

Lemma parse_rest : forall x rest f, rest_ok rest -> parse_content x (S f) rest = Some ([], rest).
Proof.
  intros x rest f [E|E]; [subst; reflexivity|]. destruct rest as [|c r]; [reflexivity|].
  cbn [parse_content]. rewrite E. reflexivity.
Qed.

Lemma flushT_nonempty : forall x eacc acc, EscOf x eacc acc -> eacc <> [] -> flushT acc = [Text acc].
Proof.
  intros x eacc acc [_ [Z _]] Hne. destruct acc; [exfalso; apply Hne; apply Z; reflexivity|reflexivity].
Qed.

Lemma parses_base : forall x rest, rest_ok rest -> Parses x rest [] rest 2.
Proof.
  intros x rest Hr acc eacc He fuel Hf. destruct fuel as [|[|f]]; [lia|lia|].
  rewrite (pending x eacc acc rest (S f) He (rest_ok_starts rest Hr)). cbn [merge_acc].
  destruct eacc as [|e es].
  - rewrite (escof_nil_inv x acc He). apply parse_rest. exact Hr.
  - rewrite (parse_rest x rest f Hr). cbn [pc_cons]. rewrite (flushT_nonempty x (e :: es) acc He) by discriminate. reflexivity.
Qed.

Lemma parses_text : forall x S L rest w e a, EscOf x e a -> Parses x S L rest w -> Parses x (e ++ S) (Text a :: L) rest w.
Proof.
  intros x S L rest w e a He H acc eacc Hacc fuel Hf. rewrite app_assoc. cbn [merge_acc].
  apply H; [apply escof_app; assumption|exact Hf].
Qed.

(** a markup item [M] that parses to the single non-Text node [N] *)
Lemma parses_node : forall x M' N T L rest w k,
  (forall acc L', merge_acc acc (N :: L') = flushT acc ++ N :: merge_acc [] L') ->
  (forall f T', (k <= f)%nat -> parse_content x (S f) ((60 :: M') ++ T') = pc_cons N (parse_content x f T')) ->
  Parses x T L rest w -> Parses x ((60 :: M') ++ T) (N :: L) rest (w + k + 2).
Proof.
  intros x M' N T L rest w k Hm Hfact H acc eacc He fuel Hf.
  destruct fuel as [|[|f]]; [lia|lia|].
  rewrite (pending x eacc acc ((60 :: M') ++ T) (S f) He eq_refl). rewrite Hm.
  destruct eacc as [|e es].
  - rewrite (escof_nil_inv x acc He). rewrite Hfact by lia.
    pose proof (H [] [] (escof_nil x) (S f) ltac:(lia)) as HH. cbn [app] in HH. rewrite HH. reflexivity.
  - rewrite Hfact by lia. pose proof (H [] [] (escof_nil x) f ltac:(lia)) as HH. cbn [app] in HH. rewrite HH. cbn [pc_cons].
    rewrite (flushT_nonempty x (e :: es) acc He) by discriminate. reflexivity.
Qed.
