(** C12 tree-level lemmas, part c: what the scanner does on each kind of markup the serializer writes. *)
From Coq Require Import ZArith ZifyBool ZifyN ZifyNat Lia.
From XV Require Import C05.Spec05 C05.Model05 C12.Spec12 C12.Model12 C12.SpecTree12
  C12.Proofs12a C12.Proofs12b C12.Proofs12c C12.Proofs12d C12.Proofs12e C12.Proofs12f C12.ProofsTree12a C12.ProofsTree12b.
Local Open Scope N_scope.

Lemma gen_strings :
  ser_gStartComment = [60; 33; 45; 45] /\ ser_gEndComment = [45; 45; 62] /\
  ser_gStartCDATA = [60; 33; 91; 67; 68; 65; 84; 65; 91] /\ ser_gEndCDATA = [93; 93; 62] /\
  ser_gStartPI = [60; 63] /\ ser_gEndPI = [63; 62] /\ ser_gEndElement = [60; 47].
Proof. vm_compute. repeat split; reflexivity. Qed.

Ltac evalp := cbn [parse_content prefix_b skipn andb N.eqb Pos.eqb app].

Lemma comment_fact : forall x d f T', no2 45 45 (d ++ [45]) = true -> no_eol x d = true ->
  parse_content x (S f) ((60 :: [33; 45; 45] ++ d ++ [45; 45; 62]) ++ T') = pc_cons (Comment d) (parse_content x f T').
Proof.
  intros x d f T' H1 H2. cbn [app]. rewrite <- app_assoc. cbn [app]. evalp.
  rewrite scan2_app by exact H1. cbn [rev app N.eqb Pos.eqb]. rewrite norm_eol_id by exact H2. reflexivity.
Qed.

Lemma cdata_fact : forall x p f T', no_cdata_end p = true -> no_eol x p = true ->
  parse_content x (S f) ((60 :: [33; 91; 67; 68; 65; 84; 65; 91] ++ p ++ [93; 93; 62]) ++ T') =
  pc_cons (CData p) (parse_content x f T').
Proof.
  intros x p f T' H1 H2. cbn [app]. rewrite <- app_assoc. cbn [app]. evalp.
  rewrite scan_cdata_piece by (apply nce_app_brackets; exact H1). cbn [rev app]. rewrite norm_eol_id by exact H2. reflexivity.
Qed.

Lemma name_unit_facts : forall c, name_unit c = true ->
  (47 =? c) = false /\ (33 =? c) = false /\ (63 =? c) = false /\ (c =? 60) = false /\ (60 =? c) = false.
Proof. intros c H. unfold name_unit, is_ws in H. lia. Qed.

Lemma name_ok_inv : forall n, name_ok n = true -> exists c r, n = c :: r /\ name_unit c = true /\ forallb name_unit n = true.
Proof.
  intros [|c r] H; [discriminate|]. exists c, r. split; [reflexivity|]. unfold name_ok in H. split; [|exact H].
  cbn [forallb] in H. apply andb_true_iff in H. tauto.
Qed.

Lemma pi_fact : forall x t d f T', name_ok t = true -> list_eqb t xml_target = false ->
  no2 63 62 (d ++ [63]) = true -> no_eol x d = true ->
  match d with c :: _ => is_ws c = false | [] => True end ->
  parse_content x (S f) ((60 :: [63] ++ t ++ (match d with [] => [] | _ => 32 :: d end) ++ [63; 62]) ++ T') =
  pc_cons (PI t d) (parse_content x f T').
Proof.
  intros x t d f T' Ht Hx H1 H2 Hw. destruct (name_ok_inv t Ht) as [c [r [Et [Hc Hall]]]]. subst t.
  cbn [app]. rewrite <- !app_assoc. evalp.
  destruct d as [|d0 d'].
  - cbn [app]. change (c :: r ++ 63 :: 62 :: T') with ((c :: r) ++ 63 :: 62 :: T').
    rewrite (take_name_app (c :: r) (63 :: 62 :: T') Hall eq_refl). cbv iota beta.
    change (skip_ws (63 :: 62 :: T')) with (63 :: 62 :: T').
    pose proof (scan2_app 63 62 [] T' [] H1) as E. cbn [app rev] in E. rewrite E. rewrite Hx. reflexivity.
  - cbn [app]. change (c :: r ++ 32 :: d0 :: d' ++ 63 :: 62 :: T') with ((c :: r) ++ 32 :: d0 :: d' ++ 63 :: 62 :: T').
    rewrite (take_name_app (c :: r) (32 :: d0 :: d' ++ 63 :: 62 :: T') Hall eq_refl). cbv iota beta.
    assert (Es : skip_ws (32 :: d0 :: d' ++ 63 :: 62 :: T') = (d0 :: d') ++ 63 :: 62 :: T').
    { cbn [skip_ws]. change (is_ws 32) with true. cbv iota. cbn [skip_ws]. rewrite Hw. reflexivity. }
    rewrite Es. pose proof (scan2_app 63 62 (d0 :: d') T' [] H1) as E. cbn [rev] in E. rewrite E. cbn [app].
    rewrite Hx, norm_eol_id by exact H2. reflexivity.
Qed.
