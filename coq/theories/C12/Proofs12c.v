(** C12 lemmas, part c: escaping followed by the specification parser is the identity
    (text with CharEscapes, attribute values with AttrEscapes; XML 1.0 and 1.1; any canTranscodeTo). *)
From Coq Require Import ZArith ZifyBool ZifyN ZifyNat Lia.
From XV Require Import C05.Spec05 C05.Model05 C12.Spec12 C12.Model12 C12.Proofs12a C12.Proofs12b.
Local Open Scope N_scope.

(** obligations over the generated rows: which characters each mode protects *)
Lemma char_row_eq : zprefix (esc_row CharEscapes) = [38; 60; 62; 13].
Proof. vm_compute. reflexivity. Qed.
Lemma attr_row_eq : zprefix (esc_row AttrEscapes) = [38; 60; 34; 10; 13; 9].
Proof. vm_compute. reflexivity. Qed.
Lemma std_row_eq : zprefix (esc_row StdEscapes) = [38; 62; 34; 60; 39].
Proof. vm_compute. reflexivity. Qed.
Lemma no_row_eq : zprefix (esc_row NoEscapes) = [].
Proof. vm_compute. reflexivity. Qed.

Lemma char_row : forall c, in_zlist (esc_row CharEscapes) c = true <-> (c = 38 \/ c = 60 \/ c = 62 \/ c = 13).
Proof. intros c. rewrite in_zlist_spec, char_row_eq. cbn [In]. lia. Qed.
Lemma attr_row : forall c, in_zlist (esc_row AttrEscapes) c = true <->
  (c = 38 \/ c = 60 \/ c = 34 \/ c = 10 \/ c = 13 \/ c = 9).
Proof. intros c. rewrite in_zlist_spec, attr_row_eq. cbn [In]. lia. Qed.

(** the named references of the switch *)
Lemma esc_ref_named :
  esc_ref 38 = [38; 97; 109; 112; 59] /\ esc_ref 60 = [38; 108; 116; 59] /\ esc_ref 62 = [38; 103; 116; 59] /\
  esc_ref 34 = [38; 113; 117; 111; 116; 59] /\ esc_ref 39 = [38; 97; 112; 111; 115; 59].
Proof. vm_compute. repeat split. Qed.

Lemma esc_ref_other : forall c, c <> 38 -> c <> 60 -> c <> 62 -> c <> 34 -> c <> 39 -> esc_ref c = charref c.
Proof.
  intros c H1 H2 H3 H4 H5. unfold esc_ref.
  change esc_switch with [(38, gAmpRef); (39, gAposRef); (34, gQuoteRef); (62, gGTRef); (60, gLTRef)].
  cbn [find fst snd].
  rewrite (proj2 (N.eqb_neq 38 c)) by lia. rewrite (proj2 (N.eqb_neq 39 c)) by lia.
  rewrite (proj2 (N.eqb_neq 34 c)) by lia. rewrite (proj2 (N.eqb_neq 62 c)) by lia.
  rewrite (proj2 (N.eqb_neq 60 c)) by lia. reflexivity.
Qed.

Ltac stepk :=
  cbn [unesc app];
  match goal with
  | |- context [step ?a ?x ?st ?c] =>
    let r := eval vm_compute in (step a x st c) in change (step a x st c) with r
  end; cbv beta iota.

Lemma unesc_named : forall attr x cr nb c rest, (c = 38 \/ c = 60 \/ c = 62 \/ c = 34 \/ c = 39) ->
  unesc attr x (PText cr nb) (esc_ref c ++ rest) =
  match unesc attr x (PText false 0) rest with Some t => Some (c :: t) | None => None end.
Proof.
  intros attr x cr nb c rest Hc. destruct esc_ref_named as [E1 [E2 [E3 [E4 E5]]]].
  destruct Hc as [Hc|[Hc|[Hc|[Hc|Hc]]]]; subst c.
  - rewrite E1. do 5 stepk. destruct (unesc attr x (PText false 0) rest); reflexivity.
  - rewrite E2. do 4 stepk. destruct (unesc attr x (PText false 0) rest); reflexivity.
  - rewrite E3. do 4 stepk. destruct (unesc attr x (PText false 0) rest); reflexivity.
  - rewrite E4. do 6 stepk. destruct (unesc attr x (PText false 0) rest); reflexivity.
  - rewrite E5. do 6 stepk. destruct (unesc attr x (PText false 0) rest); reflexivity.
Qed.

Lemma ref_ok_bmp : forall x c, bmp_char x c = true -> ref_ok x c = true /\ c < 65536.
Proof. intros x c. unfold bmp_char, ref_ok. destruct x; lia. Qed.

(** an escaped BMP character is read back as itself *)
Lemma unesc_escaped : forall attr x cr nb c rest, bmp_char x c = true ->
  unesc attr x (PText cr nb) (esc_ref c ++ rest) =
  match unesc attr x (PText false 0) rest with Some t => Some (c :: t) | None => None end.
Proof.
  intros attr x cr nb c rest Hb.
  destruct (N.eq_dec c 38) as [E|N1]; [apply unesc_named; tauto|].
  destruct (N.eq_dec c 60) as [E|N2]; [apply unesc_named; tauto|].
  destruct (N.eq_dec c 62) as [E|N3]; [apply unesc_named; tauto|].
  destruct (N.eq_dec c 34) as [E|N4]; [apply unesc_named; tauto|].
  destruct (N.eq_dec c 39) as [E|N5]; [apply unesc_named; tauto|].
  rewrite esc_ref_other by assumption. destruct (ref_ok_bmp x c Hb) as [Hok Hlt].
  rewrite unesc_charref; [|lia|exact Hok]. rewrite utf16_enc_bmp by lia. reflexivity.
Qed.

(** units that may be part of a string of XML characters *)
Definition lit_unit (x : bool) (c : N) : bool := bmp_char x c || hi_sur c || lo_sur c.

Ltac split_ifs :=
  repeat match goal with
         | |- context [if ?b then _ else _] => let E := fresh "E" in destruct b eqn:E
         end.

Ltac finish_lit c :=
  first [ eexists; reflexivity
        | exfalso; lia
        | assert (c = 10) by lia; subst c; eexists; reflexivity
        | assert (c = 9) by lia; subst c; eexists; reflexivity ].

Lemma step_lit_text : forall x c nb, lit_unit x c = true -> in_escape_list x CharEscapes c = false ->
  exists nb', step false x (PText false nb) c = Some (PText false nb', [c]).
Proof.
  intros x c nb Hl He. unfold in_escape_list in He. apply orb_false_iff in He. destruct He as [Hr Hx].
  assert (Hrow : ~ (c = 38 \/ c = 60 \/ c = 62 \/ c = 13)) by (rewrite <- char_row, Hr; discriminate).
  clear Hr. unfold is_control11, is_ws11 in Hx. unfold lit_unit, bmp_char, hi_sur, lo_sur in Hl.
  unfold step, lit_ok. destruct x; cbn [andb negb orb] in *; cbv beta iota; split_ifs; finish_lit c.
Qed.

Lemma step_lit_attr : forall x c nb, lit_unit x c = true -> in_escape_list x AttrEscapes c = false ->
  exists nb', step true x (PText false nb) c = Some (PText false nb', [c]).
Proof.
  intros x c nb Hl He. unfold in_escape_list in He. apply orb_false_iff in He. destruct He as [Hr Hx].
  assert (Hrow : ~ (c = 38 \/ c = 60 \/ c = 34 \/ c = 10 \/ c = 13 \/ c = 9)) by (rewrite <- attr_row, Hr; discriminate).
  clear Hr. unfold is_control11, is_ws11 in Hx. unfold lit_unit, bmp_char, hi_sur, lo_sur in Hl.
  unfold step, lit_ok. destruct x; cbn [andb negb orb] in *; cbv beta iota; split_ifs; finish_lit c.
Qed.

Definition mode_pair (attr : bool) (m : emode) : Prop :=
  (attr = false /\ m = CharEscapes) \/ (attr = true /\ m = AttrEscapes).

Lemma step_lit : forall attr m x c nb, mode_pair attr m -> lit_unit x c = true -> in_escape_list x m c = false ->
  exists nb', step attr x (PText false nb) c = Some (PText false nb', [c]).
Proof.
  intros attr m x c nb [[Ha Hm]|[Ha Hm]] Hl He; subst.
  - apply step_lit_text; assumption.
  - apply step_lit_attr; assumption.
Qed.

(** surrogate units are never in an escape list *)
Lemma surrogate_not_escaped : forall attr m x c, mode_pair attr m -> (hi_sur c || lo_sur c) = true ->
  in_escape_list x m c = false.
Proof.
  intros attr m x c Hm Hs. unfold in_escape_list. apply orb_false_iff. unfold hi_sur, lo_sur in Hs. split.
  - destruct Hm as [[_ Hm]|[_ Hm]]; subst m.
    + destruct (in_zlist (esc_row CharEscapes) c) eqn:E; [|reflexivity]. apply char_row in E. lia.
    + destruct (in_zlist (esc_row AttrEscapes) c) eqn:E; [|reflexivity]. apply attr_row in E. lia.
  - unfold is_control11, is_ws11. destruct x; lia.
Qed.

(** one unit that goes through formatBuf(UnRep_Fail): escaped or literal, it is read back *)
Lemma unesc_esc1 : forall attr m x c nb rest, mode_pair attr m -> lit_unit x c = true ->
  exists nb',
  unesc attr x (PText false nb) (esc1 x m c ++ rest) =
  match unesc attr x (PText false nb') rest with Some t => Some (c :: t) | None => None end.
Proof.
  intros attr m x c nb rest Hm Hl. unfold esc1, esc1_gen.
  assert (Hne : m <> NoEscapes) by (destruct Hm as [[_ H]|[_ H]]; subst; discriminate).
  destruct (in_escape_list x m c) eqn:E.
  - exists 0%nat.
    assert (Hb : bmp_char x c = true).
    { unfold lit_unit in Hl. destruct (bmp_char x c); [reflexivity|]. cbn [orb] in Hl.
      rewrite (surrogate_not_escaped attr m x c Hm Hl) in E. discriminate. }
    destruct m; [contradiction| | |]; apply unesc_escaped; exact Hb.
  - destruct (step_lit attr m x c nb Hm Hl E) as [nb' Hs]. exists nb'.
    destruct m; [contradiction| | |]; cbn [app unesc]; rewrite Hs; cbn [app];
      destruct (unesc attr x (PText false nb') rest); reflexivity.
Qed.

(** canTranscodeTo does not separate the two halves of a pair *)
Definition can_uniform (can : N -> bool) : Prop :=
  forall c d, hi_sur c = true -> lo_sur d = true -> can c = can d.

Lemma xml_string_cons : forall x c r, xml_string x (c :: r) = true ->
  (bmp_char x c = true /\ xml_string x r = true) \/
  (bmp_char x c = false /\ hi_sur c = true /\ exists d r', r = d :: r' /\ lo_sur d = true /\ xml_string x r' = true).
Proof.
  intros x c r H. cbn [xml_string] in H. destruct (bmp_char x c); [left; split; [reflexivity|exact H]|].
  right. destruct (hi_sur c); [|discriminate]. split; [reflexivity|]. split; [reflexivity|].
  destruct r as [|d r']; [discriminate|]. apply andb_true_iff in H. destruct H as [H1 H2].
  exists d, r'. repeat split; assumption.
Qed.

Lemma roundtrip_gen : forall attr m x can, mode_pair attr m -> can_uniform can ->
  forall n s, (length s <= n)%nat -> xml_string x s = true -> forall nb,
  unesc attr x (PText false nb) (special16 in_escape_list can x m s) = Some s.
Proof.
  intros attr m x can Hm Hu. induction n as [|n IH]; intros s Hn Hs nb.
  - destruct s; [reflexivity|cbn [length] in Hn; lia].
  - destruct s as [|c r]; [reflexivity|]. cbn [length] in Hn.
    destruct (xml_string_cons x c r Hs) as [[Hb Hr]|[Hb [Hh [d [r' [Er [Hd Hr']]]]]]].
    + (* a BMP character *)
      cbn [special16]. destruct (can c) eqn:Ec.
      * assert (Hl : lit_unit x c = true) by (unfold lit_unit; rewrite Hb; reflexivity).
        destruct (unesc_esc1 attr m x c nb (special16 in_escape_list can x m r) Hm Hl) as [nb' E].
        change (esc1_gen in_escape_list x m c) with (esc1 x m c). rewrite E, (IH r) by (lia || assumption). reflexivity.
      * assert (Hh : is_high c = false).
        { destruct (ref_ok_bmp x c Hb) as [_ Hlt]. rewrite is_high_spec by exact Hlt.
          unfold bmp_char in Hb. unfold hi_sur. destruct x; lia. }
        rewrite Hh. destruct (ref_ok_bmp x c Hb) as [Hok Hlt].
        rewrite unesc_charref; [|lia|exact Hok]. rewrite (IH r) by (lia || assumption).
        rewrite utf16_enc_bmp by lia. reflexivity.
    + (* a surrogate pair *)
      subst r. cbn [length] in Hn. destruct (hi_lo_bounds c d Hh Hd) as [Bc Bd].
      cbn [special16]. destruct (can c) eqn:Ec.
      * assert (Ed : can d = true) by (rewrite <- (Hu c d Hh Hd); exact Ec). rewrite Ed.
        assert (Hlc : lit_unit x c = true) by (unfold lit_unit; rewrite Hh; destruct (bmp_char x c); reflexivity).
        assert (Hld : lit_unit x d = true) by (unfold lit_unit; rewrite Hd; apply orb_true_r).
        change (esc1_gen in_escape_list x m c) with (esc1 x m c).
        change (esc1_gen in_escape_list x m d) with (esc1 x m d).
        destruct (unesc_esc1 attr m x c nb (esc1 x m d ++ special16 in_escape_list can x m r') Hm Hlc) as [nb1 E1].
        rewrite E1.
        destruct (unesc_esc1 attr m x d nb1 (special16 in_escape_list can x m r') Hm Hld) as [nb2 E2].
        rewrite E2, (IH r') by (lia || assumption). reflexivity.
      * assert (Hhi : is_high c = true) by (rewrite is_high_spec by lia; exact Hh).
        rewrite Hhi. destruct (comb_enc c d Hh Hd) as [Henc [Hok1 [Hok0 Hlt]]].
        assert (Hok : ref_ok x (comb c d) = true) by (destruct x; assumption).
        rewrite unesc_charref; [|exact Hlt|exact Hok]. rewrite (IH r') by (lia || assumption).
        rewrite Henc. reflexivity.
Qed.

Lemma roundtrip_text : forall x can s, can_uniform can -> xml_string x s = true ->
  unescape_parse false x (format16 can x CharEscapes UnRep_CharRef s) = Some s.
Proof.
  intros x can s Hu Hs. rewrite format16_charref. unfold unescape_parse.
  apply (roundtrip_gen false CharEscapes x can (or_introl (conj eq_refl eq_refl)) Hu (length s) s (le_n _) Hs).
Qed.

Lemma roundtrip_attr : forall x can s, can_uniform can -> xml_string x s = true ->
  unescape_parse true x (format16 can x AttrEscapes UnRep_CharRef s) = Some s.
Proof.
  intros x can s Hu Hs. rewrite format16_charref. unfold unescape_parse.
  apply (roundtrip_gen true AttrEscapes x can (or_intror (conj eq_refl eq_refl)) Hu (length s) s (le_n _) Hs).
Qed.

(** the five modelled encodings satisfy the hypothesis on canTranscodeTo *)
Lemma win1252_sur_sweep :
  forallb (fun h => forallb (fun l => negb (tab_can win1252_to win1252_tosz (0xD800 + 1024 * h + l))) (nrange 1024)) (nrange 2) = true.
Proof. vm_compute. reflexivity. Qed.

Lemma enc_can_uniform : forall e, can_uniform (enc_can e).
Proof.
  intros e c d Hc Hd. destruct (hi_lo_bounds c d Hc Hd) as [Bc Bd]. destruct e; cbn [enc_can].
  - unfold x8_can. lia.
  - unfold id_can. lia.
  - unfold id_can. lia.
  - assert (F : forall u, 0xD800 <= u <= 0xDFFF -> tab_can win1252_to win1252_tosz u = false).
    { intros u Hu. pose proof win1252_sur_sweep as H. rewrite forallb_forall in H.
      assert (Hh : In ((u - 0xD800) / 1024) (nrange 2)) by (apply nrange_in; change (N.of_nat 2) with 2; lia).
      specialize (H _ Hh). rewrite forallb_forall in H.
      assert (Hl : In ((u - 0xD800) mod 1024) (nrange 1024)) by (apply nrange_in; change (N.of_nat 1024) with 1024; lia).
      specialize (H _ Hl).
      replace (0xD800 + 1024 * ((u - 0xD800) / 1024) + (u - 0xD800) mod 1024) with u in H by lia.
      destruct (tab_can win1252_to win1252_tosz u); [discriminate|reflexivity]. }
    rewrite (F c), (F d) by lia. reflexivity.
  - reflexivity.
Qed.
