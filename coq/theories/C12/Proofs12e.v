(** C12 lemmas, part e: no CDATA section written by the repaired procCdataSection contains "]]>". *)
From Coq Require Import ZArith ZifyBool ZifyN ZifyNat Lia.
From XV Require Import C05.Spec05 C05.Model05 C12.Spec12 C12.Model12 C12.Proofs12a C12.Proofs12d.
Local Open Scope N_scope.

Definition m3 (a b c : N) : bool := (a =? 93) && (b =? 93) && (c =? 62).

Lemma nce_cons3 : forall a b c r,
  no_cdata_end (a :: b :: c :: r) = negb (m3 a b c) && no_cdata_end (b :: c :: r).
Proof. reflexivity. Qed.

Lemma nce_short : forall l, (length l <= 2)%nat -> no_cdata_end l = true.
Proof.
  intros [|a [|b [|c r]]] H; try reflexivity. cbn [length] in H. lia.
Qed.

(** does [l ++ [x]] end in "]]>" *)
Definition ends2 (l : list N) (x : N) : bool :=
  match rev l with b :: a :: _ => m3 a b x | _ => false end.

Lemma ends2_cons : forall a L x, (2 <= length L)%nat -> ends2 (a :: L) x = ends2 L x.
Proof.
  intros a L x H. unfold ends2. cbn [rev]. pose proof (rev_length L) as E.
  destruct (rev L) as [|p [|q t]]; cbn [length] in E; try lia. reflexivity.
Qed.

Lemma nce_snoc : forall l x, no_cdata_end (l ++ [x]) = no_cdata_end l && negb (ends2 l x).
Proof.
  induction l as [|a l1 IH]; intros x; [reflexivity|].
  destruct l1 as [|b l2]; [reflexivity|].
  destruct l2 as [|c l3].
  - cbn [app]. rewrite nce_cons3. unfold ends2. cbn [rev app].
    rewrite (nce_short [b; x]) by (cbn [length]; lia). rewrite (nce_short [a; b]) by (cbn [length]; lia).
    rewrite andb_true_r. reflexivity.
  - change ((a :: b :: c :: l3) ++ [x]) with (a :: b :: c :: (l3 ++ [x])).
    rewrite !nce_cons3. change (b :: c :: l3 ++ [x]) with ((b :: c :: l3) ++ [x]). rewrite IH.
    rewrite (ends2_cons a (b :: c :: l3) x) by (cbn [length]; lia). rewrite andb_assoc. reflexivity.
Qed.

(** the piece under construction together with two units of look-ahead is free of "]]>" *)
Definition safe (cur s : list N) : Prop := no_cdata_end (rev cur ++ firstn 2 s) = true.

Lemma safe_step : forall a r cur, safe cur (a :: r) ->
  (forall b c r2, r = b :: c :: r2 -> m3 a b c = false) -> safe (a :: cur) r.
Proof.
  intros a r cur Hs Hm. unfold safe in *. cbn [rev]. destruct r as [|b [|c r2]].
  - cbn [firstn app] in *. rewrite app_nil_r. exact Hs.
  - cbn [firstn] in *. rewrite <- app_assoc. exact Hs.
  - cbn [firstn] in *. rewrite <- app_assoc. cbn [app].
    change (rev cur ++ [a; b; c]) with (rev cur ++ [a; b] ++ [c]). rewrite app_assoc, nce_snoc, Hs.
    unfold ends2. rewrite rev_app_distr. cbn [rev app]. rewrite (Hm b c r2 eq_refl). reflexivity.
Qed.

Lemma pieces_safe : forall n s, (length s <= n)%nat -> forall cur, safe cur s ->
  Forall (fun p => no_cdata_end p = true) (cdata_pieces s cur).
Proof.
  induction n as [|n IH]; intros s Hn cur Hs.
  - destruct s; [|cbn [length] in Hn; lia]. cbn [cdata_pieces]. constructor; [|constructor].
    unfold safe in Hs. cbn [firstn] in Hs. rewrite app_nil_r in Hs. exact Hs.
  - destruct s as [|a r].
    + cbn [cdata_pieces]. constructor; [|constructor].
      unfold safe in Hs. cbn [firstn] in Hs. rewrite app_nil_r in Hs. exact Hs.
    + cbn [length] in Hn. cbn [cdata_pieces]. destruct r as [|b [|c r2]].
      * apply IH; [cbn [length] in *; lia|]. apply safe_step; [exact Hs|]. intros; discriminate.
      * apply IH; [cbn [length] in *; lia|]. apply safe_step; [exact Hs|]. intros; discriminate.
      * cbn [length] in Hn. fold (m3 a b c). destruct (m3 a b c) eqn:E.
        -- constructor.
           ++ unfold safe in Hs. cbn [firstn] in Hs. cbn [rev]. rewrite <- app_assoc. exact Hs.
           ++ apply IH; [cbn [length] in *; lia|]. unfold safe. cbn [rev app]. apply nce_short.
              rewrite firstn_length. lia.
        -- apply IH; [cbn [length] in *; lia|]. apply safe_step; [exact Hs|].
           intros b' c' r2' Er. inversion Er; subst. exact E.
Qed.

Lemma cdata_sections : forall can s, forallb can s = true ->
  forall it, In it (cdata_items can s) -> match it with CSect l => no_cdata_end l = true | CRef _ => True end.
Proof.
  intros can s H it Hin. unfold cdata_items in Hin. destruct s as [|a r].
  - destruct Hin as [E|[]]. subst it. reflexivity.
  - apply in_flat_map in Hin. destruct Hin as [p [Hp Hit]].
    assert (Hsafe : safe [] (a :: r)) by (unfold safe; cbn [rev app]; apply nce_short; rewrite firstn_length; lia).
    pose proof (pieces_safe (length (a :: r)) (a :: r) (le_n _) [] Hsafe) as HF.
    rewrite Forall_forall in HF. specialize (HF p Hp).
    pose proof (cdata_pieces_concat (length (a :: r)) (a :: r) (le_n _) []) as Ec. cbn [rev app] in Ec.
    assert (Hcan : forallb can p = true).
    { apply (forallb_concat can (cdata_pieces (a :: r) [])); [rewrite Ec; exact H|exact Hp]. }
    rewrite cd_items_all_can in Hit by exact Hcan. rewrite app_nil_r in Hit. unfold csect in Hit.
    destruct (rev p) as [|z t] eqn:E; [destruct Hit|].
    destruct Hit as [Hit|[]]. subst it. rewrite <- E, rev_involutive. exact HF.
Qed.

(* ------------------------------------------------------------------------------------------- *)
(** * the specification parser reads the written sections back *)

Lemma nce_app_brackets : forall p, no_cdata_end p = true -> no_cdata_end (p ++ [93; 93]) = true.
Proof.
  intros p H. change (p ++ [93; 93]) with (p ++ [93] ++ [93]). rewrite app_assoc, !nce_snoc, H.
  assert (F : forall l, ends2 l 93 = false).
  { intros l. unfold ends2. destruct (rev l) as [|b [|a t]]; try reflexivity.
    unfold m3. rewrite andb_false_r. reflexivity. }
  rewrite !F. reflexivity.
Qed.

Lemma scan_cdata_piece : forall p acc rest, no_cdata_end (p ++ [93; 93]) = true ->
  scan_cdata (p ++ 93 :: 93 :: 62 :: rest) acc = Some (rev acc ++ p, rest).
Proof.
  induction p as [|a p IH]; intros acc rest H.
  - cbn [app scan_cdata]. rewrite app_nil_r. reflexivity.
  - assert (Hstep : scan_cdata ((a :: p) ++ 93 :: 93 :: 62 :: rest) acc =
                    scan_cdata (p ++ 93 :: 93 :: 62 :: rest) (a :: acc)).
    { destruct p as [|b [|c p2]].
      - cbn [app] in *. rewrite nce_cons3 in H. apply andb_true_iff in H. destruct H as [H1 _].
        cbn [scan_cdata]. fold (m3 a 93 93). destruct (m3 a 93 93); [discriminate|reflexivity].
      - cbn [app] in *. rewrite nce_cons3 in H. apply andb_true_iff in H. destruct H as [H1 _].
        cbn [scan_cdata]. fold (m3 a b 93). destruct (m3 a b 93); [discriminate|reflexivity].
      - cbn [app] in *. rewrite nce_cons3 in H. apply andb_true_iff in H. destruct H as [H1 _].
        cbn [scan_cdata]. fold (m3 a b c). destruct (m3 a b c); [discriminate|reflexivity]. }
    rewrite Hstep, IH.
    + cbn [rev]. rewrite <- app_assoc. reflexivity.
    + destruct p as [|b [|c p2]]; cbn [app] in *; try (apply nce_short; cbn [length]; lia).
      * rewrite nce_cons3 in H. apply andb_true_iff in H. destruct H as [_ H2]. exact H2.
      * rewrite nce_cons3 in H. apply andb_true_iff in H. destruct H as [_ H2]. exact H2.
Qed.

Lemma parse_one : forall f p rest, no_cdata_end p = true ->
  parse_sections (S f) (citem_out (CSect p) ++ rest) =
  match parse_sections f rest with Some u => Some (p ++ u) | None => None end.
Proof.
  intros f p rest Hp. unfold citem_out.
  change ser_gStartCDATA with [60; 33; 91; 67; 68; 65; 84; 65; 91]. change ser_gEndCDATA with [93; 93; 62].
  rewrite <- !app_assoc. cbn [app]. cbn [parse_sections firstn skipn list_eqb]. rewrite !N.eqb_refl. cbn [andb].
  rewrite scan_cdata_piece by (apply nce_app_brackets; exact Hp). cbn [rev app]. reflexivity.
Qed.

Lemma parse_sections_pieces : forall l fuel, (length l <= fuel)%nat ->
  Forall (fun p => no_cdata_end p = true) l ->
  parse_sections fuel (flat_map citem_out (map CSect l)) = Some (concat l).
Proof.
  induction l as [|p l IH]; intros fuel Hf HF.
  - destruct fuel; reflexivity.
  - inversion HF as [|p' l' Hp Hl]; subst. destruct fuel as [|f]; [cbn [length] in Hf; lia|].
    cbn [map flat_map]. rewrite parse_one by exact Hp.
    rewrite IH; [reflexivity|cbn [length] in Hf; lia|exact Hl].
Qed.

(** all units representable: the items of a non-empty CDATASection are its non-empty pieces, one section each *)
Lemma items_are_pieces : forall can l, (forall p, In p l -> forallb can p = true) ->
  flat_map (fun p => cd_items can p []) l = map CSect (filter (fun p => match p with [] => false | _ => true end) l).
Proof.
  intros can. induction l as [|p l IH]; intros H; [reflexivity|].
  cbn [flat_map filter]. rewrite IH by (intros q Hq; apply H; right; exact Hq).
  rewrite cd_items_all_can by (apply H; left; reflexivity). rewrite app_nil_r.
  destruct p as [|a p']; [reflexivity|].
  unfold csect. destruct (rev (a :: p')) as [|z t] eqn:E.
  - apply (f_equal (@length N)) in E. rewrite rev_length in E. discriminate.
  - rewrite <- E, rev_involutive. reflexivity.
Qed.

Lemma concat_filter_nonempty : forall (l : list (list N)),
  concat (filter (fun p => match p with [] => false | _ => true end) l) = concat l.
Proof.
  induction l as [|p l IH]; [reflexivity|]. cbn [filter concat]. destruct p; [exact IH|]. cbn [concat]. rewrite IH. reflexivity.
Qed.

Lemma cdata_reparse : forall can s, forallb can s = true ->
  parse_sections (S (length s)) (flat_map citem_out (cdata_items can s)) = Some s.
Proof.
  intros can s H. unfold cdata_items. destruct s as [|a r].
  - change (flat_map citem_out [CSect []]) with (citem_out (CSect []) ++ []).
    rewrite parse_one by reflexivity. reflexivity.
  - set (s := a :: r) in *.
    pose proof (cdata_pieces_concat (length s) s (le_n _) []) as Ec. cbn [rev app] in Ec.
    assert (Hsafe : safe [] s) by (unfold safe; cbn [rev app]; apply nce_short; rewrite firstn_length; lia).
    pose proof (pieces_safe (length s) s (le_n _) [] Hsafe) as HF.
    assert (Hcan : forall p, In p (cdata_pieces s []) -> forallb can p = true).
    { intros p Hp. apply (forallb_concat can (cdata_pieces s [])); [rewrite Ec; exact H|exact Hp]. }
    rewrite items_are_pieces by exact Hcan.
    set (l := filter (fun p => match p with [] => false | _ => true end) (cdata_pieces s [])).
    assert (HFl : Forall (fun p => no_cdata_end p = true) l).
    { apply Forall_forall. intros p Hp. unfold l in Hp. apply filter_In in Hp. destruct Hp as [Hp _].
      rewrite Forall_forall in HF. apply HF. exact Hp. }
    assert (Hcl : concat l = s) by (unfold l; rewrite concat_filter_nonempty; exact Ec).
    assert (Hlen : (length l <= S (length s))%nat).
    { (* every piece in l is non-empty, so there are at most |concat l| of them *)
      assert (G : forall (m : list (list N)), Forall (fun p => p <> []) m -> (length m <= length (concat m))%nat).
      { induction m as [|q m IHm]; intros Hm; [cbn; lia|]. inversion Hm; subst. cbn [length concat].
        rewrite app_length. destruct q; [contradiction|]. cbn [length]. specialize (IHm H3). lia. }
      assert (Hne : Forall (fun p => p <> []) l).
      { apply Forall_forall. intros p Hp. unfold l in Hp. apply filter_In in Hp. destruct Hp as [_ Hp].
        destruct p; [discriminate|discriminate]. }
      specialize (G l Hne). rewrite Hcl in G. lia. }
    rewrite parse_sections_pieces by assumption. rewrite Hcl. reflexivity.
Qed.
