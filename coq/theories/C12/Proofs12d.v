(** C12 lemmas, part d: unrepresentable characters, CDATA splitting, idempotence, and the statements that
    refute the unrepaired behaviour. *)
From Coq Require Import ZArith ZifyBool ZifyN ZifyNat Lia.
From XV Require Import C05.Spec05 C05.Model05 C12.Spec12 C12.Model12 C12.Proofs12a C12.Proofs12b C12.Proofs12c.
Local Open Scope N_scope.

(* ------------------------------------------------------------------------------------------- *)
(** * T12_unrep *)

(** canTranscodeTo lifted to code points: a supplementary character is judged by its surrogates *)
Definition canp (can : N -> bool) (cp : N) : bool := if cp <? 0x10000 then can cp else can 0xD800.

Definition xml_cp (x : bool) (cp : N) : bool := ref_ok x cp.

Lemma utf16_enc_supp : forall cp, 0x10000 <= cp <= 0x10FFFF ->
  exists c d, utf16_enc cp = [c; d] /\ hi_sur c = true /\ lo_sur d = true /\ comb c d = cp.
Proof.
  intros cp H. unfold utf16_enc. destruct (N.ltb_spec cp 0x10000); [lia|].
  exists (0xD800 + (cp - 0x10000) / 1024), (0xDC00 + (cp - 0x10000) mod 1024).
  assert (Hq : (cp - 0x10000) / 1024 < 1024) by (apply N.div_lt_upper_bound; lia).
  assert (Hm : (cp - 0x10000) mod 1024 < 1024) by (apply N.mod_lt; lia).
  assert (Hh : hi_sur (0xD800 + (cp - 0x10000) / 1024) = true) by (unfold hi_sur; lia).
  assert (Hl : lo_sur (0xDC00 + (cp - 0x10000) mod 1024) = true) by (unfold lo_sur; lia).
  repeat split; try assumption.
  rewrite comb_spec by assumption.
  pose proof (N.div_mod (cp - 0x10000) 1024 ltac:(lia)) as E. lia.
Qed.

Lemma unrep_gen : forall x can m, can_uniform can -> forall cps, forallb (xml_cp x) cps = true ->
  special16 in_escape_list can x m (flat_map utf16_enc cps) =
  flat_map (fun cp => if canp can cp then flat_map (esc1 x m) (utf16_enc cp) else charref cp) cps.
Proof.
  intros x can m Hu. induction cps as [|cp r IH]; intros H; [reflexivity|].
  cbn [forallb] in H. apply andb_true_iff in H. destruct H as [Hc Hr].
  cbn [flat_map]. unfold canp at 1. destruct (N.ltb_spec cp 0x10000) as [Hlt|Hge].
  - rewrite utf16_enc_bmp by exact Hlt. cbn [app special16 flat_map]. rewrite app_nil_r.
    destruct (can cp) eqn:Ec.
    + rewrite IH by exact Hr. reflexivity.
    + assert (Hh : is_high cp = false).
      { rewrite is_high_spec by lia. unfold xml_cp, ref_ok in Hc. unfold hi_sur. destruct x; lia. }
      rewrite Hh, IH by exact Hr. reflexivity.
  - assert (Hrange : 0x10000 <= cp <= 0x10FFFF) by (unfold xml_cp, ref_ok in Hc; destruct x; lia).
    destruct (utf16_enc_supp cp Hrange) as [c [d [E [Hh [Hl Hcomb]]]]]. rewrite E.
    destruct (hi_lo_bounds c d Hh Hl) as [Bc Bd].
    assert (Ec : can c = can 0xD800) by (rewrite (Hu c d Hh Hl); symmetry; apply Hu; [reflexivity|exact Hl]).
    cbn [app special16]. rewrite Ec. destruct (can 0xD800) eqn:E8.
    + assert (Ed : can d = true) by (rewrite <- (Hu c d Hh Hl), Ec; reflexivity).
      rewrite Ed, IH by exact Hr. cbn [flat_map]. rewrite app_nil_r, <- app_assoc. reflexivity.
    + rewrite (is_high_spec c) by lia. rewrite Hh, Hcomb, IH by exact Hr. reflexivity.
Qed.

(** a reference written for a code point denotes it *)
Lemma charref_denotes : forall attr x cp, xml_cp x cp = true ->
  unescape_parse attr x (charref cp) = Some (utf16_enc cp).
Proof.
  intros attr x cp H. unfold unescape_parse. rewrite <- (app_nil_r (charref cp)).
  rewrite unesc_charref; [|unfold xml_cp, ref_ok in H; destruct x; lia|exact H].
  cbn [unesc]. rewrite app_nil_r. reflexivity.
Qed.

(* ------------------------------------------------------------------------------------------- *)
(** * idempotence at the formatter level *)

Lemma format_idempotent : forall attr m x can s, mode_pair attr m -> can_uniform can -> xml_string x s = true ->
  exists t, unescape_parse attr x (format16 can x m UnRep_CharRef s) = Some t /\
            format16 can x m UnRep_CharRef t = format16 can x m UnRep_CharRef s.
Proof.
  intros attr m x can s Hm Hu Hs. exists s. split; [|reflexivity].
  rewrite format16_charref. unfold unescape_parse. apply (roundtrip_gen attr m x can Hm Hu (length s) s (le_n _) Hs).
Qed.

(* ------------------------------------------------------------------------------------------- *)
(** * CDATA sections *)

Definition citem_text (it : citem) : list N :=
  match it with CSect l => l | CRef v => utf16_enc v end.

Lemma cdata_pieces_concat : forall n s, (length s <= n)%nat -> forall cur,
  concat (cdata_pieces s cur) = rev cur ++ s.
Proof.
  induction n as [|n IH]; intros s Hn cur.
  - destruct s; [|cbn [length] in Hn; lia]. cbn [cdata_pieces concat]. rewrite !app_nil_r. reflexivity.
  - destruct s as [|a r]; [cbn [cdata_pieces concat]; rewrite !app_nil_r; reflexivity|].
    cbn [length] in Hn. cbn [cdata_pieces]. destruct r as [|b [|c r2]].
    + rewrite IH by (cbn [length]; lia). cbn [rev]. rewrite <- app_assoc. reflexivity.
    + rewrite IH by (cbn [length] in *; lia). cbn [rev]. rewrite <- app_assoc. reflexivity.
    + cbn [length] in Hn. destruct ((a =? 93) && (b =? 93) && (c =? 62)).
      * cbn [concat]. rewrite IH by (cbn [length]; lia). cbn [rev]. rewrite <- !app_assoc. reflexivity.
      * rewrite IH by (cbn [length]; lia). cbn [rev]. rewrite <- app_assoc. reflexivity.
Qed.

Lemma cd_items_all_can : forall can p run, forallb can p = true -> cd_items can p run = csect (rev p ++ run).
Proof.
  intros can. induction p as [|c r IH]; intros run H; [reflexivity|].
  cbn [forallb] in H. apply andb_true_iff in H. destruct H as [Hc Hr].
  cbn [cd_items]. rewrite Hc, IH by exact Hr. cbn [rev]. rewrite <- app_assoc. reflexivity.
Qed.

Lemma forallb_concat : forall (f : N -> bool) l, forallb f (concat l) = true -> forall p, In p l -> forallb f p = true.
Proof.
  intros f. induction l as [|q l IH]; intros H p Hin; [destruct Hin|].
  cbn [concat] in H. rewrite forallb_app in H. apply andb_true_iff in H. destruct H as [H1 H2].
  destruct Hin as [E|Hin]; [subst; exact H1|apply IH; assumption].
Qed.

Lemma pieces_text : forall can l, (forall p, In p l -> forallb can p = true) ->
  flat_map citem_text (flat_map (fun p => cd_items can p []) l) = concat l.
Proof.
  intros can. induction l as [|p l IH]; intros H; [reflexivity|].
  cbn [flat_map concat]. rewrite flat_map_app, IH by (intros q Hq; apply H; right; exact Hq).
  rewrite cd_items_all_can by (apply H; left; reflexivity). rewrite app_nil_r.
  destruct (rev p) as [|z t] eqn:E.
  - assert (p = []) by (rewrite <- (rev_involutive p), E; reflexivity). subst p. reflexivity.
  - unfold csect. cbn [flat_map citem_text]. rewrite <- E, rev_involutive, app_nil_r. reflexivity.
Qed.

(** the text of the sections written for a CDATASection node is the node's data (all units representable) *)
Lemma cdata_text : forall can s, forallb can s = true -> flat_map citem_text (cdata_items can s) = s.
Proof.
  intros can s H. unfold cdata_items. destruct s as [|a r]; [reflexivity|].
  pose proof (cdata_pieces_concat (length (a :: r)) (a :: r) (le_n _) []) as E. cbn [rev app] in E.
  rewrite pieces_text; [exact E|]. intros p Hp. apply (forallb_concat can (cdata_pieces (a :: r) [])); [|exact Hp].
  rewrite E. exact H.
Qed.

(* ------------------------------------------------------------------------------------------- *)
(** * the behaviour before the repairs is refuted by witnesses *)

Lemma cdata_split_old_refuted :
  flat_map citem_text (cdata_items_old (fun _ => true) [97; 93; 93; 62; 98]) = [97; 98].
Proof. vm_compute. reflexivity. Qed.

Lemma xml11_lsep_old_refuted :
  xml_string true [97; 0x2028; 0x85] = true /\
  unescape_parse false true (concat (format_calls_old (fun _ => true) true CharEscapes UnRep_CharRef [97; 0x2028; 0x85]))
  = Some [97; 10; 10].
Proof. vm_compute. split; reflexivity. Qed.

Lemma cdata_surrogate_old_refuted :
  cd_items_old (enc_can ELatin1) [0xD800; 0xDC00] [] = [CRef 0xD800; CRef 0xDC00] /\
  cd_items (enc_can ELatin1) [0xD800; 0xDC00] [] = [CRef 0x10000].
Proof. vm_compute. split; reflexivity. Qed.

(** F46 (best-fit entries in the single-byte to-tables) is repaired in the source (57a89d7): over the regenerated
    table U+FF1C is not representable and is written as a reference *)
Lemma win1252_bestfit_repaired :
  enc_can EWin1252 0xFF1C = false /\
  format_bytes EWin1252 false CharEscapes UnRep_CharRef [0xFF1C] = Ok [38; 35; 120; 70; 70; 49; 67; 59].
Proof. vm_compute. split; reflexivity. Qed.
