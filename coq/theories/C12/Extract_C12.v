(** Extraction of the executable C12 models and of the specification functions used as oracle.
    Only ExtrOcamlBasic is used: N/positive/nat stay the extracted inductive types. *)
From Coq Require Import Extraction ExtrOcamlBasic.
From XV Require Import C05.Spec05 C05.Model05 C12.Spec12 C12.Model12 C12.SpecTree12 C12.ModelSeq12 C12.ModelDt12 C12.SpecDt12.
Extraction Language OCaml.
Extraction "../ocaml/C12/gen_c12.ml"
  unescape_parse xml_string no_cdata_end scan_cdata utf16_enc
  enc_can format_bytes format_bytes_old format16 ser_doc_bytes esc1 in_escape_list in_escape_list_old
  cdata_items cdata_items_old citem_out valid_string
  reparse normalise expressible_list in_scope_list list_weight mk_cfg format_seq write_seq
  ser_doc_dt_bytes parse_doctype dt_expressible pubid_char encoding_used version_used is_xml11.
