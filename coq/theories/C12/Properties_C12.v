(** Property C12 -- Serialised DOM re-parses to an equal tree; output is always well-formed.
    Only the property theorems: each is closed by [exact] of a lemma proved in Proofs12*.v and followed by
    [Print Assumptions].  Models: Model12.v (escape tables, reference strings and markup strings come from
    Gen/GenEsc.v, regenerated from /repo on every run; transcoders are C05's models).  Spec: Spec12.v.
    The models describe the code with fixes/C12-*.patch applied; the [_old_refuted] statements show on the model of
    the code as found that each repair is needed.
    NOT proved here (partial): the tree-level round trip [reparse (serialize t) = t] -- what is proved is every lexical
    ingredient of it (character data, attribute values, character references, CDATA text); the tree level is decided
    by the document-level oracle of checks/C12.py on the real library. *)
From XV Require Import C05.Spec05 C05.Model05 C12.Spec12 C12.Model12
  C12.Proofs12a C12.Proofs12b C12.Proofs12c C12.Proofs12d C12.Proofs12e C12.Proofs12f C12.ModelNs12 C12.Proofs12g C12.SpecTree12 C12.ProofsTree12e C12.ProofsTree12f C12.ProofsTree12g C12.ProofsTree12h C12.ModelNsSer12 C12.ProofsNsSer12 C12.ModelSeq12
  C12.ModelDt12 C12.SpecDt12 C12.ProofsDt12.
Local Open Scope N_scope.

(** T12_escape_exact: the bytes of formatBuf are the transcoding of a character-wise map of the input ... *)
Theorem T12_escape_exact_map : forall can x m s, format16 can x m UnRep_Fail s = flat_map (esc1 x m) s.
Proof. exact format16_fail. Qed.
Print Assumptions T12_escape_exact_map.

Theorem T12_escape_exact_map_charref : forall can x m s, forallb can s = true ->
  format16 can x m UnRep_CharRef s = flat_map (esc1 x m) s.
Proof. intros can x m s H. rewrite format16_charref. apply special16_all_can. exact H. Qed.
Print Assumptions T12_escape_exact_map_charref.

(** ... in which a mode rewrites exactly the characters of its generated table row (entries before the first
    null) plus, for XML 1.1 output, the restricted controls, NEL and LSEP; NoEscapes rewrites nothing *)
Theorem T12_escape_exact : forall x m c,
  (in_escape_list x m c = true <->
   In c (zprefix (esc_row m)) \/ (x = true /\ (restricted11 c \/ c = 0x85 \/ c = 0x2028))) /\
  (esc1 x m c = [c] <-> (m = NoEscapes \/ in_escape_list x m c = false)) /\
  (m <> NoEscapes -> in_escape_list x m c = true -> esc1 x m c = esc_ref c).
Proof. intros x m c. split; [apply in_escape_list_spec|apply esc1_exact]. Qed.
Print Assumptions T12_escape_exact.

(** the rows as generated from XMLFormatter.cpp: which characters each mode protects *)
Theorem T12_escape_rows :
  zprefix (esc_row NoEscapes) = [] /\ zprefix (esc_row StdEscapes) = [38; 62; 34; 60; 39] /\
  zprefix (esc_row AttrEscapes) = [38; 60; 34; 10; 13; 9] /\ zprefix (esc_row CharEscapes) = [38; 60; 62; 13].
Proof. exact (conj no_row_eq (conj std_row_eq (conj attr_row_eq char_row_eq))). Qed.
Print Assumptions T12_escape_rows.

(** T12_escape_roundtrip (full): for every string of XML characters (UTF-16 units, XML 1.0 or 1.1), every
    canTranscodeTo that does not separate surrogate pairs: what the formatter writes for character data
    (CharEscapes) resp. an attribute value (AttrEscapes) is read back by an XML processor as the same string.
    Hence &, <, >, CR are protected in text (and "]]>" can never appear), &, <, the double quote, TAB, LF, CR in attribute values,
    unrepresentable characters arrive as the references that denote them. *)
Theorem T12_escape_roundtrip_text : forall x can s, can_uniform can -> xml_string x s = true ->
  unescape_parse false x (format16 can x CharEscapes UnRep_CharRef s) = Some s.
Proof. exact roundtrip_text. Qed.
Print Assumptions T12_escape_roundtrip_text.

Theorem T12_escape_roundtrip_attr : forall x can s, can_uniform can -> xml_string x s = true ->
  unescape_parse true x (format16 can x AttrEscapes UnRep_CharRef s) = Some s.
Proof. exact roundtrip_attr. Qed.
Print Assumptions T12_escape_roundtrip_attr.

(** the hypothesis holds for the five modelled transcoders *)
Theorem T12_can_uniform : forall e, can_uniform (enc_can e).
Proof. exact enc_can_uniform. Qed.
Print Assumptions T12_can_uniform.

(** T12_unrep: with UnRep_CharRef every code point the target cannot represent is written as exactly one
    reference made from that code point (surrogate pairs combined), every other one goes through the escaping of
    the mode; and such a reference denotes the code point. *)
Theorem T12_unrep : forall x can m cps, can_uniform can -> forallb (xml_cp x) cps = true ->
  format16 can x m UnRep_CharRef (flat_map utf16_enc cps) =
  flat_map (fun cp => if canp can cp then flat_map (esc1 x m) (utf16_enc cp) else charref cp) cps.
Proof. intros x can m cps Hu H. rewrite format16_charref. apply unrep_gen; assumption. Qed.
Print Assumptions T12_unrep.

Theorem T12_unrep_denotes : forall attr x cp, xml_cp x cp = true ->
  unescape_parse attr x (charref cp) = Some (utf16_enc cp).
Proof. exact charref_denotes. Qed.
Print Assumptions T12_unrep_denotes.

(** T12_idempotent (formatter level): parsing the output and formatting again gives the same output *)
Theorem T12_idempotent : forall attr m x can s, mode_pair attr m -> can_uniform can -> xml_string x s = true ->
  exists t, unescape_parse attr x (format16 can x m UnRep_CharRef s) = Some t /\
            format16 can x m UnRep_CharRef t = format16 can x m UnRep_CharRef s.
Proof. exact format_idempotent. Qed.
Print Assumptions T12_idempotent.

(** T12_cdata (after fixes/C12-cdata-split.patch): the text of the sections written for a CDATASection node,
    concatenated, is the node's data (every unit representable) *)
Theorem T12_cdata_text : forall can s, forallb can s = true -> flat_map citem_text (cdata_items can s) = s.
Proof. exact cdata_text. Qed.
Print Assumptions T12_cdata_text.

(** ... and none of the written sections contains the end marker "]]>" *)
Theorem T12_cdata_sections : forall can s, forallb can s = true ->
  forall it, In it (cdata_items can s) -> match it with CSect l => no_cdata_end l = true | CRef _ => True end.
Proof. exact cdata_sections. Qed.
Print Assumptions T12_cdata_sections.

(** ... and the specification parser ("<![CDATA[", then text up to the first "]]>", repeated; Spec12.scan_cdata)
    reads the written sections back as the data: no character is lost, no section ends early *)
Theorem T12_cdata_reparse : forall can s, forallb can s = true ->
  parse_sections (S (length s)) (flat_map citem_out (cdata_items can s)) = Some s.
Proof. exact cdata_reparse. Qed.
Print Assumptions T12_cdata_reparse.

(** T12_roundtrip, leaf level (partial: the tree level is not proved): on the serializer model, a Text node, an
    attribute and a CDATASection node are either refused with an error or written so that the specification scanners
    read the node's data back *)
Theorem T12_roundtrip_text_node : forall cf s out, c_fixed cf = true -> can_uniform (c_can cf) -> units16 s ->
  ser_node cf (Text s) = Ok out -> unescape_parse false (c_xml11 cf) out = Some s.
Proof. exact text_node_roundtrip. Qed.
Print Assumptions T12_roundtrip_text_node.

Theorem T12_roundtrip_attribute : forall cf n v out, c_fixed cf = true -> can_uniform (c_can cf) -> units16 v ->
  ser_attrs cf [(n, v)] = Ok out ->
  forallb (c_can cf) n = true /\
  out = [32] ++ n ++ [61; 34] ++ data16 cf AttrEscapes v ++ [34] /\
  unescape_parse true (c_xml11 cf) (data16 cf AttrEscapes v) = Some v.
Proof. exact attr_roundtrip. Qed.
Print Assumptions T12_roundtrip_attribute.

Theorem T12_roundtrip_cdata_node : forall cf s out, c_fixed cf = true -> c_split cf = true ->
  forallb (c_can cf) s = true -> ser_node cf (CData s) = Ok out -> parse_sections (S (length s)) out = Some s.
Proof. exact cdata_node_roundtrip. Qed.
Print Assumptions T12_roundtrip_cdata_node.

(** T12_roundtrip (tree level, on the serializer model with the committed fixes): for every tree that the model
    writes ([ser_doc] = Ok), whose content XML can express ([expressible]: names are made of name characters, no "--"
    in comments, no "?>" / leading white space in PI data, no CR -- XML 1.1: NEL, LSEP -- in comments, PIs and CDATA
    sections; the model does not check these, see the known findings F40, F41, F47 below) and that is in the scope of
    the proof ([in_scope]: 16-bit units, CDATA data representable), in every modelled configuration (any
    canTranscodeTo that keeps surrogate pairs together, XML 1.0/1.1, split-cdata-sections on/off, with or without
    XML declaration): the specification scanner [reparse] reads the written document back as [normalise t] -- the tree
    itself, except that a CDATASection that had to be split is its sections and adjacent/empty Text nodes are merged.
    [fuel] is only a recursion bound. *)
Theorem T12_roundtrip : forall cf kids out fuel, c_fixed cf = true -> can_uniform (c_can cf) ->
  ser_doc cf kids = Ok out -> expressible_list cf kids = true -> in_scope_list cf kids = true ->
  (c_decl cf = true -> none_is 62 (c_enc cf) = true) -> (list_weight kids + 4 <= fuel)%nat ->
  reparse (c_xml11 cf) fuel out = Some (normalise cf kids).
Proof. exact tree_roundtrip. Qed.
Print Assumptions T12_roundtrip.

(** non-vacuity: a document with every node kind, unrepresentable characters, a CDATA section that is split *)
Definition sample_cfg : scfg := mk_cfg ELatin1 false true true true [73; 83; 79; 45; 56; 56; 53; 57; 45; 49].
Definition sample_doc : list node :=
  [Comment [97; 32; 98];
   Elem [114] [([107], [34; 0x20AC; 60; 9]); ([109], [])]
     [Text [97; 38; 60; 62; 13; 0xD800; 0xDC00]; Text [98];
      CData [120; 93; 93; 62; 121]; Elem [101] [] []; PI [116] [100; 63; 100]; Text []];
   PI [112] []].
Definition reparses_to (cf : scfg) (fuel : nat) (doc expected : list node) : Prop :=
  match ser_doc cf doc with
  | Ok out => reparse (c_xml11 cf) fuel out = Some expected
  | Err _ => False
  end.
Example T12_roundtrip_nonvacuous :
  expressible_list sample_cfg sample_doc = true /\ in_scope_list sample_cfg sample_doc = true /\
  reparses_to sample_cfg 60 sample_doc (normalise sample_cfg sample_doc) /\
  normalise sample_cfg sample_doc =
  [Comment [97; 32; 98];
   Elem [114] [([107], [34; 0x20AC; 60; 9]); ([109], [])]
     [Text [97; 38; 60; 62; 13; 0xD800; 0xDC00; 98];
      CData [120; 93; 93]; CData [62; 121]; Elem [101] [] []; PI [116] [100; 63; 100]];
   PI [112] []].
Proof. vm_compute. repeat split; reflexivity. Qed.

(** what [expressible] guards: the model (like the code, known findings F40, F41, F47) writes these trees, and the
    result is not the tree *)
Definition sample_cfg_old : scfg := mk_cfg ELatin1 false true true false [73; 83; 79; 45; 56; 56; 53; 57; 45; 49].
Example T12_comment_dashes_old_refuted :
  match ser_doc sample_cfg_old [Elem [114] [] [Comment [97; 45; 45; 98]]] with
  | Ok out => reparse false 20 out = None | Err _ => False end.
Proof. vm_compute. reflexivity. Qed.
Example T12_pi_data_old_refuted :
  reparses_to sample_cfg_old 20 [Elem [114] [] [PI [116] [97; 63; 62; 98]]] [Elem [114] [] [PI [116] [97]; Text [98; 63; 62]]].
Proof. vm_compute. reflexivity. Qed.
(** with fixes/C12-comment-pi-wf.patch both are refused (also a comment that ends in "-") *)
Example T12_comment_pi_refused :
  ser_doc sample_cfg [Elem [114] [] [Comment [97; 45; 45; 98]]] = Err S_InvalidChar /\
  ser_doc sample_cfg [Elem [114] [] [Comment [97; 45]]] = Err S_InvalidChar /\
  ser_doc sample_cfg [Elem [114] [] [PI [116] [97; 63; 62; 98]]] = Err S_InvalidChar.
Proof. vm_compute. repeat split; reflexivity. Qed.
(** what remains outside the model's checks: PI data that begins with white space (it is read back without it) *)
Example T12_pi_leading_space_refuted :
  reparses_to sample_cfg 20 [Elem [114] [] [PI [116] [32; 97]]] [Elem [114] [] [PI [116] [97]]].
Proof. vm_compute. reflexivity. Qed.
Example T12_literal_cr_refuted :
  reparses_to sample_cfg 20 [Elem [114] [] [CData [97; 13; 98]; Comment [99; 13; 100]]]
                            [Elem [114] [] [CData [97; 10; 98]; Comment [99; 10; 100]]].
Proof. vm_compute. reflexivity. Qed.

(** T12_idempotent (tree level): serialising what was read back gives the same document, for trees without empty
    Text nodes and without a CDATA section that has to be split ([plain]; an element whose only children are empty
    Text nodes is written <a></a> and read back without children, i.e. <a/>: excluded).  Adjacent Text nodes may be
    merged by the round trip; the bytes do not change. *)
Theorem T12_idempotent_tree : forall cf kids out fuel, c_fixed cf = true -> can_uniform (c_can cf) ->
  ser_doc cf kids = Ok out -> expressible_list cf kids = true -> in_scope_list cf kids = true -> plain_list kids = true ->
  (c_decl cf = true -> none_is 62 (c_enc cf) = true) -> (list_weight kids + 4 <= fuel)%nat ->
  exists t', reparse (c_xml11 cf) fuel out = Some t' /\ ser_doc cf t' = Ok out.
Proof.
  intros cf kids out fuel Hf Hu Hs He Hg Hp Hd Hfu. exists (normalise cf kids). split.
  - apply tree_roundtrip; assumption.
  - apply tree_idempotent; assumption.
Qed.
Print Assumptions T12_idempotent_tree.

Example T12_empty_text_not_idempotent :
  match ser_doc sample_cfg [Elem [97] [] [Text []]] with
  | Ok out => reparse false 20 out = Some [Elem [97] [] []] /\ ser_doc sample_cfg [Elem [97] [] []] <> Ok out
  | Err _ => False end.
Proof. vm_compute. split; [reflexivity|discriminate]. Qed.

(** T12_no_hidden_state: a serializer (formatter) object used for several writes.  In the model the k-th result of a
    sequence is the result of a fresh write of the k-th job, whatever was written before; the tie to the code is the
    "seq" / "fseq" correspondence of checks/C12.py (k-th output of a re-used DOMLSSerializer / XMLFormatter = output
    of a fresh instance = model). *)
Theorem T12_no_hidden_state : forall jobs k, nth_error (write_seq jobs) k = option_map write1 (nth_error jobs k).
Proof. intros jobs k. unfold write_seq. apply nth_error_map. Qed.
Print Assumptions T12_no_hidden_state.

Theorem T12_no_hidden_state_after : forall before job, write_seq (before ++ [job]) = write_seq before ++ [write1 job].
Proof. intros before job. unfold write_seq. rewrite map_app. reflexivity. Qed.
Print Assumptions T12_no_hidden_state_after.

Theorem T12_formatter_no_hidden_state : forall e x u jobs k,
  nth_error (format_seq e x u jobs) k = option_map (format1 e x u) (nth_error jobs k).
Proof. intros e x u jobs k. unfold format_seq. apply nth_error_map. Qed.
Print Assumptions T12_formatter_no_hidden_state.

(** T12_unserialisable: content that the model's checks refuse (characters that are not XML Chars, names / comments /
    PIs with characters the encoding cannot represent, "]]>" or unrepresentable data in a CDATA section when
    split-cdata-sections is off, ...) is refused wherever it occurs in the tree: the result is an error and no
    document.  (What the model, like the code, does not check is exactly [expressible]; see the refutations above.) *)
Theorem T12_unserialisable : forall cf kids k, c_fixed cf = true -> In k kids -> unwritable cf k ->
  exists e, ser_doc cf kids = Err e.
Proof. exact unwritable_doc_refused. Qed.
Print Assumptions T12_unserialisable.

Theorem T12_unserialisable_node : forall cf n, c_fixed cf = true -> unwritable cf n -> exists e, ser_node cf n = Err e.
Proof. exact unwritable_refused. Qed.
Print Assumptions T12_unserialisable_node.

(** T12_nsfixup_serializer: the namespace fix-up DOMLSSerializer does itself while writing start tags (model
    ModelNsSer12.v).  For an API-built tree in which no element needs one prefix for two namespaces (F51) and
    every attribute in a namespace has a prefix (F52) -- [fixable] --, under any outer scope: no start tag declares a
    prefix twice, and with the declarations written every element and attribute resolves to its namespace URI. *)
Theorem T12_nsfixup_serializer : forall e sst pst, (forall q, ns_lookup sst q = ns_lookup pst q) ->
  fixable e -> tree_resolves sst pst e = true.
Proof. intros e sst pst. exact (serializer_fixup_resolves (essize e) e sst pst (le_n _)). Qed.
Print Assumptions T12_nsfixup_serializer.

Theorem T12_nsfixup_serializer_gaps_refuted :
  tree_resolves [] [] (NsE 1 20 7 [AOrd 1 10 8] []) = false /\
  f_emitted (fix_start_tag [] 1 20 [AOrd 1 10 8]) = [(1, 20); (1, 10)] /\
  tree_resolves [] [] (NsE 0 0 7 [AOrd 0 10 8] []) = false /\
  tree_resolves [] [] (NsE 0 10 1 [ADecl 0 10] [NsE 0 0 2 [] [NsE 0 10 3 [] []]]) = true.
Proof. exact (conj (proj1 f51_refuted) (conj (proj2 f51_refuted) (conj f52_refuted f50_repaired))). Qed.
Print Assumptions T12_nsfixup_serializer_gaps_refuted.

(** T12_nsfixup: the scope table of namespace fix-up in normalizeDocument() (DOMNormalizer::InScopeNamespaces; model
    ModelNs12.v, tied to the code by reading and by the normalizeDocument route of the document-level oracle).
    Whatever scopes were pushed/popped and bindings added or changed: a prefix answered for a namespace URI is bound
    to that URI in the current scope -- a lookup never returns a shadowed prefix -- and after rebinding a prefix the
    old namespace no longer leads to it. *)
Theorem T12_nsfixup : forall ops st, ns_run ops [] = Some st ->
  forall u p, get_prefix st u = Some p -> get_uri st p = Some u.
Proof. exact nsfixup_consistent. Qed.
Print Assumptions T12_nsfixup.

Theorem T12_nsfixup_rebound : forall ops st p u1 u2 st', ns_run ops [] = Some st -> u1 <> u2 ->
  ns_step st (Bind p u2) = Some st' -> get_prefix st' u1 <> Some p.
Proof. exact nsfixup_rebound. Qed.
Print Assumptions T12_nsfixup_rebound.

(** the variant that falls back to the base scope when its own table has no entry does return the shadowed prefix *)
Theorem T12_nsfixup_fallback_refuted :
  exists st, ns_run [Push; Bind 1 10; Push; Bind 1 20] [] = Some st /\
             get_prefix_fallback st 10 = Some 1 /\ get_uri st 1 = Some 20 /\ get_prefix st 10 = None.
Proof. exact fallback_refuted. Qed.
Print Assumptions T12_nsfixup_fallback_refuted.

(** after fixes/C12-normalizer-scope.patch addOrChangeBinding cannot throw; as found it did (F54) *)
Theorem T12_nsscope_total : forall ops st, exists st', ns_run ops st = Some st'.
Proof. exact ns_run_total. Qed.
Print Assumptions T12_nsscope_total.

Theorem T12_nsscope_rebind_both_old_refuted :
  ns_run_old [Push; Bind 1 30; Bind 2 30; Push; Bind 1 10; Bind 2 20] [] = None /\
  exists st, ns_run [Push; Bind 1 30; Bind 2 30; Push; Bind 1 10; Bind 2 20] [] = Some st /\
             get_uri st 1 = Some 10 /\ get_uri st 2 = Some 20 /\ get_prefix st 30 = None.
Proof. exact rebind_both_throws. Qed.
Print Assumptions T12_nsscope_rebind_both_old_refuted.

(** the behaviour as found, refuted on the model of the unrepaired code *)
Theorem T12_cdata_split_old_refuted :
  flat_map citem_text (cdata_items_old (fun _ => true) [97; 93; 93; 62; 98]) = [97; 98].
Proof. exact cdata_split_old_refuted. Qed.
Print Assumptions T12_cdata_split_old_refuted.

Theorem T12_xml11_lsep_old_refuted :
  xml_string true [97; 0x2028; 0x85] = true /\
  unescape_parse false true (concat (format_calls_old (fun _ => true) true CharEscapes UnRep_CharRef [97; 0x2028; 0x85]))
  = Some [97; 10; 10].
Proof. exact xml11_lsep_old_refuted. Qed.
Print Assumptions T12_xml11_lsep_old_refuted.

Theorem T12_cdata_surrogate_old_refuted :
  cd_items_old (enc_can ELatin1) [0xD800; 0xDC00] [] = [CRef 0xD800; CRef 0xDC00] /\
  cd_items (enc_can ELatin1) [0xD800; 0xDC00] [] = [CRef 0x10000].
Proof. exact cdata_surrogate_old_refuted. Qed.
Print Assumptions T12_cdata_surrogate_old_refuted.

(** known findings stated on the faithful model: the best-fit entries of the Windows-1252 table (F46: U+FF1C written as
    a literal "<") are gone from the source (57a89d7); a run ending in an unpaired high surrogate made the UTF-8 formatter loop (F44; with
    fixes/C12-formatter-no-progress.patch it raises Trans_BadSrcSeq) *)
Theorem T12_win1252_bestfit_repaired :
  enc_can EWin1252 0xFF1C = false /\
  format_bytes EWin1252 false CharEscapes UnRep_CharRef [0xFF1C] = Ok [38; 35; 120; 70; 70; 49; 67; 59].
Proof. exact win1252_bestfit_repaired. Qed.
Print Assumptions T12_win1252_bestfit_repaired.

Theorem T12_trailing_high_surrogate_refused :
  format_bytes EUtf8 false CharEscapes UnRep_CharRef [97; 0xD800] = Err F_BadSrcSeq /\
  hue8_old 3 k_tmp [97; 0xD800] = Err F_Hang.
Proof. vm_compute. split; reflexivity. Qed.
Print Assumptions T12_trailing_high_surrogate_refused.

(** non-vacuity: the hypotheses are satisfiable by non-trivial values, and the models do what one expects *)
Example T12_nonvacuous_string :
  xml_string false [97; 60; 38; 62; 34; 39; 9; 10; 13; 93; 93; 62; 0xE9; 0x20AC; 0xD800; 0xDC00] = true /\
  xml_string true [1; 0x7F; 0x85; 0x2028; 0x9F] = true.
Proof. vm_compute. split; reflexivity. Qed.
Example T12_nonvacuous_text :
  format16 (enc_can ELatin1) false CharEscapes UnRep_CharRef [97; 60; 13; 0x20AC; 0xD800; 0xDC00; 93; 93; 62] =
  [97; 38; 108; 116; 59; 38; 35; 120; 68; 59; 38; 35; 120; 50; 48; 65; 67; 59;
   38; 35; 120; 49; 48; 48; 48; 48; 59; 93; 93; 38; 103; 116; 59].
Proof. vm_compute. reflexivity. Qed.
Example T12_nonvacuous_xml11 :
  unescape_parse true true (format16 (enc_can EUtf8) true AttrEscapes UnRep_CharRef [1; 0x85; 0x2028; 9; 34]) =
  Some [1; 0x85; 0x2028; 9; 34].
Proof. vm_compute. reflexivity. Qed.
Example T12_nonvacuous_cdata :
  flat_map citem_out (cdata_items (fun _ => true) [97; 93; 93; 62; 98]) =
  ser_gStartCDATA ++ [97; 93; 93] ++ ser_gEndCDATA ++ ser_gStartCDATA ++ [62; 98] ++ ser_gEndCDATA.
Proof. vm_compute. reflexivity. Qed.
Example T12_nonvacuous_doc :
  ser_doc (mk_cfg ELatin1 false true false true []) [Elem [114] [([107], [34; 0x20AC])] [Text [60]; Comment [120]; PI [116] [100]]]
  = Ok [60; 114; 32; 107; 61; 34; 38; 113; 117; 111; 116; 59; 38; 35; 120; 50; 48; 65; 67; 59; 34; 62;
        38; 108; 116; 59; 60; 33; 45; 45; 120; 45; 45; 62; 60; 63; 116; 32; 100; 63; 62; 60; 47; 114; 62].
Proof. vm_compute. reflexivity. Qed.
Example T12_nonvacuous_attrname :
  ser_doc (mk_cfg ELatin1 false true false true []) [Elem [114] [([107; 0x3A9], [118])] []] = Err S_Unrepresentable /\
  ser_doc (mk_cfg ELatin1 false true false false []) [Elem [114] [([107; 0x3A9], [118])] []] =
    Ok [60; 114; 32; 107; 38; 35; 120; 51; 65; 57; 59; 61; 34; 118; 34; 47; 62].
Proof. vm_compute. split; reflexivity. Qed.
Example T12_nonvacuous_restricted11 :
  ser_doc (mk_cfg EUtf8 true true false true []) [Elem [114] [] [Text [1]]] = Ok [60; 114; 62; 38; 35; 120; 49; 59; 60; 47; 114; 62] /\
  ser_doc (mk_cfg EUtf8 true true false false []) [Elem [114] [] [Text [1]]] = Err S_InvalidChar /\
  ser_doc (mk_cfg EUtf8 true true false true []) [Elem [114] [] [Comment [1]]] = Err S_InvalidChar.
Proof. vm_compute. repeat split; reflexivity. Qed.
Example T12_nonvacuous_errors :
  ser_doc (mk_cfg ELatin1 false true false true []) [Elem [114; 0x20AC] [] []] = Err S_Unrepresentable /\
  ser_doc (mk_cfg EUtf8 false true false true []) [Elem [114] [] [CData [1]]] = Err S_InvalidChar /\
  ser_doc (mk_cfg EUtf8 false false false true []) [Elem [114] [] [CData [93; 93; 62]]] = Err S_NestedCDATA.
Proof. vm_compute. repeat split; reflexivity. Qed.

(* ------------------------------------------------------------------------------------------- *)
(** * DocumentType nodes (ModelDt12.v, SpecDt12.v) *)

(** T12_doctype_roundtrip: whenever the repaired serializer (fixes/C12-doctype-literals.patch) writes a DocumentType
    -- any name that is a name, any public and system identifier it accepts, an internal subset without ']' (the
    subset is an opaque string here) -- in any configuration, the declaration scanner of the specification reads the
    same name, public identifier, system identifier and subset back, whatever follows the declaration. *)
Theorem T12_doctype_roundtrip : forall cf d out rest,
  ser_doctype cf true d = Ok out -> dt_expressible d = true -> parse_doctype (out ++ rest) = Some (d, rest).
Proof. exact doctype_roundtrip. Qed.
Print Assumptions T12_doctype_roundtrip.

Example T12_doctype_nonvacuous :
  ser_doctype cf_utf8 true (mk_dt [97] [45; 47; 47; 39] [120; 34; 121] [60; 33; 45; 45; 45; 45; 62]) =
    Ok [60; 33; 68; 79; 67; 84; 89; 80; 69; 32; 97; 32; 80; 85; 66; 76; 73; 67; 32; 34; 45; 47; 47; 39; 34; 32; 39; 120; 34;
        121; 39; 32; 91; 60; 33; 45; 45; 45; 45; 62; 93; 62] /\
  dt_expressible (mk_dt [97] [45; 47; 47; 39] [120; 34; 121] [60; 33; 45; 45; 45; 45; 62]) = true.
Proof. vm_compute. split; reflexivity. Qed.

(** the code as found (F56): a system identifier that contains a double quote -- legal, a parser reports it for
    <!DOCTYPE a SYSTEM (the id x, double quote, y)> -- is written between double quotes; the declaration does not read back *)
Theorem T12_doctype_old_refuted :
  exists d out, dt_expressible d = true /\ ser_doctype cf_utf8 false d = Ok out /\ parse_doctype out = None /\
                (exists out', ser_doctype cf_utf8 true d = Ok out' /\ parse_doctype out' = Some (d, [])).
Proof. exact doctype_old_refuted. Qed.
Print Assumptions T12_doctype_old_refuted.

(** T12_doctype_unserialisable: identifiers that cannot be written as literals (system identifier with both kinds of
    quote or with a character that is no XML Char, public identifier with a character that is no PubidChar, public
    identifier without system identifier) and unrepresentable characters anywhere in the declaration are refused *)
Theorem T12_doctype_unserialisable : forall cf d, dt_unquotable cf d -> exists e, ser_doctype cf true d = Err e.
Proof. exact doctype_unquotable_refused. Qed.
Print Assumptions T12_doctype_unserialisable.

(** * the encoding write() uses: LSOutput.encoding, Document.inputEncoding, Document.xmlEncoding, UTF-8 -- in this
      order, an empty string counting as absent; writeToString: always UTF-16 *)
Theorem T12_encoding_order : forall o i x,
  encoding_used false o i x =
    match o with _ :: _ => o | [] => match i with _ :: _ => i | [] => match x with _ :: _ => x | [] => utf8_name end end end.
Proof. exact encoding_order. Qed.
Print Assumptions T12_encoding_order.
Theorem T12_encoding_to_string : forall o i x, encoding_used true o i x = utf16_name.
Proof. exact encoding_to_string. Qed.
Print Assumptions T12_encoding_to_string.
Theorem T12_encoding_never_empty : forall ts o i x, encoding_used ts o i x <> [].
Proof. exact encoding_never_empty. Qed.
Print Assumptions T12_encoding_never_empty.
