(** C12 tree-level lemmas, part h: writing the tree that was read back gives the same document (idempotence). *)
From Coq Require Import ZArith ZifyBool ZifyN ZifyNat Lia.
From XV Require Import C05.Spec05 C05.Model05 C12.Spec12 C12.Model12 C12.SpecTree12
  C12.Proofs12a C12.Proofs12b C12.Proofs12c C12.Proofs12d C12.Proofs12e C12.Proofs12f
  C12.ProofsTree12a C12.ProofsTree12b C12.ProofsTree12e C12.ProofsTree12f.
Local Open Scope N_scope.

Lemma special16_app : forall inl can x m, can_uniform can -> forall n a b, (length a <= n)%nat -> xml_string x a = true ->
  special16 inl can x m (a ++ b) = special16 inl can x m a ++ special16 inl can x m b.
Proof.
  intros inl can x m Hu. induction n as [|n IH]; intros a b Hn Ha.
  - destruct a; [reflexivity|cbn [length] in Hn; lia].
  - destruct a as [|c r]; [reflexivity|]. cbn [length] in Hn.
    destruct (xml_string_cons x c r Ha) as [[Hb Hr]|[Hb [Hh [d [r' [Er [Hd Hr']]]]]]].
    + cbn [app special16]. rewrite (IH r b) by (lia || assumption).
      assert (Hhi : is_high c = false).
      { destruct (ref_ok_bmp x c Hb) as [_ Hlt]. rewrite is_high_spec by exact Hlt. unfold bmp_char in Hb. unfold hi_sur. destruct x; lia. }
      rewrite Hhi. destruct (can c); rewrite <- app_assoc; reflexivity.
    + subst r. cbn [length] in Hn. destruct (hi_lo_bounds c d Hh Hd) as [Bc Bd].
      cbn [app special16]. rewrite (IH r' b) by (lia || assumption).
      destruct (can c) eqn:Ec.
      * assert (Ed : can d = true) by (rewrite <- (Hu c d Hh Hd); exact Ec). rewrite Ed. rewrite <- !app_assoc. reflexivity.
      * assert (Hhi : is_high c = true) by (rewrite is_high_spec by lia; exact Hh). rewrite Hhi. rewrite <- app_assoc. reflexivity.
Qed.

Lemma valid_app : forall refs x n a b, (length a <= n)%nat -> valid_string refs x a = true ->
  valid_string refs x (a ++ b) = valid_string refs x b.
Proof.
  intros refs x. induction n as [|n IH]; intros a b Hn Ha.
  - destruct a; [reflexivity|cbn [length] in Hn; lia].
  - destruct a as [|c r]; [reflexivity|]. cbn [length] in Hn. cbn [app valid_string] in *.
    destruct (char_unit refs x c); [apply IH; [lia|exact Ha]|].
    destruct (is_high c); [|discriminate]. destruct r as [|d r']; [discriminate|]. cbn [app].
    apply andb_true_iff in Ha. destruct Ha as [Hl Hr]. rewrite Hl. cbn [andb]. cbn [length] in Hn. apply IH; [lia|exact Hr].
Qed.

Lemma data16_app : forall cf a b, c_fixed cf = true -> can_uniform (c_can cf) -> u16b a = true ->
  valid_string true (c_xml11 cf) a = true ->
  data16 cf CharEscapes (a ++ b) = data16 cf CharEscapes a ++ data16 cf CharEscapes b.
Proof.
  intros cf a b Hf Hu H16 Hv. rewrite !data16_fixed by exact Hf. rewrite !format16_charref.
  apply (special16_app _ _ _ _ Hu (length a) a b (le_n _)).
  apply (valid_is_xml _ _ (length a) a (le_n _) (u16b_units a H16) Hv).
Qed.

Lemma ser_kids_app : forall cf l1 l2 o1 o2, ser_kids cf l1 = Ok o1 -> ser_kids cf l2 = Ok o2 ->
  ser_kids cf (l1 ++ l2) = Ok (o1 ++ o2).
Proof.
  intros cf. induction l1 as [|k r IH]; intros l2 o1 o2 H1 H2.
  - cbn in H1. injection H1 as H1. subst o1. exact H2.
  - rewrite ser_kids_cons in H1. cbn [app]. rewrite ser_kids_cons.
    destruct (ser_node cf k) as [ok|]; cbn [bind] in *; [|discriminate].
    destruct (ser_kids cf r) as [orr|] eqn:Er; cbn [bind] in H1; [|discriminate]. injection H1 as H1. subst o1.
    rewrite (IH l2 orr o2 eq_refl H2). cbn [bind]. rewrite app_assoc. reflexivity.
Qed.

Lemma ser_flush : forall cf acc, c_fixed cf = true -> valid_string true (c_xml11 cf) acc = true ->
  ser_kids cf (flushT acc) = Ok (data16 cf CharEscapes acc).
Proof.
  intros cf acc Hf Hv. destruct acc as [|c r]; [reflexivity|].
  unfold flushT. rewrite ser_kids_cons. cbn [ser_node]. rewrite Hf, Hv. cbn [negb bind ser_kids]. rewrite app_nil_r. reflexivity.
Qed.

(** trees for which reading back changes nothing but the division of text: no empty Text node, no CDATA section
    that has to be split *)
Fixpoint plain (n : node) : bool :=
  match n with
  | Text s => match s with [] => false | _ => true end
  | CData s => no_cdata_end s
  | Elem _ _ kids => (fix go (l : list node) : bool := match l with [] => true | k :: r => plain k && go r end) kids
  | _ => true
  end.
Fixpoint plain_list (l : list node) : bool := match l with [] => true | k :: r => plain k && plain_list r end.

Lemma plain_elem : forall n a k, plain (Elem n a k) = plain_list k.
Proof. intros n a k. cbn [plain]. induction k as [|x r IH]; [reflexivity|]. cbn [plain_list]. rewrite <- IH. reflexivity. Qed.

Lemma nce_tail : forall z t, no_cdata_end (z :: t) = true -> no_cdata_end t = true.
Proof.
  intros z t H. destruct t as [|y [|y2 t']]; [reflexivity|reflexivity|].
  rewrite nce_cons3 in H. apply andb_true_iff in H. tauto.
Qed.

Lemma nce_suffix : forall l s, no_cdata_end (l ++ s) = true -> no_cdata_end s = true.
Proof. induction l as [|z l IH]; intros s H; [exact H|]. apply IH. apply (nce_tail z). exact H. Qed.

Lemma nce_single : forall s cur, no_cdata_end (rev cur ++ s) = true -> cdata_pieces s cur = [rev cur ++ s].
Proof.
  induction s as [|a r IH]; intros cur H.
  - cbn [cdata_pieces]. rewrite app_nil_r. reflexivity.
  - cbn [cdata_pieces]. destruct r as [|b [|c r2]].
    + rewrite IH; cbn [rev]; rewrite <- app_assoc; [reflexivity|exact H].
    + rewrite IH; cbn [rev]; rewrite <- app_assoc; [reflexivity|exact H].
    + destruct ((a =? 93) && (b =? 93) && (c =? 62)) eqn:E.
      * exfalso. (* "]]>" occurs in rev cur ++ a :: b :: c :: r2 *)
        pose proof (nce_suffix (rev cur) (a :: b :: c :: r2) H) as Hs.
        rewrite nce_cons3 in Hs. unfold m3 in Hs. rewrite E in Hs. discriminate.
      * rewrite IH; cbn [rev]; rewrite <- app_assoc; [reflexivity|exact H].
Qed.

Lemma expand_cdata_plain : forall cf s, forallb (c_can cf) s = true -> no_cdata_end s = true ->
  expand cf (CData s) = [CData s].
Proof.
  intros cf s Hc Hn. cbn [expand]. destruct (c_split cf); [|reflexivity].
  unfold cdata_items. destruct s as [|a r]; [reflexivity|].
  rewrite (nce_single (a :: r) [] Hn). cbn [rev app flat_map]. rewrite app_nil_r.
  rewrite cd_items_all_can by exact Hc. rewrite app_nil_r. unfold csect.
  destruct (rev (a :: r)) as [|z t] eqn:E.
  - apply (f_equal (@length N)) in E. rewrite rev_length in E. discriminate.
  - rewrite <- E, rev_involutive. reflexivity.
Qed.

Lemma merge_nonempty : forall L acc, (acc <> [] \/ L <> []) -> (forall a, In (Text a) L -> a <> []) -> merge_acc acc L <> [].
Proof.
  induction L as [|k r IH]; intros acc H Ht.
  - cbn [merge_acc]. destruct H as [H|H]; [|contradiction]. destruct acc; [contradiction|discriminate].
  - destruct k as [n a kk|s|s|s|t d]; cbn [merge_acc]; try (destruct (flushT acc); discriminate).
    apply IH; [left|intros a Ha; apply Ht; right; exact Ha].
    assert (s <> []) by (apply Ht; left; reflexivity). destruct acc; [cbn [app]; assumption|discriminate].
Qed.

Theorem reserialise : forall cf, c_fixed cf = true -> can_uniform (c_can cf) ->
  forall n kids, (lsize kids <= n)%nat -> forall out, ser_kids cf kids = Ok out ->
  in_scope_list cf kids = true -> plain_list kids = true ->
  forall acc, u16b acc = true -> valid_string true (c_xml11 cf) acc = true ->
  ser_kids cf (merge_acc acc (expand_list cf kids)) = Ok (data16 cf CharEscapes acc ++ out) /\
  (forall a, In (Text a) (expand_list cf kids) -> a <> []) /\ (kids <> [] -> expand_list cf kids <> []).
Proof.
  intros cf Hf Hu. induction n as [|n IH]; intros kids Hsz out Hs Hg Hp acc Ha16 Hav.
  - destruct kids as [|k r]; [|cbn [lsize] in Hsz; pose proof (nsize_pos k); lia].
    cbn in Hs. injection Hs as Hs. subst out. cbn [expand_list merge_acc]. rewrite app_nil_r.
    split; [apply ser_flush; assumption|]. split; [intros a []|intros H; contradiction].
  - destruct kids as [|k r].
    + cbn in Hs. injection Hs as Hs. subst out. cbn [expand_list merge_acc]. rewrite app_nil_r.
      split; [apply ser_flush; assumption|]. split; [intros a []|intros H; contradiction].
    + rewrite ser_kids_cons in Hs. destruct (ser_node cf k) as [ok|] eqn:Ek; cbn [bind] in Hs; [|discriminate].
      destruct (ser_kids cf r) as [orr|] eqn:Er; cbn [bind] in Hs; [|discriminate]. injection Hs as Hs. subst out.
      cbn [in_scope_list] in Hg. apply andb_true_iff in Hg. destruct Hg as [Hgk Hgr].
      cbn [plain_list] in Hp. apply andb_true_iff in Hp. destruct Hp as [Hpk Hpr].
      cbn [lsize] in Hsz. pose proof (nsize_pos k) as Hpos. cbn [expand_list].
      assert (IHr : forall acc', u16b acc' = true -> valid_string true (c_xml11 cf) acc' = true ->
                ser_kids cf (merge_acc acc' (expand_list cf r)) = Ok (data16 cf CharEscapes acc' ++ orr) /\
                (forall a, In (Text a) (expand_list cf r) -> a <> []) /\ (r <> [] -> expand_list cf r <> [])).
      { intros acc' H1 H2. apply (IH r); try assumption; try reflexivity. lia. }
      (* a non-Text node n' written as on : the pending text is flushed before it *)
      assert (Hnode : forall n' on, ser_node cf n' = Ok on -> (forall a, n' <> Text a) ->
                ser_kids cf (merge_acc acc (n' :: expand_list cf r)) = Ok (data16 cf CharEscapes acc ++ on ++ orr)).
      { intros n' on Hn' Hnt.
        assert (Em : merge_acc acc (n' :: expand_list cf r) = flushT acc ++ n' :: merge_acc [] (expand_list cf r)).
        { destruct n'; try reflexivity. exfalso. apply (Hnt s). reflexivity. }
        rewrite Em. destruct (IHr [] eq_refl eq_refl) as [E0 _]. cbn [app] in E0.
        apply ser_kids_app; [apply ser_flush; assumption|]. rewrite ser_kids_cons, Hn', E0. reflexivity. }
      destruct k as [name attrs kids'|s|s|s|t d].
      * (* element *)
        rewrite in_scope_elem in Hgk. apply andb_true_iff in Hgk. destruct Hgk as [Hga Hgkk].
        rewrite plain_elem in Hpk. rewrite nsize_elem in Hsz. rewrite expand_elem.
        rewrite ser_node_elem in Ek.
        destruct (markup cf (60 :: name)) as [st|] eqn:Est; cbn [bind] in Ek; [|discriminate].
        destruct (ser_attrs cf attrs) as [ar|] eqn:Ea; cbn [bind] in Ek; [|discriminate].
        assert (Hsame : ser_node cf (Elem name attrs (merge_acc [] (expand_list cf kids'))) = Ok ok).
        { rewrite ser_node_elem, Est, Ea. cbn [bind].
          destruct kids' as [|k1 ks]; [cbn [expand_list merge_acc flushT]; exact Ek|].
          destruct (ser_kids cf (k1 :: ks)) as [body|] eqn:Eb; cbn [bind] in Ek; [|discriminate].
          destruct (IH (k1 :: ks) ltac:(lia) body Eb Hgkk Hpk [] eq_refl eq_refl) as [E1 [E2 E3]]. cbn [app] in E1.
          pose proof (merge_nonempty (expand_list cf (k1 :: ks)) [] (or_intror (E3 ltac:(discriminate))) E2) as Hne.
          destruct (merge_acc [] (expand_list cf (k1 :: ks))) as [|m1 ms] eqn:Em; [contradiction|].
          rewrite E1. cbn [bind]. exact Ek. }
        split; [|split].
        -- cbn [app]. apply Hnode; [exact Hsame|intros a; discriminate].
        -- intros a [E|Hin]; [discriminate|]. destruct (IHr [] eq_refl eq_refl) as [_ [H2 _]]. apply H2. exact Hin.
        -- intros _. discriminate.
      * (* text *)
        cbn [ser_node] in Ek. rewrite Hf in Ek. destruct (valid_string true (c_xml11 cf) s) eqn:Ev; cbn [negb] in Ek; [|discriminate].
        injection Ek as Ek. subst ok. cbn [in_scope] in Hgk. cbn [plain] in Hpk. cbn [expand app merge_acc].
        assert (H16' : u16b (acc ++ s) = true) by (unfold u16b in *; rewrite forallb_app, Ha16, Hgk; reflexivity).
        assert (Hv' : valid_string true (c_xml11 cf) (acc ++ s) = true) by (rewrite (valid_app _ _ (length acc) acc s (le_n _) Hav); exact Ev).
        destruct (IHr (acc ++ s) H16' Hv') as [E1 [E2 E3]]. split; [|split].
        -- rewrite E1. rewrite data16_app by assumption. rewrite <- app_assoc. reflexivity.
        -- intros a [E|Hin]; [injection E as E; subst a; destruct s; [discriminate|discriminate]|apply E2; exact Hin].
        -- intros _. discriminate.
      * (* CDATA *)
        cbn [in_scope] in Hgk. cbn [plain] in Hpk. rewrite (expand_cdata_plain cf s Hgk Hpk). cbn [app].
        split; [apply Hnode; [exact Ek|intros a; discriminate]|]. split; [|intros _; discriminate].
        intros a [E|Hin]; [discriminate|]. destruct (IHr [] eq_refl eq_refl) as [_ [H2 _]]. apply H2. exact Hin.
      * cbn [expand app]. split; [apply Hnode; [exact Ek|intros a; discriminate]|]. split; [|intros _; discriminate].
        intros a [E|Hin]; [discriminate|]. destruct (IHr [] eq_refl eq_refl) as [_ [H2 _]]. apply H2. exact Hin.
      * cbn [expand app]. split; [apply Hnode; [exact Ek|intros a; discriminate]|]. split; [|intros _; discriminate].
        intros a [E|Hin]; [discriminate|]. destruct (IHr [] eq_refl eq_refl) as [_ [H2 _]]. apply H2. exact Hin.
Qed.

Theorem tree_idempotent : forall cf kids out, c_fixed cf = true -> can_uniform (c_can cf) ->
  ser_doc cf kids = Ok out -> in_scope_list cf kids = true -> plain_list kids = true ->
  ser_doc cf (normalise cf kids) = Ok out.
Proof.
  intros cf kids out Hf Hu Hs Hg Hp. rewrite ser_doc_eq in *.
  destruct (ser_kids cf kids) as [body|] eqn:Eb; cbn [bind] in Hs; [|discriminate].
  destruct (reserialise cf Hf Hu (lsize kids) kids (le_n _) body Eb Hg Hp [] eq_refl eq_refl) as [E _].
  unfold normalise. rewrite E. cbn [bind app]. exact Hs.
Qed.
