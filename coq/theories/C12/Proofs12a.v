(** C12 lemmas, part a: the sequence of transcoder calls made by formatBuf / specialFormat, concatenated, is a
    character-wise map of the input ([special16] / [flat_map esc1]); exactness of the escape lists. *)
From Coq Require Import ZArith ZifyBool ZifyN ZifyNat Lia.
From XV Require Import C05.Spec05 C05.Model05 C12.Spec12 C12.Model12.
Local Open Scope N_scope.

Lemma flat_map_single : forall (s : list N), flat_map (fun c => [c]) s = s.
Proof. induction s as [|c r IH]; cbn [flat_map app]; [reflexivity|]. rewrite IH. reflexivity. Qed.

Lemma flush_concat : forall run, concat (flush run) = rev run.
Proof. destruct run; [reflexivity|]. cbn [flush concat]. rewrite app_nil_r. reflexivity. Qed.

Lemma fb_calls_concat : forall inl x m s run,
  concat (fb_calls inl x m s run) = rev run ++ flat_map (fun c => if inl x m c then esc_ref c else [c]) s.
Proof.
  intros inl x m. induction s as [|c r IH]; intros run; cbn [fb_calls flat_map].
  - rewrite flush_concat, app_nil_r. reflexivity.
  - destruct (inl x m c).
    + rewrite !concat_app, flush_concat. cbn [concat]. rewrite app_nil_r, IH. reflexivity.
    + rewrite IH. cbn [rev]. rewrite <- app_assoc. reflexivity.
Qed.

Lemma format_fail_concat : forall inl x m s, concat (format_fail inl x m s) = flat_map (esc1_gen inl x m) s.
Proof.
  intros inl x m s. destruct m; unfold format_fail.
  - unfold esc1_gen. rewrite flat_map_single. destruct s; [reflexivity|]. cbn [concat]. apply app_nil_r.
  - rewrite fb_calls_concat. reflexivity.
  - rewrite fb_calls_concat. reflexivity.
  - rewrite fb_calls_concat. reflexivity.
Qed.

(** the output of specialFormat, character by character *)
Fixpoint special16 (inl : bool -> emode -> N -> bool) (can : N -> bool) (x : bool) (m : emode) (s : list N) : list N :=
  match s with
  | [] => []
  | c :: r =>
    if can c then esc1_gen inl x m c ++ special16 inl can x m r
    else if is_high c then
      match r with
      | [] => charref (comb c 0)
      | d :: r' => charref (comb c d) ++ special16 inl can x m r'
      end
    else charref c ++ special16 inl can x m r
  end.

Definition call_of inl x m (it : sitem) : list (list N) :=
  match it with SRun l => format_fail inl x m l | SRef v => [charref v] end.

Lemma srun_concat : forall inl x m run,
  concat (flat_map (call_of inl x m) (srun run)) = flat_map (esc1_gen inl x m) (rev run).
Proof.
  intros. destruct run as [|a run]; [reflexivity|]. unfold srun. cbn [flat_map call_of]. rewrite app_nil_r.
  apply format_fail_concat.
Qed.

Lemma sp_items_concat : forall inl can x m n s, (length s <= n)%nat -> forall run,
  concat (flat_map (call_of inl x m) (sp_items can s run)) =
  flat_map (esc1_gen inl x m) (rev run) ++ special16 inl can x m s.
Proof.
  intros inl can x m. induction n as [|n IH]; intros s Hl run.
  - destruct s; [|cbn [length] in Hl; lia]. cbn [sp_items special16]. rewrite srun_concat, app_nil_r. reflexivity.
  - destruct s as [|c r]; [cbn [sp_items special16]; rewrite srun_concat, app_nil_r; reflexivity|].
    cbn [length] in Hl. cbn [sp_items special16]. destruct (can c).
    + rewrite IH by lia. cbn [rev]. rewrite flat_map_app. cbn [flat_map]. rewrite app_nil_r, <- app_assoc. reflexivity.
    + destruct (is_high c).
      * destruct r as [|d r'].
        -- rewrite flat_map_app, concat_app, srun_concat. cbn [flat_map call_of concat app]. rewrite app_nil_r. reflexivity.
        -- cbn [length] in Hl. rewrite !flat_map_app, !concat_app, srun_concat. cbn [flat_map call_of concat app].
           rewrite (IH r') by lia. cbn [rev flat_map app]. rewrite app_nil_r. reflexivity.
      * rewrite !flat_map_app, !concat_app, srun_concat. cbn [flat_map call_of concat app].
        rewrite (IH r) by lia. cbn [rev flat_map app]. rewrite app_nil_r. reflexivity.
Qed.

Lemma format16_charref : forall can x m s,
  format16 can x m UnRep_CharRef s = special16 in_escape_list can x m s.
Proof.
  intros. unfold format16, format_calls, format_calls_gen, special_calls.
  change (fun it => match it with SRun l => format_fail in_escape_list x m l | SRef v => [charref v] end)
    with (call_of in_escape_list x m).
  rewrite (sp_items_concat in_escape_list can x m (length s) s (le_n _) []). reflexivity.
Qed.

Lemma format16_fail : forall can x m s, format16 can x m UnRep_Fail s = flat_map (esc1 x m) s.
Proof. intros. unfold format16, format_calls, format_calls_gen. apply format_fail_concat. Qed.

(** with everything representable the two agree *)
Lemma special16_all_can : forall inl can x m s, forallb can s = true ->
  special16 inl can x m s = flat_map (esc1_gen inl x m) s.
Proof.
  intros inl can x m. induction s as [|c r IH]; intros H; [reflexivity|].
  cbn [forallb] in H. apply andb_true_iff in H. destruct H as [Hc Hr].
  cbn [special16 flat_map]. rewrite Hc, IH by exact Hr. reflexivity.
Qed.

(* ------------------------------------------------------------------------------------------- *)
(** * exactness of the escape lists *)

(** the entries of a row before its first null *)
Fixpoint zprefix (row : list N) : list N :=
  match row with [] => [] | e :: r => if e =? 0 then [] else e :: zprefix r end.

Lemma in_zlist_spec : forall row c, in_zlist row c = true <-> In c (zprefix row).
Proof.
  induction row as [|e r IH]; intros c; cbn [in_zlist zprefix].
  - split; [discriminate|intros []].
  - destruct (N.eqb_spec e 0); [split; [discriminate|intros []]|].
    destruct (N.eqb_spec e c).
    + subst. split; [left; reflexivity|reflexivity].
    + rewrite IH. split; [right; assumption|intros [H|H]; [contradiction|exact H]].
Qed.

Definition restricted11 (c : N) : Prop :=
  (1 <= c <= 8) \/ c = 0xB \/ c = 0xC \/ (0xE <= c <= 0x1F) \/ (0x7F <= c <= 0x84) \/ (0x86 <= c <= 0x9F).

Lemma control11_spec : forall c, (is_control11 c && negb (is_ws11 c)) = true <-> restricted11 c.
Proof. intros c. unfold is_control11, is_ws11, restricted11. lia. Qed.

Lemma in_escape_list_spec : forall x m c,
  in_escape_list x m c = true <->
  In c (zprefix (esc_row m)) \/ (x = true /\ (restricted11 c \/ c = 0x85 \/ c = 0x2028)).
Proof.
  intros x m c. unfold in_escape_list. rewrite orb_true_iff, in_zlist_spec.
  destruct x; cbn [andb].
  - rewrite !orb_true_iff, control11_spec, !N.eqb_eq. intuition.
  - intuition; discriminate.
Qed.

(** an escaped character is never written as itself, an unescaped one always is *)
Lemma esc_ref_head : forall c, exists t, esc_ref c = 38 :: t /\ t <> [].
Proof.
  intros c. unfold esc_ref, esc_switch. cbn [find fst snd].
  repeat match goal with |- context [if ?b then _ else _] => destruct b end;
    try (eexists; split; [reflexivity|discriminate]).
Qed.

Lemma esc1_exact : forall x m c,
  (esc1 x m c = [c] <-> (m = NoEscapes \/ in_escape_list x m c = false)) /\
  (m <> NoEscapes -> in_escape_list x m c = true -> esc1 x m c = esc_ref c).
Proof.
  intros x m c. unfold esc1, esc1_gen. split.
  - destruct m; try (split; [left; reflexivity|reflexivity]);
      (destruct (in_escape_list x _ c) eqn:E;
       [ split; [intros H; destruct (esc_ref_head c) as [t [Ht Hn]]; rewrite Ht in H; injection H as _ H'; contradiction
                | intros [H|H]; discriminate]
       | split; [right; reflexivity|reflexivity] ]).
  - intros Hm H. destruct m; [contradiction| | |]; rewrite H; reflexivity.
Qed.
