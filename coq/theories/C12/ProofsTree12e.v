(** C12 tree-level lemmas, part e: the round trip by induction over the tree. *)
From Coq Require Import ZArith ZifyBool ZifyN ZifyNat Lia.
From XV Require Import C05.Spec05 C05.Model05 C12.Spec12 C12.Model12 C12.SpecTree12
  C12.Proofs12a C12.Proofs12b C12.Proofs12c C12.Proofs12d C12.Proofs12e C12.Proofs12f
  C12.ProofsTree12a C12.ProofsTree12b C12.ProofsTree12c C12.ProofsTree12d.
Local Open Scope N_scope.

Definition ser_kids (cf : scfg) : list node -> res (list N) serr :=
  fix go (l : list node) : res (list N) serr :=
    match l with
    | [] => Ok []
    | k :: r => bind (ser_node cf k) (fun a => bind (go r) (fun b => Ok (a ++ b)))
    end.

Lemma ser_kids_cons : forall cf k r,
  ser_kids cf (k :: r) = bind (ser_node cf k) (fun a => bind (ser_kids cf r) (fun b => Ok (a ++ b))).
Proof. reflexivity. Qed.

Lemma ser_node_elem : forall cf name attrs kids,
  ser_node cf (Elem name attrs kids) =
  bind (markup cf (60 :: name)) (fun st =>
  bind (ser_attrs cf attrs) (fun at_ =>
  match kids with
  | [] => Ok (st ++ at_ ++ [47; 62])
  | _ => bind (ser_kids cf kids) (fun body =>
         bind (markup cf (ser_gEndElement ++ name ++ [62])) (fun et => Ok (st ++ at_ ++ [62] ++ body ++ et)))
  end)).
Proof. reflexivity. Qed.

Fixpoint nsize (n : node) : nat :=
  match n with
  | Elem _ _ kids => S ((fix go (l : list node) : nat := match l with [] => O | k :: r => (nsize k + go r)%nat end) kids)
  | _ => 1%nat
  end.
Fixpoint lsize (l : list node) : nat := match l with [] => O | k :: r => (nsize k + lsize r)%nat end.

Lemma nsize_elem : forall n a k, nsize (Elem n a k) = S (lsize k).
Proof. intros n a k. reflexivity. Qed.
Lemma nsize_pos : forall n, (1 <= nsize n)%nat.
Proof. destruct n; cbn [nsize]; lia. Qed.

Lemma expand_elem : forall cf n a k, expand cf (Elem n a k) = [Elem n a (merge_acc [] (expand_list cf k))].
Proof.
  intros cf n a k. cbn [expand]. do 3 f_equal. induction k as [|x r IH]; [reflexivity|]. cbn [expand_list]. rewrite <- IH. reflexivity.
Qed.
Lemma expressible_elem : forall cf n a k,
  expressible cf (Elem n a k) = name_ok n && forallb (fun a => name_ok (fst a)) a && expressible_list cf k.
Proof.
  intros cf n a k. cbn [expressible]. f_equal. induction k as [|x r IH]; [reflexivity|]. cbn [expressible_list]. rewrite <- IH. reflexivity.
Qed.
Lemma in_scope_elem : forall cf n a k,
  in_scope cf (Elem n a k) = forallb (fun a => u16b (snd a)) a && in_scope_list cf k.
Proof.
  intros cf n a k. cbn [in_scope]. f_equal. induction k as [|x r IH]; [reflexivity|]. cbn [in_scope_list]. rewrite <- IH. reflexivity.
Qed.
Lemma weight_elem : forall n a k, node_weight (Elem n a k) = (6 + length a + list_weight k)%nat.
Proof. intros n a k. reflexivity. Qed.

Lemma u16b_units : forall s, u16b s = true -> units16 s.
Proof.
  intros s H. unfold u16b in H. rewrite forallb_forall in H. apply Forall_forall. intros c Hc.
  specialize (H c Hc). apply N.ltb_lt. exact H.
Qed.
Lemma u16b_attrs : forall (a : list (list N * list N)), forallb (fun p => u16b (snd p)) a = true ->
  Forall (fun p => units16 (snd p)) a.
Proof.
  intros a H. rewrite forallb_forall in H. apply Forall_forall. intros p Hp. apply u16b_units. apply H. exact Hp.
Qed.

(** CDATA: shape of the items when every unit is representable *)
Lemma pieces_old_nonempty : forall s cur, cdata_pieces_old s cur <> [].
Proof.
  induction s as [|a r IH]; intros cur; cbn [cdata_pieces_old]; [discriminate|].
  destruct r as [|b [|c r2]]; try apply IH. destruct ((a =? 93) && (b =? 93) && (c =? 62)); [discriminate|apply IH].
Qed.

Lemma pieces_old_one : forall s cur, (length (cdata_pieces_old s cur) <= 1)%nat -> cdata_pieces s cur = [rev cur ++ s].
Proof.
  induction s as [|a r IH]; intros cur H.
  - cbn [cdata_pieces]. rewrite app_nil_r. reflexivity.
  - cbn [cdata_pieces_old] in H. cbn [cdata_pieces]. destruct r as [|b [|c r2]].
    + rewrite (IH (a :: cur) H). cbn [rev]. rewrite <- app_assoc. reflexivity.
    + rewrite (IH (a :: cur) H). cbn [rev]. rewrite <- app_assoc. reflexivity.
    + destruct ((a =? 93) && (b =? 93) && (c =? 62)).
      * cbn [length] in H. pose proof (pieces_old_nonempty r2 []) as Hne.
        destruct (cdata_pieces_old r2 []); [contradiction|cbn [length] in H; lia].
      * rewrite (IH (a :: cur) H). cbn [rev]. rewrite <- app_assoc. reflexivity.
Qed.

Lemma nce_of_single : forall s, (length (cdata_pieces_old s []) <= 1)%nat -> no_cdata_end s = true.
Proof.
  intros s H. pose proof (pieces_old_one s [] H) as E. cbn [rev app] in E.
  assert (Hsafe : safe [] s) by (unfold safe; cbn [rev app]; apply nce_short; rewrite firstn_length; lia).
  pose proof (pieces_safe (length s) s (le_n _) [] Hsafe) as HF. rewrite E in HF. inversion HF; subst. assumption.
Qed.

Lemma no_eol_concat : forall x l, no_eol x (concat l) = true -> Forall (fun p => no_eol x p = true) l.
Proof.
  intros x l H. apply Forall_forall. intros p Hp. unfold no_eol in *.
  apply (forallb_concat _ l H p Hp).
Qed.

Lemma cdata_items_shape : forall can x s, forallb can s = true -> no_eol x s = true ->
  exists l, cdata_items can s = map CSect l /\
            Forall (fun p => no_cdata_end p = true /\ no_eol x p = true) l /\ (length l <= S (length s))%nat.
Proof.
  intros can x s Hc He. unfold cdata_items. destruct s as [|a r].
  - exists [[]]. split; [reflexivity|]. split; [repeat constructor|cbn; lia].
  - set (s := a :: r) in *.
    pose proof (cdata_pieces_concat (length s) s (le_n _) []) as Ec. cbn [rev app] in Ec.
    assert (Hsafe : safe [] s) by (unfold safe; cbn [rev app]; apply nce_short; rewrite firstn_length; lia).
    pose proof (pieces_safe (length s) s (le_n _) [] Hsafe) as HF.
    assert (Hcan : forall p, In p (cdata_pieces s []) -> forallb can p = true).
    { intros p Hp. apply (forallb_concat can (cdata_pieces s [])); [rewrite Ec; exact Hc|exact Hp]. }
    rewrite items_are_pieces by exact Hcan.
    set (l := filter (fun p => match p with [] => false | _ => true end) (cdata_pieces s [])).
    exists l. split; [reflexivity|]. split.
    + apply Forall_forall. intros p Hp. unfold l in Hp. apply filter_In in Hp. destruct Hp as [Hp _]. split.
      * rewrite Forall_forall in HF. apply HF. exact Hp.
      * assert (HE : Forall (fun p => no_eol x p = true) (cdata_pieces s [])) by (apply no_eol_concat; rewrite Ec; exact He).
        rewrite Forall_forall in HE. apply HE. exact Hp.
    + assert (G : forall (m : list (list N)), Forall (fun p => p <> []) m -> (length m <= length (concat m))%nat).
      { induction m as [|q m IHm]; intros Hm; [cbn; lia|]. inversion Hm; subst. cbn [length concat].
        rewrite app_length. destruct q; [contradiction|]. cbn [length]. specialize (IHm H2). lia. }
      assert (Hne : Forall (fun p => p <> []) l).
      { apply Forall_forall. intros p Hp. unfold l in Hp. apply filter_In in Hp. destruct Hp as [_ Hp]. destruct p; discriminate. }
      specialize (G l Hne). unfold l in G at 2. rewrite concat_filter_nonempty, Ec in G. lia.
Qed.

Lemma sections_parse : forall x l T L rest w,
  Forall (fun p => no_cdata_end p = true /\ no_eol x p = true) l -> Parses x T L rest w ->
  Parses x (flat_map citem_out (map CSect l) ++ T) (map cd_node (map CSect l) ++ L) rest (w + 2 * length l).
Proof.
  intros x. induction l as [|p l IH]; intros T L rest w HF HP.
  - cbn [map flat_map app length]. rewrite Nat.mul_0_r, Nat.add_0_r. exact HP.
  - inversion HF as [|p' l' [Hn He] Hl]; subst. cbn [map flat_map cd_node app]. rewrite <- app_assoc.
    destruct gen_strings as [_ [_ [Es [Ee _]]]]. unfold citem_out. rewrite Es, Ee.
    apply (parses_mono x _ _ rest ((w + 2 * length l) + 0 + 2)); [|cbn [length]; lia].
    change ([60; 33; 91; 67; 68; 65; 84; 65; 91] ++ p ++ [93; 93; 62]) with (60 :: [33; 91; 67; 68; 65; 84; 65; 91] ++ p ++ [93; 93; 62]).
    apply parses_node.
    + intros acc L'. reflexivity.
    + intros f T' _. apply cdata_fact; assumption.
    + apply IH; assumption.
Qed.

Lemma parses_node' : forall x M' N T L rest w k S0 L0 w0,
  S0 = (60 :: M') ++ T -> L0 = N :: L -> (w + k + 2 <= w0)%nat ->
  (forall acc L', merge_acc acc (N :: L') = flushT acc ++ N :: merge_acc [] L') ->
  (forall f T', (k <= f)%nat -> parse_content x (S f) ((60 :: M') ++ T') = pc_cons N (parse_content x f T')) ->
  Parses x T L rest w -> Parses x S0 L0 rest w0.
Proof.
  intros x M' N T L rest w k S0 L0 w0 ES EL Hw Hm Hfact HP. subst S0 L0.
  apply (parses_mono x _ _ rest (w + k + 2)); [|exact Hw]. apply parses_node; assumption.
Qed.

Theorem kids_parse : forall cf, c_fixed cf = true -> can_uniform (c_can cf) ->
  forall n kids, (lsize kids <= n)%nat -> forall out, ser_kids cf kids = Ok out ->
  expressible_list cf kids = true -> in_scope_list cf kids = true ->
  forall T L rest w, Parses (c_xml11 cf) T L rest w ->
  Parses (c_xml11 cf) (out ++ T) (expand_list cf kids ++ L) rest (w + list_weight kids).
Proof.
  intros cf Hf Hu. induction n as [|n IH]; intros kids Hsz out Hs He Hg T L rest w HP.
  - destruct kids as [|k r].
    + cbn in Hs. injection Hs as Hs. subst out. cbn [app expand_list list_weight]. rewrite Nat.add_0_r. exact HP.
    + cbn [lsize] in Hsz. pose proof (nsize_pos k). lia.
  - destruct kids as [|k r].
    + cbn in Hs. injection Hs as Hs. subst out. cbn [app expand_list list_weight]. rewrite Nat.add_0_r. exact HP.
    + rewrite ser_kids_cons in Hs. destruct (ser_node cf k) as [ok|] eqn:Ek; cbn [bind] in Hs; [|discriminate].
      destruct (ser_kids cf r) as [orr|] eqn:Er; cbn [bind] in Hs; [|discriminate]. injection Hs as Hs. subst out.
      cbn [expressible_list] in He. apply andb_true_iff in He. destruct He as [Hek Her].
      cbn [in_scope_list] in Hg. apply andb_true_iff in Hg. destruct Hg as [Hgk Hgr].
      cbn [lsize] in Hsz. pose proof (nsize_pos k) as Hpos.
      assert (HPr : Parses (c_xml11 cf) (orr ++ T) (expand_list cf r ++ L) rest (w + list_weight r)).
      { apply (IH r); try assumption; try reflexivity. lia. }
      cbn [expand_list list_weight]. rewrite <- !app_assoc.
      destruct k as [name attrs kids'|s|s|s|t d].
      * (* element *)
        rewrite ser_node_elem in Ek. unfold markup in Ek.
        destruct (forallb (c_can cf) (60 :: name)) eqn:Ecn; cbn [bind] in Ek; [|discriminate].
        destruct (ser_attrs cf attrs) as [ar|] eqn:Ea; cbn [bind] in Ek; [|discriminate].
        rewrite expressible_elem in Hek. apply andb_true_iff in Hek. destruct Hek as [Hek Hekk].
        apply andb_true_iff in Hek. destruct Hek as [Hname Hanames].
        rewrite in_scope_elem in Hgk. apply andb_true_iff in Hgk. destruct Hgk as [Hga Hgkk].
        pose proof (u16b_attrs attrs Hga) as H16.
        rewrite expand_elem, weight_elem. rewrite nsize_elem in Hsz.
        destruct kids' as [|k1 ks].
        -- injection Ek as Ek. subst ok. cbn [expand_list merge_acc flushT list_weight].
           apply (parses_node' _ (name ++ ar ++ [47; 62]) (Elem name attrs []) (orr ++ T) (expand_list cf r ++ L) rest
                    (w + list_weight r) (length attrs + 1)); [reflexivity|reflexivity|lia|intros; reflexivity| |exact HPr].
           intros f T' Hfu. apply (elem_fact_empty cf Hf Hu); assumption.
        -- destruct (ser_kids cf (k1 :: ks)) as [body|] eqn:Eb; cbn [bind] in Ek; [|discriminate].
           destruct (forallb (c_can cf) (ser_gEndElement ++ name ++ [62])); cbn [bind] in Ek; [|discriminate].
           injection Ek as Ek. subst ok.
           set (kk := k1 :: ks) in *.
           apply (parses_node' _ (name ++ ar ++ [62] ++ body ++ [60; 47] ++ name ++ [62])
                    (Elem name attrs (merge_acc [] (expand_list cf kk))) (orr ++ T) (expand_list cf r ++ L) rest
                    (w + list_weight r) ((length attrs + 1) + (2 + list_weight kk)));
             [reflexivity|reflexivity|lia|intros; reflexivity| |exact HPr].
           intros f T' Hfu.
           apply (elem_fact_kids cf Hf Hu name attrs ar body (merge_acc [] (expand_list cf kk)) (2 + list_weight kk)); try assumption; try lia.
           intros f' Hf'.
           assert (Hbase : Parses (c_xml11 cf) (([60; 47] ++ name ++ [62]) ++ T') [] (([60; 47] ++ name ++ [62]) ++ T') 2).
           { apply parses_base. right. reflexivity. }
           pose proof (IH kk ltac:(lia) body Eb Hekk Hgkk _ _ _ _ Hbase) as HPb.
           pose proof (HPb [] [] (escof_nil _) f' ltac:(lia)) as E. cbn [app] in E. rewrite app_nil_r in E. exact E.
      * (* text *)
        cbn [ser_node] in Ek. rewrite Hf in Ek. destruct (valid_string true (c_xml11 cf) s) eqn:Ev; cbn [negb] in Ek; [|discriminate].
        injection Ek as Ek. subst ok. cbn [expand app node_weight]. cbn [in_scope] in Hgk.
        rewrite data16_fixed by exact Hf. apply parses_text; [|exact HPr].
        apply escof_text; [exact Hu|]. apply (valid_is_xml _ _ (length s) s (le_n _) (u16b_units s Hgk) Ev).
      * (* CDATA *)
        cbn [ser_node] in Ek. cbn [expressible] in Hek. cbn [in_scope] in Hgk. cbn [expand node_weight].
        destruct (c_split cf) eqn:Esp.
        -- rewrite Hf in Ek. destruct (valid_string false (c_xml11 cf) s); cbn [negb] in Ek; [|discriminate].
           injection Ek as Ek. subst ok.
           destruct (cdata_items_shape (c_can cf) (c_xml11 cf) s Hgk Hek) as [l [El [HF Hlen]]]. rewrite El.
           apply (parses_mono _ _ _ rest ((w + list_weight r) + 2 * length l)); [|lia].
           apply sections_parse; assumption.
        -- destruct (valid_string false (c_xml11 cf) s); cbn [negb] in Ek; [|discriminate].
           destruct (Nat.ltb 1 (length (cdata_pieces_old s []))) eqn:El; [discriminate|].
           apply Nat.ltb_ge in El. unfold markup in Ek.
           destruct (forallb (c_can cf) (ser_gStartCDATA ++ s ++ ser_gEndCDATA)); [|discriminate].
           injection Ek as Ek. subst ok.
           apply (parses_node' _ ([33; 91; 67; 68; 65; 84; 65; 91] ++ s ++ [93; 93; 62]) (CData s) (orr ++ T)
                    (expand_list cf r ++ L) rest (w + list_weight r) 0);
             [reflexivity|reflexivity|cbn [length]; lia|intros; reflexivity| |exact HPr].
           intros f T' _. apply cdata_fact; [apply nce_of_single; exact El|exact Hek].
      * (* comment *)
        cbn [ser_node] in Ek. destruct (valid_string false (c_xml11 cf) s); cbn [negb] in Ek; [|discriminate].
        destruct (c_fixed cf && (occurs2 45 45 s || ends_with 45 s)); [discriminate|].
        unfold markup in Ek. destruct (forallb (c_can cf) (ser_gStartComment ++ s ++ ser_gEndComment)); [|discriminate].
        injection Ek as Ek. subst ok.
        cbn [expressible] in Hek. apply andb_true_iff in Hek. destruct Hek as [H1 H2].
        cbn [expand node_weight app].
        apply (parses_node' _ ([33; 45; 45] ++ s ++ [45; 45; 62]) (Comment s) (orr ++ T)
                 (expand_list cf r ++ L) rest (w + list_weight r) 0);
          [reflexivity|reflexivity|lia|intros; reflexivity| |exact HPr].
        intros f T' _. apply comment_fact; assumption.
      * (* PI *)
        cbn [ser_node] in Ek.
        destruct (valid_string false (c_xml11 cf) t && valid_string false (c_xml11 cf) d); cbn [negb] in Ek; [|discriminate].
        destruct (c_fixed cf && occurs2 63 62 d); [discriminate|].
        unfold markup in Ek.
        destruct (forallb (c_can cf) (ser_gStartPI ++ t ++ match d with [] => [] | _ :: _ => 32 :: d end ++ ser_gEndPI)); [|discriminate].
        injection Ek as Ek. subst ok.
        cbn [expressible] in Hek. repeat (apply andb_true_iff in Hek; destruct Hek as [Hek ?]).
        cbn [expand node_weight app].
        apply (parses_node' _ ([63] ++ t ++ match d with [] => [] | _ :: _ => 32 :: d end ++ [63; 62]) (PI t d) (orr ++ T)
                 (expand_list cf r ++ L) rest (w + list_weight r) 0);
          [reflexivity|reflexivity|lia|intros; reflexivity| |exact HPr].
        intros f T' _. apply pi_fact; try assumption.
        -- destruct (list_eqb t xml_target); [discriminate|reflexivity].
        -- destruct d as [|c0 d']; [exact I|]. destruct (is_ws c0); [discriminate|reflexivity].
Qed.
