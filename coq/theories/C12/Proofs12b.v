(** C12 lemmas, part b: a character reference written by writeCharRef is read back by the specification
    parser as the code point it was made from. *)
From Coq Require Import ZArith ZifyBool ZifyN ZifyNat Lia.
From XV Require Import C05.Spec05 C05.Model05 C12.Spec12 C12.Model12.
Local Open Scope N_scope.
Ltac Zify.zify_post_hook ::= Z.div_mod_to_equations.

Lemma sweep16 : forall (P : N -> bool), forallb P (nrange 16) = true -> forall d, d < 16 -> P d = true.
Proof. intros P H d Hd. rewrite forallb_forall in H. apply H. apply nrange_in. exact Hd. Qed.

Lemma hexval_digit : forall d, d < 16 -> hexval (hexdigit d) = Some d /\ (hexdigit d =? 59) = false.
Proof.
  intros d Hd.
  pose proof (sweep16 (fun d => match hexval (hexdigit d) with Some e => (e =? d) && negb (hexdigit d =? 59) | None => false end)
                      ltac:(vm_compute; reflexivity) d Hd) as H.
  cbv beta in H. destruct (hexval (hexdigit d)) as [e|]; [|discriminate].
  apply andb_true_iff in H. destruct H as [H1 H2]. apply N.eqb_eq in H1. subst e.
  split; [reflexivity|]. destruct (hexdigit d =? 59); [discriminate|reflexivity].
Qed.

(** what the parser accumulates over a list of hexadecimal digits *)
Fixpoint hexfold (l : list N) (a : N) : N :=
  match l with
  | [] => a
  | c :: r => match hexval c with Some d => hexfold r (a * 16 + d) | None => a end
  end.

Definition isdig (c : N) : Prop := exists d, d < 16 /\ c = hexdigit d.

Lemma hex_go_digits : forall f v acc, Forall isdig acc -> Forall isdig (hex_go f v acc).
Proof.
  induction f as [|f IH]; intros v acc Ha; cbn [hex_go]; [exact Ha|].
  assert (Hd : isdig (hexdigit (v mod 16))) by (exists (v mod 16); split; [lia|reflexivity]).
  destruct (v / 16 =? 0); [constructor; assumption|]. apply IH. constructor; assumption.
Qed.

Lemma hex_go_keeps : forall f v acc, acc <> [] -> hex_go f v acc <> [].
Proof.
  induction f as [|f IH]; intros v acc Ha; cbn [hex_go]; [exact Ha|].
  destruct (v / 16 =? 0); [discriminate|]. apply IH. discriminate.
Qed.

Lemma hex_go_nonempty : forall f v acc, hex_go (S f) v acc <> [].
Proof.
  intros f v acc. cbn [hex_go]. destruct (v / 16 =? 0); [discriminate|]. apply hex_go_keeps. discriminate.
Qed.

Lemma hexfold_digit : forall d acc a, d < 16 -> hexfold (hexdigit d :: acc) a = hexfold acc (a * 16 + d).
Proof. intros d acc a Hd. cbn [hexfold]. rewrite (proj1 (hexval_digit d Hd)). reflexivity. Qed.

Lemma hex_go_value : forall f v acc, v < 16 ^ N.of_nat f -> (1 <= f)%nat ->
  hexfold (hex_go f v acc) 0 = hexfold acc v.
Proof.
  induction f as [|f IH]; intros v acc Hv Hf; [lia|].
  cbn [hex_go]. rewrite Nat2N.inj_succ, N.pow_succ_r' in Hv.
  destruct (N.eqb_spec (v / 16) 0) as [E|E].
  - rewrite hexfold_digit by lia. f_equal. lia.
  - destruct f as [|f'].
    + change (16 ^ N.of_nat 0) with 1 in Hv. lia.
    + rewrite IH; [|lia|lia]. rewrite hexfold_digit by lia. f_equal. lia.
Qed.

Lemma hex_value : forall v, v < 4294967296 -> hexfold (hex v) 0 = v.
Proof.
  intros v Hv. unfold hex. rewrite hex_go_value; [reflexivity| |lia].
  change (16 ^ N.of_nat 16) with 18446744073709551616. lia.
Qed.

Lemma hex_digits : forall v, Forall isdig (hex v).
Proof. intros v. apply hex_go_digits. constructor. Qed.

Lemma hex_nonempty : forall v, hex v <> [].
Proof. intros v. apply hex_go_nonempty. Qed.

(** the parser in state PHex over digits *)
Lemma unesc_hex_digits : forall attr x l a rest, Forall isdig l ->
  unesc attr x (PHex a) (l ++ rest) = unesc attr x (PHex (hexfold l a)) rest.
Proof.
  intros attr x. induction l as [|c r IH]; intros a rest Hl; [reflexivity|].
  inversion Hl as [|c' r' [d [Hd Hc]] Hr]; subst.
  destruct (hexval_digit d Hd) as [Hv H59].
  cbn [app unesc step hexfold]. rewrite H59, Hv. rewrite IH by exact Hr.
  destruct (unesc attr x (PHex (hexfold r (a * 16 + d))) rest); reflexivity.
Qed.

(** [utf16_enc] of a BMP code point *)
Lemma utf16_enc_bmp : forall c, c < 0x10000 -> utf16_enc c = [c].
Proof. intros c H. unfold utf16_enc. destruct (N.ltb_spec c 0x10000); [reflexivity|lia]. Qed.

Lemma unesc_charref : forall attr x cr nb v rest, v < 4294967296 -> ref_ok x v = true ->
  unesc attr x (PText cr nb) (charref v ++ rest) =
  match unesc attr x (PText false 0) rest with Some t => Some (utf16_enc v ++ t) | None => None end.
Proof.
  intros attr x cr nb v rest Hv Hok. unfold charref.
  pose proof (hex_digits v) as Hd. pose proof (hex_nonempty v) as Hn. pose proof (hex_value v Hv) as Hval.
  destruct (hex v) as [|c0 l]; [contradiction|]. clear Hn.
  inversion Hd as [|c' r' [d [Hdlt Hc]] Hr]; subst c' r'. subst c0.
  destruct (hexval_digit d Hdlt) as [Hvd H59].
  cbn [hexfold] in Hval. rewrite Hvd in Hval. change (0 * 16 + d) with d in Hval.
  cbn [app]. cbn [unesc].
  (* "&" *)
  assert (S1 : step attr x (PText cr nb) 38 = Some (PAmp, [])) by reflexivity. rewrite S1.
  assert (S2 : step attr x PAmp 35 = Some (PHash, [])) by reflexivity. cbn [unesc]. rewrite S2.
  assert (S3 : step attr x PHash 120 = Some (PHexStart, [])) by reflexivity. cbn [unesc]. rewrite S3.
  cbn [unesc]. assert (S4 : step attr x PHexStart (hexdigit d) = Some (PHex d, [])) by (cbn [step]; rewrite Hvd; reflexivity).
  rewrite S4.
  rewrite <- app_assoc. change ([59] ++ rest) with (59 :: rest). rewrite unesc_hex_digits by exact Hr. rewrite Hval.
  cbn [unesc]. assert (S5 : step attr x (PHex v) 59 = Some (PText false 0, utf16_enc v)) by (cbn [step]; rewrite Hok; reflexivity).
  rewrite S5. cbn [app]. destruct (unesc attr x (PText false 0) rest); reflexivity.
Qed.

(** surrogate arithmetic *)
Lemma hi_lo_bounds : forall c d, hi_sur c = true -> lo_sur d = true ->
  0xD800 <= c <= 0xDBFF /\ 0xDC00 <= d <= 0xDFFF.
Proof. intros c d. unfold hi_sur, lo_sur. lia. Qed.

Lemma comb_spec : forall c d, hi_sur c = true -> lo_sur d = true ->
  comb c d = 0x10000 + (c - 0xD800) * 1024 + (d - 0xDC00).
Proof.
  intros c d Hc Hd. destruct (hi_lo_bounds c d Hc Hd). unfold comb. rewrite N.shiftl_mul_pow2.
  change (2 ^ 10) with 1024. lia.
Qed.

Lemma comb_enc : forall c d, hi_sur c = true -> lo_sur d = true ->
  utf16_enc (comb c d) = [c; d] /\ ref_ok true (comb c d) = true /\ ref_ok false (comb c d) = true /\
  comb c d < 4294967296.
Proof.
  intros c d Hc Hd. rewrite comb_spec by assumption. destruct (hi_lo_bounds c d Hc Hd) as [H1 H2].
  set (v := 0x10000 + (c - 0xD800) * 1024 + (d - 0xDC00)).
  assert (Ev : v = 0x10000 + (c - 0xD800) * 1024 + (d - 0xDC00)) by reflexivity.
  assert (Hr : 0x10000 <= v <= 0x10FFFF) by lia.
  repeat split.
  - unfold utf16_enc. destruct (N.ltb_spec v 0x10000); [lia|].
    assert (E1 : (v - 0x10000) / 1024 = c - 0xD800) by lia.
    assert (E2 : (v - 0x10000) mod 1024 = d - 0xDC00) by lia.
    rewrite E1, E2. f_equal; [lia|]. f_equal. lia.
  - unfold ref_ok. clearbody v. lia.
  - unfold ref_ok. clearbody v. lia.
  - clearbody v. lia.
Qed.

(** [is_high] (the mask test of the C++) on 16-bit units is the range test *)
Lemma is_high_sweep :
  forallb (fun h => forallb (fun l => Bool.eqb (is_high (1024 * h + l)) (hi_sur (1024 * h + l))) (nrange 1024)) (nrange 64) = true.
Proof. vm_compute. reflexivity. Qed.

Lemma is_high_spec : forall c, c < 65536 -> is_high c = hi_sur c.
Proof.
  intros c Hc. pose proof is_high_sweep as H. rewrite forallb_forall in H.
  assert (Hh : In (c / 1024) (nrange 64)) by (apply nrange_in; change (N.of_nat 64) with 64; lia).
  specialize (H _ Hh). rewrite forallb_forall in H.
  assert (Hl : In (c mod 1024) (nrange 1024)) by (apply nrange_in; change (N.of_nat 1024) with 1024; lia).
  specialize (H _ Hl). replace (1024 * (c / 1024) + c mod 1024) with c in H by lia.
  apply Bool.eqb_prop in H. exact H.
Qed.
