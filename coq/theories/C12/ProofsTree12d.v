(** C12 tree-level lemmas, part d: start tags with attributes, elements. *)
From Coq Require Import ZArith ZifyBool ZifyN ZifyNat Lia.
From XV Require Import C05.Spec05 C05.Model05 C12.Spec12 C12.Model12 C12.SpecTree12
  C12.Proofs12a C12.Proofs12b C12.Proofs12c C12.Proofs12d C12.Proofs12e C12.Proofs12f
  C12.ProofsTree12a C12.ProofsTree12b C12.ProofsTree12c.
Local Open Scope N_scope.

Definition tail_close (tail : list N) : Prop := match tail with c :: _ => c = 47 \/ c = 62 | [] => False end.

Lemma attr_value_facts : forall cf v, c_fixed cf = true -> can_uniform (c_can cf) -> units16 v ->
  valid_string true (c_xml11 cf) v = true ->
  unescape_parse true (c_xml11 cf) (data16 cf AttrEscapes v) = Some v /\ none_is 34 (data16 cf AttrEscapes v) = true.
Proof.
  intros cf v Hf Hu H16 Hv.
  assert (E : unescape_parse true (c_xml11 cf) (data16 cf AttrEscapes v) = Some v).
  { rewrite data16_fixed by exact Hf. apply roundtrip_attr; [exact Hu|].
    apply (valid_is_xml _ _ (length v) v (le_n _) H16 Hv). }
  split; [exact E|]. unfold unescape_parse in E. destruct (unesc_no_lt _ _ _ _ _ E) as [_ H]. apply H. reflexivity.
Qed.

Lemma attrs_fact : forall cf, c_fixed cf = true -> can_uniform (c_can cf) -> forall attrs ar,
  ser_attrs cf attrs = Ok ar -> forallb (fun a => name_ok (fst a)) attrs = true ->
  Forall (fun a => units16 (snd a)) attrs ->
  forall tail f, tail_close tail -> (length attrs + 1 <= f)%nat ->
  parse_attrs (c_xml11 cf) f (ar ++ tail) = Some (attrs, tail).
Proof.
  intros cf Hf Hu. induction attrs as [|[n v] r IH]; intros ar H Hn H16 tail f Ht Hfu.
  - cbn [ser_attrs] in H. injection H as H. subst ar. cbn [app]. destruct f as [|f]; [cbn [length] in Hfu; lia|].
    destruct tail as [|c t]; [destruct Ht|]. cbn [parse_attrs].
    destruct (N.eqb_spec c 32) as [E|_]; [subst; cbn [tail_close] in Ht; lia|reflexivity].
  - cbn [ser_attrs] in H. rewrite Hf in H. unfold markup in H.
    destruct (forallb (c_can cf) (32 :: n)) eqn:En; cbn [bind] in H; [|discriminate].
    destruct (valid_string true (c_xml11 cf) v) eqn:Ev; cbn [negb] in H; [|discriminate].
    destruct (ser_attrs cf r) as [o|] eqn:Er; cbn [bind] in H; [|discriminate]. injection H as H. subst ar.
    cbn [forallb fst] in Hn. apply andb_true_iff in Hn. destruct Hn as [Hn0 Hnr].
    inversion H16 as [|a l Hv16 Hr16]; subst. cbn [snd] in Hv16.
    destruct (attr_value_facts cf v Hf Hu Hv16 Ev) as [Eu E34].
    destruct (name_ok_inv n Hn0) as [c0 [n0 [En0 [Hc0 Hall]]]].
    destruct f as [|f]; [lia|]. cbn [length] in Hfu.
    repeat first [rewrite <- app_assoc | progress cbn [app]]. cbn [parse_attrs]. cbn [N.eqb Pos.eqb].
    rewrite (take_name_app n (61 :: 34 :: data16 cf AttrEscapes v ++ 34 :: o ++ tail) Hall eq_refl).
    rewrite En0 at 1. cbv iota beta. cbn [prefix_b skipn N.eqb Pos.eqb andb].
    rewrite (span_until_app 34 (data16 cf AttrEscapes v) (34 :: o ++ tail) E34 eq_refl).
    rewrite Eu. rewrite (IH o eq_refl Hnr Hr16 tail f Ht) by lia. try rewrite <- En0. reflexivity.
Qed.

Lemma elem_head : forall x f c0 n0 Z, name_unit c0 = true ->
  parse_content x (S f) (60 :: c0 :: n0 ++ Z) =
  let (name, r1) := take_name (c0 :: n0 ++ Z) in
  match name with
  | [] => None
  | _ =>
    match parse_attrs x f r1 with
    | None => None
    | Some (attrs, r2) =>
      if prefix_b [47; 62] r2 then pc_cons (Elem name attrs []) (parse_content x f (skipn 2 r2))
      else if prefix_b [62] r2 then
        match parse_content x f (skipn 1 r2) with
        | Some (kids, r3) =>
          if prefix_b ([60; 47] ++ name ++ [62]) r3
          then pc_cons (Elem name attrs kids) (parse_content x f (skipn (3 + length name) r3))
          else None
        | None => None
        end
      else None
    end
  end.
Proof.
  intros x f c0 n0 Z Hc. destruct (name_unit_facts c0 Hc) as [H47 [H33 [H63 [H60 H60']]]].
  cbn [parse_content]. cbn [prefix_b]. rewrite H47, H33, H63. cbn [N.eqb Pos.eqb andb]. reflexivity.
Qed.

Lemma elem_fact_empty : forall cf, c_fixed cf = true -> can_uniform (c_can cf) -> forall name attrs ar f T',
  name_ok name = true -> ser_attrs cf attrs = Ok ar -> forallb (fun a => name_ok (fst a)) attrs = true ->
  Forall (fun a => units16 (snd a)) attrs -> (length attrs + 1 <= f)%nat ->
  parse_content (c_xml11 cf) (S f) ((60 :: name ++ ar ++ [47; 62]) ++ T') =
  pc_cons (Elem name attrs []) (parse_content (c_xml11 cf) f T').
Proof.
  intros cf Hf Hu name attrs ar f T' Hn Ha Han H16 Hfu.
  destruct (name_ok_inv name Hn) as [c0 [n0 [En [Hc0 Hall]]]].
  cbn [app]. rewrite <- !app_assoc. cbn [app]. rewrite En at 1. cbn [app].
  rewrite (elem_head _ f c0 n0 (ar ++ 47 :: 62 :: T') Hc0).
  change (c0 :: n0 ++ ar ++ 47 :: 62 :: T') with ((c0 :: n0) ++ ar ++ 47 :: 62 :: T'). rewrite <- En.
  assert (Hs : starts_non_name (ar ++ 47 :: 62 :: T')).
  { destruct attrs as [|[an av] ra].
    - cbn [ser_attrs] in Ha. injection Ha as Ha. subst ar. reflexivity.
    - cbn [ser_attrs] in Ha. rewrite Hf in Ha. unfold markup in Ha.
      destruct (forallb (c_can cf) (32 :: an)); cbn [bind] in Ha; [|discriminate].
      destruct (negb (valid_string true (c_xml11 cf) av)); [discriminate|].
      destruct (ser_attrs cf ra); cbn [bind] in Ha; [|discriminate]. injection Ha as Ha. subst ar. reflexivity. }
  rewrite (take_name_app name _ Hall Hs). rewrite En at 1. cbv iota beta.
  rewrite (attrs_fact cf Hf Hu attrs ar Ha Han H16 (47 :: 62 :: T') f (or_introl eq_refl) Hfu).
  cbn [prefix_b skipn N.eqb Pos.eqb andb]. try rewrite <- En. reflexivity.
Qed.

Lemma elem_fact_kids : forall cf, c_fixed cf = true -> can_uniform (c_can cf) -> forall name attrs ar body Lb wb f T',
  name_ok name = true -> ser_attrs cf attrs = Ok ar -> forallb (fun a => name_ok (fst a)) attrs = true ->
  Forall (fun a => units16 (snd a)) attrs -> (length attrs + 1 <= f)%nat -> (wb <= f)%nat ->
  (forall f', (wb <= f')%nat ->
     parse_content (c_xml11 cf) f' (body ++ ([60; 47] ++ name ++ [62]) ++ T') = Some (Lb, ([60; 47] ++ name ++ [62]) ++ T')) ->
  parse_content (c_xml11 cf) (S f) ((60 :: name ++ ar ++ [62] ++ body ++ [60; 47] ++ name ++ [62]) ++ T') =
  pc_cons (Elem name attrs Lb) (parse_content (c_xml11 cf) f T').
Proof.
  intros cf Hf Hu name attrs ar body Lb wb f T' Hn Ha Han H16 Hfu Hwb Hbody.
  destruct (name_ok_inv name Hn) as [c0 [n0 [En [Hc0 Hall]]]].
  assert (Eshape : (60 :: name ++ ar ++ [62] ++ body ++ [60; 47] ++ name ++ [62]) ++ T' =
                   60 :: name ++ ar ++ 62 :: body ++ ([60; 47] ++ name ++ [62]) ++ T').
  { repeat first [rewrite <- app_assoc | progress cbn [app]]. reflexivity. }
  rewrite Eshape. rewrite En at 1. cbn [app].
  rewrite (elem_head _ f c0 n0 (ar ++ 62 :: body ++ ([60; 47] ++ name ++ [62]) ++ T') Hc0).
  change (c0 :: n0 ++ ar ++ 62 :: body ++ ([60; 47] ++ name ++ [62]) ++ T')
    with ((c0 :: n0) ++ ar ++ 62 :: body ++ ([60; 47] ++ name ++ [62]) ++ T'). rewrite <- En.
  assert (Hs : starts_non_name (ar ++ 62 :: body ++ ([60; 47] ++ name ++ [62]) ++ T')).
  { destruct attrs as [|[an av] ra].
    - cbn [ser_attrs] in Ha. injection Ha as Ha. subst ar. reflexivity.
    - cbn [ser_attrs] in Ha. rewrite Hf in Ha. unfold markup in Ha.
      destruct (forallb (c_can cf) (32 :: an)); cbn [bind] in Ha; [|discriminate].
      destruct (negb (valid_string true (c_xml11 cf) av)); [discriminate|].
      destruct (ser_attrs cf ra); cbn [bind] in Ha; [|discriminate]. injection Ha as Ha. subst ar. reflexivity. }
  rewrite (take_name_app name _ Hall Hs). rewrite En at 1. cbv iota beta.
  rewrite (attrs_fact cf Hf Hu attrs ar Ha Han H16 (62 :: body ++ ([60; 47] ++ name ++ [62]) ++ T') f (or_intror eq_refl) Hfu).
  cbn [prefix_b skipn N.eqb Pos.eqb andb]. rewrite (Hbody f Hwb).
  rewrite prefix_b_app.
  replace (3 + length name)%nat with (length ([60; 47] ++ name ++ [62])).
  - rewrite skipn_app_exact. reflexivity.
  - rewrite !app_length. cbn [length]. lia.
Qed.
