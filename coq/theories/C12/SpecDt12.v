(** Specification side of C12 for the document type declaration: a scanner for
      '<!DOCTYPE' S Name (S ExternalID)? (S '[' intSubset ']')? '>'        (XML production 28)
      ExternalID ::= 'SYSTEM' S SystemLiteral | 'PUBLIC' S PubidLiteral S SystemLiteral     (75)
      SystemLiteral ::= ('''' [^'']* '''') | (''''' [^']* ''''')   PubidLiteral likewise, made of PubidChars   (11, 12)
    It reports name, public identifier, system identifier and the text of the internal subset.  The internal subset
    is treated as an opaque string that ends at the first ']' (the serializer re-emits getInternalSubset() verbatim;
    its inner structure is the parser's business, property C04). *)
From XV Require Export Base.XDefs.
From XV Require Import C12.Spec12 C12.Model12 C12.SpecTree12 C12.ModelDt12.
Local Open Scope N_scope.

Definition take_lit (s : list N) : option (list N * list N) :=
  match s with
  | q :: r =>
    if (q =? 34) || (q =? 39) then
      let (v, r') := span_until q r in
      match r' with _ :: r'' => Some (v, r'') | [] => None end
    else None
  | [] => None
  end.

Definition kw_public : list N := [32; 80; 85; 66; 76; 73; 67; 32].     (* '' PUBLIC '' *)
Definition kw_system : list N := [32; 83; 89; 83; 84; 69; 77; 32].     (* '' SYSTEM '' *)
Definition kw_doctype : list N := [60; 33; 68; 79; 67; 84; 89; 80; 69; 32].   (* ''<!DOCTYPE '' *)

Definition parse_ext (r1 : list N) : option (list N * list N * list N) :=
  if prefix_b kw_public r1 then
    match take_lit (skipn 8 r1) with
    | Some (p, 32 :: r3) =>
      if forallb pubid_char p then
        match take_lit r3 with Some (sy, r4) => Some (p, sy, r4) | None => None end
      else None
    | _ => None
    end
  else if prefix_b kw_system r1 then
    match take_lit (skipn 8 r1) with Some (sy, r2) => Some ([], sy, r2) | None => None end
  else Some ([], [], r1).

Definition parse_sub (r2 : list N) : option (list N * list N) :=
  if prefix_b [32; 91] r2 then
    let (sb, r3) := span_until 93 (skipn 2 r2) in
    match r3 with _ :: r4 => Some (sb, r4) | [] => None end
  else Some ([], r2).

Definition parse_doctype (s : list N) : option (doctype * list N) :=
  if prefix_b kw_doctype s then
    let (name, r1) := take_name (skipn 10 s) in
    match name with
    | [] => None
    | _ =>
      match parse_ext r1 with
      | None => None
      | Some (p, sy, r2) =>
        match parse_sub r2 with
        | Some (sb, 62 :: r5) => Some (mk_dt name p sy sb, r5)
        | _ => None
        end
      end
    end
  else None.

(** what XML requires of a DocumentType and the serializer does not check: the name is a name, the internal
    subset (opaque here) has no ']' *)
Definition dt_expressible (d : doctype) : bool := name_ok (dt_name d) && none_is 93 (dt_sub d).
