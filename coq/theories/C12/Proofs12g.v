(** C12 lemmas, part g: the scope table of namespace fix-up never answers with a shadowed prefix. *)
From Coq Require Import ZArith ZifyBool ZifyN ZifyNat Lia.
From XV Require Import C12.ModelNs12.
Local Open Scope N_scope.

Lemma aget_aremove_eq : forall k l, aget k (aremove k l) = None.
Proof.
  intros k. induction l as [|[k' v] r IH]; [reflexivity|]. cbn [aremove].
  destruct (N.eqb_spec k' k); [exact IH|]. cbn [aget]. destruct (N.eqb_spec k' k); [contradiction|exact IH].
Qed.

Lemma aget_aremove_neq : forall k k0 l, k0 <> k -> aget k0 (aremove k l) = aget k0 l.
Proof.
  intros k k0. induction l as [|[k' v] r IH]; intros H; [reflexivity|]. cbn [aremove aget].
  destruct (N.eqb_spec k' k).
  - subst. destruct (N.eqb_spec k k0); [subst; contradiction|]. apply IH. exact H.
  - cbn [aget]. destruct (N.eqb_spec k' k0); [reflexivity|apply IH; exact H].
Qed.

Lemma aget_aput_eq : forall k v l, aget k (aput k v l) = Some v.
Proof. intros. unfold aput. cbn [aget]. rewrite N.eqb_refl. reflexivity. Qed.

Lemma aget_aput_neq : forall k k0 v l, k0 <> k -> aget k0 (aput k v l) = aget k0 l.
Proof.
  intros k k0 v l H. unfold aput. cbn [aget]. destruct (N.eqb_spec k k0); [subst; contradiction|].
  apply aget_aremove_neq. exact H.
Qed.

(** every uri -> prefix entry is the inverse of a current prefix -> uri entry *)
Definition Inv (t : tabs) : Prop := forall u p, aget u (t_uri t) = Some p -> aget p (t_pre t) = Some u.

Lemma inv_empty : Inv no_tabs.
Proof. intros u p H. discriminate. Qed.

Lemma bind_tabs_inv : forall t p u t', Inv t -> bind_tabs t p u = Some t' -> Inv t'.
Proof.
  intros t p u t' HI H. unfold bind_tabs in H. injection H as H. subst t'.
  intros u0 p0 H0. cbn [t_uri t_pre] in *.
  destruct (N.eq_dec u0 u) as [E|N].
  - subst u0. rewrite aget_aput_eq in H0. injection H0 as H0. subst p0. apply aget_aput_eq.
  - rewrite aget_aput_neq in H0 by exact N.
    (* the entry was already there before, and was not the one removed *)
    assert (Hold : aget u0 (t_uri t) = Some p0 /\
                   (p0 = p -> False)).
    { destruct (aget p (t_pre t)) as [old|] eqn:Eo.
      - destruct (aget old (t_uri t)) as [p'|] eqn:Eu.
        + destruct (N.eqb_spec p' p) as [Ep|Np].
          * subst p'. destruct (N.eq_dec u0 old) as [E2|N2].
            -- subst u0. rewrite aget_aremove_eq in H0. discriminate.
            -- rewrite aget_aremove_neq in H0 by exact N2. split; [exact H0|].
               intros Ep0. subst p0. pose proof (HI u0 p H0) as H1. rewrite Eo in H1. injection H1 as H1. subst. contradiction.
          * split; [exact H0|]. intros Ep0. subst p0. pose proof (HI u0 p H0) as H1. rewrite Eo in H1. injection H1 as H1.
            subst u0. rewrite Eu in H0. injection H0 as H0. contradiction.
        + split; [exact H0|]. intros Ep0. subst p0. pose proof (HI u0 p H0) as H1. rewrite Eo in H1. injection H1 as H1.
          subst u0. rewrite Eu in H0. discriminate.
      - split; [exact H0|]. intros Ep0. subst p0. pose proof (HI u0 p H0) as H1. rewrite Eo in H1. discriminate. }
    destruct Hold as [H1 Hne]. pose proof (HI u0 p0 H1) as H2.
    destruct (N.eq_dec p0 p) as [E3|N3]; [exfalso; apply Hne; exact E3|].
    rewrite aget_aput_neq by exact N3. exact H2.
Qed.

(** the repaired binding never throws *)
Lemma ns_run_total : forall ops st, exists st', ns_run ops st = Some st'.
Proof.
  induction ops as [|o r IH]; intros st; cbn [ns_run]; [eexists; reflexivity|].
  destruct o as [| |p u]; cbn [ns_step]; try apply IH.
  destruct st as [|top rest]; cbn [bind_tabs]; apply IH.
Qed.

Definition InvS (st : nsstate) : Prop := Forall (fun o => match o with Some t => Inv t | None => True end) st.

Lemma visible_inv : forall st, InvS st -> Inv (visible st).
Proof.
  induction st as [|[t|] r IH]; intros H; cbn [visible].
  - exact inv_empty.
  - inversion H; subst. assumption.
  - inversion H; subst. apply IH. assumption.
Qed.

Lemma step_inv : forall st o st', InvS st -> ns_step st o = Some st' -> InvS st'.
Proof.
  intros st o st' HI H. destruct o as [| |p u]; cbn [ns_step] in H.
  - injection H as H. subst. constructor; [exact I|exact HI].
  - injection H as H. subst. destruct st; [constructor|]. inversion HI; subst. assumption.
  - destruct st as [|top rest].
    + cbn [visible] in H. destruct (bind_tabs no_tabs p u) as [t'|] eqn:E; [|discriminate].
      injection H as H. subst. constructor; [|constructor]. apply (bind_tabs_inv no_tabs p u t' inv_empty E).
    + inversion HI as [|o l Ht Hr]; subst.
      destruct (bind_tabs (match top with Some t => t | None => visible rest end) p u) as [t'|] eqn:E; [|discriminate].
      injection H as H. subst. constructor; [|exact Hr].
      refine (bind_tabs_inv _ p u t' _ E). destruct top; [exact Ht|apply visible_inv; exact Hr].
Qed.

Lemma run_inv : forall ops st st', InvS st -> ns_run ops st = Some st' -> InvS st'.
Proof.
  induction ops as [|o r IH]; intros st st' HI H; cbn [ns_run] in H.
  - injection H as H. subst. exact HI.
  - destruct (ns_step st o) as [st1|] eqn:E; [|discriminate]. apply (IH st1); [|exact H].
    apply (step_inv st o st1 HI E).
Qed.

Lemma nsfixup_consistent : forall ops st, ns_run ops [] = Some st ->
  forall u p, get_prefix st u = Some p -> get_uri st p = Some u.
Proof.
  intros ops st H u p Hp. assert (HI : InvS st) by (apply (run_inv ops [] st); [constructor|exact H]).
  apply (visible_inv st HI). exact Hp.
Qed.

(** in particular: after a prefix has been rebound, the old namespace no longer leads to it *)
Lemma nsfixup_rebound : forall ops st p u1 u2 st', ns_run ops [] = Some st -> u1 <> u2 ->
  ns_step st (Bind p u2) = Some st' -> get_prefix st' u1 <> Some p.
Proof.
  intros ops st p u1 u2 st' H Hne Hb Hp.
  assert (Hr : ns_run (ops ++ [Bind p u2]) [] = Some st').
  { clear Hp. revert H. generalize (@nil (option tabs)). induction ops as [|o r IH]; intros s0 H; cbn [app ns_run] in *.
    - injection H as H. subst. rewrite Hb. reflexivity.
    - destruct (ns_step s0 o); [|discriminate]. apply IH. exact H. }
  pose proof (nsfixup_consistent _ _ Hr u1 p Hp) as Hu.
  (* but p is bound to u2 in st' *)
  assert (Hu2 : get_uri st' p = Some u2).
  { cbn [ns_step] in Hb.
    destruct (match st with [] => [None] | _ :: _ => st end) as [|top rest]; [discriminate|].
    unfold bind_tabs in Hb. injection Hb as Hb. subst st'. unfold get_uri. cbn [visible t_pre]. apply aget_aput_eq. }
  rewrite Hu2 in Hu. injection Hu as Hu. apply Hne. symmetry. exact Hu.
Qed.

(** the fallback variant returns the shadowed prefix *)
Lemma fallback_refuted :
  exists st, ns_run [Push; Bind 1 10; Push; Bind 1 20] [] = Some st /\
             get_prefix_fallback st 10 = Some 1 /\ get_uri st 1 = Some 20 /\ get_prefix st 10 = None.
Proof. eexists. vm_compute. repeat split; reflexivity. Qed.

(** finding F54 on the model of the code as found: two prefixes on one URI, both rebound: removeKey throws *)
Lemma rebind_both_throws :
  ns_run_old [Push; Bind 1 30; Bind 2 30; Push; Bind 1 10; Bind 2 20] [] = None /\
  exists st, ns_run [Push; Bind 1 30; Bind 2 30; Push; Bind 1 10; Bind 2 20] [] = Some st /\
             get_uri st 1 = Some 10 /\ get_uri st 2 = Some 20 /\ get_prefix st 30 = None.
Proof. split; [vm_compute; reflexivity|]. eexists. vm_compute. repeat split; reflexivity. Qed.
