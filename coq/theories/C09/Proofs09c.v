(** C09 lemmas, part c: arithmetic of digit strings; XMLBigDecimal::toCompare computes the order of the values. *)
From Coq Require Import ZArith QArith Lia.
From XV Require Import C09.Spec09 C09.Model09 C09.Proofs09a C09.Proofs09b.
Local Open Scope Z_scope.

Definition P10 (n : nat) : Z := Zpos (pow10 n).

Lemma P10_0 : P10 0 = 1. Proof. reflexivity. Qed.
Lemma P10_S : forall n, P10 (S n) = 10 * P10 n. Proof. intros. unfold P10. cbn [pow10]. lia. Qed.
Lemma P10_pos : forall n, 0 < P10 n. Proof. intros. unfold P10. lia. Qed.
Lemma P10_add : forall m n, P10 (m + n) = P10 m * P10 n.
Proof. induction m as [|m IH]; intros n; cbn [Nat.add]; [rewrite P10_0; lia|]. rewrite !P10_S, IH. ring. Qed.
Lemma P10_le : forall m n, (m <= n)%nat -> P10 m <= P10 n.
Proof.
  intros m n H. replace n with (m + (n - m))%nat by lia. rewrite P10_add.
  pose proof (P10_pos m). pose proof (P10_pos (n - m)). nia.
Qed.

Lemma digit_val_range : forall c, is_digit c = true -> 0 <= digit_val c <= 9.
Proof. intros c H. unfold is_digit in H. apply andb_prop in H. destruct H as [H1 H2].
  apply N.leb_le in H1. apply N.leb_le in H2. unfold digit_val. lia. Qed.
Lemma digit_val_zero : forall c, is_digit c = true -> (c =? ch_0)%N = false -> 1 <= digit_val c.
Proof. intros c H Hz. unfold is_digit in H. apply andb_prop in H. destruct H as [H1 H2].
  apply N.leb_le in H1. apply N.eqb_neq in Hz. unfold digit_val, ch_0 in *. lia. Qed.
Lemma digit_val_inj_lt : forall x y, (x < y)%N -> digit_val x + 1 <= digit_val y.
Proof. intros. unfold digit_val. lia. Qed.

Lemma dval_acc_spec : forall l acc, dval_acc acc l = acc * P10 (length l) + dval l.
Proof.
  unfold dval. induction l as [|c r IH]; intros acc; cbn [dval_acc length].
  - rewrite P10_0. lia.
  - rewrite IH. rewrite (IH (0 * 10 + digit_val c)). rewrite P10_S. ring.
Qed.

Lemma dval_cons : forall c l, dval (c :: l) = digit_val c * P10 (length l) + dval l.
Proof. intros. unfold dval at 1. cbn [dval_acc]. rewrite dval_acc_spec. ring. Qed.

Lemma dval_nil : dval [] = 0. Proof. reflexivity. Qed.

Lemma dval_app : forall a b, dval (a ++ b) = dval a * P10 (length b) + dval b.
Proof.
  induction a as [|c a IH]; intros b; cbn [app].
  - rewrite dval_nil. lia.
  - rewrite !dval_cons, IH, app_length, P10_add. ring.
Qed.

Lemma all_digits_cons : forall c l, all_digits (c :: l) = is_digit c && all_digits l.
Proof. reflexivity. Qed.

Lemma dval_bounds : forall l, all_digits l = true -> 0 <= dval l < P10 (length l).
Proof.
  induction l as [|c r IH]; intros H.
  - cbn [length]. rewrite dval_nil, P10_0. lia.
  - rewrite all_digits_cons in H. apply andb_prop in H. destruct H as [Hc Hr].
    rewrite dval_cons. cbn [length]. rewrite P10_S. pose proof (digit_val_range c Hc). specialize (IH Hr).
    pose proof (P10_pos (length r)). nia.
Qed.

Lemma dval_lead : forall c r, all_digits (c :: r) = true -> (c =? ch_0)%N = false -> P10 (length r) <= dval (c :: r).
Proof.
  intros c r H Hz. rewrite all_digits_cons in H. apply andb_prop in H. destruct H as [Hc Hr].
  rewrite dval_cons. pose proof (digit_val_zero c Hc Hz). pose proof (dval_bounds r Hr).
  pose proof (P10_pos (length r)). nia.
Qed.

Lemma last_is_snoc : forall l x c, last_is (l ++ [x]) c = (x =? c)%N.
Proof. intros. unfold last_is. rewrite rev_app_distr. reflexivity. Qed.

Lemma snoc_cases : forall (l : list N), l = [] \/ exists l' x, l = l' ++ [x].
Proof. intros l. destruct (rev l) as [|x t] eqn:E.
  - left. apply (f_equal (@rev N)) in E. rewrite rev_involutive in E. exact E.
  - right. exists (rev t), x. apply (f_equal (@rev N)) in E. rewrite rev_involutive in E. exact E. Qed.

Lemma dval_pos_trail : forall l, all_digits l = true -> l <> [] -> last_is l ch_0 = false -> 0 < dval l.
Proof.
  intros l H Hn Hl. destruct (snoc_cases l) as [->|[l' [x ->]]]; [contradiction|].
  rewrite last_is_snoc in Hl. rewrite all_digits_app in H. apply andb_prop in H. destruct H as [H1 H2].
  rewrite all_digits_cons in H2. apply andb_prop in H2. destruct H2 as [Hx _].
  rewrite dval_app. cbn [length]. rewrite P10_S, P10_0. unfold dval at 2. cbn [dval_acc].
  pose proof (digit_val_zero x Hx Hl). pose proof (dval_bounds l' H1). lia.
Qed.

Lemma last_is_cons : forall c x y l, last_is (c :: x :: l) y = last_is (x :: l) y.
Proof.
  intros. destruct (snoc_cases (x :: l)) as [E|[l' [z E]]]; [discriminate|].
  rewrite E. rewrite app_comm_cons. rewrite !last_is_snoc. reflexivity.
Qed.

Lemma frac_lt : forall dx dy A B da db, dx + 1 <= dy -> 0 <= da < A -> 0 <= db < B -> 0 < A -> 0 < B ->
  (dx*A+da)*(10*B) < (dy*B+db)*(10*A).
Proof.
  intros. assert (da*B < A*B) by (apply Z.mul_lt_mono_pos_r; lia).
  assert ((dx+1)*(A*B) <= dy*(A*B)) by (apply Z.mul_le_mono_nonneg_r; nia).
  assert (0 <= db*A) by nia.
  replace ((dx*A+da)*(10*B)) with (10 * (dx*(A*B) + da*B)) by ring.
  replace ((dy*B+db)*(10*A)) with (10 * (dy*(A*B) + db*A)) by ring.
  replace ((dx+1)*(A*B)) with (dx*(A*B) + A*B) in * by ring. lia.
Qed.

(** * XMLString::compareString on two digit strings = comparison of the fractions 0.a and 0.b *)
Lemma str_cmp_frac : forall a b, all_digits a = true -> all_digits b = true ->
  ((length a < length b)%nat -> last_is b ch_0 = false) ->
  ((length b < length a)%nat -> last_is a ch_0 = false) ->
  Z.sgn (str_cmp a b) = cmp_to_Z (dval a * P10 (length b) ?= dval b * P10 (length a)).
Proof.
  induction a as [|x a IH]; intros b Ha Hb Hab Hba.
  - destruct b as [|y b].
    + reflexivity.
    + cbn [str_cmp]. rewrite all_digits_cons in Hb. pose proof Hb as Hb'. apply andb_prop in Hb. destruct Hb as [Hy Hb].
      assert (0 < dval (y :: b)). { apply dval_pos_trail; [exact Hb'|discriminate|]. apply Hab. cbn [length]. lia. }
      unfold is_digit in Hy. apply andb_prop in Hy. destruct Hy as [Hy _]. apply N.leb_le in Hy.
      rewrite dval_nil. cbn [length]. rewrite P10_0.
      replace (0 * P10 (S (length b)) ?= dval (y :: b) * 1) with Lt by (symmetry; apply Z.compare_lt_iff; lia).
      cbn [cmp_to_Z]. apply Z.sgn_neg. lia.
  - destruct b as [|y b].
    + cbn [str_cmp]. pose proof Ha as Ha'. rewrite all_digits_cons in Ha. apply andb_prop in Ha. destruct Ha as [Hx Ha].
      assert (0 < dval (x :: a)). { apply dval_pos_trail; [exact Ha'|discriminate|]. apply Hba. cbn [length]. lia. }
      unfold is_digit in Hx. apply andb_prop in Hx. destruct Hx as [Hx _]. apply N.leb_le in Hx.
      rewrite dval_nil. cbn [length]. rewrite P10_0.
      replace (dval (x :: a) * 1 ?= 0 * P10 (S (length a))) with Gt by (symmetry; apply Z.compare_gt_iff; lia).
      cbn [cmp_to_Z]. apply Z.sgn_pos. lia.
    + cbn [str_cmp]. rewrite all_digits_cons in Ha, Hb.
      apply andb_prop in Ha. destruct Ha as [Hx Ha]. apply andb_prop in Hb. destruct Hb as [Hy Hb].
      rewrite !dval_cons. cbn [length]. rewrite !P10_S.
      pose proof (dval_bounds a Ha) as Ba. pose proof (dval_bounds b Hb) as Bb.
      pose proof (P10_pos (length a)) as Pa. pose proof (P10_pos (length b)) as Pb.
      pose proof (digit_val_range x Hx) as Rx. pose proof (digit_val_range y Hy) as Ry.
      set (A := P10 (length a)) in *. set (B := P10 (length b)) in *.
      set (da := dval a) in *. set (db := dval b) in *.
      destruct (N.eqb_spec x y) as [E|E].
      * subst y. rewrite IH; [|exact Ha|exact Hb| |].
        -- fold A B da db. f_equal.
           destruct (Z.compare_spec (da * B) (db * A)) as [C|C|C]; symmetry.
           ++ apply Z.compare_eq_iff. nia.
           ++ apply Z.compare_lt_iff. nia.
           ++ apply Z.compare_gt_iff. nia.
        -- intros L. destruct b as [|b0 b]; [cbn [length] in L; lia|]. rewrite <- (last_is_cons x). apply Hab. cbn [length] in *. lia.
        -- intros L. destruct a as [|a0 a]; [cbn [length] in L; lia|]. rewrite <- (last_is_cons x). apply Hba. cbn [length] in *. lia.
      * destruct (N.lt_total x y) as [L|[L|L]]; [|contradiction|].
        -- pose proof (digit_val_inj_lt x y L).
           replace ((digit_val x * A + da) * (10 * B) ?= (digit_val y * B + db) * (10 * A)) with Lt
             by (symmetry; apply Z.compare_lt_iff; apply frac_lt; lia).
           cbn [cmp_to_Z]. apply Z.sgn_neg. lia.
        -- pose proof (digit_val_inj_lt y x L).
           replace ((digit_val x * A + da) * (10 * B) ?= (digit_val y * B + db) * (10 * A)) with Gt
             by (symmetry; apply Z.compare_gt_iff; apply frac_lt; lia).
           cbn [cmp_to_Z]. apply Z.sgn_pos. lia.
Qed.
