(** C09 lemmas, part p: XMLAbstractDoubleFloat::init (with strtod's "whole string consumed" modelled by its grammar)
    accepts exactly the lexical space of xs:double / xs:float plus the two literals '+.' and '-.' (finding F33). *)
From Coq Require Import NArith Lia.
From XV Require Import C09.Spec09 C09.Spec09d C09.Spec09f C09.Model09 C09.Model09f C09.Proofs09a C09.Proofs09b C09.Proofs09c.
Local Open Scope N_scope.

Lemma leqb_eq : forall a b, leqb a b = true -> a = b.
Proof.
  induction a as [|x a IH]; intros [|y b] H; try discriminate; [reflexivity|].
  cbn [leqb] in H. apply andb_prop in H. destruct H as [H1 H2]. apply N.eqb_eq in H1. subst. f_equal. apply IH. exact H2.
Qed.

Definition f33 (t : list N) : bool := leqb t [ch_plus; ch_dot] || leqb t [ch_minus; ch_dot].

(** strings accepted by the scan loop of normalizeZero have the shape of an unsigned decimal, contain no exponent
    character and only characters of the filter *)
Lemma nz_scan_facts : forall z d, nz_scan d z = true ->
  (if d then all_digits z = true else udec_shape z = true) /\
  forallb (fun c => negb (is_e c)) z = true.
Proof.
  induction z as [|c r IH]; intros d H; [destruct d; split; reflexivity|].
  cbn [nz_scan] in H. destruct (N.eqb_spec c ch_dot) as [Ed|Ed]; cbn [negb andb] in H.
  - subst c. destruct d; [discriminate|]. destruct (IH true H) as [A B]. split.
    + unfold udec_shape. cbn [split_dot]. cbn [N.eqb ch_dot Pos.eqb]. cbn [all_digits forallb andb]. exact A.
    + cbn [forallb]. rewrite B. reflexivity.
  - destruct (N.eqb_spec c ch_0) as [E0|E0]; cbn [negb] in H; [|discriminate]. subst c.
    destruct (IH d H) as [A B]. split.
    + destruct d.
      * rewrite all_digits_cons, A. reflexivity.
      * change (ch_0 :: r) with ([ch_0] ++ r). rewrite udec_shape_zeros by reflexivity. exact A.
    + cbn [forallb]. rewrite B. reflexivity.
Qed.

Lemma split_exp_none : forall t, forallb (fun c => negb (is_e c)) t = true -> split_exp t = (t, None).
Proof.
  induction t as [|c r IH]; intros H; [reflexivity|]. cbn [forallb] in H. apply andb_prop in H. destruct H as [H1 H2].
  cbn [split_exp]. apply Bool.negb_true_iff in H1. rewrite H1, (IH H2). reflexivity.
Qed.

Lemma num_lex_no_e : forall t, forallb (fun c => negb (is_e c)) t = true -> float_num_lex t = dec_lex t.
Proof. intros t H. unfold float_num_lex. rewrite (split_exp_none t H). reflexivity. Qed.

(** the rewritten-to-zero strings: in the lexical space unless the part after the sign is a lone '.' *)
Lemma zero_shape_lex : forall z, z <> [] -> nz_scan false z = true -> udec_lex z = negb (lone_dot_u z).
Proof.
  intros z Hne H. destruct (nz_scan_facts z false H) as [Sh _].
  rewrite (shape_lex z Hne) in Sh. destruct (lone_dot_u z) eqn:L.
  - rewrite (lone_dot_not_lex z L). reflexivity.
  - rewrite Bool.orb_false_r in Sh. exact Sh.
Qed.

(** characters of the lexical space pass the filter in front of strtod *)
Lemma digits_ok : forall l, all_digits l = true -> forallb float_char_ok l = true.
Proof.
  induction l as [|c r IH]; intros H; [reflexivity|]. rewrite all_digits_cons in H. apply andb_prop in H. destruct H as [H1 H2].
  cbn [forallb]. unfold float_char_ok at 1. rewrite H1. cbn [orb]. exact (IH H2).
Qed.
Lemma udec_chars : forall u, udec_lex u = true -> forallb float_char_ok u = true.
Proof.
  intros u H. rewrite udec_lex_shape in H. apply andb_prop in H. destruct H as [Sh _]. unfold udec_shape in Sh.
  destruct (split_dot u) as [ip [fp|]] eqn:E; apply split_dot_inv in E; subst u.
  - apply andb_prop in Sh. destruct Sh as [S1 S2]. rewrite forallb_app, (digits_ok ip S1). cbn [forallb].
    rewrite (digits_ok fp S2). unfold float_char_ok. cbn. reflexivity.
  - rewrite app_nil_r. exact (digits_ok ip Sh).
Qed.
Lemma signed_chars : forall (P : list N -> bool) l, (forall u, P u = true -> forallb float_char_ok u = true) ->
  P (snd (strip_sign l)) = true -> forallb float_char_ok l = true.
Proof.
  intros P l HP H. unfold strip_sign in H. destruct l as [|c r]; [reflexivity|].
  destruct (N.eqb_spec c ch_minus) as [E|E]; [subst; cbn [snd] in H; cbn [forallb]; rewrite (HP r H); reflexivity|].
  destruct (N.eqb_spec c ch_plus) as [E'|E']; [subst; cbn [snd] in H; cbn [forallb]; rewrite (HP r H); reflexivity|].
  cbn [snd] in H. exact (HP _ H).
Qed.
Lemma dec_chars : forall m, dec_lex m = true -> forallb float_char_ok m = true.
Proof. intros m H. exact (signed_chars udec_lex m udec_chars H). Qed.
Lemma int_chars : forall e, integer_lex e = true -> forallb float_char_ok e = true.
Proof.
  intros e H. unfold integer_lex in H.
  apply (signed_chars (fun u => all_digits u && negb (nilb u)) e); [|exact H].
  intros u Hu. apply andb_prop in Hu. destruct Hu as [Hu _]. exact (digits_ok u Hu).
Qed.
Lemma split_exp_inv : forall l m o, split_exp l = (m, o) ->
  l = m ++ match o with Some e => (match skipn (length m) l with c :: _ => c | [] => 0 end) :: e | None => [] end /\
  match o with Some _ => is_e (match skipn (length m) l with c :: _ => c | [] => 0 end) = true | None => True end.
Proof.
  induction l as [|c r IH]; intros m o H; cbn [split_exp] in H.
  - inversion H. split; reflexivity.
  - destruct (is_e c) eqn:E.
    + inversion H; subst. cbn [length skipn app]. split; [reflexivity|exact E].
    + destruct (split_exp r) as [a b] eqn:S. destruct (IH a b eq_refl) as [I1 I2]. inversion H; subst.
      cbn [length skipn app]. split; [f_equal; exact I1|exact I2].
Qed.
Lemma num_lex_chars : forall t, float_num_lex t = true -> forallb float_char_ok t = true.
Proof.
  intros t H. unfold float_num_lex in H. destruct (split_exp t) as [m [e|]] eqn:S; destruct (split_exp_inv t _ _ S) as [I1 I2].
  - apply andb_prop in H. destruct H as [H1 H2]. rewrite I1, forallb_app, (dec_chars m H1). cbn [forallb].
    rewrite (int_chars e H2). unfold float_char_ok at 1. rewrite I2. rewrite !Bool.orb_true_r. reflexivity.
  - rewrite app_nil_r in I1. rewrite I1. exact (dec_chars m H).
Qed.

(** the outcome of init when normalizeZero leaves the string alone *)
Lemma unchanged_case : forall t, f33 t = false ->
  (if leqb t s_NINF || leqb t s_INF || leqb t s_NaN then true else forallb float_char_ok t && float_num_lex t) =
  float_lex t || f33 t.
Proof.
  intros t F. rewrite F, Bool.orb_false_r. unfold float_lex.
  destruct (leqb t s_NINF); destruct (leqb t s_INF); destruct (leqb t s_NaN); cbn [orb]; try reflexivity.
  destruct (float_num_lex t) eqn:N; [rewrite (num_lex_chars t N)|rewrite Bool.andb_false_r]; reflexivity.
Qed.

Lemma zero_acc_n :
  (if leqb s_nzero s_NINF || leqb s_nzero s_INF || leqb s_nzero s_NaN then true
   else forallb float_char_ok s_nzero && float_num_lex s_nzero) = true.
Proof. vm_compute. reflexivity. Qed.
Lemma zero_acc_p :
  (if leqb s_zero s_NINF || leqb s_zero s_INF || leqb s_zero s_NaN then true
   else forallb float_char_ok s_zero && float_num_lex s_zero) = true.
Proof. vm_compute. reflexivity. Qed.

Lemma f33_scan : forall t, f33 t = true -> exists sg, t = [sg; ch_dot] /\ (sg = ch_plus \/ sg = ch_minus).
Proof.
  intros t H. unfold f33 in H. apply Bool.orb_true_iff in H. destruct H as [H|H]; apply leqb_eq in H; subst; eauto.
Qed.

(** init on a trimmed, non-empty string *)
Lemma init_body : forall c r,
  match normalize_zero (c :: r) with
  | None => false
  | Some u => if leqb u s_NINF || leqb u s_INF || leqb u s_NaN then true else forallb float_char_ok u && float_num_lex u
  end = float_lex (c :: r) || f33 (c :: r).
Proof.
  intros c r. set (t := c :: r). unfold normalize_zero. fold t. unfold t at 1. fold t.
  destruct (leqb t s_nzero || leqb t s_zero) eqn:Z0.
  - apply Bool.orb_true_iff in Z0. destruct Z0 as [Z0|Z0]; apply leqb_eq in Z0; rewrite Z0; vm_compute; reflexivity.
  - destruct (N.eqb_spec c ch_minus) as [Em|Em]; [|destruct (N.eqb_spec c ch_plus) as [Ep|Ep]; [|destruct (N.eqb_spec c ch_dot) as [Ed|Ed]]].
    + (* '-' *)
      subst c. destruct r as [|x r']; [vm_compute; reflexivity|].
      destruct (nz_scan false (x :: r')) eqn:Sc.
      * cbv beta iota. rewrite zero_acc_n. symmetry.
        destruct (nz_scan_facts _ _ Sc) as [_ NoE].
        assert (NoE' : forallb (fun c => negb (is_e c)) t = true) by (unfold t; cbn [forallb] in NoE |- *; rewrite NoE; reflexivity).
        unfold float_lex. rewrite (num_lex_no_e t NoE'). unfold dec_lex, t. cbn [strip_sign N.eqb ch_minus Pos.eqb snd].
        rewrite (zero_shape_lex (x :: r') ltac:(discriminate) Sc).
        destruct (lone_dot_u (x :: r')) eqn:L; [|rewrite !Bool.orb_true_r; reflexivity].
        destruct r' as [|y r'']; [|destruct x; discriminate]. cbn [lone_dot_u] in L. apply N.eqb_eq in L. subst x. vm_compute. reflexivity.
      * apply unchanged_case. destruct (f33 t) eqn:F; [|reflexivity]. exfalso.
        destruct (f33_scan t F) as [sg [E _]]. unfold t in E. inversion E; subst. vm_compute in Sc. discriminate.
    + (* '+' *)
      subst c. destruct r as [|x r']; [vm_compute; reflexivity|].
      destruct (nz_scan false (x :: r')) eqn:Sc.
      * cbv beta iota. rewrite zero_acc_p. symmetry.
        destruct (nz_scan_facts _ _ Sc) as [_ NoE].
        assert (NoE' : forallb (fun c => negb (is_e c)) t = true) by (unfold t; cbn [forallb] in NoE |- *; rewrite NoE; reflexivity).
        unfold float_lex. rewrite (num_lex_no_e t NoE'). unfold dec_lex, t. cbn [strip_sign N.eqb ch_minus ch_plus Pos.eqb snd].
        rewrite (zero_shape_lex (x :: r') ltac:(discriminate) Sc).
        destruct (lone_dot_u (x :: r')) eqn:L; [|rewrite !Bool.orb_true_r; reflexivity].
        destruct r' as [|y r'']; [|destruct x; discriminate]. cbn [lone_dot_u] in L. apply N.eqb_eq in L. subst x. vm_compute. reflexivity.
      * apply unchanged_case. destruct (f33 t) eqn:F; [|reflexivity]. exfalso.
        destruct (f33_scan t F) as [sg [E _]]. unfold t in E. inversion E; subst. vm_compute in Sc. discriminate.
    + (* '.' *)
      subst c. destruct r as [|x r']; [vm_compute; reflexivity|].
      destruct (nz_scan true (x :: r')) eqn:Sc.
      * cbv beta iota. rewrite zero_acc_p. symmetry.
        destruct (nz_scan_facts _ _ Sc) as [Dg NoE].
        assert (NoE' : forallb (fun c => negb (is_e c)) t = true) by (unfold t; cbn [forallb] in NoE |- *; rewrite NoE; reflexivity).
        unfold float_lex. rewrite (num_lex_no_e t NoE'). unfold dec_lex, t. cbn [strip_sign N.eqb ch_minus ch_plus ch_dot Pos.eqb snd].
        unfold udec_lex. cbn [split_dot N.eqb ch_dot Pos.eqb all_digits forallb andb nilb negb].
        unfold all_digits in Dg. cbn [forallb] in Dg. rewrite Dg. cbn [andb]. rewrite !Bool.orb_true_r. reflexivity.
      * apply unchanged_case. unfold f33, t. reflexivity.
    + (* anything else: the whole string is scanned *)
      destruct (nz_scan false t) eqn:Sc.
      * cbv beta iota. rewrite zero_acc_p. symmetry.
        destruct (nz_scan_facts _ _ Sc) as [_ NoE].
        unfold float_lex. rewrite (num_lex_no_e t NoE). unfold dec_lex, t, strip_sign.
        destruct (N.eqb_spec c ch_minus); [contradiction|]. destruct (N.eqb_spec c ch_plus); [contradiction|]. cbn [snd]. fold t.
        rewrite (zero_shape_lex t ltac:(discriminate) Sc).
        assert (L : lone_dot_u t = false).
        { unfold t. destruct r; [cbn [lone_dot_u]; apply N.eqb_neq; exact Ed|reflexivity]. }
        rewrite L. rewrite !Bool.orb_true_r. reflexivity.
      * apply unchanged_case. destruct (f33 t) eqn:F; [|reflexivity]. exfalso.
        destruct (f33_scan t F) as [sg [E [S|S]]]; unfold t in E; inversion E; subst; contradiction.
Qed.

(** T09_float_lex *)
Lemma float_init_spec : forall s, float_init s = float_lex (trim_ws s) || f33 (trim_ws s).
Proof.
  intros s. unfold float_init. destruct s as [|c0 s0]; [reflexivity|].
  destruct (trim_ws (c0 :: s0)) as [|c r]; [reflexivity|]. apply init_body.
Qed.

Lemma float_lex_guarded : forall s, f33 (trim_ws s) = false -> float_init s = float_lex (trim_ws s).
Proof. intros s F. rewrite float_init_spec, F, Bool.orb_false_r. reflexivity. Qed.

Lemma f33_not_lex : forall t, f33 t = true -> float_lex t = false.
Proof. intros t F. destruct (f33_scan t F) as [sg [E [S|S]]]; subst; vm_compute; reflexivity. Qed.

Lemma f33_refuted :
  float_init [ch_minus; ch_dot] = true /\ float_lex [ch_minus; ch_dot] = false /\
  float_init [ch_plus; ch_dot] = true /\ float_lex [ch_plus; ch_dot] = false /\ float_init [ch_dot] = false.
Proof. vm_compute. repeat split; reflexivity. Qed.

(** special values: compareValues agrees with the order of 3.2.4.1 whenever one operand is special, except that a
    finite left operand against NaN yields -2 instead of "incomparable" (finding F34) *)
Lemma float_special_order : forall a b, ~ (a = K_Finite /\ b = K_NaN) -> float_cmp_special a b = special_order a b.
Proof. intros [] [] H; try reflexivity. exfalso. apply H. split; reflexivity. Qed.
Lemma f34_refuted : float_cmp_special K_Finite K_NaN = Some (-2)%Z /\ special_order K_Finite K_NaN = Some 2%Z.
Proof. split; reflexivity. Qed.

(** with fixes/C09-double-compare-nan.patch the comparison of special values is the order of 3.2.4.1 without exception *)
Lemma float_special_fixed : forall a b, float_cmp_special_f true a b = special_order a b.
Proof. intros [] []; reflexivity. Qed.
(** with fixes/C09-double-sign-dot.patch the witnesses of F33 are rejected and ordinary zeros still accepted *)
Lemma f33_fixed :
  float_init_f true [ch_minus; ch_dot] = false /\ float_init_f true [ch_plus; ch_dot] = false /\
  float_init_f true [ch_minus; ch_dot; ch_0] = true /\ float_init_f true [ch_plus; ch_0; ch_dot] = true /\ float_init_f true [ch_0] = true.
Proof. vm_compute. repeat split; reflexivity. Qed.
