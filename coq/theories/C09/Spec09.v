(** Specification side of C09 (decimal part): XML Schema Part 2 (second edition), section 3.2.3 xs:decimal.
    Strings are lists of UTF-16 code units ([N]).  Nothing here mentions the C++ code.

    - whitespace processing of section 4.3.6 ([ws_replace], [ws_collapse]);
    - lexical space of xs:decimal: (+|-)? ( digit+ ('.' digit* )? | '.' digit+ );
    - value space: the rational  i * 10^-n  denoted by the literal, as a [Q];
    - order and equality: [Qcompare] / [Qeq];
    - totalDigits / fractionDigits (with erratum E2-44): the value is expressible as i * 10^-n with
      |i| < 10^totalDigits and 0 <= n <= totalDigits (resp. n <= fractionDigits);
    - canonical representation (3.2.3.2): no '+', decimal point required, at least one digit on each side,
      no other leading or trailing zeros. *)
From Coq Require Export ZArith QArith.
From XV Require Export Base.XDefs.
Local Open Scope N_scope.

(** * characters *)
Definition ch_space : N := 0x20.
Definition ch_dot : N := 0x2E.
Definition ch_plus : N := 0x2B.
Definition ch_minus : N := 0x2D.
Definition ch_0 : N := 0x30.

Definition is_ws (c : N) : bool := (c =? 0x20) || (c =? 0x9) || (c =? 0xA) || (c =? 0xD).
Definition is_digit (c : N) : bool := (0x30 <=? c) && (c <=? 0x39).
Definition digit_val (c : N) : Z := Z.of_N c - 48.

(** * whitespace facet (Part 2, 4.3.6) *)
Definition ws_replace (s : list N) : list N := map (fun c => if is_ws c then ch_space else c) s.

(** collapse: after replace, contiguous sequences of #x20 are collapsed to a single #x20 and leading and
    trailing #x20 are removed.  [go pending s]: [pending] = a space is owed before the next non-space *)
Fixpoint ws_collapse_go (started pending : bool) (s : list N) : list N :=
  match s with
  | [] => []
  | c :: r => if is_ws c then ws_collapse_go started started r
              else (if pending then [ch_space] else []) ++ c :: ws_collapse_go true false r
  end.
Definition ws_collapse (s : list N) : list N := ws_collapse_go false false s.

(** * xs:decimal lexical space *)
Fixpoint split_dot (l : list N) : list N * option (list N) :=
  match l with
  | [] => ([], None)
  | c :: r => if c =? ch_dot then ([], Some r)
              else let (a, b) := split_dot r in (c :: a, b)
  end.

Definition all_digits (l : list N) : bool := forallb is_digit l.
Definition nilb (l : list N) : bool := match l with [] => true | _ => false end.

(** unsigned part:  digit+ ('.' digit* )?  |  '.' digit+ *)
Definition udec_lex (l : list N) : bool :=
  match split_dot l with
  | (ip, None) => all_digits ip && negb (nilb ip)
  | (ip, Some fp) => all_digits ip && all_digits fp && negb (nilb ip && nilb fp)
  end.

Definition strip_sign (l : list N) : bool * list N :=   (* (negative?, rest) *)
  match l with
  | c :: r => if c =? ch_minus then (true, r) else if c =? ch_plus then (false, r) else (false, l)
  | [] => (false, [])
  end.

Definition dec_lex (l : list N) : bool := udec_lex (snd (strip_sign l)).

(** * value space *)
Fixpoint pow10 (n : nat) : positive := match n with O => 1%positive | S k => (10 * pow10 k)%positive end.

(** value of a digit string, most significant digit first *)
Fixpoint dval_acc (acc : Z) (l : list N) : Z :=
  match l with [] => acc | c :: r => dval_acc (acc * 10 + digit_val c)%Z r end.
Definition dval (l : list N) : Z := dval_acc 0 l.

Definition udec_value (l : list N) : Q :=
  match split_dot l with
  | (ip, None) => dval ip # 1
  | (ip, Some fp) => dval (ip ++ fp) # pow10 (length fp)
  end.

Definition dec_value (l : list N) : Q :=
  let (neg, u) := strip_sign l in if neg then Qopp (udec_value u) else udec_value u.

(** order of the value space as the integer -1 / 0 / 1 *)
Definition cmp_to_Z (c : comparison) : Z := match c with Lt => (-1)%Z | Eq => 0%Z | Gt => 1%Z end.
Definition dec_order (a b : list N) : Z := cmp_to_Z (Qcompare (dec_value a) (dec_value b)).

(** * digit facets (4.3.11, 4.3.12 with E2-44) *)
Definition expressible (v : Q) (i : Z) (n : nat) : Prop := v == (i # pow10 n).
Definition total_digits_ok (v : Q) (td : nat) : Prop :=
  exists i n, expressible v i n /\ (Z.abs i < Zpos (pow10 td))%Z /\ (n <= td)%nat.
Definition fraction_digits_ok (v : Q) (fd : nat) : Prop :=
  exists i n, expressible v i n /\ (n <= fd)%nat.

(** * canonical representation (3.2.3.2) *)
Definition last_is (l : list N) (c : N) : bool := match rev l with x :: _ => x =? c | [] => false end.
Definition first_is (l : list N) (c : N) : bool := match l with x :: _ => x =? c | [] => false end.

(** a literal is canonical: optional '-', then  ip '.' fp  with ip, fp non-empty digit strings, ip has no leading
    zero unless it is exactly "0", fp has no trailing zero unless it is exactly "0"; and zero is written "0.0" *)
Definition dec_is_canonical (l : list N) : bool :=
  let (neg, u) := strip_sign l in
  negb (first_is l ch_plus) &&
  match split_dot u with
  | (ip, Some fp) =>
      all_digits ip && all_digits fp && negb (nilb ip) && negb (nilb fp) &&
      (negb (first_is ip ch_0) || (length ip =? 1)%nat) &&
      (negb (last_is fp ch_0) || (length fp =? 1)%nat) &&
      (negb neg || negb ((dval (ip ++ fp) =? 0)%Z))
  | _ => false
  end.

(** * executable form of the facets, used as oracle and proved equivalent to the definitions above *)
(** the literal's value as (i, n) with n minimal: value = i * 10^-n *)
Fixpoint min_repr (i : Z) (n : nat) : Z * nat :=
  match n with
  | O => (i, O)
  | S k => if (i mod 10 =? 0)%Z then min_repr (i / 10)%Z k else (i, n)
  end.
Definition udec_repr (l : list N) : Z * nat :=
  match split_dot l with
  | (ip, None) => (dval ip, O)
  | (ip, Some fp) => min_repr (dval (ip ++ fp)) (length fp)
  end.
Definition dec_repr (l : list N) : Z * nat :=
  let (neg, u) := strip_sign l in let (i, n) := udec_repr u in ((if neg then - i else i)%Z, n).
Definition total_digits_b (l : list N) (td : nat) : bool :=
  let (i, n) := dec_repr l in (Z.abs i <? Zpos (pow10 td))%Z && (n <=? td)%nat.
Definition fraction_digits_b (l : list N) (fd : nat) : bool :=
  let (i, n) := dec_repr l in (n <=? fd)%nat.

(** facets of one restriction step, in the value space *)
Record sfacets : Type := mkSF {
  s_enum : option (list Q);
  s_maxI : option Q; s_maxE : option Q; s_minI : option Q; s_minE : option Q;
  s_total : option nat; s_fract : option nat }.

Definition opt_ok {A} (o : option A) (p : A -> bool) : bool := match o with Some a => p a | None => true end.
Definition Qltb (a b : Q) : bool := match Qcompare a b with Lt => true | _ => false end.
Definition Qleb (a b : Q) : bool := match Qcompare a b with Gt => false | _ => true end.

(** a literal of the lexical space satisfies the facets of one step *)
Definition sfacets_ok (f : sfacets) (l : list N) : bool :=
  let v := dec_value l in
  opt_ok (s_enum f) (existsb (fun e => Qeq_bool v e)) &&
  opt_ok (s_maxI f) (fun m => Qleb v m) && opt_ok (s_maxE f) (fun m => Qltb v m) &&
  opt_ok (s_minI f) (fun m => Qleb m v) && opt_ok (s_minE f) (fun m => Qltb m v) &&
  opt_ok (s_total f) (total_digits_b l) && opt_ok (s_fract f) (fraction_digits_b l).

(** a string is a valid instance of a decimal type derived by a chain of restriction steps: after whitespace
    collapse it is in the lexical space and its value satisfies the facets of every step *)
Definition dec_valid (chain : list sfacets) (s : list N) : bool :=
  let l := ws_collapse s in dec_lex l && forallb (fun f => sfacets_ok f l) chain.
