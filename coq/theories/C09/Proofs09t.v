(** C09 lemmas, part t: xs:date -- XMLDateTime::parseDate (index based: indexOf, parseInt, getTimeZone,
    validateDateTime) accepts exactly the lexical space of 3.2.9.1 with its field constraints, for every string of
    code units whose year has at most 9 digits. *)
From Coq Require Import ZArith Lia ZifyBool.
From XV Require Import C09.Spec09 C09.Spec09c C09.Spec09g C09.Model09 C09.Model09c C09.Model09g C09.Proofs09b C09.Proofs09c C09.Proofs09k C09.Proofs09q C09.Proofs09s.
Local Open Scope N_scope.

Lemma at_app : forall (pre l : list N) j, at_ (pre ++ l) (length pre + j) = at_ l j.
Proof. intros. unfold at_. rewrite app_nth2 by lia. f_equal. lia. Qed.
Lemma at_app0 : forall (pre l : list N), at_ (pre ++ l) (length pre) = at_ l 0.
Proof. intros. rewrite <- (Nat.add_0_r (length pre)) at 1. apply at_app. Qed.

(** parseInt over a run of digits that sits at offset [length pre] *)
Lemma parse_uint_digits : forall ds pre rest acc, all_digits ds = true ->
  parse_uint (pre ++ ds ++ rest) (length pre) (length ds) acc =
  Some (fold_left (fun a c => ((a * 10 + digit_val c) mod 4294967296)%Z) ds acc).
Proof.
  induction ds as [|c r IH]; intros pre rest acc H; [reflexivity|].
  rewrite all_digits_cons in H. apply andb_prop in H. destruct H as [Hc Hr].
  cbn [length parse_uint fold_left]. rewrite at_app0. cbn [app]. unfold at_ at 1. cbn [nth]. rewrite Hc. cbn [negb].
  replace (pre ++ c :: r ++ rest) with ((pre ++ [c]) ++ r ++ rest) by (rewrite <- app_assoc; reflexivity).
  replace (S (length pre)) with (length (pre ++ [c])) by (rewrite app_length; cbn; lia).
  apply IH. exact Hr.
Qed.

(** ... and it fails as soon as the range contains a non-digit *)
Lemma parse_uint_bad : forall ds pre x rest k acc, all_digits ds = true -> is_digit x = false -> (length ds < k)%nat ->
  parse_uint (pre ++ ds ++ x :: rest) (length pre) k acc = None.
Proof.
  induction ds as [|c r IH]; intros pre x rest k acc H Hx L.
  - destruct k; [cbn in L; lia|]. cbn [parse_uint app]. rewrite at_app0. unfold at_. cbn [nth]. rewrite Hx. reflexivity.
  - rewrite all_digits_cons in H. apply andb_prop in H. destruct H as [Hc Hr].
    destruct k; [cbn in L; lia|]. cbn [parse_uint]. rewrite at_app0. cbn [app]. unfold at_ at 1. cbn [nth]. rewrite Hc. cbn [negb].
    replace (pre ++ c :: r ++ x :: rest) with ((pre ++ [c]) ++ r ++ x :: rest) by (rewrite <- app_assoc; reflexivity).
    replace (S (length pre)) with (length (pre ++ [c])) by (rewrite app_length; cbn; lia).
    apply IH; [exact Hr|exact Hx|cbn [length] in L; lia].
Qed.

(** indexOf over a run of digits followed by the separator *)
Lemma index_of_digits : forall ds pre rest k, all_digits ds = true -> (length ds < k)%nat ->
  index_of (pre ++ ds ++ ch_minus :: rest) (length pre) k ch_minus = Some (length pre + length ds)%nat.
Proof.
  induction ds as [|c r IH]; intros pre rest k H L.
  - destruct k; [cbn in L; lia|]. cbn [index_of app]. rewrite at_app0. unfold at_. cbn [nth]. cbn. f_equal. lia.
  - rewrite all_digits_cons in H. apply andb_prop in H. destruct H as [Hc Hr].
    destruct k; [cbn in L; lia|]. cbn [index_of]. rewrite at_app0. cbn [app]. unfold at_ at 1. cbn [nth].
    destruct (digit_not_sign c Hc) as [Nm _].
    replace (pre ++ c :: r ++ ch_minus :: rest) with ((pre ++ [c]) ++ r ++ ch_minus :: rest) by (rewrite <- app_assoc; reflexivity).
    replace (S (length pre)) with (length (pre ++ [c])) by (rewrite app_length; cbn; lia).
    rewrite Nm. rewrite IH by (try exact Hr; cbn [length] in L; lia). rewrite app_length. cbn [length]. f_equal. lia.
Qed.

Lemma parse_int_two : forall b s,
  parse_int b s (s + 2) =
  if is_digit (at_ b s) && is_digit (at_ b (S s)) then Some (digit_val (at_ b s) * 10 + digit_val (at_ b (S s)))%Z else None.
Proof.
  intros b s. unfold parse_int. replace (s + 2 - s)%nat with 2%nat by lia. cbn [parse_uint].
  destruct (is_digit (at_ b s)) eqn:D1; cbn [negb andb]; [|reflexivity].
  destruct (is_digit (at_ b (S s))) eqn:D2; cbn [negb]; [|reflexivity].
  pose proof (digit_val_range _ D1). pose proof (digit_val_range _ D2).
  f_equal. unfold to_int32. rewrite !Z.mod_small by lia. destruct (Z.ltb_spec (0 * 10 + digit_val (at_ b s)) 0); try lia.
  destruct (Z.ltb_spec ((0 * 10 + digit_val (at_ b s)) * 10 + digit_val (at_ b (S s))) 2147483648); lia.
Qed.

Lemma span_digits_spec : forall l,
  l = fst (span_digits l) ++ snd (span_digits l) /\ all_digits (fst (span_digits l)) = true /\
  match snd (span_digits l) with c :: _ => is_digit c = false | [] => True end.
Proof.
  induction l as [|c r IH]; [repeat split|]. cbn [span_digits]. destruct (is_digit c) eqn:D.
  - destruct (span_digits r) as [a b]. cbn [fst snd] in *. destruct IH as [I1 [I2 I3]]. repeat split.
    + cbn [app]. f_equal. exact I1.
    + rewrite all_digits_cons, D, I2. reflexivity.
    + exact I3.
  - cbn [fst snd]. repeat split. exact D.
Qed.

Lemma fold_is_dval : forall ds acc, all_digits ds = true -> (0 <= acc)%Z ->
  (acc * P10 (length ds) + dval ds < 4294967296)%Z ->
  fold_left (fun a c => ((a * 10 + digit_val c) mod 4294967296)%Z) ds acc = (acc * P10 (length ds) + dval ds)%Z.
Proof.
  induction ds as [|c r IH]; intros acc H A B; cbn [fold_left length].
  - rewrite P10_0, dval_nil. lia.
  - rewrite all_digits_cons in H. apply andb_prop in H. destruct H as [Hc Hr].
    pose proof (digit_val_range c Hc) as R. pose proof (dval_bounds r Hr) as Br. pose proof (P10_pos (length r)) as Pp.
    cbn [length] in B. rewrite P10_S, dval_cons in B.
    assert (S1 : (acc * 10 + digit_val c < 4294967296)%Z) by nia.
    rewrite Z.mod_small by lia. rewrite IH; [rewrite P10_S, dval_cons; ring|exact Hr|lia|].
    replace ((acc * 10 + digit_val c) * P10 (length r) + dval r)%Z with (acc * (10 * P10 (length r)) + (digit_val c * P10 (length r) + dval r))%Z by ring. exact B.
Qed.

Definition isSome {A} (o : option A) : bool := match o with Some _ => true | None => false end.

(** the Spec's conditions on what follows the year *)
Definition date_rest_spec (year : Z) (l2 : list N) : bool :=
  match field ch_minus l2 with
  | Some (mo, l3) =>
    match field ch_minus l3 with
    | Some (d, l4) => ((1 <=? mo) && (mo <=? 12) && (1 <=? d) && (d <=? days_in_month year mo))%Z && tz_lex l4
    | None => false end
  | None => false end.

Ltac at_norm pre :=
  repeat match goal with
  | |- context [at_ (pre ++ ?l) (length pre + ?j)] => rewrite (at_app pre l j)
  | |- context [at_ (pre ++ ?l) (S (length pre + ?j))] => replace (S (length pre + j)) with (length pre + S j)%nat by lia
  end.

Lemma validate_date : forall year mo d tzh tzm, (0 <= mo <= 99 -> 0 <= d <= 99 -> 0 <= tzh <= 99 -> 0 <= tzm <= 99 ->
  dt_validate true (mkDT year mo d 0 0 0 false tzh tzm) =
  negb (year =? 0) && ((1 <=? mo) && (mo <=? 12) && (1 <=? d) && (d <=? days_in_month year mo)) &&
  ((tzh <? 14) && (tzm <=? 59) || (tzh =? 14) && (tzm =? 0)))%Z.
Proof.
  intros. unfold dt_validate. cbn [dt_year dt_month dt_day dt_hour dt_min dt_sec dt_ms_nz dt_tzh dt_tzm].
  rewrite max_day_all_years. set (dm := days_in_month year mo). lia.
Qed.


(** getTimeZone against zzzzzz of the Spec *)
Lemma date_zone_spec : forall pre z,
  match date_zone (pre ++ z) (length pre) with
  | Some (h, m) => (0 <= h <= 99 /\ 0 <= m <= 99)%Z /\ tz_lex z = ((h <? 14) && (m <=? 59) || (h =? 14) && (m =? 0))%Z
  | None => tz_lex z = false
  end.
Proof.
  intros pre z. unfold date_zone, bind. rewrite app_length.
  destruct z as [|c z]; [cbn [length]; destruct (Nat.ltb_spec (length pre) (length pre + 0)); [lia|]; split; [lia|reflexivity]|].
  cbn [length]. destruct (Nat.ltb_spec (length pre) (length pre + S (length z))); [|lia].
  rewrite at_app0. change (at_ (c :: z) 0) with c.
  destruct (N.eqb_spec c 0x5A) as [Ez|Ez].
  - subst c. cbn [orb negb]. destruct z as [|x z].
    + cbn [length]. destruct (Nat.eqb_spec (S (length pre)) (length pre + 1)); [|lia]. cbn [negb]. split; [lia|reflexivity].
    + cbn [length]. destruct (Nat.eqb_spec (S (length pre)) (length pre + S (S (length z)))); [lia|]. cbn [negb]. reflexivity.
  - cbn [orb]. destruct ((c =? ch_plus) || (c =? ch_minus)) eqn:Sg; cbn [orb negb].
    2:{ unfold tz_lex. destruct z; [apply N.eqb_neq; exact Ez|]. rewrite Sg. reflexivity. }
    assert (Short : forall k, (k <> 5)%nat -> length z = k ->
              (negb (length pre + 6 =? length pre + S (length z))%nat || negb (at_ (pre ++ c :: z) (length pre + 3) =? 58)) = true).
    { intros k Hk Hl. destruct (Nat.eqb_spec (length pre + 6) (length pre + S (length z))); [lia|reflexivity]. }
    destruct z as [|a [|b [|c3 [|d [|e [|f z']]]]]].
    + rewrite (Short 0%nat) by (try reflexivity; lia). unfold tz_lex. apply N.eqb_neq. exact Ez.
    + rewrite (Short 1%nat) by (try reflexivity; lia). unfold tz_lex, two_digits. rewrite Sg. reflexivity.
    + rewrite (Short 2%nat) by (try reflexivity; lia). unfold tz_lex, two_digits, field, expect. rewrite Sg. destruct (is_digit a && is_digit b); reflexivity.
    + rewrite (Short 3%nat) by (try reflexivity; lia). unfold tz_lex, two_digits, field, expect. rewrite Sg.
      destruct (is_digit a && is_digit b); [|reflexivity]. destruct (c3 =? 58); reflexivity.
    + rewrite (Short 4%nat) by (try reflexivity; lia). unfold tz_lex, two_digits, field, expect. rewrite Sg.
      destruct (is_digit a && is_digit b); [|reflexivity]. destruct (c3 =? 58); reflexivity.
    + (* sign h h : m m *)
      cbn [length]. destruct (Nat.eqb_spec (length pre + 6) (length pre + 6)); [|lia]. cbn [negb orb].
      assert (P : forall bb, parse_int bb (length pre + 4) (length pre + 6) = parse_int bb (length pre + 4) (length pre + 4 + 2)) by (intros; f_equal; lia).
      rewrite P. rewrite !parse_int_two.
      replace (S (length pre + 1)) with (length pre + 2)%nat by lia. replace (S (length pre + 4)) with (length pre + 5)%nat by lia.
      rewrite !at_app. unfold at_. cbn [nth].
      unfold tz_lex, two_digits, field, expect. rewrite Sg. cbn [andb].
      destruct (c3 =? 58) eqn:E58; cbn [negb].
      * destruct (is_digit a) eqn:Da; destruct (is_digit b) eqn:Db; cbn [andb]; rewrite ?E58, ?Da, ?Db; cbn [andb]; try reflexivity.
        destruct (is_digit d) eqn:Dd; destruct (is_digit e) eqn:De; cbn [andb]; unfold two_digits; rewrite ?Dd, ?De; cbn [andb]; try reflexivity.
        pose proof (digit_val_range a Da). pose proof (digit_val_range b Db). pose proof (digit_val_range d Dd). pose proof (digit_val_range e De).
        split; [lia|reflexivity].
      * destruct (is_digit a && is_digit b); rewrite ?E58; reflexivity.
    + (* too long *)
      cbn [length]. destruct (Nat.eqb_spec (length pre + 6) (length pre + S (S (S (S (S (S (S (length z'))))))))); [lia|]. cbn [negb orb].
      unfold tz_lex, two_digits, field, expect. rewrite Sg. cbn [andb].
      destruct (is_digit a && is_digit b); [|reflexivity]. destruct (c3 =? 58); [|reflexivity].
      unfold two_digits. destruct (is_digit d && is_digit e); reflexivity.
Qed.


Lemma isSome_if : forall (A : Type) (c : bool) (x : A), isSome (if c then Some x else None) = c.
Proof. intros A [] x; reflexivity. Qed.

Lemma date_rest_ok : forall pre l3 year,
  isSome (date_rest true (pre ++ ch_minus :: l3) (length pre) year) =
  negb (year =? 0)%Z && date_rest_spec year (ch_minus :: l3).
Proof.
  intros pre l3 year. unfold date_rest, bind. rewrite !parse_int_two, app_length. cbn [length].
  replace (S (length pre + 1)) with (length pre + 2)%nat by lia. replace (S (length pre + 4)) with (length pre + 5)%nat by lia.
  rewrite !at_app. unfold date_rest_spec, field, expect. cbn [N.eqb ch_minus Pos.eqb].
  destruct l3 as [|m1 [|m2 [|s2 [|d1 [|d2 z]]]]]; cbn [length].
  - destruct (Nat.ltb_spec (length pre + 1) (length pre + 3)); [|lia]. rewrite Bool.andb_false_r. reflexivity.
  - destruct (Nat.ltb_spec (length pre + 2) (length pre + 3)); [|lia]. rewrite Bool.andb_false_r. reflexivity.
  - destruct (Nat.ltb_spec (length pre + 3) (length pre + 3)); [lia|]. unfold at_. cbn [nth]. unfold two_digits.
    destruct (is_digit m1 && is_digit m2); cbn [N.eqb ch_minus negb isSome]; rewrite Bool.andb_false_r; reflexivity.
  - destruct (Nat.ltb_spec (length pre + 4) (length pre + 3)); [lia|]. unfold at_. cbn [nth]. unfold two_digits.
    destruct (is_digit m1 && is_digit m2); [|rewrite Bool.andb_false_r; reflexivity].
    destruct (s2 =? ch_minus); cbn [negb isSome]; rewrite ?Bool.andb_false_r; reflexivity.
  - destruct (Nat.ltb_spec (length pre + 5) (length pre + 3)); [lia|]. unfold at_. cbn [nth]. unfold two_digits.
    destruct (is_digit m1 && is_digit m2); [|rewrite Bool.andb_false_r; reflexivity].
    destruct (s2 =? ch_minus); cbn [negb]; [|rewrite Bool.andb_false_r; reflexivity].
    change (is_digit 0) with false. rewrite Bool.andb_false_r. rewrite Bool.andb_false_r. reflexivity.
  - destruct (Nat.ltb_spec (length pre + S (S (S (S (S (S (length z))))))) (length pre + 3)); [lia|].
    unfold at_. cbn [nth]. unfold two_digits.
    destruct (is_digit m1) eqn:M1; destruct (is_digit m2) eqn:M2; cbn [andb]; try (rewrite Bool.andb_false_r; reflexivity).
    destruct (s2 =? ch_minus) eqn:S2; cbn [negb]; [|rewrite Bool.andb_false_r; reflexivity].
    destruct (is_digit d1) eqn:D1; destruct (is_digit d2) eqn:D2; cbn [andb]; try (rewrite Bool.andb_false_r; reflexivity).
    pose proof (digit_val_range m1 M1). pose proof (digit_val_range m2 M2). pose proof (digit_val_range d1 D1). pose proof (digit_val_range d2 D2).
    pose proof (date_zone_spec (pre ++ [ch_minus; m1; m2; s2; d1; d2]) z) as Z.
    rewrite <- app_assoc in Z. cbn [app] in Z. rewrite app_length in Z. cbn [length] in Z.
    change (45 :: m1 :: m2 :: s2 :: d1 :: d2 :: z) with (ch_minus :: m1 :: m2 :: s2 :: d1 :: d2 :: z).
    destruct (date_zone (pre ++ ch_minus :: m1 :: m2 :: s2 :: d1 :: d2 :: z) (length pre + 6)) as [[h m]|].
    + destruct Z as [[Rh Rm] Tz]. cbn [fst snd]. rewrite isSome_if, validate_date by lia. rewrite Tz.
      destruct (year =? 0)%Z; reflexivity.
    + rewrite Z. rewrite !Bool.andb_false_r. reflexivity.
Qed.


Lemma index_of_ge : forall k b s c p, index_of b s k c = Some p -> (s <= p)%nat.
Proof.
  induction k as [|k IH]; intros b s c p H; [discriminate|]. cbn [index_of] in H.
  destruct (at_ b s =? c); [inversion H; lia|]. apply IH in H. lia.
Qed.

Lemma index_of_skip : forall ds pre x rest k p, all_digits ds = true -> x <> ch_minus ->
  index_of (pre ++ ds ++ x :: rest) (length pre) k ch_minus = Some p -> (length pre + length ds < p)%nat.
Proof.
  induction ds as [|c r IH]; intros pre x rest k p H Hx E.
  - destruct k; [discriminate|]. cbn [index_of app] in E. rewrite at_app0 in E. unfold at_ in E. cbn [nth] in E.
    destruct (N.eqb_spec x ch_minus); [contradiction|]. apply index_of_ge in E. cbn [length]. lia.
  - rewrite all_digits_cons in H. apply andb_prop in H. destruct H as [Hc Hr].
    destruct k; [discriminate|]. cbn [index_of] in E. rewrite at_app0 in E. cbn [app] in E. unfold at_ at 1 in E. cbn [nth] in E.
    destruct (digit_not_sign c Hc) as [Nm _]. rewrite Nm in E.
    replace (pre ++ c :: r ++ x :: rest) with ((pre ++ [c]) ++ r ++ x :: rest) in E by (rewrite <- app_assoc; reflexivity).
    replace (S (length pre)) with (length (pre ++ [c])) in E by (rewrite app_length; cbn; lia).
    apply IH in E; [|exact Hr|exact Hx]. rewrite app_length in E. cbn [length] in *. lia.
Qed.

Lemma index_of_digits_none : forall ds pre k, all_digits ds = true ->
  index_of (pre ++ ds) (length pre) k ch_minus = None.
Proof.
  induction ds as [|c r IH]; intros pre k H.
  - rewrite app_nil_r. revert pre. induction k as [|k IHk]; intros pre; [reflexivity|]. cbn [index_of].
    unfold at_. rewrite nth_overflow by lia. cbn. 
    assert (G : forall s, (length pre <= s)%nat -> index_of pre s k ch_minus = None).
    { clear. induction k as [|k IHk]; intros s Hs; [reflexivity|]. cbn [index_of]. unfold at_. rewrite nth_overflow by lia. cbn. apply IHk. lia. }
    apply G. lia.
  - rewrite all_digits_cons in H. apply andb_prop in H. destruct H as [Hc Hr].
    destruct k; [reflexivity|]. cbn [index_of]. rewrite at_app0. unfold at_. cbn [nth].
    destruct (digit_not_sign c Hc) as [Nm _]. rewrite Nm.
    replace (pre ++ c :: r) with ((pre ++ [c]) ++ r) by (rewrite <- app_assoc; reflexivity).
    replace (S (length pre)) with (length (pre ++ [c])) by (rewrite app_length; cbn; lia).
    apply IH. exact Hr.
Qed.

Lemma rest_spec_len : forall y l3, date_rest_spec y (ch_minus :: l3) = true -> (5 <= length l3)%nat.
Proof.
  intros y l3 H. unfold date_rest_spec, field, expect, two_digits in H. cbn [N.eqb ch_minus Pos.eqb] in H.
  destruct l3 as [|a [|b [|c [|d [|e z]]]]]; cbn [length]; try lia; exfalso;
    repeat match type of H with context [if ?x then _ else _] => destruct x end; discriminate.
Qed.


(** the body of parseDate for a given sign flag *)
Definition date_body (neg : bool) (b : list N) : option dtv :=
  let fEnd := length b in
  if (fEnd <? 10)%nat then None else
  let start := if neg then 1%nat else 0%nat in
  bind (index_of b start (fEnd - start) ch_minus) (fun ysep =>
  let ylen := (ysep - start)%nat in
  if (ylen <? 4)%nat then None else
  if (4 <? ylen)%nat && (at_ b start =? ch_0) then None else
  bind (parse_int b start ysep) (fun yv =>
  date_rest true b ysep (if neg then -1 * yv else yv)%Z)).

Definition year_spec (neg : bool) (yd l2 : list N) : bool :=
  (4 <=? length yd)%nat && ((length yd =? 4)%nat || negb (first_is yd ch_0)) && negb (dval yd =? 0)%Z &&
  date_rest_spec (if neg then - dval yd else dval yd)%Z l2.

Lemma date_body_spec : forall (sgn l1 : list N) (neg : bool), length sgn = (if neg then 1 else 0)%nat ->
  (length (fst (span_digits l1)) <= 9)%nat ->
  isSome (date_body neg (sgn ++ l1)) = year_spec neg (fst (span_digits l1)) (snd (span_digits l1)).
Proof.
  intros sgn l1 neg Hs H9. destruct (span_digits_spec l1) as [E [Dy Hd]].
  set (yd := fst (span_digits l1)) in *. set (l2 := snd (span_digits l1)) in *. clearbody yd l2. subst l1.
  unfold date_body, year_spec, bind. rewrite <- Hs. rewrite !app_length.
  destruct (Nat.ltb_spec (length sgn + (length yd + length l2)) 10) as [Short|Long].
  - (* fewer than 10 characters: not in the lexical space either *)
    cbn [isSome]. symmetry. destruct (Nat.leb_spec 4 (length yd)); [|reflexivity]. cbn [andb].
    destruct (date_rest_spec _ l2) eqn:R; [|rewrite !Bool.andb_false_r; reflexivity]. exfalso.
    unfold date_rest_spec, field, expect in R. destruct l2 as [|x l3]; [discriminate|].
    destruct (N.eqb_spec x ch_minus); [|discriminate]. subst x.
    assert (R' : date_rest_spec (if neg then - dval yd else dval yd)%Z (ch_minus :: l3) = true) by exact R.
    apply rest_spec_len in R'. cbn [length] in Short. lia.
  - replace (length sgn + (length yd + length l2) - length sgn)%nat with (length yd + length l2)%nat by lia.
    destruct l2 as [|x l3].
    + (* nothing after the digits *)
      rewrite app_nil_r. rewrite (index_of_digits_none yd sgn _ Dy). cbn [isSome]. unfold date_rest_spec, field, expect. rewrite !Bool.andb_false_r. reflexivity.
    + destruct (N.eqb_spec x ch_minus) as [Ex|Ex].
      * (* the separator follows the digits *)
        subst x. rewrite (index_of_digits yd sgn l3 _ Dy) by (cbn [length]; lia).
        replace (length sgn + length yd - length sgn)%nat with (length yd) by lia.
        destruct (Nat.ltb_spec (length yd) 4) as [Y4|Y4].
        { cbn [isSome]. destruct (Nat.leb_spec 4 (length yd)); [lia|reflexivity]. }
        destruct (Nat.leb_spec 4 (length yd)); [|lia]. cbn [andb].
        rewrite at_app0. destruct yd as [|y0 yd']; [cbn in Y4; lia|]. cbn [app]. unfold at_ at 1. cbn [nth first_is].
        assert (Cond : (4 <? length (y0 :: yd'))%nat && (y0 =? ch_0) = negb ((length (y0 :: yd') =? 4)%nat || negb (y0 =? ch_0))).
        { destruct (Nat.ltb_spec 4 (length (y0 :: yd'))); destruct (Nat.eqb_spec (length (y0 :: yd')) 4); try lia; destruct (y0 =? ch_0); reflexivity. }
        rewrite Cond. destruct ((length (y0 :: yd') =? 4)%nat || negb (y0 =? ch_0)); cbn [negb andb isSome]; [|reflexivity].
        (* the year value *)
        unfold parse_int. replace (length sgn + length (y0 :: yd') - length sgn)%nat with (length (y0 :: yd')) by lia.
        change (sgn ++ y0 :: yd' ++ ch_minus :: l3) with (sgn ++ (y0 :: yd') ++ ch_minus :: l3).
        rewrite (parse_uint_digits (y0 :: yd') sgn (ch_minus :: l3) 0%Z Dy).
        pose proof (dval_bounds _ Dy) as Bd. assert (P9 : (P10 (length (y0 :: yd')) <= P10 9)%Z) by (apply P10_le; exact H9).
        assert (P9v : P10 9 = 1000000000%Z) by reflexivity.
        rewrite fold_is_dval by (try exact Dy; lia). replace (0 * P10 (length (y0 :: yd')) + dval (y0 :: yd'))%Z with (dval (y0 :: yd')) by lia.
        unfold to_int32. destruct (Z.ltb_spec (dval (y0 :: yd')) 2147483648); [|lia].
        replace (sgn ++ (y0 :: yd') ++ ch_minus :: l3) with ((sgn ++ y0 :: yd') ++ ch_minus :: l3) by (rewrite <- app_assoc; reflexivity).
        replace (length sgn + length (y0 :: yd'))%nat with (length (sgn ++ y0 :: yd')) by (rewrite app_length; reflexivity).
        rewrite date_rest_ok.
        replace (-1 * dval (y0 :: yd'))%Z with (- dval (y0 :: yd'))%Z by lia.
        destruct neg; [|reflexivity]. f_equal. destruct (Z.eqb_spec (dval (y0 :: yd')) 0); destruct (Z.eqb_spec (- dval (y0 :: yd')) 0); try lia; reflexivity.
      * (* some other character follows the digits: whatever '-' is found later, the year range contains a non-digit *)
        assert (RHS : date_rest_spec (if neg then - dval yd else dval yd)%Z (x :: l3) = false).
        { unfold date_rest_spec, field, expect. destruct (N.eqb_spec x ch_minus); [contradiction|reflexivity]. }
        rewrite RHS, Bool.andb_false_r.
        destruct (index_of (sgn ++ yd ++ x :: l3) (length sgn) (length yd + length (x :: l3)) ch_minus) as [p|] eqn:I; [|reflexivity].
        pose proof (index_of_skip yd sgn x l3 _ p Dy Ex I) as Far.
        destruct (p - length sgn <? 4)%nat; [reflexivity|].
        destruct ((4 <? p - length sgn)%nat && (at_ (sgn ++ yd ++ x :: l3) (length sgn) =? ch_0)); [reflexivity|].
        unfold parse_int. rewrite (parse_uint_bad yd sgn x l3 (p - length sgn) 0%Z Dy Hd) by lia. reflexivity.
Qed.


(** number of digits of the year of a literal *)
Definition year_digits (b : list N) : nat :=
  length (fst (span_digits (match b with c :: r => if c =? ch_minus then r else b | [] => [] end))).

(** T09_date_lex: XMLDateTime::parseDate (getDate, parseTimeZone, validateDateTime) accepts a string iff it is in
    the lexical space of xs:date with all field constraints -- for years of at most 9 digits (a C int) *)
Theorem date_lex_thm : forall b, (year_digits b <= 9)%nat -> date_ok true b = date_lex b.
Proof.
  intros b H. unfold date_ok. destruct b as [|c0 b0]; [reflexivity|].
  change (date_parse true (c0 :: b0)) with (date_body (c0 =? ch_minus) (c0 :: b0)).
  unfold date_lex, year_digits in *. destruct (N.eqb_spec c0 ch_minus) as [E|E].
  - subst c0. pose proof (date_body_spec [ch_minus] b0 true eq_refl H) as S. cbn [app] in S.
    fold (isSome (date_body true (ch_minus :: b0))). rewrite S. unfold year_spec.
    destruct (span_digits b0) as [yd l2]. cbn [fst snd]. reflexivity.
  - pose proof (date_body_spec [] (c0 :: b0) false eq_refl H) as S. cbn [app] in S.
    fold (isSome (date_body false (c0 :: b0))). rewrite S. unfold year_spec.
    destruct (span_digits (c0 :: b0)) as [yd l2]. cbn [fst snd]. reflexivity.
Qed.
