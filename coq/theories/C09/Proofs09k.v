(** C09 lemmas, part k: what dt_parse / dt_parse_norm deliver (fields validated and in range), so that
    T09_datetime_order applies to parsed literals. *)
From Coq Require Import ZArith QArith Lia ZifyBool.
From XV Require Import C09.Spec09 C09.Spec09c C09.Spec09e C09.Model09c C09.Model09e C09.Proofs09c C09.Proofs09d C09.Proofs09i C09.Proofs09j.
Local Open Scope Z_scope.
Ltac Zify.zify_post_hook ::= Z.to_euclidean_division_equations.

(** * what parse + validate + normalize deliver *)
Lemma dt_parse_validates : forall fx b v, dt_parse fx b = Some v -> dt_validate fx v = true.
Proof.
  intros fx b v H. unfold dt_parse, bind in H.
  repeat match type of H with
  | context [match ?x with _ => _ end] => destruct x eqn:?; try discriminate
  | context [if ?x then _ else _] => destruct x eqn:?; try discriminate
  end; inversion H; subst; assumption.
Qed.

Lemma parse_uint_bound : forall k b s acc v j, parse_uint b s k acc = Some v ->
  0 <= acc < P10 j -> (j + k <= 9)%nat -> 0 <= v < P10 (j + k).
Proof.
  induction k as [|k IH]; intros b s acc v j H A J; cbn [parse_uint] in H.
  - inversion H; subst. replace (j + 0)%nat with j by lia. exact A.
  - destruct (is_digit (at_ b s)) eqn:D; cbn [negb] in H; [|discriminate].
    pose proof (digit_val_range _ D) as R.
    assert (B : 0 <= acc * 10 + digit_val (at_ b s) < P10 (S j)) by (rewrite P10_S; lia).
    assert (M : P10 (S j) <= P10 9) by (apply P10_le; lia).
    assert (P9 : P10 9 = 1000000000) by reflexivity.
    rewrite Z.mod_small in H by lia.
    replace (j + S k)%nat with (S j + k)%nat by lia. apply (IH b (S s) _ v (S j) H B). lia.
Qed.

Lemma parse_int_small : forall b s e v, parse_int b s e = Some v -> (e - s <= 9)%nat -> 0 <= v < P10 (e - s).
Proof.
  intros b s e v H L. unfold parse_int in H. destruct (parse_uint b s (e - s) 0) as [u|] eqn:E; [|discriminate].
  pose proof (parse_uint_bound _ _ _ _ _ 0%nat E ltac:(rewrite P10_0; lia) ltac:(lia)) as B. cbn [Nat.add] in B.
  assert (M : P10 (e - s) <= P10 9) by (apply P10_le; lia). assert (P9 : P10 9 = 1000000000) by reflexivity.
  inversion H; subst. unfold to_int32. destruct (Z.ltb_spec u 2147483648); lia.
Qed.

Lemma dt_parse_fields : forall fx b v, dt_parse fx b = Some v ->
  0 <= dt_day v /\ 0 <= dt_tzh v /\ 0 <= dt_tzm v.
Proof.
  intros fx b v H. unfold dt_parse, bind in H.
  repeat match type of H with
  | context [match ?x with _ => _ end] => destruct x eqn:?; try discriminate
  | context [if ?x then _ else _] => destruct x eqn:?; try discriminate
  end; inversion H; subst; cbn [dt_day dt_tzh dt_tzm].
  all: repeat match goal with
       | E : parse_int _ ?s ?e = Some _ |- _ =>
           let B := fresh "B" in
           assert (B := parse_int_small _ _ _ _ E); clear E
       end.
  all: repeat match goal with
       | H : _ || _ = false |- _ => apply Bool.orb_false_iff in H; destruct H
       | H : negb _ = false |- _ => apply Bool.negb_false_iff in H
       | H : (_ =? _)%nat = true |- _ => apply Nat.eqb_eq in H
       end.
  all: repeat match goal with
       | B : (?c <= 9)%nat -> _ |- _ =>
           first [ let T := fresh in assert (T : (c <= 9)%nat) by lia; specialize (B T); clear T | clear B ]
       end.
  all: repeat split; lia.
Qed.

Lemma span_digits_all : forall l, all_digits (fst (span_digits l)) = true.
Proof.
  induction l as [|c r IH]; [reflexivity|]. cbn [span_digits]. destruct (is_digit c) eqn:D; [|reflexivity].
  destruct (span_digits r) as [a b]. cbn [fst] in *. rewrite all_digits_cons, D, IH. reflexivity.
Qed.

(** parse + validate + normalize give a normalised in-range value, outside F31 (hour 24 kept) and F32 / negative
    years (stated for years >= 2) *)
Lemma parse_norm_ok : forall b v p, dt_parse true b = Some v -> dt_parse_norm true b = Some p ->
  2 <= dt_year v -> n_h (p_n p) <> 24 -> dtp_ok p.
Proof.
  intros b v p Hp Hn Hy H24. pose proof (dt_parse_validates _ _ _ Hp) as V. pose proof (dt_parse_fields _ _ _ Hp) as [D0 [T0 T1]].
  unfold dt_parse_norm in Hn. rewrite Hp in Hn.
  destruct (index_of b _ _ ch_minus) as [ysep|]; [|discriminate].
  unfold dt_validate in V.
  set (n := mkN (dt_year v) (dt_month v) (dt_day v) (dt_hour v) (dt_min v) (dt_sec v)) in *.
  assert (R : 1 <= dt_month v <= 12 /\ 1 <= dt_day v <= max_day (dt_year v) (dt_month v) /\ 0 <= dt_hour v <= 24 /\
              0 <= dt_min v <= 59 /\ 0 <= dt_sec v <= 59 /\ dt_tzh v <= 14 /\ dt_tzm v <= 59) by lia.
  destruct R as [R1 [R2 [R3 [R4 [R5 [R6 R7]]]]]].
  assert (Norm : forall negate, (negate = 1 \/ negate = -1) -> in_range (normalize negate (dt_tzh v) (dt_tzm v) n)).
  { intros negate Hneg.
    destruct (normalize_timeline negate (dt_tzh v) (dt_tzm v) n Hneg ltac:(lia) ltac:(lia) Hy R1 R2 R3 R4) as [_ [M [D [H [MI [S Y]]]]]].
    constructor; [repeat split; lia|lia|lia|]. rewrite S. exact R5. }
  destruct (utc_kind b (ysep + 15) =? 2) eqn:K2; [|destruct (utc_kind b (ysep + 15) =? 3) eqn:K3];
    inversion Hn; subst p; cbn [p_n p_zoned p_frac] in *; constructor; cbn [p_n p_zoned p_frac].
  - apply Norm. auto.
  - intros Z. apply Z.eqb_eq in K2. rewrite K2 in Z. discriminate.
  - unfold frac_digits; destruct (at_ b (ysep + 15) =? ch_dot)%N; [apply span_digits_all|reflexivity].
  - apply Norm. auto.
  - intros Z. apply Z.eqb_eq in K3. rewrite K3 in Z. discriminate.
  - unfold frac_digits; destruct (at_ b (ysep + 15) =? ch_dot)%N; [apply span_digits_all|reflexivity].
  - unfold n. constructor; cbn [n_y n_mo n_d n_h n_mi n_s]; [repeat split; lia| |lia|lia]. unfold n in H24. cbn [n_h] in H24. lia.
  - intros _. exact Hy.
  - unfold frac_digits; destruct (at_ b (ysep + 15) =? ch_dot)%N; [apply span_digits_all|reflexivity].
Qed.

(** * the findings F30, F31, F32 on the faithful model *)
From Coq Require Import String Ascii.
Fixpoint s2l (s : string) : list N :=
  match s with EmptyString => [] | String c r => N_of_ascii c :: s2l r end.

Lemma f30_refuted :
  dtv_compare true (s2l "2000-01-01T12:00:00") (s2l "2000-01-01T12:00:00+14:00") = 0 /\
  dt_order (s2l "2000-01-01T12:00:00") (s2l "2000-01-01T12:00:00+14:00") = 2 /\
  dtv_compare true (s2l "1999-12-31T22:00:00Z") (s2l "2000-01-01T12:00:00") = 0 /\
  dt_order (s2l "1999-12-31T22:00:00Z") (s2l "2000-01-01T12:00:00") = 2.
Proof. vm_compute. repeat split; reflexivity. Qed.

Lemma f31_refuted :
  dtv_compare true (s2l "2000-01-01T24:00:00") (s2l "2000-01-02T00:00:00") = -1 /\
  dt_order (s2l "2000-01-01T24:00:00") (s2l "2000-01-02T00:00:00") = 0 /\
  dt_canon true (s2l "2000-01-01T24:00:00") = Some (s2l "2000-01-01T00:00:00") /\
  dt_canon_of (s2l "2000-01-01T24:00:00") (s2l "2000-01-01T00:00:00") = false.
Proof. vm_compute. repeat split; reflexivity. Qed.

Lemma f32_refuted :
  dt_canon true (s2l "0001-01-01T05:00:00+14:00") = Some (s2l "0000-12-31T15:00:00Z") /\
  dt_lex (s2l "0000-12-31T15:00:00Z") = false /\ dt_canon true (s2l "0000-12-31T15:00:00Z") = None.
Proof. vm_compute. repeat split; reflexivity. Qed.

(** non-vacuity of T09_datetime_order: parsed literals satisfy its hypotheses *)
Lemma order_nonvacuous :
  match dt_parse_norm true (s2l "2001-11-30T23:30:00.5-02:00"), dt_parse_norm true (s2l "2001-12-01T01:30:00.50Z") with
  | Some a, Some b => dt_compare a b = 0%Z /\ p_n a = mkN 2001 12 1 1 30 0
  | _, _ => False
  end.
Proof. vm_compute. split; reflexivity. Qed.
