(** Specification side of C09 (xs:dateTime): XML Schema Part 2 (second edition) section 3.2.7.1, lexical
    representation  '-'? yyyy '-' mm '-' dd 'T' hh ':' mm ':' ss ('.' s+)? (zzzzzz)?  with the field constraints of
    3.2.7: at least four year digits, no leading zero beyond four digits, year 0000 prohibited, month 01-12, day valid
    for the month and year, hour 00-23 (or 24:00:00 with zero fraction), minute 00-59, second 00-59 (no leap second),
    time zone 'Z' or (+|-)hh:mm with hh:mm at most 14:00.  Leap years are computed on the numeric year
    (divisible by 4 and not by 100, or by 400), also for negative years.  Nothing here mentions the C++ code. *)
From XV Require Export C09.Spec09.
Local Open Scope N_scope.

Fixpoint span_digits (l : list N) : list N * list N :=
  match l with
  | c :: r => if is_digit c then let (a, b) := span_digits r in (c :: a, b) else ([], l)
  | [] => ([], [])
  end.
Definition two_digits (l : list N) : option (Z * list N) :=
  match l with
  | a :: b :: r => if is_digit a && is_digit b then Some ((digit_val a * 10 + digit_val b)%Z, r) else None
  | _ => None
  end.
Definition expect (c : N) (l : list N) : option (list N) :=
  match l with x :: r => if x =? c then Some r else None | [] => None end.
Definition field (sep : N) (l : list N) : option (Z * list N) :=
  match expect sep l with Some r => two_digits r | None => None end.

Definition leap_year (y : Z) : bool := ((y mod 4 =? 0) && (negb (y mod 100 =? 0) || (y mod 400 =? 0)))%Z.
Definition days_in_month (y m : Z) : Z :=
  (if (m =? 4) || (m =? 6) || (m =? 9) || (m =? 11) then 30
   else if m =? 2 then (if leap_year y then 29 else 28) else 31)%Z.

(** zzzzzz *)
Definition tz_lex (l : list N) : bool :=
  match l with
  | [] => true
  | [c] => c =? 0x5A
  | s :: r =>
      ((s =? ch_plus) || (s =? ch_minus)) &&
      match two_digits r with
      | Some (h, r1) => match field 0x3A r1 with
                        | Some (m, []) => ((h <? 14) && (m <=? 59) || (h =? 14) && (m =? 0))%Z
                        | _ => false end
      | None => false
      end
  end.

Definition dt_lex (l : list N) : bool :=
  let (neg, l1) := match l with c :: r => if c =? ch_minus then (true, r) else (false, l) | [] => (false, []) end in
  let (yd, l2) := span_digits l1 in
  let y := (if neg then - dval yd else dval yd)%Z in
  (4 <=? length yd)%nat && ((length yd =? 4)%nat || negb (first_is yd ch_0)) && negb (dval yd =? 0)%Z &&
  match field ch_minus l2 with
  | Some (mo, l3) =>
    match field ch_minus l3 with
    | Some (d, l4) =>
      match field 0x54 l4 with
      | Some (h, l5) =>
        match field 0x3A l5 with
        | Some (mi, l6) =>
          match field 0x3A l6 with
          | Some (s, l7) =>
            let '(frac_ok, frac_zero, l8) :=
              match l7 with
              | c :: r => if c =? ch_dot then let (fd, r') := span_digits r in
                                              (negb (nilb fd), forallb (fun x => x =? ch_0) fd, r')
                          else (true, true, l7)
              | [] => (true, true, [])
              end in
            ((1 <=? mo) && (mo <=? 12) && (1 <=? d) && (d <=? days_in_month y mo) &&
             ((h <=? 23) || (h =? 24) && (mi =? 0) && (s =? 0) && frac_zero) && (mi <=? 59) && (s <=? 59))%Z &&
            frac_ok && tz_lex l8
          | None => false end
        | None => false end
      | None => false end
    | None => false end
  | None => false end.
