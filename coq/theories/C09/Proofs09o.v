(** C09 lemmas, part o: list and union combinators over abstract member validators. *)
From Coq Require Import Lia.
From XV Require Import C09.Spec09 C09.Spec09d C09.Spec09f C09.Model09 C09.Model09f.
Local Open Scope N_scope.

(** T09_list: a list type accepts s iff every token of the collapsed value is accepted by the item type and the
    length facets hold for the NUMBER OF ITEMS *)
Lemma list_check_spec : forall item len_ok s,
  list_check item len_ok (ws_collapse s) = list_type_valid item len_ok s.
Proof. intros. unfold list_check, list_type_valid. apply andb_comm. Qed.

Lemma list_check_forall : forall item len_ok s,
  list_check item len_ok (ws_collapse s) = true <->
  Forall (fun t => item t = true) (tokens (ws_collapse s)) /\ len_ok (length (tokens (ws_collapse s))) = true.
Proof.
  intros. unfold list_check. rewrite andb_true_iff, forallb_forall, Forall_forall. tauto.
Qed.

(** the items are non-empty and contain no space *)
Lemma tokens_go_items : forall l cur, forallb (fun c => negb (c =? ch_space)) cur = true ->
  Forall (fun t => t <> [] /\ forallb (fun c => negb (c =? ch_space)) t = true) (tokens_go cur l).
Proof.
  induction l as [|c r IH]; intros cur Hc; cbn [tokens_go].
  - destruct cur as [|x cur']; [constructor|]. constructor; [|constructor]. split.
    + intros E. apply (f_equal (@length N)) in E. rewrite rev_length in E. discriminate.
    + rewrite forallb_forall in *. intros y Hy. apply Hc. apply in_rev. exact Hy.
  - destruct (c =? ch_space) eqn:E.
    + destruct cur as [|x cur']; [apply IH; reflexivity|]. constructor; [|apply IH; reflexivity]. split.
      * intros E'. apply (f_equal (@length N)) in E'. rewrite rev_length in E'. discriminate.
      * rewrite forallb_forall in *. intros y Hy. apply Hc. apply in_rev. exact Hy.
    + apply IH. cbn [forallb]. rewrite E. exact Hc.
Qed.
Lemma tokens_items : forall l, Forall (fun t => t <> [] /\ forallb (fun c => negb (c =? ch_space)) t = true) (tokens l).
Proof. intros. apply tokens_go_items. reflexivity. Qed.

(** T09_union: a union accepts s iff some member type accepts s *)
Lemma union_check_spec : forall members s, union_check members s = union_type_valid members s.
Proof.
  intros members s. unfold union_check, union_type_valid. induction members as [|m r IH]; [reflexivity|].
  cbn [find existsb]. destruct (m s); [reflexivity|exact IH].
Qed.
Lemma union_check_exists : forall members s, union_check members s = true <-> exists m, In m members /\ m s = true.
Proof. intros. rewrite union_check_spec. unfold union_type_valid. apply existsb_exists. Qed.

(** lists of unions and unions of lists are instances *)
Lemma list_of_union : forall members len_ok s,
  list_check (union_check members) len_ok (ws_collapse s) = true <->
  Forall (fun t => exists m, In m members /\ m t = true) (tokens (ws_collapse s)) /\ len_ok (length (tokens (ws_collapse s))) = true.
Proof.
  intros. rewrite list_check_forall. split; intros [F L]; split; try exact L;
    (eapply Forall_impl; [|exact F]); intros t Ht; apply union_check_exists; exact Ht.
Qed.
