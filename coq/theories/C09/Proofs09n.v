(** C09 lemmas, part n: base64Binary -- Base64::decode (Conf_Schema) with the repaired narrowing and table
    (fix12 = fix12b = true, the code at HEAD) accepts exactly the lexical space of the errata grammar, decodes to the
    octets of the Spec, and its canonical data is the literal without spaces. *)
From Coq Require Import NArith Lia.
From XV Require Import C09.Spec09 C09.Spec09b C09.Model09 C09.Model09b C09.Proofs09f.
Local Open Scope N_scope.

Lemma b64_val_big : forall c, 123 <= c -> b64_val c = None.
Proof.
  intros c H. unfold b64_val.
  destruct ((65 <=? c) && (c <=? 90)) eqn:A; [apply andb_prop in A; destruct A as [_ A]; apply N.leb_le in A; lia|].
  destruct ((97 <=? c) && (c <=? 122)) eqn:B; [apply andb_prop in B; destruct B as [_ B]; apply N.leb_le in B; lia|].
  destruct ((48 <=? c) && (c <=? 57)) eqn:C; [apply andb_prop in C; destruct C as [_ C]; apply N.leb_le in C; lia|].
  destruct (N.eqb_spec c 43); [lia|]. destruct (N.eqb_spec c 47); [lia|]. reflexivity.
Qed.

Definition val_ok (c : N) : bool :=
  match b64_val c with Some v => (v <? 64) && (c <? 123) && negb (c =? ch_eq) && negb (c =? ch_space) | None => true end.
Lemma val_sweep : forallb val_ok (nrange 256) = true. Proof. vm_compute. reflexivity. Qed.
Lemma b64_val_range : forall c v, b64_val c = Some v -> v < 64 /\ c < 123 /\ c <> ch_eq /\ c <> ch_space.
Proof.
  intros c v H. destruct (N.lt_ge_cases c 256) as [L|G].
  - pose proof (sweep256 _ val_sweep c L) as S. unfold val_ok in S. rewrite H in S.
    apply andb_prop in S. destruct S as [S S4]. apply andb_prop in S. destruct S as [S S3]. apply andb_prop in S. destruct S as [S1 S2].
    apply N.ltb_lt in S1, S2. apply Bool.negb_true_iff in S3, S4. apply N.eqb_neq in S3, S4. auto.
  - rewrite b64_val_big in H by lia. discriminate.
Qed.

Lemma inv_len : N.of_nat (length base64Inverse) = 256. Proof. vm_compute. reflexivity. Qed.

Lemma b64_inv_spec : forall c, b64_inv true c = match b64_val c with Some v => v | None => 0xFF end.
Proof.
  intros c. unfold b64_inv. rewrite inv_len. destruct (N.ltb_spec c 256) as [L|G].
  - pose proof b64_table as T. unfold b64_table_ok in T. rewrite forallb_forall in T.
    assert (I : In c (nrange (length base64Inverse))) by (apply nrange_in; rewrite inv_len; exact L).
    specialize (T c I). destruct (b64_val c); apply N.eqb_eq in T; exact T.
  - rewrite b64_val_big by lia. reflexivity.
Qed.

Lemma b64_isData_spec : forall c, b64_isData true c = match b64_val c with Some _ => true | None => false end.
Proof.
  intros c. unfold b64_isData. rewrite b64_inv_spec. destruct (b64_val c) as [v|] eqn:E; [|reflexivity].
  destruct (b64_val_range c v E) as [R _]. destruct (N.eqb_spec v 255); [lia|reflexivity].
Qed.

Definition bits_ok : bool :=
  forallb (fun x => forallb (fun y =>
    (set1st x y =? 4 * x + y / 16) && (set2nd x y =? 16 * (x mod 16) + y / 4) && (set3rd x y =? 64 * (x mod 4) + y) &&
    Bool.eqb (N.land x 0xF =? 0) (x mod 16 =? 0) && Bool.eqb (N.land x 0x3 =? 0) (x mod 4 =? 0)) (nrange 64)) (nrange 64).
Lemma bits_sweep : bits_ok = true. Proof. vm_compute. reflexivity. Qed.
Lemma bits : forall x y, x < 64 -> y < 64 ->
  set1st x y = 4 * x + y / 16 /\ set2nd x y = 16 * (x mod 16) + y / 4 /\ set3rd x y = 64 * (x mod 4) + y /\
  (N.land x 0xF =? 0) = (x mod 16 =? 0) /\ (N.land x 0x3 =? 0) = (x mod 4 =? 0).
Proof.
  intros x y Hx Hy. pose proof bits_sweep as T. unfold bits_ok in T. rewrite forallb_forall in T.
  specialize (T x (nrange_in 64 x Hx)). rewrite forallb_forall in T. specialize (T y (nrange_in 64 y Hy)).
  apply andb_prop in T. destruct T as [T T5]. apply andb_prop in T. destruct T as [T T4].
  apply andb_prop in T. destruct T as [T T3]. apply andb_prop in T. destruct T as [T1 T2].
  apply N.eqb_eq in T1, T2, T3. apply Bool.eqb_prop in T4, T5. auto.
Qed.

Lemma strip_is_despace : forall l w, b64_strip_schema w l = despace w l.
Proof. induction l as [|c r IH]; intros w; [reflexivity|]. cbn [b64_strip_schema despace]. rewrite !IH. reflexivity. Qed.

Lemma pad_not_data : b64_val ch_eq = None. Proof. reflexivity. Qed.

(** one quadruplet followed by more data *)
Lemma quad_step : forall a b c d x r, 
  b64_quads_m true (a :: b :: c :: d :: x :: r) =
  match b64_val a, b64_val b, b64_val c, b64_val d, b64_quads_m true (x :: r) with
  | Some p, Some q, Some s, Some t, Some v => Some (4 * p + q / 16 :: 16 * (q mod 16) + s / 4 :: 64 * (s mod 4) + t :: v)
  | _, _, _, _, _ => None
  end.
Proof.
  intros. cbn [b64_quads_m]. rewrite !b64_isData_spec, !b64_inv_spec.
  destruct (b64_val a) as [p|] eqn:Ea; [|reflexivity]. destruct (b64_val b) as [q|] eqn:Eb; [|reflexivity].
  destruct (b64_val c) as [s|] eqn:Ec; [|reflexivity]. destruct (b64_val d) as [t|] eqn:Ed; [|reflexivity].
  cbn [negb orb].
  destruct (b64_val_range _ _ Ea) as [Rp _]. destruct (b64_val_range _ _ Eb) as [Rq _].
  destruct (b64_val_range _ _ Ec) as [Rs _]. destruct (b64_val_range _ _ Ed) as [Rt _].
  destruct (bits p q Rp Rq) as [B1 _]. destruct (bits q s Rq Rs) as [_ [B2 _]]. destruct (bits s t Rs Rt) as [_ [_ [B3 _]]].
  rewrite B1, B2, B3. reflexivity.
Qed.

(** the last quadruplet *)
Lemma quad_final : forall a b c d, b64_quads_m true [a; b; c; d] = b64_quads [a; b; c; d].
Proof.
  intros. cbn [b64_quads_m b64_quads]. rewrite !b64_isData_spec, !b64_inv_spec. unfold b64_isPad.
  destruct (b64_val a) as [p|] eqn:Ea; [|reflexivity]. destruct (b64_val b) as [q|] eqn:Eb; [|reflexivity].
  cbn [negb orb].
  destruct (b64_val_range _ _ Ea) as [Rp _]. destruct (b64_val_range _ _ Eb) as [Rq _].
  destruct (bits p q Rp Rq) as [B1 _]. destruct (bits q q Rq Rq) as [_ [_ [_ [B4 _]]]].
  destruct (N.eqb_spec c ch_eq) as [Ec|Ec]; destruct (N.eqb_spec d ch_eq) as [Ed|Ed]; subst; cbn [andb negb orb].
  - (* "==" *) rewrite B4, B1. destruct (q mod 16 =? 0); reflexivity.
  - (* "=x" *) destruct (b64_val d) as [t|] eqn:Evd; cbn [negb orb]; reflexivity.
  - (* "x=" *) destruct (b64_val c) as [s|] eqn:Evc; cbn [negb orb andb].
    + destruct (b64_val_range _ _ Evc) as [Rs _]. destruct (bits q s Rq Rs) as [_ [B2 _]]. destruct (bits s s Rs Rs) as [_ [_ [_ [_ B5]]]].
      rewrite B5, B1, B2. destruct (s mod 4 =? 0); reflexivity.
    + reflexivity.
  - destruct (b64_val c) as [s|] eqn:Evc; destruct (b64_val d) as [t|] eqn:Evd; cbn [negb orb andb]; try reflexivity.
    destruct (b64_val_range _ _ Evc) as [Rs _]. destruct (b64_val_range _ _ Evd) as [Rt _].
    destruct (bits q s Rq Rs) as [_ [B2 _]]. destruct (bits s t Rs Rt) as [_ [_ [B3 _]]]. rewrite B1, B2, B3. reflexivity.
Qed.

Lemma quad_ind : forall (P : list N -> Prop), P [] -> (forall a, P [a]) -> (forall a b, P [a; b]) -> (forall a b c, P [a; b; c]) ->
  (forall a b c d r, P r -> P (a :: b :: c :: d :: r)) -> forall l, P l.
Proof.
  intros P H0 H1 H2 H3 H4. fix IH 1. intros [|a [|b [|c [|d r]]]]; [exact H0|apply H1|apply H2|apply H3|apply H4; apply IH].
Qed.

(** the quadruplet loops compute the Spec's decoding on every non-empty data string *)
Lemma quads_eq : forall q, q <> [] -> b64_quads_m true q = b64_quads q.
Proof.
  induction q as [| a | a b | a b c | a b c d r IH] using quad_ind; intros Hne; try reflexivity; [contradiction|].
  destruct r as [|x r].
  - apply quad_final.
  - rewrite quad_step. rewrite (IH ltac:(discriminate)). cbn [b64_quads].
    destruct (b64_val a); [|reflexivity]. destruct (b64_val b); [|reflexivity].
    destruct (b64_val c); destruct (b64_val d); try reflexivity.
Qed.

Lemma quads_chars : forall q v, b64_quads q = Some v -> forallb (fun c => c <=? 0xFF) q = true.
Proof.
  induction q as [| a | a b | a b c | a b c d r IH] using quad_ind; intros v H; cbn [b64_quads] in H; try discriminate; [reflexivity|].
  destruct (b64_val a) as [p|] eqn:Ea; [|discriminate]. destruct (b64_val b) as [s|] eqn:Eb; [|discriminate].
  destruct (b64_val_range _ _ Ea) as [_ [Ra _]]. destruct (b64_val_range _ _ Eb) as [_ [Rb _]].
  assert (Sm : forall c, (c =? ch_eq) = true \/ (exists z, b64_val c = Some z) -> (c <=? 0xFF) = true).
  { intros c0 [E|[z E]]; apply N.leb_le; [apply N.eqb_eq in E; subst; unfold ch_eq; lia|destruct (b64_val_range _ _ E) as [_ [R _]]; lia]. }
  cbn [forallb]. assert (La : (a <=? 255) = true) by (apply N.leb_le; lia). assert (Lb : (b <=? 255) = true) by (apply N.leb_le; lia).
  rewrite La, Lb. cbn [andb].
  destruct r as [|x r].
  - destruct ((c =? ch_eq) && (d =? ch_eq)) eqn:P2.
    + apply andb_prop in P2. destruct P2 as [P1 P2]. rewrite (Sm c (or_introl P1)), (Sm d (or_introl P2)). reflexivity.
    + destruct (d =? ch_eq) eqn:Pd.
      * destruct (b64_val c) as [z|] eqn:Ec; [|discriminate]. rewrite (Sm c (or_intror (ex_intro _ z Ec))), (Sm d (or_introl Pd)). reflexivity.
      * destruct (b64_val c) as [z|] eqn:Ec; [|discriminate]. destruct (b64_val d) as [w|] eqn:Ed; [|discriminate].
        rewrite (Sm c (or_intror (ex_intro _ z Ec))), (Sm d (or_intror (ex_intro _ w Ed))). reflexivity.
  - destruct (b64_val c) as [z|] eqn:Ec; [|discriminate]. destruct (b64_val d) as [w|] eqn:Ed; [|discriminate].
    destruct (b64_quads (x :: r)) as [v'|] eqn:Er; [|discriminate].
    rewrite (Sm c (or_intror (ex_intro _ z Ec))), (Sm d (or_intror (ex_intro _ w Ed))). cbn [andb]. exact (IH v' eq_refl).
Qed.

Lemma despace_chars : forall l w q, despace w l = Some q -> forallb (fun c => c <=? 0xFF) q = true ->
  forallb (fun c => c <=? 0xFF) l = true.
Proof.
  induction l as [|c r IH]; intros w q H Hq; [reflexivity|]. cbn [despace] in H. cbn [forallb].
  destruct (N.eqb_spec c ch_space) as [E|E].
  - subst c. destruct w; [discriminate|]. rewrite (IH _ _ H Hq). reflexivity.
  - destruct (despace false r) as [q'|] eqn:D; [|discriminate]. inversion H; subst q. cbn [forallb] in Hq.
    apply andb_prop in Hq. destruct Hq as [H1 H2]. rewrite H1, (IH _ _ D H2). reflexivity.
Qed.

Lemma despace_nonempty : forall l w q, l <> [] -> despace w l = Some q -> (w = false -> q <> []).
Proof.
  induction l as [|c r IH]; intros w q Hne H Hw; [contradiction|]. subst w. cbn [despace] in H.
  destruct (c =? ch_space) eqn:E.
  - destruct r as [|x r]; [cbn in H; discriminate|]. cbn [despace] in H. destruct (x =? ch_space); [discriminate|].
    destruct (despace false r); [|discriminate]. inversion H. discriminate.
  - destruct (despace false r); [|discriminate]. inversion H. discriminate.
Qed.

(** T09_base64: for every non-empty string of UTF-16 code units, Base64::decode (Conf_Schema, repaired narrowing and
    table) succeeds iff the string is in the lexical space; it then returns the octets of the Spec and, as canonical
    data, the literal with its spaces removed *)
Lemma b64_decode_spec : forall s, s <> [] ->
  match b64_decode true true true s with
  | Some (v, q) => b64_value s = Some v /\ despace false s = Some q
  | None => b64_value s = None
  end.
Proof.
  intros s Hne. unfold b64_decode, b64_narrow, b64_value. destruct s as [|c0 s0]; [contradiction|].
  set (s := c0 :: s0) in *.
  destruct (existsb (fun c => 255 <? c) s) eqn:Ex.
  - (* a code unit above U+00FF: rejected; and not in the lexical space *)
    destruct (c0 =? ch_space); [reflexivity|].
    destruct (despace false s) as [q|] eqn:D; [|reflexivity].
    destruct (b64_quads q) as [v|] eqn:Q; [|reflexivity]. exfalso.
    pose proof (despace_chars s false q D (quads_chars q v Q)) as A.
    apply existsb_exists in Ex. destruct Ex as [x [Ix Lx]]. rewrite forallb_forall in A. specialize (A x Ix).
    apply N.ltb_lt in Lx. apply N.leb_le in A. lia.
  - unfold b64_decode_bytes. fold s. unfold s at 1. fold s.
    destruct (c0 =? ch_space); [reflexivity|]. rewrite strip_is_despace.
    destruct (despace false s) as [q|] eqn:D; [|reflexivity].
    assert (Hq : q <> []) by (apply (despace_nonempty s false q); [discriminate|exact D|reflexivity]).
    rewrite (quads_eq q Hq). destruct (b64_quads q); [split; reflexivity|reflexivity].
Qed.

Lemma b64_lex_iff : forall s, s <> [] ->
  ((exists v q, b64_decode true true true s = Some (v, q)) <-> b64_lex s = true).
Proof.
  intros s Hne. pose proof (b64_decode_spec s Hne) as D. unfold b64_lex. split.
  - intros [v [q E]]. rewrite E in D. destruct D as [D _]. rewrite D. reflexivity.
  - intros L. destruct (b64_decode true true true s) as [[v q]|]; [eauto|]. rewrite D in L. discriminate.
Qed.
