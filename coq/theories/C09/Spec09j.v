(** Specification side of C09 (canonical representation of xs:date and xs:time; Part 2 3.2.9.2, 3.2.8.2 with E2-41).
    A date denotes the interval starting at its local midnight; with a time zone that start is an instant on the UTC
    timeline.  The canonical date keeps that start and writes it with the "recoverable" zone: none for an unzoned
    value, 'Z' for offset 0, otherwise an offset between -11:59 and +12:00.  A time denotes an instant recurring every
    day; its canonical form is the UTC time of day ('Z' iff zoned), hour never 24, no trailing fraction zeros.
    Both are expressed through the dateTime literal that has the same start.  Nothing here mentions the C++ code. *)
From XV Require Export C09.Spec09e C09.Spec09g.
Local Open Scope N_scope.

Definition s_T000000 : list N := [0x54; 0x30; 0x30; 0x3A; 0x30; 0x30; 0x3A; 0x30; 0x30].     (* T00:00:00 *)
Definition s_20000101T : list N := [0x32;0x30;0x30;0x30;0x2D;0x30;0x31;0x2D;0x30;0x31;0x54].  (* 2000-01-01T *)

(** length of the zone suffix of a literal: 0, 1 ('Z') or 6 ((+|-)hh:mm) *)
Definition zone_len (l : list N) : nat :=
  match rev l with
  | z :: _ => if z =? 0x5A then 1%nat
              else match rev l with
                   | _ :: _ :: c :: _ :: _ :: s :: _ => if (c =? 0x3A) && ((s =? ch_plus) || (s =? ch_minus)) then 6%nat else 0%nat
                   | _ => 0%nat
                   end
  | [] => 0%nat
  end.
(** the dateTime literal with the same starting instant *)
Definition date_as_dt (l : list N) : list N :=
  let k := (length l - zone_len l)%nat in firstn k l ++ s_T000000 ++ skipn k l.
Definition time_as_dt (l : list N) : list N := s_20000101T ++ l.

Definition zone_minutes (l : list N) : option Z := f_zone (dt_read (date_as_dt l)).
Definition date_start (l : list N) : Q := timeline (dt_read (date_as_dt l)).

Definition date_is_canonical (c : list N) : bool :=
  date_lex c &&
  match zone_minutes c with
  | None => true
  | Some z => if (z =? 0)%Z then last_is c 0x5A else ((-719 <=? z) && (z <=? 720))%Z
  end.
Definition date_canon_of (l c : list N) : bool :=
  date_is_canonical c && Qeq_bool (date_start l) (date_start c) &&
  Bool.eqb (match zone_minutes l with Some _ => true | None => false end) (match zone_minutes c with Some _ => true | None => false end).

(** time: same instant modulo 24 hours *)
Definition same_time_of_day (a b : Q) : bool :=
  let d := Qminus a b in let n := Qnum d in let p := Zpos (Qden d) in ((n mod (86400 * p)) =? 0)%Z.
Definition time_canon_of (l c : list N) : bool :=
  let fl := dt_read (time_as_dt l) in let fc := dt_read (time_as_dt c) in
  dt_lex (time_as_dt c) && negb (f_h fc =? 24)%Z &&
  match f_zone fc with None => true | Some _ => last_is c 0x5A end &&
  negb (last_is (f_frac fc) ch_0) && (negb (existsb (fun x => x =? ch_dot) c) || negb (nilb (f_frac fc))) &&
  same_time_of_day (timeline fl) (timeline fc) &&
  Bool.eqb (match f_zone fl with Some _ => true | None => false end) (match f_zone fc with Some _ => true | None => false end).
