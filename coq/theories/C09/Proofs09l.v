(** C09 lemmas, part l: AbstractNumericValidator::boundsCheck on decimals = the four bound facets in the value space
    (all 16 combinations of present/absent x inclusive/exclusive: the statement quantifies over every facet record). *)
From Coq Require Import ZArith QArith Lia.
From XV Require Import C09.Spec09 C09.Model09 C09.Proofs09c C09.Proofs09d C09.Proofs09e.
Local Open Scope Z_scope.

Definition bounds_spec (f : dfacets) (d : dec) : bool :=
  opt_ok (f_maxE f) (fun m => Qltb (dec_denote d) (dec_denote m)) &&
  opt_ok (f_maxI f) (fun m => Qleb (dec_denote d) (dec_denote m)) &&
  opt_ok (f_minI f) (fun m => Qleb (dec_denote m) (dec_denote d)) &&
  opt_ok (f_minE f) (fun m => Qltb (dec_denote m) (dec_denote d)).

Definition opt_norm (o : option dec) : Prop := match o with Some m => dec_norm m | None => True end.

Lemma cmp_flip : forall a b, dec_norm a -> dec_norm b ->
  Qcompare (dec_denote b) (dec_denote a) = CompOpp (Qcompare (dec_denote a) (dec_denote b)).
Proof. intros. symmetry. apply Qcompare_antisym. Qed.

Lemma bounds_check_spec : forall f d, dec_norm d ->
  opt_norm (f_maxE f) -> opt_norm (f_maxI f) -> opt_norm (f_minI f) -> opt_norm (f_minE f) ->
  (bounds_check f d = None <-> bounds_spec f d = true).
Proof.
  intros [en maxI maxE minI minE td fd] d Nd N1 N2 N3 N4. unfold bounds_check, bounds_spec, orelse, Qltb, Qleb.
  cbn [f_maxE f_maxI f_minI f_minE opt_norm] in *.
  destruct maxE as [m1|]; destruct maxI as [m2|]; destruct minI as [m3|]; destruct minE as [m4|]; cbn [opt_ok];
    rewrite ?(dec_cmp_correct d _ Nd N1), ?(dec_cmp_correct d _ Nd N2), ?(dec_cmp_correct d _ Nd N3), ?(dec_cmp_correct d _ Nd N4);
    rewrite ?(cmp_flip d _ Nd N3), ?(cmp_flip d _ Nd N4);
    repeat match goal with |- context [Qcompare (dec_denote d) (dec_denote ?m)] => destruct (Qcompare (dec_denote d) (dec_denote m)) end;
    cbn; split; intros; try reflexivity; try discriminate.
Qed.

(** the error code follows the order of the tests in the C++: maxExclusive, maxInclusive, minInclusive, minExclusive *)
Lemma bounds_check_first_error : forall f d m, f_maxE f = Some m -> dec_cmp d m <> -1 -> bounds_check f d = Some E_exceed_maxExcl.
Proof.
  intros f d m E H. unfold bounds_check, orelse. rewrite E. destruct (Z.eqb_spec (dec_cmp d m) (-1)); [contradiction|reflexivity].
Qed.
