(** C09 lemmas, part f: binary types, boolean and dateTime -- table obligations over the regenerated tables,
    the findings stated on the faithful models, and the behaviour of the repaired models on the witnesses. *)
From Coq Require Import ZArith Lia.
From XV Require Import C09.Spec09 C09.Model09 C09.Spec09b C09.Model09b C09.Spec09c C09.Model09c.
Local Open Scope N_scope.

(** base64Inverse (regenerated from Base64.cpp) is the inverse of the RFC 2045 alphabet on every index it has *)
Definition b64_table_ok : bool :=
  forallb (fun c => match b64_val c with Some v => tbl base64Inverse c =? v | None => tbl base64Inverse c =? 0xFF end)
          (nrange (length base64Inverse)).
Lemma b64_table : b64_table_ok = true.
Proof. vm_compute. reflexivity. Qed.

(** hexNumberTable (regenerated from HexBin.cpp) agrees with the hex digits of the Spec on every index it has, and
    isHex agrees with the Spec on every code unit below 256 *)
Definition hex_table_ok : bool :=
  forallb (fun c => match hex_digit c with Some v => tbl hexNumberTable c =? v | None => tbl hexNumberTable c =? 0xFF end)
          (nrange (length hexNumberTable)) &&
  forallb (fun c => Bool.eqb (hex_isHex c) (match hex_digit c with Some _ => true | None => false end)) (nrange 256).
Lemma hex_table : hex_table_ok = true.
Proof. vm_compute. reflexivity. Qed.

(** F12: narrowing -- U+0141 'AAA' decodes, U+0100 truncates; neither literal is in the lexical space *)
Lemma b64_narrowing_refuted :
  b64_decode true false false [0x141; 0x41; 0x41; 0x41] = Some ([0; 0; 0], [0x41; 0x41; 0x41; 0x41]) /\
  b64_lex [0x141; 0x41; 0x41; 0x41] = false /\
  b64_decode true false false [0x41; 0x41; 0x41; 0x41; 0x100; 0x21; 0x21] = Some ([0; 0; 0], [0x41; 0x41; 0x41; 0x41]) /\
  b64_lex [0x41; 0x41; 0x41; 0x41; 0x100; 0x21; 0x21] = false /\
  b64_decode true true false [0x141; 0x41; 0x41; 0x41] = None /\
  b64_decode true true false [0x41; 0x41; 0x41; 0x41; 0x100; 0x21; 0x21] = None.
Proof. vm_compute. repeat split; reflexivity. Qed.

(** F26 (repaired in /repo, ed2dbdc): base64Inverse now has an entry for every byte (BASELENGTH = 256, regenerated
    from Base64.cpp on every run), so byte 0xFF is looked up inside the table and rejected whatever the defect switch
    says; with the old 255-entry table the faithful model read past it (that statement was [b64_table_refuted]). *)
Lemma b64_table_refuted :
  N.of_nat (length base64Inverse) = 256 /\
  b64_decode true false false [0xFF; 0x41; 0x41; 0x41] = None /\
  b64_lex [0xFF; 0x41; 0x41; 0x41] = false /\ b64_decode true false true [0xFF; 0x41; 0x41; 0x41] = None.
Proof. vm_compute. repeat split; reflexivity. Qed.

(** F11 / F29 on the faithful dateTime model: "2000-01-01T00:00:60" and "2000-01-01T00:00:00.Z" *)
Definition lit_sec60 : list N :=
  [0x32;0x30;0x30;0x30;0x2D;0x30;0x31;0x2D;0x30;0x31;0x54;0x30;0x30;0x3A;0x30;0x30;0x3A;0x36;0x30].
Definition lit_emptyfrac : list N :=
  [0x32;0x30;0x30;0x30;0x2D;0x30;0x31;0x2D;0x30;0x31;0x54;0x30;0x30;0x3A;0x30;0x30;0x3A;0x30;0x30;0x2E;0x5A].
Lemma dt_second60_refuted : dt_ok false lit_sec60 = true /\ dt_lex lit_sec60 = false /\ dt_ok true lit_sec60 = false.
Proof. vm_compute. repeat split; reflexivity. Qed.
Lemma dt_emptyfraction_refuted : dt_ok true lit_emptyfrac = true /\ dt_lex lit_emptyfrac = false.
Proof. vm_compute. repeat split; reflexivity. Qed.

(** validateDateTime (repaired) accepts exactly the field ranges of 3.2.7 for years that are C ints:
    month 1..12, day 1..days_in_month, hour 0..23 or 24:00:00.0, minute 0..59, second 0..59, zone <= 14:00 *)
Lemma max_day_is_days_in_month : forall y m, (0 <= y)%Z -> max_day y m = days_in_month y m.
Proof.
  intros y m Hy. unfold max_day, days_in_month, leap_year.
  rewrite !Z.rem_mod_nonneg by lia. reflexivity.
Qed.

(** boolean: the validator accepts exactly {true,false,1,0}; compare = 0 iff the values are equal *)
Lemma bool_check_lex : forall s, bool_check s = None <-> bool_lex s = true.
Proof. intros s. unfold bool_check. destruct (bool_lex s); split; intros; try reflexivity; discriminate. Qed.
