(** C09 lemmas, part m: hexBinary -- HexBin::isArrayByteHex / getDataLength / getCanonicalRepresentation against the
    lexical space, the value (octet count) and the canonical form, for every string of UTF-16 code units. *)
From Coq Require Import NArith Lia.
From XV Require Import C09.Spec09 C09.Spec09b C09.Model09 C09.Model09b C09.Proofs09f.
Local Open Scope N_scope.

Lemma hex_digit_small : forall c, 256 <= c -> hex_digit c = None.
Proof.
  intros c H. unfold hex_digit.
  destruct ((48 <=? c) && (c <=? 57)) eqn:A; [apply andb_prop in A; destruct A as [_ A]; apply N.leb_le in A; lia|].
  destruct ((65 <=? c) && (c <=? 70)) eqn:B; [apply andb_prop in B; destruct B as [_ B]; apply N.leb_le in B; lia|].
  destruct ((97 <=? c) && (c <=? 102)) eqn:C; [apply andb_prop in C; destruct C as [_ C]; apply N.leb_le in C; lia|].
  reflexivity.
Qed.

(** isHex = "is a hex digit", for every code unit *)
Lemma hex_isHex_spec : forall c, hex_isHex c = match hex_digit c with Some _ => true | None => false end.
Proof.
  intros c. destruct (N.lt_ge_cases c 256) as [L|G].
  - pose proof hex_table as T. unfold hex_table_ok in T. apply andb_prop in T. destruct T as [_ T].
    pose proof (sweep256 _ T c L) as E. apply Bool.eqb_prop in E. exact E.
  - rewrite (hex_digit_small c G). unfold hex_isHex, hex_BASELENGTH.
    destruct (N.leb_spec 255 c); [reflexivity|lia].
Qed.

Lemma pair_ind : forall (P : list N -> Prop), P [] -> (forall a, P [a]) -> (forall a b r, P r -> P (a :: b :: r)) ->
  forall l, P l.
Proof.
  intros P H0 H1 H2. fix IH 1. intros [|a [|b r]]; [exact H0|apply H1|apply H2; apply IH].
Qed.

(** T09_hex: accepted iff in the lexical space ([0-9a-fA-F]{2})*, for every string *)
Lemma hex_lex_chars : forall s, hex_lex s = Nat.even (length s) && forallb hex_isHex s.
Proof.
  unfold hex_lex. induction s as [| a | a b r IH] using pair_ind; [reflexivity|reflexivity|].
  cbn [hex_value length Nat.even forallb]. rewrite !hex_isHex_spec.
  destruct (hex_digit a); [|cbn; rewrite Bool.andb_false_r; reflexivity].
  destruct (hex_digit b); [|cbn; rewrite Bool.andb_false_r; reflexivity].
  cbn [andb]. rewrite <- IH. destruct (hex_value r); reflexivity.
Qed.

Lemma hex_ok_lex : forall s, hex_ok s = hex_lex s.
Proof. intros s. rewrite hex_lex_chars. destruct s; reflexivity. Qed.

(** the length facet counts the octets of the value *)
Lemma hex_value_length : forall s v, hex_value s = Some v -> length v = Nat.div2 (length s).
Proof.
  induction s as [| a | a b r IH] using pair_ind; intros v H; cbn [hex_value] in H; try discriminate.
  - inversion H. reflexivity.
  - destruct (hex_digit a); [|discriminate]. destruct (hex_digit b); [|discriminate].
    destruct (hex_value r) as [w|] eqn:E; [|discriminate]. inversion H; subst. cbn [length Nat.div2]. f_equal. apply IH. reflexivity.
Qed.

Lemma hex_length_spec : forall s, hex_length s = match hex_value s with Some v => Some (length v) | None => None end.
Proof.
  intros s. unfold hex_length. rewrite hex_ok_lex. unfold hex_lex.
  destruct (hex_value s) as [v|] eqn:E; [|reflexivity]. rewrite (hex_value_length s v E). reflexivity.
Qed.

(** canonical form: upper-casing keeps the value, produces no lower-case hex digit and is idempotent *)
Definition upper_ok (c : N) : bool :=
  match hex_digit c with
  | Some v => match hex_digit (upper_ascii c) with Some w => (v =? w) | None => false end &&
              negb ((0x61 <=? upper_ascii c) && (upper_ascii c <=? 0x66)) && (upper_ascii (upper_ascii c) =? upper_ascii c)
  | None => true
  end.
Lemma upper_sweep : forallb upper_ok (nrange 256) = true. Proof. vm_compute. reflexivity. Qed.
Lemma upper_ok_all : forall c, upper_ok c = true.
Proof.
  intros c. destruct (N.lt_ge_cases c 256) as [L|G]; [exact (sweep256 _ upper_sweep c L)|].
  unfold upper_ok. rewrite (hex_digit_small c G). reflexivity.
Qed.

Lemma hex_canon_value : forall s v, hex_value s = Some v ->
  hex_value (map upper_ascii s) = Some v /\
  forallb (fun c => negb ((0x61 <=? c) && (c <=? 0x66))) (map upper_ascii s) = true /\
  map upper_ascii (map upper_ascii s) = map upper_ascii s.
Proof.
  induction s as [| a | a b r IH] using pair_ind; intros v H; cbn [hex_value] in H; try discriminate.
  - inversion H. repeat split.
  - pose proof (upper_ok_all a) as Ua. pose proof (upper_ok_all b) as Ub. unfold upper_ok in Ua, Ub.
    destruct (hex_digit a) as [x|]; [|discriminate]. destruct (hex_digit b) as [y|]; [|discriminate].
    destruct (hex_value r) as [w|] eqn:E; [|discriminate]. inversion H; subst.
    destruct (IH w eq_refl) as [I1 [I2 I3]].
    destruct (hex_digit (upper_ascii a)) as [x'|] eqn:Ea; [|discriminate].
    destruct (hex_digit (upper_ascii b)) as [y'|] eqn:Eb; [|discriminate].
    apply andb_prop in Ua. destruct Ua as [Ua Ua3]. apply andb_prop in Ua. destruct Ua as [Ua1 Ua2].
    apply andb_prop in Ub. destruct Ub as [Ub Ub3]. apply andb_prop in Ub. destruct Ub as [Ub1 Ub2].
    apply N.eqb_eq in Ua1, Ub1, Ua3, Ub3. subst x' y'.
    cbn [map hex_value forallb]. rewrite Ea, Eb, I1, I2, I3, Ua2, Ub2, Ua3, Ub3. repeat split; reflexivity.
Qed.

(** T09_hex_canon *)
Lemma hex_canon_spec : forall s c, hex_canon s = Some c ->
  hex_is_canonical c = true /\ hex_value c = hex_value s /\ hex_canon c = Some c.
Proof.
  intros s c H. unfold hex_canon in H. rewrite hex_ok_lex in H. unfold hex_lex in H.
  destruct (hex_value s) as [v|] eqn:E; [|discriminate]. inversion H; subst c.
  destruct (hex_canon_value s v E) as [V [U I]].
  unfold hex_is_canonical, hex_canon. rewrite hex_ok_lex. unfold hex_lex. rewrite V, U, I. repeat split; reflexivity.
Qed.
