(** Specification side of C09: canonical representation of xs:float / xs:double (XML Schema Part 2, 3.2.4.2 / 3.2.5.2).
    "The canonical representation for float is defined by prohibiting certain options from the lexical representation.
    Specifically, the exponent must be indicated by "E".  Leading zeroes and the preceding optional "+" sign are
    prohibited in the exponent.  If the exponent is zero, it must be indicated by "E0".  For the mantissa, the preceding
    optional "+" sign is prohibited and the decimal point is required.  Leading and trailing zeroes are prohibited
    subject to the following: number representations must be normalized such that there is a single digit which is
    non-zero to the left of the decimal point and at least a single digit to the right of the decimal point unless the
    value being represented is zero.  The canonical representation for zero is 0.0E0."
    The value of a finite literal is taken on the decimal-scientific model: mantissa * 10^exponent as a rational (no
    binary rounding; the canonical mapping of the code under study works on the decimal text, too).
    Nothing here mentions the C++ code. *)
From Coq Require Export ZArith QArith.
From XV Require Export C09.Spec09f.
Local Open Scope N_scope.

Definition ch_E : N := 0x45.
Definition s_zero_canon : list N := [0x30; 0x2E; 0x30; 0x45; 0x30].       (* 0.0E0 *)

(** value of a finite float/double literal: mantissa * 10^exponent *)
Definition fnum_value (l : list N) : Q :=
  match split_exp l with
  | (m, None) => dec_value m
  | (m, Some e) => Qmult (dec_value m) (Qpower (10 # 1) (integer_value e))
  end.

(** canonical exponent: optional '-', at least one digit, no '+', no leading zero unless it is exactly "0" *)
Definition int_is_canonical (l : list N) : bool :=
  let (neg, u) := strip_sign l in
  negb (first_is l ch_plus) && all_digits u && negb (nilb u) &&
  (negb (first_is u ch_0) || ((length u =? 1)%nat && negb neg)).

(** 3.2.4.2: INF, -INF, NaN, or  mantissa 'E' exponent  with a canonical decimal mantissa that has exactly one digit in
    front of the point, that digit non-zero unless the literal is 0.0E0 *)
Definition float_is_canonical (l : list N) : bool :=
  leqb l s_INF || leqb l s_NINF || leqb l s_NaN ||
  match split_exp l with
  | (m, Some e) =>
      negb (existsb (fun c => c =? 0x65) l) && dec_is_canonical m && int_is_canonical e &&
      (let u := snd (strip_sign m) in
       (length (fst (split_dot u)) =? 1)%nat && (negb (first_is u ch_0) || leqb l s_zero_canon))
  | _ => false
  end.

(** [c] is the canonical representation of the finite literal [l]: canonical, and the same value *)
Definition float_canon_of (l c : list N) : bool :=
  float_is_canonical c && negb (leqb c s_INF || leqb c s_NINF || leqb c s_NaN) && Qeq_bool (fnum_value l) (fnum_value c).
