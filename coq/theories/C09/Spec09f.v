(** Specification side of C09 (float/double lexical space and special values; list and union combinators).
    XML Schema Part 2: 3.2.4/3.2.5 float, double: a mantissa that is a decimal literal, optionally followed by 'E' or
    'e' and an exponent that is an integer literal; or INF, -INF, NaN.  Order on the special values (3.2.4.1): -INF is
    less and INF greater than every other non-NaN value, NaN equals itself and is incomparable with everything else.
    2.5.1.2 list, 2.5.1.3 union.  Nothing here mentions the C++ code. *)
From XV Require Export C09.Spec09d.
Local Open Scope N_scope.

Definition is_e (c : N) : bool := (c =? 0x45) || (c =? 0x65).
Fixpoint split_exp (l : list N) : list N * option (list N) :=
  match l with
  | [] => ([], None)
  | c :: r => if is_e c then ([], Some r) else let (a, b) := split_exp r in (c :: a, b)
  end.
Definition s_INF : list N := [0x49; 0x4E; 0x46].
Definition s_NINF : list N := [0x2D; 0x49; 0x4E; 0x46].
Definition s_NaN : list N := [0x4E; 0x61; 0x4E].
Fixpoint leqb (a b : list N) : bool :=
  match a, b with [], [] => true | x :: a', y :: b' => (x =? y) && leqb a' b' | _, _ => false end.

Definition float_num_lex (l : list N) : bool :=
  match split_exp l with
  | (m, None) => dec_lex m
  | (m, Some e) => dec_lex m && integer_lex e
  end.
Definition float_lex (l : list N) : bool := leqb l s_INF || leqb l s_NINF || leqb l s_NaN || float_num_lex l.

(** the kinds of values, for the order on special values *)
Inductive fkind : Type := K_NegINF | K_PosINF | K_NaN | K_Finite.
Definition float_kind (l : list N) : fkind :=
  if leqb l s_INF then K_PosINF else if leqb l s_NINF then K_NegINF else if leqb l s_NaN then K_NaN else K_Finite.
(** -1, 0, 1, 2 (incomparable); None = both finite (decided by the numeric values) *)
Definition special_order (a b : fkind) : option Z :=
  match a, b with
  | K_Finite, K_Finite => None
  | K_NaN, K_NaN => Some 0%Z
  | K_NaN, _ | _, K_NaN => Some 2%Z
  | K_NegINF, K_NegINF | K_PosINF, K_PosINF => Some 0%Z
  | K_NegINF, _ => Some (-1)%Z
  | _, K_NegINF => Some 1%Z
  | K_PosINF, _ => Some 1%Z
  | _, K_PosINF => Some (-1)%Z
  end.

(** ** list and union over abstract member types (given by their validity predicates on whitespace-processed strings) *)
Definition list_type_valid (item : list N -> bool) (len_ok : nat -> bool) (s : list N) : bool :=
  let ts := tokens (ws_collapse s) in forallb item ts && len_ok (length ts).
Definition union_type_valid (members : list (list N -> bool)) (s : list N) : bool := existsb (fun m => m s) members.
