(** Specification side of C09 (whitespace facet at work, integer family, lists, restriction chains).
    XML Schema Part 2: 4.3.6 whiteSpace, 3.3.13 integer and its derived types, 2.5.1.2 list datatypes.
    Nothing here mentions the C++ code. *)
From XV Require Export C09.Spec09.
Local Open Scope N_scope.

(** whitespace modes *)
Inductive wsmode : Type := WS_preserve | WS_replace | WS_collapse.
Definition ws_apply (m : wsmode) (s : list N) : list N :=
  match m with WS_preserve => s | WS_replace => ws_replace s | WS_collapse => ws_collapse s end.

(** integer lexical space: (+|-)? digit+ *)
Definition integer_lex (l : list N) : bool :=
  let u := snd (strip_sign l) in all_digits u && negb (nilb u).
Definition integer_value (l : list N) : Z :=
  let (neg, u) := strip_sign l in if neg then (- dval u)%Z else dval u.
(** a built-in integer type = bounds on the value *)
Definition int_in (lo hi : option Z) (l : list N) : bool :=
  integer_lex l &&
  match lo with Some a => (a <=? integer_value l)%Z | None => true end &&
  match hi with Some b => (integer_value l <=? b)%Z | None => true end.

(** list: the items are the maximal runs of non-space characters of the collapsed value *)
Fixpoint tokens_go (cur : list N) (l : list N) : list (list N) :=
  match l with
  | [] => match cur with [] => [] | _ => [rev cur] end
  | c :: r => if c =? ch_space then (match cur with [] => tokens_go [] r | _ => rev cur :: tokens_go [] r end)
              else tokens_go (c :: cur) r
  end.
Definition tokens (l : list N) : list (list N) := tokens_go [] l.
Definition list_valid (item : list N -> bool) (s : list N) : bool := forallb item (tokens (ws_collapse s)).

(** ** restriction chains over an ordered value space: each step may set min/max, inclusive or exclusive.
    A value is accepted by the derived type iff it satisfies the facets of EVERY step (the derived type's value space
    is a subset of its base's). *)
Record bounds (V : Type) : Type := mkB { minI : option V; minE : option V; maxI : option V; maxE : option V }.
Arguments mkB {V}. Arguments minI {V}. Arguments minE {V}. Arguments maxI {V}. Arguments maxE {V}.
Section Chain.
  Variable V : Type.
  Variable cmp : V -> V -> comparison.
  Definition ltb (a b : V) : bool := match cmp a b with Lt => true | _ => false end.
  Definition leb (a b : V) : bool := match cmp a b with Gt => false | _ => true end.
  Definition step_ok (b : bounds V) (v : V) : bool :=
    opt_ok (minI b) (fun m => leb m v) && opt_ok (minE b) (fun m => ltb m v) &&
    opt_ok (maxI b) (fun m => leb v m) && opt_ok (maxE b) (fun m => ltb v m).
  Definition chain_ok (chain : list (bounds V)) (v : V) : bool := forallb (fun b => step_ok b v) chain.
End Chain.
