(** C09 lemmas, part g: SchemaValidator::normalizeWhiteSpace over any chunking of the character data computes the
    whiteSpace facet of Part 2 section 4.3.6 on the whole value. *)
From Coq Require Import Lia.
From XV Require Import C09.Spec09 C09.Spec09d C09.Model09 C09.Model09d.
Local Open Scope N_scope.

Lemma nws_loop_spec : forall l inws seen rest,
  ws_collapse_go seen (inws && seen) (l ++ rest) =
  fst (nws_loop inws seen l) ++
  ws_collapse_go (snd (snd (nws_loop inws seen l))) (fst (snd (nws_loop inws seen l)) && snd (snd (nws_loop inws seen l))) rest.
Proof.
  induction l as [|c r IH]; intros inws seen rest.
  - reflexivity.
  - cbn [app ws_collapse_go nws_loop]. destruct (is_ws c) eqn:W.
    + (* whitespace: pending := started *)
      destruct inws; cbn [negb andb].
      * rewrite <- IH. cbn [andb]. reflexivity.
      * rewrite <- IH. cbn [andb]. reflexivity.
    + destruct inws; cbn [negb andb].
      * destruct (nws_loop false true r) as [o st] eqn:E. cbn [fst snd].
        specialize (IH false true rest). rewrite E in IH. cbn [fst snd andb] in IH.
        rewrite IH. destruct seen; cbn [app]; reflexivity.
      * destruct (nws_loop false true r) as [o st] eqn:E. cbn [fst snd].
        specialize (IH false true rest). rewrite E in IH. cbn [fst snd andb] in IH.
        rewrite IH. reflexivity.
Qed.

Lemma last_ws_cons : forall c x r, last_ws (c :: x :: r) = last_ws (x :: r).
Proof.
  intros. unfold last_ws. cbn [rev]. destruct (rev r ++ [x]) eqn:E.
  - destruct (rev r); discriminate.
  - reflexivity.
Qed.

Lemma nws_loop_final : forall l inws seen,
  fst (snd (nws_loop inws seen l)) = match l with [] => inws | _ => last_ws l end.
Proof.
  induction l as [|c r IH]; intros inws seen; [reflexivity|].
  assert (G : forall b s, fst (snd (nws_loop b s r)) = match r with [] => b | _ => last_ws r end) by (intros; apply IH).
  assert (L : last_ws (c :: r) = match r with [] => is_ws c | _ => last_ws r end).
  { destruct r; [reflexivity|apply last_ws_cons]. }
  rewrite L. cbn [nws_loop]. destruct (is_ws c) eqn:W; destruct inws; cbn [negb].
  - rewrite G. destruct r; reflexivity.
  - rewrite G. destruct r; reflexivity.
  - destruct (nws_loop false true r) as [o st] eqn:E. cbn [snd]. specialize (G false true). rewrite E in G. cbn [snd] in G.
    rewrite G. destruct r; reflexivity.
  - destruct (nws_loop false true r) as [o st] eqn:E. cbn [snd]. specialize (G false true). rewrite E in G. cbn [snd] in G.
    rewrite G. destruct r; reflexivity.
Qed.

Lemma nws_chunk_spec : forall st chunk rest,
  ws_collapse_go (snd st) (fst st && snd st) (chunk ++ rest) =
  fst (nws_chunk st chunk) ++
  ws_collapse_go (snd (snd (nws_chunk st chunk))) (fst (snd (nws_chunk st chunk)) && snd (snd (nws_chunk st chunk))) rest.
Proof.
  intros [tr seen] chunk rest. destruct chunk as [|c r]; [reflexivity|].
  unfold nws_chunk. cbn [fst snd].
  pose proof (nws_loop_spec (c :: r) tr seen rest) as S.
  pose proof (nws_loop_final (c :: r) tr seen) as F.
  destruct (nws_loop tr seen (c :: r)) as [o [iw sn]]. cbn [fst snd] in *. subst iw. exact S.
Qed.

Lemma nws_chunks_spec : forall chunks st,
  nws_chunks st chunks = ws_collapse_go (snd st) (fst st && snd st) (concat chunks).
Proof.
  induction chunks as [|c r IH]; intros st; [reflexivity|].
  cbn [nws_chunks concat]. rewrite (nws_chunk_spec st c (concat r)).
  destruct (nws_chunk st c) as [o st']. cbn [fst snd]. rewrite IH. reflexivity.
Qed.

(** T09_ws_chunks *)
Lemma nws_collapse_correct : forall chunks, nws_collapse chunks = ws_collapse (concat chunks).
Proof. intros. unfold nws_collapse. rewrite nws_chunks_spec. reflexivity. Qed.

Lemma nws_replace_correct : forall chunks, nws_replace chunks = ws_replace (concat chunks).
Proof.
  induction chunks as [|c r IH]; [reflexivity|].
  unfold nws_replace, ws_replace in *. cbn [flat_map concat]. rewrite map_app, IH. reflexivity.
Qed.

Lemma nws_run_correct : forall m chunks, nws_run m chunks = ws_apply m (concat chunks).
Proof. intros [] chunks; [reflexivity|apply nws_replace_correct|apply nws_collapse_correct]. Qed.
