(** C09 lemmas, part v: XMLDateTime::addDuration on the reference dateTimes lands on the instant the Spec computes
    (reference + months, then + seconds), for non-negative durations; hence compare = the 3.2.6.2 order. *)
From Coq Require Import ZArith QArith Lia.
From XV Require Import C09.Spec09 C09.Spec09c C09.Spec09e C09.Spec09h C09.Model09c C09.Model09e C09.Model09h
  C09.Proofs09c C09.Proofs09d C09.Proofs09i C09.Proofs09j C09.Proofs09u.
Local Open Scope Z_scope.
Ltac Zify.zify_post_hook ::= Z.to_euclidean_division_equations.

Lemma days_of_shift : forall y mo d k, days_of y mo (d + k) = days_of y mo d + k.
Proof. intros. unfold days_of. lia. Qed.

(** the roll-over loop for a day number >= 1 *)
Lemma roll_up : forall fuel y mo d, 1 <= y -> 1 <= mo <= 12 -> 1 <= d -> (d - 1) / 28 < Z.of_nat fuel ->
  exists y' mo' d', norm_days fuel y mo d = (y', mo', d') /\ days_of y' mo' d' = days_of y mo d /\ date_ok y' mo' d'.
Proof.
  induction fuel as [|fuel IH]; intros y mo d Hy Hm Hd Hf; [lia|].
  pose proof (max_day_range y mo) as R.
  destruct (Z_le_gt_dec d (max_day y mo)) as [L|G].
  - exists y, mo, d. rewrite nd_ok by lia. repeat split; lia.
  - rewrite nd_high by lia.
    assert (Hn : 1 <= fst (next_month y mo) /\ 1 <= snd (next_month y mo) <= 12).
    { unfold next_month. destruct (Z.eqb_spec mo 12); cbn [fst snd]; lia. }
    destruct (IH (fst (next_month y mo)) (snd (next_month y mo)) (d - max_day y mo) ltac:(lia) ltac:(lia) ltac:(lia) ltac:(lia))
      as [y' [mo' [d' [E [D O]]]]].
    exists y', mo', d'. split; [exact E|]. split; [|exact O]. rewrite D.
    pose proof (days_next y mo ltac:(lia) Hm) as N.
    unfold days_of in N |- *. lia.
Qed.

(** a duration with non-negative fields *)
Definition dur_nonneg (u : dur) : Prop :=
  u_neg u = false /\ 0 <= u_y u /\ 0 <= u_mo u /\ 0 <= u_d u /\ 0 <= u_h u /\ 0 <= u_mi u /\ 0 <= u_s u.
Definition dur_val (u : dur) : dur_value :=
  mkDV (12 * u_y u + u_mo u) ((((u_d u * 24 + u_h u) * 60 + u_mi u) * 60 + u_s u) # 1).

Definition is_ref (r : Z * Z) : Prop := 1 <= fst r /\ 1 <= snd r <= 12.

Lemma add_duration_timeline : forall r u, is_ref r -> dur_nonneg u ->
  in_range (add_duration r u) /\ add_to_ref r (dur_val u) == (secs_of (add_duration r u) # 1).
Proof.
  intros [ry rm] [ng y mo d h mi s] [Hry Hrm] [Hn [Hy [Hmo [Hd [Hh [Hmi Hs]]]]]].
  cbn [fst snd u_neg u_y u_mo u_d u_h u_mi u_s] in *. unfold add_duration, add_to_ref, dur_val.
  cbn [fst snd u_y u_mo u_d u_h u_mi u_s v_months v_seconds].
  unfold modulo3, fquot3, fquot. replace (13 - 1) with 12 by lia.
  set (tm := rm + mo). assert (Btm : 1 <= tm) by (unfold tm; lia).
  assert (Q1 : Z.quot (tm - 1) 12 = (tm - 1) / 12) by (apply Z.quot_div_nonneg; lia).
  rewrite Q1. replace (tm - 1 - (tm - 1) / 12 * 12 + 1) with ((tm - 1) mod 12 + 1) by lia.
  destruct (Z.leb_spec ((tm - 1) mod 12 + 1) 0); [lia|].
  set (mo1 := (tm - 1) mod 12 + 1). set (y1 := ry + y + (tm - 1) / 12).
  assert (Hmo1 : 1 <= mo1 <= 12) by (unfold mo1; lia). assert (Hy1 : 1 <= y1) by (unfold y1; lia).
  replace (0 + s) with s by lia. rewrite (Z.quot_div_nonneg s 60) by lia.
  replace (s - s / 60 * 60) with (s mod 60) by lia. destruct (Z.ltb_spec (s mod 60) 0); [lia|].
  replace (0 + mi + s / 60) with (mi + s / 60) by lia. rewrite (Z.quot_div_nonneg (mi + s / 60) 60) by lia.
  replace (mi + s / 60 - (mi + s / 60) / 60 * 60) with ((mi + s / 60) mod 60) by lia.
  destruct (Z.ltb_spec ((mi + s / 60) mod 60) 0); [lia|].
  replace (0 + h + (mi + s / 60) / 60) with (h + (mi + s / 60) / 60) by lia.
  rewrite (Z.quot_div_nonneg (h + (mi + s / 60) / 60) 24) by lia.
  replace (h + (mi + s / 60) / 60 - (h + (mi + s / 60) / 60) / 24 * 24) with ((h + (mi + s / 60) / 60) mod 24) by lia.
  destruct (Z.ltb_spec ((h + (mi + s / 60) / 60) mod 24) 0); [lia|].
  set (dt := 1 + d + (h + (mi + s / 60) / 60) / 24). assert (Hdt : 1 <= dt) by (unfold dt; lia).
  unfold roll. rewrite Z.abs_eq by lia.
  destruct (roll_up (Z.to_nat (dt / 28) + 4) y1 mo1 dt Hy1 Hmo1 Hdt ltac:(lia)) as [y' [mo' [d' [E [D O]]]]].
  rewrite E. split.
  - constructor; cbn [n_y n_mo n_d n_h n_mi n_s]; [exact O|lia|lia|lia].
  - unfold secs_of. cbn [n_y n_mo n_d n_h n_mi n_s]. rewrite D. unfold days_of.
    assert (Ey : (ry * 12 + (rm - 1) + (12 * y + mo)) / 12 = y1) by (unfold y1, tm; lia).
    assert (Em : (ry * 12 + (rm - 1) + (12 * y + mo)) mod 12 + 1 = mo1) by (unfold mo1, tm; lia).
    rewrite Ey, Em. unfold Qeq, Qplus. cbn [Qnum Qden Pos.mul]. unfold dt. lia.
Qed.

Lemma ref_dates_ok : forall i, is_ref (nth i ref_dates (1, 1)).
Proof. intros [|[|[|[|[|i]]]]]; unfold is_ref; cbn [nth ref_dates fst snd]; lia. Qed.

Lemma q_cmp_int : forall a b x y, x == (a # 1) -> y == (b # 1) -> q_cmp x y = cmp_to_Z (a ?= b).
Proof. intros a b x y Hx Hy. unfold q_cmp. rewrite Hx, Hy. unfold Qcompare. cbn [Qnum Qden]. rewrite !Z.mul_1_r. reflexivity. Qed.

(** one reference date: the model's field comparison = the Spec's comparison of the instants *)
Lemma ref_compare : forall r a b, is_ref r -> dur_nonneg a -> dur_nonneg b ->
  fields_cmp (add_duration r a) (add_duration r b) = q_cmp (add_to_ref r (dur_val a)) (add_to_ref r (dur_val b)).
Proof.
  intros r a b Hr Ha Hb. destruct (add_duration_timeline r a Hr Ha) as [Ra Ea]. destruct (add_duration_timeline r b Hr Hb) as [Rb Eb].
  rewrite (q_cmp_int _ _ _ _ Ea Eb). unfold fields_cmp. fold (fields_list (add_duration r a)) (fields_list (add_duration r b)).
  apply lex_cmp_secs; assumption.
Qed.

(** T09_duration_order: for durations with non-negative integral fields, XMLDateTime::compare (strict) is the partial order
    of 3.2.6.2 on the values (months, seconds) *)
Lemma dur_compare_order : forall a b, dur_nonneg a -> dur_nonneg b ->
  dur_compare a b true = dur_order_v (dur_val a) (dur_val b).
Proof.
  intros a b Ha Hb. rewrite dur_compare_spec, dur_order_shape. cbv zeta beta.
  assert (R : forall i, (i < 4)%nat -> nth i ref_dates (0, 0) = nth i ref_dates (1, 1)).
  { intros [|[|[|[|i]]]] L; try reflexivity. lia. }
  assert (C : forall i, (i < 4)%nat ->
     fields_cmp (add_duration (nth i ref_dates (0, 0)) a) (add_duration (nth i ref_dates (0, 0)) b) =
     q_cmp (add_to_ref (nth i ref_dates (0, 0)) (dur_val a)) (add_to_ref (nth i ref_dates (0, 0)) (dur_val b))).
  { intros i L. rewrite (R i L). apply ref_compare; [apply ref_dates_ok|exact Ha|exact Hb]. }
  rewrite (C 0%nat), (C 1%nat), (C 2%nat), (C 3%nat) by lia.
  destruct (fields_cmp (dur_normalize a) (dur_normalize b) =? EQUAL) eqn:Sh; [|reflexivity].
  (* the EQUAL shortcut: identical fields, hence identical values *)
  destruct Ha as [Na Ha]. destruct Hb as [Nb Hb]. unfold dur_normalize in Sh. rewrite Na, Nb in Sh. cbn [negb] in Sh.
  unfold fields_cmp in Sh. cbn [n_y n_mo n_d n_h n_mi n_s lex_cmp] in Sh.
  assert (Eq : u_y a = u_y b /\ u_mo a = u_mo b /\ u_d a = u_d b /\ u_h a = u_h b /\ u_mi a = u_mi b /\ u_s a = u_s b).
  { unfold LESS, GREATER, EQUAL in Sh.
    repeat match type of Sh with context [if ?x <? ?y then _ else _] => destruct (Z.ltb_spec x y); try discriminate end. lia. }
  destruct Eq as [E1 [E2 [E3 [E4 [E5 E6]]]]]. unfold dur_val. rewrite E1, E2, E3, E4, E5, E6.
  unfold agree4, q_cmp. assert (Q : forall x : Q, Qcompare x x = Eq) by (intros x; apply Qeq_alt; reflexivity).
  rewrite !Q. reflexivity.
Qed.
