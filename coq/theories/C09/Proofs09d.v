(** C09 lemmas, part d: XMLBigDecimal::toCompare on normalised values = order of the denoted rationals. *)
From Coq Require Import ZArith QArith Lia.
From XV Require Import C09.Spec09 C09.Model09 C09.Proofs09a C09.Proofs09b C09.Proofs09c.
Local Open Scope Z_scope.

(** the rational denoted by the fields of an XMLBigDecimal *)
Definition dec_denote (d : dec) : Q := (d_sign d * dval (d_digits d)) # pow10 (d_scale d).

(** what parseDecimal guarantees about the fields ("would eliminate unnecessary leading/trailing zeros") *)
Record dec_norm (d : dec) : Prop := mkNorm {
  n_digits : all_digits (d_digits d) = true;
  n_total : d_total d = length (d_digits d);
  n_scale : (d_scale d <= d_total d)%nat;
  n_sign : (d_digits d = [] /\ d_sign d = 0) \/ (d_digits d <> [] /\ (d_sign d = 1 \/ d_sign d = -1));
  n_lead : (d_scale d < d_total d)%nat -> first_is (d_digits d) ch_0 = false;
  n_trail : (0 < d_scale d)%nat -> last_is (d_digits d) ch_0 = false }.

Lemma norm_pos : forall d, dec_norm d -> d_digits d <> [] -> 0 < dval (d_digits d).
Proof.
  intros d [Hd Ht Hs _ Hl Htr] Hn.
  destruct (Nat.eq_dec (d_scale d) 0) as [E|E].
  - destruct (d_digits d) as [|c r] eqn:Ed; [contradiction|].
    assert (L : (d_scale d < d_total d)%nat) by (rewrite Ht; cbn [length]; lia).
    specialize (Hl L). cbn [first_is] in Hl. pose proof (dval_lead c r Hd Hl). pose proof (P10_pos (length r)). lia.
  - apply dval_pos_trail; [exact Hd|exact Hn|apply Htr; lia].
Qed.

Lemma Qcompare_unfold : forall p q, Qcompare p q = (Qnum p * Zpos (Qden q) ?= Qnum q * Zpos (Qden p)).
Proof. reflexivity. Qed.

Lemma cmp_lt : forall x y, x < y -> cmp_to_Z (x ?= y) = -1.
Proof. intros. apply Z.compare_lt_iff in H. rewrite H. reflexivity. Qed.
Lemma cmp_gt : forall x y, y < x -> cmp_to_Z (x ?= y) = 1.
Proof. intros. apply Z.compare_gt_iff in H. rewrite H. reflexivity. Qed.
Lemma cmp_eq : forall x y, x = y -> cmp_to_Z (x ?= y) = 0.
Proof. intros. apply Z.compare_eq_iff in H. rewrite H. reflexivity. Qed.

(** more integer digits => larger magnitude *)
Lemma mag_more_digits : forall a b, dec_norm a -> dec_norm b ->
  (d_total b - d_scale b < d_total a - d_scale a)%nat ->
  dval (d_digits b) * P10 (d_scale a) < dval (d_digits a) * P10 (d_scale b).
Proof.
  intros a b Na Nb L.
  destruct Na as [Hda Hta Hsa _ Hla _]. destruct Nb as [Hdb Htb Hsb _ _ _].
  destruct (d_digits a) as [|c r] eqn:Ea; [cbn [length] in Hta; lia|].
  assert (La : (d_scale a < d_total a)%nat) by lia.
  specialize (Hla La). cbn [first_is] in Hla. pose proof (dval_lead c r Hda Hla) as Lead.
  pose proof (dval_bounds _ Hdb) as Bb. rewrite <- Htb in Bb. cbn [length] in Hta.
  assert (Hexp : (d_total b + d_scale a <= length r + d_scale b)%nat) by lia.
  pose proof (P10_le _ _ Hexp) as Ple. rewrite !P10_add in Ple.
  pose proof (P10_pos (d_scale a)). pose proof (P10_pos (d_scale b)). pose proof (P10_pos (length r)).
  pose proof (P10_pos (d_total b)).
  assert (dval (d_digits b) * P10 (d_scale a) < P10 (d_total b) * P10 (d_scale a)) by (apply Z.mul_lt_mono_pos_r; lia).
  assert (P10 (length r) * P10 (d_scale b) <= dval (c :: r) * P10 (d_scale b)) by (apply Z.mul_le_mono_nonneg_r; lia).
  lia.
Qed.

Lemma mag_cmp : forall a b, dec_norm a -> dec_norm b ->
  (if (d_total b - d_scale b <? d_total a - d_scale a)%nat then 1
   else if (d_total a - d_scale a <? d_total b - d_scale b)%nat then -1
   else Z.sgn (str_cmp (d_digits a) (d_digits b)))
  = cmp_to_Z (dval (d_digits a) * P10 (d_scale b) ?= dval (d_digits b) * P10 (d_scale a)).
Proof.
  intros a b Na Nb.
  destruct (Nat.ltb_spec (d_total b - d_scale b) (d_total a - d_scale a)) as [L|L].
  - symmetry. apply cmp_gt. apply mag_more_digits; assumption.
  - destruct (Nat.ltb_spec (d_total a - d_scale a) (d_total b - d_scale b)) as [L'|L'].
    + symmetry. apply cmp_lt. apply mag_more_digits; assumption.
    + pose proof Na as [Hda Hta Hsa _ _ Htra]. pose proof Nb as [Hdb Htb Hsb _ _ Htrb].
      rewrite str_cmp_frac; [|exact Hda|exact Hdb| |].
      * f_equal. rewrite <- Hta, <- Htb.
        set (Lc := (d_total a - d_scale a)%nat).
        replace (d_total a) with (Lc + d_scale a)%nat by lia.
        replace (d_total b) with (Lc + d_scale b)%nat by lia.
        rewrite !P10_add.
        replace (dval (d_digits a) * (P10 Lc * P10 (d_scale b))) with (dval (d_digits a) * P10 (d_scale b) * P10 Lc) by ring.
        replace (dval (d_digits b) * (P10 Lc * P10 (d_scale a))) with (dval (d_digits b) * P10 (d_scale a) * P10 Lc) by ring.
        symmetry. apply Zmult_compare_compat_r. pose proof (P10_pos Lc). lia.
      * intros LL. apply Htrb. lia.
      * intros LL. apply Htra. lia.
Qed.

Lemma sgn_select : forall r ls, (if (r >? 0) then 1 * ls else if (r <? 0) then -1 * ls else 0) = ls * Z.sgn r.
Proof.
  intros r ls. destruct (Z.gtb_spec r 0) as [H|H].
  - rewrite Z.sgn_pos by lia. lia.
  - destruct (Z.ltb_spec r 0) as [H'|H'].
    + rewrite Z.sgn_neg by lia. lia.
    + replace r with 0 by lia. cbn. lia.
Qed.

(** XMLBigDecimal::toCompare computes the order of the denoted values *)
Lemma dec_cmp_correct : forall a b, dec_norm a -> dec_norm b ->
  dec_cmp a b = cmp_to_Z (Qcompare (dec_denote a) (dec_denote b)).
Proof.
  intros a b Na Nb. rewrite Qcompare_unfold. unfold dec_denote. cbn [Qnum Qden]. fold (P10 (d_scale a)) (P10 (d_scale b)).
  pose proof (mag_cmp a b Na Nb) as M.
  pose proof (P10_pos (d_scale a)) as Pa. pose proof (P10_pos (d_scale b)) as Pb.
  unfold dec_cmp. rewrite sgn_select.
  destruct (n_sign a Na) as [[Ea Sa]|[Ea Sa]]; destruct (n_sign b Nb) as [[Eb Sb]|[Eb Sb]].
  - rewrite Sa, Sb. reflexivity.
  - pose proof (norm_pos b Nb Eb) as Pb'. rewrite Sa. destruct Sb as [Sb|Sb]; rewrite Sb; cbn [Z.eqb negb Z.gtb Z.compare].
    + symmetry. apply cmp_lt. nia.
    + symmetry. apply cmp_gt. nia.
  - pose proof (norm_pos a Na Ea) as Pa'. rewrite Sb. destruct Sa as [Sa|Sa]; rewrite Sa; cbn [Z.eqb negb Z.gtb Z.compare].
    + symmetry. apply cmp_gt. nia.
    + symmetry. apply cmp_lt. nia.
  - pose proof (norm_pos a Na Ea) as Pa'. pose proof (norm_pos b Nb Eb) as Pb'.
    destruct Sa as [Sa|Sa]; destruct Sb as [Sb|Sb]; rewrite Sa, Sb; cbn [Z.eqb negb Z.gtb Z.compare Pos.eqb].
    + (* both positive *)
      rewrite !Z.mul_1_l, ?Z.mul_1_r. exact M.
    + symmetry. apply cmp_gt. nia.
    + symmetry. apply cmp_lt. nia.
    + (* both negative *)
      assert (X : forall x y, cmp_to_Z (-1 * x ?= -1 * y) = - cmp_to_Z (x ?= y)).
      { intros x y. replace (-1 * x) with (- x) by ring. replace (-1 * y) with (- y) by ring.
        rewrite Z.compare_opp. rewrite (Z.compare_antisym x y). destruct (x ?= y); reflexivity. }
      replace (-1 * dval (d_digits a) * P10 (d_scale b)) with (-1 * (dval (d_digits a) * P10 (d_scale b))) by ring.
      replace (-1 * dval (d_digits b) * P10 (d_scale a)) with (-1 * (dval (d_digits b) * P10 (d_scale a))) by ring.
      rewrite X, <- M.
      destruct (d_total b - d_scale b <? d_total a - d_scale a)%nat; [reflexivity|].
      destruct (d_total a - d_scale a <? d_total b - d_scale b)%nat; [reflexivity|]. ring.
Qed.
