(** Specification side of C09 (value-space facets of list and union types).  XML Schema Part 2, 4.3.5 enumeration:
    the value must be one of the enumerated VALUES.  A list value is a finite sequence of item values (2.5.1.2):
    two lists are equal iff they have the same length and are item-wise equal in the item type's value space.
    A union literal denotes the value it has in the first member type that accepts it (2.5.1.3); two union values are
    equal iff they come from the same member type and are equal there.  Nothing here mentions the C++ code. *)
From XV Require Export C09.Spec09f.
Local Open Scope N_scope.

Section ListEnum.
  Variable item_eq : list N -> list N -> bool.         (* equality in the item type's value space *)
  Fixpoint items_eq (a b : list (list N)) : bool :=
    match a, b with
    | [], [] => true
    | x :: a', y :: b' => item_eq x y && items_eq a' b'
    | _, _ => false
    end.
  (** [ts]: the items of the instance, [enums]: the items of every enumeration member *)
  Definition list_enum_valid (enums : list (list (list N))) (ts : list (list N)) : bool :=
    existsb (fun e => items_eq ts e) enums.
End ListEnum.

(** a member type: validity and equality of valid literals *)
Record member : Type := mkMember { m_valid : list N -> bool; m_eq : list N -> list N -> bool }.
Fixpoint first_member (ms : list member) (s : list N) : option member :=
  match ms with [] => None | m :: r => if m_valid m s then Some m else first_member r s end.
Fixpoint member_index (ms : list member) (s : list N) : option nat :=
  match ms with [] => None | m :: r => if m_valid m s then Some O else option_map S (member_index r s) end.
Definition union_eq (ms : list member) (a b : list N) : bool :=
  match member_index ms a, member_index ms b with
  | Some i, Some j => (i =? j)%nat && match nth_error ms i with Some m => m_eq m a b | None => false end
  | _, _ => false
  end.
