(** Executable models, following the C++: ListDatatypeValidator::checkContent (enumeration branch) and
    valueSpaceCheck, ListDatatypeValidator::compare, UnionDatatypeValidator::compare and the enumeration branch of
    UnionDatatypeValidator::checkContent, over abstract member validators (validate / compare).  No proofs here. *)
From XV Require Export C09.Spec09i C09.Model09f.
Local Open Scope N_scope.

Section ListEnumModel.
  Variable item_cmp : list N -> list N -> Z.           (* theItemTypeDTV->compare *)
  (** valueSpaceCheck(tokenVector, enumStr): same number of tokens, every pair compares 0 *)
  Fixpoint pairwise0 (a b : list (list N)) : bool :=
    match a, b with
    | x :: a', y :: b' => (item_cmp x y =? 0)%Z && pairwise0 a' b'
    | _, _ => true                                      (* the loop runs over the instance's tokens *)
    end.
  Definition value_space_check (ts e : list (list N)) : bool :=
    if negb (length ts =? length e)%nat then false else pairwise0 ts e.
  (** the enumeration loop: lexical comparison of the whole content first, then the value-space check *)
  Definition list_enum_check (content : list N) (enums : list (list N)) : bool :=
    existsb (fun e => leqb e content || value_space_check (tokens content) (tokens e)) enums.
  (** ListDatatypeValidator::compare *)
  Fixpoint first_nonzero (a b : list (list N)) : Z :=
    match a, b with
    | x :: a', y :: b' => let r := item_cmp x y in if (r =? 0)%Z then first_nonzero a' b' else r
    | _, _ => 0%Z
    end.
  Definition list_compare (l r : list N) : Z :=
    let a := tokens l in let b := tokens r in
    if (length a <? length b)%nat then (-1)%Z else if (length b <? length a)%nat then 1%Z else first_nonzero a b.
End ListEnumModel.

(** a member validator: validate (true = no exception) and compare (None = exception) *)
Record mval : Type := mkMval { mv_valid : list N -> bool; mv_cmp : list N -> list N -> option Z }.
(** UnionDatatypeValidator::compare *)
Definition union_compare (ms : list mval) (l r : list N) : Z :=
  if existsb (fun m => mv_valid m l && mv_valid m r && match mv_cmp m l r with Some 0%Z => true | _ => false end) ms
  then 0%Z else (-1)%Z.
(** the enumeration branch of UnionDatatypeValidator::checkContent *)
Definition union_enum_check (ms : list mval) (content : list N) (enums : list (list N)) : bool :=
  existsb (fun m => existsb (fun e => match mv_cmp m content e with Some 0%Z => true | _ => false end) enums) ms.
