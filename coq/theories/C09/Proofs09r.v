(** C09 lemmas, part r: totalDigits / fractionDigits (with erratum E2-44) as checked by
    DecimalDatatypeValidator::checkContent on fTotalDigits / fScale = the definitions of the specification on the value. *)
From Coq Require Import ZArith QArith Lia.
From XV Require Import C09.Spec09 C09.Model09 C09.Proofs09a C09.Proofs09b C09.Proofs09c C09.Proofs09d C09.Proofs09e.
Local Open Scope Z_scope.

Lemma P10_lt_inv : forall a b, P10 a < P10 b -> (a < b)%nat.
Proof. intros a b H. destruct (Nat.lt_ge_cases a b) as [L|G]; [exact L|]. pose proof (P10_le b a G). lia. Qed.

Lemma dval_last_mod : forall l, all_digits l = true -> l <> [] -> last_is l ch_0 = false -> dval l mod 10 <> 0.
Proof.
  intros l H Hn Hl. destruct (snoc_cases l) as [->|[l' [x ->]]]; [contradiction|].
  rewrite last_is_snoc in Hl. rewrite all_digits_app in H. apply andb_prop in H. destruct H as [_ H2].
  rewrite all_digits_cons in H2. apply andb_prop in H2. destruct H2 as [Hx _].
  rewrite dval_app. cbn [length]. rewrite P10_S, P10_0. unfold dval at 2. cbn [dval_acc].
  pose proof (digit_val_zero x Hx Hl). pose proof (digit_val_range x Hx).
  replace (dval l' * (10 * 1) + (0 * 10 + digit_val x)) with (digit_val x + dval l' * 10) by ring.
  rewrite Z.mod_add by lia. rewrite Z.mod_small by lia. lia.
Qed.

(** the scale of a normalised value is minimal: any representation i * 10^-n of it has n >= scale, i = m * 10^(n - scale) *)
Lemma scale_minimal : forall d i n, dec_norm d -> dec_denote d == i # pow10 n ->
  (d_scale d <= n)%nat /\ i = d_sign d * dval (d_digits d) * P10 (n - d_scale d).
Proof.
  intros d i n Nd E. pose proof Nd as [Hd Ht Hs Hg Hl Htr]. unfold dec_denote, Qeq in E. cbn [Qnum Qden] in E.
  fold (P10 n) (P10 (d_scale d)) in E.
  set (m := d_sign d * dval (d_digits d)) in *. set (k := d_scale d) in *.
  assert (Kn : (k <= n)%nat).
  { destruct (Nat.le_gt_cases k n) as [L|G]; [exact L|]. exfalso.
    assert (Kpos : (0 < k)%nat) by lia. specialize (Htr Kpos).
    assert (Ne : d_digits d <> []) by (intros X; rewrite X in Ht; cbn in Ht; unfold k in *; lia).
    pose proof (dval_last_mod _ Hd Ne Htr) as M.
    replace k with (n + (k - n))%nat in E by lia. rewrite P10_add in E.
    assert (E' : m = i * P10 (k - n)).
    { pose proof (P10_pos n). apply (Z.mul_reg_r _ _ (P10 n)); [lia|]. rewrite E. ring. }
    replace (k - n)%nat with (S (k - n - 1)) in E' by lia. rewrite P10_S in E'.
    assert (Dm : (dval (d_digits d)) mod 10 = 0).
    { destruct Hg as [[X _]|[_ [S|S]]]; [contradiction| |]; unfold m in E'; rewrite S in E'.
      - replace (1 * dval (d_digits d)) with (dval (d_digits d)) in E' by ring. rewrite E'.
        replace (i * (10 * P10 (k - n - 1))) with ((i * P10 (k - n - 1)) * 10) by ring. apply Z.mod_mul. lia.
      - assert (dval (d_digits d) = (- i * P10 (k - n - 1)) * 10) by lia. rewrite H. apply Z.mod_mul. lia. }
    contradiction. }
  split; [exact Kn|].
  replace n with (k + (n - k))%nat in E at 1 by lia. rewrite P10_add in E.
  pose proof (P10_pos k). apply (Z.mul_reg_r _ _ (P10 k)); [lia|]. rewrite <- E. ring.
Qed.

(** T09_decimal_digits *)
Lemma fraction_digits_spec : forall d fd, dec_norm d ->
  (fraction_digits_ok (dec_denote d) fd <-> (d_scale d <= fd)%nat).
Proof.
  intros d fd Nd. split.
  - intros [i [n [E L]]]. destruct (scale_minimal d i n Nd E) as [K _]. lia.
  - intros L. exists (d_sign d * dval (d_digits d)), (d_scale d). split; [reflexivity|exact L].
Qed.

Lemma total_digits_spec : forall d td, dec_norm d ->
  (total_digits_ok (dec_denote d) td <-> (d_total d <= td)%nat /\ (d_scale d <= td)%nat).
Proof.
  intros d td Nd. pose proof Nd as [Hd Ht Hs Hg Hl Htr]. split.
  - intros [i [n [E [A L]]]]. destruct (scale_minimal d i n Nd E) as [K Ei].
    split; [|lia]. destruct (Nat.eq_dec (d_scale d) (d_total d)) as [Ek|Ek]; [lia|].
    assert (Lt : (d_scale d < d_total d)%nat) by lia. specialize (Hl Lt).
    destruct (d_digits d) as [|c r] eqn:Ed; [cbn in Ht; lia|]. cbn [first_is] in Hl.
    pose proof (dval_lead c r Hd Hl) as Lead. pose proof (P10_pos (n - d_scale d)) as Pp.
    assert (Ab : P10 (length r) <= Z.abs i).
    { pose proof (P10_pos (length r)) as Pr.
      assert (Big : dval (c :: r) * 1 <= dval (c :: r) * P10 (n - d_scale d)) by (apply Z.mul_le_mono_nonneg_l; lia).
      rewrite Ei. destruct Hg as [[X _]|[_ [S|S]]]; [discriminate| |]; rewrite S.
      - replace (1 * dval (c :: r) * P10 (n - d_scale d)) with (dval (c :: r) * P10 (n - d_scale d)) by ring.
        rewrite Z.abs_eq by lia. lia.
      - replace (-1 * dval (c :: r) * P10 (n - d_scale d)) with (- (dval (c :: r) * P10 (n - d_scale d))) by ring.
        rewrite Z.abs_opp, Z.abs_eq by lia. lia. }
    assert (P10 (length r) < P10 td) by (unfold P10 in *; lia).
    pose proof (P10_lt_inv _ _ H). cbn [length] in Ht. lia.
  - intros [T K]. exists (d_sign d * dval (d_digits d)), (d_scale d). split; [reflexivity|]. split; [|exact K].
    pose proof (dval_bounds _ Hd) as B. rewrite <- Ht in B. pose proof (P10_le _ _ T).
    fold (P10 td). destruct Hg as [[_ S]|[_ [S|S]]]; rewrite S.
    + rewrite Z.mul_0_l. cbn. apply P10_pos.
    + rewrite Z.mul_1_l, Z.abs_eq by lia. lia.
    + replace (-1 * dval (d_digits d)) with (- dval (d_digits d)) by ring. rewrite Z.abs_opp, Z.abs_eq by lia. lia.
Qed.

(** the two tests of checkContent *)
Lemma digits_checks : forall d td fd, dec_norm d ->
  (((td <? d_total d)%nat || (td <? d_scale d)%nat = false) <-> total_digits_ok (dec_denote d) td) /\
  ((fd <? d_scale d)%nat = false <-> fraction_digits_ok (dec_denote d) fd).
Proof.
  intros d td fd Nd. rewrite (total_digits_spec d td Nd), (fraction_digits_spec d fd Nd).
  rewrite Bool.orb_false_iff, !Nat.ltb_ge. tauto.
Qed.
