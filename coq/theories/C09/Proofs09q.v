(** C09 lemmas, part q: XMLBigDecimal::getCanonicalRepresentation -- the result is a canonical literal of the lexical
    space, denotes the same value, and is a fixed point. *)
From Coq Require Import ZArith QArith Lia.
From XV Require Import C09.Spec09 C09.Spec09d C09.Spec09f C09.Model09 C09.Model09f C09.Proofs09a C09.Proofs09b C09.Proofs09c C09.Proofs09d C09.Proofs09e C09.Proofs09p.
Local Open Scope N_scope.

Lemma split_dot_digits : forall ip fp, all_digits ip = true -> split_dot (ip ++ ch_dot :: fp) = (ip, Some fp).
Proof.
  induction ip as [|c r IH]; intros fp H; [reflexivity|]. rewrite all_digits_cons in H. apply andb_prop in H. destruct H as [H1 H2].
  cbn [app split_dot]. rewrite (digit_not_dot c H1), (IH fp H2). reflexivity.
Qed.

Lemma digit_not_sign : forall c, is_digit c = true -> (c =? ch_minus) = false /\ (c =? ch_plus) = false.
Proof. intros c H. unfold is_digit in H. apply andb_prop in H. destruct H as [H _]. apply N.leb_le in H.
  split; apply N.eqb_neq; unfold ch_minus, ch_plus; lia. Qed.

Lemma strip_sign_digit : forall c r, is_digit c = true -> strip_sign (c :: r) = (false, c :: r).
Proof. intros c r H. destruct (digit_not_sign c H) as [A B]. unfold strip_sign. rewrite A, B. reflexivity. Qed.

Lemma first_is_digit_plus : forall c r, is_digit c = true -> first_is (c :: r) ch_plus = false.
Proof. intros c r H. destruct (digit_not_sign c H) as [_ B]. exact B. Qed.

(** the unsigned body  ip '.' fp  of a canonical representation *)
Definition body_ok (ip fp : list N) : Prop :=
  all_digits ip = true /\ all_digits fp = true /\ ip <> [] /\ fp <> [] /\
  (first_is ip ch_0 = false \/ length ip = 1%nat) /\ (last_is fp ch_0 = false \/ length fp = 1%nat).

Lemma body_canonical : forall ip fp (neg : bool), body_ok ip fp -> (neg = true -> dval (ip ++ fp) <> 0%Z) ->
  let l := (if neg then [ch_minus] else []) ++ ip ++ ch_dot :: fp in
  dec_is_canonical l = true /\ dec_lex l = true /\
  dec_value l == (if neg then - dval (ip ++ fp) else dval (ip ++ fp))%Z # pow10 (length fp).
Proof.
  intros ip fp neg [Di [Df [Ni [Nf [Li Lf]]]]] Hz.
  destruct ip as [|i0 ip']; [contradiction|]. pose proof Di as Di'. rewrite all_digits_cons in Di'. apply andb_prop in Di'. destruct Di' as [Di0 _].
  assert (Ec : forall b : bool, (if b then true else false) = b) by (intros []; reflexivity).
  assert (Lead : (negb (first_is (i0 :: ip') ch_0) || (length (i0 :: ip') =? 1)%nat) = true).
  { destruct Li as [Li|Li]; [rewrite Li; reflexivity|rewrite Li; apply Bool.orb_true_r]. }
  assert (Trail : (negb (last_is fp ch_0) || (length fp =? 1)%nat) = true).
  { destruct Lf as [Lf|Lf]; [rewrite Lf; reflexivity|rewrite Lf; apply Bool.orb_true_r]. }
  assert (Nfb : negb (nilb fp) = true) by (destruct fp; [contradiction|reflexivity]).
  set (body := (i0 :: ip') ++ ch_dot :: fp).
  destruct neg; cbn [app]; fold body.
  - (* negative *)
    assert (Nz : negb (dval ((i0 :: ip') ++ fp) =? 0)%Z = true) by (apply Bool.negb_true_iff, Z.eqb_neq, Hz; reflexivity).
    assert (SS : strip_sign (ch_minus :: body) = (true, body)) by reflexivity.
    assert (FP : first_is (ch_minus :: body) ch_plus = false) by reflexivity.
    unfold dec_is_canonical, dec_lex, dec_value. rewrite SS, FP. cbn [snd]. unfold udec_lex, udec_value, body.
    rewrite (split_dot_digits (i0 :: ip') fp Di). rewrite Di, Df, Lead, Trail, Nfb, Nz. cbn [nilb negb andb orb].
    repeat split; try reflexivity.
  - assert (SS : strip_sign body = (false, body)) by (unfold body; cbn [app]; apply strip_sign_digit; exact Di0).
    assert (FP : first_is body ch_plus = false) by (unfold body; cbn [app]; apply first_is_digit_plus; exact Di0).
    unfold dec_is_canonical, dec_lex, dec_value. rewrite SS, FP. cbn [snd]. unfold udec_lex, udec_value, body.
    rewrite (split_dot_digits (i0 :: ip') fp Di). rewrite Di, Df, Lead, Trail, Nfb. cbn [nilb negb andb orb].
    repeat split; try reflexivity.
Qed.

Lemma last_is_app : forall (a b : list N) c, b <> [] -> last_is (a ++ b) c = last_is b c.
Proof.
  intros a b c H. unfold last_is. rewrite rev_app_distr. destruct (rev b) eqn:E; [|reflexivity].
  apply (f_equal (@rev N)) in E. rewrite rev_involutive in E. contradiction.
Qed.

Lemma dval_zero_cons : forall l, dval (ch_0 :: l) = dval l.
Proof. intros. rewrite dval_cons. change (digit_val ch_0) with 0%Z. lia. Qed.
Lemma dval_snoc_zero : forall l, dval (l ++ [ch_0]) = (dval l * 10)%Z.
Proof. intros. rewrite dval_app. cbn [length]. rewrite P10_S, P10_0. change (dval [ch_0]) with 0%Z. lia. Qed.

Lemma canon_of_norm : forall d, dec_norm d ->
  dec_is_canonical (dec_canon_of d) = true /\ dec_lex (dec_canon_of d) = true /\ dec_value (dec_canon_of d) == dec_denote d.
Proof.
  intros [s ds t k] Nd. pose proof Nd as [Hd Ht Hs Hsg Hl Htr]. cbn [d_sign d_digits d_total d_scale] in *.
  unfold dec_canon_of, dec_denote. cbn [d_sign d_digits d_total d_scale].
  destruct Hsg as [[E0 S0]|[Ne Spm]].
  - (* zero *)
    subst ds s. cbn [length] in Ht. subst t. cbn [Z.eqb orb]. repeat split; try reflexivity.
  - assert (Tpos : (0 < t)%nat) by (rewrite Ht; destruct ds; [contradiction|cbn; lia]).
    assert (Pos : (0 < dval ds)%Z) by (apply (norm_pos _ Nd); exact Ne).
    assert (Z1 : (s =? 0)%Z = false) by (destruct Spm; subst; reflexivity).
    assert (Z2 : (t =? 0)%nat = false) by (apply Nat.eqb_neq; lia).
    rewrite Z1, Z2. cbn [orb].
    set (neg := (s =? -1)%Z).
    assert (Sneg : s = if neg then (-1)%Z else 1%Z) by (unfold neg; destruct Spm; subst; reflexivity).
    destruct (Nat.eqb_spec k t) as [Ekt|Ekt].
    + (* 0.ds *)
      assert (B : body_ok [ch_0] ds).
      { repeat split; auto; try discriminate; try (left; apply Htr; lia). }
      assert (Hz : neg = true -> dval ([ch_0] ++ ds) <> 0%Z) by (intros _; cbn [app]; rewrite dval_zero_cons; lia).
      destruct (body_canonical [ch_0] ds neg B Hz) as [C1 [C2 C3]]. cbn [app] in *.
      repeat split; [exact C1|exact C2|]. rewrite C3, dval_zero_cons, Sneg, <- Ht, <- Ekt. destruct neg; unfold Qeq; cbn [Qnum Qden]; lia.
    + destruct (Nat.eqb_spec k 0) as [Ek0|Ek0].
      * (* ds.0 *)
        subst k. assert (B : body_ok ds [ch_0]).
        { repeat split; auto; try discriminate; try (left; apply Hl; lia). }
        assert (Hz : neg = true -> dval (ds ++ [ch_0]) <> 0%Z) by (intros _; rewrite dval_snoc_zero; lia).
        destruct (body_canonical ds [ch_0] neg B Hz) as [C1 [C2 C3]].
        repeat split; [exact C1|exact C2|]. rewrite C3, dval_snoc_zero, Sneg. cbn [length].
        unfold Qeq. cbn [Qnum Qden pow10]. destruct neg; lia.
      * (* ip.fp *)
        set (il := (t - k)%nat).
        assert (Lsk : length (skipn il ds) = k) by (rewrite skipn_length; unfold il; lia).
        assert (Efp : firstn k (skipn il ds) = skipn il ds) by (apply firstn_all2; lia).
        rewrite Efp.
        assert (Split : firstn il ds ++ skipn il ds = ds) by apply firstn_skipn.
        assert (Dsplit : all_digits (firstn il ds) = true /\ all_digits (skipn il ds) = true).
        { rewrite <- Split in Hd. rewrite all_digits_app in Hd. apply andb_prop in Hd. exact Hd. }
        assert (Lfi : length (firstn il ds) = il) by (rewrite firstn_length; unfold il; lia).
        assert (B : body_ok (firstn il ds) (skipn il ds)).
        { destruct Dsplit as [D1 D2]. repeat split; auto.
          - intros X. rewrite X in Lfi. cbn in Lfi. unfold il in Lfi. lia.
          - intros X. rewrite X in Lsk. cbn in Lsk. lia.
          - left. assert (F : first_is ds ch_0 = false) by (apply Hl; lia).
            destruct ds as [|x ds']; [contradiction|]. destruct il eqn:Eil; [unfold il in Eil; lia|]. exact F.
          - left. assert (F : last_is ds ch_0 = false) by (apply Htr; lia).
            rewrite <- Split in F. rewrite last_is_app in F; [exact F|]. intros X. rewrite X in Lsk. cbn in Lsk. lia. }
        assert (Hz : neg = true -> dval (firstn il ds ++ skipn il ds) <> 0%Z) by (intros _; rewrite Split; lia).
        destruct (body_canonical _ _ neg B Hz) as [C1 [C2 C3]].
        repeat split; [exact C1|exact C2|]. rewrite C3, Split, Lsk, Sneg. destruct neg; unfold Qeq; cbn [Qnum Qden]; lia.
Qed.

(** normalised records that compare equal are equal: digit strings are unique *)
Lemma str_cmp_zero : forall a b, all_digits a = true -> all_digits b = true -> str_cmp a b = 0%Z -> a = b.
Proof.
  induction a as [|x a IH]; intros [|y b] Ha Hb H; cbn [str_cmp] in H; try reflexivity.
  - rewrite all_digits_cons in Hb. apply andb_prop in Hb. destruct Hb as [Hy _]. unfold is_digit in Hy.
    apply andb_prop in Hy. destruct Hy as [Hy _]. apply N.leb_le in Hy. lia.
  - rewrite all_digits_cons in Ha. apply andb_prop in Ha. destruct Ha as [Hx _]. unfold is_digit in Hx.
    apply andb_prop in Hx. destruct Hx as [Hx _]. apply N.leb_le in Hx. lia.
  - rewrite all_digits_cons in Ha, Hb. apply andb_prop in Ha. apply andb_prop in Hb. destruct Ha as [_ Ha]. destruct Hb as [_ Hb].
    destruct (N.eqb_spec x y); [subst; f_equal; apply IH; assumption|lia].
Qed.

Lemma cmp_zero_eq : forall a b, dec_norm a -> dec_norm b -> dec_cmp a b = 0%Z -> a = b.
Proof.
  intros [s1 d1 t1 k1] [s2 d2 t2 k2] Na Nb H. pose proof Na as [Hd1 Ht1 Hs1 Hg1 _ _]. pose proof Nb as [Hd2 Ht2 Hs2 Hg2 _ _].
  cbn [d_sign d_digits d_total d_scale] in *. unfold dec_cmp in H. cbn [d_sign d_digits d_total d_scale] in H.
  destruct (Z.eqb_spec s1 s2) as [Es|Es]; cbn [negb] in H; [|destruct (s1 >? s2)%Z; discriminate]. subst s2.
  destruct (Z.eqb_spec s1 0) as [E0|E0].
  - subst s1. destruct Hg1 as [[E1 _]|[_ [X|X]]]; try discriminate. destruct Hg2 as [[E2 _]|[_ [X|X]]]; try discriminate.
    subst d1 d2. cbn [length] in *. subst t1 t2. assert (k1 = 0%nat) by lia. assert (k2 = 0%nat) by lia. subst. reflexivity.
  - rewrite sgn_select in H.
    destruct (Nat.ltb_spec (t2 - k2) (t1 - k1)); [lia|]. destruct (Nat.ltb_spec (t1 - k1) (t2 - k2)); [lia|].
    assert (Sg : Z.sgn (str_cmp d1 d2) = 0%Z) by lia. apply (proj1 (Z.sgn_null_iff _)) in Sg.
    pose proof (str_cmp_zero d1 d2 Hd1 Hd2 Sg). subst d2. assert (t1 = t2) by lia. subst t2. assert (k1 = k2) by lia. subst. reflexivity.
Qed.

Lemma char_ok_not_ws : forall c, float_char_ok c = true -> is_ws c = false.
Proof.
  intros c H. unfold float_char_ok, is_digit, is_e, ch_dot, ch_minus, ch_plus in H. unfold is_ws.
  destruct (N.eqb_spec c 32); [subst; discriminate|]. destruct (N.eqb_spec c 9); [subst; discriminate|].
  destruct (N.eqb_spec c 10); [subst; discriminate|]. destruct (N.eqb_spec c 13); [subst; discriminate|]. reflexivity.
Qed.

Lemma drop_ws_id : forall l, match l with x :: _ => is_ws x = false | [] => True end -> drop_ws l = l.
Proof. intros [|x l] H; [reflexivity|]. cbn [drop_ws]. rewrite H. reflexivity. Qed.

Lemma trim_lex : forall l, dec_lex l = true -> trim_ws l = l.
Proof.
  intros l H. pose proof (dec_chars l H) as C. rewrite forallb_forall in C.
  assert (NW : forall x, In x l -> is_ws x = false) by (intros x Hx; apply char_ok_not_ws, C, Hx).
  unfold trim_ws. rewrite (drop_ws_id l) by (destruct l; [exact I|apply NW; left; reflexivity]).
  rewrite (drop_ws_id (rev l)); [apply rev_involutive|].
  destruct (rev l) as [|x r] eqn:E; [exact I|]. apply NW. apply in_rev. rewrite E. left. reflexivity.
Qed.

(** T09_decimal_canon *)
Lemma dec_canon_spec : forall fix10 s d, dec_parse_raw fix10 s = Ok d ->
  let c := dec_canon_of d in
  dec_is_canonical c = true /\ dec_lex c = true /\ dec_value c == dec_value (trim_ws s) /\
  dec_canon true c = Some c.
Proof.
  intros fix10 s d H c.
  assert (Hp : dec_parse fix10 s = Ok d).
  { unfold dec_parse. destruct s; [cbn in H; discriminate|exact H]. }
  destruct (parse_norm_value fix10 s d Hp) as [Nd Vd].
  destruct (canon_of_norm d Nd) as [C1 [C2 C3]]. fold c in C1, C2, C3.
  repeat split; [exact C1|exact C2|rewrite C3; exact Vd|].
  (* idempotence: re-parsing the canonical literal gives a normalised record of the same value, hence the same record *)
  assert (T : trim_ws c = c) by (apply trim_lex; exact C2).
  assert (Ok' : dec_ok true c = true) by (rewrite (dec_ok_spec true c), T; exact C2).
  unfold dec_ok in Ok'. destruct (dec_parse true c) as [d'|e] eqn:P'; [|discriminate].
  destruct (parse_norm_value true c d' P') as [Nd' Vd']. rewrite T in Vd'.
  assert (E : Qcompare (dec_denote d') (dec_denote d) = Eq) by (apply Qeq_alt; rewrite Vd', C3; reflexivity).
  assert (Z : dec_cmp d' d = 0%Z) by (rewrite (dec_cmp_correct d' d Nd' Nd), E; reflexivity).
  pose proof (cmp_zero_eq d' d Nd' Nd Z). subst d'.
  unfold dec_canon. assert (R : dec_parse_raw true c = Ok d).
  { unfold dec_parse in P'. destruct c; [discriminate|exact P']. }
  rewrite R. reflexivity.
Qed.
