(** C09 lemmas, part x: getDateCanonicalRepresentation -- the date and the recoverable time zone computed from the
    normalised (UTC) fields denote the same starting instant, the zone lies between -11:59 and +12:00, and the date is
    a valid calendar date. *)
From Coq Require Import ZArith Lia.
From XV Require Import C09.Spec09 C09.Spec09c C09.Spec09e C09.Model09c C09.Model09e C09.Model09j C09.Proofs09i C09.Proofs09j.
Local Open Scope Z_scope.

(** seconds of the local midnight of a date minus its zone offset = the instant the date starts at *)
Definition date_start_secs (y mo d z : Z) : Z := days_of y mo d * 86400 - 60 * z.

(** T09_date_canon: for normalised in-range fields of a date (seconds 0) with year >= 2 *)
Lemma date_canon_fields_spec : forall n, in_range n -> 2 <= n_y n -> n_s n = 0 ->
  let '((y, mo, d), z) := date_canon_fields n in
  date_start_secs y mo d z = secs_of n /\ -719 <= z <= 720 /\ date_ok y mo d.
Proof.
  intros [y mo d h mi s] [[Hy [Hmo Hd]] Hh Hmi Hs] Hy2 Hs0. cbn [n_y n_mo n_d n_h n_mi n_s] in *. subst s.
  unfold date_canon_fields. cbn [n_y n_mo n_d n_h n_mi n_s].
  destruct (Z.ltb_spec h 12) as [L|G].
  - unfold date_start_secs, secs_of. cbn [n_y n_mo n_d n_h n_mi n_s]. repeat split; try lia.
  - destruct (norm_days 4 y mo (d + 1)) as [[y' mo'] d'] eqn:ND.
    pose proof (max_day_range y mo) as R.
    destruct (norm_days_spec y mo (d + 1) y' mo' d' Hy2 Hmo ltac:(lia) ND) as [D [M1 [M2 M3]]].
    destruct (Z.eqb_spec mi 0) as [E|E].
    + unfold date_start_secs, secs_of. cbn [n_y n_mo n_d n_h n_mi n_s]. rewrite D. unfold days_of. repeat split; try lia.
    + unfold date_start_secs, secs_of. cbn [n_y n_mo n_d n_h n_mi n_s]. rewrite D. unfold days_of. repeat split; try lia.
Qed.
