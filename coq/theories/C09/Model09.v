(** Executable model of the xs:decimal kernel of xerces-c, following the C++ line by line.  No proofs here.
    - XMLBigDecimal::parseDecimal (both overloads), XMLBigDecimal::XMLBigDecimal (the empty-string test),
      XMLBigDecimal::toCompare / compareValues, XMLBigDecimal::getCanonicalRepresentation
                                                                     (src/xercesc/util/XMLBigDecimal.cpp)
    - XMLString::compareString                                       (src/xercesc/util/XMLString.cpp)
    - AbstractNumericValidator::boundsCheck, DecimalDatatypeValidator::checkContent (enumeration, bounds,
      fractionDigits, totalDigits), AbstractNumericFacetValidator::inheritFacet
                                                                     (src/xercesc/validators/datatype)
    - XSValue::validate / getCanonicalRepresentation for dt_decimal  (src/xercesc/framework/psvi/XSValue.cpp)

    [fix10 : bool] is the defect switch of finding F10 (a literal without any digit, ".", "+.", "-." is accepted):
    [false] = the code as it is, [true] = the code with fixes/C09-decimal-lone-dot.patch applied. *)
From XV Require Export C09.Spec09.
Local Open Scope N_scope.

Inductive derr : Type :=
| E_emptyString | E_WSString | E_2ManyDecPoint | E_Inv_chars
| E_NotMatch_Pattern | E_NotIn_Enumeration
| E_exceed_maxExcl | E_exceed_maxIncl | E_exceed_minIncl | E_exceed_minExcl
| E_exceed_fractDigit | E_exceed_totalDigit.

(** the fields of an XMLBigDecimal after parsing: fSign, fIntVal, fTotalDigits, fScale *)
Record dec : Type := mkDec { d_sign : Z; d_digits : list N; d_total : nat; d_scale : nat }.

(** while (XMLChar1_0::isWhitespace( *startPtr)) startPtr++; *)
Fixpoint drop_ws (l : list N) : list N :=
  match l with c :: r => if is_ws c then drop_ws r else l | [] => [] end.
(** startPtr .. endPtr after both whitespace loops *)
Definition trim_ws (l : list N) : list N := rev (drop_ws (rev (drop_ws l))).

(** while ( *startPtr == chDigit_0) startPtr++; *)
Fixpoint drop_zeros (l : list N) : list N :=
  match l with c :: r => if c =? ch_0 then drop_zeros r else l | [] => [] end.

(** the scan loop: result = (digits copied to retBuffer, fractDigits) *)
Fixpoint dec_scan (l : list N) (dot : bool) : res (list N * nat) derr :=
  match l with
  | [] => Ok ([], 0%nat)
  | c :: r =>
      if c =? ch_dot then
        if dot then Err E_2ManyDecPoint
        else match dec_scan r true with
             | Ok (ds, _) => Ok (ds, length r)          (* fractDigits = endPtr - startPtr - 1 *)
             | Err e => Err e
             end
      else if negb (is_digit c) then Err E_Inv_chars
      else match dec_scan r dot with
           | Ok (ds, f) => Ok (c :: ds, f)
           | Err e => Err e
           end
  end.

(** while ((fractDigits > 0) && ( *(retPtr-1) == chDigit_0)) { retPtr--; fractDigits--; totalDigits--; }
    on the reversed digit string *)
Fixpoint strip_tz (rds : list N) (fract : nat) : list N * nat :=
  match fract, rds with
  | S f, c :: r => if c =? ch_0 then strip_tz r f else (rds, fract)
  | _, _ => (rds, fract)
  end.

(** after the sign: leading zeros, scan, trailing-zero normalisation *)
Definition dec_parse_unsigned (fix10 : bool) (sign : Z) (r : list N) : res dec derr :=
  let r' := drop_zeros r in
  match r' with
  | [] => Ok (mkDec 0 [] 0 0)                        (* nothing but zeros: sign = 0; return *)
  | _ =>
      match dec_scan r' false with
      | Err e => Err e
      | Ok (ds, fract) =>
          (* fix: a literal without any digit is not a decimal *)
          if fix10 && nilb ds && (length r' =? length r)%nat then Err E_Inv_chars else
          let (rds, fract') := strip_tz (rev ds) fract in
          let ds' := rev rds in
          let total := length ds' in
          Ok (mkDec (if (total =? 0)%nat then 0%Z else sign) ds' total fract')
      end
  end.

Definition dec_parse_body (fix10 : bool) (b : list N) : res dec derr :=
  match b with
  | c :: r =>
      if c =? ch_minus then (match r with [] => Err E_Inv_chars | _ => dec_parse_unsigned fix10 (-1)%Z r end)
      else if c =? ch_plus then (match r with [] => Err E_Inv_chars | _ => dec_parse_unsigned fix10 1%Z r end)
      else dec_parse_unsigned fix10 1%Z b
  | [] => Err E_WSString
  end.

(** XMLBigDecimal::parseDecimal(toParse, retBuffer, sign, totalDigits, fractDigits) *)
Definition dec_parse_raw (fix10 : bool) (s : list N) : res dec derr :=
  match drop_ws s with
  | [] => Err E_WSString
  | _ => dec_parse_body fix10 (trim_ws s)
  end.

(** XMLBigDecimal::XMLBigDecimal(strValue) *)
Definition dec_parse (fix10 : bool) (s : list N) : res dec derr :=
  match s with [] => Err E_emptyString | _ => dec_parse_raw fix10 s end.

(** XMLString::compareString *)
Fixpoint str_cmp (a b : list N) : Z :=
  match a, b with
  | [], [] => 0%Z
  | [], y :: _ => (0 - Z.of_N y)%Z
  | x :: _, [] => Z.of_N x
  | x :: a', y :: b' => if x =? y then str_cmp a' b' else (Z.of_N x - Z.of_N y)%Z
  end.

(** XMLBigDecimal::toCompare *)
Definition dec_cmp (a b : dec) : Z :=
  let ls := d_sign a in
  if negb (ls =? d_sign b)%Z then (if (ls >? d_sign b)%Z then 1 else -1)%Z
  else if (ls =? 0)%Z then 0%Z
  else
    let li := (d_total a - d_scale a)%nat in
    let ri := (d_total b - d_scale b)%nat in
    if (ri <? li)%nat then (1 * ls)%Z
    else if (li <? ri)%nat then (-1 * ls)%Z
    else let r := str_cmp (d_digits a) (d_digits b) in
         if (r >? 0)%Z then (1 * ls)%Z else if (r <? 0)%Z then (-1 * ls)%Z else 0%Z.

(** XMLBigDecimal::getCanonicalRepresentation *)
Definition dec_canon_of (d : dec) : list N :=
  if (d_sign d =? 0)%Z || (d_total d =? 0)%nat then [ch_0; ch_dot; ch_0]
  else
    (if (d_sign d =? -1)%Z then [ch_minus] else []) ++
    (if (d_scale d =? d_total d)%nat then ch_0 :: ch_dot :: d_digits d
     else if (d_scale d =? 0)%nat then d_digits d ++ [ch_dot; ch_0]
     else let il := (d_total d - d_scale d)%nat in
          firstn il (d_digits d) ++ ch_dot :: firstn (d_scale d) (skipn il (d_digits d))).

Definition dec_canon (fix10 : bool) (s : list N) : option (list N) :=
  match dec_parse_raw fix10 s with Ok d => Some (dec_canon_of d) | Err _ => None end.

(** XSValue: the NoContent test in front of every entry point: empty or isAllSpaces *)
Definition all_spaces (s : list N) : bool := forallb is_ws s.
Definition xsv_decimal_validate (fix10 : bool) (s : list N) : bool :=
  if all_spaces s then false else match dec_parse_raw fix10 s with Ok _ => true | Err _ => false end.
Definition xsv_decimal_canon (fix10 : bool) (s : list N) : option (list N) :=
  if all_spaces s then None else dec_canon fix10 s.

(** * facets of a decimal validator (after inheritFacet: one merged set) *)
Record dfacets : Type := mkDF {
  f_enum : option (list dec);
  f_maxI : option dec; f_maxE : option dec; f_minI : option dec; f_minE : option dec;
  f_total : option nat; f_fract : option nat }.

Definition no_facets : dfacets := mkDF None None None None None None None.

(** AbstractNumericFacetValidator::inheritFacet + DecimalDatatypeValidator::inheritAdditionalFacet:
    [this] = facets given on the derived type, [base] = merged facets of its base *)
Definition inherit_facets (this base : dfacets) : dfacets :=
  let hasmax := match f_maxI this, f_maxE this with None, None => false | _, _ => true end in
  let hasmin := match f_minI this, f_minE this with None, None => false | _, _ => true end in
  mkDF (match f_enum this with Some e => Some e | None => f_enum base end)
       (if hasmax then f_maxI this else f_maxI base)
       (if hasmax then f_maxE this else f_maxE base)
       (if hasmin then f_minI this else f_minI base)
       (if hasmin then f_minE this else f_minE base)
       (match f_total this with Some e => Some e | None => f_total base end)
       (match f_fract this with Some e => Some e | None => f_fract base end).

(** AbstractNumericValidator::boundsCheck *)
Definition orelse (a b : option derr) : option derr := match a with Some e => Some e | None => b end.
Definition bounds_check (f : dfacets) (d : dec) : option derr :=
  orelse (match f_maxE f with Some m => if negb (dec_cmp d m =? -1)%Z then Some E_exceed_maxExcl else None | None => None end)
 (orelse (match f_maxI f with Some m => if (dec_cmp d m =? 1)%Z then Some E_exceed_maxIncl else None | None => None end)
 (orelse (match f_minI f with Some m => if (dec_cmp d m =? -1)%Z then Some E_exceed_minIncl else None | None => None end)
         (match f_minE f with Some m => if negb (dec_cmp d m =? 1)%Z then Some E_exceed_minExcl else None | None => None end))).

(** DecimalDatatypeValidator::checkContent (asBase = false) without the pattern facet:
    parse, enumeration, bounds, fractionDigits, totalDigits (E2-44: also scale <= totalDigits) *)
Definition dec_check (fix10 : bool) (f : dfacets) (s : list N) : option derr :=
  match dec_parse fix10 s with
  | Err e => Some e
  | Ok d =>
    orelse (match f_enum f with
            | Some es => if existsb (fun e => (dec_cmp d e =? 0)%Z) es then None else Some E_NotIn_Enumeration
            | None => None end)
   (orelse (bounds_check f d)
   (orelse (match f_fract f with Some fd => if (fd <? d_scale d)%nat then Some E_exceed_fractDigit else None | None => None end)
           (match f_total f with
            | Some td => if (td <? d_total d)%nat then Some E_exceed_totalDigit
                         else if (td <? d_scale d)%nat then Some E_exceed_totalDigit else None
            | None => None end)))
  end.
