(** Executable models of the binary and boolean kernels, following the C++.  No proofs here.
    - Base64::decode (XMLByte input, Conf_Schema / Conf_RFC2045), decodeToXMLByte / getDataLength /
      getCanonicalRepresentation (XMLCh input: the narrowing loop)          (src/xercesc/util/Base64.cpp)
    - HexBin::isArrayByteHex / getDataLength / getCanonicalRepresentation    (src/xercesc/util/HexBin.cpp)
    - Base64BinaryDatatypeValidator / HexBinaryDatatypeValidator (checkValueSpace, getLength, normalizeContent),
      AbstractStringValidator::checkContent / inheritFacet, BooleanDatatypeValidator::checkContent / compare
    - XSValue::validateStrings / getCanRepStrings for dt_boolean, dt_hexBinary, dt_base64Binary
    Tables: Gen/GenC09.v, regenerated from /repo on every run.
    Defect switches: [fix12]  (F12: XMLCh narrowed to XMLByte by the XMLCh overloads; false = code as is),
                     [fix12b] (F26: base64Inverse has BASELENGTH = 255 entries, byte 0xFF indexes past it). *)
From XV Require Export C09.Spec09b C09.Model09.
From XV Require Export Gen.GenC09.
Local Open Scope N_scope.

(** base64Inverse[octet]; an index past the table reads whatever follows it (observed: 0) *)
Definition b64_inv (fix12b : bool) (c : N) : N :=
  if c <? N.of_nat (length base64Inverse) then tbl base64Inverse c else if fix12b then 0xFF else 0.
Definition b64_isData (fix12b : bool) (c : N) : bool := negb (b64_inv fix12b c =? 0xFF).
Definition b64_isPad (c : N) : bool := c =? ch_eq.

(** for (i < srcLen) dataInByte[i] = (XMLByte)inputData[i];  then the byte overload works on a C string *)
Fixpoint until_nul (l : list N) : list N := match l with [] => [] | c :: r => if c =? 0 then [] else c :: until_nul r end.
Definition b64_narrow (fix12 : bool) (s : list N) : option (list N) :=
  if fix12 then (if existsb (fun c => 0xFF <? c) s then None else Some s)
  else Some (until_nul (map (fun c => c mod 256) s)).

(** Conf_Schema whitespace loop: result = raw data without the single #x20 separators *)
Fixpoint b64_strip_schema (inWS : bool) (l : list N) : option (list N) :=
  match l with
  | [] => if inWS then None else Some []
  | c :: r => if c =? ch_space then (if inWS then None else b64_strip_schema true r)
              else match b64_strip_schema false r with Some q => Some (c :: q) | None => None end
  end.

Definition set1st (b1 b2 : N) : N := (N.lor (N.shiftl b1 2) (N.shiftr b2 4)) mod 256.
Definition set2nd (b2 b3 : N) : N := (N.lor (N.shiftl b2 4) (N.shiftr b3 2)) mod 256.
Definition set3rd (b3 b4 : N) : N := (N.lor (N.shiftl b3 6) b4) mod 256.

(** the quadruplet loops *)
Fixpoint b64_quads_m (fx : bool) (l : list N) : option (list N) :=
  match l with
  | d1 :: d2 :: d3 :: d4 :: r =>
      match r with
      | [] =>
          if negb (b64_isData fx d1) || negb (b64_isData fx d2) then None else
          let b1 := b64_inv fx d1 in let b2 := b64_inv fx d2 in
          if negb (b64_isData fx d3) || negb (b64_isData fx d4) then
            if b64_isPad d3 && b64_isPad d4 then
              (if negb (N.land b2 0xF =? 0) then None else Some [set1st b1 b2])
            else if negb (b64_isPad d3) && b64_isPad d4 then
              let b3 := b64_inv fx d3 in
              (if negb (N.land b3 0x3 =? 0) then None else Some [set1st b1 b2; set2nd b2 b3])
            else None
          else let b3 := b64_inv fx d3 in let b4 := b64_inv fx d4 in
               Some [set1st b1 b2; set2nd b2 b3; set3rd b3 b4]
      | _ =>
          if negb (b64_isData fx d1) || negb (b64_isData fx d2) || negb (b64_isData fx d3) || negb (b64_isData fx d4)
          then None
          else let b1 := b64_inv fx d1 in let b2 := b64_inv fx d2 in let b3 := b64_inv fx d3 in let b4 := b64_inv fx d4 in
               match b64_quads_m fx r with
               | Some v => Some (set1st b1 b2 :: set2nd b2 b3 :: set3rd b3 b4 :: v)
               | None => None
               end
      end
  | _ => None            (* length not divisible by four, or no quadruplet at all *)
  end.

(** Base64::decode(const XMLByte*, ..., conform): (decoded octets, canonical representation) *)
Definition b64_decode_bytes (schema fix12b : bool) (input : list N) : option (list N * list N) :=
  match input with
  | [] => None
  | c0 :: _ =>
      let raw := if schema then (if c0 =? ch_space then None else b64_strip_schema false input)
                 else Some (filter (fun c => negb (is_ws c)) input) in
      match raw with
      | None => None
      | Some q => match b64_quads_m fix12b q with Some v => Some (v, q) | None => None end
      end
  end.

(** the XMLCh overloads *)
Definition b64_decode (schema fix12 fix12b : bool) (s : list N) : option (list N * list N) :=
  match s with
  | [] => None
  | _ => match b64_narrow fix12 s with Some bs => b64_decode_bytes schema fix12b bs | None => None end
  end.
Definition b64_length (schema fix12 fix12b : bool) (s : list N) : option nat :=
  match b64_decode schema fix12 fix12b s with Some (v, _) => Some (length v) | None => None end.

(** HexBin *)
Definition hex_isHex (c : N) : bool := if hex_BASELENGTH <=? c then false else negb (tbl hexNumberTable c =? 0xFF).
Definition hex_ok (s : list N) : bool :=
  match s with [] => true | _ => (Nat.even (length s)) && forallb hex_isHex s end.
Definition hex_length (s : list N) : option nat := if hex_ok s then Some (Nat.div2 (length s)) else None.
Definition upper_ascii (c : N) : N := if (0x61 <=? c) && (c <=? 0x7A) then c - 0x20 else c.
Definition hex_canon (s : list N) : option (list N) := if hex_ok s then Some (map upper_ascii s) else None.

(** string-family facets after inheritFacet *)
Record strfacets : Type := mkSTF { sf_len : option nat; sf_min : option nat; sf_max : option nat; sf_enum : option (list (list N)) }.
Definition no_strfacets : strfacets := mkSTF None None None None.
Definition inherit_strfacets (this base : strfacets) : strfacets :=
  let o {A} (a b : option A) := match a with Some x => Some x | None => b end in
  mkSTF (o (sf_len this) (sf_len base)) (o (sf_min this) (sf_min base)) (o (sf_max this) (sf_max base))
        (o (sf_enum this) (sf_enum base)).

Inductive serr : Type := E_Not_Base64 | E_Not_HexBin | E_GT_maxLen | E_LT_minLen | E_NE_Len | E_NotIn_Enum | E_Invalid_Name.

Definition remove_ws (s : list N) : list N := filter (fun c => negb (is_ws c)) s.

Definition orelse_s (a b : option serr) : option serr := match a with Some e => Some e | None => b end.

(** AbstractStringValidator::checkContent (asBase = false, no pattern) for the two binary validators.
    [b64]: true = Base64BinaryDatatypeValidator, false = HexBinaryDatatypeValidator *)
Definition bin_check (b64 fix12 fix12b : bool) (f : strfacets) (s : list N) : option serr :=
  let len : res nat serr :=
    if b64 then (match s with
                 | [] => Ok 0%nat
                 | _ => match b64_length true fix12 fix12b s with Some n => Ok n | None => Err E_Not_Base64 end
                 end)
    else match hex_length s with Some n => Ok n | None => Err E_Not_HexBin end in
  match len with
  | Err e => Some e
  | Ok n =>
      orelse_s (match sf_max f with Some m => if (m <? n)%nat then Some E_GT_maxLen else None | None => None end)
     (orelse_s (match sf_min f with Some m => if (n <? m)%nat then Some E_LT_minLen else None | None => None end)
     (orelse_s (match sf_len f with Some m => if negb (n =? m)%nat then Some E_NE_Len else None | None => None end)
               (match sf_enum f with
                | Some es => let c := if b64 then remove_ws s else s in
                             if existsb (fun e => list_eqb c e) es then None else Some E_NotIn_Enum
                | None => None end)))
  end.

(** DatatypeValidator::getCanonicalRepresentation(raw, toValidate = true): the binary validators do not override it,
    so after validation the *raw* string is returned (finding F28: it is not the canonical form) *)
Definition bin_canon (b64 fix12 fix12b : bool) (f : strfacets) (s : list N) : option (list N) :=
  match bin_check b64 fix12 fix12b f s with
  | Some _ => None
  | None => Some s
  end.

(** XMLString::trim *)
(** XSValue::validate / getCanonicalRepresentation (the NoContent test: empty or all spaces is valid for the
    binary types and has no canonical form) *)
Definition xsv_hex_validate (s : list N) : bool := if all_spaces s then true else hex_ok (trim_ws s).
Definition xsv_hex_canon (s : list N) : option (list N) := if all_spaces s then None else hex_canon (trim_ws s).
Definition xsv_b64_validate (fix12 fix12b : bool) (s : list N) : bool :=
  if all_spaces s then true else match b64_decode false fix12 fix12b s with Some _ => true | None => false end.
Definition xsv_b64_canon (fix12 fix12b : bool) (s : list N) : option (list N) :=
  if all_spaces s then None else match b64_decode false fix12 fix12b s with Some (_, c) => Some c | None => None end.

(** boolean *)
Definition bool_check (s : list N) : option serr := if bool_lex s then None else Some E_Invalid_Name.
Definition bool_cmp (a b : list N) : Z :=
  let t x := list_eqb x s_true || list_eqb x [0x31] in
  let f x := list_eqb x s_false || list_eqb x [0x30] in
  if t a then (if t b then 0 else 1)%Z else if f a then (if f b then 0 else 1)%Z else 1%Z.
Definition xsv_bool_validate (s : list N) : bool := if all_spaces s then false else bool_lex (trim_ws s).
Definition xsv_bool_canon (s : list N) : option (list N) :=
  if all_spaces s then None else
  match bool_value (trim_ws s) with Some true => Some s_true | Some false => Some s_false | None => None end.
