(** C09 lemmas, part e: the fields produced by parseDecimal are normalised and denote the value of the literal;
    hence compare = order of values (T09_decimal_order). *)
From Coq Require Import ZArith QArith Lia.
From XV Require Import C09.Spec09 C09.Model09 C09.Proofs09a C09.Proofs09b C09.Proofs09c C09.Proofs09d.
Local Open Scope Z_scope.

Lemma digit_val_0 : forall c, (c =? ch_0)%N = true -> digit_val c = 0.
Proof. intros c H. apply N.eqb_eq in H. subst c. reflexivity. Qed.

Lemma dval_zeros_l : forall zs l, forallb is0 zs = true -> dval (zs ++ l) = dval l.
Proof.
  induction zs as [|z zs IH]; intros l H; [reflexivity|].
  cbn [forallb] in H. apply andb_prop in H. destruct H as [Hz H].
  cbn [app]. rewrite dval_cons, (digit_val_0 z Hz), (IH l H). lia.
Qed.

Lemma dval_zeros : forall zs, forallb is0 zs = true -> dval zs = 0.
Proof. intros zs H. rewrite <- (app_nil_r zs). rewrite dval_zeros_l by exact H. reflexivity. Qed.

Lemma repeat_is0 : forall k, forallb is0 (repeat ch_0 k) = true.
Proof. induction k; [reflexivity|]. cbn [repeat forallb]. rewrite IHk. reflexivity. Qed.

Lemma dval_zeros_r : forall l k, dval (l ++ repeat ch_0 k) = dval l * P10 k.
Proof. intros. rewrite dval_app, repeat_length, (dval_zeros _ (repeat_is0 k)). lia. Qed.

Lemma strip_tz_spec : forall f rds rds' f', strip_tz rds f = (rds', f') -> (f <= length rds)%nat ->
  exists k, rds = repeat ch_0 k ++ rds' /\ f = (k + f')%nat /\ (f' <= length rds')%nat /\
            ((0 < f')%nat -> first_is rds' ch_0 = false).
Proof.
  induction f as [|g IH]; intros rds rds' f' H L.
  - destruct rds; cbn [strip_tz] in H; inversion H; subst; exists 0%nat; cbn [repeat app]; repeat split; auto; lia.
  - destruct rds as [|c r]; [cbn [length] in L; lia|]. cbn [strip_tz] in H.
    destruct (c =? ch_0)%N eqn:E.
    + cbn [length] in L. destruct (IH r rds' f' H ltac:(lia)) as [k [H1 [H2 [H3 H4]]]].
      exists (S k). apply N.eqb_eq in E. subst c. cbn [repeat app]. rewrite <- H1. repeat split; auto; lia.
    + inversion H; subst. exists 0%nat. cbn [repeat app first_is]. repeat split; auto.
Qed.

Lemma last_is_rev : forall l c, last_is (rev l) c = first_is l c.
Proof. intros. unfold last_is. rewrite rev_involutive. reflexivity. Qed.

Lemma drop_zeros_head : forall r c r', drop_zeros r = c :: r' -> (c =? ch_0)%N = false.
Proof.
  induction r as [|x r IH]; intros c r' H; [discriminate|]. cbn [drop_zeros] in H.
  destruct (x =? ch_0)%N eqn:E; [eauto|]. inversion H; subst. exact E.
Qed.

Lemma all_digits_rev : forall l, all_digits (rev l) = all_digits l.
Proof.
  induction l as [|c l IH]; [reflexivity|]. cbn [rev]. rewrite all_digits_app, IH, !all_digits_cons.
  cbn [all_digits forallb]. rewrite andb_true_r. apply andb_comm.
Qed.

Lemma first_is_app : forall (a b : list N) c, a <> [] -> first_is (a ++ b) c = first_is a c.
Proof. intros a b c H. destruct a; [contradiction|reflexivity]. Qed.

(** the unsigned part *)
Lemma unsigned_norm_value : forall fix10 sign r d, (sign = 1 \/ sign = -1) -> r <> [] ->
  dec_parse_unsigned fix10 sign r = Ok d ->
  dec_norm d /\ exists i n, udec_value r = (i # pow10 n) /\
                            d_sign d * dval (d_digits d) * P10 n = sign * i * P10 (d_scale d).
Proof.
  intros fix10 sign r d Hs Hr H. unfold dec_parse_unsigned in H. cbv zeta in H.
  destruct (drop_zeros_split r) as [zs [E [Hz HL]]].
  destruct (drop_zeros r) as [|c r'] eqn:Er'.
  - (* only zeros *)
    inversion H; subst d. split.
    + constructor; cbn; auto; lia.
    + rewrite app_nil_r in E. subst zs. exists 0, 0%nat. split; [|cbn; lia].
      unfold udec_value. rewrite <- (app_nil_r r), (split_dot_zeros r [] Hz). cbn [split_dot fst snd].
      rewrite app_nil_r, (dval_zeros r Hz). reflexivity.
  - pose proof (drop_zeros_head r c r' Er') as Hc.
    pose proof (scan_false_spec (c :: r')) as S.
    destruct (udec_shape (c :: r')) eqn:Sh; [|destruct S as [e S]; rewrite S in H; discriminate].
    rewrite S in H. unfold udec_shape, udec_digits in *.
    (* value of r in terms of the split of r' *)
    assert (Hv : udec_value r = match split_dot (c :: r') with
                                | (ip, None) => dval ip # 1
                                | (ip, Some fp) => dval (ip ++ fp) # pow10 (length fp) end).
    { unfold udec_value. rewrite E, (split_dot_zeros zs (c :: r') Hz).
      destruct (split_dot (c :: r')) as [ip [fp|]]; cbn [fst snd].
      - rewrite <- app_assoc, (dval_zeros_l zs _ Hz). reflexivity.
      - rewrite (dval_zeros_l zs _ Hz). reflexivity. }
    destruct (split_dot (c :: r')) as [ip ofp] eqn:Es.
    pose proof (split_dot_inv _ _ _ Es) as Einv.
    set (ds := fst (match ofp with Some fp => (ip ++ fp, length fp) | None => (ip, 0%nat) end)) in *.
    set (fract := snd (match ofp with Some fp => (ip ++ fp, length fp) | None => (ip, 0%nat) end)) in *.
    assert (Hpair : match ofp with Some fp => (ip ++ fp, length fp) | None => (ip, 0%nat) end = (ds, fract)).
    { unfold ds, fract. destruct ofp; reflexivity. }
    rewrite Hpair in H.
    assert (Hds : all_digits ds = true).
    { unfold ds. destruct ofp; cbn [fst]; [rewrite all_digits_app|]; exact Sh. }
    assert (Hfl : (fract <= length ds)%nat).
    { unfold ds, fract. destruct ofp; cbn [fst snd]; [rewrite app_length|]; lia. }
    assert (Hip : ds <> [] -> (fract < length ds)%nat -> first_is ds ch_0 = false).
    { unfold ds, fract. destruct ofp as [fp|]; cbn [fst snd]; intros Hne Hlt.
      - rewrite app_length in Hlt. destruct ip as [|i0 ip]; [cbn [length] in Hlt; lia|].
        cbn [app] in Einv. inversion Einv; subst i0. exact Hc.
      - rewrite app_nil_r in Einv. subst ip. exact Hc. }
    assert (Hvz : exists i n, udec_value r = (i # pow10 n) /\ i = dval ds /\ n = fract).
    { rewrite Hv. unfold ds, fract. destruct ofp as [fp|]; cbn [fst snd];
      [exists (dval (ip ++ fp)), (length fp)|exists (dval ip), 0%nat]; repeat split. }
    clearbody ds fract. clear Hpair Hv.
    destruct (fix10 && nilb ds && (length (c :: r') =? length r)%nat); [discriminate|].
    destruct (strip_tz (rev ds) fract) as [rds f'] eqn:St.
    destruct (strip_tz_spec fract (rev ds) rds f' St ltac:(rewrite rev_length; exact Hfl)) as [k [K1 [K2 [K3 K4]]]].
    assert (Eds : ds = rev rds ++ repeat ch_0 k).
    { rewrite <- (rev_involutive ds), K1, rev_app_distr. f_equal.
      clear. induction k; [reflexivity|]. cbn [repeat rev]. rewrite IHk. clear. induction k; [reflexivity|]. cbn [repeat app]. f_equal. exact IHk. }
    inversion H; subst d. clear H.
    assert (Hd' : all_digits (rev rds) = true).
    { rewrite Eds, all_digits_app in Hds. apply andb_prop in Hds. apply Hds. }
    split.
    + constructor; cbn [d_sign d_digits d_total d_scale].
      * exact Hd'.
      * reflexivity.
      * rewrite rev_length. exact K3.
      * destruct (rev rds) eqn:Er; cbn [length Nat.eqb]; [left; auto|right; split; [discriminate|exact Hs]].
      * intros Lt. rewrite rev_length in Lt.
        assert (Hne : rev rds <> []) by (intros X; apply (f_equal (@length N)) in X; rewrite rev_length in X; cbn in X; lia).
        rewrite <- (first_is_app (rev rds) (repeat ch_0 k) ch_0 Hne), <- Eds.
        apply Hip.
        -- rewrite Eds. intros X. apply app_eq_nil in X. destruct X; contradiction.
        -- rewrite Eds, app_length, rev_length, repeat_length. lia.
      * intros Lt. rewrite last_is_rev. apply K4. exact Lt.
    + destruct Hvz as [i [n [V1 [V2 V3]]]]. exists i, n. split; [exact V1|].
      cbn [d_sign d_digits d_scale]. subst i n. rewrite Eds, dval_zeros_r, K2, P10_add.
      destruct (length (rev rds) =? 0)%nat eqn:L0.
      * apply Nat.eqb_eq in L0. destruct (rev rds); [|discriminate]. rewrite dval_nil. ring.
      * ring.
Qed.

Lemma body_norm_value : forall fix10 b d, dec_parse_body fix10 b = Ok d ->
  dec_norm d /\ dec_denote d == dec_value b.
Proof.
  intros fix10 b d H. unfold dec_parse_body in H. unfold dec_value, strip_sign.
  destruct b as [|c r]; [discriminate|].
  destruct (c =? ch_minus)%N; [|destruct (c =? ch_plus)%N].
  - destruct r as [|x r]; [discriminate|].
    destruct (unsigned_norm_value fix10 (-1) (x :: r) d ltac:(auto) ltac:(discriminate) H) as [Nd [i [n [V E]]]].
    split; [exact Nd|]. rewrite V. unfold dec_denote, Qeq. cbn [Qnum Qden Qopp].
    fold (P10 n) (P10 (d_scale d)). lia.
  - destruct r as [|x r]; [discriminate|].
    destruct (unsigned_norm_value fix10 1 (x :: r) d ltac:(auto) ltac:(discriminate) H) as [Nd [i [n [V E]]]].
    split; [exact Nd|]. rewrite V. unfold dec_denote, Qeq. cbn [Qnum Qden].
    fold (P10 n) (P10 (d_scale d)). lia.
  - destruct (unsigned_norm_value fix10 1 (c :: r) d ltac:(auto) ltac:(discriminate) H) as [Nd [i [n [V E]]]].
    split; [exact Nd|]. rewrite V. unfold dec_denote, Qeq. cbn [Qnum Qden].
    fold (P10 n) (P10 (d_scale d)). lia.
Qed.

(** XMLBigDecimal(strValue): the fields are normalised and denote the value of the (whitespace-trimmed) literal *)
Lemma parse_norm_value : forall fix10 s d, dec_parse fix10 s = Ok d ->
  dec_norm d /\ dec_denote d == dec_value (trim_ws s).
Proof.
  intros fix10 s d H. unfold dec_parse, dec_parse_raw in H.
  destruct s as [|c s]; [discriminate|]. destruct (drop_ws (c :: s)); [discriminate|].
  exact (body_norm_value fix10 _ d H).
Qed.

(** T09_decimal_order *)
Lemma dec_compare_is_order : forall fix10 s1 s2 a b, dec_parse fix10 s1 = Ok a -> dec_parse fix10 s2 = Ok b ->
  dec_cmp a b = dec_order (trim_ws s1) (trim_ws s2).
Proof.
  intros fix10 s1 s2 a b Ha Hb.
  destruct (parse_norm_value fix10 s1 a Ha) as [Na Va]. destruct (parse_norm_value fix10 s2 b Hb) as [Nb Vb].
  rewrite (dec_cmp_correct a b Na Nb). unfold dec_order. rewrite Va, Vb. reflexivity.
Qed.

(** consequences: equal values compare equal whatever the lexical form; antisymmetry; transitivity; totality *)
Lemma dec_compare_equal_values : forall fix10 s1 s2 a b, dec_parse fix10 s1 = Ok a -> dec_parse fix10 s2 = Ok b ->
  (dec_cmp a b = 0 <-> dec_value (trim_ws s1) == dec_value (trim_ws s2)).
Proof.
  intros. rewrite (dec_compare_is_order fix10 s1 s2 a b) by assumption. unfold dec_order.
  rewrite Qeq_alt. destruct (dec_value (trim_ws s1) ?= dec_value (trim_ws s2))%Q; cbn; split; intros; try reflexivity; discriminate.
Qed.

Lemma dec_compare_antisym : forall a b, dec_norm a -> dec_norm b -> dec_cmp a b = - dec_cmp b a.
Proof.
  intros a b Na Nb. rewrite !dec_cmp_correct by assumption. rewrite <- (Qcompare_antisym (dec_denote b) (dec_denote a)).
  destruct (dec_denote b ?= dec_denote a)%Q; reflexivity.
Qed.

Lemma dec_compare_total : forall a b, dec_norm a -> dec_norm b -> dec_cmp a b = -1 \/ dec_cmp a b = 0 \/ dec_cmp a b = 1.
Proof. intros a b Na Nb. rewrite dec_cmp_correct by assumption. destruct (dec_denote a ?= dec_denote b)%Q; cbn; auto. Qed.

Lemma dec_compare_trans : forall a b c, dec_norm a -> dec_norm b -> dec_norm c ->
  dec_cmp a b <= 0 -> dec_cmp b c <= 0 -> dec_cmp a c <= 0 /\ (dec_cmp a b = -1 \/ dec_cmp b c = -1 -> dec_cmp a c = -1).
Proof.
  intros a b c Na Nb Nc. rewrite !dec_cmp_correct by assumption.
  destruct (dec_denote a ?= dec_denote b)%Q eqn:E1; destruct (dec_denote b ?= dec_denote c)%Q eqn:E2; cbn; intros H1 H2; try lia;
    rewrite <- ?Qeq_alt, <- ?Qlt_alt in *.
  - assert (E : dec_denote a == dec_denote c) by (rewrite E1; exact E2). rewrite Qeq_alt in E. rewrite E. cbn. split; [lia|intros [X|X]; discriminate].
  - assert (E : (dec_denote a < dec_denote c)%Q) by (rewrite E1; exact E2). rewrite Qlt_alt in E. rewrite E. cbn. split; [lia|auto].
  - assert (E : (dec_denote a < dec_denote c)%Q) by (rewrite <- E2; exact E1). rewrite Qlt_alt in E. rewrite E. cbn. split; [lia|auto].
  - assert (E : (dec_denote a < dec_denote c)%Q) by (eapply Qlt_trans; eauto). rewrite Qlt_alt in E. rewrite E. cbn. split; [lia|auto].
Qed.
