(** Specification side of C09 (binary types and boolean): XML Schema Part 2 (second edition, errata E2-9/E2-54),
    sections 3.2.15 hexBinary, 3.2.16 base64Binary, 3.2.2 boolean.  Nothing here mentions the C++ code. *)
From XV Require Export C09.Spec09.
Local Open Scope N_scope.

(** * hexBinary: ([0-9a-fA-F]{2})*, value = octets, canonical = upper case (no lower-case hex digit) *)
Definition hex_digit (c : N) : option N :=
  if (0x30 <=? c) && (c <=? 0x39) then Some (c - 0x30)
  else if (0x41 <=? c) && (c <=? 0x46) then Some (c - 0x41 + 10)
  else if (0x61 <=? c) && (c <=? 0x66) then Some (c - 0x61 + 10)
  else None.

Fixpoint hex_value (l : list N) : option (list N) :=
  match l with
  | [] => Some []
  | a :: b :: r =>
      match hex_digit a, hex_digit b, hex_value r with
      | Some x, Some y, Some v => Some (16 * x + y :: v)
      | _, _, _ => None
      end
  | _ => None
  end.
Definition hex_lex (l : list N) : bool := match hex_value l with Some _ => true | None => false end.
Definition hex_is_canonical (l : list N) : bool :=
  hex_lex l && forallb (fun c => negb ((0x61 <=? c) && (c <=? 0x66))) l.

(** * base64Binary *)
Definition b64_val (c : N) : option N :=
  if (0x41 <=? c) && (c <=? 0x5A) then Some (c - 0x41)
  else if (0x61 <=? c) && (c <=? 0x7A) then Some (c - 0x61 + 26)
  else if (0x30 <=? c) && (c <=? 0x39) then Some (c - 0x30 + 52)
  else if c =? 0x2B then Some 62
  else if c =? 0x2F then Some 63
  else None.
Definition ch_eq : N := 0x3D.

(** the characters of the literal with the optional single #x20 after each (but the last) removed;
    None when a space is leading, trailing or doubled (B64S ::= B64 #x20?) *)
Fixpoint despace (prev_space : bool) (l : list N) : option (list N) :=
  match l with
  | [] => if prev_space then None else Some []
  | c :: r => if c =? ch_space then (if prev_space then None else despace true r)
              else match despace false r with Some q => Some (c :: q) | None => None end
  end.

(** (B64 B64 B64 B64)* ( B64 B64 B64 B64 | B64 B64 B16 '=' | B64 B04 '=' '=' )   with the octets denoted *)
Fixpoint b64_quads (l : list N) : option (list N) :=
  match l with
  | [] => Some []
  | a :: b :: c :: d :: r =>
      match b64_val a, b64_val b with
      | Some x, Some y =>
          match r with
          | [] =>   (* final quartet *)
              if (c =? ch_eq) && (d =? ch_eq) then (if y mod 16 =? 0 then Some [4 * x + y / 16] else None)     (* B04 *)
              else if d =? ch_eq then
                match b64_val c with
                | Some z => if z mod 4 =? 0 then Some [4 * x + y / 16; 16 * (y mod 16) + z / 4] else None        (* B16 *)
                | None => None end
              else match b64_val c, b64_val d with
                   | Some z, Some w => Some [4 * x + y / 16; 16 * (y mod 16) + z / 4; 64 * (z mod 4) + w]
                   | _, _ => None end
          | _ => match b64_val c, b64_val d, b64_quads r with
                 | Some z, Some w, Some v => Some (4 * x + y / 16 :: 16 * (y mod 16) + z / 4 :: 64 * (z mod 4) + w :: v)
                 | _, _, _ => None end
          end
      | _, _ => None
      end
  | _ => None
  end.

(** value of a (whitespace-collapsed) literal; the empty literal denotes the empty octet sequence *)
Definition b64_value (l : list N) : option (list N) :=
  match l with
  | [] => Some []
  | c :: _ => if c =? ch_space then None else match despace false l with Some q => b64_quads q | None => None end
  end.
Definition b64_lex (l : list N) : bool := match b64_value l with Some _ => true | None => false end.
Definition b64_is_canonical (l : list N) : bool := b64_lex l && forallb (fun c => negb (c =? ch_space)) l.

(** * boolean: {true, false, 1, 0} *)
Definition s_true : list N := [0x74; 0x72; 0x75; 0x65].
Definition s_false : list N := [0x66; 0x61; 0x6C; 0x73; 0x65].
Fixpoint list_eqb (a b : list N) : bool :=
  match a, b with [], [] => true | x :: a', y :: b' => (x =? y) && list_eqb a' b' | _, _ => false end.
Definition bool_value (l : list N) : option bool :=
  if list_eqb l s_true || list_eqb l [0x31] then Some true
  else if list_eqb l s_false || list_eqb l [0x30] then Some false else None.
Definition bool_lex (l : list N) : bool := match bool_value l with Some _ => true | None => false end.

(** length-family facets of a binary type: counted in octets of the value *)
Definition opt_list_eqb (a b : option (list N)) : bool :=
  match a, b with Some x, Some y => list_eqb x y | _, _ => false end.
Record bfacets : Type := mkBF { b_len : option nat; b_min : option nat; b_max : option nat; b_enum : option (list (option (list N))) }.
Definition bfacets_ok (f : bfacets) (v : list N) : bool :=
  opt_ok (b_len f) (fun n => (length v =? n)%nat) && opt_ok (b_min f) (fun n => (n <=? length v)%nat) &&
  opt_ok (b_max f) (fun n => (length v <=? n)%nat) && opt_ok (b_enum f) (existsb (fun e => opt_list_eqb (Some v) e)).
Definition bin_valid (value : list N -> option (list N)) (chain : list bfacets) (s : list N) : bool :=
  match value (ws_collapse s) with
  | Some v => forallb (fun f => bfacets_ok f v) chain
  | None => false
  end.
