(** Executable model of XMLAbstractDoubleFloat::getCanonicalRepresentation (src/xercesc/util/XMLAbstractDoubleFloat.cpp),
    the mantissa/exponent normaliser behind the canonical form of xs:float / xs:double, following the C++ line by line:
    special tokens, findAny(rawData, "eE"), XMLBigDecimal::parseDecimal on the mantissa (Model09.dec_parse_raw),
    XMLString::parseInt on the exponent, the 0.0E0 case, manBuf[0] '.' rest, the trailing-zero loop for fractDigits == 0,
    expValue += (totalDigits - 1) - fractDigits, binToText.
    [fix40 = false]: the code as it was (finding F40: parseDecimal strips the zeros in FRONT of the decimal point only,
    so for 0.001 manBuf = "001" and the "single non-zero digit" is manBuf[0] = '0': 0.001 -> 0.01E-1);
    [fix40 = true]: fixes/C09-double-canonical-leading-zeros.patch (skip the leading zeros of manBuf, one less digit
    each).  Exponents are mathematical integers (the C int wraps beyond 9 digits: outside the claim).  No proofs here. *)
From XV Require Export C09.Spec09k C09.Model09f C09.Model09e.
Local Open Scope N_scope.

(** while( *(endPtr - 1) == chDigit_0) endPtr--; *)
Definition strip_trail0 (l : list N) : list N := rev (drop_zeros (rev l)).

(** the digits of the canonical mantissa (before the "0" filler) and the adjusted exponent *)
Definition fcanon_parts (fix40 : bool) (d : dec) (e : Z) : list N * Z :=
  let ds := if fix40 then drop_zeros (d_digits d) else d_digits d in
  let total := if fix40 then length ds else d_total d in
  let ds' := if (d_scale d =? 0)%nat then strip_trail0 ds else ds in
  (ds', (e + (Z.of_nat total - 1) - Z.of_nat (d_scale d))%Z).

(** XMLString::binToText(int, ..., 10) *)
Definition show_int (x : Z) : list N := (if (x <? 0)%Z then [ch_minus] else []) ++ z_digits 20 (Z.abs x) [].

Definition fcanon_text (sign : Z) (ds' : list N) (x : Z) : list N :=
  (if (sign =? -1)%Z then [ch_minus] else []) ++
  match ds' with
  | [] => [ch_0; ch_dot; ch_0]                       (* not reachable: a non-zero value has a non-zero digit *)
  | c :: remain => c :: ch_dot :: (match remain with [] => [ch_0] | _ => remain end)
  end ++ ch_E :: show_int x.

Definition fcanon_of (fix40 : bool) (d : dec) (e : Z) : list N :=
  if (d_sign d =? 0)%Z || (d_total d =? 0)%nat then s_zero_canon
  else let (ds', x) := fcanon_parts fix40 d e in fcanon_text (d_sign d) ds' x.

(** XMLString::parseInt: trim, then strtol must consume everything *)
Definition parse_int (l : list N) : option Z :=
  let t := trim_ws l in if integer_lex t then Some (integer_value t) else None.

(** getCanonicalRepresentation(rawData): None = returns 0 (NumberFormatException) *)
Definition float_canon (fix10 fix40 : bool) (s : list N) : option (list N) :=
  if leqb s s_NINF || leqb s s_INF || leqb s s_NaN then Some s else
  match split_exp s with
  | (m, None) => match dec_parse_raw fix10 m with Ok d => Some (fcanon_of fix40 d 0) | Err _ => None end
  | (m, Some ex) =>
      match dec_parse_raw fix10 m with
      | Ok d => match parse_int ex with Some e => Some (fcanon_of fix40 d e) | None => None end
      | Err _ => None
      end
  end.

(** AbstractNumericValidator::getCanonicalRepresentation(toValidate = true): checkContent, then the above on the raw data *)
Definition dv_float_canon (fix10 fix33 fix40 : bool) (s : list N) : option (list N) :=
  if float_init_f fix33 s then float_canon fix10 fix40 s else None.
(** XSValue::getCanonicalRepresentation for dt_float / dt_double (values that strtod neither overflows nor underflows):
    validation, the special values from the converted kind, else the above *)
Definition xsv_float_canon (fix10 fix33 fix40 : bool) (s : list N) : option (list N) :=
  if negb (xsv_float_validate_f fix33 s) then None else
  let t := trim_ws s in
  if leqb t s_NINF || leqb t s_INF || leqb t s_NaN then Some t else float_canon fix10 fix40 s.
