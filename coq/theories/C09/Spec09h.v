(** Specification side of C09 (xs:duration): XML Schema Part 2 section 3.2.6.
    Lexical space: '-'? 'P' (n 'Y')? (n 'M')? (n 'D')? ('T' (n 'H')? (n 'M')? (n ('.' n)? 'S')?)?  with n = digit+,
    at least one component, and at least one time component when 'T' is present.
    Value: a number of months and a (rational) number of seconds, both carrying the sign.
    Order (3.2.6.2): x < y iff s + x < s + y for each of the four reference dateTimes 1696-09-01T00:00:00Z,
    1697-02-01T00:00:00Z, 1903-03-01T00:00:00Z, 1903-07-01T00:00:00Z; when the four comparisons do not agree the
    two durations are incomparable.  Nothing here mentions the C++ code. *)
From Coq Require Export ZArith QArith.
From XV Require Export C09.Spec09e.
Local Open Scope N_scope.

(** an optional component  n <designator> : Some (value digits, rest) when present *)
Definition dur_comp (d : N) (l : list N) : option (list N) * list N :=
  let (ds, r) := span_digits l in
  match r with
  | c :: r' => if (c =? d) && negb (nilb ds) then (Some ds, r') else (None, l)
  | [] => (None, l)
  end.
(** the seconds component  n ('.' n)? 'S' *)
Definition dur_sec (l : list N) : option (list N * list N) * list N :=
  let (ds, r) := span_digits l in
  if nilb ds then (None, l) else
  match r with
  | c :: r' =>
      if c =? 0x53 then (Some (ds, []), r')
      else if c =? ch_dot then
        let (fs, r2) := span_digits r' in
        match r2 with
        | c2 :: r3 => if (c2 =? 0x53) && negb (nilb fs) then (Some (ds, fs), r3) else (None, l)
        | [] => (None, l)
        end
      else (None, l)
  | [] => (None, l)
  end.

Record dur_value : Type := mkDV { v_months : Z; v_seconds : Q }.
Definition ov (o : option (list N)) : Z := match o with Some ds => dval ds | None => 0%Z end.
Definition isS {A} (o : option A) : bool := match o with Some _ => true | None => false end.

(** lexical space and value at once *)
Definition dur_read (l : list N) : option dur_value :=
  let (neg, l0) := match l with c :: r => if c =? ch_minus then (true, r) else (false, l) | [] => (false, []) end in
  match l0 with
  | c :: l1 =>
    if negb (c =? 0x50) then None else
    let (y, l2) := dur_comp 0x59 l1 in let (mo, l3) := dur_comp 0x4D l2 in let (d, l4) := dur_comp 0x44 l3 in
    let finish (h mi : option (list N)) (s : option (list N * list N)) :=
      let months := (12 * ov y + ov mo)%Z in
      let whole := (((ov d * 24 + ov h) * 60 + ov mi) * 60 + match s with Some (ds, _) => dval ds | None => 0 end)%Z in
      let frac : Q := match s with Some (_, fs) => dval fs # pow10 (length fs) | None => 0%Q end in
      let secs := ((whole # 1) + frac)%Q in
      Some (if neg then mkDV (- months) (- secs) else mkDV months secs) in
    match l4 with
    | [] => if isS y || isS mo || isS d then finish None None None else None
    | t :: l5 =>
        if negb (t =? 0x54) then None else
        let (h, l6) := dur_comp 0x48 l5 in let (mi, l7) := dur_comp 0x4D l6 in let (s, l8) := dur_sec l7 in
        if nilb l8 && (isS h || isS mi || isS s) then finish h mi s else None
    end
  | [] => None
  end.
Definition dur_lex (l : list N) : bool := isS (dur_read l).

(** adding a duration to a reference dateTime (first of a month, midnight, UTC): the months move the (year, month),
    the seconds move along the timeline *)
Definition ref_dates : list (Z * Z) := [(1696, 9); (1697, 2); (1903, 3); (1903, 7)]%Z.
Definition add_to_ref (r : Z * Z) (v : dur_value) : Q :=
  let total := (fst r * 12 + (snd r - 1) + v_months v)%Z in
  let y := (total / 12)%Z in let m := (total mod 12 + 1)%Z in
  (((days_before_year y + days_before_month y m) * 86400)%Z # 1) + v_seconds v.
(** -1, 0, 1, or 2 = incomparable *)
Definition dur_order_v (a b : dur_value) : Z :=
  let rs := map (fun r => q_cmp (add_to_ref r a) (add_to_ref r b)) ref_dates in
  match rs with
  | r0 :: rest => if forallb (fun r => (r =? r0)%Z) rest then r0 else 2%Z
  | [] => 2%Z
  end.
Definition dur_order (a b : list N) : Z :=
  match dur_read a, dur_read b with Some x, Some y => dur_order_v x y | _, _ => 2%Z end.
