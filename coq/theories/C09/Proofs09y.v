(** C09 lemmas, part y: XMLAbstractDoubleFloat::getCanonicalRepresentation (Model09k) against the canonical form of
    xs:float / xs:double (Spec09k).  Finding F40 refuted on the faithful model; the repaired normaliser always starts the
    mantissa with a non-zero digit (for every normalised decimal, i.e. every mantissa parseDecimal accepts). *)
From Coq Require Import ZArith QArith Lia List.
From XV Require Import C09.Spec09 C09.Model09 C09.Proofs09a C09.Proofs09b C09.Proofs09c C09.Proofs09d C09.Proofs09e
                       C09.Spec09k C09.Model09k.
Import ListNotations.
Local Open Scope N_scope.

Definition lit_0_001 : list N := [0x30; 0x2E; 0x30; 0x30; 0x31].                   (* 0.001 *)
Definition lit_0_01Em1 : list N := [0x30; 0x2E; 0x30; 0x31; 0x45; 0x2D; 0x31].       (* 0.01E-1 *)
Definition lit_0_1Em2 : list N := [0x30; 0x2E; 0x31; 0x45; 0x2D; 0x32].              (* 0.1E-2 *)
Definition lit_1_0Em3 : list N := [0x31; 0x2E; 0x30; 0x45; 0x2D; 0x33].              (* 1.0E-3 *)

(** F40: the code as it was maps 0.001 to 0.01E-1: in the lexical space and of the same value, but not canonical
    (the digit in front of the point is 0), and not a fixed point (0.01E-1 |-> 0.1E-2) *)
Lemma float_canon_f40_refuted :
  exists l c c', float_lex l = true /\ float_canon true false l = Some c /\ float_is_canonical c = false /\
                 float_canon true false c = Some c' /\ c' <> c.
Proof.
  exists lit_0_001, lit_0_01Em1, lit_0_1Em2.
  repeat split; try (vm_compute; reflexivity). discriminate.
Qed.

(** the repaired code on the same witness: canonical, same value, fixed point *)
Lemma float_canon_f40_fixed_witness :
  float_canon true true lit_0_001 = Some lit_1_0Em3 /\ float_canon_of lit_0_001 lit_1_0Em3 = true /\
  float_canon true true lit_0_01Em1 = Some lit_1_0Em3 /\ float_canon true true lit_1_0Em3 = Some lit_1_0Em3.
Proof. repeat split; vm_compute; reflexivity. Qed.

(** ** the mantissa of the repaired normaliser starts with a non-zero digit *)
Lemma drop_zeros_snoc_nz : forall l c, (c =? ch_0) = false -> exists p, drop_zeros (l ++ [c]) = p ++ [c].
Proof.
  induction l as [|x l IH]; intros c Hc.
  - exists []. cbn [app drop_zeros]. rewrite Hc. reflexivity.
  - cbn [app drop_zeros]. destruct (x =? ch_0).
    + exact (IH c Hc).
    + exists (x :: l). reflexivity.
Qed.

Lemma strip_trail0_head : forall c r, (c =? ch_0) = false -> exists r', strip_trail0 (c :: r) = c :: r'.
Proof.
  intros c r Hc. unfold strip_trail0. cbn [rev].
  destruct (drop_zeros_snoc_nz (rev r) c Hc) as [p E]. rewrite E, rev_app_distr. cbn [rev app]. eauto.
Qed.

Lemma drop_zeros_nonnil : forall l, (0 < dval l)%Z -> drop_zeros l <> [].
Proof.
  intros l H E. destruct (drop_zeros_split l) as [zs [E1 [Hz _]]]. rewrite E, app_nil_r in E1. subst zs.
  rewrite (dval_zeros l Hz) in H. lia.
Qed.

Lemma drop_zeros_digits : forall l, all_digits l = true -> all_digits (drop_zeros l) = true.
Proof.
  induction l as [|x l IH]; intros H; [reflexivity|]. cbn [drop_zeros]. destruct (x =? ch_0); [|exact H].
  rewrite all_digits_cons in H. apply andb_prop in H. apply IH, H.
Qed.

(** for every normalised decimal with a non-zero value (= every mantissa parseDecimal accepts with sign <> 0) and every
    exponent: the digit written in front of the point is a digit other than 0 *)
Lemma fcanon_lead_nonzero : forall d e, dec_norm d -> d_digits d <> [] ->
  exists c r, fst (fcanon_parts true d e) = c :: r /\ is_digit c = true /\ (c =? ch_0) = false.
Proof.
  intros d e Nd Hn. pose proof (norm_pos d Nd Hn) as Hp. pose proof (n_digits d Nd) as Hd.
  unfold fcanon_parts. cbn [fst].
  pose proof (drop_zeros_nonnil _ Hp) as Hnn. pose proof (drop_zeros_digits _ Hd) as Hdd.
  destruct (drop_zeros (d_digits d)) as [|c r] eqn:E; [contradiction|].
  pose proof (drop_zeros_head _ _ _ E) as Hc.
  rewrite all_digits_cons in Hdd. apply andb_prop in Hdd. destruct Hdd as [Hdc _].
  destruct (d_scale d =? 0)%nat.
  - destruct (strip_trail0_head c r Hc) as [r' Er]. rewrite Er. eauto.
  - eauto.
Qed.

(** non-vacuity: 0.001 parses to a normalised non-zero decimal *)
Example fcanon_lead_nonvacuous :
  exists d, dec_parse_raw true lit_0_001 = Ok d /\ d_digits d <> [] /\ fst (fcanon_parts true d 0) = [0x31].
Proof. eexists. split; [vm_compute; reflexivity|]. split; [discriminate|vm_compute; reflexivity]. Qed.
