(** C09 lemmas, part s: XMLDateTime::validateDateTime (repaired: seconds <= 59) accepts exactly the field ranges of
    Part 2 section 3.2.7 -- the "fields in range" half of the dateTime lexical theorem; the character-level half
    (which strings yield which fields) is checked against the Spec recogniser on every run, not proved. *)
From Coq Require Import ZArith Lia ZifyBool.
From XV Require Import C09.Spec09 C09.Spec09c C09.Model09c.
Local Open Scope Z_scope.
Ltac Zify.zify_post_hook ::= Z.to_euclidean_division_equations.

(** maxDayInMonthFor (C remainder) = the days of the month of the Spec (mathematical modulo), for every year *)
Lemma max_day_all_years : forall y m, max_day y m = days_in_month y m.
Proof.
  intros y m. unfold max_day, days_in_month, leap_year.
  assert (E4 : (Z.rem y 4 =? 0) = (y mod 4 =? 0)) by lia.
  assert (E100 : (Z.rem y 100 =? 0) = (y mod 100 =? 0)) by lia.
  assert (E400 : (Z.rem y 400 =? 0) = (y mod 400 =? 0)) by lia.
  rewrite E4, E100, E400. reflexivity.
Qed.

(** the field constraints of 3.2.7.1 on parsed (non-negative) fields *)
Definition fields_valid (v : dtv) : Prop :=
  dt_year v <> 0 /\ 1 <= dt_month v <= 12 /\ 1 <= dt_day v <= days_in_month (dt_year v) (dt_month v) /\
  (dt_hour v <= 23 \/ (dt_hour v = 24 /\ dt_min v = 0 /\ dt_sec v = 0 /\ dt_ms_nz v = false)) /\
  dt_min v <= 59 /\ dt_sec v <= 59 /\
  (dt_tzh v < 14 /\ dt_tzm v <= 59 \/ dt_tzh v = 14 /\ dt_tzm v = 0).

Lemma validate_spec : forall v, 0 <= dt_day v -> 0 <= dt_hour v -> 0 <= dt_min v -> 0 <= dt_sec v ->
  0 <= dt_tzh v -> 0 <= dt_tzm v ->
  (dt_validate true v = true <-> fields_valid v).
Proof.
  intros v D H M S T1 T2. unfold dt_validate, fields_valid. rewrite max_day_all_years.
  set (dm := days_in_month (dt_year v) (dt_month v)). destruct (dt_ms_nz v); lia.
Qed.

(** finding F11 on the code as it was: second = 60 passes validateDateTime(fix11 = false) *)
Lemma validate_f11 : dt_validate false (mkDT 2000 1 1 0 0 60 false 0 0) = true /\ dt_validate true (mkDT 2000 1 1 0 0 60 false 0 0) = false.
Proof. split; reflexivity. Qed.

From XV Require Import C09.Spec09e C09.Model09e C09.Proofs09k.
(** every dateTime the (repaired) parser accepts has its fields in the ranges of the specification *)
Lemma parsed_fields_valid : forall b v, dt_parse true b = Some v -> fields_valid v.
Proof.
  intros b v H. pose proof (dt_parse_validates _ _ _ H) as V. pose proof (dt_parse_fields _ _ _ H) as [D [T1 T2]].
  unfold dt_validate in V. unfold fields_valid. rewrite <- max_day_all_years.
  set (dm := max_day (dt_year v) (dt_month v)) in *. destruct (dt_ms_nz v); lia.
Qed.
