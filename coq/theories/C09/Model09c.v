(** Executable model of xs:dateTime parsing and validation in xerces-c, following the C++ (index based, as the code):
    XMLDateTime::parseDateTime, getDate, getYearMonth, parseIntYear, parseInt, getTime, findUTCSign, parseMiliSecond,
    getTimeZone, validateDateTime, maxDayInMonthFor, isLeapYear            (src/xercesc/util/XMLDateTime.cpp)
    and the trimming done by XSValue::validateDateTimes.  normalize()/compare are not modelled (they cannot throw).
    [fix11]: defect switch of finding F11 (validateDateTime allows Second = 60); false = code as is. *)
From XV Require Export C09.Spec09c C09.Model09.
Local Open Scope N_scope.

Definition at_ (b : list N) (i : nat) : N := nth i b 0.      (* fBuffer[i]; index = length reads the terminator *)

(** parseInt: unsigned accumulation, converted to int; None = NumberFormatException *)
Fixpoint parse_uint (b : list N) (start : nat) (count : nat) (acc : Z) : option Z :=
  match count with
  | O => Some acc
  | S k => let c := at_ b start in
           if negb (is_digit c) then None
           else parse_uint b (S start) k ((acc * 10 + digit_val c) mod 4294967296)%Z
  end.
Definition to_int32 (v : Z) : Z := (if v <? 2147483648 then v else v - 4294967296)%Z.
Definition parse_int (b : list N) (start end_ : nat) : option Z :=
  match parse_uint b start (end_ - start) 0%Z with Some v => Some (to_int32 v) | None => None end.

(** indexOf(start, end, ch) *)
Fixpoint index_of (b : list N) (start : nat) (count : nat) (ch : N) : option nat :=
  match count with
  | O => None
  | S k => if at_ b start =? ch then Some start else index_of b (S start) k ch
  end.
(** findUTCSign: first index >= start holding 'Z', '+' or '-' *)
Fixpoint find_utc (b : list N) (start : nat) (count : nat) : option nat :=
  match count with
  | O => None
  | S k => let c := at_ b start in
           if (c =? 0x5A) || (c =? ch_plus) || (c =? ch_minus) then Some start else find_utc b (S start) k
  end.
(** parseMiliSecond: Some (value is non-zero) / None = NumberFormatException *)
Fixpoint parse_ms (b : list N) (start : nat) (count : nat) : option bool :=
  match count with
  | O => Some false
  | S k => let c := at_ b start in
           if negb (is_digit c) then None
           else match parse_ms b (S start) k with Some nz => Some (negb (c =? ch_0) || nz) | None => None end
  end.

Record dtv : Type := mkDT { dt_year : Z; dt_month : Z; dt_day : Z; dt_hour : Z; dt_min : Z; dt_sec : Z;
                            dt_ms_nz : bool; dt_tzh : Z; dt_tzm : Z }.

Definition max_day (y m : Z) : Z :=
  (if (m =? 4) || (m =? 6) || (m =? 9) || (m =? 11) then 30
   else if m =? 2 then (if (Z.rem y 4 =? 0) && (negb (Z.rem y 100 =? 0) || (Z.rem y 400 =? 0)) then 29 else 28)
   else 31)%Z.

(** validateDateTime *)
Definition dt_validate (fix11 : bool) (v : dtv) : bool :=
  (negb (dt_year v =? 0) &&
   negb ((dt_month v <? 1) || (12 <? dt_month v)) &&
   negb ((max_day (dt_year v) (dt_month v) <? dt_day v) || (dt_day v =? 0)) &&
   negb ((dt_hour v <? 0) || (24 <? dt_hour v) ||
         ((dt_hour v =? 24) && (negb (dt_min v =? 0) || negb (dt_sec v =? 0) || dt_ms_nz v))) &&
   negb ((dt_min v <? 0) || (59 <? dt_min v)) &&
   negb ((dt_sec v <? 0) || ((if fix11 then 59 else 60) <? dt_sec v)) &&
   negb ((14 <? Z.abs (dt_tzh v)) || ((Z.abs (dt_tzh v) =? 14) && negb (dt_tzm v =? 0))) &&
   negb (59 <? Z.abs (dt_tzm v)))%Z.

Definition bind {A B} (o : option A) (f : A -> option B) : option B := match o with Some a => f a | None => None end.

(** parseDateTime up to (excluding) normalize: None = an exception was thrown *)
Definition dt_parse (fix11 : bool) (b : list N) : option dtv :=
  match b with [] => None | c0 :: _ =>
  let fEnd := length b in
  if (fEnd <? 10)%nat then None else                               (* getDate: YMD_MIN_SIZE *)
  let neg := c0 =? ch_minus in
  let start := if neg then 1%nat else 0%nat in
  bind (index_of b start (fEnd - start) ch_minus) (fun ysep =>    (* getYearMonth *)
  let ylen := (ysep - start)%nat in
  if (ylen <? 4)%nat then None else
  if (4 <? ylen)%nat && (at_ b start =? ch_0) then None else
  bind (parse_int b (if neg then 1 else 0)%nat ysep) (fun yv =>
  let year := (if neg then -1 * yv else yv)%Z in
  let fs := S ysep in
  if (fEnd <? fs + 2)%nat then None else
  bind (parse_int b fs (ysep + 3)) (fun month =>
  let fs := (fs + 2)%nat in
  if negb (at_ b fs =? ch_minus) then None else
  let fs := S fs in
  bind (parse_int b fs (fs + 2)) (fun day =>
  let fs := (fs + 2)%nat in
  if negb (at_ b fs =? 0x54) then None else                         (* 'T' *)
  let fs := S fs in
  if (fEnd <? fs + 8)%nat then None else                            (* getTime *)
  if negb (at_ b (fs + 2) =? 0x3A) || negb (at_ b (fs + 5) =? 0x3A) then None else
  bind (parse_int b fs (fs + 2)) (fun hour =>
  bind (parse_int b (fs + 3) (fs + 5)) (fun minute =>
  bind (parse_int b (fs + 6) (fs + 8)) (fun sec =>
  let fs := (fs + 8)%nat in
  let finish (ms : bool) (tzh tzm : Z) :=
    let v := mkDT year month day hour minute sec ms tzh tzm in if dt_validate fix11 v then Some v else None in
  if (fEnd <=? fs)%nat then finish false 0%Z 0%Z else
  let sign := find_utc b fs (fEnd - fs) in
  let tz (ms : bool) :=
    match sign with
    | None => finish ms 0%Z 0%Z
    | Some sg =>
        if (sg =? 0)%nat then finish ms 0%Z 0%Z else               (* if (sign > 0) getTimeZone(sign) *)
        if at_ b sg =? 0x5A then (if negb (S sg =? fEnd)%nat then None else finish ms 0%Z 0%Z)
        else if negb (sg + 6 =? fEnd)%nat || negb (at_ b (sg + 3) =? 0x3A) then None
        else bind (parse_int b (S sg) (sg + 3)) (fun tzh => bind (parse_int b (sg + 4) fEnd) (fun tzm => finish ms tzh tzm))
    end in
  if at_ b fs =? ch_dot then
    let fs := S fs in
    if (fEnd <=? fs)%nat then None else
    match sign with
    | None => bind (parse_ms b fs (fEnd - fs)) tz
    | Some sg => bind (parse_ms b fs (sg - fs)) tz
    end
  else match sign with
       | None => None
       | Some sg => if (sg =? 0)%nat || negb (sg =? fs)%nat then None else tz false
       end))))))) end.

Definition dt_ok (fix11 : bool) (b : list N) : bool := match dt_parse fix11 b with Some _ => true | None => false end.
(** XSValue::validate for dt_dateTime: NoContent test, XMLString::trim, then parseDateTime *)
Definition xsv_datetime_validate (fix11 : bool) (s : list N) : bool :=
  if all_spaces s then false else dt_ok fix11 (trim_ws s).

(** the extra test of the repaired getTime (fixes/C09-datetime-empty-fraction.patch): a '.' right after the seconds that
    is immediately followed by the time-zone sign.  With the patch such a string throws DateTime_ms_noDigit where the
    code as it is goes on; everything else is unchanged, so the repaired parser is [dt_parse] guarded by this test *)
Definition f29_shape (b : list N) : bool :=
  let start := if at_ b 0 =? ch_minus then 1%nat else 0%nat in
  match index_of b start (length b - start) ch_minus with
  | None => false
  | Some ysep =>
      let fs := (ysep + 15)%nat in
      (at_ b fs =? ch_dot) && (S fs <? length b)%nat &&
      match find_utc b fs (length b - fs) with Some sg => (sg =? S fs)%nat | None => false end
  end.
