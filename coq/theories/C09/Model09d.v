(** Executable models, following the C++:
    - SchemaValidator::normalizeWhiteSpace (REPLACE and COLLAPSE branches, the members fTrailing /
      fSeenNonWhiteSpace that carry the state from one chunk of character data to the next)
                                                        (src/xercesc/validators/schema/SchemaValidator.cpp)
    - AbstractNumericFacetValidator::inheritFacet (the four bound facets) + AbstractNumericValidator::boundsCheck on
      an abstract ordered value space                   (src/xercesc/validators/datatype)
    No proofs here. *)
From XV Require Export C09.Spec09d C09.Model09.
Local Open Scope N_scope.

(** the COLLAPSE loop: state = (curState == InWhitespace, fSeenNonWhiteSpace); result = (appended chars, state) *)
Fixpoint nws_loop (inws seen : bool) (l : list N) : list N * (bool * bool) :=
  match l with
  | [] => ([], (inws, seen))
  | c :: r =>
      if negb inws then                                   (* InContent *)
        if is_ws c then nws_loop true seen r              (* curState = InWhitespace; continue *)
        else let (o, st) := nws_loop false true r in (c :: o, st)
      else                                                (* InWhitespace *)
        if is_ws c then nws_loop true seen r
        else let (o, st) := nws_loop false true r in
             ((if seen then [ch_space] else []) ++ c :: o, st)
  end.

Definition last_ws (l : list N) : bool := match rev l with c :: _ => is_ws c | [] => false end.

(** one call normalizeWhiteSpace(dV, value, toFill) with wsFacet == COLLAPSE; state = (fTrailing, fSeenNonWhiteSpace) *)
Definition nws_chunk (st : bool * bool) (chunk : list N) : list N * (bool * bool) :=
  match chunk with
  | [] => ([], st)                                        (* if (!*value) return; *)
  | _ =>
      let (o, st') := nws_loop (fst st) (snd st) chunk in
      (o, (last_ws chunk, snd st'))                        (* fTrailing = isWhitespace( *(srcPtr-1)) *)
  end.

(** the character data of one element arrives in several calls; the outputs are concatenated by the scanner *)
Fixpoint nws_chunks (st : bool * bool) (chunks : list (list N)) : list N :=
  match chunks with
  | [] => []
  | c :: r => let (o, st') := nws_chunk st c in o ++ nws_chunks st' r
  end.
Definition nws_collapse (chunks : list (list N)) : list N := nws_chunks (false, false) chunks.
(** REPLACE branch: no state *)
Definition nws_replace (chunks : list (list N)) : list N :=
  flat_map (map (fun c => if is_ws c then ch_space else c)) chunks.
Definition nws_run (m : wsmode) (chunks : list (list N)) : list N :=
  match m with WS_preserve => concat chunks | WS_replace => nws_replace chunks | WS_collapse => nws_collapse chunks end.

(** ** inheritFacet on the four bound facets + boundsCheck, over an abstract ordered value space *)
Section Bounds.
  Variable V : Type.
  Variable cmp : V -> V -> comparison.
  (** [this] = facets written on the derived step, [base] = merged facets of the base validator *)
  Definition inherit_bounds (this base : bounds V) : bounds V :=
    let hasmax := match maxI this, maxE this with None, None => false | _, _ => true end in
    let hasmin := match minI this, minE this with None, None => false | _, _ => true end in
    mkB (if hasmin then minI this else minI base) (if hasmin then minE this else minE base)
        (if hasmax then maxI this else maxI base) (if hasmax then maxE this else maxE base).
  Definition merged_bounds (chain : list (bounds V)) : bounds V :=
    fold_left (fun base this => inherit_bounds this base) chain (mkB None None None None).
  (** boundsCheck of the merged validator *)
  Definition bounds_accept (b : bounds V) (v : V) : bool := step_ok V cmp b v.
End Bounds.
