(** Executable model of XMLDateTime::normalize, compare / compareResult / compareOrder / getRetVal,
    DateTimeValidator::compare and getDateTimeCanonicalRepresentation (fillYearString, fillString, searchMiliSeconds),
    following the C++ (src/xercesc/util/XMLDateTime.cpp, validators/datatype/DateTimeValidator.cpp).  No proofs here. *)
From XV Require Export C09.Spec09e C09.Model09c.
Local Open Scope Z_scope.

(** fQuotient(temp, low, high), modulo(temp, low, high): C integer division truncates *)
Definition fquot (a b : Z) : Z := Z.quot a b.
Definition fquot3 (t lo hi : Z) : Z := Z.quot (t - lo) (hi - lo).
Definition modulo3 (t lo hi : Z) : Z := ((t - lo) - Z.quot (t - lo) (hi - lo) * (hi - lo)) + lo.

Record dtn : Type := mkN { n_y : Z; n_mo : Z; n_d : Z; n_h : Z; n_mi : Z; n_s : Z }.

(** the while(1) loop of normalize; [fuel] iterations at most *)
Fixpoint norm_days (fuel : nat) (y mo d : Z) : Z * Z * Z :=
  match fuel with
  | O => (y, mo, d)
  | S k =>
      let temp := max_day y mo in
      if d <? 1 then
        let d' := d + max_day y (mo - 1) in
        let t := mo + (-1) in
        let mo1 := modulo3 t 1 13 in
        let '(mo2, y1) := if mo1 <=? 0 then (mo1 + 12, y - 1) else (mo1, y) in
        norm_days k (y1 + fquot3 t 1 13) mo2 d'
      else if temp <? d then
        let d' := d - temp in
        let t := mo + 1 in
        let mo1 := modulo3 t 1 13 in
        let '(mo2, y1) := if mo1 <=? 0 then (mo1 + 12, y - 1) else (mo1, y) in
        norm_days k (y1 + fquot3 t 1 13) mo2 d'
      else (y, mo, d)
  end.

(** normalize() for a value whose utc is UTC_POS (negate = -1) or UTC_NEG (negate = 1) *)
Definition normalize (negate tzh tzm : Z) (v : dtn) : dtn :=
  let temp := n_mo v in
  let mo := modulo3 temp 1 13 in
  let carry := fquot3 temp 1 13 in
  let '(mo, carry) := if mo <=? 0 then (mo + 12, carry - 1) else (mo, carry) in
  let y := n_y v + carry in
  let temp := n_mi v + negate * tzm in
  let carry := fquot temp 60 in
  let mi := temp - carry * 60 in
  let '(mi, carry) := if mi <? 0 then (mi + 60, carry - 1) else (mi, carry) in
  let temp := n_h v + negate * tzh + carry in
  let carry := fquot temp 24 in
  let h := temp - carry * 24 in
  let '(h, carry) := if h <? 0 then (h + 24, carry - 1) else (h, carry) in
  let d := n_d v + carry in
  let '(y, mo, d) := norm_days 4 y mo d in
  mkN y mo d h mi (n_s v).

(** a parsed dateTime: normalised fields, zoned?, fraction digits of the buffer *)
Record dtp : Type := mkP { p_n : dtn; p_zoned : bool; p_frac : list N }.

(** utc type as findUTCSign sets it: 0 none, 1 'Z', 2 '+', 3 '-' *)
Definition utc_kind (b : list N) (fs : nat) : Z :=
  match find_utc b fs (length b - fs) with
  | None => 0
  | Some i => let c := at_ b i in if (c =? 0x5A)%N then 1 else if (c =? ch_plus)%N then 2 else 3
  end.
Definition frac_digits (b : list N) (fs : nat) : list N :=
  if (at_ b fs =? ch_dot)%N then fst (span_digits (skipn (S fs) b)) else [].

(** XMLDateTime(buffer) + parseDateTime(): parse, validate, normalize *)
Definition dt_parse_norm (fix11 : bool) (b : list N) : option dtp :=
  match dt_parse fix11 b with
  | None => None
  | Some v =>
      let start := if (at_ b 0 =? ch_minus)%N then 1%nat else 0%nat in
      match index_of b start (length b - start) ch_minus with
      | None => None
      | Some ysep =>
          let fs := (ysep + 15)%nat in                    (* index right after ss *)
          let k := utc_kind b fs in
          let n := mkN (dt_year v) (dt_month v) (dt_day v) (dt_hour v) (dt_min v) (dt_sec v) in
          let n' := if k =? 2 then normalize (-1) (dt_tzh v) (dt_tzm v) n
                    else if k =? 3 then normalize 1 (dt_tzh v) (dt_tzm v) n else n in
          Some (mkP n' (negb (k =? 0)) (frac_digits b fs))
      end
  end.

Definition LESS : Z := -1. Definition EQUAL : Z := 0. Definition GREATER : Z := 1. Definition INDET : Z := 2.

Fixpoint lex_cmp (a b : list Z) : Z :=
  match a, b with
  | x :: a', y :: b' => if x <? y then LESS else if y <? x then GREATER else lex_cmp a' b'
  | _, _ => EQUAL
  end.
(** fMilliSecond as the rational denoted by the fraction digits *)
Definition ms_q (fd : list N) : Q := dval fd # pow10 (length fd).
(** compareOrder *)
Definition compare_order (a : dtn) (fa : list N) (b : dtn) (fb : list N) : Z :=
  let r := lex_cmp [n_y a; n_mo a; n_d a; n_h a; n_mi a; n_s a] [n_y b; n_mo b; n_d b; n_h b; n_mi b; n_s b] in
  if negb (r =? EQUAL) then r
  else match Qcompare (ms_q fa) (ms_q fb) with Lt => LESS | Gt => GREATER | Eq => EQUAL end.
Definition get_ret_val (c1 c2 : Z) : Z :=
  if ((c1 =? LESS) && (c2 =? GREATER)) || ((c1 =? GREATER) && (c2 =? LESS)) then INDET
  else if negb (c1 =? INDET) then c1 else c2.
(** XMLDateTime::compare *)
Definition dt_compare (a b : dtp) : Z :=
  if Bool.eqb (p_zoned a) (p_zoned b) then compare_order (p_n a) (p_frac a) (p_n b) (p_frac b)
  else if p_zoned a then
    (* compareResult(pDate1, pDate2, false, utc_type): the unzoned right operand gets +-14:00 *)
    let c1 := compare_order (p_n a) (p_frac a) (normalize (-1) 14 0 (p_n b)) (p_frac b) in
    let c2 := compare_order (p_n a) (p_frac a) (normalize 1 14 0 (p_n b)) (p_frac b) in
    get_ret_val c1 c2
  else
    let c1 := compare_order (normalize (-1) 14 0 (p_n a)) (p_frac a) (p_n b) (p_frac b) in
    let c2 := compare_order (normalize 1 14 0 (p_n a)) (p_frac a) (p_n b) (p_frac b) in
    get_ret_val c1 c2.
(** DateTimeValidator::compare: exceptions and INDETERMINATE are reported as -1 *)
Definition dtv_compare (fix11 : bool) (s1 s2 : list N) : Z :=
  match dt_parse_norm fix11 s1, dt_parse_norm fix11 s2 with
  | Some a, Some b => let r := dt_compare a b in if r =? INDET then -1 else r
  | _, _ => -1
  end.

(** decimal digits of a non-negative number (binToText) *)
Fixpoint z_digits (fuel : nat) (z : Z) (acc : list N) : list N :=
  match fuel with
  | O => acc
  | S k => let acc' := (Z.to_N (z mod 10) + 48)%N :: acc in if z / 10 =? 0 then acc' else z_digits k (z / 10) acc'
  end.
Definition fill2 (v : Z) : list N := [(Z.to_N ((v / 10) mod 10) + 48)%N; (Z.to_N (v mod 10) + 48)%N].
Definition fill_year (y : Z) : list N :=
  let ds := z_digits 20 (Z.abs y) [] in
  (if y <? 0 then [ch_minus] else []) ++ repeat ch_0 (4 - length ds) ++ ds.
(** fillYearString as it is (finding F39): for a negative year the zero padding is computed from the length of the text
    INCLUDING the sign, `if (actualLen + negativeYear < 4) pad 4 - actualLen + negativeYear`, so only one-digit negative
    years are padded (and the caller's buffer is one unit short for them) *)
Definition fill_year_old (y : Z) : list N :=
  let ds := z_digits 20 (Z.abs y) [] in
  if y <? 0 then
    let actual := S (length ds) in
    [ch_minus] ++ (if (actual + 1 <? 4)%nat then repeat ch_0 (4 - actual + 1) else []) ++ ds
  else repeat ch_0 (4 - length ds) ++ ds.
Fixpoint strip_tz0 (rl : list N) : list N := match rl with c :: r => if (c =? ch_0)%N then strip_tz0 r else rl | [] => [] end.
(** getDateTimeCanonicalRepresentation *)
Definition dt_canon_with (fy : Z -> list N) (fix11 : bool) (s : list N) : option (list N) :=
  match dt_parse_norm fix11 s with
  | None => None
  | Some p =>
      let n := p_n p in
      let ms := rev (strip_tz0 (rev (p_frac p))) in
      Some (fy (n_y n) ++ [ch_minus] ++ fill2 (n_mo n) ++ [ch_minus] ++ fill2 (n_d n) ++ [0x54%N] ++
            (if n_h n =? 24 then [ch_0; ch_0] else fill2 (n_h n)) ++ [0x3A%N] ++ fill2 (n_mi n) ++ [0x3A%N] ++ fill2 (n_s n) ++
            (match ms with [] => [] | _ => ch_dot :: ms end) ++ (if p_zoned p then [0x5A%N] else []))
  end.
Definition dt_canon (fix11 : bool) (s : list N) : option (list N) := dt_canon_with fill_year fix11 s.
