(** Executable model of xs:duration in xerces-c, following the C++ (index based, as the code):
    XMLDateTime::parseDuration, addDuration, compare(pDate1, pDate2, strict), compareResult(resultA, resultB, strict),
    compareOrder and the normalize() it applies to copies of its operands   (src/xercesc/util/XMLDateTime.cpp);
    DateTimeValidator::compare / boundsCheck (INDETERMINATE fails every bound).  No proofs here. *)
From XV Require Export C09.Spec09h C09.Model09e.
Local Open Scope N_scope.

Record dur : Type := mkDur { u_neg : bool; u_y : Z; u_mo : Z; u_d : Z; u_h : Z; u_mi : Z; u_s : Z }.

(** one "find the designator, parse the number before it" step: (value, new fStart, seen) or None on a bad number *)
Definition dur_step_f (fix35 : bool) (b : list N) (fs endp : nat) (des : N) : option (Z * nat * bool) :=
  match index_of b fs (endp - fs) des with
  | Some e => if fix35 && (e <=? fs)%nat then None      (* repaired parseInt: an empty range is not a number *)
              else match parse_int b fs e with Some v => Some (v, S e, true) | None => None end
  | None => Some (0%Z, fs, false)
  end.

Definition dur_parse_f (fix35 : bool) (b : list N) : option dur :=
  let dur_step := dur_step_f fix35 in
  match b with [] => None | c :: _ =>
  let fEnd := length b in
  if negb (c =? 0x50) && negb (c =? ch_minus) then None else
  if (c =? ch_minus) && negb (at_ b 1 =? 0x50) then None else
  let neg := c =? ch_minus in
  let fs := if neg then 2%nat else 1%nat in
  let ng (v : Z) := (if neg then -1 * v else v)%Z in
  match index_of b fs (fEnd - fs) ch_minus with Some _ => None | None =>
  let endDate := match index_of b fs (fEnd - fs) 0x54 with Some t => t | None => fEnd end in
  bind (dur_step b fs endDate 0x59) (fun '(y, fs, d1) =>
  bind (dur_step b fs endDate 0x4D) (fun '(mo, fs, d2) =>
  bind (dur_step b fs endDate 0x44) (fun '(d, fs, d3) =>
  if (fEnd =? endDate)%nat && negb (fs =? fEnd)%nat then None else
  if negb (fEnd =? endDate)%nat then
    let fs := S fs in
    bind (dur_step b fs fEnd 0x48) (fun '(h, fs, d4) =>
    bind (dur_step b fs fEnd 0x4D) (fun '(mi, fs, d5) =>
    let sec : option (Z * nat * bool) :=
      match index_of b fs (fEnd - fs) 0x53 with
      | Some e =>
          match index_of b fs (e - fs) ch_dot with
          | Some ml => if (S ml =? e)%nat || (fix35 && (ml <=? fs)%nat) then None
                       else match parse_int b fs ml, parse_ms b (S ml) (e - S ml) with
                            | Some v, Some _ => Some (v, S e, true) | _, _ => None end
          | None => if fix35 && (e <=? fs)%nat then None
                    else match parse_int b fs e with Some v => Some (v, S e, true) | None => None end
          end
      | None => Some (0%Z, fs, false)
      end in
    bind sec (fun '(s, fs, d6) =>
    if negb (fs =? fEnd)%nat || (at_ b (fs - 1) =? 0x54) then None else
    if negb (d1 || d2 || d3 || d4 || d5 || d6) then None
    else Some (mkDur neg (ng y) (ng mo) (ng d) (ng h) (ng mi) (ng s)))))
  else if negb (d1 || d2 || d3) then None
       else Some (mkDur neg (ng y) (ng mo) (ng d) 0 0 0))))
  end end.
Definition dur_parse (b : list N) : option dur := dur_parse_f false b.
Definition dur_ok (b : list N) : bool := match dur_parse b with Some _ => true | None => false end.
Definition dur_ok_f (fix35 : bool) (b : list N) : bool := match dur_parse_f fix35 b with Some _ => true | None => false end.
Definition xsv_duration_validate (s : list N) : bool := if all_spaces s then false else dur_ok (trim_ws s).

Local Open Scope Z_scope.
(** the day/month roll-over loop with as much fuel as the day count can need *)
Definition roll (y mo d : Z) : Z * Z * Z := norm_days (Z.to_nat (Z.abs d / 28) + 4) y mo d.

(** normalize() as compareOrder applies it to a copy of a NEGATIVE duration (utc == UTC_NEG, zone fields 0) *)
Definition dur_normalize (u : dur) : dtn :=
  if negb (u_neg u) then mkN (u_y u) (u_mo u) (u_d u) (u_h u) (u_mi u) (u_s u) else
  let temp := u_mo u in
  let mo := modulo3 temp 1 13 in
  let carry := fquot3 temp 1 13 in
  let '(mo, carry) := if mo <=? 0 then (mo + 12, carry - 1) else (mo, carry) in
  let y := u_y u + carry in
  let temp := u_mi u in
  let carry := fquot temp 60 in
  let mi := temp - carry * 60 in
  let '(mi, carry) := if mi <? 0 then (mi + 60, carry - 1) else (mi, carry) in
  let temp := u_h u + carry in
  let carry := fquot temp 24 in
  let h := temp - carry * 24 in
  let '(h, carry) := if h <? 0 then (h + 24, carry - 1) else (h, carry) in
  let d := u_d u + carry in
  let '(y, mo, d) := roll y mo d in
  mkN y mo d h mi (u_s u).

(** addDuration(fNewDate, fDuration, index) *)
Definition add_duration (r : Z * Z) (u : dur) : dtn :=
  let temp := snd r + u_mo u in
  let mo := modulo3 temp 1 13 in
  let carry := fquot3 temp 1 13 in
  let '(mo, carry) := if mo <=? 0 then (mo + 12, carry - 1) else (mo, carry) in
  let y := fst r + u_y u + carry in
  let temp := 0 + u_s u in
  let carry := fquot temp 60 in
  let s := temp - carry * 60 in
  let '(s, carry) := if s <? 0 then (s + 60, carry - 1) else (s, carry) in
  let temp := 0 + u_mi u + carry in
  let carry := fquot temp 60 in
  let mi := temp - carry * 60 in
  let '(mi, carry) := if mi <? 0 then (mi + 60, carry - 1) else (mi, carry) in
  let temp := 0 + u_h u + carry in
  let carry := fquot temp 24 in
  let h := temp - carry * 24 in
  let '(h, carry) := if h <? 0 then (h + 24, carry - 1) else (h, carry) in
  let d := 1 + u_d u + carry in
  let '(y, mo, d) := roll y mo d in
  mkN y mo d h mi s.

Definition fields_cmp (a b : dtn) : Z :=
  lex_cmp [n_y a; n_mo a; n_d a; n_h a; n_mi a; n_s a] [n_y b; n_mo b; n_d b; n_h b; n_mi b; n_s b].

(** compareResult(resultA, resultB, strict) *)
Definition compare_result (ra rb : Z) (strict : bool) : Z :=
  if rb =? INDET then INDET
  else if negb (ra =? rb) && strict then INDET
  else if negb (ra =? rb) then (if negb (ra =? EQUAL) && negb (rb =? EQUAL) then INDET else if negb (ra =? EQUAL) then ra else rb)
  else ra.

(** XMLDateTime::compare(pDate1, pDate2, strict) *)
Definition dur_compare (a b : dur) (strict : bool) : Z :=
  if fields_cmp (dur_normalize a) (dur_normalize b) =? EQUAL then EQUAL else
  let c (i : nat) := let r := nth i ref_dates (0, 0) in fields_cmp (add_duration r a) (add_duration r b) in
  let ra := c 0%nat in
  if ra =? INDET then INDET else
  let ra := compare_result ra (c 1%nat) strict in
  if ra =? INDET then INDET else
  let ra := compare_result ra (c 2%nat) strict in
  if ra =? INDET then INDET else
  compare_result ra (c 3%nat) strict.

(** DateTimeValidator::compare *)
Definition durv_compare (s1 s2 : list N) : Z :=
  match dur_parse s1, dur_parse s2 with
  | Some a, Some b => let r := dur_compare a b true in if r =? INDET then -1 else r
  | _, _ => -1
  end.
(** DateTimeValidator::boundsCheck on one value against the four (optional) bounds: INDETERMINATE fails *)
Definition dur_bounds (maxE maxI minI minE : option dur) (v : dur) : bool :=
  match maxE with Some m => dur_compare v m true =? LESS | None => true end &&
  match maxI with Some m => let r := dur_compare v m true in negb ((r =? GREATER) || (r =? INDET)) | None => true end &&
  match minI with Some m => let r := dur_compare v m true in negb ((r =? LESS) || (r =? INDET)) | None => true end &&
  match minE with Some m => dur_compare v m true =? GREATER | None => true end.

(** ** with fixes/C09-duration-fraction-compare.patch: parseDuration sets fHasTime and addDuration carries fMilliSecond, so
    compareOrder compares the (signed) fraction when all fields are equal.  [fix36] = false: code as is *)
Definition dur_ms (b : list N) : Q :=
  let neg := (at_ b 0 =? ch_minus)%N in
  match index_of b 0 (length b) ch_dot with
  | None => 0%Q
  | Some i => let fd := fst (span_digits (skipn (S i) b)) in
              let q := dval fd # pow10 (length fd) in if neg then Qopp q else q
  end.
Definition fields_cmp_x (fix36 : bool) (a : dtn) (ma : Q) (b : dtn) (mb : Q) : Z :=
  let r := fields_cmp a b in
  if fix36 && (r =? EQUAL) then match Qcompare ma mb with Lt => LESS | Gt => GREATER | Eq => EQUAL end else r.
Definition dur_compare_x (fix36 : bool) (a : dur * Q) (b : dur * Q) (strict : bool) : Z :=
  if fields_cmp_x fix36 (dur_normalize (fst a)) (snd a) (dur_normalize (fst b)) (snd b) =? EQUAL then EQUAL else
  let c (i : nat) := let r := nth i ref_dates (0, 0) in
                     fields_cmp_x fix36 (add_duration r (fst a)) (snd a) (add_duration r (fst b)) (snd b) in
  let ra := c 0%nat in
  if ra =? INDET then INDET else
  let ra := compare_result ra (c 1%nat) strict in
  if ra =? INDET then INDET else
  let ra := compare_result ra (c 2%nat) strict in
  if ra =? INDET then INDET else
  compare_result ra (c 3%nat) strict.
Definition dur_parse_x (fix35 : bool) (s : list N) : option (dur * Q) :=
  match dur_parse_f fix35 s with Some d => Some (d, dur_ms s) | None => None end.
Definition durv_compare_x (fix35 fix36 : bool) (s1 s2 : list N) : Z :=
  match dur_parse_x fix35 s1, dur_parse_x fix35 s2 with
  | Some a, Some b => let r := dur_compare_x fix36 a b true in if r =? INDET then -1 else r
  | _, _ => -1
  end.
Definition dur_bounds_x (fix36 : bool) (maxE maxI minI minE : option (dur * Q)) (v : dur * Q) : bool :=
  match maxE with Some m => dur_compare_x fix36 v m true =? LESS | None => true end &&
  match maxI with Some m => let r := dur_compare_x fix36 v m true in negb ((r =? GREATER) || (r =? INDET)) | None => true end &&
  match minI with Some m => let r := dur_compare_x fix36 v m true in negb ((r =? LESS) || (r =? INDET)) | None => true end &&
  match minE with Some m => dur_compare_x fix36 v m true =? GREATER | None => true end.
