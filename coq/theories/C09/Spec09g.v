(** Specification side of C09 (xs:date): Part 2 section 3.2.9.1, lexical representation  '-'? yyyy '-' mm '-' dd zzzzzz?
    with the year, month, day and time-zone constraints of dateTime.  Nothing here mentions the C++ code. *)
From XV Require Export C09.Spec09c.
Local Open Scope N_scope.

Definition date_lex (l : list N) : bool :=
  let (neg, l1) := match l with c :: r => if c =? ch_minus then (true, r) else (false, l) | [] => (false, []) end in
  let (yd, l2) := span_digits l1 in
  let y := (if neg then - dval yd else dval yd)%Z in
  (4 <=? length yd)%nat && ((length yd =? 4)%nat || negb (first_is yd ch_0)) && negb (dval yd =? 0)%Z &&
  match field ch_minus l2 with
  | Some (mo, l3) =>
    match field ch_minus l3 with
    | Some (d, l4) => ((1 <=? mo) && (mo <=? 12) && (1 <=? d) && (d <=? days_in_month y mo))%Z && tz_lex l4
    | None => false end
  | None => false end.
