(** Executable model of xs:date parsing and validation, following the C++: XMLDateTime::parseDate = getDate,
    parseTimeZone, validateDateTime (src/xercesc/util/XMLDateTime.cpp); normalize cannot throw and is not needed for
    the verdict.  No proofs here. *)
From XV Require Export C09.Spec09g C09.Model09c.
Local Open Scope N_scope.

(** parseTimeZone + getTimeZone at index [fs]: the zone's hour and minute fields (0, 0 when there is no zone or 'Z') *)
Definition date_zone (b : list N) (fs : nat) : option (Z * Z) :=
  let fEnd := length b in
  if (fs <? fEnd)%nat then
    let c := at_ b fs in
    if negb ((c =? 0x5A) || (c =? ch_plus) || (c =? ch_minus)) then None
    else if c =? 0x5A then (if negb (S fs =? fEnd)%nat then None else Some (0%Z, 0%Z))
    else if negb (fs + 6 =? fEnd)%nat || negb (at_ b (fs + 3) =? 0x3A) then None
    else bind (parse_int b (fs + 1) (fs + 1 + 2)) (fun tzh => bind (parse_int b (fs + 4) fEnd) (fun tzm => Some (tzh, tzm)))
  else Some (0%Z, 0%Z).

(** getDate after the year, then parseTimeZone and validateDateTime; [ysep] = index of the '-' that ends the year.
    month = chars ysep+1, ysep+2; '-' at ysep+3; day = chars ysep+4, ysep+5; the zone starts at ysep+6 *)
Definition date_rest (fix11 : bool) (b : list N) (ysep : nat) (year : Z) : option dtv :=
  let fEnd := length b in
  if (fEnd <? ysep + 3)%nat then None else
  bind (parse_int b (ysep + 1) (ysep + 1 + 2)) (fun month =>
  if negb (at_ b (ysep + 3) =? ch_minus) then None else
  bind (parse_int b (ysep + 4) (ysep + 4 + 2)) (fun day =>
  bind (date_zone b (ysep + 6)) (fun tz =>
  let v := mkDT year month day 0 0 0 false (fst tz) (snd tz) in if dt_validate fix11 v then Some v else None))).

Definition date_parse (fix11 : bool) (b : list N) : option dtv :=
  match b with [] => None | c0 :: _ =>
  let fEnd := length b in
  if (fEnd <? 10)%nat then None else                               (* getDate: YMD_MIN_SIZE *)
  let neg := c0 =? ch_minus in
  let start := if neg then 1%nat else 0%nat in
  bind (index_of b start (fEnd - start) ch_minus) (fun ysep =>    (* getYearMonth *)
  let ylen := (ysep - start)%nat in
  if (ylen <? 4)%nat then None else
  if (4 <? ylen)%nat && (at_ b start =? ch_0) then None else
  bind (parse_int b start ysep) (fun yv =>
  date_rest fix11 b ysep (if neg then -1 * yv else yv)%Z)) end.

Definition date_ok (fix11 : bool) (b : list N) : bool := match date_parse fix11 b with Some _ => true | None => false end.
Definition xsv_date_validate (fix11 : bool) (s : list N) : bool := if all_spaces s then false else date_ok fix11 (trim_ws s).
