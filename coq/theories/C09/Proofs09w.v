(** C09 lemmas, part w: the enumeration facet of a list type (ListDatatypeValidator::checkContent / valueSpaceCheck)
    accepts exactly the lists that are, item by item and with the same length, equal to an enumeration member in the
    item type's value space; the union comparison against the Spec's union equality. *)
From Coq Require Import ZArith Lia.
From XV Require Import C09.Spec09 C09.Spec09b C09.Spec09d C09.Spec09f C09.Spec09i C09.Model09 C09.Model09b C09.Model09f C09.Model09i C09.Proofs09p.
Local Open Scope N_scope.

Section L.
  Variable item_cmp : list N -> list N -> Z.
  Variable item_eq : list N -> list N -> bool.
  Hypothesis cmp_eq : forall x y, (item_cmp x y =? 0)%Z = item_eq x y.

  Lemma value_space_check_spec : forall ts e, value_space_check item_cmp ts e = items_eq item_eq ts e.
  Proof.
    unfold value_space_check. induction ts as [|x ts IH]; intros [|y e]; cbn [length Nat.eqb negb pairwise0 items_eq]; try reflexivity.
    specialize (IH e). destruct (length ts =? length e)%nat eqn:L; cbn [negb] in *.
    - rewrite cmp_eq, IH. reflexivity.
    - rewrite <- IH. rewrite Bool.andb_false_r. reflexivity.
  Qed.

  Lemma items_eq_refl : forall ts, Forall (fun t => item_eq t t = true) ts -> items_eq item_eq ts ts = true.
  Proof. induction 1; cbn [items_eq]; [reflexivity|]. rewrite H, IHForall. reflexivity. Qed.

  (** T09_list_enum *)
  Lemma list_enum_check_spec : forall content enums,
    Forall (fun t => item_eq t t = true) (tokens content) ->
    list_enum_check item_cmp content enums = list_enum_valid item_eq (map tokens enums) (tokens content).
  Proof.
    intros content enums R. unfold list_enum_check, list_enum_valid. induction enums as [|e r IH]; [reflexivity|].
    cbn [existsb map]. rewrite IH, value_space_check_spec. f_equal.
    destruct (leqb e content) eqn:E; [|reflexivity]. apply leqb_eq in E. subst e. cbn [orb]. symmetry. apply items_eq_refl. exact R.
  Qed.

  (** in particular a proper prefix or a proper extension of a member is never accepted through it *)
  Lemma items_eq_length : forall a b, items_eq item_eq a b = true -> length a = length b.
  Proof. induction a as [|x a IH]; intros [|y b] H; cbn [items_eq] in H; try discriminate; [reflexivity|].
    apply andb_prop in H. destruct H as [_ H]. cbn [length]. f_equal. apply IH. exact H. Qed.
End L.

(** finding F38 on the model: union equality through any member type vs the Spec's union equality *)
Definition mv_int : mval := mkMval (fun s => integer_lex s) (fun a b => if integer_lex a && integer_lex b then Some (integer_value a - integer_value b)%Z else None).
Definition mv_bool : mval := mkMval bool_lex (fun a b => Some (C09.Model09b.bool_cmp a b)).
Definition sm_int : member := mkMember integer_lex (fun a b => (integer_value a =? integer_value b)%Z).
Definition sm_bool : member := mkMember bool_lex (fun a b => match bool_value a, bool_value b with Some x, Some y => Bool.eqb x y | _, _ => false end).
Lemma union_eq_refuted :
  union_compare [mv_int; mv_bool] [0x31] C09.Spec09b.s_true = 0%Z /\ union_eq [sm_int; sm_bool] [0x31] C09.Spec09b.s_true = false /\
  union_enum_check [mv_int; mv_bool] C09.Spec09b.s_true [[0x31]] = true.
Proof. vm_compute. repeat split; reflexivity. Qed.
