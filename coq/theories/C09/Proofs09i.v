(** C09 lemmas, part i: XMLDateTime::normalize preserves the instant on the timeline and leaves every field in range. *)
From Coq Require Import ZArith Lia.
From XV Require Import C09.Spec09 C09.Spec09c C09.Spec09e C09.Model09c C09.Model09e.
Local Open Scope Z_scope.
Ltac Zify.zify_post_hook ::= Z.to_euclidean_division_equations.

Definition Lp (y : Z) : Z := if leap_year y then 1 else 0.

Lemma max_day_dim : forall y m, 0 <= y -> max_day y m = days_in_month y m.
Proof. intros y m Hy. unfold max_day, days_in_month, leap_year. rewrite !Z.rem_mod_nonneg by lia. reflexivity. Qed.

Lemma dim_cases : forall y m, days_in_month y m =
  if (m =? 4) || (m =? 6) || (m =? 9) || (m =? 11) then 30 else if m =? 2 then 28 + Lp y else 31.
Proof. intros. unfold days_in_month, Lp. destruct (leap_year y); reflexivity. Qed.

Lemma dbm_closed : forall y mo, 1 <= mo <= 12 ->
  days_before_month y mo =
  if mo =? 1 then 0 else if mo =? 2 then 31 else
  (if mo =? 3 then 59 else if mo =? 4 then 90 else if mo =? 5 then 120 else if mo =? 6 then 151 else
   if mo =? 7 then 181 else if mo =? 8 then 212 else if mo =? 9 then 243 else if mo =? 10 then 273 else
   if mo =? 11 then 304 else 334) + Lp y.
Proof.
  intros y mo H.
  assert (C : mo = 1 \/ mo = 2 \/ mo = 3 \/ mo = 4 \/ mo = 5 \/ mo = 6 \/ mo = 7 \/ mo = 8 \/ mo = 9 \/ mo = 10 \/ mo = 11 \/ mo = 12) by lia.
  unfold days_before_month.
  destruct C as [C|[C|[C|[C|[C|[C|[C|[C|[C|[C|[C|C]]]]]]]]]]]; subst mo;
    match goal with |- days_before_month_n y ?n = _ => let n' := eval vm_compute in n in change n with n' end;
    cbn [days_before_month_n Z.of_nat Pos.of_succ_nat Pos.succ];
    rewrite ?dim_cases; cbn [Z.eqb Pos.eqb orb]; lia.
Qed.

Lemma dby_succ : forall y, days_before_year (y + 1) = days_before_year y + 365 + Lp y.
Proof.
  intros y. unfold days_before_year, Lp, leap_year.
  replace (y + 1 - 1) with y by lia.
  destruct (Z.eqb_spec (y mod 4) 0); destruct (Z.eqb_spec (y mod 100) 0); destruct (Z.eqb_spec (y mod 400) 0);
    cbn [andb orb negb]; lia.
Qed.

Definition days_of (y mo d : Z) : Z := days_before_year y + days_before_month y mo + (d - 1).

Definition prev_month (y mo : Z) : Z * Z := if mo =? 1 then (y - 1, 12) else (y, mo - 1).
Definition next_month (y mo : Z) : Z * Z := if mo =? 12 then (y + 1, 1) else (y, mo + 1).

Lemma quot_small : forall a, -11 <= a <= 11 -> Z.quot a 12 = 0.
Proof. intros. lia. Qed.

Lemma nd_ok : forall k y mo d, 1 <= d <= max_day y mo -> norm_days (S k) y mo d = (y, mo, d).
Proof.
  intros k y mo d H. cbn [norm_days].
  destruct (Z.ltb_spec d 1); [lia|]. destruct (Z.ltb_spec (max_day y mo) d); [lia|]. reflexivity.
Qed.

Lemma nd_low : forall k y mo d, 1 <= mo <= 12 -> d < 1 ->
  norm_days (S k) y mo d = norm_days k (fst (prev_month y mo)) (snd (prev_month y mo)) (d + max_day y (mo - 1)).
Proof.
  intros k y mo d Hm Hd. cbn [norm_days]. destruct (Z.ltb_spec d 1); [|lia].
  unfold modulo3, fquot3, prev_month. replace (mo + -1 - 1) with (mo - 2) by lia. replace (13 - 1) with 12 by lia.
  rewrite (quot_small (mo - 2)) by lia. replace (mo - 2 - 0 * 12 + 1) with (mo - 1) by lia.
  destruct (Z.eqb_spec mo 1) as [E|E].
  - subst mo. cbn. f_equal; lia.
  - destruct (Z.leb_spec (mo - 1) 0); [lia|]. cbn [fst snd]. f_equal; lia.
Qed.

Lemma nd_high : forall k y mo d, 1 <= mo <= 12 -> max_day y mo < d -> 1 <= d ->
  norm_days (S k) y mo d = norm_days k (fst (next_month y mo)) (snd (next_month y mo)) (d - max_day y mo).
Proof.
  intros k y mo d Hm Hd H1. cbn [norm_days]. destruct (Z.ltb_spec d 1); [lia|].
  destruct (Z.ltb_spec (max_day y mo) d); [|lia].
  unfold modulo3, fquot3, next_month. replace (mo + 1 - 1) with mo by lia. replace (13 - 1) with 12 by lia.
  destruct (Z.eqb_spec mo 12) as [E|E].
  - subst mo. cbn. f_equal; lia.
  - rewrite (quot_small mo) by lia. replace (mo - 0 * 12 + 1) with (mo + 1) by lia.
    destruct (Z.leb_spec (mo + 1) 0); [lia|]. cbn [fst snd]. f_equal; lia.
Qed.

Lemma max_day_range : forall y m, 28 <= max_day y m <= 31.
Proof. intros. unfold max_day. repeat match goal with |- context [if ?b then _ else _] => destruct b end; lia. Qed.

(** the day count is continuous across month and year boundaries *)
Lemma days_prev : forall y mo, 1 <= y -> 1 <= mo <= 12 ->
  days_of y mo 0 = days_of (fst (prev_month y mo)) (snd (prev_month y mo)) (max_day y (mo - 1)) /\
  max_day y (mo - 1) = max_day (fst (prev_month y mo)) (snd (prev_month y mo)).
Proof.
  intros y mo Hy Hm. unfold prev_month, days_of.
  destruct (Z.eqb_spec mo 1) as [E|E].
  - subst mo. cbn [fst snd]. rewrite !dbm_closed by lia. cbn [Z.eqb Pos.eqb].
    pose proof (dby_succ (y - 1)) as S. replace (y - 1 + 1) with y in S by lia.
    replace (1 - 1) with 0 by lia. rewrite !max_day_dim by lia. rewrite !dim_cases. cbn [Z.eqb Pos.eqb orb]. split; lia.
  - cbn [fst snd]. split; [|reflexivity]. rewrite max_day_dim by lia. rewrite dim_cases, !dbm_closed by lia.
    assert (C : mo = 2 \/ mo = 3 \/ mo = 4 \/ mo = 5 \/ mo = 6 \/ mo = 7 \/ mo = 8 \/ mo = 9 \/ mo = 10 \/ mo = 11 \/ mo = 12) by lia.
    destruct C as [C|[C|[C|[C|[C|[C|[C|[C|[C|[C|C]]]]]]]]]]; subst mo;
      repeat match goal with |- context [Zpos ?p - 1] => let v := eval vm_compute in (Zpos p - 1) in change (Zpos p - 1) with v end;
      cbn [Z.eqb Pos.eqb orb]; lia.
Qed.

Lemma days_next : forall y mo, 0 <= y -> 1 <= mo <= 12 ->
  days_of y mo (max_day y mo + 1) = days_of (fst (next_month y mo)) (snd (next_month y mo)) 1.
Proof.
  intros y mo Hy Hm. unfold next_month, days_of.
  destruct (Z.eqb_spec mo 12) as [E|E].
  - subst mo. cbn [fst snd]. rewrite !dbm_closed by lia. cbn [Z.eqb Pos.eqb].
    pose proof (dby_succ y) as S. rewrite max_day_dim by lia. rewrite dim_cases. cbn [Z.eqb Pos.eqb orb]. lia.
  - cbn [fst snd]. rewrite max_day_dim by lia. rewrite dim_cases, !dbm_closed by lia.
    assert (C : mo = 1 \/ mo = 2 \/ mo = 3 \/ mo = 4 \/ mo = 5 \/ mo = 6 \/ mo = 7 \/ mo = 8 \/ mo = 9 \/ mo = 10 \/ mo = 11) by lia.
    destruct C as [C|[C|[C|[C|[C|[C|[C|[C|[C|[C|C]]]]]]]]]]; subst mo;
      repeat match goal with |- context [Zpos ?p + 1] => let v := eval vm_compute in (Zpos p + 1) in change (Zpos p + 1) with v end;
      cbn [Z.eqb Pos.eqb orb]; lia.
Qed.

Lemma norm_days_spec : forall y mo d y' mo' d', 2 <= y -> 1 <= mo <= 12 -> 0 <= d <= max_day y mo + 1 ->
  norm_days 4 y mo d = (y', mo', d') ->
  days_of y' mo' d' = days_of y mo d /\ 1 <= mo' <= 12 /\ 1 <= d' <= max_day y' mo' /\ 1 <= y'.
Proof.
  intros y mo d y' mo' d' Hy Hm Hd E.
  pose proof (max_day_range y mo) as R.
  destruct (Z_lt_le_dec d 1) as [L|L].
  - (* d = 0: the last day of the previous month *)
    assert (d = 0) by lia. subst d.
    rewrite nd_low in E by lia. replace (0 + max_day y (mo - 1)) with (max_day y (mo - 1)) in E by lia.
    destruct (days_prev y mo ltac:(lia) Hm) as [D M].
    pose proof (max_day_range y (mo - 1)) as R'.
    rewrite nd_ok in E by (rewrite <- M; lia).
    inversion E; subst. split; [symmetry; exact D|].
    unfold prev_month. destruct (Z.eqb_spec mo 1); cbn [fst snd]; rewrite <- ?M; repeat split; try lia;
      unfold prev_month in M; destruct (Z.eqb_spec mo 1); cbn [fst snd] in M; try lia; rewrite <- M; lia.
  - destruct (Z_lt_le_dec (max_day y mo) d) as [G|G].
    + assert (d = max_day y mo + 1) by lia. subst d.
      rewrite nd_high in E by lia.
      pose proof (max_day_range (fst (next_month y mo)) (snd (next_month y mo))) as R'.
      rewrite nd_ok in E by lia.
      inversion E; subst. split; [symmetry; replace (max_day y mo + 1 - max_day y mo) with 1 by lia; apply days_next; lia|].
      unfold next_month. destruct (Z.eqb_spec mo 12); cbn [fst snd]; repeat split; try lia;
        unfold next_month in R'; destruct (Z.eqb_spec mo 12); cbn [fst snd] in R'; lia.
    + rewrite nd_ok in E by lia. inversion E; subst. repeat split; lia.
Qed.

Definition secs_of (n : dtn) : Z :=
  ((days_of (n_y n) (n_mo n) (n_d n) * 24 + n_h n) * 60 + n_mi n) * 60 + n_s n.

(** T09_datetime_normalize: for a valid dateTime (year >= 2 so that the roll-over stays in years >= 1; hour 24 allowed)
    and a zone offset of at most 14:59, normalize shifts the local time by exactly the offset -- so the instant
    (local time minus offset) is unchanged -- and leaves month, day, hour and minute in range *)
Lemma normalize_timeline : forall negate tzh tzm v,
  (negate = 1 \/ negate = -1) -> 0 <= tzh <= 14 -> 0 <= tzm <= 59 -> 2 <= n_y v -> 1 <= n_mo v <= 12 ->
  1 <= n_d v <= max_day (n_y v) (n_mo v) -> 0 <= n_h v <= 24 -> 0 <= n_mi v <= 59 ->
  let r := normalize negate tzh tzm v in
  secs_of r = secs_of v + negate * (tzh * 60 + tzm) * 60 /\
  1 <= n_mo r <= 12 /\ 1 <= n_d r <= max_day (n_y r) (n_mo r) /\ 0 <= n_h r <= 23 /\ 0 <= n_mi r <= 59 /\ n_s r = n_s v /\
  1 <= n_y r.
Proof.
  intros negate tzh tzm [y mo d h mi s] Hn Hh Hm Hy Hmo Hd Hhr Hmi. cbn [n_y n_mo n_d n_h n_mi n_s] in *.
  unfold normalize. cbn [n_y n_mo n_d n_h n_mi n_s].
  unfold modulo3, fquot3, fquot. replace (13 - 1) with 12 by lia.
  rewrite (quot_small (mo - 1)) by lia. replace (mo - 1 - 0 * 12 + 1) with mo by lia.
  destruct (Z.leb_spec mo 0); [lia|]. replace (y + 0) with y by lia.
  set (tm := mi + negate * tzm).
  assert (Btm : -59 <= tm <= 118) by (unfold tm; destruct Hn; subst negate; lia).
  set (cm := Z.quot tm 60). assert (Ecm : tm = cm * 60 + Z.rem tm 60) by (unfold cm; pose proof (Z.quot_rem' tm 60); lia).
  assert (Brm : -59 <= Z.rem tm 60 <= 59 /\ -1 <= cm <= 1) by (unfold cm; lia).
  replace (tm - cm * 60) with (Z.rem tm 60) by lia.
  destruct (Z.ltb_spec (Z.rem tm 60) 0) as [Lm|Lm].
  - (* negative minute *)
    set (th := h + negate * tzh + (cm - 1)).
    assert (Bth : -17 <= th <= 39) by (unfold th; destruct Hn; subst negate; lia).
    set (ch := Z.quot th 24). assert (Ech : th = ch * 24 + Z.rem th 24) by (unfold ch; pose proof (Z.quot_rem' th 24); lia).
    assert (Brh : -23 <= Z.rem th 24 <= 23 /\ -1 <= ch <= 1 /\ (0 <= th -> 0 <= Z.rem th 24) /\ (th <= 0 -> Z.rem th 24 <= 0) /\ (th < 24 -> ch <= 0) /\ (0 <= th -> 0 <= ch)) by (unfold ch; lia).
    replace (th - ch * 24) with (Z.rem th 24) by lia.
    destruct (Z.ltb_spec (Z.rem th 24) 0) as [Lh|Lh].
    + destruct (norm_days 4 y mo (d + (ch - 1))) as [[y' mo'] d'] eqn:ND.
      pose proof (max_day_range y mo).
      destruct (norm_days_spec y mo (d + (ch - 1)) y' mo' d' Hy Hmo ltac:(lia) ND) as [D [M1 [M2 M3]]].
      cbn [n_y n_mo n_d n_h n_mi n_s]. unfold secs_of. cbn [n_y n_mo n_d n_h n_mi n_s]. rewrite D.
      unfold days_of. unfold tm, th in *. destruct Hn; subst negate; repeat split; lia.
    + destruct (norm_days 4 y mo (d + ch)) as [[y' mo'] d'] eqn:ND.
      pose proof (max_day_range y mo).
      destruct (norm_days_spec y mo (d + ch) y' mo' d' Hy Hmo ltac:(lia) ND) as [D [M1 [M2 M3]]].
      cbn [n_y n_mo n_d n_h n_mi n_s]. unfold secs_of. cbn [n_y n_mo n_d n_h n_mi n_s]. rewrite D.
      unfold days_of. unfold tm, th in *. destruct Hn; subst negate; repeat split; lia.
  - set (th := h + negate * tzh + cm).
    assert (Bth : -17 <= th <= 39) by (unfold th; destruct Hn; subst negate; lia).
    set (ch := Z.quot th 24). assert (Ech : th = ch * 24 + Z.rem th 24) by (unfold ch; pose proof (Z.quot_rem' th 24); lia).
    assert (Brh : -23 <= Z.rem th 24 <= 23 /\ -1 <= ch <= 1 /\ (0 <= th -> 0 <= Z.rem th 24) /\ (th <= 0 -> Z.rem th 24 <= 0) /\ (th < 24 -> ch <= 0) /\ (0 <= th -> 0 <= ch)) by (unfold ch; lia).
    replace (th - ch * 24) with (Z.rem th 24) by lia.
    destruct (Z.ltb_spec (Z.rem th 24) 0) as [Lh|Lh].
    + destruct (norm_days 4 y mo (d + (ch - 1))) as [[y' mo'] d'] eqn:ND.
      pose proof (max_day_range y mo).
      destruct (norm_days_spec y mo (d + (ch - 1)) y' mo' d' Hy Hmo ltac:(lia) ND) as [D [M1 [M2 M3]]].
      cbn [n_y n_mo n_d n_h n_mi n_s]. unfold secs_of. cbn [n_y n_mo n_d n_h n_mi n_s]. rewrite D.
      unfold days_of. unfold tm, th in *. destruct Hn; subst negate; repeat split; lia.
    + destruct (norm_days 4 y mo (d + ch)) as [[y' mo'] d'] eqn:ND.
      pose proof (max_day_range y mo).
      destruct (norm_days_spec y mo (d + ch) y' mo' d' Hy Hmo ltac:(lia) ND) as [D [M1 [M2 M3]]].
      cbn [n_y n_mo n_d n_h n_mi n_s]. unfold secs_of. cbn [n_y n_mo n_d n_h n_mi n_s]. rewrite D.
      unfold days_of. unfold tm, th in *. destruct Hn; subst negate; repeat split; lia.
Qed.

(** the same statement on the Spec's timeline: a zoned dateTime with offset (sign)(tzh:tzm) and its normalised
    form read as UTC denote the same instant *)
Definition fields_of (n : dtn) (frac : list N) (zone : option Z) : dt_fields :=
  mkF (n_y n) (n_mo n) (n_d n) (n_h n) (n_mi n) (n_s n) frac zone.

Lemma local_seconds_secs_of : forall n frac zone, local_seconds (fields_of n frac zone) = secs_of n.
Proof. reflexivity. Qed.

Lemma normalize_preserves_instant : forall negate tzh tzm v frac,
  (negate = 1 \/ negate = -1) -> 0 <= tzh <= 14 -> 0 <= tzm <= 59 -> 2 <= n_y v -> 1 <= n_mo v <= 12 ->
  1 <= n_d v <= max_day (n_y v) (n_mo v) -> 0 <= n_h v <= 24 -> 0 <= n_mi v <= 59 ->
  Qeq (timeline (fields_of (normalize negate tzh tzm v) frac (Some 0)))
      (timeline (fields_of v frac (Some (- negate * (tzh * 60 + tzm))))).
Proof.
  intros negate tzh tzm v frac Hn Hh Hm Hy Hmo Hd Hhr Hmi.
  destruct (normalize_timeline negate tzh tzm v Hn Hh Hm Hy Hmo Hd Hhr Hmi) as [E _].
  unfold timeline. rewrite !local_seconds_secs_of. cbn [f_zone f_frac fields_of]. rewrite E.
  replace (secs_of v + negate * (tzh * 60 + tzm) * 60 - 60 * 0) with (secs_of v - 60 * (- negate * (tzh * 60 + tzm))) by lia.
  reflexivity.
Qed.
