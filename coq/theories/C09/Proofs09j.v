(** C09 lemmas, part j: XMLDateTime::compareOrder / compare on normalised, in-range values = the order of the Spec
    (3.2.7.4) on timelines. *)
From Coq Require Import ZArith QArith Lia.
From XV Require Import C09.Spec09 C09.Spec09c C09.Spec09e C09.Model09c C09.Model09e C09.Proofs09c C09.Proofs09d C09.Proofs09i.
Local Open Scope Z_scope.
Ltac Zify.zify_post_hook ::= Z.to_euclidean_division_equations.

(** closed forms as functions of the leap flag, for finite case analysis *)
Definition dbm_f (L mo : Z) : Z :=
  if mo =? 1 then 0 else if mo =? 2 then 31 else
  (if mo =? 3 then 59 else if mo =? 4 then 90 else if mo =? 5 then 120 else if mo =? 6 then 151 else
   if mo =? 7 then 181 else if mo =? 8 then 212 else if mo =? 9 then 243 else if mo =? 10 then 273 else
   if mo =? 11 then 304 else 334) + L.
Definition dim_f (L m : Z) : Z :=
  if (m =? 4) || (m =? 6) || (m =? 9) || (m =? 11) then 30 else if m =? 2 then 28 + L else 31.

Lemma dbm_is_f : forall y mo, 1 <= mo <= 12 -> days_before_month y mo = dbm_f (Lp y) mo.
Proof. intros. apply dbm_closed. assumption. Qed.
Lemma max_day_is_f : forall y m, 0 <= y -> max_day y m = dim_f (Lp y) m.
Proof. intros. rewrite max_day_dim by assumption. apply dim_cases. Qed.
Lemma Lp_01 : forall y, Lp y = 0 \/ Lp y = 1.
Proof. intros. unfold Lp. destruct (leap_year y); auto. Qed.

Definition months : list Z := [1;2;3;4;5;6;7;8;9;10;11;12].
Lemma in_months : forall m, 1 <= m <= 12 -> In m months.
Proof. intros m H. unfold months. assert (m = 1 \/ m = 2 \/ m = 3 \/ m = 4 \/ m = 5 \/ m = 6 \/ m = 7 \/ m = 8 \/ m = 9 \/ m = 10 \/ m = 11 \/ m = 12) by lia.
  cbn [In]. intuition. Qed.

Definition months_table_ok : bool :=
  forallb (fun L => forallb (fun a => forallb (fun b =>
    (negb (a <? b) || (dbm_f L a + dim_f L a <=? dbm_f L b)) && (dbm_f L a + dim_f L a <=? 365 + L) && (0 <=? dbm_f L a) && (28 <=? dim_f L a))
    months) months) [0; 1].
Lemma months_table : months_table_ok = true. Proof. vm_compute. reflexivity. Qed.

Lemma months_facts : forall L a b, (L = 0 \/ L = 1) -> 1 <= a <= 12 -> 1 <= b <= 12 ->
  (a < b -> dbm_f L a + dim_f L a <= dbm_f L b) /\ dbm_f L a + dim_f L a <= 365 + L /\ 0 <= dbm_f L a.
Proof.
  intros L a b HL Ha Hb. pose proof months_table as T. unfold months_table_ok in T.
  rewrite forallb_forall in T. assert (IL : In L [0; 1]) by (cbn; intuition).
  specialize (T L IL). rewrite forallb_forall in T. specialize (T a (in_months a Ha)).
  rewrite forallb_forall in T. specialize (T b (in_months b Hb)).
  apply andb_prop in T. destruct T as [T T4]. apply andb_prop in T. destruct T as [T T3]. apply andb_prop in T. destruct T as [T1 T2].
  repeat split.
  - intros Lt. apply orb_prop in T1. destruct T1 as [T1|T1].
    + apply Bool.negb_true_iff in T1. apply Z.ltb_ge in T1. lia.
    + apply Z.leb_le in T1. exact T1.
  - apply Z.leb_le in T2. exact T2.
  - apply Z.leb_le in T3. exact T3.
Qed.

Lemma dby_mono : forall y1 y2, y1 <= y2 -> days_before_year y1 <= days_before_year y2.
Proof. intros. unfold days_before_year. lia. Qed.

(** the day number is strictly monotone in (year, month, day) on in-range dates *)
Definition date_ok (y mo d : Z) : Prop := 1 <= y /\ 1 <= mo <= 12 /\ 1 <= d <= max_day y mo.

Lemma days_of_bounds : forall y mo d, date_ok y mo d ->
  days_before_year y <= days_of y mo d < days_before_year (y + 1).
Proof.
  intros y mo d [Hy [Hm Hd]]. unfold days_of. rewrite dby_succ, dbm_is_f by assumption.
  rewrite max_day_is_f in Hd by lia.
  destruct (months_facts (Lp y) mo mo (Lp_01 y) Hm Hm) as [_ [F2 F3]]. lia.
Qed.

Lemma days_of_mono : forall y1 mo1 d1 y2 mo2 d2, date_ok y1 mo1 d1 -> date_ok y2 mo2 d2 ->
  (y1 < y2 -> days_of y1 mo1 d1 < days_of y2 mo2 d2) /\
  (y1 = y2 -> mo1 < mo2 -> days_of y1 mo1 d1 < days_of y2 mo2 d2) /\
  (y1 = y2 -> mo1 = mo2 -> d1 < d2 -> days_of y1 mo1 d1 < days_of y2 mo2 d2).
Proof.
  intros y1 mo1 d1 y2 mo2 d2 O1 O2. repeat split.
  - intros L. pose proof (days_of_bounds _ _ _ O1). pose proof (days_of_bounds _ _ _ O2).
    pose proof (dby_mono (y1 + 1) y2 ltac:(lia)). lia.
  - intros E L. subst y2. destruct O1 as [Hy [Hm1 Hd1]]. destruct O2 as [_ [Hm2 Hd2]].
    unfold days_of. rewrite !dbm_is_f by assumption. rewrite max_day_is_f in Hd1 by lia.
    destruct (months_facts (Lp y1) mo1 mo2 (Lp_01 y1) Hm1 Hm2) as [F1 _]. specialize (F1 L). lia.
  - intros E1 E2 L. subst. unfold days_of. lia.
Qed.

Record in_range (n : dtn) : Prop := mkIR {
  r_date : date_ok (n_y n) (n_mo n) (n_d n);
  r_h : 0 <= n_h n <= 23; r_mi : 0 <= n_mi n <= 59; r_s : 0 <= n_s n <= 59 }.

Definition fields_list (n : dtn) : list Z := [n_y n; n_mo n; n_d n; n_h n; n_mi n; n_s n].

(** the field-by-field comparison of compareOrder = comparison of the whole seconds *)
Lemma lex_cmp_secs : forall a b, in_range a -> in_range b ->
  lex_cmp (fields_list a) (fields_list b) = cmp_to_Z (secs_of a ?= secs_of b).
Proof.
  intros [y1 mo1 d1 h1 mi1 s1] [y2 mo2 d2 h2 mi2 s2] [D1 H1 M1 S1] [D2 H2 M2 S2].
  cbn [n_y n_mo n_d n_h n_mi n_s] in *. unfold fields_list, secs_of. cbn [n_y n_mo n_d n_h n_mi n_s lex_cmp].
  destruct (days_of_mono _ _ _ _ _ _ D1 D2) as [A1 [A2 A3]].
  destruct (days_of_mono _ _ _ _ _ _ D2 D1) as [B1 [B2 B3]].
  unfold LESS, GREATER, EQUAL.
  destruct (Z.ltb_spec y1 y2); [symmetry; apply cmp_lt; specialize (A1 ltac:(lia)); lia|].
  destruct (Z.ltb_spec y2 y1); [symmetry; apply cmp_gt; specialize (B1 ltac:(lia)); lia|].
  assert (y1 = y2) by lia. subst y2.
  destruct (Z.ltb_spec mo1 mo2); [symmetry; apply cmp_lt; specialize (A2 eq_refl ltac:(lia)); lia|].
  destruct (Z.ltb_spec mo2 mo1); [symmetry; apply cmp_gt; specialize (B2 eq_refl ltac:(lia)); lia|].
  assert (mo1 = mo2) by lia. subst mo2.
  destruct (Z.ltb_spec d1 d2); [symmetry; apply cmp_lt; specialize (A3 eq_refl eq_refl ltac:(lia)); lia|].
  destruct (Z.ltb_spec d2 d1); [symmetry; apply cmp_gt; specialize (B3 eq_refl eq_refl ltac:(lia)); lia|].
  assert (d1 = d2) by lia. subst d2.
  destruct (Z.ltb_spec h1 h2); [symmetry; apply cmp_lt; lia|].
  destruct (Z.ltb_spec h2 h1); [symmetry; apply cmp_gt; lia|].
  destruct (Z.ltb_spec mi1 mi2); [symmetry; apply cmp_lt; lia|].
  destruct (Z.ltb_spec mi2 mi1); [symmetry; apply cmp_gt; lia|].
  destruct (Z.ltb_spec s1 s2); [symmetry; apply cmp_lt; lia|].
  destruct (Z.ltb_spec s2 s1); [symmetry; apply cmp_gt; lia|].
  symmetry. apply cmp_eq. lia.
Qed.

(** * whole seconds + fraction *)
From Coq Require Import Lqa.

Definition tl (n : dtn) (f : list N) : Q := (secs_of n # 1) + ms_q f.

Lemma mixed_lt : forall a b n1 n2 P1 P2, a < b -> 0 <= n1 < P1 -> 0 <= n2 < P2 ->
  (a * P1 + n1 * 1) * P2 < (b * P2 + n2 * 1) * P1.
Proof.
  intros a b n1 n2 P1 P2 L H1 H2.
  assert (n1 * P2 < P1 * P2) by (apply Z.mul_lt_mono_pos_r; lia).
  assert (0 <= P1 * P2) by (apply Z.mul_nonneg_nonneg; lia).
  assert ((a + 1) * (P1 * P2) <= b * (P1 * P2)) by (apply Z.mul_le_mono_nonneg_r; lia).
  assert (0 <= n2 * P1) by (apply Z.mul_nonneg_nonneg; lia).
  replace ((a * P1 + n1 * 1) * P2) with (a * (P1 * P2) + n1 * P2) by ring.
  replace ((b * P2 + n2 * 1) * P1) with (b * (P1 * P2) + n2 * P1) by ring.
  replace ((a + 1) * (P1 * P2)) with (a * (P1 * P2) + P1 * P2) in * by ring. lia.
Qed.

Lemma qcmp_mixed : forall a b n1 n2 (p1 p2 : positive), 0 <= n1 < Zpos p1 -> 0 <= n2 < Zpos p2 ->
  Qcompare ((a # 1) + (n1 # p1)) ((b # 1) + (n2 # p2)) =
  if a <? b then Lt else if b <? a then Gt else Qcompare (n1 # p1) (n2 # p2).
Proof.
  intros a b n1 n2 p1 p2 H1 H2. unfold Qcompare, Qplus. cbn [Qnum Qden Pos.mul].
  destruct (Z.ltb_spec a b).
  - apply Z.compare_lt_iff. apply mixed_lt; assumption.
  - destruct (Z.ltb_spec b a).
    + apply Z.compare_gt_iff. apply mixed_lt; assumption.
    + assert (a = b) by lia. subst b.
      replace ((a * Z.pos p1 + n1 * 1) * Z.pos p2) with (a * (Z.pos p1 * Z.pos p2) + n1 * Z.pos p2) by ring.
      replace ((a * Z.pos p2 + n2 * 1) * Z.pos p1) with (a * (Z.pos p1 * Z.pos p2) + n2 * Z.pos p1) by ring.
      destruct (Z.compare_spec (n1 * Zpos p2) (n2 * Zpos p1)); [apply Z.compare_eq_iff|apply Z.compare_lt_iff|apply Z.compare_gt_iff]; lia.
Qed.

Lemma ms_q_range : forall f, all_digits f = true -> 0 <= dval f < Zpos (pow10 (length f)).
Proof. intros f H. exact (dval_bounds f H). Qed.

Lemma compare_order_spec : forall a fa b fb, in_range a -> in_range b -> all_digits fa = true -> all_digits fb = true ->
  compare_order a fa b fb = q_cmp (tl a fa) (tl b fb).
Proof.
  intros a fa b fb Ra Rb Da Db. unfold compare_order. fold (fields_list a) (fields_list b).
  rewrite (lex_cmp_secs a b Ra Rb). unfold q_cmp, tl, ms_q.
  rewrite (qcmp_mixed (secs_of a) (secs_of b) _ _ _ _ (ms_q_range fa Da) (ms_q_range fb Db)).
  destruct (Z.ltb_spec (secs_of a) (secs_of b)) as [L|L].
  - apply Z.compare_lt_iff in L. rewrite L. reflexivity.
  - destruct (Z.ltb_spec (secs_of b) (secs_of a)) as [G|G].
    + apply Z.compare_gt_iff in G. rewrite G. reflexivity.
    + assert (E : secs_of a = secs_of b) by lia. apply Z.compare_eq_iff in E. rewrite E. cbn [cmp_to_Z Z.eqb negb EQUAL].
      destruct (dval fa # pow10 (length fa) ?= dval fb # pow10 (length fb))%Q; reflexivity.
Qed.

(** * the Spec's view of a parsed value *)
Definition zone_of (p : dtp) : option Z := if p_zoned p then Some 0 else None.
Definition spec_fields (p : dtp) : dt_fields := fields_of (p_n p) (p_frac p) (zone_of p).

Lemma timeline_spec_fields : forall p, timeline (spec_fields p) = tl (p_n p) (p_frac p).
Proof.
  intros p. unfold timeline, spec_fields, tl, ms_q. rewrite local_seconds_secs_of. cbn [f_zone f_frac fields_of].
  unfold zone_of. destruct (p_zoned p); (replace (secs_of (p_n p) - 60 * 0) with (secs_of (p_n p)) by lia); reflexivity.
Qed.

(** what parse + validate + normalize guarantee, outside the findings F31 (hour 24) and F32 (year 0001 stepping to 0000) *)
Record dtp_ok (p : dtp) : Prop := mkOK {
  k_range : in_range (p_n p);
  k_year : p_zoned p = false -> 2 <= n_y (p_n p);
  k_frac : all_digits (p_frac p) = true }.

Definition h14 : Q := (14 * 3600) # 1.

Lemma shift14 : forall negate n f, (negate = 1 \/ negate = -1) -> in_range n -> 2 <= n_y n ->
  in_range (normalize negate 14 0 n) /\ tl (normalize negate 14 0 n) f == tl n f + ((negate * 50400) # 1).
Proof.
  intros negate n f Hn [[Hy [Hmo Hd]] Hh Hmi Hs] Hy2.
  destruct (normalize_timeline negate 14 0 n Hn ltac:(lia) ltac:(lia) Hy2 Hmo Hd ltac:(lia) Hmi) as [E [M [D [H [MI [S Y]]]]]].
  split.
  - constructor; [repeat split; lia| lia | lia | lia].
  - unfold tl. rewrite E. unfold Qeq, Qplus. cbn [Qnum Qden Pos.mul]. lia.
Qed.

(** T09_datetime_order *)
Lemma dt_compare_spec : forall a b, dtp_ok a -> dtp_ok b ->
  (* outside finding F30: a zoned and an unzoned value exactly 14 hours apart *)
  (p_zoned a <> p_zoned b ->
     ~ timeline (spec_fields a) == timeline (spec_fields b) + h14 /\ ~ timeline (spec_fields a) == timeline (spec_fields b) - h14) ->
  dt_compare a b = dt_order_f (spec_fields a) (spec_fields b).
Proof.
  intros a b [Ra Ya Fa] [Rb Yb Fb] G. unfold dt_compare, dt_order_f.
  rewrite !timeline_spec_fields in *. unfold spec_fields. cbn [f_zone fields_of]. unfold zone_of.
  destruct (p_zoned a) eqn:Za; destruct (p_zoned b) eqn:Zb; cbn [Bool.eqb].
  - apply compare_order_spec; assumption.
  - (* a zoned, b not *)
    destruct (G ltac:(discriminate)) as [G1 G2].
    destruct (shift14 (-1) (p_n b) (p_frac b) ltac:(auto) Rb (Yb eq_refl)) as [R1 E1].
    destruct (shift14 1 (p_n b) (p_frac b) ltac:(auto) Rb (Yb eq_refl)) as [R2 E2].
    rewrite (compare_order_spec _ _ _ _ Ra R1 Fa Fb), (compare_order_spec _ _ _ _ Ra R2 Fa Fb).
    unfold q_cmp. rewrite E1, E2. set (tp := tl (p_n a) (p_frac a)) in *. set (tq := tl (p_n b) (p_frac b)) in *.
    clearbody tp tq. unfold h14 in *. change (14 * 3600 # 1) with (50400 # 1) in *.
    change (-1 * 50400 # 1) with (-50400 # 1) in *. change (1 * 50400 # 1) with (50400 # 1) in *.
    destruct (Qlt_le_dec tp (tq - (50400 # 1))) as [L|L].
    + assert (X1 : (tp ?= tq + (-50400 # 1))%Q = Lt) by (apply (proj1 (Qlt_alt _ _)); lra).
      assert (X2 : (tp ?= tq + (50400 # 1))%Q = Lt) by (apply (proj1 (Qlt_alt _ _)); lra).
      rewrite X1, X2. reflexivity.
    + destruct (Qlt_le_dec (tq + (50400 # 1)) tp) as [L2|L2].
      * assert (X1 : (tp ?= tq + (-50400 # 1))%Q = Gt) by (apply (proj1 (Qgt_alt _ _)); lra).
        assert (X2 : (tp ?= tq + (50400 # 1))%Q = Gt) by (apply (proj1 (Qgt_alt _ _)); lra).
        rewrite X1, X2. reflexivity.
      * assert (X1 : (tp ?= tq + (-50400 # 1))%Q = Gt).
        { apply (proj1 (Qgt_alt _ _)). destruct (Qlt_le_dec (tq - (50400 # 1)) tp); [lra|]. exfalso. apply G2. lra. }
        assert (X2 : (tp ?= tq + (50400 # 1))%Q = Lt).
        { apply (proj1 (Qlt_alt _ _)). destruct (Qlt_le_dec tp (tq + (50400 # 1))); [lra|]. exfalso. apply G1. lra. }
        rewrite X1, X2. reflexivity.
  - (* a not zoned, b zoned *)
    destruct (G ltac:(discriminate)) as [G1 G2].
    destruct (shift14 (-1) (p_n a) (p_frac a) ltac:(auto) Ra (Ya eq_refl)) as [R1 E1].
    destruct (shift14 1 (p_n a) (p_frac a) ltac:(auto) Ra (Ya eq_refl)) as [R2 E2].
    rewrite (compare_order_spec _ _ _ _ R1 Rb Fa Fb), (compare_order_spec _ _ _ _ R2 Rb Fa Fb).
    unfold q_cmp. rewrite E1, E2. set (tp := tl (p_n a) (p_frac a)) in *. set (tq := tl (p_n b) (p_frac b)) in *.
    clearbody tp tq. unfold h14 in *. change (14 * 3600 # 1) with (50400 # 1) in *.
    change (-1 * 50400 # 1) with (-50400 # 1) in *. change (1 * 50400 # 1) with (50400 # 1) in *.
    destruct (Qlt_le_dec (tp + (50400 # 1)) tq) as [L|L].
    + assert (X1 : (tp + (-50400 # 1) ?= tq)%Q = Lt) by (apply (proj1 (Qlt_alt _ _)); lra).
      assert (X2 : (tp + (50400 # 1) ?= tq)%Q = Lt) by (apply (proj1 (Qlt_alt _ _)); lra).
      rewrite X1, X2. reflexivity.
    + destruct (Qlt_le_dec tq (tp - (50400 # 1))) as [L2|L2].
      * assert (X1 : (tp + (-50400 # 1) ?= tq)%Q = Gt) by (apply (proj1 (Qgt_alt _ _)); lra).
        assert (X2 : (tp + (50400 # 1) ?= tq)%Q = Gt) by (apply (proj1 (Qgt_alt _ _)); lra).
        rewrite X1, X2. reflexivity.
      * assert (X1 : (tp + (-50400 # 1) ?= tq)%Q = Lt).
        { apply (proj1 (Qlt_alt _ _)). destruct (Qlt_le_dec (tp - (50400 # 1)) tq); [lra|]. exfalso. apply G1. lra. }
        assert (X2 : (tp + (50400 # 1) ?= tq)%Q = Gt).
        { apply (proj1 (Qgt_alt _ _)). destruct (Qlt_le_dec tq (tp + (50400 # 1))); [lra|]. exfalso. apply G2. lra. }
        rewrite X1, X2. reflexivity.
  - apply compare_order_spec; assumption.
Qed.
