(** C09 lemmas, part u: xs:duration -- the comparison over the four reference dateTimes (3.2.6.2) as XMLDateTime::compare
    (strict) combines it: determinate iff all four comparisons agree; the findings F35, F36, F37 on the faithful model. *)
From Coq Require Import ZArith QArith Lia String Ascii.
From XV Require Import C09.Spec09 C09.Spec09e C09.Spec09h C09.Model09c C09.Model09e C09.Model09h C09.Proofs09k.
Local Open Scope Z_scope.

Lemma lex_cmp_range : forall a b, lex_cmp a b = LESS \/ lex_cmp a b = EQUAL \/ lex_cmp a b = GREATER.
Proof.
  induction a as [|x a IH]; intros [|y b]; cbn [lex_cmp]; auto.
  destruct (x <? y); auto. destruct (y <? x); auto.
Qed.

(** the chain of compareResult calls with the early INDETERMINATE exits = "all four agree, else indeterminate" *)
Definition combine4 (r0 r1 r2 r3 : Z) : Z :=
  if r0 =? INDET then INDET else
  let ra := compare_result r0 r1 true in if ra =? INDET then INDET else
  let ra := compare_result ra r2 true in if ra =? INDET then INDET else compare_result ra r3 true.
Definition agree4 (r0 r1 r2 r3 : Z) : Z := if (r1 =? r0) && (r2 =? r0) && (r3 =? r0) then r0 else INDET.

Definition three : list Z := [LESS; EQUAL; GREATER].
Lemma combine4_sweep :
  forallb (fun a => forallb (fun b => forallb (fun c => forallb (fun d => combine4 a b c d =? agree4 a b c d) three) three) three) three = true.
Proof. vm_compute. reflexivity. Qed.

Lemma in_three : forall r, r = LESS \/ r = EQUAL \/ r = GREATER -> In r three.
Proof. intros r [H|[H|H]]; subst; cbn; auto. Qed.

Lemma combine4_spec : forall a b c d, In a three -> In b three -> In c three -> In d three -> combine4 a b c d = agree4 a b c d.
Proof.
  intros a b c d Ha Hb Hc Hd. pose proof combine4_sweep as S.
  rewrite forallb_forall in S. specialize (S a Ha). rewrite forallb_forall in S. specialize (S b Hb).
  rewrite forallb_forall in S. specialize (S c Hc). rewrite forallb_forall in S. specialize (S d Hd).
  apply Z.eqb_eq. exact S.
Qed.

(** T09_duration_combine: XMLDateTime::compare(d1, d2, strict = true) *)
Lemma dur_compare_spec : forall a b,
  dur_compare a b true =
  if fields_cmp (dur_normalize a) (dur_normalize b) =? EQUAL then EQUAL
  else let c i := let r := nth i ref_dates (0, 0) in fields_cmp (add_duration r a) (add_duration r b) in
       agree4 (c 0%nat) (c 1%nat) (c 2%nat) (c 3%nat).
Proof.
  intros a b. unfold dur_compare. destruct (fields_cmp (dur_normalize a) (dur_normalize b) =? EQUAL); [reflexivity|].
  cbv zeta. rewrite <- combine4_spec; [reflexivity| | | |]; apply in_three; apply lex_cmp_range.
Qed.

(** the Spec order has the same shape on the timeline *)
Lemma dur_order_shape : forall x y,
  dur_order_v x y =
  let c i := let r := nth i ref_dates (0, 0) in q_cmp (add_to_ref r x) (add_to_ref r y) in
  agree4 (c 0%nat) (c 1%nat) (c 2%nat) (c 3%nat).
Proof. intros. unfold dur_order_v, agree4. cbn [map ref_dates forallb nth]. rewrite Bool.andb_true_r, Bool.andb_assoc. reflexivity. Qed.

Local Open Scope string_scope.
(** non-vacuity and the windows of 3.2.6.2 on model and Spec: P2M vs P59D..P62D incomparable, P63D greater *)
Lemma dur_windows :
  durv_compare (s2l "P2M") (s2l "P62D") = -1 /\ durv_compare (s2l "P62D") (s2l "P2M") = -1 /\ dur_order (s2l "P2M") (s2l "P62D") = 2 /\
  durv_compare (s2l "P2M") (s2l "P63D") = -1 /\ durv_compare (s2l "P63D") (s2l "P2M") = 1 /\ dur_order (s2l "P2M") (s2l "P63D") = -1 /\
  dur_order (s2l "P2M") (s2l "P59D") = 2 /\ dur_order (s2l "P2M") (s2l "P58D") = 1 /\
  dur_order (s2l "P1Y") (s2l "P12M") = 0 /\ durv_compare (s2l "P1Y") (s2l "P12M") = 0 /\
  dur_order (s2l "P1D") (s2l "PT24H") = 0 /\ dur_order (s2l "P1Y") (s2l "P365D") = 2 /\ dur_order (s2l "P1Y") (s2l "P367D") = -1.
Proof. vm_compute. repeat split; reflexivity. Qed.

Lemma f35_refuted : dur_ok (s2l "PY") = true /\ dur_lex (s2l "PY") = false /\ dur_ok (s2l "PT.5S") = true /\ dur_lex (s2l "PT.5S") = false /\
  dur_ok (s2l "P1YM") = true /\ dur_lex (s2l "P1YM") = false /\ dur_ok (s2l "PT0.5S") = true /\ dur_lex (s2l "PT0.5S") = true.
Proof. vm_compute. repeat split; reflexivity. Qed.
Lemma f36_refuted : durv_compare (s2l "PT0.5S") (s2l "PT0.6S") = 0 /\ dur_order (s2l "PT0.5S") (s2l "PT0.6S") = -1.
Proof. vm_compute. repeat split; reflexivity. Qed.
Lemma f37_refuted : durv_compare (s2l "-P1M") (s2l "-P30D") = 0 /\ dur_order (s2l "-P1M") (s2l "-P30D") = 2.
Proof. vm_compute. repeat split; reflexivity. Qed.
