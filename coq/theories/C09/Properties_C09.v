(** Property C09 -- Schema datatypes: lexical, value-space, facet and canonical-form correctness.
    This file contains only the property theorems; each is closed by [exact] of a lemma proved in Proofs09*.v and
    followed by [Print Assumptions].  Models: Model09*.v (following the C++); specifications: Spec09*.v.
    [fix10] is the defect switch of finding F10: [true] = with fixes/C09-decimal-lone-dot.patch, [false] = code as is. *)
From Coq Require Import ZArith QArith.
From XV Require Import C09.Spec09 C09.Model09 C09.Proofs09a C09.Proofs09b C09.Proofs09c C09.Proofs09d C09.Proofs09e.
Local Open Scope N_scope.

(** ** xs:decimal, lexical space *)

(** (repaired code) XMLBigDecimal accepts a string iff, with leading and trailing whitespace removed, it is in the
    lexical space of xs:decimal (Part 2, 3.2.3.1) *)
Theorem T09_decimal_lex : forall s, (exists d, dec_parse true s = Ok d) <-> dec_lex (trim_ws s) = true.
Proof. exact dec_parse_lex. Qed.
Print Assumptions T09_decimal_lex.

(** finding F10 on the faithful model (fix10 = false): ".", "-.", "+." are accepted although they are not in the
    lexical space of xs:decimal *)
Theorem T09_decimal_lex_refuted :
  dec_ok false [ch_dot] = true /\ dec_ok false [ch_minus; ch_dot] = true /\ dec_ok false [ch_plus; ch_dot] = true /\
  dec_lex (ws_collapse [ch_dot]) = false /\ dec_lex (ws_collapse [ch_minus; ch_dot]) = false /\
  dec_lex (ws_collapse [ch_plus; ch_dot]) = false.
Proof. exact f10_refuted. Qed.
Print Assumptions T09_decimal_lex_refuted.

(** ... and that class is the whole difference: the code as it is accepts exactly the lexical space plus the
    literals "optional sign, lone '.'", none of which is in the lexical space *)
Theorem T09_decimal_f10_class : forall s,
  ((exists d, dec_parse false s = Ok d) <-> dec_lex (trim_ws s) = true \/ lone_dot (trim_ws s) = true) /\
  (lone_dot (trim_ws s) = true -> dec_lex (trim_ws s) = false).
Proof. exact dec_parse_f10_class. Qed.
Print Assumptions T09_decimal_f10_class.

(** ** xs:decimal, value space and order *)

(** the fields (fSign, fIntVal, fTotalDigits, fScale) are normalised and denote the rational value of the literal *)
Theorem T09_decimal_value : forall fix10 s d, dec_parse fix10 s = Ok d ->
  dec_norm d /\ (dec_denote d == dec_value (trim_ws s))%Q.
Proof. exact parse_norm_value. Qed.
Print Assumptions T09_decimal_value.

(** compare (XMLBigDecimal::toCompare on two parsed literals) is the order of the values *)
Theorem T09_decimal_order : forall fix10 s1 s2 a b, dec_parse fix10 s1 = Ok a -> dec_parse fix10 s2 = Ok b ->
  dec_cmp a b = dec_order (trim_ws s1) (trim_ws s2).
Proof. exact dec_compare_is_order. Qed.
Print Assumptions T09_decimal_order.

(** hence equal values compare equal whatever their lexical form ... *)
Theorem T09_decimal_order_equal : forall fix10 s1 s2 a b, dec_parse fix10 s1 = Ok a -> dec_parse fix10 s2 = Ok b ->
  (dec_cmp a b = 0%Z <-> (dec_value (trim_ws s1) == dec_value (trim_ws s2))%Q).
Proof. exact dec_compare_equal_values. Qed.
Print Assumptions T09_decimal_order_equal.

(** ... and compare is antisymmetric, total (never indeterminate) and transitive *)
Theorem T09_decimal_order_antisym : forall a b, dec_norm a -> dec_norm b -> dec_cmp a b = (- dec_cmp b a)%Z.
Proof. exact dec_compare_antisym. Qed.
Print Assumptions T09_decimal_order_antisym.

Theorem T09_decimal_order_total : forall a b, dec_norm a -> dec_norm b ->
  dec_cmp a b = (-1)%Z \/ dec_cmp a b = 0%Z \/ dec_cmp a b = 1%Z.
Proof. exact dec_compare_total. Qed.
Print Assumptions T09_decimal_order_total.

Theorem T09_decimal_order_trans : forall a b c, dec_norm a -> dec_norm b -> dec_norm c ->
  (dec_cmp a b <= 0)%Z -> (dec_cmp b c <= 0)%Z ->
  (dec_cmp a c <= 0)%Z /\ (dec_cmp a b = (-1)%Z \/ dec_cmp b c = (-1)%Z -> dec_cmp a c = (-1)%Z).
Proof. exact dec_compare_trans. Qed.
Print Assumptions T09_decimal_order_trans.

(** non-vacuity *)
Example T09_nonvacuous_parse :
  dec_parse true [0x20; 0x2B; 0x30; 0x31; 0x2E; 0x35; 0x30; 0x0A] = Ok (mkDec 1 [0x31; 0x35] 2 1).   (* " +01.50\n" *)
Proof. vm_compute. reflexivity. Qed.
Example T09_nonvacuous_order :
  (exists a b, dec_parse true [0x31; 0x2E; 0x30] = Ok a /\ dec_parse true [0x2B; 0x30; 0x31] = Ok b /\ dec_cmp a b = 0%Z) /\
  (exists a b, dec_parse true [0x2D; 0x2E; 0x35] = Ok a /\ dec_parse true [0x2D; 0x30; 0x2E; 0x34; 0x39] = Ok b /\ dec_cmp a b = (-1)%Z).
Proof. split; eexists; eexists; (split; [vm_compute; reflexivity|split; [vm_compute; reflexivity|vm_compute; reflexivity]]). Qed.
Example T09_nonvacuous_errors :
  dec_parse true [0x31; 0x2E; 0x2E] = Err E_2ManyDecPoint /\ dec_parse true [0x31; 0x65; 0x35] = Err E_Inv_chars /\
  dec_parse true [0x20] = Err E_WSString /\ dec_parse true [] = Err E_emptyString /\ dec_parse true [0x2E] = Err E_Inv_chars.
Proof. vm_compute. repeat split; reflexivity. Qed.

(** ** binary types, boolean, dateTime (tables regenerated from /repo on every run) *)
From XV Require Import C09.Spec09b C09.Model09b C09.Spec09c C09.Model09c C09.Proofs09f.
Local Open Scope N_scope.

Theorem T09_base64_table : b64_table_ok = true.
Proof. exact b64_table. Qed.
Print Assumptions T09_base64_table.

Theorem T09_hex_table : hex_table_ok = true.
Proof. exact hex_table. Qed.
Print Assumptions T09_hex_table.

(** finding F12 (narrowing of UTF-16 units to bytes) on the faithful model, and its absence in the repaired one *)
Theorem T09_base64_narrowing_refuted :
  b64_decode true false false [0x141; 0x41; 0x41; 0x41] = Some ([0; 0; 0], [0x41; 0x41; 0x41; 0x41]) /\
  b64_lex [0x141; 0x41; 0x41; 0x41] = false /\
  b64_decode true false false [0x41; 0x41; 0x41; 0x41; 0x100; 0x21; 0x21] = Some ([0; 0; 0], [0x41; 0x41; 0x41; 0x41]) /\
  b64_lex [0x41; 0x41; 0x41; 0x41; 0x100; 0x21; 0x21] = false /\
  b64_decode true true false [0x141; 0x41; 0x41; 0x41] = None /\
  b64_decode true true false [0x41; 0x41; 0x41; 0x41; 0x100; 0x21; 0x21] = None.
Proof. exact b64_narrowing_refuted. Qed.
Print Assumptions T09_base64_narrowing_refuted.

(** finding F26 (byte 0xFF indexes one past base64Inverse) *)
Theorem T09_base64_table_refuted :
  N.of_nat (length base64Inverse) = 255 /\
  b64_decode true false false [0xFF; 0x41; 0x41; 0x41] = Some ([0; 0; 0], [0xFF; 0x41; 0x41; 0x41]) /\
  b64_lex [0xFF; 0x41; 0x41; 0x41] = false /\ b64_decode true false true [0xFF; 0x41; 0x41; 0x41] = None.
Proof. exact b64_table_refuted. Qed.
Print Assumptions T09_base64_table_refuted.

(** findings F11 (second = 60) and F29 ('.' without fraction digit before a time zone) on the faithful dateTime model *)
Theorem T09_datetime_second60_refuted :
  dt_ok false lit_sec60 = true /\ dt_lex lit_sec60 = false /\ dt_ok true lit_sec60 = false.
Proof. exact dt_second60_refuted. Qed.
Print Assumptions T09_datetime_second60_refuted.

Theorem T09_datetime_emptyfraction_refuted : dt_ok true lit_emptyfrac = true /\ dt_lex lit_emptyfrac = false.
Proof. exact dt_emptyfraction_refuted. Qed.
Print Assumptions T09_datetime_emptyfraction_refuted.

Theorem T09_datetime_maxday : forall y m, (0 <= y)%Z -> max_day y m = days_in_month y m.
Proof. exact max_day_is_days_in_month. Qed.
Print Assumptions T09_datetime_maxday.

Theorem T09_boolean_lex : forall s, bool_check s = None <-> bool_lex s = true.
Proof. exact bool_check_lex. Qed.
Print Assumptions T09_boolean_lex.

(** ** whitespace facet at work, restriction chains, dateTime normalisation *)
From XV Require Import C09.Spec09d C09.Model09d C09.Spec09e C09.Model09e C09.Proofs09g C09.Proofs09h C09.Proofs09i.
Local Open Scope N_scope.

(** SchemaValidator::normalizeWhiteSpace, called once per chunk of character data (text, CDATA sections, character
    references) with its state carried in fTrailing / fSeenNonWhiteSpace, computes the whiteSpace facet of 4.3.6 on the
    WHOLE value, for every chunking *)
Theorem T09_ws_chunks : forall m chunks, nws_run m chunks = ws_apply m (concat chunks).
Proof. exact nws_run_correct. Qed.
Print Assumptions T09_ws_chunks.

(** inheritFacet + boundsCheck over a restriction chain (abstract ordered value space, all four bound facets): if every
    step is a valid restriction of its base, the validator of the last step accepts exactly the values that satisfy the
    bounds of every step; so a derived type never accepts what its base rejects *)
Theorem T09_facet_inherit : forall (V : Type) (cmp : V -> V -> comparison) chain v,
  chain_tight V cmp (mkB None None None None) chain ->
  bounds_accept V cmp (merged_bounds V chain) v = chain_ok V cmp chain v.
Proof. exact facet_inherit. Qed.
Print Assumptions T09_facet_inherit.

Theorem T09_facet_inherit_subset : forall (V : Type) (cmp : V -> V -> comparison) chain this v,
  chain_tight V cmp (mkB None None None None) (chain ++ [this]) ->
  bounds_accept V cmp (merged_bounds V (chain ++ [this])) v = true ->
  bounds_accept V cmp (merged_bounds V chain) v = true.
Proof. exact derived_subset_of_base. Qed.
Print Assumptions T09_facet_inherit_subset.

(** XMLDateTime::normalize: for a valid dateTime (year >= 2, hour 24 allowed) and an offset up to 14:59, the local
    time is shifted by exactly the offset and month/day/hour/minute end up in range ... *)
Theorem T09_datetime_normalize_fields : forall negate tzh tzm v,
  (negate = 1 \/ negate = -1)%Z -> (0 <= tzh <= 14)%Z -> (0 <= tzm <= 59)%Z -> (2 <= n_y v)%Z -> (1 <= n_mo v <= 12)%Z ->
  (1 <= n_d v <= max_day (n_y v) (n_mo v))%Z -> (0 <= n_h v <= 24)%Z -> (0 <= n_mi v <= 59)%Z ->
  let r := normalize negate tzh tzm v in
  (secs_of r = secs_of v + negate * (tzh * 60 + tzm) * 60 /\
   1 <= n_mo r <= 12 /\ 1 <= n_d r <= max_day (n_y r) (n_mo r) /\ 0 <= n_h r <= 23 /\ 0 <= n_mi r <= 59 /\ n_s r = n_s v)%Z.
Proof. exact normalize_timeline. Qed.
Print Assumptions T09_datetime_normalize_fields.

(** ... hence the instant on the Spec's timeline is preserved: the literal's fields with its zone and the normalised
    fields read as UTC denote the same rational number of seconds *)
Theorem T09_datetime_normalize : forall negate tzh tzm v frac,
  (negate = 1 \/ negate = -1)%Z -> (0 <= tzh <= 14)%Z -> (0 <= tzm <= 59)%Z -> (2 <= n_y v)%Z -> (1 <= n_mo v <= 12)%Z ->
  (1 <= n_d v <= max_day (n_y v) (n_mo v))%Z -> (0 <= n_h v <= 24)%Z -> (0 <= n_mi v <= 59)%Z ->
  Qeq (timeline (fields_of (normalize negate tzh tzm v) frac (Some 0%Z)))
      (timeline (fields_of v frac (Some (- negate * (tzh * 60 + tzm))%Z))).
Proof. exact normalize_preserves_instant. Qed.
Print Assumptions T09_datetime_normalize.

Example T09_nonvacuous_normalize :       (* 2001-11-30T23:30:00-02:00  ->  2001-12-01T01:30:00Z *)
  normalize 1 2 0 (mkN 2001 11 30 23 30 0) = mkN 2001 12 1 1 30 0 /\
  normalize 1 14 0 (mkN 2001 12 31 23 30 0) = mkN 2002 1 1 13 30 0 /\
  normalize (-1) 14 0 (mkN 2000 3 1 0 30 0) = mkN 2000 2 29 10 30 0.
Proof. vm_compute. repeat split; reflexivity. Qed.
