(** Property C09 -- Schema datatypes: lexical, value-space, facet and canonical-form correctness.
    This file contains only the property theorems; each is closed by [exact] of a lemma proved in Proofs09*.v and
    followed by [Print Assumptions].  Models: Model09*.v (following the C++); specifications: Spec09*.v.
    [fix10] is the defect switch of finding F10: [true] = with fixes/C09-decimal-lone-dot.patch, [false] = code as is. *)
From Coq Require Import ZArith QArith.
From XV Require Import C09.Spec09 C09.Model09 C09.Proofs09a C09.Proofs09b C09.Proofs09c C09.Proofs09d C09.Proofs09e.
Local Open Scope N_scope.

(** ** xs:decimal, lexical space *)

(** (repaired code) XMLBigDecimal accepts a string iff, with leading and trailing whitespace removed, it is in the
    lexical space of xs:decimal (Part 2, 3.2.3.1) *)
Theorem T09_decimal_lex : forall s, (exists d, dec_parse true s = Ok d) <-> dec_lex (trim_ws s) = true.
Proof. exact dec_parse_lex. Qed.
Print Assumptions T09_decimal_lex.

(** finding F10 on the faithful model (fix10 = false): ".", "-.", "+." are accepted although they are not in the
    lexical space of xs:decimal *)
Theorem T09_decimal_lex_refuted :
  dec_ok false [ch_dot] = true /\ dec_ok false [ch_minus; ch_dot] = true /\ dec_ok false [ch_plus; ch_dot] = true /\
  dec_lex (ws_collapse [ch_dot]) = false /\ dec_lex (ws_collapse [ch_minus; ch_dot]) = false /\
  dec_lex (ws_collapse [ch_plus; ch_dot]) = false.
Proof. exact f10_refuted. Qed.
Print Assumptions T09_decimal_lex_refuted.

(** ... and that class is the whole difference: the code as it is accepts exactly the lexical space plus the
    literals "optional sign, lone '.'", none of which is in the lexical space *)
Theorem T09_decimal_f10_class : forall s,
  ((exists d, dec_parse false s = Ok d) <-> dec_lex (trim_ws s) = true \/ lone_dot (trim_ws s) = true) /\
  (lone_dot (trim_ws s) = true -> dec_lex (trim_ws s) = false).
Proof. exact dec_parse_f10_class. Qed.
Print Assumptions T09_decimal_f10_class.

(** ** xs:decimal, value space and order *)

(** the fields (fSign, fIntVal, fTotalDigits, fScale) are normalised and denote the rational value of the literal *)
Theorem T09_decimal_value : forall fix10 s d, dec_parse fix10 s = Ok d ->
  dec_norm d /\ (dec_denote d == dec_value (trim_ws s))%Q.
Proof. exact parse_norm_value. Qed.
Print Assumptions T09_decimal_value.

(** compare (XMLBigDecimal::toCompare on two parsed literals) is the order of the values *)
Theorem T09_decimal_order : forall fix10 s1 s2 a b, dec_parse fix10 s1 = Ok a -> dec_parse fix10 s2 = Ok b ->
  dec_cmp a b = dec_order (trim_ws s1) (trim_ws s2).
Proof. exact dec_compare_is_order. Qed.
Print Assumptions T09_decimal_order.

(** hence equal values compare equal whatever their lexical form ... *)
Theorem T09_decimal_order_equal : forall fix10 s1 s2 a b, dec_parse fix10 s1 = Ok a -> dec_parse fix10 s2 = Ok b ->
  (dec_cmp a b = 0%Z <-> (dec_value (trim_ws s1) == dec_value (trim_ws s2))%Q).
Proof. exact dec_compare_equal_values. Qed.
Print Assumptions T09_decimal_order_equal.

(** ... and compare is antisymmetric, total (never indeterminate) and transitive *)
Theorem T09_decimal_order_antisym : forall a b, dec_norm a -> dec_norm b -> dec_cmp a b = (- dec_cmp b a)%Z.
Proof. exact dec_compare_antisym. Qed.
Print Assumptions T09_decimal_order_antisym.

Theorem T09_decimal_order_total : forall a b, dec_norm a -> dec_norm b ->
  dec_cmp a b = (-1)%Z \/ dec_cmp a b = 0%Z \/ dec_cmp a b = 1%Z.
Proof. exact dec_compare_total. Qed.
Print Assumptions T09_decimal_order_total.

Theorem T09_decimal_order_trans : forall a b c, dec_norm a -> dec_norm b -> dec_norm c ->
  (dec_cmp a b <= 0)%Z -> (dec_cmp b c <= 0)%Z ->
  (dec_cmp a c <= 0)%Z /\ (dec_cmp a b = (-1)%Z \/ dec_cmp b c = (-1)%Z -> dec_cmp a c = (-1)%Z).
Proof. exact dec_compare_trans. Qed.
Print Assumptions T09_decimal_order_trans.

(** non-vacuity *)
Example T09_nonvacuous_parse :
  dec_parse true [0x20; 0x2B; 0x30; 0x31; 0x2E; 0x35; 0x30; 0x0A] = Ok (mkDec 1 [0x31; 0x35] 2 1).   (* " +01.50\n" *)
Proof. vm_compute. reflexivity. Qed.
Example T09_nonvacuous_order :
  (exists a b, dec_parse true [0x31; 0x2E; 0x30] = Ok a /\ dec_parse true [0x2B; 0x30; 0x31] = Ok b /\ dec_cmp a b = 0%Z) /\
  (exists a b, dec_parse true [0x2D; 0x2E; 0x35] = Ok a /\ dec_parse true [0x2D; 0x30; 0x2E; 0x34; 0x39] = Ok b /\ dec_cmp a b = (-1)%Z).
Proof. split; eexists; eexists; (split; [vm_compute; reflexivity|split; [vm_compute; reflexivity|vm_compute; reflexivity]]). Qed.
Example T09_nonvacuous_errors :
  dec_parse true [0x31; 0x2E; 0x2E] = Err E_2ManyDecPoint /\ dec_parse true [0x31; 0x65; 0x35] = Err E_Inv_chars /\
  dec_parse true [0x20] = Err E_WSString /\ dec_parse true [] = Err E_emptyString /\ dec_parse true [0x2E] = Err E_Inv_chars.
Proof. vm_compute. repeat split; reflexivity. Qed.

(** ** binary types, boolean, dateTime (tables regenerated from /repo on every run) *)
From XV Require Import C09.Spec09b C09.Model09b C09.Spec09c C09.Model09c C09.Proofs09f.
Local Open Scope N_scope.

Theorem T09_base64_table : b64_table_ok = true.
Proof. exact b64_table. Qed.
Print Assumptions T09_base64_table.

Theorem T09_hex_table : hex_table_ok = true.
Proof. exact hex_table. Qed.
Print Assumptions T09_hex_table.

(** finding F12 (narrowing of UTF-16 units to bytes) on the faithful model, and its absence in the repaired one *)
Theorem T09_base64_narrowing_refuted :
  b64_decode true false false [0x141; 0x41; 0x41; 0x41] = Some ([0; 0; 0], [0x41; 0x41; 0x41; 0x41]) /\
  b64_lex [0x141; 0x41; 0x41; 0x41] = false /\
  b64_decode true false false [0x41; 0x41; 0x41; 0x41; 0x100; 0x21; 0x21] = Some ([0; 0; 0], [0x41; 0x41; 0x41; 0x41]) /\
  b64_lex [0x41; 0x41; 0x41; 0x41; 0x100; 0x21; 0x21] = false /\
  b64_decode true true false [0x141; 0x41; 0x41; 0x41] = None /\
  b64_decode true true false [0x41; 0x41; 0x41; 0x41; 0x100; 0x21; 0x21] = None.
Proof. exact b64_narrowing_refuted. Qed.
Print Assumptions T09_base64_narrowing_refuted.

(** finding F26 (byte 0xFF indexed one past a 255-entry base64Inverse): repaired in /repo (ed2dbdc).  The table is
    regenerated from Base64.cpp on every run; it now has 256 entries and byte 0xFF is rejected by the faithful model with
    and without the defect switch.  (Shrinking the table again makes this obligation fail.) *)
Theorem T09_base64_table_refuted :
  N.of_nat (length base64Inverse) = 256 /\
  b64_decode true false false [0xFF; 0x41; 0x41; 0x41] = None /\
  b64_lex [0xFF; 0x41; 0x41; 0x41] = false /\ b64_decode true false true [0xFF; 0x41; 0x41; 0x41] = None.
Proof. exact b64_table_refuted. Qed.
Print Assumptions T09_base64_table_refuted.

(** findings F11 (second = 60) and F29 ('.' without fraction digit before a time zone) on the faithful dateTime model *)
Theorem T09_datetime_second60_refuted :
  dt_ok false lit_sec60 = true /\ dt_lex lit_sec60 = false /\ dt_ok true lit_sec60 = false.
Proof. exact dt_second60_refuted. Qed.
Print Assumptions T09_datetime_second60_refuted.

Theorem T09_datetime_emptyfraction_refuted : dt_ok true lit_emptyfrac = true /\ dt_lex lit_emptyfrac = false.
Proof. exact dt_emptyfraction_refuted. Qed.
Print Assumptions T09_datetime_emptyfraction_refuted.

Theorem T09_datetime_maxday : forall y m, (0 <= y)%Z -> max_day y m = days_in_month y m.
Proof. exact max_day_is_days_in_month. Qed.
Print Assumptions T09_datetime_maxday.

Theorem T09_boolean_lex : forall s, bool_check s = None <-> bool_lex s = true.
Proof. exact bool_check_lex. Qed.
Print Assumptions T09_boolean_lex.

(** ** whitespace facet at work, restriction chains, dateTime normalisation *)
From XV Require Import C09.Spec09d C09.Model09d C09.Spec09e C09.Model09e C09.Proofs09g C09.Proofs09h C09.Proofs09i.
Local Open Scope N_scope.

(** SchemaValidator::normalizeWhiteSpace, called once per chunk of character data (text, CDATA sections, character
    references) with its state carried in fTrailing / fSeenNonWhiteSpace, computes the whiteSpace facet of 4.3.6 on the
    WHOLE value, for every chunking *)
Theorem T09_ws_chunks : forall m chunks, nws_run m chunks = ws_apply m (concat chunks).
Proof. exact nws_run_correct. Qed.
Print Assumptions T09_ws_chunks.

(** inheritFacet + boundsCheck over a restriction chain (abstract ordered value space, all four bound facets): if every
    step is a valid restriction of its base, the validator of the last step accepts exactly the values that satisfy the
    bounds of every step; so a derived type never accepts what its base rejects *)
Theorem T09_facet_inherit : forall (V : Type) (cmp : V -> V -> comparison) chain v,
  chain_tight V cmp (mkB None None None None) chain ->
  bounds_accept V cmp (merged_bounds V chain) v = chain_ok V cmp chain v.
Proof. exact facet_inherit. Qed.
Print Assumptions T09_facet_inherit.

Theorem T09_facet_inherit_subset : forall (V : Type) (cmp : V -> V -> comparison) chain this v,
  chain_tight V cmp (mkB None None None None) (chain ++ [this]) ->
  bounds_accept V cmp (merged_bounds V (chain ++ [this])) v = true ->
  bounds_accept V cmp (merged_bounds V chain) v = true.
Proof. exact derived_subset_of_base. Qed.
Print Assumptions T09_facet_inherit_subset.

(** XMLDateTime::normalize: for a valid dateTime (year >= 2, hour 24 allowed) and an offset up to 14:59, the local
    time is shifted by exactly the offset and month/day/hour/minute end up in range ... *)
Theorem T09_datetime_normalize_fields : forall negate tzh tzm v,
  (negate = 1 \/ negate = -1)%Z -> (0 <= tzh <= 14)%Z -> (0 <= tzm <= 59)%Z -> (2 <= n_y v)%Z -> (1 <= n_mo v <= 12)%Z ->
  (1 <= n_d v <= max_day (n_y v) (n_mo v))%Z -> (0 <= n_h v <= 24)%Z -> (0 <= n_mi v <= 59)%Z ->
  let r := normalize negate tzh tzm v in
  (secs_of r = secs_of v + negate * (tzh * 60 + tzm) * 60 /\
   1 <= n_mo r <= 12 /\ 1 <= n_d r <= max_day (n_y r) (n_mo r) /\ 0 <= n_h r <= 23 /\ 0 <= n_mi r <= 59 /\ n_s r = n_s v /\ 1 <= n_y r)%Z.
Proof. exact normalize_timeline. Qed.
Print Assumptions T09_datetime_normalize_fields.

(** ... hence the instant on the Spec's timeline is preserved: the literal's fields with its zone and the normalised
    fields read as UTC denote the same rational number of seconds *)
Theorem T09_datetime_normalize : forall negate tzh tzm v frac,
  (negate = 1 \/ negate = -1)%Z -> (0 <= tzh <= 14)%Z -> (0 <= tzm <= 59)%Z -> (2 <= n_y v)%Z -> (1 <= n_mo v <= 12)%Z ->
  (1 <= n_d v <= max_day (n_y v) (n_mo v))%Z -> (0 <= n_h v <= 24)%Z -> (0 <= n_mi v <= 59)%Z ->
  Qeq (timeline (fields_of (normalize negate tzh tzm v) frac (Some 0%Z)))
      (timeline (fields_of v frac (Some (- negate * (tzh * 60 + tzm))%Z))).
Proof. exact normalize_preserves_instant. Qed.
Print Assumptions T09_datetime_normalize.

Example T09_nonvacuous_normalize :       (* 2001-11-30T23:30:00-02:00  ->  2001-12-01T01:30:00Z *)
  normalize 1 2 0 (mkN 2001 11 30 23 30 0) = mkN 2001 12 1 1 30 0 /\
  normalize 1 14 0 (mkN 2001 12 31 23 30 0) = mkN 2002 1 1 13 30 0 /\
  normalize (-1) 14 0 (mkN 2000 3 1 0 30 0) = mkN 2000 2 29 10 30 0.
Proof. vm_compute. repeat split; reflexivity. Qed.

(** ** dateTime: order *)
From Coq Require Import String.
From XV Require Import C09.Proofs09j C09.Proofs09k.
Local Open Scope string_scope.
Local Open Scope N_scope.

(** compareOrder (field by field, then the fraction) on in-range values = comparison of the instants *)
Theorem T09_datetime_compare_fields : forall a fa b fb, in_range a -> in_range b ->
  all_digits fa = true -> all_digits fb = true -> compare_order a fa b fb = q_cmp (tl a fa) (tl b fb).
Proof. exact compare_order_spec. Qed.
Print Assumptions T09_datetime_compare_fields.

(** XMLDateTime::compare on two parsed (validated, normalised) values is the order relation of 3.2.7.4 on their
    timelines: EQUAL iff same instant, LESS/GREATER, and for a zoned against an unzoned value INDETERMINATE exactly
    inside the +-14 h window -- outside finding F30 (the two values are exactly 14 h apart), F31 (hour 24) and F32
    (year 0001/negative years), which [dtp_ok] and the hypothesis exclude *)
Theorem T09_datetime_order : forall a b, dtp_ok a -> dtp_ok b ->
  (p_zoned a <> p_zoned b ->
     ~ Qeq (timeline (spec_fields a)) (timeline (spec_fields b) + h14) /\
     ~ Qeq (timeline (spec_fields a)) (timeline (spec_fields b) - h14)) ->
  dt_compare a b = dt_order_f (spec_fields a) (spec_fields b).
Proof. exact dt_compare_spec. Qed.
Print Assumptions T09_datetime_order.

(** parse + validateDateTime + normalize deliver such values (years >= 2, hour not 24) *)
Theorem T09_datetime_parse_ok : forall b v p, dt_parse true b = Some v -> dt_parse_norm true b = Some p ->
  (2 <= dt_year v)%Z -> n_h (p_n p) <> 24%Z -> dtp_ok p.
Proof. exact parse_norm_ok. Qed.
Print Assumptions T09_datetime_parse_ok.

(** the excluded classes are genuine: findings F30, F31, F32 on the faithful model against the Spec *)
Theorem T09_datetime_f30_refuted :
  dtv_compare true (s2l "2000-01-01T12:00:00") (s2l "2000-01-01T12:00:00+14:00") = 0%Z /\
  dt_order (s2l "2000-01-01T12:00:00") (s2l "2000-01-01T12:00:00+14:00") = 2%Z /\
  dtv_compare true (s2l "1999-12-31T22:00:00Z") (s2l "2000-01-01T12:00:00") = 0%Z /\
  dt_order (s2l "1999-12-31T22:00:00Z") (s2l "2000-01-01T12:00:00") = 2%Z.
Proof. exact f30_refuted. Qed.
Print Assumptions T09_datetime_f30_refuted.
Theorem T09_datetime_f31_refuted :
  dtv_compare true (s2l "2000-01-01T24:00:00") (s2l "2000-01-02T00:00:00") = (-1)%Z /\
  dt_order (s2l "2000-01-01T24:00:00") (s2l "2000-01-02T00:00:00") = 0%Z /\
  dt_canon true (s2l "2000-01-01T24:00:00") = Some (s2l "2000-01-01T00:00:00") /\
  dt_canon_of (s2l "2000-01-01T24:00:00") (s2l "2000-01-01T00:00:00") = false.
Proof. exact f31_refuted. Qed.
Print Assumptions T09_datetime_f31_refuted.
Theorem T09_datetime_f32_refuted :
  dt_canon true (s2l "0001-01-01T05:00:00+14:00") = Some (s2l "0000-12-31T15:00:00Z") /\
  dt_lex (s2l "0000-12-31T15:00:00Z") = false /\ dt_canon true (s2l "0000-12-31T15:00:00Z") = None.
Proof. exact f32_refuted. Qed.
Print Assumptions T09_datetime_f32_refuted.
Example T09_nonvacuous_datetime_order :
  match dt_parse_norm true (s2l "2001-11-30T23:30:00.5-02:00"), dt_parse_norm true (s2l "2001-12-01T01:30:00.50Z") with
  | Some a, Some b => dt_compare a b = 0%Z /\ p_n a = mkN 2001 12 1 1 30 0
  | _, _ => False
  end.
Proof. exact order_nonvacuous. Qed.

(** ** decimal bounds; hexBinary; base64Binary; list and union *)
From XV Require Import C09.Spec09f C09.Model09f C09.Proofs09l C09.Proofs09m C09.Proofs09n C09.Proofs09o.
Local Open Scope N_scope.

(** boundsCheck accepts exactly the values inside the bounds, for every combination of present/absent
    minInclusive, minExclusive, maxInclusive, maxExclusive (the record [f] ranges over all 16) *)
Theorem T09_bounds : forall f d, dec_norm d ->
  opt_norm (f_maxE f) -> opt_norm (f_maxI f) -> opt_norm (f_minI f) -> opt_norm (f_minE f) ->
  (bounds_check f d = None <-> bounds_spec f d = true).
Proof. exact bounds_check_spec. Qed.
Print Assumptions T09_bounds.

(** hexBinary: accepted iff in the lexical space, for every string of code units; the length facet counts octets;
    the canonical form is canonical, value preserving and idempotent *)
Theorem T09_hex : forall s, hex_ok s = hex_lex s.
Proof. exact hex_ok_lex. Qed.
Print Assumptions T09_hex.
Theorem T09_hex_length : forall s, hex_length s = match hex_value s with Some v => Some (length v) | None => None end.
Proof. exact hex_length_spec. Qed.
Print Assumptions T09_hex_length.
Theorem T09_hex_canon : forall s c, hex_canon s = Some c ->
  hex_is_canonical c = true /\ hex_value c = hex_value s /\ hex_canon c = Some c.
Proof. exact hex_canon_spec. Qed.
Print Assumptions T09_hex_canon.

(** base64Binary (Conf_Schema, code at HEAD = fix12, fix12b): for every non-empty string, decode succeeds iff the string
    is in the lexical space of the errata grammar; the octets are the Spec's and the canonical data is the literal
    without its spaces *)
Theorem T09_base64 : forall s, s <> [] ->
  match b64_decode true true true s with
  | Some (v, q) => b64_value s = Some v /\ despace false s = Some q
  | None => b64_value s = None
  end.
Proof. exact b64_decode_spec. Qed.
Print Assumptions T09_base64.
Theorem T09_base64_lex : forall s, s <> [] ->
  ((exists v q, b64_decode true true true s = Some (v, q)) <-> b64_lex s = true).
Proof. exact b64_lex_iff. Qed.
Print Assumptions T09_base64_lex.

(** list: every item valid and the length facets count items; union: some member accepts; lists of unions *)
Theorem T09_list : forall item len_ok s,
  list_check item len_ok (ws_collapse s) = true <->
  Forall (fun t => item t = true) (tokens (ws_collapse s)) /\ len_ok (length (tokens (ws_collapse s))) = true.
Proof. exact list_check_forall. Qed.
Print Assumptions T09_list.
Theorem T09_list_items : forall l, Forall (fun t => t <> [] /\ forallb (fun c => negb (c =? ch_space)) t = true) (tokens l).
Proof. exact tokens_items. Qed.
Print Assumptions T09_list_items.
Theorem T09_union : forall members s, union_check members s = true <-> exists m, In m members /\ m s = true.
Proof. exact union_check_exists. Qed.
Print Assumptions T09_union.
Theorem T09_list_of_union : forall members len_ok s,
  list_check (union_check members) len_ok (ws_collapse s) = true <->
  Forall (fun t => exists m, In m members /\ m t = true) (tokens (ws_collapse s)) /\ len_ok (length (tokens (ws_collapse s))) = true.
Proof. exact list_of_union. Qed.
Print Assumptions T09_list_of_union.

(** ** float / double: lexical space and special values *)
From XV Require Import C09.Proofs09p.
Local Open Scope N_scope.

(** XMLAbstractDoubleFloat::init accepts a string iff, trimmed, it is in the lexical space of xs:double/xs:float
    (decimal mantissa, optional E/e + integer exponent, or INF, -INF, NaN) -- or it is '+.' / '-.' (finding F33).
    strtod's "whole string consumed" is modelled by its grammar over the filtered alphabet; values are not modelled *)
Theorem T09_float_lex : forall s, float_init s = float_lex (trim_ws s) || f33 (trim_ws s).
Proof. exact float_init_spec. Qed.
Print Assumptions T09_float_lex.
Theorem T09_float_lex_guarded : forall s, f33 (trim_ws s) = false -> float_init s = float_lex (trim_ws s).
Proof. exact float_lex_guarded. Qed.
Print Assumptions T09_float_lex_guarded.
Theorem T09_float_f33_refuted :
  float_init [ch_minus; ch_dot] = true /\ float_lex [ch_minus; ch_dot] = false /\
  float_init [ch_plus; ch_dot] = true /\ float_lex [ch_plus; ch_dot] = false /\ float_init [ch_dot] = false.
Proof. exact f33_refuted. Qed.
Print Assumptions T09_float_f33_refuted.
Theorem T09_float_special : forall a b, ~ (a = K_Finite /\ b = K_NaN) -> float_cmp_special a b = special_order a b.
Proof. exact float_special_order. Qed.
Print Assumptions T09_float_special.
Theorem T09_float_f34_refuted : float_cmp_special K_Finite K_NaN = Some (-2)%Z /\ special_order K_Finite K_NaN = Some 2%Z.
Proof. exact f34_refuted. Qed.
Print Assumptions T09_float_f34_refuted.

(** ** decimal: canonical representation and digit facets *)
From XV Require Import C09.Proofs09q C09.Proofs09r.

(** XMLBigDecimal::getCanonicalRepresentation: the result is a canonical literal (3.2.3.2) of the lexical space, denotes
    the value of the input, and is its own canonical representation *)
Theorem T09_decimal_canon : forall fix10 s d, dec_parse_raw fix10 s = Ok d ->
  let c := dec_canon_of d in
  dec_is_canonical c = true /\ dec_lex c = true /\ Qeq (dec_value c) (dec_value (trim_ws s)) /\ dec_canon true c = Some c.
Proof. exact dec_canon_spec. Qed.
Print Assumptions T09_decimal_canon.

(** equal values have equal normalised fields (hence equal canonical forms) *)
Theorem T09_decimal_unique : forall a b, dec_norm a -> dec_norm b -> dec_cmp a b = 0%Z -> a = b.
Proof. exact cmp_zero_eq. Qed.
Print Assumptions T09_decimal_unique.

(** totalDigits / fractionDigits: the tests `fTotalDigits > totalDigits || fScale > totalDigits` and
    `fScale > fractionDigits` of checkContent decide the definitions of 4.3.11 / 4.3.12 (E2-44) on the value:
    expressible as i * 10^-n with |i| < 10^totalDigits and n <= totalDigits, resp. n <= fractionDigits *)
Theorem T09_decimal_digits : forall d td fd, dec_norm d ->
  (((td <? d_total d)%nat || (td <? d_scale d)%nat = false) <-> total_digits_ok (dec_denote d) td) /\
  ((fd <? d_scale d)%nat = false <-> fraction_digits_ok (dec_denote d) fd).
Proof. exact digits_checks. Qed.
Print Assumptions T09_decimal_digits.
Theorem T09_decimal_scale_minimal : forall d i n, dec_norm d -> Qeq (dec_denote d) (i # pow10 n) ->
  (d_scale d <= n)%nat /\ i = (d_sign d * dval (d_digits d) * P10 (n - d_scale d))%Z.
Proof. exact scale_minimal. Qed.
Print Assumptions T09_decimal_scale_minimal.

(** ** dateTime: field ranges *)
From XV Require Import C09.Proofs09s.

(** validateDateTime (seconds <= 59) accepts exactly the field ranges of 3.2.7; maxDayInMonthFor = days of the month *)
Theorem T09_datetime_valid : forall v, (0 <= dt_day v)%Z -> (0 <= dt_hour v)%Z -> (0 <= dt_min v)%Z -> (0 <= dt_sec v)%Z ->
  (0 <= dt_tzh v)%Z -> (0 <= dt_tzm v)%Z -> (dt_validate true v = true <-> fields_valid v).
Proof. exact validate_spec. Qed.
Print Assumptions T09_datetime_valid.
Theorem T09_datetime_maxday_all : forall y m, max_day y m = days_in_month y m.
Proof. exact max_day_all_years. Qed.
Print Assumptions T09_datetime_maxday_all.
(** every dateTime literal the parser accepts has fields in range (soundness half of the lexical theorem) *)
Theorem T09_datetime_lex_fields_partial : forall b v, dt_parse true b = Some v -> fields_valid v.
Proof. exact parsed_fields_valid. Qed.
Print Assumptions T09_datetime_lex_fields_partial.

(** ** xs:date: the lexical theorem *)
From XV Require Import C09.Spec09g C09.Model09g C09.Proofs09t.

(** XMLDateTime::parseDate (getDate with indexOf/parseInt, parseTimeZone/getTimeZone, validateDateTime) accepts a string
    iff it is in the lexical space of xs:date:  '-'? yyyy '-' mm '-' dd zzzzzz?  with at least four year digits, no
    leading zero beyond four, year 0000 excluded, month 01-12, day valid for the month and year, zone 'Z' or
    (+|-)hh:mm up to 14:00 -- for every string whose year has at most 9 digits (the implementation keeps it in a C int) *)
Theorem T09_date_lex : forall b, (year_digits b <= 9)%nat -> date_ok true b = date_lex b.
Proof. exact date_lex_thm. Qed.
Print Assumptions T09_date_lex.
(** the time-zone part alone (shared with the other date/time types) *)
Theorem T09_timezone_lex : forall pre z,
  match date_zone (pre ++ z) (length pre) with
  | Some (h, m) => (0 <= h <= 99 /\ 0 <= m <= 99)%Z /\ tz_lex z = ((h <? 14) && (m <=? 59) || (h =? 14) && (m =? 0))%Z
  | None => tz_lex z = false
  end.
Proof. exact date_zone_spec. Qed.
Print Assumptions T09_timezone_lex.

(** ** xs:duration *)
From XV Require Import C09.Spec09h C09.Model09h C09.Proofs09u.

(** XMLDateTime::compare(d1, d2, strict) on durations: EQUAL when the (normalised) fields coincide, otherwise the
    comparisons after adding both durations to the four reference dateTimes of 3.2.6.2, determinate iff all four
    agree -- the same combination as the Spec order [dur_order_v] applies to the timeline comparisons *)
Theorem T09_duration_combine : forall a b,
  dur_compare a b true =
  if (fields_cmp (dur_normalize a) (dur_normalize b) =? EQUAL)%Z then EQUAL
  else let c i := let r := nth i ref_dates (0, 0)%Z in fields_cmp (add_duration r a) (add_duration r b) in
       agree4 (c 0%nat) (c 1%nat) (c 2%nat) (c 3%nat).
Proof. exact dur_compare_spec. Qed.
Print Assumptions T09_duration_combine.
Theorem T09_duration_order_shape : forall x y,
  dur_order_v x y =
  let c i := let r := nth i ref_dates (0, 0)%Z in q_cmp (add_to_ref r x) (add_to_ref r y) in
  agree4 (c 0%nat) (c 1%nat) (c 2%nat) (c 3%nat).
Proof. exact dur_order_shape. Qed.
Print Assumptions T09_duration_order_shape.
(** the indeterminate windows on model and Spec (P2M vs P59D..P62D incomparable, P63D greater, P1Y = P12M, ...) *)
Theorem T09_duration_windows :
  durv_compare (s2l "P2M") (s2l "P62D") = (-1)%Z /\ durv_compare (s2l "P62D") (s2l "P2M") = (-1)%Z /\ dur_order (s2l "P2M") (s2l "P62D") = 2%Z /\
  durv_compare (s2l "P2M") (s2l "P63D") = (-1)%Z /\ durv_compare (s2l "P63D") (s2l "P2M") = 1%Z /\ dur_order (s2l "P2M") (s2l "P63D") = (-1)%Z /\
  dur_order (s2l "P2M") (s2l "P59D") = 2%Z /\ dur_order (s2l "P2M") (s2l "P58D") = 1%Z /\
  dur_order (s2l "P1Y") (s2l "P12M") = 0%Z /\ durv_compare (s2l "P1Y") (s2l "P12M") = 0%Z /\
  dur_order (s2l "P1D") (s2l "PT24H") = 0%Z /\ dur_order (s2l "P1Y") (s2l "P365D") = 2%Z /\ dur_order (s2l "P1Y") (s2l "P367D") = (-1)%Z.
Proof. exact dur_windows. Qed.
Print Assumptions T09_duration_windows.
Theorem T09_duration_f35_refuted :
  dur_ok (s2l "PY") = true /\ dur_lex (s2l "PY") = false /\ dur_ok (s2l "PT.5S") = true /\ dur_lex (s2l "PT.5S") = false /\
  dur_ok (s2l "P1YM") = true /\ dur_lex (s2l "P1YM") = false /\ dur_ok (s2l "PT0.5S") = true /\ dur_lex (s2l "PT0.5S") = true.
Proof. exact f35_refuted. Qed.
Print Assumptions T09_duration_f35_refuted.
Theorem T09_duration_f36_refuted : durv_compare (s2l "PT0.5S") (s2l "PT0.6S") = 0%Z /\ dur_order (s2l "PT0.5S") (s2l "PT0.6S") = (-1)%Z.
Proof. exact f36_refuted. Qed.
Print Assumptions T09_duration_f36_refuted.
Theorem T09_duration_f37_refuted : durv_compare (s2l "-P1M") (s2l "-P30D") = 0%Z /\ dur_order (s2l "-P1M") (s2l "-P30D") = 2%Z.
Proof. exact f37_refuted. Qed.
Print Assumptions T09_duration_f37_refuted.

From XV Require Import C09.Proofs09v.
(** addDuration on a reference dateTime lands on the instant the Spec computes (reference + months, then + seconds) and
    leaves a valid, in-range dateTime *)
Theorem T09_duration_add : forall r u, is_ref r -> dur_nonneg u ->
  in_range (add_duration r u) /\ Qeq (add_to_ref r (dur_val u)) (secs_of (add_duration r u) # 1).
Proof. exact add_duration_timeline. Qed.
Print Assumptions T09_duration_add.
(** XMLDateTime::compare(d1, d2, strict) on durations with non-negative integral fields IS the partial order of 3.2.6.2 on
    the values (months, seconds): determinate iff the four reference comparisons agree.  Negative durations (F37) and
    fractional seconds (F36) are excluded by [dur_nonneg] / [dur_val] *)
Theorem T09_duration_order : forall a b, dur_nonneg a -> dur_nonneg b ->
  dur_compare a b true = dur_order_v (dur_val a) (dur_val b).
Proof. exact dur_compare_order. Qed.
Print Assumptions T09_duration_order.

(** ** value-space facets of list and union types; canonical form of xs:date *)
From XV Require Import C09.Spec09i C09.Model09i C09.Spec09j C09.Model09j C09.Proofs09w C09.Proofs09x.
Local Open Scope N_scope.

(** enumeration on a list type (ListDatatypeValidator::checkContent + valueSpaceCheck): a value is accepted iff some
    enumeration member has the same number of items and is item-wise equal in the item type's value space -- in
    particular no proper prefix, proper extension or permutation of a member passes unless it is itself a member *)
Theorem T09_list_enum : forall (item_cmp : list N -> list N -> Z) (item_eq : list N -> list N -> bool),
  (forall x y, (item_cmp x y =? 0)%Z = item_eq x y) -> forall content enums,
  Forall (fun t => item_eq t t = true) (tokens content) ->
  list_enum_check item_cmp content enums = list_enum_valid item_eq (map tokens enums) (tokens content).
Proof. exact list_enum_check_spec. Qed.
Print Assumptions T09_list_enum.
Theorem T09_list_enum_length : forall (item_eq : list N -> list N -> bool) a b, items_eq item_eq a b = true -> length a = length b.
Proof. exact items_eq_length. Qed.
Print Assumptions T09_list_enum_length.
(** finding F38: union equality through ANY member type (1 = true for int|boolean) against the Spec's union equality *)
Theorem T09_union_eq_refuted :
  union_compare [mv_int; mv_bool] [0x31] C09.Spec09b.s_true = 0%Z /\ union_eq [sm_int; sm_bool] [0x31] C09.Spec09b.s_true = false /\
  union_enum_check [mv_int; mv_bool] C09.Spec09b.s_true [[0x31]] = true.
Proof. exact union_eq_refuted. Qed.
Print Assumptions T09_union_eq_refuted.

(** getDateCanonicalRepresentation: from the normalised (UTC) fields of a date (year >= 2) it computes a valid calendar
    date and a recoverable zone between -11:59 and +12:00 that denote the SAME starting instant (value preservation,
    including the day / month / year roll-over when the UTC time is 12:00 or later) *)
Theorem T09_date_canon : forall n, in_range n -> (2 <= n_y n)%Z -> n_s n = 0%Z ->
  let '((y, mo, d), z) := date_canon_fields n in
  (date_start_secs y mo d z = secs_of n /\ -719 <= z <= 720 /\ Proofs09j.date_ok y mo d)%Z.
Proof. exact date_canon_fields_spec. Qed.
Print Assumptions T09_date_canon.

(** ** the repaired double/float code (fixes/C09-double-compare-nan.patch, C09-double-sign-dot.patch) *)
Theorem T09_float_special_fixed : forall a b, float_cmp_special_f true a b = special_order a b.
Proof. exact float_special_fixed. Qed.
Print Assumptions T09_float_special_fixed.
Theorem T09_float_f33_fixed :
  float_init_f true [ch_minus; ch_dot] = false /\ float_init_f true [ch_plus; ch_dot] = false /\
  float_init_f true [ch_minus; ch_dot; ch_0] = true /\ float_init_f true [ch_plus; ch_0; ch_dot] = true /\ float_init_f true [ch_0] = true.
Proof. exact f33_fixed. Qed.
Print Assumptions T09_float_f33_fixed.

(** ** canonical representation of xs:float / xs:double: XMLAbstractDoubleFloat::getCanonicalRepresentation (Model09k)
    against 3.2.4.2 (Spec09k), on the decimal-scientific model (mantissa * 10^exponent as a rational) *)
From XV Require Import C09.Spec09k C09.Model09k C09.Proofs09y.
(** finding F40 (the code as it was, fix40 = false): 0.001 |-> 0.01E-1, which is not canonical (the digit in front of the
    point is 0) and is not a fixed point (0.01E-1 |-> 0.1E-2) *)
Theorem T09_float_canon_f40_refuted :
  exists l c c', float_lex l = true /\ float_canon true false l = Some c /\ float_is_canonical c = false /\
                 float_canon true false c = Some c' /\ c' <> c.
Proof. exact float_canon_f40_refuted. Qed.
Print Assumptions T09_float_canon_f40_refuted.
(** the repaired code (fixes/C09-double-canonical-leading-zeros.patch) on the witnesses: 1.0E-3, canonical, of the same
    value, and a fixed point *)
Theorem T09_float_canon_f40_fixed_witness :
  float_canon true true lit_0_001 = Some lit_1_0Em3 /\ float_canon_of lit_0_001 lit_1_0Em3 = true /\
  float_canon true true lit_0_01Em1 = Some lit_1_0Em3 /\ float_canon true true lit_1_0Em3 = Some lit_1_0Em3.
Proof. exact float_canon_f40_fixed_witness. Qed.
Print Assumptions T09_float_canon_f40_fixed_witness.
(** PARTIAL (the invariant behind F40, for all inputs): for every normalised non-zero decimal (= every mantissa that
    parseDecimal accepts with sign <> 0) and every exponent, the repaired normaliser writes a digit other than 0 in front
    of the point.  Missing for the full canonical-form theorem: value preservation and the shape of the assembled text
    (exponent via binToText, trailing zeros) -- both judged by the Spec (float_canon_of) on every run instead. *)
Theorem T09_float_canon_lead_nonzero_partial : forall d e, dec_norm d -> d_digits d <> [] ->
  exists c r, fst (fcanon_parts true d e) = c :: r /\ is_digit c = true /\ (c =? ch_0) = false.
Proof. exact fcanon_lead_nonzero. Qed.
Print Assumptions T09_float_canon_lead_nonzero_partial.
Example T09_float_canon_lead_nonvacuous :
  exists d, dec_parse_raw true lit_0_001 = Ok d /\ d_digits d <> [] /\ fst (fcanon_parts true d 0%Z) = [0x31%N].
Proof. exact fcanon_lead_nonvacuous. Qed.
