(** C09 lemmas, part b: XMLBigDecimal::parseDecimal accepts exactly the lexical space of xs:decimal
    (repaired model), and differs from the code as it is exactly on the literals without any digit. *)
From Coq Require Import ZArith Lia.
From XV Require Import C09.Spec09 C09.Model09 C09.Proofs09a.
Local Open Scope N_scope.

(** * characters *)
Lemma digit_not_dot : forall c, is_digit c = true -> (c =? ch_dot) = false.
Proof. intros c H. unfold is_digit, ch_dot in *. apply andb_prop in H. destruct H as [H1 H2].
  apply N.leb_le in H1. apply N.eqb_neq. lia. Qed.

Lemma zero_is_digit : forall c, (c =? ch_0) = true -> is_digit c = true.
Proof. intros c H. apply N.eqb_eq in H. subst c. reflexivity. Qed.

(** * the scan loop *)
Lemma scan_true_spec : forall l,
  if all_digits l then dec_scan l true = Ok (l, 0%nat) else exists e, dec_scan l true = Err e.
Proof.
  induction l as [|c r IH]; [reflexivity|].
  cbn [all_digits forallb dec_scan]. fold (all_digits r).
  destruct (c =? ch_dot) eqn:Ed.
  - assert (is_digit c = false) as ->.
    { destruct (is_digit c) eqn:D; [|reflexivity]. rewrite (digit_not_dot c D) in Ed. discriminate. }
    cbn [andb]. eexists; reflexivity.
  - destruct (is_digit c) eqn:D; cbn [andb negb].
    + destruct (all_digits r).
      * rewrite IH. reflexivity.
      * destruct IH as [e ->]. eexists; reflexivity.
    + eexists; reflexivity.
Qed.

Definition udec_shape (l : list N) : bool :=
  match split_dot l with
  | (ip, None) => all_digits ip
  | (ip, Some fp) => all_digits ip && all_digits fp
  end.
Definition udec_digits (l : list N) : list N * nat :=
  match split_dot l with
  | (ip, None) => (ip, 0%nat)
  | (ip, Some fp) => (ip ++ fp, length fp)
  end.

Lemma scan_false_spec : forall l,
  if udec_shape l then dec_scan l false = Ok (udec_digits l) else exists e, dec_scan l false = Err e.
Proof.
  induction l as [|c r IH]; [reflexivity|].
  unfold udec_shape, udec_digits in *. cbn [split_dot dec_scan].
  destruct (c =? ch_dot) eqn:Ed.
  - cbn [all_digits forallb andb app]. fold (all_digits r).
    pose proof (scan_true_spec r) as T. destruct (all_digits r).
    + rewrite T. reflexivity.
    + destruct T as [e ->]. eexists; reflexivity.
  - destruct (split_dot r) as [a [fp|]] eqn:Es.
    + cbn [all_digits forallb]. fold (all_digits a).
      destruct (is_digit c) eqn:D; cbn [andb negb].
      * destruct (all_digits a && all_digits fp).
        -- rewrite IH. reflexivity.
        -- destruct IH as [e ->]. eexists; reflexivity.
      * eexists; reflexivity.
    + cbn [all_digits forallb]. fold (all_digits a).
      destruct (is_digit c) eqn:D; cbn [andb negb].
      * destruct (all_digits a).
        -- rewrite IH. reflexivity.
        -- destruct IH as [e ->]. eexists; reflexivity.
      * eexists; reflexivity.
Qed.

Lemma udec_lex_shape : forall l, udec_lex l = udec_shape l && negb (nilb (fst (udec_digits l))).
Proof.
  intros l. unfold udec_lex, udec_shape, udec_digits. destruct (split_dot l) as [ip [fp|]]; cbn [fst].
  - f_equal. destruct ip, fp; reflexivity.
  - reflexivity.
Qed.

(** * leading zeros *)
Definition is0 (c : N) : bool := c =? ch_0.

Lemma drop_zeros_split : forall r, exists zs, r = zs ++ drop_zeros r /\ forallb is0 zs = true /\
  (length (drop_zeros r) = length r <-> zs = []).
Proof.
  induction r as [|c r IH].
  - exists []. repeat split; auto.
  - cbn [drop_zeros]. destruct (c =? ch_0) eqn:E.
    + destruct IH as [zs [H1 [H2 H3]]]. exists (c :: zs). split; [|split].
      * cbn [app]. f_equal. exact H1.
      * cbn [forallb]. unfold is0 at 1. rewrite E. exact H2.
      * split; [|discriminate]. intros HL. exfalso.
        assert (length (drop_zeros r) <= length r)%nat.
        { rewrite H1 at 2. rewrite app_length. lia. }
        cbn [length] in HL. lia.
    + exists []. repeat split; auto.
Qed.

Lemma split_dot_zeros : forall zs l, forallb is0 zs = true ->
  split_dot (zs ++ l) = (zs ++ fst (split_dot l), snd (split_dot l)).
Proof.
  induction zs as [|z zs IH]; intros l H.
  - cbn [app]. destruct (split_dot l); reflexivity.
  - cbn [forallb] in H. apply andb_prop in H. destruct H as [Hz H].
    cbn [app split_dot]. rewrite (digit_not_dot z (zero_is_digit z Hz)). rewrite (IH l H). reflexivity.
Qed.

Lemma zeros_all_digits : forall zs, forallb is0 zs = true -> all_digits zs = true.
Proof.
  induction zs as [|z zs IH]; intros H; [reflexivity|].
  cbn [forallb] in H. apply andb_prop in H. destruct H as [Hz H].
  cbn [all_digits forallb]. rewrite (zero_is_digit z Hz). exact (IH H).
Qed.

Lemma all_digits_app : forall a b, all_digits (a ++ b) = all_digits a && all_digits b.
Proof. intros. unfold all_digits. apply forallb_app. Qed.

Lemma udec_shape_zeros : forall zs l, forallb is0 zs = true -> udec_shape (zs ++ l) = udec_shape l.
Proof.
  intros zs l H. unfold udec_shape. rewrite (split_dot_zeros zs l H).
  destruct (split_dot l) as [ip [fp|]]; cbn [fst snd]; rewrite all_digits_app, (zeros_all_digits zs H); reflexivity.
Qed.

Lemma udec_lex_zeros : forall zs l, forallb is0 zs = true ->
  udec_lex (zs ++ l) = udec_shape l && (negb (nilb zs) || negb (nilb (fst (udec_digits l)))).
Proof.
  intros zs l H. rewrite udec_lex_shape, (udec_shape_zeros zs l H). f_equal.
  unfold udec_digits. rewrite (split_dot_zeros zs l H).
  destruct (split_dot l) as [ip [fp|]]; cbn [fst snd]; destruct zs; cbn [app nilb negb orb]; reflexivity.
Qed.

(** * the body of parseDecimal against the lexical space *)
Definition body_ok (fix10 : bool) (b : list N) : bool :=
  match dec_parse_body fix10 b with Ok _ => true | Err _ => false end.

Lemma unsigned_ok : forall fix10 r sign, r <> [] ->
  match dec_parse_unsigned fix10 sign r with Ok _ => true | Err _ => false end
  = if fix10 then udec_lex r else udec_shape r.
Proof.
  intros fix10 r sign Hr.
  destruct (drop_zeros_split r) as [zs [E [Hz HL]]].
  assert (Hlex : udec_lex r = udec_shape (drop_zeros r) && (negb (nilb zs) || negb (nilb (fst (udec_digits (drop_zeros r)))))).
  { rewrite E at 1. apply udec_lex_zeros. exact Hz. }
  assert (Hsh : udec_shape r = udec_shape (drop_zeros r)).
  { rewrite E at 1. apply udec_shape_zeros. exact Hz. }
  rewrite Hlex, Hsh. unfold dec_parse_unsigned. cbv zeta.
  destruct (drop_zeros r) as [|c r'] eqn:Er'.
  - (* nothing but zeros *)
    destruct zs; [rewrite app_nil_r in E; subst r; contradiction|].
    destruct fix10; reflexivity.
  - pose proof (scan_false_spec (c :: r')) as S.
    destruct (udec_shape (c :: r')).
    + rewrite S. destruct (udec_digits (c :: r')) as [ds fract]. cbn [fst].
      destruct fix10; cbn [andb].
      * destruct (nilb ds) eqn:Nd; cbn [andb negb orb].
        -- destruct (Nat.eqb_spec (length (c :: r')) (length r)) as [L|L].
           ++ apply HL in L. subst zs. reflexivity.
           ++ destruct zs; [exfalso; apply L; apply HL; reflexivity|].
              cbn [nilb negb orb]. destruct (strip_tz (rev ds) fract). reflexivity.
        -- rewrite orb_true_r. destruct (strip_tz (rev ds) fract). reflexivity.
      * destruct (strip_tz (rev ds) fract). reflexivity.
    + destruct S as [e ->]. destruct fix10; reflexivity.
Qed.

Lemma split_dot_inv : forall l ip o, split_dot l = (ip, o) ->
  l = ip ++ match o with Some fp => ch_dot :: fp | None => [] end.
Proof.
  induction l as [|c r IH]; intros ip o H; cbn [split_dot] in H.
  - inversion H. reflexivity.
  - destruct (c =? ch_dot) eqn:E.
    + inversion H. subst. apply N.eqb_eq in E. subst c. reflexivity.
    + destruct (split_dot r) as [a b]. inversion H. subst. cbn [app]. f_equal. apply IH. reflexivity.
Qed.

(** the literals of finding F10: an optional sign followed by a lone '.' *)
Definition lone_dot_u (r : list N) : bool := match r with [c] => c =? ch_dot | _ => false end.
Definition lone_dot (b : list N) : bool := lone_dot_u (snd (strip_sign b)).

Lemma shape_lex : forall r, r <> [] -> udec_shape r = udec_lex r || lone_dot_u r.
Proof.
  intros r Hr. rewrite udec_lex_shape. unfold udec_shape, udec_digits.
  destruct (split_dot r) as [ip [fp|]] eqn:Es; cbn [fst].
  - apply split_dot_inv in Es. destruct ip as [|i ip].
    + destruct fp as [|f fp].
      * subst r. reflexivity.
      * cbn [app nilb negb]. rewrite andb_true_r. subst r. cbn [app lone_dot_u]. rewrite orb_false_r. reflexivity.
    + cbn [app nilb negb]. rewrite andb_true_r. subst r. cbn [app lone_dot_u].
      destruct (ip ++ ch_dot :: fp) eqn:X; [destruct ip; discriminate|]. rewrite orb_false_r. reflexivity.
  - pose proof Es as Es'. apply split_dot_inv in Es. rewrite app_nil_r in Es. subst ip.
    destruct r as [|c r]; [contradiction|]. cbn [nilb negb]. rewrite andb_true_r.
    cbn [lone_dot_u]. destruct r.
    + cbn [split_dot] in Es'. destruct (c =? ch_dot); [discriminate|]. rewrite orb_false_r. reflexivity.
    + rewrite orb_false_r. reflexivity.
Qed.

Lemma lone_dot_not_lex : forall r, lone_dot_u r = true -> udec_lex r = false.
Proof.
  intros r H. destruct r as [|c [|d r]]; try discriminate. cbn [lone_dot_u] in H.
  apply N.eqb_eq in H. subst c. reflexivity.
Qed.

Lemma body_ok_spec : forall fix10 b,
  body_ok fix10 b = if fix10 then dec_lex b else dec_lex b || lone_dot b.
Proof.
  intros fix10 b. unfold body_ok, dec_parse_body, dec_lex, lone_dot, strip_sign.
  destruct b as [|c r]; [destruct fix10; reflexivity|].
  destruct (c =? ch_minus) eqn:Em; [|destruct (c =? ch_plus) eqn:Ep]; cbn [snd].
  - destruct r as [|d r]; [destruct fix10; reflexivity|].
    rewrite (unsigned_ok fix10 (d :: r) (-1)%Z) by discriminate.
    destruct fix10; [reflexivity|]. apply shape_lex. discriminate.
  - destruct r as [|d r]; [destruct fix10; reflexivity|].
    rewrite (unsigned_ok fix10 (d :: r) 1%Z) by discriminate.
    destruct fix10; [reflexivity|]. apply shape_lex. discriminate.
  - rewrite (unsigned_ok fix10 (c :: r) 1%Z) by discriminate.
    destruct fix10; [reflexivity|]. apply shape_lex. discriminate.
Qed.

Lemma trim_ws_allws : forall s, drop_ws s = [] -> trim_ws s = [].
Proof. intros s H. unfold trim_ws. rewrite H. reflexivity. Qed.

Lemma dec_ok_spec : forall fix10 s,
  dec_ok fix10 s = if fix10 then dec_lex (trim_ws s) else dec_lex (trim_ws s) || lone_dot (trim_ws s).
Proof.
  intros fix10 s. unfold dec_ok, dec_parse, dec_parse_raw.
  destruct s as [|c s]; [destruct fix10; reflexivity|].
  destruct (drop_ws (c :: s)) eqn:Ed.
  - rewrite (trim_ws_allws _ Ed). destruct fix10; reflexivity.
  - exact (body_ok_spec fix10 (trim_ws (c :: s))).
Qed.

(** the repaired parseDecimal accepts exactly the lexical space *)
Lemma dec_parse_lex : forall s, (exists d, dec_parse true s = Ok d) <-> dec_lex (trim_ws s) = true.
Proof.
  intros s. rewrite <- (dec_ok_spec true s). unfold dec_ok. split.
  - intros [d ->]. reflexivity.
  - destruct (dec_parse true s) as [d|e]; [eauto|discriminate].
Qed.

(** the code as it is: accepted = lexical space + the lone-dot literals, which are not in the lexical space *)
Lemma dec_parse_f10_class : forall s,
  ((exists d, dec_parse false s = Ok d) <-> dec_lex (trim_ws s) = true \/ lone_dot (trim_ws s) = true) /\
  (lone_dot (trim_ws s) = true -> dec_lex (trim_ws s) = false).
Proof.
  intros s. split.
  - rewrite <- orb_true_iff, <- (dec_ok_spec false s). unfold dec_ok. split.
    + intros [d ->]. reflexivity.
    + destruct (dec_parse false s) as [d|e]; [eauto|discriminate].
  - unfold lone_dot, dec_lex. apply lone_dot_not_lex.
Qed.
