(** C09 lemmas, part h: facet inheritance over restriction chains (AbstractNumericFacetValidator::inheritFacet +
    boundsCheck on an abstract ordered value space): the merged validator of the last step accepts exactly the values
    that satisfy the bounds of EVERY step, provided each step is a valid restriction of its base (its new lower/upper
    bound is at least as tight as the base's -- what the schema loader checks).  Hence a derived type never accepts what
    its base rejects. *)
From Coq Require Import Lia.
From XV Require Import C09.Spec09 C09.Spec09d C09.Model09 C09.Model09d.

Section Inherit.
  Variable V : Type.
  Variable cmp : V -> V -> comparison.
  Notation B := (bounds V).

  Definition min_part (b : B) (v : V) : bool :=
    opt_ok (minI b) (fun m => Spec09d.leb V cmp m v) && opt_ok (minE b) (fun m => Spec09d.ltb V cmp m v).
  Definition max_part (b : B) (v : V) : bool :=
    opt_ok (maxI b) (fun m => Spec09d.leb V cmp v m) && opt_ok (maxE b) (fun m => Spec09d.ltb V cmp v m).

  Lemma step_ok_parts : forall b v, step_ok V cmp b v = min_part b v && max_part b v.
  Proof. intros. unfold step_ok, min_part, max_part. rewrite <- !andb_assoc. reflexivity. Qed.

  (** [this] is a valid restriction of the (merged) base: whatever passes the bounds written on [this] also passes
      the base bounds that [this] replaces *)
  Definition tightens (this base : B) : Prop :=
    forall v, (min_part this v = true -> min_part base v = true) /\ (max_part this v = true -> max_part base v = true).

  Lemma inherit_min : forall this base v, tightens this base ->
    min_part (inherit_bounds V this base) v = min_part this v && min_part base v.
  Proof.
    intros this base v T. destruct (T v) as [Tm _]. unfold inherit_bounds, min_part in *. cbn [minI minE].
    destruct (minI this) as [a|]; destruct (minE this) as [b|]; cbn [opt_ok] in *.
    - destruct (Spec09d.leb V cmp a v && Spec09d.ltb V cmp b v) eqn:E; [rewrite Tm by reflexivity|]; reflexivity.
    - rewrite andb_true_r in *. destruct (Spec09d.leb V cmp a v) eqn:E; [rewrite Tm by reflexivity|]; reflexivity.
    - cbn [andb] in *. destruct (Spec09d.ltb V cmp b v) eqn:E; [rewrite Tm by reflexivity|]; reflexivity.
    - reflexivity.
  Qed.

  Lemma inherit_max : forall this base v, tightens this base ->
    max_part (inherit_bounds V this base) v = max_part this v && max_part base v.
  Proof.
    intros this base v T. destruct (T v) as [_ Tm]. unfold inherit_bounds, max_part in *. cbn [maxI maxE].
    destruct (maxI this) as [a|]; destruct (maxE this) as [b|]; cbn [opt_ok] in *.
    - destruct (Spec09d.leb V cmp v a && Spec09d.ltb V cmp v b) eqn:E; [rewrite Tm by reflexivity|]; reflexivity.
    - rewrite andb_true_r in *. destruct (Spec09d.leb V cmp v a) eqn:E; [rewrite Tm by reflexivity|]; reflexivity.
    - cbn [andb] in *. destruct (Spec09d.ltb V cmp v b) eqn:E; [rewrite Tm by reflexivity|]; reflexivity.
    - reflexivity.
  Qed.

  Lemma inherit_step : forall this base v, tightens this base ->
    step_ok V cmp (inherit_bounds V this base) v = step_ok V cmp this v && step_ok V cmp base v.
  Proof.
    intros. rewrite !step_ok_parts, inherit_min, inherit_max by assumption.
    destruct (min_part this v), (min_part base v), (max_part this v), (max_part base v); reflexivity.
  Qed.

  (** every step of the chain is a valid restriction of what precedes it *)
  Fixpoint chain_tight (acc : B) (chain : list B) : Prop :=
    match chain with
    | [] => True
    | this :: r => tightens this acc /\ chain_tight (inherit_bounds V this acc) r
    end.

  Lemma merged_from : forall chain acc v, chain_tight acc chain ->
    step_ok V cmp (fold_left (fun base this => inherit_bounds V this base) chain acc) v =
    step_ok V cmp acc v && chain_ok V cmp chain v.
  Proof.
    induction chain as [|this r IH]; intros acc v T; cbn [fold_left chain_ok forallb].
    - rewrite andb_true_r. reflexivity.
    - destruct T as [T1 T2]. rewrite (IH _ v T2), (inherit_step this acc v T1).
      unfold chain_ok. destruct (step_ok V cmp this v), (step_ok V cmp acc v); reflexivity.
  Qed.

  (** T09_facet_inherit *)
  Lemma facet_inherit : forall chain v, chain_tight (mkB None None None None) chain ->
    bounds_accept V cmp (merged_bounds V chain) v = chain_ok V cmp chain v.
  Proof. intros chain v T. unfold bounds_accept, merged_bounds. rewrite (merged_from chain _ v T). reflexivity. Qed.

  Lemma derived_subset_of_base : forall chain this v, chain_tight (mkB None None None None) (chain ++ [this]) ->
    bounds_accept V cmp (merged_bounds V (chain ++ [this])) v = true ->
    bounds_accept V cmp (merged_bounds V chain) v = true.
  Proof.
    intros chain this v T H. rewrite facet_inherit in H by exact T.
    assert (T' : chain_tight (mkB None None None None) chain).
    { clear H. revert T. generalize (mkB (V:=V) None None None None). induction chain as [|c r IH]; intros acc T; [exact I|].
      destruct T as [T1 T2]. split; [exact T1|exact (IH _ T2)]. }
    rewrite facet_inherit by exact T'. unfold chain_ok in *. rewrite forallb_app in H. apply andb_prop in H. apply H.
  Qed.
End Inherit.
