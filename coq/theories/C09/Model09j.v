(** Executable model of the canonical representation of xs:date, following the C++:
    XMLDateTime::parseDate (+ normalize), getDateCanonicalRepresentation, fillYearString / fillString
    (src/xercesc/util/XMLDateTime.cpp); XSValue::getCanonicalRepresentation(dt_date) and
    DateDatatypeValidator::getCanonicalRepresentation both end there.  No proofs here. *)
From XV Require Export C09.Spec09j C09.Model09e C09.Model09g.
Local Open Scope Z_scope.

(** the date and the recoverable zone (minutes; negative = '-') computed from the normalised (UTC) fields *)
Definition date_canon_fields (n : dtn) : (Z * Z * Z) * Z :=
  if n_h n <? 12 then ((n_y n, n_mo n, n_d n), - (n_h n * 60 + n_mi n))
  else
    let '(minute, carry) := if n_mi n =? 0 then (0, 0) else (60 - n_mi n, 1) in
    let hour := 24 - n_h n - carry in
    let '(y, mo, d) := norm_days 4 (n_y n) (n_mo n) (n_d n + 1) in
    ((y, mo, d), hour * 60 + minute).

Definition date_canon_with (fy : Z -> list N) (fix11 : bool) (b : list N) : option (list N) :=
  match date_parse fix11 b with
  | None => None
  | Some v =>
      let start := if (at_ b 0 =? ch_minus)%N then 1%nat else 0%nat in
      match index_of b start (length b - start) ch_minus with
      | None => None
      | Some ysep =>
          let c := at_ b (ysep + 6) in
          let zoned := ((ysep + 6 <? length b)%nat) in
          let n := mkN (dt_year v) (dt_month v) (dt_day v) 0 0 0 in
          let n' := if zoned && (c =? ch_plus)%N then normalize (-1) (dt_tzh v) (dt_tzm v) n
                    else if zoned && (c =? ch_minus)%N then normalize 1 (dt_tzh v) (dt_tzm v) n else n in
          let date3 (y mo d : Z) := fy y ++ [ch_minus] ++ fill2 mo ++ [ch_minus] ++ fill2 d in
          Some (
            if n_h n' <? 12 then
              date3 (n_y n') (n_mo n') (n_d n') ++
              (if zoned then
                 (if negb (dt_tzh v =? 0) || negb (dt_tzm v =? 0)
                  then [ch_minus] ++ fill2 (n_h n') ++ [0x3A%N] ++ fill2 (n_mi n') else [0x5A%N])
               else [])
            else
              let '((y, mo, d), z) := date_canon_fields n' in
              date3 y mo d ++ [ch_plus] ++ fill2 (z / 60) ++ [0x3A%N] ++ fill2 (z mod 60))
      end
  end.
Definition date_canon (fix11 : bool) (b : list N) : option (list N) := date_canon_with fill_year fix11 b.
