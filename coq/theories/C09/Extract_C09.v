(** Extraction of the executable C09 models and of the specification functions used as oracle.
    Only ExtrOcamlBasic is used: N/Z/positive/nat stay the extracted inductive types.
    The path is relative to the directory coqc runs in (coq/). *)
From Coq Require Import Extraction ExtrOcamlBasic.
From XV Require Import C09.Spec09 C09.Model09 C09.Spec09b C09.Model09b C09.Spec09c C09.Model09c C09.Spec09d C09.Model09d C09.Spec09e C09.Model09e C09.Spec09f C09.Model09f C09.Spec09g C09.Model09g C09.Spec09h C09.Model09h C09.Spec09i C09.Model09i C09.Spec09j C09.Model09j C09.Spec09k C09.Model09k.
Extraction Language OCaml.
Extraction "../ocaml/C09/gen_c09.ml"
  ws_replace ws_collapse dec_lex dec_value dec_order dec_is_canonical Qcompare Qeq_bool
  dec_parse dec_parse_raw dec_cmp dec_canon xsv_decimal_validate xsv_decimal_canon
  inherit_facets dec_check no_facets trim_ws
  sfacets_ok dec_valid total_digits_b fraction_digits_b
  hex_value hex_lex hex_is_canonical b64_value b64_lex b64_is_canonical bool_value bool_lex bfacets_ok bin_valid
  b64_decode b64_length hex_ok hex_length hex_canon inherit_strfacets no_strfacets bin_check bin_canon
  xsv_hex_validate xsv_hex_canon xsv_b64_validate xsv_b64_canon bool_check bool_cmp xsv_bool_validate xsv_bool_canon
  list_eqb opt_list_eqb dt_lex dt_ok dt_parse xsv_datetime_validate
  ws_apply integer_lex integer_value int_in tokens list_valid nws_run
  dt_read timeline dt_order dt_order_f dt_is_canonical dt_canon_of dtv_compare dt_canon dt_parse_norm
  float_lex float_kind special_order list_type_valid union_type_valid float_init xsv_float_validate float_cmp_special
  list_check union_check date_lex date_ok xsv_date_validate
  dur_lex dur_read dur_order dur_parse dur_ok xsv_duration_validate dur_compare durv_compare dur_bounds
  list_enum_valid items_eq union_eq list_enum_check list_compare union_compare union_enum_check value_space_check
  date_canon_of date_is_canonical time_canon_of date_as_dt time_as_dt date_canon date_canon_with dt_canon_with fill_year fill_year_old
  float_init_f xsv_float_validate_f float_cmp_special_f f29_shape dur_parse_f dur_ok_f dur_parse_x durv_compare_x dur_bounds_x
  float_canon dv_float_canon xsv_float_canon float_canon_of float_is_canonical.
