(** C09 lemmas, part a: finding F10 on the faithful model (a literal without any digit is accepted). *)
From XV Require Import C09.Spec09 C09.Model09.
Local Open Scope N_scope.

Definition dec_ok (fix10 : bool) (s : list N) : bool :=
  match dec_parse fix10 s with Ok _ => true | Err _ => false end.

Lemma f10_refuted :
  dec_ok false [ch_dot] = true /\ dec_ok false [ch_minus; ch_dot] = true /\ dec_ok false [ch_plus; ch_dot] = true /\
  dec_lex (ws_collapse [ch_dot]) = false /\ dec_lex (ws_collapse [ch_minus; ch_dot]) = false /\
  dec_lex (ws_collapse [ch_plus; ch_dot]) = false.
Proof. vm_compute. repeat split; reflexivity. Qed.

Lemma f10_fixed_rejects :
  dec_ok true [ch_dot] = false /\ dec_ok true [ch_minus; ch_dot] = false /\ dec_ok true [ch_plus; ch_dot] = false.
Proof. vm_compute. repeat split; reflexivity. Qed.
