(** Specification side of C09 (xs:dateTime value space, order and canonical form): XML Schema Part 2, 3.2.7.
    A dateTime literal denotes an instant on the proleptic Gregorian timeline (seconds since 0001-01-01T00:00:00,
    as a rational because of fractional seconds), taken in UTC when a time zone is given and "local" otherwise.
    Order relation 3.2.7.4; canonical representation 3.2.7.2 (with erratum E2-41).  Stated for years >= 1.
    Nothing here mentions the C++ code. *)
From Coq Require Export ZArith QArith.
From XV Require Export C09.Spec09c.
Local Open Scope Z_scope.

Definition days_before_year (y : Z) : Z := 365 * (y - 1) + (y - 1) / 4 - (y - 1) / 100 + (y - 1) / 400.
Fixpoint days_before_month_n (y : Z) (m : nat) : Z :=     (* days in months 1 .. m *)
  match m with O => 0 | S k => days_before_month_n y k + days_in_month y (Z.of_nat (S k)) end.
Definition days_before_month (y m : Z) : Z := days_before_month_n y (Z.to_nat (m - 1)).

Record dt_fields : Type := mkF { f_y : Z; f_mo : Z; f_d : Z; f_h : Z; f_mi : Z; f_s : Z; f_frac : list N;
                                 f_zone : option Z (* minutes east of UTC *) }.

(** whole seconds of the local date and time *)
Definition local_seconds (f : dt_fields) : Z :=
  (((days_before_year (f_y f) + days_before_month (f_y f) (f_mo f) + (f_d f - 1)) * 24 + f_h f) * 60 + f_mi f) * 60 + f_s f.
(** the instant: local time minus the zone offset (when there is one), plus the fraction *)
Definition timeline (f : dt_fields) : Q :=
  ((local_seconds f - 60 * match f_zone f with Some z => z | None => 0 end) # 1) + (dval (f_frac f) # pow10 (length (f_frac f))).

(** reading the fields off a literal of the lexical space *)
Definition two (l : list N) (i : nat) : Z := digit_val (nth i l 0%N) * 10 + digit_val (nth (S i) l 0%N).
Definition dt_read (l : list N) : dt_fields :=
  let neg := first_is l ch_minus in
  let l1 := if neg then tl l else l in
  let (yd, r) := span_digits l1 in                        (* r = -MM-DDThh:mm:ss... *)
  let y := if neg then - dval yd else dval yd in
  let rest := skipn 15 r in                               (* after ss *)
  let (fd, tz) := match rest with c :: r' => if (c =? ch_dot)%N then span_digits r' else ([], rest) | [] => ([], []) end in
  let zone := match tz with
              | [] => None
              | [_] => Some 0
              | s :: z => let m := two z 0 * 60 + two z 3 in Some (if (s =? ch_minus)%N then - m else m)
              end in
  mkF y (two r 1) (two r 4) (two r 7) (two r 10) (two r 13) fd zone.

(** 3.2.7.4: -1 less, 0 equal, 1 greater, 2 indeterminate *)
Definition q_cmp (a b : Q) : Z := cmp_to_Z (Qcompare a b).
Definition dt_order_f (p q : dt_fields) : Z :=
  let tp := timeline p in let tq := timeline q in
  let h14 : Q := (14 * 3600) # 1 in
  match f_zone p, f_zone q with
  | Some _, Some _ | None, None => q_cmp tp tq
  | Some _, None =>      (* P zoned, Q not: P < Q if P < (Q at +14:00); P > Q if P > (Q at -14:00) *)
      if Qlt_le_dec tp (tq - h14) then -1 else if Qlt_le_dec (tq + h14) tp then 1 else 2
  | None, Some _ =>      (* P not zoned: P < Q if (P at -14:00) < Q; P > Q if (P at +14:00) > Q *)
      if Qlt_le_dec (tp + h14) tq then -1 else if Qlt_le_dec tq (tp - h14) then 1 else 2
  end.
Definition dt_order (a b : list N) : Z := dt_order_f (dt_read a) (dt_read b).

(** canonical representation: time zone, if any, is 'Z'; hour is not 24; no trailing zero in the fraction
    (and no '.' without fraction digits) *)
Definition dt_is_canonical (l : list N) : bool :=
  dt_lex l &&
  let f := dt_read l in
  negb (f_h f =? 24) &&
  match f_zone f with None => true | Some _ => last_is l 0x5A%N end &&
  negb (last_is (f_frac f) ch_0) &&
  (negb (existsb (fun c => (c =? ch_dot)%N) l) || negb (nilb (f_frac f))).
(** c is the canonical representation of l: canonical, same instant, zoned iff l is *)
Definition dt_canon_of (l c : list N) : bool :=
  dt_is_canonical c && Qeq_bool (timeline (dt_read l)) (timeline (dt_read c)) &&
  Bool.eqb (match f_zone (dt_read l) with Some _ => true | None => false end)
           (match f_zone (dt_read c) with Some _ => true | None => false end).
