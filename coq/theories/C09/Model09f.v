(** Executable model of the float/double lexical checks, following the C++:
    XMLAbstractDoubleFloat::init, normalizeZero, the character filter in front of strtod, compareValues /
    compareSpecial on special values (src/xercesc/util/XMLAbstractDoubleFloat.cpp); XMLDouble::convert's use of strtod
    ("the whole string must be consumed") is modelled by the grammar strtod accepts over the filtered alphabet:
    sign? (digit+ ('.' digit* )? | '.' digit+) ([eE] sign? digit+)?  -- the numeric conversion itself is NOT modelled.
    ListDatatypeValidator / UnionDatatypeValidator checkContent over abstract member validators.  No proofs here. *)
From XV Require Export C09.Spec09f C09.Model09.
Local Open Scope N_scope.

Definition s_zero : list N := [0x30].
Definition s_nzero : list N := [0x2D; 0x30].

(** the scan loop of normalizeZero: only '.' and '0', at most one '.' *)
Fixpoint nz_scan (dotSeen : bool) (l : list N) : bool :=
  match l with
  | [] => true
  | c :: r => if negb (c =? ch_dot) && negb (c =? ch_0) then false
              else if c =? ch_dot then (if dotSeen then false else nz_scan true r)
              else nz_scan dotSeen r
  end.
(** normalizeZero: None = NumberFormatException, Some = the (possibly rewritten) string *)
Definition normalize_zero (l : list N) : option (list N) :=
  match l with
  | [] => Some l
  | c :: r =>
      if leqb l s_nzero || leqb l s_zero then Some l else
      let st : option (bool * bool * list N) :=      (* minusSeen, dotSeen, rest *)
        if c =? ch_minus then (match r with [] => None | _ => Some (true, false, r) end)
        else if c =? ch_plus then (match r with [] => None | _ => Some (false, false, r) end)
        else if c =? ch_dot then (match r with [] => None | _ => Some (false, true, r) end)
        else Some (false, false, l) in
      match st with
      | None => None
      | Some (minus, dot, rest) => if nz_scan dot rest then Some (if minus then s_nzero else s_zero) else Some l
      end
  end.
Definition float_char_ok (c : N) : bool :=
  is_digit c || (c =? ch_dot) || (c =? ch_minus) || (c =? ch_plus) || is_e c.
(** init: accepted? *)
Definition float_init (s : list N) : bool :=
  match s with [] => false | _ =>
  match trim_ws s with
  | [] => false
  | t => match normalize_zero t with
         | None => false
         | Some u => if leqb u s_NINF || leqb u s_INF || leqb u s_NaN then true
                     else forallb float_char_ok u && float_num_lex u      (* filter, then strtod consumes everything *)
         end
  end end.
(** XSValue::validate for dt_double / dt_float *)
Definition xsv_float_validate (s : list N) : bool := if all_spaces s then false else float_init s.

(** compareValues when at least one operand is special: fType order NegINF < PosINF < NaN; -1 * INDETERMINATE = -2 *)
Definition float_cmp_special (a b : fkind) : option Z :=
  let rank k := match k with K_NegINF => 0%Z | K_PosINF => 1%Z | K_NaN => 2%Z | K_Finite => 3%Z end in
  let special1 k := match k with K_NegINF => (-1)%Z | K_PosINF => 1%Z | _ => 2%Z end in
  match a, b with
  | K_Finite, K_Finite => None
  | K_Finite, _ => Some (-1 * special1 b)%Z
  | _, K_Finite => Some (special1 a)
  | _, _ => if (rank a =? rank b)%Z then Some 0%Z
            else match a, b with K_NaN, _ | _, K_NaN => Some 2%Z | _, _ => Some (if (rank b <? rank a)%Z then 1 else -1)%Z end
  end.

(** ListDatatypeValidator::checkContent: tokenise, every item through the item validator, length facets count items;
    UnionDatatypeValidator::checkContent: the first member that accepts *)
Definition list_check (item : list N -> bool) (len_ok : nat -> bool) (s : list N) : bool :=
  let ts := tokens s in len_ok (length ts) && forallb item ts.
Definition union_check (members : list (list N -> bool)) (s : list N) : bool :=
  match find (fun m => m s) members with Some _ => true | None => false end.

(** the repaired code (fixes/C09-double-sign-dot.patch, fixes/C09-double-compare-nan.patch): normalizeZero rewrites to a
    zero only when a '0' was seen; a swapped INDETERMINATE stays INDETERMINATE.  [fix33]/[fix34] = false: code as is *)
Definition normalize_zero_f (fix33 : bool) (l : list N) : option (list N) :=
  match normalize_zero l with
  | Some u => if fix33 && negb (leqb u l) && negb (existsb (fun c => c =? ch_0) l) then Some l else Some u
  | None => None
  end.
Definition float_init_f (fix33 : bool) (s : list N) : bool :=
  match s with [] => false | _ =>
  match trim_ws s with
  | [] => false
  | t => match normalize_zero_f fix33 t with
         | None => false
         | Some u => if leqb u s_NINF || leqb u s_INF || leqb u s_NaN then true
                     else forallb float_char_ok u && float_num_lex u
         end
  end end.
Definition xsv_float_validate_f (fix33 : bool) (s : list N) : bool := if all_spaces s then false else float_init_f fix33 s.
Definition float_cmp_special_f (fix34 : bool) (a b : fkind) : option Z :=
  match a, b with
  | K_Finite, K_NaN => if fix34 then Some 2%Z else float_cmp_special a b
  | _, _ => float_cmp_special a b
  end.
