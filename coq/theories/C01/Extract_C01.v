(** Extraction of the executable C01 container-growth models to OCaml (ExtrOcamlBasic only). *)
From Coq Require Import Extraction ExtrOcamlBasic.
From XV Require Import C01.Model01g.
Extraction Language OCaml.
Extraction "../ocaml/C01/gen_c01.ml" vv_run rv_run ht_run sp_run nip_run nip_init spInitId spInitCap.
