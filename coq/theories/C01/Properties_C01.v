(** Property C01 -- arbitrary input never causes memory errors, UB or hangs: the part that is decided by proof.
    (1) T01_reader_inv: on the model of XMLReader.cpp (C04/Model04.v, repaired getName look-ahead) NO sequence of
        reader operations on ANY input, chunking, transcoder meeting the contract and buffer geometry ever accesses
        a buffer outside its valid window ([Fault]) or spins ([FuelOut]); the index invariant
        fCharIndex <= fCharsAvail <= kCharBufSize, fRawBufIndex <= fRawBytesAvail <= kRawBufSize holds afterwards.
    (2) T01_getName_refuted: the same statement is false for getName as it was written (finding F1).
    (3) T01_grow_*: capacity arithmetic of XMLBuffer and ElemStack: every index written after a growth step is inside
        the new allocation, and the 25% growth strictly grows for every reachable capacity.
    Everything else of C01 (allocator, lifetimes, DTD/schema code) is exploration under ASan/UBSan, see checks/C01.py. *)
From XV Require Import C04.Spec04 C04.Model04 C04.Contract04 C04.Proofs04a C04.Proofs04b C04.Proofs04c C04.Proofs04d
                       C04.Proofs04e C04.Proofs04g C04.Inst04 C01.Model01 C01.Model01g C01.Proofs01g C01.Proofs01x.
From XV Require Import C05.Spec05 C05.Model05 C05.Proofs05c C05.Proofs05f.
From Coq Require Import Lia ZArith ZifyBool ZifyN ZifyNat.
Local Open Scope N_scope.
Ltac Zify.zify_post_hook ::= Z.div_mod_to_equations.

Theorem T01_reader_inv : forall step maxSeq c chunks ops fuel,
  xcontract step (X c) maxSeq -> sizes_ok c maxSeq -> safename c = true ->
  Forall (fun ch => ch <> []) chunks -> (4 * length (concat chunks) + 2 <= fuel)%nat ->
  match run_ops c fuel (mk_reader chunks) ops with
  | (_, Some Fault, _) | (_, Some FuelOut, _) => False
  | (_, _, rf) => good c rf
  end.
Proof.
  intros step maxSeq c chunks ops fuel HC HS Hsafe Hne Hf.
  destruct (Dec_total step (X c) maxSeq HC (concat chunks)) as [cs [st D]].
  pose proof (St_init step c chunks cs st Hne D) as H0.
  pose proof (Dec_len step maxSeq c HC (concat chunks) cs st D) as HL.
  pose proof (run_ops_safe step maxSeq c HC HS Hsafe ops fuel (mk_reader chunks) cs st H0 ltac:(lia)) as HR.
  destruct (run_ops c fuel (mk_reader chunks) ops) as [[l [[| |e]|]] rf]; auto. now destruct HR.
Qed.
Print Assumptions T01_reader_inv.

(** instantiated: UTF-8, UTF-16 (either byte order) and ISO-8859-1 with the buffer sizes of XMLReader.hpp *)
Theorem T01_reader_inv_real : forall enc v11 lw fill chunks ops fuel, (enc = 0 \/ enc = 1 \/ enc = 2 \/ enc = 3) ->
  Forall (fun ch => ch <> []) chunks -> (4 * length (concat chunks) + 2 <= fuel)%nat ->
  match run_ops (real_cfg enc v11 lw fill true) fuel (mk_reader chunks) ops with
  | (_, Some Fault, _) | (_, Some FuelOut, _) => False
  | (_, _, rf) => good (real_cfg enc v11 lw fill true) rf
  end.
Proof.
  intros enc v11 lw fill chunks ops fuel He Hne Hf.
  assert (HS : forall m, (1 <= m <= 6)%nat -> sizes_ok (real_cfg enc v11 lw fill true) m).
  { intros m Hm. unfold sizes_ok, real_cfg, mk_cfg. cbn [cbsz rbsz]. unfold kCharBufSize, kRawBufSize. lia. }
  destruct He as [E|[E|[E|E]]]; subst enc.
  - exact (T01_reader_inv step_utf8 6 (real_cfg 0 v11 lw fill true) chunks ops fuel utf8_contract (HS 6%nat ltac:(lia)) eq_refl Hne Hf).
  - exact (T01_reader_inv (step_utf16 false) 2 (real_cfg 1 v11 lw fill true) chunks ops fuel (utf16_contract false) (HS 2%nat ltac:(lia)) eq_refl Hne Hf).
  - exact (T01_reader_inv (step_utf16 true) 2 (real_cfg 2 v11 lw fill true) chunks ops fuel (utf16_contract true) (HS 2%nat ltac:(lia)) eq_refl Hne Hf).
  - exact (T01_reader_inv step_latin1 1 (real_cfg 3 v11 lw fill true) chunks ops fuel latin1_contract (HS 1%nat ltac:(lia)) eq_refl Hne Hf).
Qed.
Print Assumptions T01_reader_inv_real.

(** F1 on the as-written model: getName reads beyond fCharsAvail *)
Theorem T01_getName_refuted :
  exists c chunks ops, safename c = false /\ sizes_ok c 2 /\
    snd (fst (run_ops c 64 (mk_reader chunks) ops)) = Some Fault.
Proof.
  exists (mk_cfg 1 false 8 16 2 false false), [[0x40; 0xD8; 0x00; 0xDC; 0x3C; 0x00; 0x40; 0xD8]],
         [OName true; OSkipChar 0x3C; OName false].
  split; [reflexivity|]. split; [unfold sizes_ok; cbn; lia|]. vm_compute. reflexivity.
Qed.

(* ---- growth arithmetic ---- *)
Theorem T01_grow_buf_append1 : forall idx cap w idx' cap', idx <= cap -> buf_append1 idx cap = (w, idx', cap') ->
  w < cap' + 1 /\ idx' <= cap' /\ cap <= cap'.
Proof.
  intros idx cap w idx' cap' H E. unfold buf_append1, buf_ensure, xmlbufGrowFactor in E.
  destruct (N.eqb_spec idx cap); destruct (N.ltb_spec cap ((idx + 1) * 2)); inversion E; subst; lia.
Qed.
Print Assumptions T01_grow_buf_append1.

Theorem T01_grow_buf_appendn : forall idx cap count e cap', idx <= cap -> buf_appendn idx cap count = (e, cap') ->
  e <= cap' /\ cap <= cap'.
Proof.
  intros idx cap count e cap' H E. unfold buf_appendn, buf_ensure, xmlbufGrowFactor in E.
  destruct (N.leb_spec cap (idx + count)); destruct (N.ltb_spec cap ((idx + count) * 2)); inversion E; subst; lia.
Qed.
Print Assumptions T01_grow_buf_appendn.

(** the 25% step strictly grows from capacity 4 on ... *)
Theorem T01_grow_stack_strict : forall cap, 4 <= cap -> cap < stack_expand cap.
Proof.
  intros cap H. unfold stack_expand, grow54, elemStackGrowNum, elemStackGrowDen. lia.
Qed.
(** ... and every capacity reachable from the initial ones is at least the initial one, so expandStack / expandMap
    always make room for the element stored at index [top = old capacity] *)
Theorem T01_grow_stack_reachable : forall n, elemStackInitCap <= iter_grow stack_expand n elemStackInitCap /\
  iter_grow stack_expand n elemStackInitCap < stack_expand (iter_grow stack_expand n elemStackInitCap).
Proof.
  assert (A : forall n, elemStackInitCap <= iter_grow stack_expand n elemStackInitCap).
  { induction n as [|n IH]; cbn [iter_grow]; [lia|].
    unfold elemStackInitCap in *. pose proof (T01_grow_stack_strict (iter_grow stack_expand n 32) ltac:(lia)). lia. }
  intros n. split; [apply A|]. apply T01_grow_stack_strict. specialize (A n). unfold elemStackInitCap in *. lia.
Qed.
Lemma map_expand_step : forall x, x = 0 \/ elemGrowInitMin <= x -> elemGrowInitMin <= map_expand x /\ x < map_expand x.
Proof.
  intros x H. unfold map_expand, grow54, elemGrowInitMin, elemStackGrowNum, elemStackGrowDen in *.
  destruct (N.eqb_spec x 0) as [E|E]; lia.
Qed.
Theorem T01_grow_map_reachable : forall n, iter_grow map_expand n 0 < map_expand (iter_grow map_expand n 0) /\
  (n <> O -> elemGrowInitMin <= iter_grow map_expand n 0).
Proof.
  assert (A : forall n, iter_grow map_expand n 0 = 0 \/ elemGrowInitMin <= iter_grow map_expand n 0).
  { induction n as [|n IH]; [left; reflexivity|]. right. cbn [iter_grow]. apply map_expand_step. exact IH. }
  intros n. split; [apply map_expand_step; apply A|].
  intros Hn. destruct n as [|n']; [congruence|]. cbn [iter_grow]. apply map_expand_step. apply A.
Qed.
Print Assumptions T01_grow_map_reachable.

(** DFAContentModel::buildDFA: with the grow-if-full test as written in the source (regenerated: ==), every state is
    stored inside the arrays and room for the next one is made in time; the initial size 4 x leafCount holds the first
    state.  (With the test weakened to ">" the statement is false: T01_grow_dfa_late_test_refuted.) *)
Theorem T01_grow_dfa : forall cur size w cur' size', cur < size -> 2 <= size ->
  dfa_add_state cur size = (w, cur', size') -> w < size /\ cur' < size' /\ 2 <= size' /\ size <= size'.
Proof.
  intros cur size w cur' size' H1 H2 E. unfold dfa_add_state, dfa_full, dfaGrowTest, dfaGrowNum, dfaGrowDen in E.
  cbn [N.eqb] in E. destruct (N.eqb_spec (cur + 1) size); inversion E; subst; lia.
Qed.
Print Assumptions T01_grow_dfa.
Theorem T01_grow_dfa_init : forall leaves, 1 <= leaves -> 1 < leaves * dfaInitFactor /\ 2 <= leaves * dfaInitFactor.
Proof. intros leaves H. unfold dfaInitFactor. lia. Qed.
Theorem T01_grow_dfa_late_test_refuted :
  exists cur size, cur < size /\ 2 <= size /\
    let cur' := cur + 1 in let size' := (if size <? cur' then size * 3 / 2 else size) in ~ (cur' < size').
Proof. exists 79, 80. vm_compute. split; [reflexivity|]. split; [discriminate|]. discriminate. Qed.

(** per-depth element state arrays of the schema-aware scanners: after the resize LOOP the index written is inside
    the array whatever the depth at which the schema grammar becomes active (64 doublings cover every 32-bit depth);
    a single doubling from the initial 16 is not enough from depth 32 on (finding F30) *)
Lemma elemstate_ensure_ok : forall fuel depth size, 1 <= size -> depth < size * 2 ^ (N.of_nat fuel) ->
  depth < elemstate_ensure fuel depth size.
Proof.
  induction fuel as [|f IH]; intros depth size H1 H2.
  - cbn in *. lia.
  - cbn [elemstate_ensure]. destruct (N.leb_spec size depth) as [Hle|Hgt]; [|exact Hgt].
    apply IH; [lia|]. rewrite Nat2N.inj_succ, N.pow_succ_r' in H2. lia.
Qed.
Theorem T01_grow_elemstate : forall depth, depth < 2 ^ 32 -> depth < elemstate_ensure 64 depth 16.
Proof.
  intros depth H. apply elemstate_ensure_ok; [lia|].
  assert (E : 2 ^ 32 <= 16 * 2 ^ N.of_nat 64) by (vm_compute; discriminate). lia.
Qed.
Print Assumptions T01_grow_elemstate.
Theorem T01_grow_elemstate_once_refuted : exists depth, ~ (depth < elemstate_once depth 16).
Proof. exists 32. vm_compute. discriminate. Qed.

(** non-vacuity *)
Example T01_nonvacuous_ops :
  fst (run_ops (mk_cfg 1 true 4 8 2 true true) 64 (mk_reader [[0x3C; 0]; [0x61; 0; 0x0D]; [0; 0x0A; 0; 0x40; 0xD8; 0x00; 0xDC; 0x3E; 0]])
               [OSkipChar 0x3C; OName false; OSkipSpaces; OPeekStr [0xD840; 0xDC00]; OName true; OGet; OGet])
  = ([RBool true; RName true [0x61]; RBool2 true true; RBool true; RName true [0xD840; 0xDC00]; RCh (Some 0x3E); RCh None], None).
Proof. vm_compute. reflexivity. Qed.
Example T01_nonvacuous_grow : buf_append1 1023 1023 = (1023, 1024, 2048) /\ stack_expand 32 = 40 /\ map_expand 0 = 16 /\ map_expand 16 = 20 /\
  dfa_add_state 79 80 = (79, 80, 120).
Proof. vm_compute. auto. Qed.

(* ================================================================================================================ *)
(** Round 4.  (4) T01_grow_vv / rv / ht / sp / nip: the growable containers of util/ -- for EVERY sequence of operations
    from every state satisfying the class invariant, every element index read or written is inside the (re-)allocated
    array.  Tests, operators, factors and initial sizes are regenerated from the source on every run (Gen/GenC01Grow.v). *)
Theorem T01_grow_vv : forall ops cur mx, cur <= mx -> fst (vv_run cur mx ops) = true.
Proof. exact vv_run_safe. Qed.
Print Assumptions T01_grow_vv.
Theorem T01_grow_vv_ensure : forall cur mx len, cur <= mx -> cur + len <= vv_ensure cur mx len /\ mx <= vv_ensure cur mx len.
Proof. exact vv_ensure_ok. Qed.
Theorem T01_grow_rv : forall ops cur mx, cur <= mx -> fst (rv_run cur mx ops) = true.
Proof. exact rv_run_safe. Qed.
Print Assumptions T01_grow_rv.
Theorem T01_grow_rv_ensure : forall cur mx len, cur <= mx -> cur + len <= rv_ensure cur mx len /\ mx <= rv_ensure cur mx len.
Proof. exact rv_ensure_ok. Qed.
(** RefHashTableOf: for any number of puts from any positive modulus the modulus stays positive and never shrinks, hence
    every bucket index hash % fHashModulus is inside the bucket array allocated with fHashModulus entries *)
Theorem T01_grow_ht : forall n cnt md h, 1 <= md -> Forall (fun m => md <= m /\ ht_bucket h m < m) (ht_run cnt md n).
Proof.
  intros n cnt md h H. eapply Forall_impl; [|exact (ht_run_ok n cnt md H)].
  cbv beta. intros m Hm. split; [exact Hm|]. apply ht_bucket_ok. lia.
Qed.
Print Assumptions T01_grow_ht.
(** XMLStringPool from its constructor state (fCurId 1, fMapCapacity 64): any number of new entries *)
Theorem T01_grow_sp : forall n, fst (sp_run spInitId spInitCap n) = true.
Proof. intros n. apply sp_run_safe; unfold spInitId, spInitCap; lia. Qed.
Print Assumptions T01_grow_sp.
(** NameIdPool: any number of puts, for every initial size other than 1 (0 selects the default 256) ... *)
Theorem T01_grow_nip : forall n initSize, initSize <> 1 -> fst (nip_run 0 (nip_init initSize) n) = true.
Proof.
  intros n initSize H. unfold nip_init, nipDefault.
  destruct (N.eqb_spec initSize 0); apply nip_run_safe; lia.
Qed.
Print Assumptions T01_grow_nip.
(** ... which covers every NameIdPool the parser constructs (call sites regenerated from the source) ... *)
Theorem T01_grow_nip_callsites : Forall (fun s => s <> 1) nipCallSizes.
Proof. unfold nipCallSizes. repeat constructor; discriminate. Qed.
(** ... but NOT initSize = 1: (XMLSize_t)(1 * 1.5) = 1 does not grow, the first put stores at index 1 of a 1-element array.
    No parser path constructs such a pool (T01_grow_nip_callsites; the grammar deserialiser passes a stored size), so this
    is an API-level observation outside the property's quantifier, not a finding of C01. *)
Theorem T01_grow_nip_init1_refuted : exists n, fst (nip_run 0 (nip_init 1) n) = false.
Proof. exists 1%nat. vm_compute. reflexivity. Qed.

(** (5) T01_xcode_bounds: the intrinsic transcoders (models of C05, both directions) never produce more output elements
    than the room the caller passed, produce one charSizes entry per output char, and never report more source elements
    eaten than the source holds -- for every source, room and option.  [bytes src] / [Forall u16 src] only say that the
    elements are XMLByte / XMLCh values.  Stated on C05's functional models (lists); an index-carrying model with
    explicit src[i] reads is NOT built (see checks/meta/C01.json). *)
Theorem T01_xcode_bounds_utf8_from : forall src maxChars out sizes eaten, bytes src ->
  x8_from src maxChars = Ok (out, sizes, eaten) ->
  (length out <= maxChars)%nat /\ length sizes = length out /\ (eaten <= length src)%nat.
Proof.
  intros src maxChars out sizes eaten Hb H.
  destruct (x8_from_sound src maxChars out sizes eaten Hb H) as (cps & _ & _ & _ & _ & A & B & C). auto.
Qed.
Print Assumptions T01_xcode_bounds_utf8_from.
Theorem T01_xcode_bounds_utf8_to : forall src maxBytes throw bs n, Forall u16 src ->
  x8_to src maxBytes throw = Ok (bs, n) -> (length bs <= maxBytes)%nat /\ (n <= length src)%nat.
Proof. exact x8_to_bounds. Qed.
Print Assumptions T01_xcode_bounds_utf8_to.
Theorem T01_xcode_bounds_ucs4_from : forall sw src maxChars out sizes eaten, bytes src ->
  u4_from sw src maxChars = Ok (out, sizes, eaten) ->
  (length out <= maxChars)%nat /\ length sizes = length out /\ (eaten <= length src)%nat.
Proof. intros sw src maxChars out sizes eaten Hb H. exact (u4_loop_bounds _ _ _ _ _ _ _ Hb H). Qed.
Print Assumptions T01_xcode_bounds_ucs4_from.
Theorem T01_xcode_bounds_ucs4_to : forall sw src maxBytes bs e, u4_to sw src maxBytes = Ok (bs, e) ->
  (length bs <= maxBytes)%nat /\ (e <= length src)%nat.
Proof. exact u4_to_bounds. Qed.
Print Assumptions T01_xcode_bounds_ucs4_to.
Theorem T01_xcode_bounds_utf16 : forall sw src m,
  ((length (u16_from sw src m) <= m)%nat /\ (2 * length (u16_from sw src m) <= length src)%nat) /\
  ((length (u16_to sw src m) <= 2 * m)%nat /\ (length (u16_to sw src m) <= 2 * length src)%nat).
Proof. intros sw src m. split; [apply u16_from_bounds|apply u16_to_bounds]. Qed.
Print Assumptions T01_xcode_bounds_utf16.
Theorem T01_xcode_bounds_table_from : forall from src m o e, tab_from from src m = (o, e) ->
  (length o <= m)%nat /\ (e <= m)%nat /\ (e <= length src)%nat /\ (length o <= e)%nat.
Proof. exact tab_from_bounds. Qed.
Theorem T01_xcode_bounds_table_to : forall t sz src m throw o e, tab_to t sz src m throw = Ok (o, e) ->
  (length o <= m)%nat /\ (e <= length src)%nat /\ length o = e.
Proof. exact tab_to_bounds. Qed.
Print Assumptions T01_xcode_bounds_table_to.
Theorem T01_xcode_bounds_ascii_latin1 : forall src m,
  (forall o, ascii_from src m = Ok o -> (length o <= m)%nat /\ (length o <= length src)%nat) /\
  ((length (l1_from src m) <= m)%nat /\ (length (l1_from src m) <= length src)%nat).
Proof. intros src m. split; [intros o; apply ascii_from_bounds|apply l1_from_bounds]. Qed.
Print Assumptions T01_xcode_bounds_ascii_latin1.

Example T01_nonvacuous_grow4 :
  vv_run 0 0 [VAdd; VAdd; VIns 1; VIns 7; VEnsure 10; VRem 0; VClear]
    = (true, [(1, 1, false); (2, 2, false); (3, 3, false); (3, 3, true); (3, 13, false); (2, 13, false); (0, 13, false)]) /\
  rv_run 0 2 [VAdd; VAdd; VAdd; VAdd] = (true, [(1, 2, false); (2, 2, false); (3, 3, false); (4, 4, false)]) /\
  ht_run 0 3 4 = [3; 3; 7; 7] /\ sp_run 63 64 2 = (true, (65, 96)) /\ nip_run 10 12 2 = (true, (12, 18)).
Proof. vm_compute. auto. Qed.
Example T01_nonvacuous_xcode : x8_to [0x41; 0xD800; 0xDF48; 0x20AC] 5 true = Ok ([0x41; 0xF0; 0x90; 0x8D; 0x88], 3%nat) /\
  u4_to false [0x41; 0xD800; 0xDF48] 9 = Ok ([0x41; 0; 0; 0; 0x48; 0x03; 0x01; 0], 3%nat).
Proof. vm_compute. auto. Qed.
