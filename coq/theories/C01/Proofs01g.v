(** C01, growable containers: every element access of the modelled operations is inside the (re-)allocated array,
    for every operation sequence, every start state satisfying the class invariant, every argument. *)
From XV Require Import C01.Model01g.
From Coq Require Import Lia ZArith ZifyBool ZifyN ZifyNat.
Local Open Scope N_scope.
Ltac Zify.zify_post_hook ::= Z.div_mod_to_equations.

Ltac unf := cbv [cmpc vvGrowTest vvMinTest vvGrowNum vvGrowDen vvAddExtra vvInsExtra vvInsTest
                 rvKeepTest rvMinTest rvGrowDiv rvAddExtra htLoadTest htLoadNum htLoadDen htRehashMul htRehashAdd
                 spGrowTest spGrowNum spGrowDen spInitCap spInitId nipGrowTest nipTestAdd nipGrowNum nipGrowDen nipDefault] in *.

(** ensureExtraCapacity makes room for [len] more elements and never shrinks *)
Lemma vv_ensure_ok : forall cur mx len, cur <= mx -> cur + len <= vv_ensure cur mx len /\ mx <= vv_ensure cur mx len.
Proof.
  intros cur mx len H. unfold vv_ensure. unf.
  destruct (N.ltb_spec mx (cur + len)); [|lia].
  destruct (N.ltb_spec (cur + len) (cur * 5 / 4)); lia.
Qed.

Lemma vv_step_ok : forall cur mx op cur' mx' need thr, cur <= mx -> vv_step cur mx op = (cur', mx', need, thr) ->
  need <= mx' /\ cur' <= mx' /\ mx <= mx'.
Proof.
  intros cur mx op cur' mx' need thr H E. destruct op as [|a|a|n|]; unfold vv_step in E.
  - pose proof (vv_ensure_ok cur mx vvAddExtra H) as P. unf. inversion E; subst. lia.
  - destruct (N.eqb_spec a cur).
    + pose proof (vv_ensure_ok cur mx vvAddExtra H) as P. unf. inversion E; subst. lia.
    + destruct (cmpc vvInsTest a cur).
      * inversion E; subst. lia.
      * pose proof (vv_ensure_ok cur mx vvInsExtra H) as P. unf. inversion E; subst. lia.
  - destruct (N.leb_spec cur a); inversion E; subst; lia.
  - pose proof (vv_ensure_ok cur mx n H) as P. inversion E; subst. lia.
  - inversion E; subst. lia.
Qed.

Theorem vv_run_safe : forall ops cur mx, cur <= mx -> fst (vv_run cur mx ops) = true.
Proof.
  induction ops as [|op r IH]; intros cur mx H; [reflexivity|].
  cbn [vv_run]. destruct (vv_step cur mx op) as [[[cur' mx'] need] thr] eqn:E.
  destruct (vv_step_ok _ _ _ _ _ _ _ H E) as [A [B C]].
  specialize (IH cur' mx' B). destruct (vv_run cur' mx' r) as [ok tr]. cbn [fst] in *. subst ok.
  apply andb_true_intro. split; [apply N.leb_le; exact A|reflexivity].
Qed.

Lemma rv_ensure_ok : forall cur mx len, cur <= mx -> cur + len <= rv_ensure cur mx len /\ mx <= rv_ensure cur mx len.
Proof.
  intros cur mx len H. unfold rv_ensure. unf.
  destruct (N.leb_spec (cur + len) mx); [lia|].
  destruct (N.ltb_spec (cur + len) (mx + mx / 2)); lia.
Qed.

Lemma rv_step_ok : forall cur mx op cur' mx' need thr, cur <= mx -> rv_step cur mx op = (cur', mx', need, thr) ->
  need <= mx' /\ cur' <= mx' /\ mx <= mx'.
Proof.
  intros cur mx op cur' mx' need thr H E. destruct op as [|a|a|n|]; unfold rv_step in E.
  - pose proof (rv_ensure_ok cur mx rvAddExtra H) as P. unf. inversion E; subst. lia.
  - destruct (N.eqb_spec a cur).
    + pose proof (rv_ensure_ok cur mx rvAddExtra H) as P. unf. inversion E; subst. lia.
    + destruct (N.ltb_spec cur a).
      * inversion E; subst. lia.
      * pose proof (rv_ensure_ok cur mx 1 H) as P. inversion E; subst. lia.
  - destruct (N.leb_spec cur a); inversion E; subst; lia.
  - pose proof (rv_ensure_ok cur mx n H) as P. inversion E; subst. lia.
  - inversion E; subst. lia.
Qed.

Theorem rv_run_safe : forall ops cur mx, cur <= mx -> fst (rv_run cur mx ops) = true.
Proof.
  induction ops as [|op r IH]; intros cur mx H; [reflexivity|].
  cbn [rv_run]. destruct (rv_step cur mx op) as [[[cur' mx'] need] thr] eqn:E.
  destruct (rv_step_ok _ _ _ _ _ _ _ H E) as [A [B C]].
  specialize (IH cur' mx' B). destruct (rv_run cur' mx' r) as [ok tr]. cbn [fst] in *. subst ok.
  apply andb_true_intro. split; [apply N.leb_le; exact A|reflexivity].
Qed.

(** hash table: the modulus stays positive and never shrinks, so hash % fHashModulus is defined and < the bucket count *)
Lemma ht_put_ok : forall cnt md c' m', 1 <= md -> ht_put cnt md = (c', m') -> 1 <= m' /\ md <= m' /\ c' = cnt + 1.
Proof.
  intros cnt md c' m' H E. unfold ht_put in E. unf.
  destruct (N.leb_spec (md * 3 / 4) cnt); inversion E; subst; lia.
Qed.
Theorem ht_run_ok : forall n cnt md, 1 <= md -> Forall (fun m => md <= m) (ht_run cnt md n).
Proof.
  induction n as [|k IH]; intros cnt md H; [constructor|].
  cbn [ht_run]. destruct (ht_put cnt md) as [c' m'] eqn:E. destruct (ht_put_ok _ _ _ _ H E) as [A [B C]].
  constructor; [exact B|]. specialize (IH c' m' A). eapply Forall_impl; [|exact IH]. cbv beta. intros; lia.
Qed.
Theorem ht_bucket_ok : forall h md, 1 <= md -> ht_bucket h md < md.
Proof. intros h md H. unfold ht_bucket. apply N.mod_lt. lia. Qed.
(** after a put the load stays below the modulus (count <= modulus), given it did before: chains exist but no
    arithmetic of the table depends on it; recorded because rehash is the only place the bucket array is re-sized *)
Theorem ht_load_ok : forall cnt md c' m', 1 <= md -> cnt <= md -> ht_put cnt md = (c', m') -> c' <= m'.
Proof.
  intros cnt md c' m' H L E. unfold ht_put in E. unf.
  destruct (N.leb_spec (md * 3 / 4) cnt); inversion E; subst; lia.
Qed.

(** string pool: id <= capacity and capacity >= 2 are invariant; the store at fIdMap[fCurId] is inside the map *)
Lemma sp_add_ok : forall id cap id' cap' need, id <= cap -> 2 <= cap -> sp_add id cap = (id', cap', need) ->
  need <= cap' /\ id' <= cap' /\ 2 <= cap'.
Proof.
  intros id cap id' cap' need H1 H2 E. unfold sp_add in E. unf.
  destruct (N.eqb_spec id cap); inversion E; subst; lia.
Qed.
Theorem sp_run_safe : forall n id cap, id <= cap -> 2 <= cap -> fst (sp_run id cap n) = true.
Proof.
  induction n as [|k IH]; intros id cap H1 H2; [reflexivity|].
  cbn [sp_run]. destruct (sp_add id cap) as [[id' cap'] need] eqn:E.
  destruct (sp_add_ok _ _ _ _ _ H1 H2 E) as [A [B C]]. specialize (IH id' cap' B C).
  destruct (sp_run id' cap' k) as [ok st]. cbn [fst] in *. subst ok.
  apply andb_true_intro. split; [apply N.leb_le; exact A|reflexivity].
Qed.

(** name/id pool: fIdCounter + 1 <= fIdPtrsCount and fIdPtrsCount >= 2 are invariant *)
Lemma nip_put_ok : forall ctr cnt ctr' cnt' need, ctr + 1 <= cnt -> 2 <= cnt -> nip_put ctr cnt = (ctr', cnt', need) ->
  need <= cnt' /\ ctr' + 1 <= cnt' /\ 2 <= cnt'.
Proof.
  intros ctr cnt ctr' cnt' need H1 H2 E. unfold nip_put in E. unf.
  destruct (N.eqb_spec (ctr + 1) cnt); inversion E; subst; lia.
Qed.
Theorem nip_run_safe : forall n ctr cnt, ctr + 1 <= cnt -> 2 <= cnt -> fst (nip_run ctr cnt n) = true.
Proof.
  induction n as [|k IH]; intros ctr cnt H1 H2; [reflexivity|].
  cbn [nip_run]. destruct (nip_put ctr cnt) as [[ctr' cnt'] need] eqn:E.
  destruct (nip_put_ok _ _ _ _ _ H1 H2 E) as [A [B C]]. specialize (IH ctr' cnt' B C).
  destruct (nip_run ctr' cnt' k) as [ok st]. cbn [fst] in *. subst ok.
  apply andb_true_intro. split; [apply N.leb_le; exact A|reflexivity].
Qed.
