(** C01, T01_xcode_bounds: buffer bounds of the intrinsic transcoders (models of C05/Model05.v, tied to the code by the C05
    correspondence): for EVERY source, room and option, the number of output elements never exceeds the room the caller
    gave (maxChars / maxBytes), charSizes has exactly one entry per output char, and the source elements reported as
    eaten never exceed the source count.  The models are functional (output = list appended in order, source = list
    consumed from the front), so "out[j] is written with j < maxChars" is [length out <= maxChars] and "src[i] is read
    with i < srcCount" is [eaten <= length src] together with the fact that a step only pattern-matches the elements it
    reports as eaten (a read beyond the list has no representation other than the [SStop] / error branches). *)
From XV Require Import C05.Spec05 C05.Model05 C05.Proofs05a C05.Proofs05b C05.Proofs05c C05.Proofs05d C05.Proofs05e C05.Proofs05f.
From Coq Require Import Lia ZArith ZifyBool ZifyN ZifyNat.
Local Open Scope N_scope.

(* ---- UTF-16 ---- *)
Lemma u16_from_bounds : forall sw src m, (length (u16_from sw src m) <= m)%nat /\ (2 * length (u16_from sw src m) <= length src)%nat.
Proof.
  intros sw src m. revert src. induction m as [|m IH]; intros src.
  - destruct src as [|b0 [|b1 r]]; cbn [u16_from length]; lia.
  - destruct src as [|b0 [|b1 r]]; cbn [u16_from length]; try lia. specialize (IH r). lia.
Qed.
Lemma u16_to_bounds : forall sw src m, (length (u16_to sw src m) <= 2 * m)%nat /\ (length (u16_to sw src m) <= 2 * length src)%nat.
Proof.
  intros sw src m. revert src. induction m as [|m IH]; intros src.
  - destruct src as [|u r]; cbn [u16_to length]; lia.
  - destruct src as [|u r]; cbn [u16_to length]; [lia|]. rewrite app_length. specialize (IH r).
    destruct sw; cbn [length]; lia.
Qed.

(* ---- single-byte tables, ASCII, ISO-8859-1 ---- *)
Lemma filter_len : forall (A : Type) (f : A -> bool) l, (length (filter f l) <= length l)%nat.
Proof. induction l as [|a l IH]; cbn; [lia|]. destruct (f a); cbn; lia. Qed.
Lemma tab_from_bounds : forall from src m o e, tab_from from src m = (o, e) ->
  (length o <= m)%nat /\ (e <= m)%nat /\ (e <= length src)%nat /\ (length o <= e)%nat.
Proof.
  intros from src m o e H. unfold tab_from in H. inversion H; subst. clear H.
  pose proof (filter_len _ (fun c => negb (c =? 0xFFFF)) (map (tbl from) (firstn (Nat.min (length src) m) src))) as F.
  rewrite map_length, firstn_length in F. lia.
Qed.
Lemma tab_go_len : forall (t : list (N * N)) (sz : N) (throw : bool) (l o : list N),
  (fix go (l : list N) : res (list N) xerr :=
    match l with
    | [] => Ok []
    | u :: r =>
      let b := xlat_to t sz u in
      if negb (b =? 0) then match go r with Ok o => Ok (b :: o) | Err e => Err e end
      else if throw then Err E_Trans_Unrepresentable
      else match go r with Ok o => Ok (0x3F :: o) | Err e => Err e end
    end) l = Ok o -> length o = length l.
Proof.
  intros t sz throw. induction l as [|u r IH]; intros o H.
  - inversion H. reflexivity.
  - cbv zeta in H. destruct (negb (xlat_to t sz u =? 0)).
    + match type of H with match ?g with _ => _ end = _ => destruct g as [o'|] eqn:E end; [|discriminate].
      inversion H; subst. cbn [length]. f_equal. apply IH. reflexivity.
    + destruct throw; [discriminate|].
      match type of H with match ?g with _ => _ end = _ => destruct g as [o'|] eqn:E end; [|discriminate].
      inversion H; subst. cbn [length]. f_equal. apply IH. reflexivity.
Qed.
Lemma tab_to_bounds : forall t sz src m throw o e, tab_to t sz src m throw = Ok (o, e) ->
  (length o <= m)%nat /\ (e <= length src)%nat /\ length o = e.
Proof.
  intros t sz src m throw o e H. unfold tab_to in H.
  match type of H with match ?g with _ => _ end = _ => destruct g as [o'|] eqn:E end; [|discriminate].
  apply tab_go_len in E. rewrite firstn_length in E. inversion H; subst. lia.
Qed.
Lemma ascii_go_len : forall l d o, ascii_go l d = Ok o -> (length o <= length l)%nat.
Proof.
  induction l as [|b r IH]; intros d o H; cbn [ascii_go] in H.
  - inversion H. cbn. lia.
  - destruct (b <? 0x80).
    + destruct (ascii_go r (S d)) as [o'|] eqn:E; [|discriminate]. inversion H; subst. apply IH in E. cbn [length]. lia.
    + destruct (Nat.ltb 32 d); [|discriminate]. inversion H. cbn. lia.
Qed.
Lemma ascii_from_bounds : forall src m o, ascii_from src m = Ok o -> (length o <= m)%nat /\ (length o <= length src)%nat.
Proof. intros src m o H. unfold ascii_from in H. apply ascii_go_len in H. rewrite firstn_length in H. lia. Qed.
Lemma l1_from_bounds : forall src m, (length (l1_from src m) <= m)%nat /\ (length (l1_from src m) <= length src)%nat.
Proof. intros src m. unfold l1_from. rewrite firstn_length. lia. Qed.

(* ---- UCS-4 ---- *)
Lemma skipn_len : forall (A : Type) n (l : list A), length (skipn n l) = (length l - n)%nat.
Proof. intros A n l. apply skipn_length. Qed.
Lemma firstn_eq_len : forall (A : Type) n (l l' : list A), firstn n l = l' -> length l' = n -> (n <= length l)%nat.
Proof. intros A n l l' H L. rewrite <- H, firstn_length in L. lia. Qed.
Lemma sizes_of_len' : forall u n, (1 <= length u <= 2)%nat -> length (sizes_of u n) = length u.
Proof. intros u n H. destruct u as [|a [|b [|c r]]]; cbn in *; try lia. Qed.

Lemma u4_loop_bounds : forall fuel sw src room o s e, bytes src -> u4_loop fuel sw src room = Ok (o, s, e) ->
  (length o <= room)%nat /\ length s = length o /\ (e <= length src)%nat.
Proof.
  induction fuel as [|f IH]; intros sw src room o s e Hb H; [discriminate|].
  cbn [u4_loop] in H. destruct (u4_step sw src room) as [| | er | u n] eqn:Es; try discriminate.
  - inversion H; subst. cbn. lia.
  - inversion H; subst. cbn. lia.
  - destruct (u4_loop f sw (skipn n src) (room - length u)) as [[[o' s'] e']|er] eqn:El; [|discriminate].
    inversion H; subst. clear H.
    destruct (u4_step_sound _ _ _ _ _ Hb Es) as (c & Hc & Hf & Hu & Hn & Hr).
    pose proof (utf16_enc_len c) as L16. rewrite <- Hu in L16.
    assert (Hn4 : (4 <= length src)%nat).
    { subst n. apply (firstn_eq_len _ 4%nat src (ucs4_enc sw c) Hf). unfold ucs4_enc. destruct sw; reflexivity. }
    destruct (IH _ _ _ _ _ _ (bytes_skipn n src Hb) El) as (A & B & C). rewrite skipn_len in C.
    rewrite !app_length, (sizes_of_len' u n L16). lia.
Qed.

Lemma ucs4_bytes_len : forall sw v, length (ucs4_bytes sw v) = 4%nat.
Proof. intros sw v. unfold ucs4_bytes. destruct sw; reflexivity. Qed.
Lemma u4_to_step_out : forall sw src room bs used, u4_to_step sw src room = TOut bs used ->
  length bs = 4%nat /\ (1 <= room)%nat /\ (1 <= used <= length src)%nat.
Proof.
  intros sw src room bs used H. unfold u4_to_step in H. destruct src as [|u rest]; [discriminate|].
  destruct (Nat.eqb_spec room 0); [discriminate|].
  destruct ((0xD800 <=? u) && (u <=? 0xDBFF)).
  - destruct rest as [|t r]; [discriminate|]. destruct (negb ((0xDC00 <=? t) && (t <=? 0xDFFF))); [discriminate|].
    assert (E : bs = ucs4_bytes sw ((u * 1024 + t + w32 + 0x10000 - 0xD800 * 1024 - 0xDC00) mod w32) /\ used = 2%nat) by (split; congruence).
    destruct E as [E1 E2]. subst. rewrite ucs4_bytes_len. cbn [length]. lia.
  - assert (E : bs = ucs4_bytes sw u /\ used = 1%nat) by (split; congruence).
    destruct E as [E1 E2]. subst. rewrite ucs4_bytes_len. cbn [length]. lia.
Qed.
Lemma u4_to_loop_bounds : forall fuel sw src room bs e, u4_to_loop fuel sw src room = Ok (bs, e) ->
  (length bs <= 4 * room)%nat /\ (e <= length src)%nat.
Proof.
  induction fuel as [|f IH]; intros sw src room bs e H; [discriminate|].
  cbn [u4_to_loop] in H. destruct (u4_to_step sw src room) as [| er | b1 used] eqn:Es; try discriminate.
  - inversion H; subst. cbn. lia.
  - destruct (u4_to_loop f sw (skipn used src) (room - 1)) as [[o' e']|er] eqn:El; [|discriminate].
    inversion H; subst. clear H. destruct (u4_to_step_out _ _ _ _ _ Es) as (A & B & C).
    destruct (IH _ _ _ _ _ El) as (D & E). rewrite skipn_len in E. rewrite app_length. lia.
Qed.
Lemma u4_to_bounds : forall sw src maxBytes bs e, u4_to sw src maxBytes = Ok (bs, e) ->
  (length bs <= maxBytes)%nat /\ (e <= length src)%nat.
Proof.
  intros sw src maxBytes bs e H. unfold u4_to in H. apply u4_to_loop_bounds in H. destruct H as [A B].
  split; [|exact B]. pose proof (Nat.div_mod maxBytes 4 ltac:(lia)). lia.
Qed.

(* ---- UTF-8 encoder ---- *)
Lemma enc_bytes_len : forall c n, (1 <= n <= 4)%nat -> length (enc_bytes c n) = n.
Proof. intros c n H. destruct n as [|[|[|[|[|k]]]]]; try lia; reflexivity. Qed.
Lemma x8_to_step_room : forall src room throw bs used, Forall u16 src ->
  x8_to_step src room throw = TOut bs used -> (length bs <= room)%nat.
Proof.
  intros src room throw bs used Hsrc H. destruct src as [|u rest]; [discriminate|].
  inversion Hsrc as [|? ? Hu Hrest]; subst. unfold u16 in Hu.
  unfold x8_to_step in H. cbv zeta in H.
  destruct ((0xD800 <=? u) && (u <=? 0xDBFF)) eqn:Elead.
  - destruct rest as [|t rest']; [discriminate|].
    inversion Hrest as [|? ? Ht _]; subst. unfold u16 in Ht.
    destruct ((t <? 0xDC00) || (0xDFFF <? t)) eqn:Etr; [discriminate|].
    set (c := 0x10000 + (u - 0xD800) * 1024 + (t - 0xDC00)).
    assert (Ev : ((u - 0xD800) * 1024 + (t + w32 - 0xDC00) + 0x10000) mod w32 = c) by (unfold c, w32; lia).
    rewrite Ev in H.
    assert (Hc1 : 0x10000 <= c) by (unfold c; lia).
    assert (Hc2 : c < 0x110000) by (unfold c; lia).
    destruct (N.ltb_spec c 0x80); [lia|]. destruct (N.ltb_spec c 0x800); [lia|].
    destruct (N.ltb_spec c 0x10000); [lia|]. destruct (N.ltb_spec c 0x110000); [|lia].
    destruct (Nat.ltb_spec room 4); [discriminate|].
    assert (Hb : bs = enc_bytes c 4) by congruence. rewrite Hb, enc_bytes_len by lia. lia.
  - destruct ((0xDC00 <=? u) && (u <=? 0xDFFF)) eqn:Etrail; [discriminate|].
    destruct (N.ltb_spec u 0x80).
    { destruct (Nat.ltb_spec room 1); [discriminate|].
      assert (Hb : bs = enc_bytes u 1) by congruence. rewrite Hb, enc_bytes_len by lia. lia. }
    destruct (N.ltb_spec u 0x800).
    { destruct (Nat.ltb_spec room 2); [discriminate|].
      assert (Hb : bs = enc_bytes u 2) by congruence. rewrite Hb, enc_bytes_len by lia. lia. }
    destruct (N.ltb_spec u 0x10000); [|lia].
    destruct (Nat.ltb_spec room 3); [discriminate|].
    assert (Hb : bs = enc_bytes u 3) by congruence. rewrite Hb, enc_bytes_len by lia. lia.
Qed.
Lemma x8_to_loop_bounds : forall fuel src room throw bs n, Forall u16 src ->
  x8_to_loop fuel src room throw = Ok (bs, n) -> (length bs <= room)%nat /\ (n <= length src)%nat.
Proof.
  induction fuel as [|f IH]; intros src room throw bs n Hsrc H; [discriminate|].
  cbn [x8_to_loop] in H. destruct (x8_to_step src room throw) as [| e | b1 used] eqn:Es.
  - assert (E : bs = [] /\ n = O) by (split; congruence). destruct E; subst. cbn. lia.
  - discriminate.
  - destruct (x8_to_loop f (skipn used src) (room - length b1) throw) as [[o e]|e] eqn:El; [|discriminate].
    assert (E : bs = b1 ++ o /\ n = (used + e)%nat) by (split; congruence). destruct E; subst.
    pose proof (x8_to_step_room _ _ _ _ _ Hsrc Es) as R.
    destruct (x8_to_step_sound _ _ _ _ _ Hsrc Es) as (c & Hc & Hf & Hb & Hu1 & Hu2).
    pose proof (firstn_eq_len _ used src _ Hf Hu2) as Hused.
    destruct (IH _ _ _ _ _ (Forall_skipn _ _ used _ Hsrc) El) as (A & B). rewrite skipn_len in B.
    rewrite app_length. lia.
Qed.
Lemma x8_to_bounds : forall src maxBytes throw bs n, Forall u16 src ->
  x8_to src maxBytes throw = Ok (bs, n) -> (length bs <= maxBytes)%nat /\ (n <= length src)%nat.
Proof.
  intros src maxBytes throw bs n Hsrc H. unfold x8_to in H.
  destruct src as [|u r]; [inversion H; subst; cbn; lia|].
  destruct maxBytes as [|m]; [inversion H; subst; cbn; lia|].
  exact (x8_to_loop_bounds _ _ _ _ _ _ Hsrc H).
Qed.
