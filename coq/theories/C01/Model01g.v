(** C01, growable containers (round 4): the capacity arithmetic and the index of every element access of
      ValueVectorOf::ensureExtraCapacity / addElement / insertElementAt / removeElementAt   (src/xercesc/util/ValueVectorOf.c)
      BaseRefVectorOf::ensureExtraCapacity / addElement / removeElementAt                  (src/xercesc/util/BaseRefVectorOf.c)
      RefHashTableOf::put / rehash (load factor 3/4, modulus 2m+1)                         (src/xercesc/util/RefHashTableOf.c)
      XMLStringPool::addNewEntry                                                           (src/xercesc/util/StringPool.cpp)
      NameIdPool::put                                                                      (src/xercesc/util/NameIdPool.c)
    Tests, comparison operators, factors and initial sizes are regenerated from the source (Gen/GenC01Grow.v, by
    translator/c01_grow.py).  Each step returns, besides the new state, [need] = 1 + the highest element index it reads
    or writes in the (possibly re-allocated) array: the access is inside the allocation iff need <= capacity.
    No proofs here. *)
From XV Require Export Base.XDefs.
From XV Require Export Gen.GenC01Grow.
Local Open Scope N_scope.

(** a comparison operator of the source, by its code: 0 ==, 1 >=, 2 >, 3 <=, 4 <, 5 != *)
Definition cmpc (code a b : N) : bool :=
  match code with
  | 0 => a =? b | 1 => b <=? a | 2 => b <? a | 3 => a <=? b | 4 => a <? b | _ => negb (a =? b)
  end.

(* ---- ValueVectorOf ------------------------------------------------------------------------------------------- *)
(** ensureExtraCapacity(length): newMax = fCurCount + length; if (newMax > fMaxCount) { minNewMax = (XMLSize_t)(fCurCount * 1.25);
    if (newMax < minNewMax) newMax = minNewMax; allocate newMax; copy 0..fCurCount-1; fMaxCount = newMax; }.
    result: new fMaxCount *)
Definition vv_ensure (cur mx len : N) : N :=
  let nm := cur + len in
  if cmpc vvGrowTest nm mx then
    let mn := cur * vvGrowNum / vvGrowDen in
    if cmpc vvMinTest nm mn then mn else nm
  else mx.

Inductive vop := VAdd | VIns (at_ : N) | VRem (at_ : N) | VEnsure (n : N) | VClear.

(** one operation on (fCurCount, fMaxCount): result (fCurCount', fMaxCount', need, threw) *)
Definition vv_step (cur mx : N) (op : vop) : N * N * N * bool :=
  match op with
  | VAdd =>                       (* ensureExtraCapacity(1); fElemList[fCurCount++] = toAdd; *)
      let mx' := vv_ensure cur mx vvAddExtra in (cur + 1, mx', cur + 1, false)
  | VIns at_ =>
      if at_ =? cur then let mx' := vv_ensure cur mx vvAddExtra in (cur + 1, mx', cur + 1, false)
      else if cmpc vvInsTest at_ cur then (cur, mx, 0, true)          (* ArrayIndexOutOfBoundsException *)
      else (* ensureExtraCapacity(1); for (index = fCurCount; index > insertAt; index--) fElemList[index] = fElemList[index-1]; *)
        let mx' := vv_ensure cur mx vvInsExtra in (cur + 1, mx', cur + 1, false)
  | VRem at_ =>
      if cur <=? at_ then (cur, mx, 0, true)
      else (* for (index = removeAt; index < fCurCount-1; index++) fElemList[index] = fElemList[index+1]; *)
        (cur - 1, mx, cur, false)
  | VEnsure n => let mx' := vv_ensure cur mx n in (cur, mx', cur, false)     (* the copy loop touches 0..fCurCount-1 *)
  | VClear => (0, mx, 0, false)
  end.

(** a sequence of operations: (every access so far inside the allocation?, trace of (count, capacity, threw)) *)
Fixpoint vv_run (cur mx : N) (ops : list vop) : bool * list (N * N * bool) :=
  match ops with
  | [] => (true, [])
  | op :: r =>
      match vv_step cur mx op with
      | (cur', mx', need, thr) =>
          let (ok, tr) := vv_run cur' mx' r in ((need <=? mx') && ok, (cur', mx', thr) :: tr)
      end
  end.

(* ---- BaseRefVectorOf ----------------------------------------------------------------------------------------- *)
(** ensureExtraCapacity(length): newMax = fCurCount + length; if (newMax <= fMaxCount) return;
    if (newMax < fMaxCount + fMaxCount/2) newMax = fMaxCount + fMaxCount/2; allocate newMax; copy; zero the rest *)
Definition rv_ensure (cur mx len : N) : N :=
  let nm := cur + len in
  if cmpc rvKeepTest nm mx then mx
  else let half := mx + mx / rvGrowDiv in if cmpc rvMinTest nm half then half else nm.

Definition rv_step (cur mx : N) (op : vop) : N * N * N * bool :=
  match op with
  | VAdd => let mx' := rv_ensure cur mx rvAddExtra in (cur + 1, mx', cur + 1, false)
  | VIns at_ =>
      if at_ =? cur then let mx' := rv_ensure cur mx rvAddExtra in (cur + 1, mx', cur + 1, false)
      else if cur <? at_ then (cur, mx, 0, true)
      else let mx' := rv_ensure cur mx 1 in (cur + 1, mx', cur + 1, false)
  | VRem at_ =>
      if cur <=? at_ then (cur, mx, 0, true)
      else (cur - 1, mx, cur, false)        (* shift down, then fElemList[fCurCount-1] = 0 *)
  | VEnsure n => let mx' := rv_ensure cur mx n in (cur, mx', cur, false)
  | VClear => (0, mx, cur, false)           (* removeAllElements: for (index < fCurCount) fElemList[index] = 0 *)
  end.

Fixpoint rv_run (cur mx : N) (ops : list vop) : bool * list (N * N * bool) :=
  match ops with
  | [] => (true, [])
  | op :: r =>
      match rv_step cur mx op with
      | (cur', mx', need, thr) =>
          let (ok, tr) := rv_run cur' mx' r in ((need <=? mx') && ok, (cur', mx', thr) :: tr)
      end
  end.

(* ---- RefHashTableOf ------------------------------------------------------------------------------------------ *)
(** put of a NEW key on (fCount, fHashModulus): threshold = fHashModulus * 3 / 4; if (fCount >= threshold) rehash()
    [newMod = fHashModulus * 2 + 1]; the bucket index is hash % fHashModulus.  result (fCount', fHashModulus') *)
Definition ht_put (cnt md : N) : N * N :=
  let md' := if cmpc htLoadTest cnt (md * htLoadNum / htLoadDen) then md * htRehashMul + htRehashAdd else md in
  (cnt + 1, md').
(** the bucket accessed for a key with hash value [h] *)
Definition ht_bucket (h md : N) : N := h mod md.

Fixpoint ht_run (cnt md : N) (n : nat) : list N :=
  match n with
  | O => []
  | S k => let '(c', m') := ht_put cnt md in m' :: ht_run c' m' k
  end.

(* ---- XMLStringPool ------------------------------------------------------------------------------------------- *)
(** addNewEntry on (fCurId, fMapCapacity): if (fCurId == fMapCapacity) fMapCapacity = (unsigned int)(fMapCapacity * 1.5);
    fIdMap[fCurId] = newElem; fCurId++.  result (fCurId', fMapCapacity', need) *)
Definition sp_add (id cap : N) : N * N * N :=
  let cap' := if cmpc spGrowTest id cap then cap * spGrowNum / spGrowDen else cap in (id + 1, cap', id + 1).

Fixpoint sp_run (id cap : N) (n : nat) : bool * (N * N) :=
  match n with
  | O => (true, (id, cap))
  | S k => let '(id', cap', need) := sp_add id cap in
           let (ok, st) := sp_run id' cap' k in ((need <=? cap') && ok, st)
  end.

(* ---- NameIdPool ---------------------------------------------------------------------------------------------- *)
(** constructor: fIdPtrsCount = initSize ? initSize : 256 *)
Definition nip_init (initSize : N) : N := if initSize =? 0 then nipDefault else initSize.
(** put on (fIdCounter, fIdPtrsCount): if (fIdCounter + 1 == fIdPtrsCount) fIdPtrsCount = (XMLSize_t)(fIdPtrsCount * 1.5);
    retId = ++fIdCounter; fIdPtrs[retId] = elem.   result (fIdCounter', fIdPtrsCount', need) *)
Definition nip_put (ctr cnt : N) : N * N * N :=
  let cnt' := if cmpc nipGrowTest (ctr + nipTestAdd) cnt then cnt * nipGrowNum / nipGrowDen else cnt in
  (ctr + 1, cnt', ctr + 2).

Fixpoint nip_run (ctr cnt : N) (n : nat) : bool * (N * N) :=
  match n with
  | O => (true, (ctr, cnt))
  | S k => let '(ctr', cnt', need) := nip_put ctr cnt in
           let (ok, st) := nip_run ctr' cnt' k in ((need <=? cnt') && ok, st)
  end.
