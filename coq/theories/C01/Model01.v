(** C01, growable arrays: the capacity arithmetic of XMLBuffer::ensureCapacity / append
    (src/xercesc/framework/XMLBuffer.{hpp,cpp}) and of ElemStack::expandStack / expandMap / addChild
    (src/xercesc/internal/ElemStack.cpp).  The growth factors and initial capacities are regenerated from the
    source (Gen/GenReaderConsts.v).  No proofs here. *)
From XV Require Export Base.XDefs.
From XV Require Export Gen.GenReaderConsts.
Local Open Scope N_scope.

(** XMLBuffer::ensureCapacity(extraNeeded) without a full-handler: newCap = (fIndex + extraNeeded) * 2;
    the buffer is reallocated to newCap+1 elements when newCap > fCapacity *)
Definition buf_ensure (idx extra cap : N) : N :=
  let nc := (idx + extra) * xmlbufGrowFactor in if cap <? nc then nc else cap.

(** append(ch): if (fIndex == fCapacity) ensureCapacity(1); fBuffer[fIndex++] = ch.
    result: (index written, new fIndex, new fCapacity) *)
Definition buf_append1 (idx cap : N) : N * N * N :=
  let cap' := if idx =? cap then buf_ensure idx 1 cap else cap in (idx, idx + 1, cap').

(** append(chars, count): if (fIndex + count >= fCapacity) ensureCapacity(count); memcpy(&fBuffer[fIndex], chars, count);
    fIndex += count.   result: (one past the last index written = new fIndex, new fCapacity) *)
Definition buf_appendn (idx cap count : N) : N * N :=
  let cap' := if cap <=? idx + count then buf_ensure idx count cap else cap in (idx + count, cap').

(** (XMLSize_t)(cap * 1.25): exact in double arithmetic for cap < 2^51 *)
Definition grow54 (cap : N) : N := cap * elemStackGrowNum / elemStackGrowDen.

(** ElemStack::expandStack is called when fStackTop == fStackCapacity *)
Definition stack_expand (cap : N) : N := grow54 cap.
(** ElemStack::expandMap / addChild: oldCap ? (XMLSize_t)(oldCap * 1.25) : initial *)
Definition map_expand (cap : N) : N := if cap =? 0 then elemGrowInitMin else grow54 cap.

(** DFAContentModel::buildDFA: a new DFA state is stored at index [curState] of statesToDo / fTransTable, then
    curState++, then "if (curState <test> curArraySize)" the three arrays are re-allocated with
    (unsigned int)(curArraySize * 1.5) entries.  The test operator is read from the source:
    dfaGrowTest = 0 for ==, 1 for >=, 2 for >.   result: (index written, new curState, new curArraySize) *)
Definition dfa_full (cur size : N) : bool :=
  if dfaGrowTest =? 0 then cur =? size else if dfaGrowTest =? 1 then size <=? cur else size <? cur.
Definition dfa_add_state (cur size : N) : N * N * N :=
  let cur' := cur + 1 in
  (cur, cur', if dfa_full cur' size then size * dfaGrowNum / dfaGrowDen else size).

(** IGXMLScanner::scanStartTagNS / SGXMLScanner::scanStartTag: "while (elemDepth >= fElemStateSize) resizeElemState();"
    (resizeElemState doubles fElemStateSize) before fElemState[elemDepth] is written; [elemstate_once] is the single
    "if" the code had before the repair (finding F30) *)
Fixpoint elemstate_ensure (fuel : nat) (depth size : N) : N :=
  match fuel with
  | O => size
  | S f => if size <=? depth then elemstate_ensure f depth (size * 2) else size
  end.
Definition elemstate_once (depth size : N) : N := if size <=? depth then size * 2 else size.

Fixpoint iter_grow (f : N -> N) (n : nat) (x : N) : N := match n with O => x | S k => f (iter_grow f k x) end.
