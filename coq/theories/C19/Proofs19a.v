(** C19 -- lemmas: every stream the model opens is guarded (T19_no_fetch). *)
From XV Require Import Base.XDefs C19.Uri19 C19.Spec19 C19.Model19.
Local Open Scope N_scope.

(** the guard under which the model opens a default stream of kind [k]; [v] = fValidate after the DOCTYPE *)
Definition gate (c : cfg) (v : bool) (k : kind) : bool :=
  negb (c_disableDefault c) &&
  match k with
  | KDtd => dtd_scanner c && (c_loadDTD c || v)
  | KEnt | KPE => dtd_scanner c
  | KSchema => schema_scanner c && c_loadSchema c
  end.

Definition allowed (c : cfg) (v : bool) (e : event) : bool :=
  match e with EvOpen k _ _ => gate c v k | _ => true end.

Definition TrP (P : event -> bool) (s : st) : Prop := Forall (fun e => P e = true) (s_tr s).

Section Inv.
Variable P : event -> bool.
Hypothesis Pfatal : forall f, P (EvFatal f) = true.

Lemma TrP_emit : forall ev s, Forall (fun e => P e = true) ev -> TrP P s -> TrP P (emit ev s).
Proof.
  intros ev s H Hs. unfold TrP, emit. cbn [s_tr]. apply Forall_app. split; [|exact Hs].
  apply Forall_rev. exact H.
Qed.
Lemma TrP_halt : forall f s, TrP P s -> TrP P (halt f s).
Proof. intros f s Hs. unfold TrP, halt. cbn [s_tr]. constructor; [apply Pfatal|exact Hs]. Qed.
Lemma TrP_push_dtd : forall c n s, P (EvPushDtd n) = true -> TrP P s -> TrP P (push_dtd c n s).
Proof.
  intros c n s Hp Hs. unfold push_dtd.
  assert (H1 : TrP P (emit [EvPushDtd n] s)) by (apply TrP_emit; [repeat constructor; exact Hp|exact Hs]).
  destruct (c_countDtd c); [|exact H1]. cbv zeta. destruct (over_limit c _); [apply TrP_halt|]; exact H1.
Qed.
Lemma TrP_incr : forall s, TrP P s -> TrP P (incr s).
Proof. intros s Hs. exact Hs. Qed.
Lemma TrP_add_ge : forall n g s, TrP P s -> TrP P (add_ge n g s).
Proof. intros n g s Hs. exact Hs. Qed.
Lemma TrP_add_pe : forall n g s, TrP P s -> TrP P (add_pe n g s).
Proof. intros n g s Hs. exact Hs. Qed.
Lemma TrP_add_ns : forall n s, TrP P s -> TrP P (add_ns n s).
Proof. intros n s Hs. exact Hs. Qed.
Lemma TrP_add_seen : forall n s, TrP P s -> TrP P (add_seen n s).
Proof. intros n s Hs. exact Hs. Qed.
End Inv.

(* ---- unfolding lemmas for the nested fixpoints ------------------------------------------- *)
Lemma content_O : forall c rs fs nd ia ext cur st ps s,
  content O c rs fs nd ia ext cur st ps s = if s_halt s then s else halt FFuel s.
Proof. reflexivity. Qed.
Lemma content_nil : forall d c rs fs nd ia ext cur st s, content (S d) c rs fs nd ia ext cur st [] s = s.
Proof. reflexivity. Qed.
Lemma content_txt : forall d c rs fs nd ia ext cur st r s,
  content (S d) c rs fs nd ia ext cur st (PTxt :: r) s = content (S d) c rs fs nd ia ext cur st r s.
Proof. reflexivity. Qed.
Lemma content_cons_ref : forall d c rs fs nd ia ext cur st n r s,
  content (S d) c rs fs nd ia ext cur st (PRef n :: r) s =
  content (S d) c rs fs nd ia ext cur st r
    (if s_halt s then s else expand_ref (content d c rs fs nd) c rs fs nd ia ext cur st n s).
Proof. reflexivity. Qed.

Lemma dtd_att_O : forall c nd ext cur st ps s, dtd_att O c nd ext cur st ps s = if s_halt s then s else halt FFuel s.
Proof. reflexivity. Qed.
Lemma dtd_att_nil : forall d c nd ext cur st s, dtd_att (S d) c nd ext cur st [] s = s.
Proof. reflexivity. Qed.
Lemma dtd_att_txt : forall d c nd ext cur st r s, dtd_att (S d) c nd ext cur st (PTxt :: r) s = dtd_att (S d) c nd ext cur st r s.
Proof. reflexivity. Qed.
Lemma dtd_att_cons_ref : forall d c nd ext cur st n r s,
  dtd_att (S d) c nd ext cur st (PRef n :: r) s =
  dtd_att (S d) c nd ext cur st r (if s_halt s then s else dtd_att_ref (dtd_att d c nd) c nd ext cur st n s).
Proof. reflexivity. Qed.

Lemma dtd_items_O : forall c rs fs nd ext cur st l s,
  dtd_items O c rs fs nd ext cur st l s = if s_halt s then s else halt FFuel s.
Proof. reflexivity. Qed.
Lemma dtd_items_nil : forall d c rs fs nd ext cur st s, dtd_items (S d) c rs fs nd ext cur st [] s = s.
Proof. reflexivity. Qed.
Lemma dtd_items_cons : forall d c rs fs nd ext cur st it r s,
  dtd_items (S d) c rs fs nd ext cur st (it :: r) s =
  dtd_items (S d) c rs fs nd ext cur st r
    (if s_halt s then s else dtd_item (dtd_items d c rs fs nd) (dtd_att d c nd) c rs fs ext cur st it s).
Proof. reflexivity. Qed.

Lemma schema_refs_O : forall c rs fs url tns l s,
  schema_refs O c rs fs url tns l s = if s_halt s then s else halt FFuel s.
Proof. reflexivity. Qed.
Lemma schema_refs_nil : forall d c rs fs url tns s, schema_refs (S d) c rs fs url tns [] s = s.
Proof. reflexivity. Qed.
Lemma schema_refs_cons : forall d c rs fs url tns r rest s,
  schema_refs (S d) c rs fs url tns (r :: rest) s =
  schema_refs (S d) c rs fs url tns rest
    (if s_halt s then s else schema_ref (schema_refs d c rs fs) c rs fs url tns r s).
Proof. reflexivity. Qed.

(* ---- the gates ----------------------------------------------------------------------------- *)
Section Gates.
Variables (c : cfg) (v : bool) (rs : option resolver) (fs : filesys).

Let P := allowed c v.
Let Pf : forall f, P (EvFatal f) = true := fun _ => eq_refl.

Definition kgate (k : kind) : bool :=
  match k with
  | KDtd => dtd_scanner c && (c_loadDTD c || v)
  | KEnt | KPE => dtd_scanner c
  | KSchema => schema_scanner c && c_loadSchema c
  end.

Lemma create_reader_allowed : forall k rb b sys pub ev r,
  kgate k = true -> create_reader c rs fs k rb b sys pub = (ev, r) -> Forall (fun e => P e = true) ev.
Proof.
  intros k rb b sys pub ev r G E. unfold create_reader in E.
  assert (R1 : Forall (fun e => P e = true) (match rs with Some _ => [EvResolve k sys rb pub] | None => [] end)).
  { destruct rs; repeat constructor. }
  destruct (match rs with Some f => f sys rb pub | None => None end) as [[id ct]|].
  - inversion E; subst. apply Forall_app. split; [exact R1|repeat constructor].
  - destruct (c_disableDefault c) eqn:D.
    + inversion E; subst. exact R1.
    + destruct (default_source (c_stdUri c) b sys) as [d|].
      * assert (O1 : forall t i, P (EvOpen k t i) = true).
        { intros t i. unfold P, allowed, gate. rewrite D. cbn [negb andb]. exact G. }
        destruct (ds_open d).
        -- destruct (fs path); inversion E; subst; (apply Forall_app; split; [exact R1|repeat constructor; apply O1]).
        -- destruct (fs url); inversion E; subst; (apply Forall_app; split; [exact R1|repeat constructor; apply O1]).
      * inversion E; subst. exact R1.
Qed.

Ltac brk :=
  repeat match goal with
         | |- context [match ?x with _ => _ end] => destruct x eqn:?
         end.

Lemma expand_ref_allowed : forall (rec : rec_content) nd ia ext cur st n,
  (forall ia ext cur st ps s, TrP P s -> TrP P (rec ia ext cur st ps s)) ->
  forall s, TrP P s -> TrP P (expand_ref rec c rs fs nd ia ext cur st n s).
Proof.
  intros rec nd ia ext cur st n IH s Hs. unfold expand_ref.
  destruct (negb (dtd_scanner c)) eqn:DS; [apply TrP_halt; auto|].
  assert (G : kgate KEnt = true) by (cbn [kgate]; destruct (dtd_scanner c); [reflexivity|discriminate]).
  destruct (lookup n (s_ge s)) as [g|]; [|destruct nd; [apply TrP_halt|]; auto].
  destruct (g_def g) as [vv|pub sys].
  - destruct (negb (push_ok n st)); [apply TrP_halt; auto|].
    destruct (over_limit c _); [apply TrP_halt; auto; apply TrP_incr; apply TrP_emit; [repeat constructor|auto]|].
    apply IH. apply TrP_emit; [repeat constructor|]. apply TrP_incr. apply TrP_emit; [repeat constructor|auto].
  - destruct ia; [apply TrP_halt; auto|].
    destruct (create_reader c rs fs KEnt (g_base g) _ sys pub) as [ev r] eqn:E.
    pose proof (create_reader_allowed _ _ _ _ _ _ _ G E) as Hev.
    assert (H1 : TrP P (emit ev s)) by (apply TrP_emit; auto).
    destruct r as [id ct| |f]; [|apply TrP_halt; auto|apply TrP_halt; auto].
    destruct (negb (push_ok n st)); [apply TrP_halt; auto|].
    destruct (over_limit c _); [apply TrP_halt; auto; apply TrP_incr; apply TrP_emit; [repeat constructor|auto]|].
    assert (H3 : TrP P (emit [EvExpand false n] (incr (emit [EvPush n] (emit ev s))))).
    { apply TrP_emit; [repeat constructor|]. apply TrP_incr. apply TrP_emit; [repeat constructor|auto]. }
    destruct ct as [[items|ps|refs]|]; auto.
Qed.

Lemma content_allowed : forall d nd ia ext cur st ps s,
  TrP P s -> TrP P (content d c rs fs nd ia ext cur st ps s).
Proof.
  induction d as [|d IHd]; intros nd ia ext cur st ps s Hs.
  - rewrite content_O. destruct (s_halt s); [exact Hs|apply TrP_halt; auto].
  - revert s Hs. induction ps as [|p r IHr]; intros s Hs.
    + rewrite content_nil. exact Hs.
    + destruct p as [|n].
      * rewrite content_txt. apply IHr. exact Hs.
      * rewrite content_cons_ref. apply IHr. destruct (s_halt s); [exact Hs|].
        apply expand_ref_allowed; [|exact Hs]. intros. apply IHd. assumption.
Qed.

Lemma dtd_att_ref_allowed : forall (rec : rec_att) nd ext cur st n,
  (forall ext cur st ps s, TrP P s -> TrP P (rec ext cur st ps s)) ->
  forall s, TrP P s -> TrP P (dtd_att_ref rec c nd ext cur st n s).
Proof.
  intros rec nd ext cur st n IH s Hs. unfold dtd_att_ref.
  destruct (lookup n (s_ge s)) as [g|]; [|destruct nd; [apply TrP_halt|]; auto].
  destruct (g_def g); [|apply TrP_halt; auto].
  destruct (negb (push_ok n st)); [apply TrP_halt; auto|].
  apply IH. apply TrP_push_dtd; auto.
Qed.

Lemma dtd_att_allowed : forall d nd ext cur st ps s, TrP P s -> TrP P (dtd_att d c nd ext cur st ps s).
Proof.
  induction d as [|d IHd]; intros nd ext cur st ps s Hs.
  - rewrite dtd_att_O. destruct (s_halt s); [exact Hs|apply TrP_halt; auto].
  - revert s Hs. induction ps as [|p r IHr]; intros s Hs.
    + rewrite dtd_att_nil. exact Hs.
    + destruct p as [|n].
      * rewrite dtd_att_txt. apply IHr. exact Hs.
      * rewrite dtd_att_cons_ref. apply IHr. destruct (s_halt s); [exact Hs|].
        apply dtd_att_ref_allowed; [|exact Hs]. intros. apply IHd. assumption.
Qed.

Section DtdGates.
Hypothesis DS : dtd_scanner c = true.

Lemma dtd_item_allowed : forall (rec : rec_dtd) (datt : rec_att) ext cur st it,
  (forall ext cur st l s, TrP P s -> TrP P (rec ext cur st l s)) ->
  (forall ext cur st l s, TrP P s -> TrP P (datt ext cur st l s)) ->
  forall s, TrP P s -> TrP P (dtd_item rec datt c rs fs ext cur st it s).
Proof.
  intros rec datt ext cur st it IH IHa s Hs. unfold dtd_item.
  assert (G : kgate KPE = true) by (cbn [kgate]; exact DS).
  destruct it as [n def|n def|n|vv].
  - destruct (lookup n (s_ge s)); [exact Hs|apply TrP_add_ge; exact Hs].
  - destruct (lookup n (s_pe s)); [exact Hs|apply TrP_add_pe; exact Hs].
  - destruct (lookup n (s_pe s)) as [p|]; [|exact Hs].
    destruct (p_def p) as [vv|pub sys].
    + destruct (negb (push_ok n st)); [apply TrP_halt; auto|].
      apply IH. apply TrP_push_dtd; auto.
    + destruct (create_reader c rs fs KPE (p_base p) _ sys pub) as [ev r] eqn:E.
      pose proof (create_reader_allowed _ _ _ _ _ _ _ G E) as Hev.
      assert (H1 : TrP P (emit ev s)) by (apply TrP_emit; auto).
      destruct r as [id ct| |f]; [|apply TrP_halt; auto|apply TrP_halt; auto].
      destruct (negb (push_ok n st)); [apply TrP_halt; auto|].
      assert (H2 : TrP P (push_dtd c n (emit ev s))) by (apply TrP_push_dtd; auto).
      destruct ct as [[items|ps|refs]|]; auto.
  - apply IHa. exact Hs.
Qed.

Lemma dtd_items_allowed : forall d nd ext cur st l s, TrP P s -> TrP P (dtd_items d c rs fs nd ext cur st l s).
Proof.
  induction d as [|d IHd]; intros nd ext cur st l s Hs.
  - rewrite dtd_items_O. destruct (s_halt s); [exact Hs|apply TrP_halt; auto].
  - revert s Hs. induction l as [|it r IHr]; intros s Hs.
    + rewrite dtd_items_nil. exact Hs.
    + rewrite dtd_items_cons. apply IHr. destruct (s_halt s); [exact Hs|].
      apply dtd_item_allowed; [| |exact Hs].
      * intros. apply IHd. assumption.
      * intros. apply dtd_att_allowed. assumption.
Qed.

End DtdGates.

Lemma schema_source_allowed : forall base loc ns ev src,
  schema_source c rs base loc ns = (ev, src) ->
  Forall (fun e => P e = true) ev /\ (forall d, src = SsDef d -> c_disableDefault c = false).
Proof.
  intros base loc ns ev src E. unfold schema_source in E.
  assert (R1 : Forall (fun e => P e = true) (match rs with Some _ => [EvResolve KSchema loc base ns] | None => [] end)).
  { destruct rs; repeat constructor. }
  destruct (match rs with Some f => f loc base ns | None => None end) as [[id ct]|].
  - inversion E; subst. split; [|intros d H; discriminate]. apply Forall_app. split; [exact R1|repeat constructor].
  - destruct (c_disableDefault c) eqn:D.
    + inversion E; subst. split; [exact R1|intros d H; discriminate].
    + destruct (default_source (c_stdUri c) base loc); inversion E; subst; (split; [exact R1|intros; reflexivity || discriminate]).
Qed.

Lemma schema_open_allowed : forall src ev ct,
  kgate KSchema = true -> (forall d, src = SsDef d -> c_disableDefault c = false) ->
  schema_open fs src = (ev, ct) -> Forall (fun e => P e = true) ev.
Proof.
  intros src ev ct G D E. unfold schema_open in E. destruct src as [| |id ct'|d]; inversion E; subst; try constructor.
  - unfold P, allowed, gate. rewrite (D d eq_refl). cbn [negb andb]. exact G.
  - constructor.
Qed.

Section SchemaGates.
Hypothesis GS : kgate KSchema = true.

Lemma schema_ref_allowed : forall (rec : rec_schema) url tns r,
  (forall url tns refs s, TrP P s -> TrP P (rec url tns refs s)) ->
  forall s, TrP P s -> TrP P (schema_ref rec c rs fs url tns r s).
Proof.
  intros rec url tns r IH s Hs. unfold schema_ref.
  destruct (schema_source c rs url (sr_loc r) _) as [ev src] eqn:E.
  destruct (schema_source_allowed _ _ _ _ _ E) as [Hev HD].
  assert (H1 : TrP P (emit ev s)) by (apply TrP_emit; auto).
  assert (K : forall s1, TrP P s1 ->
    TrP P (let id := ssrc_id src in
           if mem id (s_seen s1) then s1
           else if (match sr_kind r with SImport => mem (sr_ns r) (s_ns s1) | SInclude => false end) then s1
           else let '(ev2, ct) := schema_open fs src in
                let s2 := emit ev2 s1 in
                match ct with
                | SoGot (CSchema refs) =>
                  let tns' := match sr_kind r with SInclude => tns | SImport => sr_ns r end in
                  rec id tns' refs (add_seen id (match sr_kind r with SImport => add_ns (sr_ns r) s2 | SInclude => s2 end))
                | SoThrow f => halt f s2
                | _ => s2
                end)).
  { intros s1 Hs1. cbv zeta. destruct (mem (ssrc_id src) (s_seen s1)); [exact Hs1|].
    destruct (match sr_kind r with SImport => mem (sr_ns r) (s_ns s1) | SInclude => false end); [exact Hs1|].
    destruct (schema_open fs src) as [ev2 ct] eqn:E2.
    pose proof (schema_open_allowed _ _ _ GS HD E2) as Hev2.
    assert (H2 : TrP P (emit ev2 s1)) by (apply TrP_emit; auto).
    destruct ct as [[items|ps|refs]| |f]; auto; [|apply TrP_halt; auto].
    apply IH. apply TrP_add_seen. destruct (sr_kind r); [exact H2|apply TrP_add_ns; exact H2]. }
  destruct src; [exact H1|apply TrP_halt; auto|apply K; exact H1|apply K; exact H1].
Qed.

Lemma schema_refs_allowed : forall d url tns l s, TrP P s -> TrP P (schema_refs d c rs fs url tns l s).
Proof.
  induction d as [|d IHd]; intros url tns l s Hs.
  - rewrite schema_refs_O. destruct (s_halt s); [exact Hs|apply TrP_halt; auto].
  - revert s Hs. induction l as [|r rest IHr]; intros s Hs.
    + rewrite schema_refs_nil. exact Hs.
    + rewrite schema_refs_cons. apply IHr. destruct (s_halt s); [exact Hs|].
      apply schema_ref_allowed; [|exact Hs]. intros. apply IHd. assumption.
Qed.
End SchemaGates.

Lemma schema_hint_allowed : forall d docsys h s,
  schema_scanner c = true -> TrP P s -> TrP P (schema_hint d c rs fs docsys h s).
Proof.
  intros d docsys h s SS Hs. unfold schema_hint.
  destruct (s_halt s); [exact Hs|]. destruct (mem (h_ns h) (s_ns s)); [exact Hs|].
  destruct (c_loadSchema c) eqn:LS; [|exact Hs]. cbn [negb].
  assert (GS : kgate KSchema = true) by (cbn [kgate]; rewrite SS, LS; reflexivity).
  destruct (schema_source c rs docsys (h_loc h) (h_ns h)) as [ev src] eqn:E.
  destruct (schema_source_allowed _ _ _ _ _ E) as [Hev HD].
  assert (H1 : TrP P (emit ev s)) by (apply TrP_emit; auto).
  assert (K : TrP P (let id := ssrc_id src in
      if mem id (s_seen (emit ev s)) then emit ev s
      else let '(ev2, ct) := schema_open fs src in
           let s2 := emit ev2 (emit ev s) in
           match ct with
           | SoGot (CSchema refs) => schema_refs d c rs fs id (h_ns h) refs (add_seen id (add_ns (h_ns h) s2))
           | SoThrow f => halt f s2
           | _ => s2
           end)).
  { cbv zeta. destruct (mem (ssrc_id src) (s_seen (emit ev s))); [exact H1|].
    destruct (schema_open fs src) as [ev2 ct] eqn:E2.
    pose proof (schema_open_allowed _ _ _ GS HD E2) as Hev2.
    assert (H2 : TrP P (emit ev2 (emit ev s))) by (apply TrP_emit; auto).
    destruct ct as [[items|ps|refs]| |f]; auto; [|apply TrP_halt; auto].
    apply schema_refs_allowed; [exact GS|]. apply TrP_add_seen. apply TrP_add_ns. exact H2. }
  destruct src; [exact H1|apply TrP_halt; auto|exact K|exact K].
Qed.

Lemma scan_hints_allowed : forall d docsys hs s,
  schema_scanner c = true -> TrP P s -> TrP P (scan_hints d c rs fs docsys hs s).
Proof.
  intros d docsys hs. induction hs as [|h r IH]; intros s SS Hs; cbn [scan_hints]; [exact Hs|].
  apply IH; [exact SS|]. apply schema_hint_allowed; assumption.
Qed.

Lemma scan_atts_allowed : forall d nd docsys atts s, TrP P s -> TrP P (scan_atts d c rs fs nd docsys atts s).
Proof.
  intros d nd docsys atts. induction atts as [|a r IH]; intros s Hs; cbn [scan_atts]; [exact Hs|].
  apply IH. apply content_allowed. exact Hs.
Qed.

End Gates.

(** fValidate as the document's DOCTYPE leaves it *)
Definition vflag (c : cfg) (x : doc) : bool :=
  match d_doctype x with Some dt => validating c dt | None => false end.

Lemma scan_doctype_allowed : forall d c rs fs nd docsys dt s,
  TrP (allowed c (validating c dt)) s -> TrP (allowed c (validating c dt)) (scan_doctype d c rs fs nd docsys dt s).
Proof.
  intros d c rs fs nd docsys dt s Hs. unfold scan_doctype.
  destruct (dtd_scanner c) eqn:DS; [|exact Hs]. cbn [negb].
  assert (Pf : forall f, allowed c (validating c dt) (EvFatal f) = true) by reflexivity.
  assert (H1 : TrP (allowed c (validating c dt))
                 (match dt_int dt with Some items => dtd_items d c rs fs nd docsys None [] items s | None => s end)).
  { destruct (dt_int dt); [apply dtd_items_allowed; assumption|exact Hs]. }
  destruct (s_halt _); [exact H1|].
  destruct (dt_ext dt) as [[pub sys]|]; [|exact H1].
  destruct (c_loadDTD c || validating c dt) eqn:G; [|exact H1].
  destruct (create_reader c rs fs KDtd docsys docsys sys pub) as [ev r] eqn:E.
  assert (GK : kgate c (validating c dt) KDtd = true) by (cbn [kgate]; rewrite DS, G; reflexivity).
  pose proof (create_reader_allowed c (validating c dt) rs fs _ _ _ _ _ _ _ GK E) as Hev.
  assert (H2 : TrP (allowed c (validating c dt)) (emit ev
     (match dt_int dt with Some items => dtd_items d c rs fs nd docsys None [] items s | None => s end)))
    by (apply TrP_emit; auto).
  destruct r as [id ct| |f]; [|apply TrP_halt; auto|apply TrP_halt; auto].
  destruct ct as [[items|ps|refs]|]; auto. apply dtd_items_allowed; assumption.
Qed.

Lemma run_fuel_allowed : forall d c rs fs x, TrP (allowed c (vflag c x)) (run_fuel d c rs fs x).
Proof.
  intros d c rs fs x. unfold run_fuel.
  assert (Pf : forall f, allowed c (vflag c x) (EvFatal f) = true) by reflexivity.
  assert (H1 : TrP (allowed c (vflag c x))
     (match d_doctype x with Some dt => scan_doctype d c rs fs (no_dtd x) (d_sys x) dt st0 | None => st0 end)).
  { unfold vflag. destruct (d_doctype x) as [dt|]; [|constructor]. apply scan_doctype_allowed. constructor. }
  apply content_allowed.
  destruct (schema_scanner c) eqn:SS.
  - apply scan_hints_allowed; [exact SS|]. apply scan_atts_allowed. exact H1.
  - apply scan_atts_allowed. exact H1.
Qed.

(** the model's guard implies the specification's [permitted] *)
Definition has_subset (x : doc) : bool :=
  match d_doctype x with
  | Some dt => match dt_ext dt, dt_int dt with None, None => false | _, _ => true end
  | None => false
  end.

Lemma gate_permitted : forall c x k, gate c (vflag c x) k = true -> permitted c (has_subset x) k = true.
Proof.
  intros c x k. unfold gate, permitted.
  destruct (c_disableDefault c); cbn [negb andb]; [discriminate|].
  assert (V : vflag c x = true -> validation_on c (has_subset x) = true).
  { unfold vflag, has_subset. destruct (d_doctype x) as [dt|]; [|discriminate].
    unfold validating, validation_on. destruct (c_val c); auto. }
  destruct k.
  - intros H. apply andb_true_iff in H. destruct H as [H1 H2].
    change (dtd_scanner c) with (handles_dtd (c_scanner c)) in H1. rewrite H1. cbn [andb].
    apply orb_true_iff in H2. destruct H2 as [H2|H2]; [rewrite H2; reflexivity|rewrite (V H2); apply orb_true_r].
  - intros H. exact H.
  - intros H. exact H.
  - intros H. apply andb_true_iff in H. destruct H as [H1 H2]. rewrite H2.
    assert (HS : handles_schema (c_scanner c) = true).
    { unfold schema_scanner in H1. destruct (c_scanner c); try discriminate; reflexivity. }
    rewrite HS. reflexivity.
Qed.

Lemma no_fetch : forall c rs fs x k t id,
  In (EvOpen k t id) (trace (run c rs fs x)) -> permitted c (has_subset x) k = true.
Proof.
  intros c rs fs x k t id H. apply gate_permitted.
  pose proof (run_fuel_allowed default_fuel c rs fs x) as A. unfold TrP in A.
  unfold trace, run in H. apply in_rev in H. rewrite Forall_forall in A. exact (A _ H).
Qed.

Lemma forbidden_not_permitted : forall c hs k, forbidden c hs k -> permitted c hs k = false.
Proof.
  intros c hs k F. unfold permitted.
  destruct F as [D|[[K [L V]]|[[K L]|[[K H]|[K H]]]]].
  - rewrite D. reflexivity.
  - subst k. rewrite L, V. cbn [orb]. rewrite andb_false_r. apply andb_false_r.
  - subst k. rewrite L. rewrite andb_false_r. apply andb_false_r.
  - destruct k; try (exfalso; apply K; reflexivity); rewrite H; cbn [andb]; apply andb_false_r.
  - subst k. rewrite H. cbn [andb]. apply andb_false_r.
Qed.

(* ---- useCachedGrammarInParse: the same gate holds on the pool-lookup path ------------------------------- *)
Lemma run_c_none : forall c rs fs x, run_c c rs fs None x = run c rs fs x.
Proof. reflexivity. Qed.

Lemma set_tables_TrP : forall P tb s, TrP P s -> TrP P (set_tables tb s).
Proof. intros P tb s H. exact H. Qed.

Lemma dtd_source_allowed : forall c v rs base sys pub ev src,
  dtd_source c rs base sys pub = (ev, src) ->
  Forall (fun e => allowed c v e = true) ev /\ (forall dd, src = SsDef dd -> c_disableDefault c = false).
Proof.
  intros c v rs base sys pub ev src E. unfold dtd_source in E.
  assert (R1 : Forall (fun e => allowed c v e = true)
                 (match rs with Some _ => [EvResolve KDtd sys base pub] | None => [] end)).
  { destruct rs; repeat constructor. }
  destruct (match rs with Some f => f sys base pub | None => None end) as [[id ct]|].
  - inversion E; subst. split; [|intros dd H; discriminate]. apply Forall_app. split; [exact R1|repeat constructor].
  - destruct (c_disableDefault c) eqn:D.
    + inversion E; subst. split; [exact R1|intros dd H; discriminate].
    + destruct (default_source (c_stdUri c) base sys); inversion E; subst;
        (split; [exact R1|intros; reflexivity || discriminate]).
Qed.

Lemma scan_doctype_c_allowed : forall d c rs fs nd docsys dt uc s,
  TrP (allowed c (validating c dt)) s -> TrP (allowed c (validating c dt)) (scan_doctype_c d c rs fs nd docsys dt uc s).
Proof.
  intros d c rs fs nd docsys dt uc s Hs. unfold scan_doctype_c.
  assert (Pf : forall f, allowed c (validating c dt) (EvFatal f) = true) by reflexivity.
  destruct uc as [pl|]; [|apply scan_doctype_allowed; exact Hs].
  destruct (dt_ext dt) as [[pub sys]|] eqn:DE; [|destruct (dt_int dt); apply scan_doctype_allowed; exact Hs].
  destruct (dt_int dt) eqn:DI.
  - destruct (dtd_scanner c) eqn:DS; [|exact Hs]. cbn [negb].
    destruct (dtd_source c rs docsys sys pub) as [ev src] eqn:E.
    destruct (dtd_source_allowed c (validating c dt) _ _ _ _ _ _ E) as [Hev HD].
    assert (H1 : TrP (allowed c (validating c dt)) (emit ev s)) by (apply TrP_emit; auto).
    destruct src; try (apply scan_doctype_allowed; exact H1); try (apply TrP_halt; auto);
      (destruct (lookup _ pl); [apply TrP_halt; auto|apply scan_doctype_allowed; exact H1]).
  - destruct (dtd_scanner c) eqn:DS; [|exact Hs]. cbn [negb].
    destruct (dtd_source c rs docsys sys pub) as [ev src] eqn:E.
    destruct (dtd_source_allowed c (validating c dt) _ _ _ _ _ _ E) as [Hev HD].
    assert (H1 : TrP (allowed c (validating c dt)) (emit ev s)) by (apply TrP_emit; auto).
    assert (K : TrP (allowed c (validating c dt))
      (match lookup (ssrc_id src) pl with
       | Some tb => set_tables tb (emit ev s)
       | None =>
         if c_loadDTD c || validating c dt then
           let '(ev2, r) := open_resolved fs src in
           let s2 := emit ev2 (emit ev s) in
           match r with
           | CrThrow f => halt f s2
           | CrNone => halt FOpenFailed s2
           | CrOk id ct =>
             match ct with
             | Some (CDtd items) => dtd_items d c rs fs nd id (Some [68; 84; 68]) [] items s2
             | _ => s2
             end
           end
         else emit ev s
       end)).
    { destruct (lookup (ssrc_id src) pl); [exact H1|].
      destruct (c_loadDTD c || validating c dt) eqn:G; [|exact H1].
      destruct (open_resolved fs src) as [ev2 r] eqn:E2. cbv zeta.
      assert (Hev2 : Forall (fun e => allowed c (validating c dt) e = true) ev2).
      { unfold open_resolved in E2. destruct src as [| |id ct|dd]; inversion E2; subst; try constructor; [|constructor].
        unfold allowed, gate. rewrite (HD dd eq_refl), DS, G. reflexivity. }
      assert (H2 : TrP (allowed c (validating c dt)) (emit ev2 (emit ev s))) by (apply TrP_emit; auto).
      destruct r as [id ct| |f]; [|apply TrP_halt; auto|apply TrP_halt; auto].
      destruct ct as [[items|ps|refs]|]; auto. apply dtd_items_allowed; assumption. }
    destruct src; [apply scan_doctype_allowed; exact H1|apply TrP_halt; auto|exact K|exact K].
Qed.

Lemma run_fuel_c_allowed : forall d c rs fs uc x, TrP (allowed c (vflag c x)) (run_fuel_c d c rs fs uc x).
Proof.
  intros d c rs fs uc x. unfold run_fuel_c.
  assert (Pf : forall f, allowed c (vflag c x) (EvFatal f) = true) by reflexivity.
  assert (H1 : TrP (allowed c (vflag c x))
     (match d_doctype x with Some dt => scan_doctype_c d c rs fs (no_dtd x) (d_sys x) dt uc st0 | None => st0 end)).
  { unfold vflag. destruct (d_doctype x) as [dt|]; [|constructor]. apply scan_doctype_c_allowed. constructor. }
  apply content_allowed.
  destruct (schema_scanner c) eqn:SS.
  - apply scan_hints_allowed; [exact SS|]. apply scan_atts_allowed. exact H1.
  - apply scan_atts_allowed. exact H1.
Qed.

Lemma no_fetch_cached : forall c rs fs uc x k t id,
  In (EvOpen k t id) (trace (run_c c rs fs uc x)) -> permitted c (has_subset x) k = true.
Proof.
  intros c rs fs uc x k t id H. apply gate_permitted.
  pose proof (run_fuel_c_allowed default_fuel c rs fs uc x) as A. unfold TrP in A.
  unfold trace, run_c in H. apply in_rev in H. rewrite Forall_forall in A. exact (A _ H).
Qed.
