(** C19 -- the expansion limit is per parse: on a reused parser object the verdict of parse k depends only on
    document k and on the SecurityManager limit in force when that parse starts (T19_limit_per_parse). *)
From XV Require Import Base.XDefs C19.Uri19 C19.Spec19 C19.Model19.

Lemma run_fuel_from_0 : forall d c rs fs x, run_fuel_from d c rs fs 0 x = run_fuel d c rs fs x.
Proof. reflexivity. Qed.

Lemma parse_step_verdict : forall c rs fs p x,
  fst (parse_step c rs fs p x) = run (with_limit c (if ps_installed p then Some (ps_mgr p) else None)) rs fs x.
Proof.
  intros c rs fs p x. unfold parse_step, parse_with, ps_scan_reset, run. cbn [fst].
  destruct (ps_installed p) eqn:I.
  - cbn [ps_installed ps_limit ps_count]. apply run_fuel_from_0.
  - rewrite I. apply run_fuel_from_0.
Qed.

(** what survives a parse: who is installed and the manager's own limit (never the cached limit or the counter) *)
Lemma parse_step_state : forall c rs fs p x,
  ps_installed (snd (parse_step c rs fs p x)) = ps_installed p /\ ps_mgr (snd (parse_step c rs fs p x)) = ps_mgr p.
Proof.
  intros c rs fs p x. unfold parse_step, parse_with, ps_scan_reset. cbn [snd ps_installed ps_mgr].
  destruct (ps_installed p) eqn:I; cbn [ps_installed ps_mgr]; rewrite ?I; split; reflexivity.
Qed.

Lemma hist_per_parse : forall ops c rs fs p,
  run_hist c rs fs p ops = hist_spec c rs fs (ps_installed p) (ps_mgr p) ops.
Proof.
  induction ops as [|op r IH]; intros c rs fs p; [reflexivity|].
  destruct op as [b|l|sc|x]; unfold run_hist in *; cbn [run_hist_with hist_spec].
  - rewrite IH. unfold ps_set_manager. destruct b; reflexivity.
  - rewrite IH. reflexivity.
  - rewrite IH. unfold ps_new_scanner, ps_set_manager. destruct (ps_installed p); reflexivity.
  - pose proof (parse_step_verdict c rs fs p x) as V. pose proof (parse_step_state c rs fs p x) as [S1 S2].
    unfold parse_step in V, S1, S2. destruct (parse_with ps_scan_reset c rs fs p x) as [s p'].
    cbn [fst snd] in V, S1, S2. rewrite V, IH, S1, S2. reflexivity.
Qed.
