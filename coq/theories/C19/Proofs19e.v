(** C19 -- the unescape loop of XMLURL::makeNewStream decodes every escape exactly once: it equals the
    single-pass specification [pct_decode] on every input (T19_unescape_once). *)
From XV Require Import Base.XDefs C19.Uri19.
From Coq Require Import Arith PeanoNat Lia.
Local Open Scope N_scope.

Lemma pct_decode_cons : forall c r, (c =? cPercent) = false ->
  pct_decode (c :: r) = option_map (cons c) (pct_decode r).
Proof. intros c r E. cbn [pct_decode]. rewrite E. fold (pct_decode r). destruct (pct_decode r); reflexivity. Qed.

Lemma split_none : forall s a, split_pct s = (a, None) -> a = s /\ pct_decode s = Some s.
Proof.
  induction s as [|c r IH]; intros a H; cbn [split_pct] in H.
  - inversion H. split; reflexivity.
  - destruct (c =? cPercent) eqn:E; [discriminate|].
    destruct (split_pct r) as [a' t] eqn:S. inversion H; subst. destruct (IH a' eq_refl) as [A B]. subst a'.
    split; [reflexivity|]. rewrite (pct_decode_cons _ _ E), B. reflexivity.
Qed.

Lemma split_some : forall s a t, split_pct s = (a, Some t) ->
  s = a ++ cPercent :: t /\ pct_decode s = option_map (app a) (pct_decode (cPercent :: t)).
Proof.
  induction s as [|c r IH]; intros a t H; cbn [split_pct] in H.
  - discriminate.
  - destruct (c =? cPercent) eqn:E.
    + inversion H; subst. apply N.eqb_eq in E. subst c. split; [reflexivity|].
      destruct (pct_decode (cPercent :: t)); reflexivity.
    + destruct (split_pct r) as [a' t'] eqn:S. inversion H; subst. destruct (IH a' t eq_refl) as [A B].
      split; [cbn [app]; rewrite A; reflexivity|].
      rewrite (pct_decode_cons _ _ E), B.
      destruct (pct_decode (cPercent :: t)); reflexivity.
Qed.

Lemma pct_decode_escape : forall h1 h2 r,
  pct_decode (cPercent :: h1 :: h2 :: r) =
  if is_hex h1 && is_hex h2 then option_map (cons (16 * hex_val h1 + hex_val h2)) (pct_decode r) else None.
Proof.
  intros h1 h2 r. cbn [pct_decode]. rewrite N.eqb_refl. destruct (is_hex h1 && is_hex h2); [|reflexivity].
  fold (pct_decode r). destruct (pct_decode r); reflexivity.
Qed.

Lemma unesc_loop_spec : forall f done rest, (length rest < f)%nat ->
  unesc_loop f done rest = option_map (app done) (pct_decode rest).
Proof.
  induction f as [|f IH]; intros done rest L; [lia|]. cbn [unesc_loop].
  destruct (split_pct rest) as [a [t|]] eqn:S.
  - destruct (split_some _ _ _ S) as [E D]. rewrite D.
    destruct t as [|h1 [|h2 r]].
    + cbn [pct_decode]. rewrite N.eqb_refl. reflexivity.
    + cbn [pct_decode]. rewrite N.eqb_refl. reflexivity.
    + rewrite pct_decode_escape. destruct (is_hex h1 && is_hex h2); [|reflexivity].
      rewrite IH.
      * destruct (pct_decode r) as [d|]; cbn [option_map]; [|reflexivity].
        rewrite <- !app_assoc. reflexivity.
      * subst rest. rewrite app_length in L. cbn [length] in L. lia.
  - destruct (split_none _ _ S) as [A D]. subst a. rewrite D. reflexivity.
Qed.

Lemma unescape_once_spec : forall s, unescape_once s = pct_decode s.
Proof.
  intros s. unfold unescape_once. rewrite unesc_loop_spec by lia.
  destruct (pct_decode s); reflexivity.
Qed.

(** the decoded prefix never influences what happens to the rest *)
Lemma unescape_independent : forall f d1 d2 rest, (length rest < f)%nat ->
  option_map (fun x => skipn (length d1) x) (unesc_loop f d1 rest) =
  option_map (fun x => skipn (length d2) x) (unesc_loop f d2 rest).
Proof.
  intros f d1 d2 rest L. rewrite !unesc_loop_spec by exact L.
  destruct (pct_decode rest) as [d|]; cbn [option_map]; [|reflexivity].
  rewrite !skipn_app, !skipn_all, !Nat.sub_diag. reflexivity.
Qed.
