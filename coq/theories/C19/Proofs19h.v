(** C19 -- "documents within the limit are unaffected" (universal): for every configuration, resolver, file
    system and document, if the run WITHOUT a SecurityManager performs at most L counted expansions, then the run
    with limit L is the same run, state for state (same events, same tables, no EntityExpansionLimitExceeded).
    Method: the counter never decreases (instance of the generic invariant of Proofs19g), and a two-run
    simulation through the nested fixpoints: as long as the unlimited run's final counter is <= L, every
    `++count > limit` test of the limited run is false. *)
From XV Require Import Base.XDefs C19.Uri19 C19.Spec19 C19.Model19 C19.Proofs19a C19.Proofs19g C19.Proofs19b.
From Coq Require Import Arith PeanoNat Lia.
Local Open Scope nat_scope.

Section Unaffected.
Variables (c : cfg) (rs : option resolver) (fs : filesys) (L : nat).
Local Notation cN := (with_limit c None).
Local Notation cL := (with_limit c (Some L)).

Lemma over_limit_N : forall s, over_limit cN s = false.
Proof. reflexivity. Qed.
Lemma over_limit_L : forall s, s_cnt s <= L -> over_limit cL s = false.
Proof. intros s H. unfold over_limit. cbn [c_limit with_limit]. apply Nat.ltb_ge. exact H. Qed.

(* ---- the counter never decreases (unlimited run) -------------------------------------------- *)
Definition Ge (k : nat) (s : st) : Prop := k <= s_cnt s.

Lemma ge_halt : forall k f s, Ge k s -> Ge k (halt f s).
Proof. intros k f s H. exact H. Qed.
Lemma ge_emit : forall k ev s, Ge k s -> Ge k (emit ev s).
Proof. intros k ev s H. exact H. Qed.
Lemma ge_add_ge : forall k n g s, Ge k s -> Ge k (add_ge n g s).
Proof. intros k n g s H. exact H. Qed.
Lemma ge_add_pe : forall k n g s, Ge k s -> Ge k (add_pe n g s).
Proof. intros k n g s H. exact H. Qed.
Lemma ge_add_ns : forall k n s, Ge k s -> Ge k (add_ns n s).
Proof. intros k n s H. exact H. Qed.
Lemma ge_add_seen : forall k n s, Ge k s -> Ge k (add_seen n s).
Proof. intros k n s H. exact H. Qed.
Lemma ge_push_dtd : forall k n s, s_halt s = false -> Ge k s -> Ge k (push_dtd cN n s).
Proof.
  intros k n s _ H. unfold push_dtd. cbv zeta. rewrite over_limit_N.
  destruct (c_countDtd cN); unfold Ge in *; cbn [emit incr s_cnt]; lia.
Qed.
Lemma ge_cr : forall k (kd : kind) (rb b : list N) (sys pub : str) (ev : list event) (r : cr_result) (s : st),
  b = rb \/ rb = [] -> create_reader cN rs fs kd rb b sys pub = (ev, r) -> Ge k s -> Ge k (emit ev s).
Proof. intros. assumption. Qed.
Lemma ge_ss1 : forall k (base loc ns : str) (ev : list event) (src : ssrc) (s : st),
  schema_source cN rs base loc ns = (ev, src) -> Ge k s -> Ge k (emit ev s).
Proof. intros. assumption. Qed.
Lemma ge_ss2 : forall k (base loc ns : str) (ev : list event) (src : ssrc) (ev2 : list event) (ct : so_result) (s : st),
  schema_source cN rs base loc ns = (ev, src) -> schema_open fs src = (ev2, ct) -> Ge k s -> Ge k (emit ev2 (emit ev s)).
Proof. intros. assumption. Qed.

Lemma ge_expand : forall k (rec : rec_content) nd ia ext cur st n,
  (forall ia ext cur st ps s, Ge k s -> Ge k (rec ia ext cur st ps s)) ->
  forall s, s_halt s = false -> Ge k s -> Ge k (expand_ref rec cN rs fs nd ia ext cur st n s).
Proof.
  intros k rec nd ia ext cur st n IH s _ Hs. unfold expand_ref. cbv zeta.
  destruct (negb (dtd_scanner cN)); [exact Hs|].
  destruct (lookup n (s_ge s)) as [g|]; [|destruct nd; exact Hs].
  destruct (g_def g) as [v|pub sys].
  - destruct (negb (push_ok n st)); [exact Hs|]. rewrite over_limit_N.
    apply IH. unfold Ge in *. cbn [emit incr s_cnt]. lia.
  - destruct ia; [exact Hs|].
    destruct (create_reader cN rs fs KEnt (g_base g) _ sys pub) as [ev r].
    destruct r as [id ct| |f]; [|exact Hs|exact Hs].
    destruct (negb (push_ok n st)); [exact Hs|]. rewrite over_limit_N.
    assert (B : Ge k (emit [EvExpand false n] (incr (emit [EvPush n] (emit ev s))))).
    { unfold Ge in *. cbn [emit incr s_cnt]. lia. }
    destruct ct as [[items|ps|refs]|]; try exact B. apply IH. exact B.
Qed.

Lemma mono_content : forall d nd ia ext cur st ps s, s_cnt s <= s_cnt (content d cN rs fs nd ia ext cur st ps s).
Proof.
  intros. apply (g_content cN rs fs (Ge (s_cnt s))); [apply ge_halt|apply ge_expand|apply Nat.le_refl].
Qed.
Lemma mono_dtd_att : forall d nd ext cur st ps s, s_cnt s <= s_cnt (dtd_att d cN nd ext cur st ps s).
Proof.
  intros. apply (g_dtd_att cN (Ge (s_cnt s))); [apply ge_halt|apply ge_push_dtd|apply Nat.le_refl].
Qed.
Lemma mono_dtd_items : forall d nd ext cur st l s, s_cnt s <= s_cnt (dtd_items d cN rs fs nd ext cur st l s).
Proof.
  intros. apply (g_dtd_items cN rs fs (Ge (s_cnt s)));
    [apply ge_halt|apply ge_add_ge|apply ge_add_pe|apply ge_push_dtd|apply ge_cr|apply Nat.le_refl].
Qed.
Lemma mono_scan_atts : forall d nd docsys atts s, s_cnt s <= s_cnt (scan_atts d cN rs fs nd docsys atts s).
Proof.
  intros. apply (g_scan_atts cN rs fs (Ge (s_cnt s))); [apply ge_halt|apply ge_expand|apply Nat.le_refl].
Qed.
Lemma mono_scan_hints : forall d docsys hs s, s_cnt s <= s_cnt (scan_hints d cN rs fs docsys hs s).
Proof.
  intros. apply (g_scan_hints cN rs fs (Ge (s_cnt s)));
    [apply ge_halt|apply ge_add_ns|apply ge_add_seen|apply ge_ss1|apply ge_ss2|apply Nat.le_refl].
Qed.

(* ---- the simulation ----------------------------------------------------------------------- *)
Lemma sim_expand : forall (recN recL : rec_content) nd ia ext cur st n,
  (forall ia ext cur st ps s, s_cnt (recN ia ext cur st ps s) <= L -> recL ia ext cur st ps s = recN ia ext cur st ps s) ->
  (forall ia ext cur st ps s, s_cnt s <= s_cnt (recN ia ext cur st ps s)) ->
  forall s, s_cnt (expand_ref recN cN rs fs nd ia ext cur st n s) <= L ->
            expand_ref recL cL rs fs nd ia ext cur st n s = expand_ref recN cN rs fs nd ia ext cur st n s.
Proof.
  intros recN recL nd ia ext cur st n IH M s H. unfold expand_ref in *. cbv zeta in *.
  change (dtd_scanner cL) with (dtd_scanner cN).
  change (create_reader cL) with (create_reader cN).
  destruct (negb (dtd_scanner cN)); [reflexivity|].
  destruct (lookup n (s_ge s)) as [g|]; [|reflexivity].
  destruct (g_def g) as [v|pub sys].
  - destruct (negb (push_ok n st)); [reflexivity|].
    rewrite over_limit_N in H. rewrite over_limit_N.
    assert (B : s_cnt (incr (emit [EvPush n] s)) <= L).
    { eapply Nat.le_trans; [|exact H]. eapply Nat.le_trans; [|apply M]. apply Nat.le_refl. }
    rewrite (over_limit_L _ B). apply IH. exact H.
  - destruct ia; [reflexivity|].
    destruct (create_reader cN rs fs KEnt (g_base g) _ sys pub) as [ev r].
    destruct r as [id ct| |f]; [|reflexivity|reflexivity].
    destruct (negb (push_ok n st)); [reflexivity|].
    rewrite over_limit_N in H. rewrite over_limit_N.
    assert (B : s_cnt (incr (emit [EvPush n] (emit ev s))) <= L).
    { destruct ct as [[items|ps|refs]|]; (eapply Nat.le_trans; [|exact H]); try apply Nat.le_refl.
      eapply Nat.le_trans; [|apply M]. apply Nat.le_refl. }
    rewrite (over_limit_L _ B).
    destruct ct as [[items|ps|refs]|]; try reflexivity. apply IH. exact H.
Qed.

Lemma sim_content : forall d nd ia ext cur st ps s,
  s_cnt (content d cN rs fs nd ia ext cur st ps s) <= L ->
  content d cL rs fs nd ia ext cur st ps s = content d cN rs fs nd ia ext cur st ps s.
Proof.
  induction d as [|d IHd]; intros nd ia ext cur st ps.
  - intros s _. rewrite !content_O. reflexivity.
  - induction ps as [|p r IHr]; intros s H.
    + rewrite !content_nil. reflexivity.
    + destruct p as [|n].
      * rewrite content_txt in H. rewrite !content_txt. apply IHr. exact H.
      * rewrite content_cons_ref in H. rewrite !content_cons_ref.
        assert (E : (if s_halt s then s else expand_ref (content d cL rs fs nd) cL rs fs nd ia ext cur st n s) =
                    (if s_halt s then s else expand_ref (content d cN rs fs nd) cN rs fs nd ia ext cur st n s)).
        { destruct (s_halt s); [reflexivity|].
          apply (sim_expand (content d cN rs fs nd) (content d cL rs fs nd)).
          - intros. apply IHd. assumption.
          - intros. apply mono_content.
          - eapply Nat.le_trans; [apply mono_content|exact H]. }
        rewrite E. apply IHr. exact H.
Qed.

Lemma sim_push_dtd : forall n s, s_cnt (push_dtd cN n s) <= L -> push_dtd cL n s = push_dtd cN n s.
Proof.
  intros n s H. unfold push_dtd in *. cbv zeta in *. change (c_countDtd cL) with (c_countDtd cN).
  destruct (c_countDtd cN); [|reflexivity].
  rewrite over_limit_N in H. rewrite over_limit_N. rewrite (over_limit_L _ H). reflexivity.
Qed.

Lemma sim_dtd_att_ref : forall (recN recL : rec_att) nd ext cur st n,
  (forall ext cur st ps s, s_cnt (recN ext cur st ps s) <= L -> recL ext cur st ps s = recN ext cur st ps s) ->
  (forall ext cur st ps s, s_cnt s <= s_cnt (recN ext cur st ps s)) ->
  forall s, s_cnt (dtd_att_ref recN cN nd ext cur st n s) <= L ->
            dtd_att_ref recL cL nd ext cur st n s = dtd_att_ref recN cN nd ext cur st n s.
Proof.
  intros recN recL nd ext cur st n IH M s H. unfold dtd_att_ref in *.
  destruct (lookup n (s_ge s)) as [g|]; [|reflexivity].
  destruct (g_def g) as [v|pub sys]; [|reflexivity].
  destruct (negb (push_ok n st)); [reflexivity|].
  rewrite sim_push_dtd; [apply IH; exact H|]. eapply Nat.le_trans; [apply M|exact H].
Qed.

Lemma sim_dtd_att : forall d nd ext cur st ps s,
  s_cnt (dtd_att d cN nd ext cur st ps s) <= L -> dtd_att d cL nd ext cur st ps s = dtd_att d cN nd ext cur st ps s.
Proof.
  induction d as [|d IHd]; intros nd ext cur st ps.
  - intros s _. rewrite !dtd_att_O. reflexivity.
  - induction ps as [|p r IHr]; intros s H.
    + rewrite !dtd_att_nil. reflexivity.
    + destruct p as [|n].
      * rewrite dtd_att_txt in H. rewrite !dtd_att_txt. apply IHr. exact H.
      * rewrite dtd_att_cons_ref in H. rewrite !dtd_att_cons_ref.
        assert (E : (if s_halt s then s else dtd_att_ref (dtd_att d cL nd) cL nd ext cur st n s) =
                    (if s_halt s then s else dtd_att_ref (dtd_att d cN nd) cN nd ext cur st n s)).
        { destruct (s_halt s); [reflexivity|].
          apply (sim_dtd_att_ref (dtd_att d cN nd) (dtd_att d cL nd)).
          - intros. apply IHd. assumption.
          - intros. apply mono_dtd_att.
          - eapply Nat.le_trans; [apply mono_dtd_att|exact H]. }
        rewrite E. apply IHr. exact H.
Qed.

Lemma sim_dtd_item : forall (recN recL : rec_dtd) (dattN dattL : rec_att) ext cur st it,
  (forall ext cur st l s, s_cnt (recN ext cur st l s) <= L -> recL ext cur st l s = recN ext cur st l s) ->
  (forall ext cur st l s, s_cnt s <= s_cnt (recN ext cur st l s)) ->
  (forall ext cur st l s, s_cnt (dattN ext cur st l s) <= L -> dattL ext cur st l s = dattN ext cur st l s) ->
  forall s, s_cnt (dtd_item recN dattN cN rs fs ext cur st it s) <= L ->
            dtd_item recL dattL cL rs fs ext cur st it s = dtd_item recN dattN cN rs fs ext cur st it s.
Proof.
  intros recN recL dattN dattL ext cur st it IH M IHa s H. unfold dtd_item in *. cbv zeta in *.
  change (create_reader cL) with (create_reader cN).
  destruct it as [n def|n def|n|vv].
  - reflexivity.
  - reflexivity.
  - destruct (lookup n (s_pe s)) as [p|]; [|reflexivity].
    destruct (p_def p) as [vv|pub sys].
    + destruct (negb (push_ok n st)); [reflexivity|].
      rewrite sim_push_dtd; [apply IH; exact H|]. eapply Nat.le_trans; [apply M|exact H].
    + destruct (create_reader cN rs fs KPE (p_base p) _ sys pub) as [ev r].
      destruct r as [id ct| |f]; [|reflexivity|reflexivity].
      destruct (negb (push_ok n st)); [reflexivity|].
      assert (B : s_cnt (push_dtd cN n (emit ev s)) <= L).
      { destruct ct as [[items|ps|refs]|]; (eapply Nat.le_trans; [|exact H]); try apply Nat.le_refl. apply M. }
      rewrite (sim_push_dtd _ _ B).
      destruct ct as [[items|ps|refs]|]; try reflexivity. apply IH. exact H.
  - apply IHa. exact H.
Qed.

Lemma sim_dtd_items : forall d nd ext cur st l s,
  s_cnt (dtd_items d cN rs fs nd ext cur st l s) <= L ->
  dtd_items d cL rs fs nd ext cur st l s = dtd_items d cN rs fs nd ext cur st l s.
Proof.
  induction d as [|d IHd]; intros nd ext cur st l.
  - intros s _. rewrite !dtd_items_O. reflexivity.
  - induction l as [|it r IHr]; intros s H.
    + rewrite !dtd_items_nil. reflexivity.
    + rewrite dtd_items_cons in H. rewrite !dtd_items_cons.
      assert (E : (if s_halt s then s else dtd_item (dtd_items d cL rs fs nd) (dtd_att d cL nd) cL rs fs ext cur st it s) =
                  (if s_halt s then s else dtd_item (dtd_items d cN rs fs nd) (dtd_att d cN nd) cN rs fs ext cur st it s)).
      { destruct (s_halt s); [reflexivity|].
        apply (sim_dtd_item (dtd_items d cN rs fs nd) (dtd_items d cL rs fs nd) (dtd_att d cN nd) (dtd_att d cL nd)).
        - intros. apply IHd. assumption.
        - intros. apply mono_dtd_items.
        - intros. apply sim_dtd_att. assumption.
        - eapply Nat.le_trans; [apply mono_dtd_items|exact H]. }
      rewrite E. apply IHr. exact H.
Qed.

(* ---- the schema side never looks at the limit ------------------------------------------------ *)
Lemma schema_ref_wl : forall (recA recB : rec_schema) l url tns r s,
  (forall url tns refs s, recA url tns refs s = recB url tns refs s) ->
  schema_ref recA (with_limit c l) rs fs url tns r s = schema_ref recB cN rs fs url tns r s.
Proof.
  intros recA recB l url tns r s E. unfold schema_ref. cbv zeta.
  change (schema_source (with_limit c l)) with (schema_source cN).
  destruct (schema_source cN rs url (sr_loc r) _) as [ev src].
  destruct src; try reflexivity.
  - destruct (mem _ _); [reflexivity|]. destruct (match sr_kind r with SInclude => false | SImport => _ end); [reflexivity|].
    destruct (schema_open fs _) as [ev2 ct2]. destruct ct2 as [[items|ps|refs]| |f]; try reflexivity. apply E.
  - destruct (mem _ _); [reflexivity|]. destruct (match sr_kind r with SInclude => false | SImport => _ end); [reflexivity|].
    destruct (schema_open fs _) as [ev2 ct2]. destruct ct2 as [[items|ps|refs]| |f]; try reflexivity. apply E.
Qed.

Lemma schema_refs_wl : forall d l url tns refs s,
  schema_refs d (with_limit c l) rs fs url tns refs s = schema_refs d cN rs fs url tns refs s.
Proof.
  induction d as [|d IHd]; intros l url tns refs.
  - intros s. rewrite !schema_refs_O. reflexivity.
  - induction refs as [|r rest IHr]; intros s.
    + rewrite !schema_refs_nil. reflexivity.
    + rewrite !schema_refs_cons. rewrite IHr. f_equal.
      destruct (s_halt s); [reflexivity|]. apply schema_ref_wl. intros. apply IHd.
Qed.

Lemma schema_hint_wl : forall d l docsys h s,
  schema_hint d (with_limit c l) rs fs docsys h s = schema_hint d cN rs fs docsys h s.
Proof.
  intros d l docsys h s. unfold schema_hint. cbv zeta.
  change (schema_source (with_limit c l)) with (schema_source cN).
  change (c_loadSchema (with_limit c l)) with (c_loadSchema cN).
  destruct (s_halt s); [reflexivity|]. destruct (mem _ _); [reflexivity|].
  destruct (negb (c_loadSchema cN)); [reflexivity|].
  destruct (schema_source cN rs docsys (h_loc h) (h_ns h)) as [ev src].
  destruct src; try reflexivity.
  - destruct (mem _ _); [reflexivity|].
    destruct (schema_open fs _) as [ev2 ct2]. destruct ct2 as [[items|ps|refs]| |f]; try reflexivity. apply schema_refs_wl.
  - destruct (mem _ _); [reflexivity|].
    destruct (schema_open fs _) as [ev2 ct2]. destruct ct2 as [[items|ps|refs]| |f]; try reflexivity. apply schema_refs_wl.
Qed.

Lemma scan_hints_wl : forall d l docsys hs s,
  scan_hints d (with_limit c l) rs fs docsys hs s = scan_hints d cN rs fs docsys hs s.
Proof.
  intros d l docsys hs. induction hs as [|h r IH]; intros s; cbn [scan_hints]; [reflexivity|].
  rewrite schema_hint_wl. apply IH.
Qed.

(* ---- the document ---------------------------------------------------------------------------- *)
Lemma sim_scan_atts : forall d nd docsys atts s,
  s_cnt (scan_atts d cN rs fs nd docsys atts s) <= L ->
  scan_atts d cL rs fs nd docsys atts s = scan_atts d cN rs fs nd docsys atts s.
Proof.
  intros d nd docsys atts. induction atts as [|a r IH]; intros s H; cbn [scan_atts] in *; [reflexivity|].
  rewrite sim_content; [apply IH; exact H|]. eapply Nat.le_trans; [apply mono_scan_atts|exact H].
Qed.

Lemma sim_scan_doctype : forall d nd docsys dt s,
  s_cnt (scan_doctype d cN rs fs nd docsys dt s) <= L ->
  scan_doctype d cL rs fs nd docsys dt s = scan_doctype d cN rs fs nd docsys dt s.
Proof.
  intros d nd docsys dt s H. unfold scan_doctype in *. cbv zeta in *.
  change (dtd_scanner cL) with (dtd_scanner cN). change (create_reader cL) with (create_reader cN).
  change (c_loadDTD cL) with (c_loadDTD cN). change (validating cL dt) with (validating cN dt).
  destruct (negb (dtd_scanner cN)); [reflexivity|].
  set (s1N := match dt_int dt with Some items => dtd_items d cN rs fs nd docsys None [] items s | None => s end) in *.
  assert (M : s_cnt s1N <= L).
  { eapply Nat.le_trans; [|exact H].
    destruct (s_halt s1N); [apply Nat.le_refl|].
    destruct (dt_ext dt) as [[pub sys]|]; [|apply Nat.le_refl].
    destruct (c_loadDTD cN || validating cN dt); [|apply Nat.le_refl].
    destruct (create_reader cN rs fs KDtd docsys docsys sys pub) as [ev r].
    destruct r as [id ct| |f]; try apply Nat.le_refl.
    destruct ct as [[items|ps|refs]|]; try apply Nat.le_refl.
    eapply Nat.le_trans; [|apply mono_dtd_items]. apply Nat.le_refl. }
  assert (E1 : match dt_int dt with Some items => dtd_items d cL rs fs nd docsys None [] items s | None => s end = s1N).
  { subst s1N. destruct (dt_int dt); [|reflexivity]. apply sim_dtd_items. exact M. }
  rewrite E1. clear E1.
  destruct (s_halt s1N); [reflexivity|].
  destruct (dt_ext dt) as [[pub sys]|]; [|reflexivity].
  destruct (c_loadDTD cN || validating cN dt); [|reflexivity].
  destruct (create_reader cN rs fs KDtd docsys docsys sys pub) as [ev r].
  destruct r as [id ct| |f]; try reflexivity.
  destruct ct as [[items|ps|refs]|]; try reflexivity. apply sim_dtd_items. exact H.
Qed.

Lemma mono_scan_doctype : forall d nd docsys dt s, s_cnt s <= s_cnt (scan_doctype d cN rs fs nd docsys dt s).
Proof.
  intros. apply (g_scan_doctype cN rs fs (Ge (s_cnt s)));
    [apply ge_halt|apply ge_add_ge|apply ge_add_pe|apply ge_push_dtd|apply ge_cr|apply Nat.le_refl].
Qed.

Theorem run_fuel_unaffected : forall d x,
  s_cnt (run_fuel d cN rs fs x) <= L -> run_fuel d cL rs fs x = run_fuel d cN rs fs x.
Proof.
  intros d x H. unfold run_fuel in *. cbv zeta in *.
  change (schema_scanner cL) with (schema_scanner cN).
  set (s1N := match d_doctype x with Some dt => scan_doctype d cN rs fs (no_dtd x) (d_sys x) dt st0 | None => st0 end) in *.
  set (s2N := scan_atts d cN rs fs (no_dtd x) (d_sys x) (d_atts x) s1N) in *.
  set (s3N := if schema_scanner cN then scan_hints d cN rs fs (d_sys x) (d_hints x) s2N else s2N) in *.
  assert (M3 : s_cnt s3N <= L) by (eapply Nat.le_trans; [apply mono_content|exact H]).
  assert (M2 : s_cnt s2N <= L).
  { eapply Nat.le_trans; [|exact M3]. subst s3N. destruct (schema_scanner cN); [apply mono_scan_hints|apply Nat.le_refl]. }
  assert (M1 : s_cnt s1N <= L) by (eapply Nat.le_trans; [apply mono_scan_atts|exact M2]).
  assert (E1 : match d_doctype x with Some dt => scan_doctype d cL rs fs (no_dtd x) (d_sys x) dt st0 | None => st0 end = s1N).
  { subst s1N. destruct (d_doctype x); [|reflexivity]. apply sim_scan_doctype. exact M1. }
  rewrite E1.
  assert (E2 : scan_atts d cL rs fs (no_dtd x) (d_sys x) (d_atts x) s1N = s2N) by (apply sim_scan_atts; exact M2).
  rewrite E2.
  assert (E3 : (if schema_scanner cN then scan_hints d cL rs fs (d_sys x) (d_hints x) s2N else s2N) = s3N).
  { subst s3N. destruct (schema_scanner cN); [apply scan_hints_wl|reflexivity]. }
  rewrite E3. apply sim_content. exact H.
Qed.

End Unaffected.

(** the counter of the model is the number of counted reader pushes of the trace; stated on [run] *)
Theorem limit_unaffected : forall c rs fs L x,
  s_cnt (run (with_limit c None) rs fs x) <= L ->
  run (with_limit c (Some L)) rs fs x = run (with_limit c None) rs fs x.
Proof. intros c rs fs L x H. apply run_fuel_unaffected. exact H. Qed.

(** the model's counter IS the number of counted reader pushes of the trace (content / attribute-value readers,
    plus the DTD scanner's when the library counts them), also without a SecurityManager *)
Lemma count_is_pushes : forall c rs fs x,
  s_cnt (run (with_limit c None) rs fs x) = cntPc (c_countDtd c) (trace (run (with_limit c None) rs fs x)).
Proof.
  intros c rs fs x. set (K := s_cnt (run (with_limit c None) rs fs x)).
  pose proof (limit_unaffected c rs fs K x (Nat.le_refl _)) as E.
  destruct (LimInv_run (with_limit c (Some K)) rs fs K eq_refl default_fuel x) as (A & _).
  change (run_fuel default_fuel (with_limit c (Some K)) rs fs x) with (run (with_limit c (Some K)) rs fs x) in A.
  rewrite E in A. change (c_countDtd (with_limit c (Some K))) with (c_countDtd c) in A.
  unfold trace, cntPc in *. rewrite cnt_rev. symmetry. exact A.
Qed.

Theorem limit_unaffected_trace : forall c rs fs L x,
  cntPc (c_countDtd c) (trace (run (with_limit c None) rs fs x)) <= L ->
  run (with_limit c (Some L)) rs fs x = run (with_limit c None) rs fs x.
Proof. intros c rs fs L x H. apply limit_unaffected. rewrite count_is_pushes. exact H. Qed.
