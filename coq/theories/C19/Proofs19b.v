(** C19 -- the entity expansion limit: with SecurityManager limit L at most L general-entity expansions are
    accepted and at most L+1 entity readers are pushed by the scanners (T19_limit). *)
From XV Require Import Base.XDefs C19.Uri19 C19.Spec19 C19.Model19 C19.Proofs19a C19.Proofs19g.
From Coq Require Import Arith PeanoNat Lia.
Local Open Scope nat_scope.

(** readers that count against the limit: those pushed by the document scanners, and -- with the repair of
    finding C19-F1, [c_countDtd] -- those pushed by the DTD scanner *)
Definition is_push_c (cd : bool) (e : event) : bool :=
  match e with EvPush _ => true | EvPushDtd _ => cd | _ => false end.
Definition is_push (e : event) : bool := is_push_c false e.
Definition is_expand (e : event) : bool := match e with EvExpand _ _ => true | _ => false end.
Definition cntPc (cd : bool) (l : list event) : nat := length (filter (is_push_c cd) l).
Definition cntP (l : list event) : nat := cntPc false l.
Definition cntE (l : list event) : nat := length (filter is_expand l).

Definition neutral (ev : list event) : Prop :=
  Forall (fun e => (forall cd, is_push_c cd e = false) /\ is_expand e = false) ev.

Lemma cnt_neutral : forall (f : event -> bool) (ev tr : list event), Forall (fun e => f e = false) ev -> length (filter f (rev ev ++ tr)) = length (filter f tr).
Proof.
  intros f ev tr H. rewrite filter_app, app_length.
  assert (E : filter f (rev ev) = []).
  { apply Forall_rev in H. induction H as [|e l He Hl IH]; [reflexivity|]. cbn [filter]. rewrite He. exact IH. }
  rewrite E. reflexivity.
Qed.

Lemma cntP_neutral : forall cd ev tr, neutral ev -> cntPc cd (rev ev ++ tr) = cntPc cd tr.
Proof. intros cd ev tr H. apply cnt_neutral. eapply Forall_impl; [|exact H]. intros a [A _]. apply A. Qed.
Lemma cntE_neutral : forall ev tr, neutral ev -> cntE (rev ev ++ tr) = cntE tr.
Proof. intros ev tr H. apply cnt_neutral. eapply Forall_impl; [|exact H]. intros a [_ A]. exact A. Qed.

Lemma cnt_rev : forall f (l : list event), length (filter f (rev l)) = length (filter f l).
Proof.
  intros f l. induction l as [|e l IH]; [reflexivity|]. cbn [rev]. rewrite filter_app, app_length, IH.
  cbn [filter]. destruct (f e); cbn [length]; lia.
Qed.

Ltac brk :=
  repeat match goal with
         | H : context [match ?x with _ => _ end] |- _ => destruct x eqn:?
         end.

Lemma neutral_cr : forall c rs fs k rb b sys pub ev r, create_reader c rs fs k rb b sys pub = (ev, r) -> neutral ev.
Proof.
  intros c rs fs k rb b sys pub ev r E. unfold create_reader in E.
  destruct rs as [f|]; brk; inversion E; subst; unfold neutral; repeat constructor.
Qed.
Lemma neutral_ss : forall c rs base loc ns ev src, schema_source c rs base loc ns = (ev, src) -> neutral ev.
Proof.
  intros c rs base loc ns ev src E. unfold schema_source in E.
  destruct rs as [f|]; brk; inversion E; subst; unfold neutral; repeat constructor.
Qed.
Lemma neutral_so : forall fs src ev ct, schema_open fs src = (ev, ct) -> neutral ev.
Proof.
  intros fs src ev ct E. unfold schema_open in E. destruct src; inversion E; subst; unfold neutral; repeat constructor.
Qed.

Section Limit.
Variables (c : cfg) (rs : option resolver) (fs : filesys) (L : nat).
Hypothesis HL : c_limit c = Some L.

Definition LimInv (s : st) : Prop :=
  cntPc (c_countDtd c) (s_tr s) = s_cnt s /\ cntE (s_tr s) <= L /\ cntE (s_tr s) <= s_cnt s /\
  (s_halt s = false -> s_cnt s <= L) /\ s_cnt s <= S L.

Lemma LimInv_emit : forall ev s, neutral ev -> LimInv s -> LimInv (emit ev s).
Proof.
  intros ev s N (A & B & C & D & E). unfold LimInv, emit. cbn [s_tr s_cnt s_halt].
  rewrite cntP_neutral, cntE_neutral by exact N. repeat split; auto.
Qed.

Lemma LimInv_halt : forall f s, LimInv s -> LimInv (halt f s).
Proof.
  intros f s (A & B & C & D & E). unfold LimInv, halt. cbn [s_tr s_cnt s_halt].
  change (cntPc (c_countDtd c) (EvFatal f :: s_tr s)) with (cntPc (c_countDtd c) (s_tr s)). change (cntE (EvFatal f :: s_tr s)) with (cntE (s_tr s)).
  repeat split; auto; try discriminate.
Qed.

(** the counted step: push, ++count, compare with the limit, then startEntityReference *)
Lemma LimInv_counted : forall (rec : rec_content) ia ext cur st n ps s,
  (forall ia ext cur st ps s, LimInv s -> LimInv (rec ia ext cur st ps s)) ->
  s_halt s = false -> LimInv s ->
  LimInv (let s2 := incr (emit [EvPush n] s) in
          if over_limit c s2 then halt FLimit s2
          else rec ia ext cur st ps (emit [EvExpand ia n] s2)).
Proof.
  intros rec ia ext cur st n ps s IH Hh (A & B & C & D & E). cbv zeta.
  specialize (D Hh).
  unfold over_limit. rewrite HL. cbn [incr emit s_cnt rev app].
  destruct (Nat.ltb L (S (s_cnt s))) eqn:O.
  - apply Nat.ltb_lt in O.
    unfold LimInv, halt, incr, emit. cbn [s_tr s_cnt s_halt rev app].
    change (cntPc (c_countDtd c) (EvFatal FLimit :: EvPush n :: s_tr s)) with (S (cntPc (c_countDtd c) (s_tr s))).
    change (cntE (EvFatal FLimit :: EvPush n :: s_tr s)) with (cntE (s_tr s)).
    repeat split; try lia; try discriminate.
  - apply Nat.ltb_ge in O. apply IH.
    unfold LimInv, incr, emit. cbn [s_tr s_cnt s_halt rev app].
    change (cntPc (c_countDtd c) (EvExpand ia n :: EvPush n :: s_tr s)) with (S (cntPc (c_countDtd c) (s_tr s))).
    change (cntE (EvExpand ia n :: EvPush n :: s_tr s)) with (S (cntE (s_tr s))).
    repeat split; try lia.
Qed.

Lemma LimInv_expand : forall (rec : rec_content) nd ia ext cur st n,
  (forall ia ext cur st ps s, LimInv s -> LimInv (rec ia ext cur st ps s)) ->
  forall s, s_halt s = false -> LimInv s -> LimInv (expand_ref rec c rs fs nd ia ext cur st n s).
Proof.
  intros rec nd ia ext cur st n IH s Hh Hs. unfold expand_ref.
  destruct (negb (dtd_scanner c)); [apply LimInv_halt; exact Hs|].
  destruct (lookup n (s_ge s)) as [g|]; [|destruct nd; [apply LimInv_halt; exact Hs|exact Hs]].
  destruct (g_def g) as [vv|pub sys].
  - destruct (negb (push_ok n st)); [apply LimInv_halt; exact Hs|].
    apply (LimInv_counted rec ia ext (Some n) (push_stack cur st) n vv s IH Hh Hs).
  - destruct ia; [apply LimInv_halt; exact Hs|].
    destruct (create_reader c rs fs KEnt (g_base g) _ sys pub) as [ev r] eqn:E.
    assert (H1 : LimInv (emit ev s)) by (apply LimInv_emit; [eapply neutral_cr; eauto|exact Hs]).
    destruct r as [id ct| |f]; [|apply LimInv_halt; exact H1|apply LimInv_halt; exact H1].
    destruct (negb (push_ok n st)); [apply LimInv_halt; exact H1|].
    assert (Hh1 : s_halt (emit ev s) = false) by exact Hh.
    pose proof (LimInv_counted (fun _ _ _ _ _ s => s) false id (Some n) (push_stack cur st) n [] (emit ev s)
                  (fun _ _ _ _ _ s H => H) Hh1 H1) as K.
    destruct ct as [[items|ps|refs]|]; try exact K.
    exact (LimInv_counted rec false id (Some n) (push_stack cur st) n ps (emit ev s) IH Hh1 H1).
Qed.

(** a reader pushed by the DTD scanner: counted (and checked) exactly when the library counts it *)
Lemma LimInv_push_dtd : forall n s, s_halt s = false -> LimInv s -> LimInv (push_dtd c n s).
Proof.
  intros n s Hh (A & B & C & D & E). specialize (D Hh). unfold push_dtd, LimInv in *.
  destruct (c_countDtd c) eqn:CD.
  - cbv zeta. unfold over_limit. rewrite HL. cbn [incr emit s_cnt rev app].
    destruct (Nat.ltb L (S (s_cnt s))) eqn:O.
    + apply Nat.ltb_lt in O. unfold halt, incr, emit. cbn [s_tr s_cnt s_halt rev app].
      change (cntPc true (EvFatal FLimit :: EvPushDtd n :: s_tr s)) with (S (cntPc true (s_tr s))).
      change (cntE (EvFatal FLimit :: EvPushDtd n :: s_tr s)) with (cntE (s_tr s)).
      repeat split; try lia; try discriminate.
    + apply Nat.ltb_ge in O. unfold incr, emit. cbn [s_tr s_cnt s_halt rev app].
      change (cntPc true (EvPushDtd n :: s_tr s)) with (S (cntPc true (s_tr s))).
      change (cntE (EvPushDtd n :: s_tr s)) with (cntE (s_tr s)).
      repeat split; try lia.
  - unfold emit. cbn [s_tr s_cnt s_halt rev app].
    change (cntPc false (EvPushDtd n :: s_tr s)) with (cntPc false (s_tr s)).
    change (cntE (EvPushDtd n :: s_tr s)) with (cntE (s_tr s)).
    repeat split; auto.
Qed.

Lemma LimInv_st0 : LimInv st0.
Proof. unfold LimInv, st0. cbn. repeat split; try lia. Qed.

Lemma LimInv_run : forall d x, LimInv (run_fuel d c rs fs x).
Proof.
  intros d x. apply (g_run_fuel c rs fs LimInv).
  - exact LimInv_halt.
  - intros n g s H. exact H.
  - intros n g s H. exact H.
  - intros n s H. exact H.
  - intros n s H. exact H.
  - exact LimInv_push_dtd.
  - intros k rb b sys pub ev r s _ E H. apply LimInv_emit; [eapply neutral_cr; eauto|exact H].
  - intros base loc ns ev src s E H. apply LimInv_emit; [eapply neutral_ss; eauto|exact H].
  - intros base loc ns ev src ev2 ct s E E2 H.
    apply LimInv_emit; [eapply neutral_so; eauto|]. apply LimInv_emit; [eapply neutral_ss; eauto|exact H].
  - exact LimInv_expand.
  - exact LimInv_st0.
Qed.

(** T19_limit: at most L expansions are accepted (startEntityReference / attribute-value expansion) and at
    most L+1 entity readers are pushed by the scanners, in every run, for every document. *)
Lemma limit_bound : forall x,
  cntE (trace (run c rs fs x)) <= L /\ cntPc (c_countDtd c) (trace (run c rs fs x)) <= S L.
Proof.
  intros x. destruct (LimInv_run default_fuel x) as (A & B & C & D & E).
  unfold trace, run, cntE, cntPc. rewrite !cnt_rev. fold (cntE (s_tr (run_fuel default_fuel c rs fs x))).
  fold (cntPc (c_countDtd c) (s_tr (run_fuel default_fuel c rs fs x))). split; [exact B|rewrite A; exact E].
Qed.

End Limit.
