(** C19 -- T-gate: the committed classification of every stream-opening call site of the scanners, the DTD
    scanner, the schema traverser, XInclude and the input sources, with the guard expressions each site must
    carry (reviewed by hand against the source; drafted with `translator/c19_gates.py table`).
    The sites actually present in /repo are regenerated on every run into Gen/GenGates.v; the obligations below
    fail when a site appears that is not classified here, when a classified site vanishes, or when a site no
    longer carries a required guard (e.g. `unless:disableDefaultEntityResolution` in front of
    `new URLInputSource`, `fLoadExternalDTD || fValidate` around the external-subset reader,
    `fLoadSchema || ignoreLoadSchema` around the schema fetch). *)
From Coq Require Import String List Bool.
From XV Require Import Gen.GenGates.
Import ListNotations.
Local Open Scope string_scope.

Definition gate_table : list (string * list string) := [
  ("ReaderMgr.cpp:ReaderMgr::createReader:makeStream#1", []);
  ("ReaderMgr.cpp:ReaderMgr::createReader:resolveEntity#1", ["fEntityHandler"]);
  ("ReaderMgr.cpp:ReaderMgr::createReader:LocalFileInputSource#1", ["!srcToFill"; "unless:disableDefaultEntityResolution"]);
  ("ReaderMgr.cpp:ReaderMgr::createReader:URLInputSource#1", ["!srcToFill"; "unless:disableDefaultEntityResolution"]);
  ("ReaderMgr.cpp:ReaderMgr::createReader:createReader#1", ["unless:disableDefaultEntityResolution"]);
  ("ReaderMgr.cpp:ReaderMgr::createReader:resolveEntity#2", ["fEntityHandler"]);
  ("ReaderMgr.cpp:ReaderMgr::createReader:LocalFileInputSource#2", ["!srcToFill"; "unless:disableDefaultEntityResolution"]);
  ("ReaderMgr.cpp:ReaderMgr::createReader:URLInputSource#2", ["!srcToFill"; "unless:disableDefaultEntityResolution"]);
  ("ReaderMgr.cpp:ReaderMgr::createReader:createReader#2", ["unless:disableDefaultEntityResolution"]);
  ("XMLScanner.cpp:XMLScanner::scanDocument:LocalFileInputSource#1", []);
  ("XMLScanner.cpp:XMLScanner::scanDocument:URLInputSource#1", []);
  ("XMLScanner.cpp:XMLScanner::scanDocument:LocalFileInputSource#2", []);
  ("XMLScanner.cpp:XMLScanner::scanFirst:LocalFileInputSource#1", []);
  ("XMLScanner.cpp:XMLScanner::scanFirst:URLInputSource#1", []);
  ("XMLScanner.cpp:XMLScanner::scanFirst:LocalFileInputSource#2", []);
  ("XMLScanner.cpp:XMLScanner::loadGrammar:resolveEntity#1", ["fEntityHandler"]);
  ("XMLScanner.cpp:XMLScanner::loadGrammar:LocalFileInputSource#1", ["unless:fDisableDefaultEntityResolution"]);
  ("XMLScanner.cpp:XMLScanner::loadGrammar:URLInputSource#1", ["unless:fDisableDefaultEntityResolution"]);
  ("XMLScanner.cpp:XMLScanner::loadGrammar:LocalFileInputSource#2", ["unless:fDisableDefaultEntityResolution"]);
  ("IGXMLScanner.cpp:IGXMLScanner::scanDocTypeDecl:createReader#1", ["fLoadExternalDTD || fValidate"]);
  ("IGXMLScanner.cpp:IGXMLScanner::scanDocTypeDecl:createReader#2", ["fLoadExternalDTD || fValidate"]);
  ("IGXMLScanner.cpp:IGXMLScanner::scanStartTagNS:parseSchemaLocation#1", ["isRoot && fDoSchema && (fExternalSchemaLocation || fExternalNoNamespaceSchemaLocation)"]);
  ("IGXMLScanner.cpp:IGXMLScanner::scanStartTagNS:resolveSchemaGrammar#1", ["isRoot && fDoSchema && (fExternalSchemaLocation || fExternalNoNamespaceSchemaLocation)"]);
  ("IGXMLScanner.cpp:IGXMLScanner::loadDTDGrammar:createReader#1", ["unless:fValidatorFromUser && fValidate"]);
  ("IGXMLScanner2.cpp:IGXMLScanner::scanReset:createReader#1", []);
  ("IGXMLScanner2.cpp:IGXMLScanner::scanRawAttrListforNameSpaces:parseSchemaLocation#1", ["fDoSchema && fSeeXsi"]);
  ("IGXMLScanner2.cpp:IGXMLScanner::scanRawAttrListforNameSpaces:resolveSchemaGrammar#1", ["fDoSchema && fSeeXsi"]);
  ("IGXMLScanner2.cpp:IGXMLScanner::parseSchemaLocation:resolveSchemaGrammar#1", []);
  ("IGXMLScanner2.cpp:IGXMLScanner::resolveSchemaGrammar:resolveEntity#1", ["fLoadSchema || ignoreLoadSchema"; "fEntityHandler"]);
  ("IGXMLScanner2.cpp:IGXMLScanner::resolveSchemaGrammar:LocalFileInputSource#1", ["fLoadSchema || ignoreLoadSchema"; "!srcToFill"; "unless:fDisableDefaultEntityResolution"]);
  ("IGXMLScanner2.cpp:IGXMLScanner::resolveSchemaGrammar:URLInputSource#1", ["fLoadSchema || ignoreLoadSchema"; "!srcToFill"; "unless:fDisableDefaultEntityResolution"]);
  ("IGXMLScanner2.cpp:IGXMLScanner::resolveSchemaGrammar:parse#1", ["fLoadSchema || ignoreLoadSchema"; "unless:fDisableDefaultEntityResolution"]);
  ("IGXMLScanner2.cpp:IGXMLScanner::resolveSystemId:resolveEntity#1", ["fEntityHandler"]);
  ("IGXMLScanner2.cpp:IGXMLScanner::resolveSystemId:LocalFileInputSource#1", ["!srcToFill"; "unless:fDisableDefaultEntityResolution"]);
  ("IGXMLScanner2.cpp:IGXMLScanner::resolveSystemId:URLInputSource#1", ["!srcToFill"; "unless:fDisableDefaultEntityResolution"]);
  ("IGXMLScanner2.cpp:IGXMLScanner::scanEntityRef:createReader#1", []);
  ("DGXMLScanner.cpp:DGXMLScanner::scanDocTypeDecl:createReader#1", ["fLoadExternalDTD || fValidate"]);
  ("DGXMLScanner.cpp:DGXMLScanner::scanDocTypeDecl:createReader#2", ["fLoadExternalDTD || fValidate"]);
  ("DGXMLScanner.cpp:DGXMLScanner::loadDTDGrammar:createReader#1", []);
  ("DGXMLScanner.cpp:DGXMLScanner::scanReset:createReader#1", []);
  ("DGXMLScanner.cpp:DGXMLScanner::resolveSystemId:resolveEntity#1", ["fEntityHandler"]);
  ("DGXMLScanner.cpp:DGXMLScanner::resolveSystemId:LocalFileInputSource#1", ["!srcToFill"; "unless:fDisableDefaultEntityResolution"]);
  ("DGXMLScanner.cpp:DGXMLScanner::resolveSystemId:URLInputSource#1", ["!srcToFill"; "unless:fDisableDefaultEntityResolution"]);
  ("DGXMLScanner.cpp:DGXMLScanner::scanEntityRef:createReader#1", []);
  ("SGXMLScanner.cpp:SGXMLScanner::scanStartTag:parseSchemaLocation#1", []);
  ("SGXMLScanner.cpp:SGXMLScanner::scanStartTag:resolveSchemaGrammar#1", []);
  ("SGXMLScanner.cpp:SGXMLScanner::scanReset:createReader#1", []);
  ("SGXMLScanner.cpp:SGXMLScanner::scanRawAttrListforNameSpaces:parseSchemaLocation#1", []);
  ("SGXMLScanner.cpp:SGXMLScanner::scanRawAttrListforNameSpaces:resolveSchemaGrammar#1", []);
  ("SGXMLScanner.cpp:SGXMLScanner::parseSchemaLocation:resolveSchemaGrammar#1", []);
  ("SGXMLScanner.cpp:SGXMLScanner::resolveSchemaGrammar:resolveEntity#1", ["fLoadSchema || ignoreLoadSchema"; "fEntityHandler"]);
  ("SGXMLScanner.cpp:SGXMLScanner::resolveSchemaGrammar:LocalFileInputSource#1", ["fLoadSchema || ignoreLoadSchema"; "!srcToFill"; "unless:fDisableDefaultEntityResolution"]);
  ("SGXMLScanner.cpp:SGXMLScanner::resolveSchemaGrammar:URLInputSource#1", ["fLoadSchema || ignoreLoadSchema"; "!srcToFill"; "unless:fDisableDefaultEntityResolution"]);
  ("SGXMLScanner.cpp:SGXMLScanner::resolveSchemaGrammar:parse#1", ["fLoadSchema || ignoreLoadSchema"; "unless:fDisableDefaultEntityResolution"]);
  ("SGXMLScanner.cpp:SGXMLScanner::resolveSystemId:resolveEntity#1", ["fEntityHandler"]);
  ("SGXMLScanner.cpp:SGXMLScanner::resolveSystemId:LocalFileInputSource#1", ["!srcToFill"; "unless:fDisableDefaultEntityResolution"]);
  ("SGXMLScanner.cpp:SGXMLScanner::resolveSystemId:URLInputSource#1", ["!srcToFill"; "unless:fDisableDefaultEntityResolution"]);
  ("WFXMLScanner.cpp:WFXMLScanner::scanReset:createReader#1", []);
  ("XSAXMLScanner.cpp:XSAXMLScanner::scanReset:createReader#1", []);
  ("DTDScanner.cpp:DTDScanner::expandPERef:createReader#1", []);
  ("DTDScanner.cpp:DTDScanner::scanEntityRef:createReader#1", []);
  ("TraverseSchema.cpp:TraverseSchema::preprocessInclude:resolveSchemaLocation#1", []);
  ("TraverseSchema.cpp:TraverseSchema::preprocessInclude:parse#1", []);
  ("TraverseSchema.cpp:TraverseSchema::preprocessImport:resolveSchemaLocation#1", []);
  ("TraverseSchema.cpp:TraverseSchema::preprocessImport:parse#1", []);
  ("TraverseSchema.cpp:TraverseSchema::preprocessChildren:preprocessInclude#1", []);
  ("TraverseSchema.cpp:TraverseSchema::preprocessChildren:preprocessImport#1", []);
  ("TraverseSchema.cpp:TraverseSchema::preprocessChildren:preprocessRedefine#1", []);
  ("TraverseSchema.cpp:TraverseSchema::resolveSchemaLocation:resolveEntity#1", ["fEntityHandler"]);
  ("TraverseSchema.cpp:TraverseSchema::resolveSchemaLocation:LocalFileInputSource#1", ["!srcToFill && loc"; "unless:fScanner->getDisableDefaultEntityResolution()"]);
  ("TraverseSchema.cpp:TraverseSchema::resolveSchemaLocation:URLInputSource#1", ["!srcToFill && loc"; "unless:fScanner->getDisableDefaultEntityResolution()"]);
  ("TraverseSchema.cpp:TraverseSchema::openRedefinedSchema:resolveSchemaLocation#1", []);
  ("TraverseSchema.cpp:TraverseSchema::openRedefinedSchema:parse#1", []);
  ("XIncludeUtils.cpp:XIncludeUtils::doXIncludeXMLFileDOM:resolveEntity#1", ["entityResolver"]);
  ("XIncludeUtils.cpp:XIncludeUtils::doXIncludeXMLFileDOM:parse#1", []);
  ("XIncludeUtils.cpp:XIncludeUtils::doXIncludeTEXTFileDOM:resolveEntity#1", ["entityResolver"]);
  ("XIncludeUtils.cpp:XIncludeUtils::doXIncludeTEXTFileDOM:URLInputSource#1", []);
  ("XIncludeUtils.cpp:XIncludeUtils::doXIncludeTEXTFileDOM:makeStream#1", []);
  ("URLInputSource.cpp:URLInputSource::makeStream:makeNewStream#1", []);
  ("XMLURL.cpp:XMLURL::makeNewStream:BinFileInputStream#1", []);
  ("XMLURL.cpp:XMLURL::makeNewStream:makeNew#1", [])
].

Fixpoint assoc (k : string) (l : list (string * list string)) : option (list string) :=
  match l with
  | [] => None
  | (k', v) :: r => if String.eqb k k' then Some v else assoc k r
  end.

Definition has (g : string) (l : list string) : bool := existsb (String.eqb g) l.

(** a generated site is fine when it is classified and carries every required guard *)
Definition site_ok (s : string * list string) : bool :=
  match assoc (fst s) gate_table with
  | Some req => forallb (fun g => has g (snd s)) req
  | None => false
  end.

Lemma gate_inventory_classified : forallb site_ok gate_sites = true.
Proof. vm_compute. reflexivity. Qed.

Lemma gate_inventory_complete : forallb (fun e => match assoc (fst e) gate_sites with Some _ => true | None => false end) gate_table = true.
Proof. vm_compute. reflexivity. Qed.
