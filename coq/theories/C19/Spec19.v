(** C19 -- specification: which external resources a configuration permits the parser to fetch, and
    the entity-expansion budget.  Mentions nothing of the implementation.  (RFC 2396 resolution,
    [rfc_resolve], is specified in Uri19.v.) *)
From XV Require Import Base.XDefs.
Local Open Scope N_scope.

(* ------------------------------------------------------------------------------------------ *)
(** * Configuration *)
Inductive scanner := IG | DG | SG | WF.
Inductive valscheme := VNever | VAlways | VAuto.

Record cfg := {
  c_scanner : scanner;
  c_val : valscheme;
  c_doSchema : bool;
  c_loadSchema : bool;
  c_loadDTD : bool;
  c_disableDefault : bool;         (* fDisableDefaultEntityResolution *)
  c_stdUri : bool;                 (* fStandardUriConformant *)
  c_limit : option nat;            (* Some L: SecurityManager installed with entity expansion limit L *)
  c_countDtd : bool                (* library switch (finding C19-F1): does the DTD scanner count its expansions
                                      (parameter entities, general entities in attribute defaults) against L? *)
}.


(** kinds of external resource a document can reference *)
Inductive kind := KDtd | KEnt | KPE | KSchema.
Definition kind_eqb (a b : kind) : bool :=
  match a, b with KDtd, KDtd | KEnt, KEnt | KPE, KPE | KSchema, KSchema => true | _, _ => false end.


(** Feature documentation, as the property states it: nothing is fetched by default resolution when it
    is disabled; the external DTD subset is fetched only when external-DTD loading or validation is on
    (validation scheme Auto validates exactly when the document has a DOCTYPE with a subset); schemas only
    when schema loading is on; a scanner that ignores DTDs (WF, SG) fetches no DTD, entity or parameter
    entity, and a scanner without schema support (WF, DG) fetches no schema. *)
Definition handles_dtd (sc : scanner) : bool := match sc with IG | DG => true | SG | WF => false end.
Definition handles_schema (sc : scanner) : bool := match sc with IG | SG => true | DG | WF => false end.

Definition validation_on (c : cfg) (has_subset : bool) : bool :=
  match c_val c with VAlways => true | VNever => false | VAuto => has_subset end.

Definition permitted (c : cfg) (has_subset : bool) (k : kind) : bool :=
  negb (c_disableDefault c) &&
  match k with
  | KDtd => handles_dtd (c_scanner c) && (c_loadDTD c || validation_on c has_subset)
  | KEnt | KPE => handles_dtd (c_scanner c)
  | KSchema => handles_schema (c_scanner c) && c_loadSchema c
  end.

(** the four ways the property names to forbid a kind *)
Definition forbidden (c : cfg) (has_subset : bool) (k : kind) : Prop :=
  c_disableDefault c = true \/
  (k = KDtd /\ c_loadDTD c = false /\ validation_on c has_subset = false) \/
  (k = KSchema /\ c_loadSchema c = false) \/
  (k <> KSchema /\ handles_dtd (c_scanner c) = false) \/
  (k = KSchema /\ handles_schema (c_scanner c) = false).

(** expansion budget: with limit L at most L entity references are expanded *)
Definition within_budget (limit : option nat) (expansions : nat) : bool :=
  match limit with Some l => Nat.leb expansions l | None => true end.
