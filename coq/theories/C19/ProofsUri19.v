(** C19 -- lemmas about Uri19.v: RFC 2396 5.2 specification ([rfc_resolve], [rm_dots]) and the models of
    XMLUri / XMLURL / LocalFileInputSource path resolution.
    Universal: [rfc_resolve_absolute], [rm_dots_no_dot_segments], [rm_dots_idempotent], [weave_rfc_segments].
    All examples of RFC 2396 appendix C are checked for [rfc_resolve]; for each model function every example is
    either an agreement Example or a [_rfc_refuted_] lemma (the deviating value is what the real library returns,
    confirmed by the differential test work/C19-uri-scratch/difftest.py).
    Text-level agreement / oracle statements are finite sweeps and named [_partial]. *)
From XV Require Import Base.XDefs C19.Uri19.
Local Open Scope N_scope.

(** (i) absolute references are returned unchanged *)
Lemma rfc_resolve_absolute : forall base ref sc rest,
  scheme_split ref = Some (sc, rest) -> rfc_resolve base ref = ref.
Proof. intros base ref sc rest H. unfold rfc_resolve. rewrite H. reflexivity. Qed.

Lemma rfc_resolve_absolute_idem : forall base ref sc rest,
  scheme_split ref = Some (sc, rest) -> rfc_resolve base (rfc_resolve base ref) = rfc_resolve base ref.
Proof. intros base ref sc rest H. rewrite !(rfc_resolve_absolute base ref sc rest H). reflexivity. Qed.

(** (ii) dot-segment removal leaves no "." and no resolvable ".." *)
Lemma no_dotdot_app : forall a b, no_dotdot (a ++ b) = no_dotdot a && no_dotdot b.
Proof. induction a as [|x a IH]; intros b; cbn [no_dotdot app]; [reflexivity|]. rewrite IH, !andb_assoc. reflexivity. Qed.
Lemma no_dotdot_rev : forall a, no_dotdot (rev a) = no_dotdot a.
Proof.
  induction a as [|x a IH]; [reflexivity|]. cbn [rev]. rewrite no_dotdot_app, IH. cbn [no_dotdot].
  destruct (no_dotdot a), (is_dotdot x), (is_dot x); reflexivity.
Qed.
Lemma dots_ok_of_no_dotdot : forall m, no_dotdot m = true -> dots_ok m = true.
Proof.
  destruct m as [|x r]; [reflexivity|]. cbn [no_dotdot dots_ok]. intros H.
  apply andb_true_iff in H. destruct H as [H Hr]. apply andb_true_iff in H. destruct H as [Hdd Hd].
  apply negb_true_iff in Hdd. rewrite Hdd, Hd, Hr. reflexivity.
Qed.
Lemma dots_ok_dd_app : forall d m, forallb is_dotdot d = true -> dots_ok (d ++ m) = dots_ok m.
Proof.
  induction d as [|x d IH]; intros m H; [reflexivity|]. cbn [forallb] in H. apply andb_true_iff in H.
  destruct H as [Hx Hd]. cbn [app dots_ok]. rewrite Hx. apply IH. exact Hd.
Qed.
Lemma forallb_rev : forall (A : Type) (f : A -> bool) l, forallb f (rev l) = forallb f l.
Proof.
  intros A f. induction l as [|x l IH]; [reflexivity|]. cbn [rev forallb]. rewrite forallb_app, IH. cbn [forallb].
  rewrite andb_true_r, andb_comm. reflexivity.
Qed.

(** the stack invariant: normal segments on top of ".." segments *)
Definition stack_inv (out : list str) : Prop :=
  exists n d, out = n ++ d /\ no_dotdot n = true /\ forallb is_dotdot d = true.

Lemma stack_inv_ok : forall out, stack_inv out -> dots_ok (rev out) = true.
Proof.
  intros out (n & d & -> & Hn & Hd). rewrite rev_app_distr, dots_ok_dd_app by (rewrite forallb_rev; exact Hd).
  apply dots_ok_of_no_dotdot. rewrite no_dotdot_rev. exact Hn.
Qed.
Lemma stack_inv_push_normal : forall x out, is_dot x = false -> is_dotdot x = false -> stack_inv out -> stack_inv (x :: out).
Proof.
  intros x out H1 H2 (n & d & -> & Hn & Hd). exists (x :: n), d. split; [reflexivity|]. split; [|exact Hd].
  cbn [no_dotdot]. rewrite H1, H2, Hn. reflexivity.
Qed.
Lemma stack_inv_nil : stack_inv [].
Proof. exists [], []. repeat split. Qed.
(** what happens on ".." *)
Lemma stack_inv_dd_cases : forall out, stack_inv out ->
  (out = [] \/ exists p o, out = p :: o /\ is_dotdot p = true /\ forallb is_dotdot o = true) \/
  (exists p o, out = p :: o /\ is_dotdot p = false /\ stack_inv o).
Proof.
  intros out (n & d & -> & Hn & Hd). destruct n as [|p n].
  - left. destruct d as [|p d]; [left; reflexivity|]. right. cbn [forallb] in Hd. apply andb_true_iff in Hd.
    exists p, d. cbn [app]. tauto.
  - right. exists p, (n ++ d). cbn [no_dotdot] in Hn. apply andb_true_iff in Hn. destruct Hn as [H Hn].
    apply andb_true_iff in H. destruct H as [H _]. apply negb_true_iff in H. split; [reflexivity|]. split; [exact H|].
    exists n, d. tauto.
Qed.
Lemma stack_inv_all_dd : forall o, forallb is_dotdot o = true -> stack_inv o.
Proof. intros o H. exists [], o. repeat split. exact H. Qed.

Lemma is_dot_nil : is_dot [] = false. Proof. reflexivity. Qed.
Lemma is_dotdot_nil : is_dotdot [] = false. Proof. reflexivity. Qed.

Lemma rm_dots_inv : forall l out, stack_inv out -> dots_ok (rm_dots out l) = true.
Proof.
  induction l as [|x l IH]; intros out Hinv.
  - cbn [rm_dots]. apply stack_inv_ok. exact Hinv.
  - destruct l as [|y l'].
    + (* last segment *)
      cbn [rm_dots]. destruct (is_dot x) eqn:Ed.
      * apply stack_inv_ok. apply stack_inv_push_normal; [reflexivity|reflexivity|exact Hinv].
      * destruct (is_dotdot x) eqn:Edd.
        -- destruct (stack_inv_dd_cases out Hinv) as [[-> | (p & o & -> & Hp & Ho)] | (p & o & -> & Hp & Ho)].
           ++ apply stack_inv_ok. apply stack_inv_all_dd. cbn [forallb]. rewrite Edd. reflexivity.
           ++ rewrite Hp. apply stack_inv_ok. apply stack_inv_all_dd. cbn [forallb]. rewrite Edd, Hp, Ho. reflexivity.
           ++ rewrite Hp. apply stack_inv_ok. apply stack_inv_push_normal; [reflexivity|reflexivity|exact Ho].
        -- apply stack_inv_ok. apply stack_inv_push_normal; assumption.
    + (* inner segment *)
      change (rm_dots out (x :: y :: l')) with
        (if is_dot x then rm_dots out (y :: l')
         else if is_dotdot x then
                match out with
                | p :: out' => if is_dotdot p then rm_dots (x :: out) (y :: l') else rm_dots out' (y :: l')
                | [] => rm_dots (x :: out) (y :: l')
                end
              else rm_dots (x :: out) (y :: l')).
      destruct (is_dot x) eqn:Ed; [apply IH; exact Hinv|].
      destruct (is_dotdot x) eqn:Edd.
      * destruct (stack_inv_dd_cases out Hinv) as [[-> | (p & o & -> & Hp & Ho)] | (p & o & -> & Hp & Ho)].
        -- apply IH. apply stack_inv_all_dd. cbn [forallb]. rewrite Edd. reflexivity.
        -- rewrite Hp. apply IH. apply stack_inv_all_dd. cbn [forallb]. rewrite Edd, Hp, Ho. reflexivity.
        -- rewrite Hp. apply IH. exact Ho.
      * apply IH. apply stack_inv_push_normal; assumption.
Qed.

Theorem rm_dots_no_dot_segments : forall l, dots_ok (rm_dots [] l) = true.
Proof. intros l. apply rm_dots_inv. apply stack_inv_nil. Qed.
Lemma str_eqb_eq : forall a b, str_eqb a b = true -> a = b.
Proof.
  induction a as [|x a IH]; destruct b as [|y b]; cbn [str_eqb]; intros H; try discriminate H; [reflexivity|].
  apply andb_true_iff in H. destruct H as [H1 H2]. apply N.eqb_eq in H1. rewrite H1, (IH b H2). reflexivity.
Qed.
Lemma str_eqb_refl : forall a, str_eqb a a = true.
Proof. induction a as [|x a IH]; [reflexivity|]. cbn [str_eqb]. rewrite N.eqb_refl, IH. reflexivity. Qed.

(** (iii) idempotence of dot-segment removal *)
Lemma rm_dots_normal : forall m out, no_dotdot m = true -> rm_dots out m = rev out ++ m.
Proof.
  induction m as [|x m IH]; intros out H.
  - cbn [rm_dots]. rewrite app_nil_r. reflexivity.
  - cbn [no_dotdot] in H. apply andb_true_iff in H. destruct H as [H Hm]. apply andb_true_iff in H.
    destruct H as [Hdd Hd]. apply negb_true_iff in Hdd. apply negb_true_iff in Hd.
    destruct m as [|y m'].
    + cbn [rm_dots]. rewrite Hd, Hdd. reflexivity.
    + change (rm_dots out (x :: y :: m')) with
        (if is_dot x then rm_dots out (y :: m')
         else if is_dotdot x then
                match out with
                | p :: out' => if is_dotdot p then rm_dots (x :: out) (y :: m') else rm_dots out' (y :: m')
                | [] => rm_dots (x :: out) (y :: m')
                end
              else rm_dots (x :: out) (y :: m')).
      rewrite Hd, Hdd. rewrite IH by exact Hm. cbn [rev]. rewrite <- app_assoc. reflexivity.
Qed.

Lemma rm_dots_fixed_gen : forall m out, forallb is_dotdot out = true -> dots_ok m = true ->
  rm_dots out m = rev out ++ m.
Proof.
  induction m as [|x m IH]; intros out Ho H.
  - cbn [rm_dots]. rewrite app_nil_r. reflexivity.
  - cbn [dots_ok] in H. destruct (is_dotdot x) eqn:Edd.
    + assert (Ed : is_dot x = false).
      { apply str_eqb_eq in Edd. rewrite Edd. reflexivity. }
      assert (Hpush : forallb is_dotdot (x :: out) = true) by (cbn [forallb]; rewrite Edd; exact Ho).
      destruct m as [|y m'].
      * cbn [rm_dots]. rewrite Ed, Edd. destruct out as [|p out']; [reflexivity|].
        cbn [forallb] in Ho. apply andb_true_iff in Ho. destruct Ho as [Hp _]. rewrite Hp. reflexivity.
      * change (rm_dots out (x :: y :: m')) with
          (if is_dot x then rm_dots out (y :: m')
           else if is_dotdot x then
                  match out with
                  | p :: out' => if is_dotdot p then rm_dots (x :: out) (y :: m') else rm_dots out' (y :: m')
                  | [] => rm_dots (x :: out) (y :: m')
                  end
                else rm_dots (x :: out) (y :: m')).
        rewrite Ed, Edd.
        assert (E : rm_dots (x :: out) (y :: m') = rev (x :: out) ++ y :: m') by (apply IH; assumption).
        destruct out as [|p out'].
        -- rewrite E. cbn [rev]. rewrite <- app_assoc. reflexivity.
        -- cbn [forallb] in Ho. apply andb_true_iff in Ho. destruct Ho as [Hp _]. rewrite Hp, E.
           cbn [rev]. rewrite <- !app_assoc. reflexivity.
    + apply rm_dots_normal. cbn [no_dotdot]. rewrite Edd. exact H.
Qed.

Lemma rm_dots_fixed : forall m, dots_ok m = true -> rm_dots [] m = m.
Proof. intros m H. apply (rm_dots_fixed_gen m [] eq_refl H). Qed.

Theorem rm_dots_idempotent : forall l, rm_dots [] (rm_dots [] l) = rm_dots [] l.
Proof. intros l. apply rm_dots_fixed. apply rm_dots_no_dot_segments. Qed.
(** (v) agreement of the library's weavePaths with RFC 2396 step 6 on plain segments *)
Definition dd : str := [cDot; cDot].

Lemma rm_dots_cons2 : forall out x y l, rm_dots out (x :: y :: l) =
  (if is_dot x then rm_dots out (y :: l)
   else if is_dotdot x then
          match out with
          | p :: out' => if is_dotdot p then rm_dots (x :: out) (y :: l) else rm_dots out' (y :: l)
          | [] => rm_dots (x :: out) (y :: l)
          end
        else rm_dots (x :: out) (y :: l)).
Proof. reflexivity. Qed.
Lemma rm_dotdot_cons2 : forall out x y l, rm_dotdot out (x :: y :: l) =
  (if is_dotdot x then
     match out with
     | p :: ((_ :: out') as o1) =>
       if is_nil p then match out' with [] => rm_dotdot (x :: out) (y :: l) | _ => rm_dotdot out' (y :: l) end
       else if is_dotdot p then rm_dotdot (x :: out) (y :: l)
       else rm_dotdot o1 (y :: l)
     | _ => rm_dotdot (x :: out) (y :: l)
     end
   else rm_dotdot (x :: out) (y :: l)).
Proof. reflexivity. Qed.

Lemma plain_seg_facts : forall s, plain_seg s = true -> is_nil s = false /\ is_dot s = false /\ is_dotdot s = false.
Proof.
  intros s H. unfold plain_seg in H. apply andb_true_iff in H. destruct H as [H _].
  apply andb_true_iff in H. destruct H as [H H3]. apply andb_true_iff in H. destruct H as [H1 H2].
  apply negb_true_iff in H1. apply negb_true_iff in H2. apply negb_true_iff in H3. tauto.
Qed.

Lemma plain_segs_cons : forall x r, plain_segs (x :: r) = true -> plain_seg x = true /\ (r = [] \/ plain_segs r = true).
Proof.
  intros x r H. destruct r as [|y r]; cbn [plain_segs] in H.
  - split; [exact H|left; reflexivity].
  - apply andb_true_iff in H. destruct H as [H1 H2]. split; [exact H1|right; exact H2].
Qed.
Lemma plain_segs_no_dotdot : forall ps, plain_segs ps = true -> no_dotdot ps = true.
Proof.
  induction ps as [|x r IH]; intros H; [discriminate H|]. apply plain_segs_cons in H. destruct H as [Hx Hr].
  apply plain_seg_facts in Hx. destruct Hx as (_ & Hd & Hdd). cbn [no_dotdot]. rewrite Hd, Hdd. cbn [negb andb].
  destruct Hr as [-> | Hr]; [reflexivity|apply IH; exact Hr].
Qed.
Lemma plain_segs_nonnil : forall ps, plain_segs ps = true -> ps <> [].
Proof. intros ps H E. rewrite E in H. discriminate H. Qed.

(** removeDotSlash does nothing when there is no "." segment *)
Lemma rm_dot_mid_id : forall l, forallb (fun s => negb (is_dot s)) l = true -> rm_dot_mid l = l.
Proof.
  induction l as [|x l IH]; intros H; [reflexivity|]. cbn [forallb] in H. apply andb_true_iff in H. destruct H as [Hx Hl].
  apply negb_true_iff in Hx. destruct l as [|y l']; [reflexivity|].
  change (rm_dot_mid (x :: y :: l')) with (if is_dot x then rm_dot_mid (y :: l') else x :: rm_dot_mid (y :: l')).
  rewrite Hx, (IH Hl). reflexivity.
Qed.

(** no ".." : removeDotDotSlash only copies *)
Lemma rm_dotdot_copy : forall m out, forallb (fun s => negb (is_dotdot s)) m = true -> rm_dotdot out m = rev out ++ m.
Proof.
  induction m as [|x m IH]; intros out H.
  - cbn [rm_dotdot]. rewrite app_nil_r. reflexivity.
  - cbn [forallb] in H. apply andb_true_iff in H. destruct H as [Hx Hm]. apply negb_true_iff in Hx.
    destruct m as [|y m']; [reflexivity|]. rewrite rm_dotdot_cons2, Hx, (IH _ Hm). cbn [rev]. rewrite <- app_assoc. reflexivity.
Qed.

(** plain segments are pushed *)
Lemma rm_dotdot_push : forall bs out rest, forallb plain_seg bs = true -> rest <> [] ->
  rm_dotdot out (bs ++ rest) = rm_dotdot (rev bs ++ out) rest.
Proof.
  induction bs as [|x bs IH]; intros out rest H Hr; [reflexivity|].
  cbn [forallb] in H. apply andb_true_iff in H. destruct H as [Hx Hb]. apply plain_seg_facts in Hx. destruct Hx as (_ & _ & Hdd).
  cbn [app]. destruct (bs ++ rest) as [|y l'] eqn:E.
  - apply app_eq_nil in E. destruct E as [_ E]. contradiction.
  - rewrite rm_dotdot_cons2, Hdd, <- E, (IH _ _ Hb Hr). cbn [rev]. rewrite <- app_assoc. reflexivity.
Qed.
Lemma rm_dots_push : forall bs out rest, forallb plain_seg bs = true -> rest <> [] ->
  rm_dots out (bs ++ rest) = rm_dots (rev bs ++ out) rest.
Proof.
  induction bs as [|x bs IH]; intros out rest H Hr; [reflexivity|].
  cbn [forallb] in H. apply andb_true_iff in H. destruct H as [Hx Hb]. apply plain_seg_facts in Hx. destruct Hx as (_ & Hd & Hdd).
  cbn [app]. destruct (bs ++ rest) as [|y l'] eqn:E.
  - apply app_eq_nil in E. destruct E as [_ E]. contradiction.
  - rewrite rm_dots_cons2, Hd, Hdd, <- E, (IH _ _ Hb Hr). cbn [rev]. rewrite <- app_assoc. reflexivity.
Qed.

(** k leading ".." pop k plain segments: the library (root segment "" at the bottom of the stack) ... *)
Lemma rm_dotdot_pop : forall k brev rest, forallb plain_seg brev = true -> (k <= length brev)%nat -> rest <> [] ->
  rm_dotdot (brev ++ [[]]) (repeat dd k ++ rest) = rm_dotdot (skipn k brev ++ [[]]) rest.
Proof.
  induction k as [|k IH]; intros brev rest H Hk Hr; [reflexivity|].
  destruct brev as [|p b']; [cbn in Hk; lia|].
  cbn [forallb] in H. apply andb_true_iff in H. destruct H as [Hp Hb]. apply plain_seg_facts in Hp. destruct Hp as (Hn & _ & Hdd).
  cbn [repeat app skipn]. destruct (repeat dd k ++ rest) as [|y l'] eqn:E.
  - apply app_eq_nil in E. destruct E as [_ E]. contradiction.
  - rewrite rm_dotdot_cons2. change (is_dotdot dd) with true. cbv iota.
    assert (Hc : exists q o, b' ++ [[]] = q :: o).
    { destruct b' as [|q b'']; [exists [], []; reflexivity|exists q, (b'' ++ [[]]); reflexivity]. }
    destruct Hc as (q & o & Eq). rewrite Eq, Hn, Hdd, <- Eq, <- E. apply IH; [exact Hb|cbn in Hk; lia|exact Hr].
Qed.
(** ... and the RFC *)
Lemma rm_dots_pop : forall k brev rest, forallb plain_seg brev = true -> (k <= length brev)%nat -> rest <> [] ->
  rm_dots brev (repeat dd k ++ rest) = rm_dots (skipn k brev) rest.
Proof.
  induction k as [|k IH]; intros brev rest H Hk Hr; [reflexivity|].
  destruct brev as [|p b']; [cbn in Hk; lia|].
  cbn [forallb] in H. apply andb_true_iff in H. destruct H as [Hp Hb]. apply plain_seg_facts in Hp. destruct Hp as (_ & _ & Hdd).
  cbn [repeat app skipn]. destruct (repeat dd k ++ rest) as [|y l'] eqn:E.
  - apply app_eq_nil in E. destruct E as [_ E]. contradiction.
  - rewrite rm_dots_cons2. change (is_dot dd) with false. change (is_dotdot dd) with true. cbv iota.
    rewrite Hdd, <- E. apply IH; [exact Hb|cbn in Hk; lia|exact Hr].
Qed.

Lemma forallb_impl : forall (A : Type) (f g : A -> bool) l, (forall x, f x = true -> g x = true) ->
  forallb f l = true -> forallb g l = true.
Proof.
  intros A f g l Hfg. induction l as [|x l IH]; [reflexivity|]. cbn [forallb]. intros H. apply andb_true_iff in H.
  destruct H as [H1 H2]. rewrite (Hfg x H1), (IH H2). reflexivity.
Qed.
Lemma forallb_repeat : forall (A : Type) (f : A -> bool) x k, f x = true -> forallb f (repeat x k) = true.
Proof. intros A f x k H. induction k as [|k IH]; [reflexivity|]. cbn [repeat forallb]. rewrite H, IH. reflexivity. Qed.
Lemma plain_segs_forallb : forall ps, plain_segs ps = true -> forallb plain_seg ps = true.
Proof.
  induction ps as [|x r IH]; intros H; [reflexivity|]. apply plain_segs_cons in H. destruct H as [Hx Hr].
  cbn [forallb]. rewrite Hx. destruct Hr as [-> | Hr]; [reflexivity|apply IH; exact Hr].
Qed.

(** The segment-level agreement theorem.  Base directory = root "" followed by the plain segments [bs];
    reference = k times ".." followed by plain segments [ps], with k not exceeding the depth of the base:
    XMLPlatformUtils::weavePaths (removeDotSlash, removeDotDotSlash) and RFC 2396 5.2 step 6 give the same
    segments. *)
Theorem weave_rfc_segments : forall bs k ps,
  forallb plain_seg bs = true -> plain_segs ps = true -> (k <= length bs)%nat ->
  rm_dotdot [] (rm_dot_slash_segs ([] :: bs ++ repeat dd k ++ ps)) = [] :: rm_dots [] (bs ++ repeat dd k ++ ps).
Proof.
  intros bs k ps Hb Hp Hk.
  assert (Hps : ps <> []) by (apply plain_segs_nonnil; exact Hp).
  assert (Hrest : repeat dd k ++ ps <> []).
  { intros E. apply app_eq_nil in E. destruct E as [_ E]. contradiction. }
  assert (Hnd : forallb (fun s => negb (is_dot s)) (bs ++ repeat dd k ++ ps) = true).
  { rewrite !forallb_app. rewrite (forallb_impl _ plain_seg _ bs), (forallb_repeat _ _ dd k), (forallb_impl _ plain_seg _ ps);
      try reflexivity; try (apply plain_segs_forallb; exact Hp); try exact Hb;
      intros x Hx; apply plain_seg_facts in Hx; destruct Hx as (_ & Hd & _); rewrite Hd; reflexivity. }
  unfold rm_dot_slash_segs. rewrite (rm_dot_mid_id _ Hnd).
  assert (Hrb : forallb plain_seg (rev bs) = true) by (rewrite forallb_rev; exact Hb).
  assert (Hkr : (k <= length (rev bs))%nat) by (rewrite rev_length; exact Hk).
  (* library side *)
  change ([] :: bs ++ repeat dd k ++ ps) with (([] : str) :: (bs ++ repeat dd k ++ ps)).
  destruct (bs ++ repeat dd k ++ ps) as [|y l'] eqn:E.
  { apply app_eq_nil in E. destruct E as [_ E]. contradiction. }
  rewrite rm_dotdot_cons2. change (is_dotdot []) with false. cbv iota. rewrite <- E.
  rewrite rm_dotdot_push by assumption.
  rewrite rm_dotdot_pop by assumption.
  rewrite rm_dotdot_copy.
  2:{ apply (forallb_impl _ plain_seg); [|apply plain_segs_forallb; exact Hp].
      intros x Hx. apply plain_seg_facts in Hx. destruct Hx as (_ & _ & Hdd). rewrite Hdd. reflexivity. }
  (* RFC side *)
  rewrite rm_dots_push by assumption. rewrite app_nil_r.
  rewrite rm_dots_pop by assumption.
  rewrite (rm_dots_normal ps _ (plain_segs_no_dotdot ps Hp)).
  rewrite rev_app_distr. reflexivity.
Qed.

(* ---- generated by work/C19-uri-scratch/gen_examples.py: RFC 2396 appendix C (C.1 normal, C.2 abnormal) ---- *)
Definition baseC : str := [104; 116; 116; 112; 58; 47; 47; 97; 47; 98; 47; 99; 47; 100; 59; 112; 63; 113].   (* http://a/b/c/d;p?q *)
Definition baseF : str := [47; 119; 47; 100; 49; 47; 100; 111; 99; 46; 120; 109; 108].   (* /w/d1/doc.xml *)
(* C1 01: "g:h" -> "g:h" *)
Example rfc_C1_01 : rfc_resolve baseC [103; 58; 104] = [103; 58; 104].
Proof. vm_compute. reflexivity. Qed.
(* C1 02: "g" -> "http://a/b/c/g" *)
Example rfc_C1_02 : rfc_resolve baseC [103] = [104; 116; 116; 112; 58; 47; 47; 97; 47; 98; 47; 99; 47; 103].
Proof. vm_compute. reflexivity. Qed.
(* C1 03: "./g" -> "http://a/b/c/g" *)
Example rfc_C1_03 : rfc_resolve baseC [46; 47; 103] = [104; 116; 116; 112; 58; 47; 47; 97; 47; 98; 47; 99; 47; 103].
Proof. vm_compute. reflexivity. Qed.
(* C1 04: "g/" -> "http://a/b/c/g/" *)
Example rfc_C1_04 : rfc_resolve baseC [103; 47] = [104; 116; 116; 112; 58; 47; 47; 97; 47; 98; 47; 99; 47; 103; 47].
Proof. vm_compute. reflexivity. Qed.
(* C1 05: "/g" -> "http://a/g" *)
Example rfc_C1_05 : rfc_resolve baseC [47; 103] = [104; 116; 116; 112; 58; 47; 47; 97; 47; 103].
Proof. vm_compute. reflexivity. Qed.
(* C1 06: "//g" -> "http://g" *)
Example rfc_C1_06 : rfc_resolve baseC [47; 47; 103] = [104; 116; 116; 112; 58; 47; 47; 103].
Proof. vm_compute. reflexivity. Qed.
(* C1 07: "?y" -> "http://a/b/c/?y" *)
Example rfc_C1_07 : rfc_resolve baseC [63; 121] = [104; 116; 116; 112; 58; 47; 47; 97; 47; 98; 47; 99; 47; 63; 121].
Proof. vm_compute. reflexivity. Qed.
(* C1 08: "g?y" -> "http://a/b/c/g?y" *)
Example rfc_C1_08 : rfc_resolve baseC [103; 63; 121] = [104; 116; 116; 112; 58; 47; 47; 97; 47; 98; 47; 99; 47; 103; 63; 121].
Proof. vm_compute. reflexivity. Qed.
(* C1 09: "#s" -> "http://a/b/c/d;p?q#s" *)
Example rfc_C1_09 : rfc_resolve baseC [35; 115] = [104; 116; 116; 112; 58; 47; 47; 97; 47; 98; 47; 99; 47; 100; 59; 112; 63; 113; 35; 115].
Proof. vm_compute. reflexivity. Qed.
(* C1 10: "g#s" -> "http://a/b/c/g#s" *)
Example rfc_C1_10 : rfc_resolve baseC [103; 35; 115] = [104; 116; 116; 112; 58; 47; 47; 97; 47; 98; 47; 99; 47; 103; 35; 115].
Proof. vm_compute. reflexivity. Qed.
(* C1 11: "g?y#s" -> "http://a/b/c/g?y#s" *)
Example rfc_C1_11 : rfc_resolve baseC [103; 63; 121; 35; 115] = [104; 116; 116; 112; 58; 47; 47; 97; 47; 98; 47; 99; 47; 103; 63; 121; 35; 115].
Proof. vm_compute. reflexivity. Qed.
(* C1 12: ";x" -> "http://a/b/c/;x" *)
Example rfc_C1_12 : rfc_resolve baseC [59; 120] = [104; 116; 116; 112; 58; 47; 47; 97; 47; 98; 47; 99; 47; 59; 120].
Proof. vm_compute. reflexivity. Qed.
(* C1 13: "g;x" -> "http://a/b/c/g;x" *)
Example rfc_C1_13 : rfc_resolve baseC [103; 59; 120] = [104; 116; 116; 112; 58; 47; 47; 97; 47; 98; 47; 99; 47; 103; 59; 120].
Proof. vm_compute. reflexivity. Qed.
(* C1 14: "g;x?y#s" -> "http://a/b/c/g;x?y#s" *)
Example rfc_C1_14 : rfc_resolve baseC [103; 59; 120; 63; 121; 35; 115] = [104; 116; 116; 112; 58; 47; 47; 97; 47; 98; 47; 99; 47; 103; 59; 120; 63; 121; 35; 115].
Proof. vm_compute. reflexivity. Qed.
(* C1 15: "." -> "http://a/b/c/" *)
Example rfc_C1_15 : rfc_resolve baseC [46] = [104; 116; 116; 112; 58; 47; 47; 97; 47; 98; 47; 99; 47].
Proof. vm_compute. reflexivity. Qed.
(* C1 16: "./" -> "http://a/b/c/" *)
Example rfc_C1_16 : rfc_resolve baseC [46; 47] = [104; 116; 116; 112; 58; 47; 47; 97; 47; 98; 47; 99; 47].
Proof. vm_compute. reflexivity. Qed.
(* C1 17: ".." -> "http://a/b/" *)
Example rfc_C1_17 : rfc_resolve baseC [46; 46] = [104; 116; 116; 112; 58; 47; 47; 97; 47; 98; 47].
Proof. vm_compute. reflexivity. Qed.
(* C1 18: "../" -> "http://a/b/" *)
Example rfc_C1_18 : rfc_resolve baseC [46; 46; 47] = [104; 116; 116; 112; 58; 47; 47; 97; 47; 98; 47].
Proof. vm_compute. reflexivity. Qed.
(* C1 19: "../g" -> "http://a/b/g" *)
Example rfc_C1_19 : rfc_resolve baseC [46; 46; 47; 103] = [104; 116; 116; 112; 58; 47; 47; 97; 47; 98; 47; 103].
Proof. vm_compute. reflexivity. Qed.
(* C1 20: "../.." -> "http://a/" *)
Example rfc_C1_20 : rfc_resolve baseC [46; 46; 47; 46; 46] = [104; 116; 116; 112; 58; 47; 47; 97; 47].
Proof. vm_compute. reflexivity. Qed.
(* C1 21: "../../" -> "http://a/" *)
Example rfc_C1_21 : rfc_resolve baseC [46; 46; 47; 46; 46; 47] = [104; 116; 116; 112; 58; 47; 47; 97; 47].
Proof. vm_compute. reflexivity. Qed.
(* C1 22: "../../g" -> "http://a/g" *)
Example rfc_C1_22 : rfc_resolve baseC [46; 46; 47; 46; 46; 47; 103] = [104; 116; 116; 112; 58; 47; 47; 97; 47; 103].
Proof. vm_compute. reflexivity. Qed.
(* C2 01: "" -> "http://a/b/c/d;p?q" *)
Example rfc_C2_01 : rfc_resolve baseC [] = [104; 116; 116; 112; 58; 47; 47; 97; 47; 98; 47; 99; 47; 100; 59; 112; 63; 113].
Proof. vm_compute. reflexivity. Qed.
(* C2 02: "../../../g" -> "http://a/../g" *)
Example rfc_C2_02 : rfc_resolve baseC [46; 46; 47; 46; 46; 47; 46; 46; 47; 103] = [104; 116; 116; 112; 58; 47; 47; 97; 47; 46; 46; 47; 103].
Proof. vm_compute. reflexivity. Qed.
(* C2 03: "../../../../g" -> "http://a/../../g" *)
Example rfc_C2_03 : rfc_resolve baseC [46; 46; 47; 46; 46; 47; 46; 46; 47; 46; 46; 47; 103] = [104; 116; 116; 112; 58; 47; 47; 97; 47; 46; 46; 47; 46; 46; 47; 103].
Proof. vm_compute. reflexivity. Qed.
(* C2 04: "/./g" -> "http://a/./g" *)
Example rfc_C2_04 : rfc_resolve baseC [47; 46; 47; 103] = [104; 116; 116; 112; 58; 47; 47; 97; 47; 46; 47; 103].
Proof. vm_compute. reflexivity. Qed.
(* C2 05: "/../g" -> "http://a/../g" *)
Example rfc_C2_05 : rfc_resolve baseC [47; 46; 46; 47; 103] = [104; 116; 116; 112; 58; 47; 47; 97; 47; 46; 46; 47; 103].
Proof. vm_compute. reflexivity. Qed.
(* C2 06: "g." -> "http://a/b/c/g." *)
Example rfc_C2_06 : rfc_resolve baseC [103; 46] = [104; 116; 116; 112; 58; 47; 47; 97; 47; 98; 47; 99; 47; 103; 46].
Proof. vm_compute. reflexivity. Qed.
(* C2 07: ".g" -> "http://a/b/c/.g" *)
Example rfc_C2_07 : rfc_resolve baseC [46; 103] = [104; 116; 116; 112; 58; 47; 47; 97; 47; 98; 47; 99; 47; 46; 103].
Proof. vm_compute. reflexivity. Qed.
(* C2 08: "g.." -> "http://a/b/c/g.." *)
Example rfc_C2_08 : rfc_resolve baseC [103; 46; 46] = [104; 116; 116; 112; 58; 47; 47; 97; 47; 98; 47; 99; 47; 103; 46; 46].
Proof. vm_compute. reflexivity. Qed.
(* C2 09: "..g" -> "http://a/b/c/..g" *)
Example rfc_C2_09 : rfc_resolve baseC [46; 46; 103] = [104; 116; 116; 112; 58; 47; 47; 97; 47; 98; 47; 99; 47; 46; 46; 103].
Proof. vm_compute. reflexivity. Qed.
(* C2 10: "./../g" -> "http://a/b/g" *)
Example rfc_C2_10 : rfc_resolve baseC [46; 47; 46; 46; 47; 103] = [104; 116; 116; 112; 58; 47; 47; 97; 47; 98; 47; 103].
Proof. vm_compute. reflexivity. Qed.
(* C2 11: "./g/." -> "http://a/b/c/g/" *)
Example rfc_C2_11 : rfc_resolve baseC [46; 47; 103; 47; 46] = [104; 116; 116; 112; 58; 47; 47; 97; 47; 98; 47; 99; 47; 103; 47].
Proof. vm_compute. reflexivity. Qed.
(* C2 12: "g/./h" -> "http://a/b/c/g/h" *)
Example rfc_C2_12 : rfc_resolve baseC [103; 47; 46; 47; 104] = [104; 116; 116; 112; 58; 47; 47; 97; 47; 98; 47; 99; 47; 103; 47; 104].
Proof. vm_compute. reflexivity. Qed.
(* C2 13: "g/../h" -> "http://a/b/c/h" *)
Example rfc_C2_13 : rfc_resolve baseC [103; 47; 46; 46; 47; 104] = [104; 116; 116; 112; 58; 47; 47; 97; 47; 98; 47; 99; 47; 104].
Proof. vm_compute. reflexivity. Qed.
(* C2 14: "g;x=1/./y" -> "http://a/b/c/g;x=1/y" *)
Example rfc_C2_14 : rfc_resolve baseC [103; 59; 120; 61; 49; 47; 46; 47; 121] = [104; 116; 116; 112; 58; 47; 47; 97; 47; 98; 47; 99; 47; 103; 59; 120; 61; 49; 47; 121].
Proof. vm_compute. reflexivity. Qed.
(* C2 15: "g;x=1/../y" -> "http://a/b/c/y" *)
Example rfc_C2_15 : rfc_resolve baseC [103; 59; 120; 61; 49; 47; 46; 46; 47; 121] = [104; 116; 116; 112; 58; 47; 47; 97; 47; 98; 47; 99; 47; 121].
Proof. vm_compute. reflexivity. Qed.
(* C2 16: "g?y/./x" -> "http://a/b/c/g?y/./x" *)
Example rfc_C2_16 : rfc_resolve baseC [103; 63; 121; 47; 46; 47; 120] = [104; 116; 116; 112; 58; 47; 47; 97; 47; 98; 47; 99; 47; 103; 63; 121; 47; 46; 47; 120].
Proof. vm_compute. reflexivity. Qed.
(* C2 17: "g?y/../x" -> "http://a/b/c/g?y/../x" *)
Example rfc_C2_17 : rfc_resolve baseC [103; 63; 121; 47; 46; 46; 47; 120] = [104; 116; 116; 112; 58; 47; 47; 97; 47; 98; 47; 99; 47; 103; 63; 121; 47; 46; 46; 47; 120].
Proof. vm_compute. reflexivity. Qed.
(* C2 18: "g#s/./x" -> "http://a/b/c/g#s/./x" *)
Example rfc_C2_18 : rfc_resolve baseC [103; 35; 115; 47; 46; 47; 120] = [104; 116; 116; 112; 58; 47; 47; 97; 47; 98; 47; 99; 47; 103; 35; 115; 47; 46; 47; 120].
Proof. vm_compute. reflexivity. Qed.
(* C2 19: "g#s/../x" -> "http://a/b/c/g#s/../x" *)
Example rfc_C2_19 : rfc_resolve baseC [103; 35; 115; 47; 46; 46; 47; 120] = [104; 116; 116; 112; 58; 47; 47; 97; 47; 98; 47; 99; 47; 103; 35; 115; 47; 46; 46; 47; 120].
Proof. vm_compute. reflexivity. Qed.
(* C2 20: "http:g" -> "http:g" *)
Example rfc_C2_20 : rfc_resolve baseC [104; 116; 116; 112; 58; 103] = [104; 116; 116; 112; 58; 103].
Proof. vm_compute. reflexivity. Qed.
(* ---- xmluri_resolve against the same examples, base http://a/b/c/d;p?q; the stated values are what the real library returns ---- *)
Example xmluri_C1_01 : xmluri_resolve baseC [103; 58; 104] = Some (rfc_resolve baseC [103; 58; 104]).   (* "g:h" -> "g:h" *)
Proof. vm_compute. reflexivity. Qed.
Example xmluri_C1_02 : xmluri_resolve baseC [103] = Some (rfc_resolve baseC [103]).   (* "g" -> "http://a/b/c/g" *)
Proof. vm_compute. reflexivity. Qed.
Example xmluri_C1_03 : xmluri_resolve baseC [46; 47; 103] = Some (rfc_resolve baseC [46; 47; 103]).   (* "./g" -> "http://a/b/c/g" *)
Proof. vm_compute. reflexivity. Qed.
Example xmluri_C1_04 : xmluri_resolve baseC [103; 47] = Some (rfc_resolve baseC [103; 47]).   (* "g/" -> "http://a/b/c/g/" *)
Proof. vm_compute. reflexivity. Qed.
Example xmluri_C1_05 : xmluri_resolve baseC [47; 103] = Some (rfc_resolve baseC [47; 103]).   (* "/g" -> "http://a/g" *)
Proof. vm_compute. reflexivity. Qed.
(* deviation: "//g" -> library "//g", RFC "http://g" *)
Example xmluri_actual_C1_06 : xmluri_resolve baseC [47; 47; 103] = Some [47; 47; 103].
Proof. vm_compute. reflexivity. Qed.
Lemma xmluri_rfc_refuted_C1_06 : xmluri_resolve baseC [47; 47; 103] <> Some (rfc_resolve baseC [47; 47; 103]).
Proof. vm_compute. discriminate. Qed.
(* deviation: "?y" -> library "http://a/b/c/d;p?y", RFC "http://a/b/c/?y" *)
Example xmluri_actual_C1_07 : xmluri_resolve baseC [63; 121] = Some [104; 116; 116; 112; 58; 47; 47; 97; 47; 98; 47; 99; 47; 100; 59; 112; 63; 121].
Proof. vm_compute. reflexivity. Qed.
Lemma xmluri_rfc_refuted_C1_07 : xmluri_resolve baseC [63; 121] <> Some (rfc_resolve baseC [63; 121]).
Proof. vm_compute. discriminate. Qed.
Example xmluri_C1_08 : xmluri_resolve baseC [103; 63; 121] = Some (rfc_resolve baseC [103; 63; 121]).   (* "g?y" -> "http://a/b/c/g?y" *)
Proof. vm_compute. reflexivity. Qed.
Example xmluri_C1_09 : xmluri_resolve baseC [35; 115] = Some (rfc_resolve baseC [35; 115]).   (* "#s" -> "http://a/b/c/d;p?q#s" *)
Proof. vm_compute. reflexivity. Qed.
Example xmluri_C1_10 : xmluri_resolve baseC [103; 35; 115] = Some (rfc_resolve baseC [103; 35; 115]).   (* "g#s" -> "http://a/b/c/g#s" *)
Proof. vm_compute. reflexivity. Qed.
Example xmluri_C1_11 : xmluri_resolve baseC [103; 63; 121; 35; 115] = Some (rfc_resolve baseC [103; 63; 121; 35; 115]).   (* "g?y#s" -> "http://a/b/c/g?y#s" *)
Proof. vm_compute. reflexivity. Qed.
Example xmluri_C1_12 : xmluri_resolve baseC [59; 120] = Some (rfc_resolve baseC [59; 120]).   (* ";x" -> "http://a/b/c/;x" *)
Proof. vm_compute. reflexivity. Qed.
Example xmluri_C1_13 : xmluri_resolve baseC [103; 59; 120] = Some (rfc_resolve baseC [103; 59; 120]).   (* "g;x" -> "http://a/b/c/g;x" *)
Proof. vm_compute. reflexivity. Qed.
Example xmluri_C1_14 : xmluri_resolve baseC [103; 59; 120; 63; 121; 35; 115] = Some (rfc_resolve baseC [103; 59; 120; 63; 121; 35; 115]).   (* "g;x?y#s" -> "http://a/b/c/g;x?y#s" *)
Proof. vm_compute. reflexivity. Qed.
Example xmluri_C1_15 : xmluri_resolve baseC [46] = Some (rfc_resolve baseC [46]).   (* "." -> "http://a/b/c/" *)
Proof. vm_compute. reflexivity. Qed.
Example xmluri_C1_16 : xmluri_resolve baseC [46; 47] = Some (rfc_resolve baseC [46; 47]).   (* "./" -> "http://a/b/c/" *)
Proof. vm_compute. reflexivity. Qed.
Example xmluri_C1_17 : xmluri_resolve baseC [46; 46] = Some (rfc_resolve baseC [46; 46]).   (* ".." -> "http://a/b/" *)
Proof. vm_compute. reflexivity. Qed.
Example xmluri_C1_18 : xmluri_resolve baseC [46; 46; 47] = Some (rfc_resolve baseC [46; 46; 47]).   (* "../" -> "http://a/b/" *)
Proof. vm_compute. reflexivity. Qed.
Example xmluri_C1_19 : xmluri_resolve baseC [46; 46; 47; 103] = Some (rfc_resolve baseC [46; 46; 47; 103]).   (* "../g" -> "http://a/b/g" *)
Proof. vm_compute. reflexivity. Qed.
Example xmluri_C1_20 : xmluri_resolve baseC [46; 46; 47; 46; 46] = Some (rfc_resolve baseC [46; 46; 47; 46; 46]).   (* "../.." -> "http://a/" *)
Proof. vm_compute. reflexivity. Qed.
Example xmluri_C1_21 : xmluri_resolve baseC [46; 46; 47; 46; 46; 47] = Some (rfc_resolve baseC [46; 46; 47; 46; 46; 47]).   (* "../../" -> "http://a/" *)
Proof. vm_compute. reflexivity. Qed.
Example xmluri_C1_22 : xmluri_resolve baseC [46; 46; 47; 46; 46; 47; 103] = Some (rfc_resolve baseC [46; 46; 47; 46; 46; 47; 103]).   (* "../../g" -> "http://a/g" *)
Proof. vm_compute. reflexivity. Qed.
Example xmluri_C2_01 : xmluri_resolve baseC [] = Some (rfc_resolve baseC []).   (* "" -> "http://a/b/c/d;p?q" *)
Proof. vm_compute. reflexivity. Qed.
Example xmluri_C2_02 : xmluri_resolve baseC [46; 46; 47; 46; 46; 47; 46; 46; 47; 103] = Some (rfc_resolve baseC [46; 46; 47; 46; 46; 47; 46; 46; 47; 103]).   (* "../../../g" -> "http://a/../g" *)
Proof. vm_compute. reflexivity. Qed.
Example xmluri_C2_03 : xmluri_resolve baseC [46; 46; 47; 46; 46; 47; 46; 46; 47; 46; 46; 47; 103] = Some (rfc_resolve baseC [46; 46; 47; 46; 46; 47; 46; 46; 47; 46; 46; 47; 103]).   (* "../../../../g" -> "http://a/../../g" *)
Proof. vm_compute. reflexivity. Qed.
Example xmluri_C2_04 : xmluri_resolve baseC [47; 46; 47; 103] = Some (rfc_resolve baseC [47; 46; 47; 103]).   (* "/./g" -> "http://a/./g" *)
Proof. vm_compute. reflexivity. Qed.
Example xmluri_C2_05 : xmluri_resolve baseC [47; 46; 46; 47; 103] = Some (rfc_resolve baseC [47; 46; 46; 47; 103]).   (* "/../g" -> "http://a/../g" *)
Proof. vm_compute. reflexivity. Qed.
Example xmluri_C2_06 : xmluri_resolve baseC [103; 46] = Some (rfc_resolve baseC [103; 46]).   (* "g." -> "http://a/b/c/g." *)
Proof. vm_compute. reflexivity. Qed.
Example xmluri_C2_07 : xmluri_resolve baseC [46; 103] = Some (rfc_resolve baseC [46; 103]).   (* ".g" -> "http://a/b/c/.g" *)
Proof. vm_compute. reflexivity. Qed.
Example xmluri_C2_08 : xmluri_resolve baseC [103; 46; 46] = Some (rfc_resolve baseC [103; 46; 46]).   (* "g.." -> "http://a/b/c/g.." *)
Proof. vm_compute. reflexivity. Qed.
Example xmluri_C2_09 : xmluri_resolve baseC [46; 46; 103] = Some (rfc_resolve baseC [46; 46; 103]).   (* "..g" -> "http://a/b/c/..g" *)
Proof. vm_compute. reflexivity. Qed.
Example xmluri_C2_10 : xmluri_resolve baseC [46; 47; 46; 46; 47; 103] = Some (rfc_resolve baseC [46; 47; 46; 46; 47; 103]).   (* "./../g" -> "http://a/b/g" *)
Proof. vm_compute. reflexivity. Qed.
Example xmluri_C2_11 : xmluri_resolve baseC [46; 47; 103; 47; 46] = Some (rfc_resolve baseC [46; 47; 103; 47; 46]).   (* "./g/." -> "http://a/b/c/g/" *)
Proof. vm_compute. reflexivity. Qed.
Example xmluri_C2_12 : xmluri_resolve baseC [103; 47; 46; 47; 104] = Some (rfc_resolve baseC [103; 47; 46; 47; 104]).   (* "g/./h" -> "http://a/b/c/g/h" *)
Proof. vm_compute. reflexivity. Qed.
Example xmluri_C2_13 : xmluri_resolve baseC [103; 47; 46; 46; 47; 104] = Some (rfc_resolve baseC [103; 47; 46; 46; 47; 104]).   (* "g/../h" -> "http://a/b/c/h" *)
Proof. vm_compute. reflexivity. Qed.
Example xmluri_C2_14 : xmluri_resolve baseC [103; 59; 120; 61; 49; 47; 46; 47; 121] = Some (rfc_resolve baseC [103; 59; 120; 61; 49; 47; 46; 47; 121]).   (* "g;x=1/./y" -> "http://a/b/c/g;x=1/y" *)
Proof. vm_compute. reflexivity. Qed.
Example xmluri_C2_15 : xmluri_resolve baseC [103; 59; 120; 61; 49; 47; 46; 46; 47; 121] = Some (rfc_resolve baseC [103; 59; 120; 61; 49; 47; 46; 46; 47; 121]).   (* "g;x=1/../y" -> "http://a/b/c/y" *)
Proof. vm_compute. reflexivity. Qed.
Example xmluri_C2_16 : xmluri_resolve baseC [103; 63; 121; 47; 46; 47; 120] = Some (rfc_resolve baseC [103; 63; 121; 47; 46; 47; 120]).   (* "g?y/./x" -> "http://a/b/c/g?y/./x" *)
Proof. vm_compute. reflexivity. Qed.
Example xmluri_C2_17 : xmluri_resolve baseC [103; 63; 121; 47; 46; 46; 47; 120] = Some (rfc_resolve baseC [103; 63; 121; 47; 46; 46; 47; 120]).   (* "g?y/../x" -> "http://a/b/c/g?y/../x" *)
Proof. vm_compute. reflexivity. Qed.
Example xmluri_C2_18 : xmluri_resolve baseC [103; 35; 115; 47; 46; 47; 120] = Some (rfc_resolve baseC [103; 35; 115; 47; 46; 47; 120]).   (* "g#s/./x" -> "http://a/b/c/g#s/./x" *)
Proof. vm_compute. reflexivity. Qed.
Example xmluri_C2_19 : xmluri_resolve baseC [103; 35; 115; 47; 46; 46; 47; 120] = Some (rfc_resolve baseC [103; 35; 115; 47; 46; 46; 47; 120]).   (* "g#s/../x" -> "http://a/b/c/g#s/../x" *)
Proof. vm_compute. reflexivity. Qed.
Example xmluri_C2_20 : xmluri_resolve baseC [104; 116; 116; 112; 58; 103] = Some (rfc_resolve baseC [104; 116; 116; 112; 58; 103]).   (* "http:g" -> "http:g" *)
Proof. vm_compute. reflexivity. Qed.
(* ---- xmlurl_resolve against the same examples, base http://a/b/c/d;p?q; the stated values are what the real library returns ---- *)
(* deviation: "g:h" -> library "NONE", RFC "g:h" *)
Example xmlurl_actual_C1_01 : xmlurl_resolve baseC [103; 58; 104] = None.
Proof. vm_compute. reflexivity. Qed.
Lemma xmlurl_rfc_refuted_C1_01 : xmlurl_resolve baseC [103; 58; 104] <> Some (rfc_resolve baseC [103; 58; 104]).
Proof. vm_compute. discriminate. Qed.
Example xmlurl_C1_02 : xmlurl_resolve baseC [103] = Some (rfc_resolve baseC [103]).   (* "g" -> "http://a/b/c/g" *)
Proof. vm_compute. reflexivity. Qed.
Example xmlurl_C1_03 : xmlurl_resolve baseC [46; 47; 103] = Some (rfc_resolve baseC [46; 47; 103]).   (* "./g" -> "http://a/b/c/g" *)
Proof. vm_compute. reflexivity. Qed.
Example xmlurl_C1_04 : xmlurl_resolve baseC [103; 47] = Some (rfc_resolve baseC [103; 47]).   (* "g/" -> "http://a/b/c/g/" *)
Proof. vm_compute. reflexivity. Qed.
Example xmlurl_C1_05 : xmlurl_resolve baseC [47; 103] = Some (rfc_resolve baseC [47; 103]).   (* "/g" -> "http://a/g" *)
Proof. vm_compute. reflexivity. Qed.
(* deviation: "//g" -> library "http://g/", RFC "http://g" *)
Example xmlurl_actual_C1_06 : xmlurl_resolve baseC [47; 47; 103] = Some [104; 116; 116; 112; 58; 47; 47; 103; 47].
Proof. vm_compute. reflexivity. Qed.
Lemma xmlurl_rfc_refuted_C1_06 : xmlurl_resolve baseC [47; 47; 103] <> Some (rfc_resolve baseC [47; 47; 103]).
Proof. vm_compute. discriminate. Qed.
Example xmlurl_C1_07 : xmlurl_resolve baseC [63; 121] = Some (rfc_resolve baseC [63; 121]).   (* "?y" -> "http://a/b/c/?y" *)
Proof. vm_compute. reflexivity. Qed.
Example xmlurl_C1_08 : xmlurl_resolve baseC [103; 63; 121] = Some (rfc_resolve baseC [103; 63; 121]).   (* "g?y" -> "http://a/b/c/g?y" *)
Proof. vm_compute. reflexivity. Qed.
(* deviation: "#s" -> library "http://a/b/c/d;p#s", RFC "http://a/b/c/d;p?q#s" *)
Example xmlurl_actual_C1_09 : xmlurl_resolve baseC [35; 115] = Some [104; 116; 116; 112; 58; 47; 47; 97; 47; 98; 47; 99; 47; 100; 59; 112; 35; 115].
Proof. vm_compute. reflexivity. Qed.
Lemma xmlurl_rfc_refuted_C1_09 : xmlurl_resolve baseC [35; 115] <> Some (rfc_resolve baseC [35; 115]).
Proof. vm_compute. discriminate. Qed.
Example xmlurl_C1_10 : xmlurl_resolve baseC [103; 35; 115] = Some (rfc_resolve baseC [103; 35; 115]).   (* "g#s" -> "http://a/b/c/g#s" *)
Proof. vm_compute. reflexivity. Qed.
Example xmlurl_C1_11 : xmlurl_resolve baseC [103; 63; 121; 35; 115] = Some (rfc_resolve baseC [103; 63; 121; 35; 115]).   (* "g?y#s" -> "http://a/b/c/g?y#s" *)
Proof. vm_compute. reflexivity. Qed.
Example xmlurl_C1_12 : xmlurl_resolve baseC [59; 120] = Some (rfc_resolve baseC [59; 120]).   (* ";x" -> "http://a/b/c/;x" *)
Proof. vm_compute. reflexivity. Qed.
Example xmlurl_C1_13 : xmlurl_resolve baseC [103; 59; 120] = Some (rfc_resolve baseC [103; 59; 120]).   (* "g;x" -> "http://a/b/c/g;x" *)
Proof. vm_compute. reflexivity. Qed.
Example xmlurl_C1_14 : xmlurl_resolve baseC [103; 59; 120; 63; 121; 35; 115] = Some (rfc_resolve baseC [103; 59; 120; 63; 121; 35; 115]).   (* "g;x?y#s" -> "http://a/b/c/g;x?y#s" *)
Proof. vm_compute. reflexivity. Qed.
(* deviation: "." -> library "http://a/b/c/.", RFC "http://a/b/c/" *)
Example xmlurl_actual_C1_15 : xmlurl_resolve baseC [46] = Some [104; 116; 116; 112; 58; 47; 47; 97; 47; 98; 47; 99; 47; 46].
Proof. vm_compute. reflexivity. Qed.
Lemma xmlurl_rfc_refuted_C1_15 : xmlurl_resolve baseC [46] <> Some (rfc_resolve baseC [46]).
Proof. vm_compute. discriminate. Qed.
Example xmlurl_C1_16 : xmlurl_resolve baseC [46; 47] = Some (rfc_resolve baseC [46; 47]).   (* "./" -> "http://a/b/c/" *)
Proof. vm_compute. reflexivity. Qed.
(* deviation: ".." -> library "http://a/b/c/..", RFC "http://a/b/" *)
Example xmlurl_actual_C1_17 : xmlurl_resolve baseC [46; 46] = Some [104; 116; 116; 112; 58; 47; 47; 97; 47; 98; 47; 99; 47; 46; 46].
Proof. vm_compute. reflexivity. Qed.
Lemma xmlurl_rfc_refuted_C1_17 : xmlurl_resolve baseC [46; 46] <> Some (rfc_resolve baseC [46; 46]).
Proof. vm_compute. discriminate. Qed.
Example xmlurl_C1_18 : xmlurl_resolve baseC [46; 46; 47] = Some (rfc_resolve baseC [46; 46; 47]).   (* "../" -> "http://a/b/" *)
Proof. vm_compute. reflexivity. Qed.
Example xmlurl_C1_19 : xmlurl_resolve baseC [46; 46; 47; 103] = Some (rfc_resolve baseC [46; 46; 47; 103]).   (* "../g" -> "http://a/b/g" *)
Proof. vm_compute. reflexivity. Qed.
(* deviation: "../.." -> library "http://a/b/..", RFC "http://a/" *)
Example xmlurl_actual_C1_20 : xmlurl_resolve baseC [46; 46; 47; 46; 46] = Some [104; 116; 116; 112; 58; 47; 47; 97; 47; 98; 47; 46; 46].
Proof. vm_compute. reflexivity. Qed.
Lemma xmlurl_rfc_refuted_C1_20 : xmlurl_resolve baseC [46; 46; 47; 46; 46] <> Some (rfc_resolve baseC [46; 46; 47; 46; 46]).
Proof. vm_compute. discriminate. Qed.
Example xmlurl_C1_21 : xmlurl_resolve baseC [46; 46; 47; 46; 46; 47] = Some (rfc_resolve baseC [46; 46; 47; 46; 46; 47]).   (* "../../" -> "http://a/" *)
Proof. vm_compute. reflexivity. Qed.
Example xmlurl_C1_22 : xmlurl_resolve baseC [46; 46; 47; 46; 46; 47; 103] = Some (rfc_resolve baseC [46; 46; 47; 46; 46; 47; 103]).   (* "../../g" -> "http://a/g" *)
Proof. vm_compute. reflexivity. Qed.
(* deviation: "" -> library "NONE", RFC "http://a/b/c/d;p?q" *)
Example xmlurl_actual_C2_01 : xmlurl_resolve baseC [] = None.
Proof. vm_compute. reflexivity. Qed.
Lemma xmlurl_rfc_refuted_C2_01 : xmlurl_resolve baseC [] <> Some (rfc_resolve baseC []).
Proof. vm_compute. discriminate. Qed.
Example xmlurl_C2_02 : xmlurl_resolve baseC [46; 46; 47; 46; 46; 47; 46; 46; 47; 103] = Some (rfc_resolve baseC [46; 46; 47; 46; 46; 47; 46; 46; 47; 103]).   (* "../../../g" -> "http://a/../g" *)
Proof. vm_compute. reflexivity. Qed.
Example xmlurl_C2_03 : xmlurl_resolve baseC [46; 46; 47; 46; 46; 47; 46; 46; 47; 46; 46; 47; 103] = Some (rfc_resolve baseC [46; 46; 47; 46; 46; 47; 46; 46; 47; 46; 46; 47; 103]).   (* "../../../../g" -> "http://a/../../g" *)
Proof. vm_compute. reflexivity. Qed.
Example xmlurl_C2_04 : xmlurl_resolve baseC [47; 46; 47; 103] = Some (rfc_resolve baseC [47; 46; 47; 103]).   (* "/./g" -> "http://a/./g" *)
Proof. vm_compute. reflexivity. Qed.
Example xmlurl_C2_05 : xmlurl_resolve baseC [47; 46; 46; 47; 103] = Some (rfc_resolve baseC [47; 46; 46; 47; 103]).   (* "/../g" -> "http://a/../g" *)
Proof. vm_compute. reflexivity. Qed.
Example xmlurl_C2_06 : xmlurl_resolve baseC [103; 46] = Some (rfc_resolve baseC [103; 46]).   (* "g." -> "http://a/b/c/g." *)
Proof. vm_compute. reflexivity. Qed.
Example xmlurl_C2_07 : xmlurl_resolve baseC [46; 103] = Some (rfc_resolve baseC [46; 103]).   (* ".g" -> "http://a/b/c/.g" *)
Proof. vm_compute. reflexivity. Qed.
Example xmlurl_C2_08 : xmlurl_resolve baseC [103; 46; 46] = Some (rfc_resolve baseC [103; 46; 46]).   (* "g.." -> "http://a/b/c/g.." *)
Proof. vm_compute. reflexivity. Qed.
Example xmlurl_C2_09 : xmlurl_resolve baseC [46; 46; 103] = Some (rfc_resolve baseC [46; 46; 103]).   (* "..g" -> "http://a/b/c/..g" *)
Proof. vm_compute. reflexivity. Qed.
Example xmlurl_C2_10 : xmlurl_resolve baseC [46; 47; 46; 46; 47; 103] = Some (rfc_resolve baseC [46; 47; 46; 46; 47; 103]).   (* "./../g" -> "http://a/b/g" *)
Proof. vm_compute. reflexivity. Qed.
(* deviation: "./g/." -> library "http://a/b/c/g/.", RFC "http://a/b/c/g/" *)
Example xmlurl_actual_C2_11 : xmlurl_resolve baseC [46; 47; 103; 47; 46] = Some [104; 116; 116; 112; 58; 47; 47; 97; 47; 98; 47; 99; 47; 103; 47; 46].
Proof. vm_compute. reflexivity. Qed.
Lemma xmlurl_rfc_refuted_C2_11 : xmlurl_resolve baseC [46; 47; 103; 47; 46] <> Some (rfc_resolve baseC [46; 47; 103; 47; 46]).
Proof. vm_compute. discriminate. Qed.
Example xmlurl_C2_12 : xmlurl_resolve baseC [103; 47; 46; 47; 104] = Some (rfc_resolve baseC [103; 47; 46; 47; 104]).   (* "g/./h" -> "http://a/b/c/g/h" *)
Proof. vm_compute. reflexivity. Qed.
Example xmlurl_C2_13 : xmlurl_resolve baseC [103; 47; 46; 46; 47; 104] = Some (rfc_resolve baseC [103; 47; 46; 46; 47; 104]).   (* "g/../h" -> "http://a/b/c/h" *)
Proof. vm_compute. reflexivity. Qed.
Example xmlurl_C2_14 : xmlurl_resolve baseC [103; 59; 120; 61; 49; 47; 46; 47; 121] = Some (rfc_resolve baseC [103; 59; 120; 61; 49; 47; 46; 47; 121]).   (* "g;x=1/./y" -> "http://a/b/c/g;x=1/y" *)
Proof. vm_compute. reflexivity. Qed.
Example xmlurl_C2_15 : xmlurl_resolve baseC [103; 59; 120; 61; 49; 47; 46; 46; 47; 121] = Some (rfc_resolve baseC [103; 59; 120; 61; 49; 47; 46; 46; 47; 121]).   (* "g;x=1/../y" -> "http://a/b/c/y" *)
Proof. vm_compute. reflexivity. Qed.
Example xmlurl_C2_16 : xmlurl_resolve baseC [103; 63; 121; 47; 46; 47; 120] = Some (rfc_resolve baseC [103; 63; 121; 47; 46; 47; 120]).   (* "g?y/./x" -> "http://a/b/c/g?y/./x" *)
Proof. vm_compute. reflexivity. Qed.
Example xmlurl_C2_17 : xmlurl_resolve baseC [103; 63; 121; 47; 46; 46; 47; 120] = Some (rfc_resolve baseC [103; 63; 121; 47; 46; 46; 47; 120]).   (* "g?y/../x" -> "http://a/b/c/g?y/../x" *)
Proof. vm_compute. reflexivity. Qed.
Example xmlurl_C2_18 : xmlurl_resolve baseC [103; 35; 115; 47; 46; 47; 120] = Some (rfc_resolve baseC [103; 35; 115; 47; 46; 47; 120]).   (* "g#s/./x" -> "http://a/b/c/g#s/./x" *)
Proof. vm_compute. reflexivity. Qed.
Example xmlurl_C2_19 : xmlurl_resolve baseC [103; 35; 115; 47; 46; 46; 47; 120] = Some (rfc_resolve baseC [103; 35; 115; 47; 46; 46; 47; 120]).   (* "g#s/../x" -> "http://a/b/c/g#s/../x" *)
Proof. vm_compute. reflexivity. Qed.
(* deviation: "http:g" -> library "NONE", RFC "http:g" *)
Example xmlurl_actual_C2_20 : xmlurl_resolve baseC [104; 116; 116; 112; 58; 103] = None.
Proof. vm_compute. reflexivity. Qed.
Lemma xmlurl_rfc_refuted_C2_20 : xmlurl_resolve baseC [104; 116; 116; 112; 58; 103] <> Some (rfc_resolve baseC [104; 116; 116; 112; 58; 103]).
Proof. vm_compute. discriminate. Qed.
(* ---- localfile_resolve against the same examples, base http://a/b/c/d;p?q; the stated values are what the real library returns ---- *)
(* deviation: "g:h" -> library "http://a/b/c/g:h", RFC "g:h" *)
Example localfile_actual_C1_01 : localfile_resolve baseC [103; 58; 104] = [104; 116; 116; 112; 58; 47; 47; 97; 47; 98; 47; 99; 47; 103; 58; 104].
Proof. vm_compute. reflexivity. Qed.
Lemma localfile_rfc_refuted_C1_01 : localfile_resolve baseC [103; 58; 104] <> rfc_resolve baseC [103; 58; 104].
Proof. vm_compute. discriminate. Qed.
Example localfile_C1_02 : localfile_resolve baseC [103] = rfc_resolve baseC [103].   (* "g" -> "http://a/b/c/g" *)
Proof. vm_compute. reflexivity. Qed.
Example localfile_C1_03 : localfile_resolve baseC [46; 47; 103] = rfc_resolve baseC [46; 47; 103].   (* "./g" -> "http://a/b/c/g" *)
Proof. vm_compute. reflexivity. Qed.
Example localfile_C1_04 : localfile_resolve baseC [103; 47] = rfc_resolve baseC [103; 47].   (* "g/" -> "http://a/b/c/g/" *)
Proof. vm_compute. reflexivity. Qed.
(* deviation: "/g" -> library "/g", RFC "http://a/g" *)
Example localfile_actual_C1_05 : localfile_resolve baseC [47; 103] = [47; 103].
Proof. vm_compute. reflexivity. Qed.
Lemma localfile_rfc_refuted_C1_05 : localfile_resolve baseC [47; 103] <> rfc_resolve baseC [47; 103].
Proof. vm_compute. discriminate. Qed.
(* deviation: "//g" -> library "//g", RFC "http://g" *)
Example localfile_actual_C1_06 : localfile_resolve baseC [47; 47; 103] = [47; 47; 103].
Proof. vm_compute. reflexivity. Qed.
Lemma localfile_rfc_refuted_C1_06 : localfile_resolve baseC [47; 47; 103] <> rfc_resolve baseC [47; 47; 103].
Proof. vm_compute. discriminate. Qed.
Example localfile_C1_07 : localfile_resolve baseC [63; 121] = rfc_resolve baseC [63; 121].   (* "?y" -> "http://a/b/c/?y" *)
Proof. vm_compute. reflexivity. Qed.
Example localfile_C1_08 : localfile_resolve baseC [103; 63; 121] = rfc_resolve baseC [103; 63; 121].   (* "g?y" -> "http://a/b/c/g?y" *)
Proof. vm_compute. reflexivity. Qed.
(* deviation: "#s" -> library "http://a/b/c/#s", RFC "http://a/b/c/d;p?q#s" *)
Example localfile_actual_C1_09 : localfile_resolve baseC [35; 115] = [104; 116; 116; 112; 58; 47; 47; 97; 47; 98; 47; 99; 47; 35; 115].
Proof. vm_compute. reflexivity. Qed.
Lemma localfile_rfc_refuted_C1_09 : localfile_resolve baseC [35; 115] <> rfc_resolve baseC [35; 115].
Proof. vm_compute. discriminate. Qed.
Example localfile_C1_10 : localfile_resolve baseC [103; 35; 115] = rfc_resolve baseC [103; 35; 115].   (* "g#s" -> "http://a/b/c/g#s" *)
Proof. vm_compute. reflexivity. Qed.
Example localfile_C1_11 : localfile_resolve baseC [103; 63; 121; 35; 115] = rfc_resolve baseC [103; 63; 121; 35; 115].   (* "g?y#s" -> "http://a/b/c/g?y#s" *)
Proof. vm_compute. reflexivity. Qed.
Example localfile_C1_12 : localfile_resolve baseC [59; 120] = rfc_resolve baseC [59; 120].   (* ";x" -> "http://a/b/c/;x" *)
Proof. vm_compute. reflexivity. Qed.
Example localfile_C1_13 : localfile_resolve baseC [103; 59; 120] = rfc_resolve baseC [103; 59; 120].   (* "g;x" -> "http://a/b/c/g;x" *)
Proof. vm_compute. reflexivity. Qed.
Example localfile_C1_14 : localfile_resolve baseC [103; 59; 120; 63; 121; 35; 115] = rfc_resolve baseC [103; 59; 120; 63; 121; 35; 115].   (* "g;x?y#s" -> "http://a/b/c/g;x?y#s" *)
Proof. vm_compute. reflexivity. Qed.
(* deviation: "." -> library "http://a/b/c/.", RFC "http://a/b/c/" *)
Example localfile_actual_C1_15 : localfile_resolve baseC [46] = [104; 116; 116; 112; 58; 47; 47; 97; 47; 98; 47; 99; 47; 46].
Proof. vm_compute. reflexivity. Qed.
Lemma localfile_rfc_refuted_C1_15 : localfile_resolve baseC [46] <> rfc_resolve baseC [46].
Proof. vm_compute. discriminate. Qed.
Example localfile_C1_16 : localfile_resolve baseC [46; 47] = rfc_resolve baseC [46; 47].   (* "./" -> "http://a/b/c/" *)
Proof. vm_compute. reflexivity. Qed.
(* deviation: ".." -> library "http://a/b/c/..", RFC "http://a/b/" *)
Example localfile_actual_C1_17 : localfile_resolve baseC [46; 46] = [104; 116; 116; 112; 58; 47; 47; 97; 47; 98; 47; 99; 47; 46; 46].
Proof. vm_compute. reflexivity. Qed.
Lemma localfile_rfc_refuted_C1_17 : localfile_resolve baseC [46; 46] <> rfc_resolve baseC [46; 46].
Proof. vm_compute. discriminate. Qed.
Example localfile_C1_18 : localfile_resolve baseC [46; 46; 47] = rfc_resolve baseC [46; 46; 47].   (* "../" -> "http://a/b/" *)
Proof. vm_compute. reflexivity. Qed.
Example localfile_C1_19 : localfile_resolve baseC [46; 46; 47; 103] = rfc_resolve baseC [46; 46; 47; 103].   (* "../g" -> "http://a/b/g" *)
Proof. vm_compute. reflexivity. Qed.
(* deviation: "../.." -> library "http://a/b/..", RFC "http://a/" *)
Example localfile_actual_C1_20 : localfile_resolve baseC [46; 46; 47; 46; 46] = [104; 116; 116; 112; 58; 47; 47; 97; 47; 98; 47; 46; 46].
Proof. vm_compute. reflexivity. Qed.
Lemma localfile_rfc_refuted_C1_20 : localfile_resolve baseC [46; 46; 47; 46; 46] <> rfc_resolve baseC [46; 46; 47; 46; 46].
Proof. vm_compute. discriminate. Qed.
Example localfile_C1_21 : localfile_resolve baseC [46; 46; 47; 46; 46; 47] = rfc_resolve baseC [46; 46; 47; 46; 46; 47].   (* "../../" -> "http://a/" *)
Proof. vm_compute. reflexivity. Qed.
Example localfile_C1_22 : localfile_resolve baseC [46; 46; 47; 46; 46; 47; 103] = rfc_resolve baseC [46; 46; 47; 46; 46; 47; 103].   (* "../../g" -> "http://a/g" *)
Proof. vm_compute. reflexivity. Qed.
(* deviation: "" -> library "-", RFC "http://a/b/c/d;p?q" *)
Example localfile_actual_C2_01 : localfile_resolve baseC [] = [].
Proof. vm_compute. reflexivity. Qed.
Lemma localfile_rfc_refuted_C2_01 : localfile_resolve baseC [] <> rfc_resolve baseC [].
Proof. vm_compute. discriminate. Qed.
(* deviation: "../../../g" -> library "http://g", RFC "http://a/../g" *)
Example localfile_actual_C2_02 : localfile_resolve baseC [46; 46; 47; 46; 46; 47; 46; 46; 47; 103] = [104; 116; 116; 112; 58; 47; 47; 103].
Proof. vm_compute. reflexivity. Qed.
Lemma localfile_rfc_refuted_C2_02 : localfile_resolve baseC [46; 46; 47; 46; 46; 47; 46; 46; 47; 103] <> rfc_resolve baseC [46; 46; 47; 46; 46; 47; 46; 46; 47; 103].
Proof. vm_compute. discriminate. Qed.
(* deviation: "../../../../g" -> library "http://../g", RFC "http://a/../../g" *)
Example localfile_actual_C2_03 : localfile_resolve baseC [46; 46; 47; 46; 46; 47; 46; 46; 47; 46; 46; 47; 103] = [104; 116; 116; 112; 58; 47; 47; 46; 46; 47; 103].
Proof. vm_compute. reflexivity. Qed.
Lemma localfile_rfc_refuted_C2_03 : localfile_resolve baseC [46; 46; 47; 46; 46; 47; 46; 46; 47; 46; 46; 47; 103] <> rfc_resolve baseC [46; 46; 47; 46; 46; 47; 46; 46; 47; 46; 46; 47; 103].
Proof. vm_compute. discriminate. Qed.
(* deviation: "/./g" -> library "/g", RFC "http://a/./g" *)
Example localfile_actual_C2_04 : localfile_resolve baseC [47; 46; 47; 103] = [47; 103].
Proof. vm_compute. reflexivity. Qed.
Lemma localfile_rfc_refuted_C2_04 : localfile_resolve baseC [47; 46; 47; 103] <> rfc_resolve baseC [47; 46; 47; 103].
Proof. vm_compute. discriminate. Qed.
(* deviation: "/../g" -> library "/../g", RFC "http://a/../g" *)
Example localfile_actual_C2_05 : localfile_resolve baseC [47; 46; 46; 47; 103] = [47; 46; 46; 47; 103].
Proof. vm_compute. reflexivity. Qed.
Lemma localfile_rfc_refuted_C2_05 : localfile_resolve baseC [47; 46; 46; 47; 103] <> rfc_resolve baseC [47; 46; 46; 47; 103].
Proof. vm_compute. discriminate. Qed.
Example localfile_C2_06 : localfile_resolve baseC [103; 46] = rfc_resolve baseC [103; 46].   (* "g." -> "http://a/b/c/g." *)
Proof. vm_compute. reflexivity. Qed.
Example localfile_C2_07 : localfile_resolve baseC [46; 103] = rfc_resolve baseC [46; 103].   (* ".g" -> "http://a/b/c/.g" *)
Proof. vm_compute. reflexivity. Qed.
Example localfile_C2_08 : localfile_resolve baseC [103; 46; 46] = rfc_resolve baseC [103; 46; 46].   (* "g.." -> "http://a/b/c/g.." *)
Proof. vm_compute. reflexivity. Qed.
Example localfile_C2_09 : localfile_resolve baseC [46; 46; 103] = rfc_resolve baseC [46; 46; 103].   (* "..g" -> "http://a/b/c/..g" *)
Proof. vm_compute. reflexivity. Qed.
Example localfile_C2_10 : localfile_resolve baseC [46; 47; 46; 46; 47; 103] = rfc_resolve baseC [46; 47; 46; 46; 47; 103].   (* "./../g" -> "http://a/b/g" *)
Proof. vm_compute. reflexivity. Qed.
(* deviation: "./g/." -> library "http://a/b/c/g/.", RFC "http://a/b/c/g/" *)
Example localfile_actual_C2_11 : localfile_resolve baseC [46; 47; 103; 47; 46] = [104; 116; 116; 112; 58; 47; 47; 97; 47; 98; 47; 99; 47; 103; 47; 46].
Proof. vm_compute. reflexivity. Qed.
Lemma localfile_rfc_refuted_C2_11 : localfile_resolve baseC [46; 47; 103; 47; 46] <> rfc_resolve baseC [46; 47; 103; 47; 46].
Proof. vm_compute. discriminate. Qed.
Example localfile_C2_12 : localfile_resolve baseC [103; 47; 46; 47; 104] = rfc_resolve baseC [103; 47; 46; 47; 104].   (* "g/./h" -> "http://a/b/c/g/h" *)
Proof. vm_compute. reflexivity. Qed.
Example localfile_C2_13 : localfile_resolve baseC [103; 47; 46; 46; 47; 104] = rfc_resolve baseC [103; 47; 46; 46; 47; 104].   (* "g/../h" -> "http://a/b/c/h" *)
Proof. vm_compute. reflexivity. Qed.
Example localfile_C2_14 : localfile_resolve baseC [103; 59; 120; 61; 49; 47; 46; 47; 121] = rfc_resolve baseC [103; 59; 120; 61; 49; 47; 46; 47; 121].   (* "g;x=1/./y" -> "http://a/b/c/g;x=1/y" *)
Proof. vm_compute. reflexivity. Qed.
Example localfile_C2_15 : localfile_resolve baseC [103; 59; 120; 61; 49; 47; 46; 46; 47; 121] = rfc_resolve baseC [103; 59; 120; 61; 49; 47; 46; 46; 47; 121].   (* "g;x=1/../y" -> "http://a/b/c/y" *)
Proof. vm_compute. reflexivity. Qed.
(* deviation: "g?y/./x" -> library "http://a/b/c/g?y/x", RFC "http://a/b/c/g?y/./x" *)
Example localfile_actual_C2_16 : localfile_resolve baseC [103; 63; 121; 47; 46; 47; 120] = [104; 116; 116; 112; 58; 47; 47; 97; 47; 98; 47; 99; 47; 103; 63; 121; 47; 120].
Proof. vm_compute. reflexivity. Qed.
Lemma localfile_rfc_refuted_C2_16 : localfile_resolve baseC [103; 63; 121; 47; 46; 47; 120] <> rfc_resolve baseC [103; 63; 121; 47; 46; 47; 120].
Proof. vm_compute. discriminate. Qed.
(* deviation: "g?y/../x" -> library "http://a/b/c/x", RFC "http://a/b/c/g?y/../x" *)
Example localfile_actual_C2_17 : localfile_resolve baseC [103; 63; 121; 47; 46; 46; 47; 120] = [104; 116; 116; 112; 58; 47; 47; 97; 47; 98; 47; 99; 47; 120].
Proof. vm_compute. reflexivity. Qed.
Lemma localfile_rfc_refuted_C2_17 : localfile_resolve baseC [103; 63; 121; 47; 46; 46; 47; 120] <> rfc_resolve baseC [103; 63; 121; 47; 46; 46; 47; 120].
Proof. vm_compute. discriminate. Qed.
(* deviation: "g#s/./x" -> library "http://a/b/c/g#s/x", RFC "http://a/b/c/g#s/./x" *)
Example localfile_actual_C2_18 : localfile_resolve baseC [103; 35; 115; 47; 46; 47; 120] = [104; 116; 116; 112; 58; 47; 47; 97; 47; 98; 47; 99; 47; 103; 35; 115; 47; 120].
Proof. vm_compute. reflexivity. Qed.
Lemma localfile_rfc_refuted_C2_18 : localfile_resolve baseC [103; 35; 115; 47; 46; 47; 120] <> rfc_resolve baseC [103; 35; 115; 47; 46; 47; 120].
Proof. vm_compute. discriminate. Qed.
(* deviation: "g#s/../x" -> library "http://a/b/c/x", RFC "http://a/b/c/g#s/../x" *)
Example localfile_actual_C2_19 : localfile_resolve baseC [103; 35; 115; 47; 46; 46; 47; 120] = [104; 116; 116; 112; 58; 47; 47; 97; 47; 98; 47; 99; 47; 120].
Proof. vm_compute. reflexivity. Qed.
Lemma localfile_rfc_refuted_C2_19 : localfile_resolve baseC [103; 35; 115; 47; 46; 46; 47; 120] <> rfc_resolve baseC [103; 35; 115; 47; 46; 46; 47; 120].
Proof. vm_compute. discriminate. Qed.
(* deviation: "http:g" -> library "http://a/b/c/http:g", RFC "http:g" *)
Example localfile_actual_C2_20 : localfile_resolve baseC [104; 116; 116; 112; 58; 103] = [104; 116; 116; 112; 58; 47; 47; 97; 47; 98; 47; 99; 47; 104; 116; 116; 112; 58; 103].
Proof. vm_compute. reflexivity. Qed.
Lemma localfile_rfc_refuted_C2_20 : localfile_resolve baseC [104; 116; 116; 112; 58; 103] <> rfc_resolve baseC [104; 116; 116; 112; 58; 103].
Proof. vm_compute. discriminate. Qed.
(* ---- localfile_resolve against the same examples, base /w/d1/doc.xml; the stated values are what the real library returns ---- *)
(* deviation: "g:h" -> library "/w/d1/g:h", RFC "g:h" *)
Example localfileF_actual_C1_01 : localfile_resolve baseF [103; 58; 104] = [47; 119; 47; 100; 49; 47; 103; 58; 104].
Proof. vm_compute. reflexivity. Qed.
Lemma localfileF_rfc_refuted_C1_01 : localfile_resolve baseF [103; 58; 104] <> rfc_resolve baseF [103; 58; 104].
Proof. vm_compute. discriminate. Qed.
Example localfileF_C1_02 : localfile_resolve baseF [103] = rfc_resolve baseF [103].   (* "g" -> "/w/d1/g" *)
Proof. vm_compute. reflexivity. Qed.
Example localfileF_C1_03 : localfile_resolve baseF [46; 47; 103] = rfc_resolve baseF [46; 47; 103].   (* "./g" -> "/w/d1/g" *)
Proof. vm_compute. reflexivity. Qed.
Example localfileF_C1_04 : localfile_resolve baseF [103; 47] = rfc_resolve baseF [103; 47].   (* "g/" -> "/w/d1/g/" *)
Proof. vm_compute. reflexivity. Qed.
Example localfileF_C1_05 : localfile_resolve baseF [47; 103] = rfc_resolve baseF [47; 103].   (* "/g" -> "/g" *)
Proof. vm_compute. reflexivity. Qed.
Example localfileF_C1_06 : localfile_resolve baseF [47; 47; 103] = rfc_resolve baseF [47; 47; 103].   (* "//g" -> "//g" *)
Proof. vm_compute. reflexivity. Qed.
Example localfileF_C1_07 : localfile_resolve baseF [63; 121] = rfc_resolve baseF [63; 121].   (* "?y" -> "/w/d1/?y" *)
Proof. vm_compute. reflexivity. Qed.
Example localfileF_C1_08 : localfile_resolve baseF [103; 63; 121] = rfc_resolve baseF [103; 63; 121].   (* "g?y" -> "/w/d1/g?y" *)
Proof. vm_compute. reflexivity. Qed.
(* deviation: "#s" -> library "/w/d1/#s", RFC "/w/d1/doc.xml#s" *)
Example localfileF_actual_C1_09 : localfile_resolve baseF [35; 115] = [47; 119; 47; 100; 49; 47; 35; 115].
Proof. vm_compute. reflexivity. Qed.
Lemma localfileF_rfc_refuted_C1_09 : localfile_resolve baseF [35; 115] <> rfc_resolve baseF [35; 115].
Proof. vm_compute. discriminate. Qed.
Example localfileF_C1_10 : localfile_resolve baseF [103; 35; 115] = rfc_resolve baseF [103; 35; 115].   (* "g#s" -> "/w/d1/g#s" *)
Proof. vm_compute. reflexivity. Qed.
Example localfileF_C1_11 : localfile_resolve baseF [103; 63; 121; 35; 115] = rfc_resolve baseF [103; 63; 121; 35; 115].   (* "g?y#s" -> "/w/d1/g?y#s" *)
Proof. vm_compute. reflexivity. Qed.
Example localfileF_C1_12 : localfile_resolve baseF [59; 120] = rfc_resolve baseF [59; 120].   (* ";x" -> "/w/d1/;x" *)
Proof. vm_compute. reflexivity. Qed.
Example localfileF_C1_13 : localfile_resolve baseF [103; 59; 120] = rfc_resolve baseF [103; 59; 120].   (* "g;x" -> "/w/d1/g;x" *)
Proof. vm_compute. reflexivity. Qed.
Example localfileF_C1_14 : localfile_resolve baseF [103; 59; 120; 63; 121; 35; 115] = rfc_resolve baseF [103; 59; 120; 63; 121; 35; 115].   (* "g;x?y#s" -> "/w/d1/g;x?y#s" *)
Proof. vm_compute. reflexivity. Qed.
(* deviation: "." -> library "/w/d1/.", RFC "/w/d1/" *)
Example localfileF_actual_C1_15 : localfile_resolve baseF [46] = [47; 119; 47; 100; 49; 47; 46].
Proof. vm_compute. reflexivity. Qed.
Lemma localfileF_rfc_refuted_C1_15 : localfile_resolve baseF [46] <> rfc_resolve baseF [46].
Proof. vm_compute. discriminate. Qed.
Example localfileF_C1_16 : localfile_resolve baseF [46; 47] = rfc_resolve baseF [46; 47].   (* "./" -> "/w/d1/" *)
Proof. vm_compute. reflexivity. Qed.
(* deviation: ".." -> library "/w/d1/..", RFC "/w/" *)
Example localfileF_actual_C1_17 : localfile_resolve baseF [46; 46] = [47; 119; 47; 100; 49; 47; 46; 46].
Proof. vm_compute. reflexivity. Qed.
Lemma localfileF_rfc_refuted_C1_17 : localfile_resolve baseF [46; 46] <> rfc_resolve baseF [46; 46].
Proof. vm_compute. discriminate. Qed.
Example localfileF_C1_18 : localfile_resolve baseF [46; 46; 47] = rfc_resolve baseF [46; 46; 47].   (* "../" -> "/w/" *)
Proof. vm_compute. reflexivity. Qed.
Example localfileF_C1_19 : localfile_resolve baseF [46; 46; 47; 103] = rfc_resolve baseF [46; 46; 47; 103].   (* "../g" -> "/w/g" *)
Proof. vm_compute. reflexivity. Qed.
(* deviation: "../.." -> library "/w/..", RFC "/" *)
Example localfileF_actual_C1_20 : localfile_resolve baseF [46; 46; 47; 46; 46] = [47; 119; 47; 46; 46].
Proof. vm_compute. reflexivity. Qed.
Lemma localfileF_rfc_refuted_C1_20 : localfile_resolve baseF [46; 46; 47; 46; 46] <> rfc_resolve baseF [46; 46; 47; 46; 46].
Proof. vm_compute. discriminate. Qed.
Example localfileF_C1_21 : localfile_resolve baseF [46; 46; 47; 46; 46; 47] = rfc_resolve baseF [46; 46; 47; 46; 46; 47].   (* "../../" -> "/" *)
Proof. vm_compute. reflexivity. Qed.
Example localfileF_C1_22 : localfile_resolve baseF [46; 46; 47; 46; 46; 47; 103] = rfc_resolve baseF [46; 46; 47; 46; 46; 47; 103].   (* "../../g" -> "/g" *)
Proof. vm_compute. reflexivity. Qed.
(* deviation: "" -> library "-", RFC "/w/d1/doc.xml" *)
Example localfileF_actual_C2_01 : localfile_resolve baseF [] = [].
Proof. vm_compute. reflexivity. Qed.
Lemma localfileF_rfc_refuted_C2_01 : localfile_resolve baseF [] <> rfc_resolve baseF [].
Proof. vm_compute. discriminate. Qed.
Example localfileF_C2_02 : localfile_resolve baseF [46; 46; 47; 46; 46; 47; 46; 46; 47; 103] = rfc_resolve baseF [46; 46; 47; 46; 46; 47; 46; 46; 47; 103].   (* "../../../g" -> "/../g" *)
Proof. vm_compute. reflexivity. Qed.
Example localfileF_C2_03 : localfile_resolve baseF [46; 46; 47; 46; 46; 47; 46; 46; 47; 46; 46; 47; 103] = rfc_resolve baseF [46; 46; 47; 46; 46; 47; 46; 46; 47; 46; 46; 47; 103].   (* "../../../../g" -> "/../../g" *)
Proof. vm_compute. reflexivity. Qed.
(* deviation: "/./g" -> library "/g", RFC "/./g" *)
Example localfileF_actual_C2_04 : localfile_resolve baseF [47; 46; 47; 103] = [47; 103].
Proof. vm_compute. reflexivity. Qed.
Lemma localfileF_rfc_refuted_C2_04 : localfile_resolve baseF [47; 46; 47; 103] <> rfc_resolve baseF [47; 46; 47; 103].
Proof. vm_compute. discriminate. Qed.
Example localfileF_C2_05 : localfile_resolve baseF [47; 46; 46; 47; 103] = rfc_resolve baseF [47; 46; 46; 47; 103].   (* "/../g" -> "/../g" *)
Proof. vm_compute. reflexivity. Qed.
Example localfileF_C2_06 : localfile_resolve baseF [103; 46] = rfc_resolve baseF [103; 46].   (* "g." -> "/w/d1/g." *)
Proof. vm_compute. reflexivity. Qed.
Example localfileF_C2_07 : localfile_resolve baseF [46; 103] = rfc_resolve baseF [46; 103].   (* ".g" -> "/w/d1/.g" *)
Proof. vm_compute. reflexivity. Qed.
Example localfileF_C2_08 : localfile_resolve baseF [103; 46; 46] = rfc_resolve baseF [103; 46; 46].   (* "g.." -> "/w/d1/g.." *)
Proof. vm_compute. reflexivity. Qed.
Example localfileF_C2_09 : localfile_resolve baseF [46; 46; 103] = rfc_resolve baseF [46; 46; 103].   (* "..g" -> "/w/d1/..g" *)
Proof. vm_compute. reflexivity. Qed.
Example localfileF_C2_10 : localfile_resolve baseF [46; 47; 46; 46; 47; 103] = rfc_resolve baseF [46; 47; 46; 46; 47; 103].   (* "./../g" -> "/w/g" *)
Proof. vm_compute. reflexivity. Qed.
(* deviation: "./g/." -> library "/w/d1/g/.", RFC "/w/d1/g/" *)
Example localfileF_actual_C2_11 : localfile_resolve baseF [46; 47; 103; 47; 46] = [47; 119; 47; 100; 49; 47; 103; 47; 46].
Proof. vm_compute. reflexivity. Qed.
Lemma localfileF_rfc_refuted_C2_11 : localfile_resolve baseF [46; 47; 103; 47; 46] <> rfc_resolve baseF [46; 47; 103; 47; 46].
Proof. vm_compute. discriminate. Qed.
Example localfileF_C2_12 : localfile_resolve baseF [103; 47; 46; 47; 104] = rfc_resolve baseF [103; 47; 46; 47; 104].   (* "g/./h" -> "/w/d1/g/h" *)
Proof. vm_compute. reflexivity. Qed.
Example localfileF_C2_13 : localfile_resolve baseF [103; 47; 46; 46; 47; 104] = rfc_resolve baseF [103; 47; 46; 46; 47; 104].   (* "g/../h" -> "/w/d1/h" *)
Proof. vm_compute. reflexivity. Qed.
Example localfileF_C2_14 : localfile_resolve baseF [103; 59; 120; 61; 49; 47; 46; 47; 121] = rfc_resolve baseF [103; 59; 120; 61; 49; 47; 46; 47; 121].   (* "g;x=1/./y" -> "/w/d1/g;x=1/y" *)
Proof. vm_compute. reflexivity. Qed.
Example localfileF_C2_15 : localfile_resolve baseF [103; 59; 120; 61; 49; 47; 46; 46; 47; 121] = rfc_resolve baseF [103; 59; 120; 61; 49; 47; 46; 46; 47; 121].   (* "g;x=1/../y" -> "/w/d1/y" *)
Proof. vm_compute. reflexivity. Qed.
(* deviation: "g?y/./x" -> library "/w/d1/g?y/x", RFC "/w/d1/g?y/./x" *)
Example localfileF_actual_C2_16 : localfile_resolve baseF [103; 63; 121; 47; 46; 47; 120] = [47; 119; 47; 100; 49; 47; 103; 63; 121; 47; 120].
Proof. vm_compute. reflexivity. Qed.
Lemma localfileF_rfc_refuted_C2_16 : localfile_resolve baseF [103; 63; 121; 47; 46; 47; 120] <> rfc_resolve baseF [103; 63; 121; 47; 46; 47; 120].
Proof. vm_compute. discriminate. Qed.
(* deviation: "g?y/../x" -> library "/w/d1/x", RFC "/w/d1/g?y/../x" *)
Example localfileF_actual_C2_17 : localfile_resolve baseF [103; 63; 121; 47; 46; 46; 47; 120] = [47; 119; 47; 100; 49; 47; 120].
Proof. vm_compute. reflexivity. Qed.
Lemma localfileF_rfc_refuted_C2_17 : localfile_resolve baseF [103; 63; 121; 47; 46; 46; 47; 120] <> rfc_resolve baseF [103; 63; 121; 47; 46; 46; 47; 120].
Proof. vm_compute. discriminate. Qed.
(* deviation: "g#s/./x" -> library "/w/d1/g#s/x", RFC "/w/d1/g#s/./x" *)
Example localfileF_actual_C2_18 : localfile_resolve baseF [103; 35; 115; 47; 46; 47; 120] = [47; 119; 47; 100; 49; 47; 103; 35; 115; 47; 120].
Proof. vm_compute. reflexivity. Qed.
Lemma localfileF_rfc_refuted_C2_18 : localfile_resolve baseF [103; 35; 115; 47; 46; 47; 120] <> rfc_resolve baseF [103; 35; 115; 47; 46; 47; 120].
Proof. vm_compute. discriminate. Qed.
(* deviation: "g#s/../x" -> library "/w/d1/x", RFC "/w/d1/g#s/../x" *)
Example localfileF_actual_C2_19 : localfile_resolve baseF [103; 35; 115; 47; 46; 46; 47; 120] = [47; 119; 47; 100; 49; 47; 120].
Proof. vm_compute. reflexivity. Qed.
Lemma localfileF_rfc_refuted_C2_19 : localfile_resolve baseF [103; 35; 115; 47; 46; 46; 47; 120] <> rfc_resolve baseF [103; 35; 115; 47; 46; 46; 47; 120].
Proof. vm_compute. discriminate. Qed.
(* deviation: "http:g" -> library "/w/d1/http:g", RFC "http:g" *)
Example localfileF_actual_C2_20 : localfile_resolve baseF [104; 116; 116; 112; 58; 103] = [47; 119; 47; 100; 49; 47; 104; 116; 116; 112; 58; 103].
Proof. vm_compute. reflexivity. Qed.
Lemma localfileF_rfc_refuted_C2_20 : localfile_resolve baseF [104; 116; 116; 112; 58; 103] <> rfc_resolve baseF [104; 116; 116; 112; 58; 103].
Proof. vm_compute. discriminate. Qed.

Example weave_rfc_segments_nonvacuous :
  let bs := [[119]; [100; 49]] in let ps := [[120; 46; 100; 116; 100]] in      (* /w/d1/ + ../x.dtd *)
  forallb plain_seg bs = true /\ plain_segs ps = true /\ (1 <= length bs)%nat /\
  join_slash (rm_dotdot [] (rm_dot_slash_segs ([] :: bs ++ repeat dd 1 ++ ps))) = [47; 119; 47; 120; 46; 100; 116; 100].
Proof. vm_compute. repeat split. lia. Qed.

(** localfile_resolve in terms of the segment functions (ties [weave_rfc_segments] to the model) *)
Lemma localfile_resolve_segments : forall base rel b0 b1 bt,
  path_is_relative rel = true -> split_slash base = b0 :: b1 :: bt ->
  localfile_resolve base rel =
  join_slash (rm_dotdot [] (rm_dot_slash_segs (removelast (split_slash base) ++ split_slash rel))).
Proof. intros base rel b0 b1 bt Hr Hs. unfold localfile_resolve, weave_paths. rewrite Hr, Hs. reflexivity. Qed.

(** ** bounded sweeps (finite, by computation): all references of at most 5 segments over a small alphabet *)
Fixpoint seqs (alpha : list str) (n : nat) : list (list str) :=
  match n with
  | O => []
  | S m => map (fun a => [a]) alpha ++ flat_map (fun t => map (fun a => a :: t) alpha) (seqs alpha m)
  end.
Definition refs_over (alpha : list str) (n : nat) : list str := map join_slash (seqs alpha n).
Definition alpha_plain : list str := [[97]; [98; 46; 99]; dd].              (* a  b.c  .. *)
Definition alpha_dots : list str := [[97]; [cDot]; dd; []].                 (* a  .  ..  (empty) *)
Definition depth (base : str) : nat := length (split_slash base) - 2.
Definition bases_path : list str :=
  [baseF; [47; 119; 47; 100; 49; 47]; [47; 100]; [47; 119; 47; 100; 49; 47; 100; 50; 47; 100; 51; 47; 120]].
     (* /w/d1/doc.xml   /w/d1/   /d   /w/d1/d2/d3/x *)
Definition baseU : str := [102; 105; 108; 101; 58; 47; 47; 47; 119; 47; 100; 49; 47; 100; 111; 99; 46; 120; 109; 108].
     (* file:///w/d1/doc.xml *)
Definition bases_uri : list str := [baseC; baseU; [104; 116; 116; 112; 58; 47; 47; 97; 47; 120]].   (* ... http://a/x *)

(** PARTIAL (finite sweep; the universal statement on texts needs the round trip split_slash/join_slash and
    parse_uriref/recompose lemmas, not done; the universal core on segments is [weave_rfc_segments]):
    for absolute-path bases and plain relative references whose leading ".." do not exceed the base depth,
    LocalFileInputSource agrees with RFC 2396 5.2 *)
Lemma localfile_rfc_agree_partial :
  forallb (fun base => forallb (fun r =>
      implb (plain_rel r && Nat.leb (updepth r) (depth base)) (str_eqb (localfile_resolve base r) (rfc_resolve base r)))
    (refs_over alpha_plain 5)) bases_path = true.
Proof. vm_compute. reflexivity. Qed.
Example localfile_rfc_agree_nonvacuous :
  length (filter (fun r => plain_rel r && Nat.leb (updepth r) (depth baseF)) (refs_over alpha_plain 5)) = 106%nat.
Proof. vm_compute. reflexivity. Qed.

(** PARTIAL (finite sweep): XMLUri agrees with RFC 2396 5.2 on plain relative references (any number of "..") *)
Lemma xmluri_rfc_agree_partial :
  forallb (fun base => forallb (fun r =>
      implb (plain_rel r) (match xmluri_resolve base r with Some t => str_eqb t (rfc_resolve base r) | None => false end))
    (refs_over alpha_plain 5)) bases_uri = true.
Proof. vm_compute. reflexivity. Qed.
(** PARTIAL (finite sweep): the same for XMLURL::setURL *)
Lemma xmlurl_rfc_agree_partial :
  forallb (fun base => forallb (fun r =>
      implb (plain_rel r) (match xmlurl_resolve base r with Some t => str_eqb t (rfc_resolve base r) | None => false end))
    (refs_over alpha_plain 5)) bases_uri = true.
Proof. vm_compute. reflexivity. Qed.
Example plain_rel_nonvacuous : plain_rel [46; 46; 47; 120; 46; 100; 116; 100] = true /\ plain_rel [46; 47; 120] = false.
Proof. vm_compute. split; reflexivity. Qed.

(** PARTIAL (finite sweep; universal on segments: [rm_dots_no_dot_segments]): a relative-path reference resolved
    by rfc_resolve has no "." segment and no resolvable ".." *)
Lemma rfc_no_dot_segments_partial :
  forallb (fun base => forallb (fun r =>
      implb (negb (starts_with [cSlash] r) && negb (is_nil r)) (no_dot_segments (rfc_resolve base r)))
    (refs_over alpha_dots 5)) (bases_uri ++ bases_path) = true.
Proof. vm_compute. reflexivity. Qed.

(** ** further confirmed deviations of the library from RFC 2396 (witnesses found by the differential test) *)
(* "x//../" : the empty segment is skipped and x is removed: /w/d1/doc.xml + a//../b -> /w/d1/b (RFC: /w/d1/a/b) *)
Example localfile_empty_segment_actual : localfile_resolve baseF [97; 47; 47; 46; 46; 47; 98] = [47; 119; 47; 100; 49; 47; 98].
Proof. vm_compute. reflexivity. Qed.
Example rfc_empty_segment : rfc_resolve baseF [97; 47; 47; 46; 46; 47; 98] = [47; 119; 47; 100; 49; 47; 97; 47; 98].
Proof. vm_compute. reflexivity. Qed.
Lemma localfile_rfc_refuted_empty_segment : localfile_resolve baseF [97; 47; 47; 46; 46; 47; 98] <> rfc_resolve baseF [97; 47; 47; 46; 46; 47; 98].
Proof. vm_compute. discriminate. Qed.
Lemma xmlurl_rfc_refuted_empty_segment : xmlurl_resolve baseU [97; 47; 47; 46; 46; 47; 98] <> Some (rfc_resolve baseU [97; 47; 47; 46; 46; 47; 98]).
Proof. vm_compute. discriminate. Qed.
Lemma xmluri_rfc_refuted_empty_segment : xmluri_resolve baseU [97; 47; 47; 46; 46; 47; 98] <> Some (rfc_resolve baseU [97; 47; 47; 46; 46; 47; 98]).
Proof. vm_compute. discriminate. Qed.
(* merged path exactly "/..": XMLUri::initialize step 6f computes index-1 with index = 0 and XMLString::subString throws
   ArrayIndexOutOfBoundsException (not a MalformedURLException): base http://a/x, reference ".." (RFC: http://a/..) *)
Example xmluri_slash_dotdot_actual : xmluri_resolve [104; 116; 116; 112; 58; 47; 47; 97; 47; 120] [46; 46] = None.
Proof. vm_compute. reflexivity. Qed.
Example rfc_slash_dotdot : rfc_resolve [104; 116; 116; 112; 58; 47; 47; 97; 47; 120] [46; 46] = [104; 116; 116; 112; 58; 47; 47; 97; 47; 46; 46].
Proof. vm_compute. reflexivity. Qed.
(* an absolute file: reference is re-serialised, not returned unchanged: file:/x/y -> file:///x/y *)
Example xmlurl_absolute_reserialised : xmlurl_resolve baseC [102; 105; 108; 101; 58; 47; 120; 47; 121] = Some [102; 105; 108; 101; 58; 47; 47; 47; 120; 47; 121].
Proof. vm_compute. reflexivity. Qed.
(* default_source: examples of the decision *)
Example default_source_file_url : default_source false baseU [46; 46; 47; 120; 37; 50; 48; 121; 46; 100; 116; 100] = Some {| ds_sysid := [102; 105; 108; 101; 58; 47; 47; 47; 119; 47; 120; 37; 50; 48; 121; 46; 100; 116; 100]; ds_open := TFile [47; 119; 47; 120; 32; 121; 46; 100; 116; 100] |}.
Proof. vm_compute. reflexivity. Qed.
Example default_source_plain_path : default_source false baseF [46; 46; 47; 120; 37; 50; 48; 121; 46; 100; 116; 100] = Some {| ds_sysid := [47; 119; 47; 120; 32; 121; 46; 100; 116; 100]; ds_open := TFile [47; 119; 47; 120; 32; 121; 46; 100; 116; 100] |}.
Proof. vm_compute. reflexivity. Qed.
Example default_source_plain_path_std : default_source true baseF [46; 46; 47; 120; 46; 100; 116; 100] = None.
Proof. vm_compute. reflexivity. Qed.
Example default_source_net : default_source true baseC [46; 46; 47; 103] = Some {| ds_sysid := [104; 116; 116; 112; 58; 47; 47; 97; 47; 98; 47; 103]; ds_open := TNet [104; 116; 116; 112; 58; 47; 47; 97; 47; 98; 47; 103] |}.
Proof. vm_compute. reflexivity. Qed.
Example default_source_std_fragment : default_source true baseU [120; 46; 100; 116; 100; 35; 102] = None /\ default_source false baseU [120; 46; 100; 116; 100; 35; 102] <> None.
Proof. vm_compute. split; [reflexivity|discriminate]. Qed.
Example default_source_bad_escape : default_bad_escape baseU [97; 37; 122; 122] = true /\ url_bad_escape [102; 105; 108; 101; 58; 47; 47; 47; 119; 47; 100; 49; 47; 97; 37; 122; 122] = true.
Proof. vm_compute. split; reflexivity. Qed.
