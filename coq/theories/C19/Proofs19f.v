(** C19 -- a relative reference without authority inherits EVERY authority component of the base
    (RFC 2396 5.2 step 4): protocol, user, password, host and port (T19_resolve_inherits_authority). *)
From XV Require Import Base.XDefs C19.Uri19.
Local Open Scope N_scope.

(** the model of XMLURL::conglomerateWithBase *)
Lemma conglomerate_inherits_authority : forall u b r,
  conglomerate u b = Some r -> u_proto u = None -> u_host u = None -> opt_is_some (u_host b) = true ->
  u_proto r = u_proto b /\ u_user r = u_user b /\ u_pass r = u_pass b /\ u_host r = u_host b /\ u_port r = u_port b.
Proof.
  intros u b r H P Hu Hb. unfold conglomerate in H. rewrite P, Hu, Hb in H. cbn [opt_is_some negb orb andb] in H.
  destruct (url_is_relative b); [discriminate|].
  cbv zeta in H. rewrite ?andb_false_r in H.
  repeat match type of H with
         | (if ?c then _ else _) = _ => destruct c
         end;
  try (inversion H; subst; cbn; repeat split; reflexivity).
Qed.

(** the specification: RFC 2396 5.2 on components; authority = userinfo@host:port is one unit *)
Lemma rfc_inherits_authority : forall b r,
  r_scheme r = None -> r_auth r = None ->
  r_scheme (rfc_resolve_parts b r) = r_scheme b /\ r_auth (rfc_resolve_parts b r) = r_auth b.
Proof.
  intros b r S A. unfold rfc_resolve_parts. rewrite S, A.
  destruct (r_path r); [destruct (r_query r)|]; cbn; split; reflexivity.
Qed.
