(** C19 -- executable model of the stream-opening decisions and of entity expansion in xerces-c.
    Follows ReaderMgr::createReader / pushReaderAdoptEntity, {IG,DG}XMLScanner::scanDocTypeDecl / scanEntityRef,
    DTDScanner::expandPERef / scanEntityRef, IGXMLScanner::resolveSchemaGrammar and
    TraverseSchema::preprocessInclude/Import/resolveSchemaLocation.  NO proofs in this file.

    A run is a trace of events over an abstract document that lists its external references.  The
    file system ([fs]) and the application's entity resolver ([rs]) are arbitrary functions. *)
From XV Require Import Base.XDefs C19.Uri19 C19.Spec19.
Local Open Scope N_scope.

(** the scanners that process a DOCTYPE (WF and SG skip over it: scanDocTypeDecl "just skips over it") *)
Definition dtd_scanner (c : cfg) : bool := match c_scanner c with IG | DG => true | _ => false end.
(** schema processing: IGXMLScanner when fDoSchema; SGXMLScanner::scanReset forces fDoSchema = true *)
Definition schema_scanner (c : cfg) : bool :=
  match c_scanner c with IG => c_doSchema c | SG => true | _ => false end.

(* ------------------------------------------------------------------------------------------ *)
(** * Abstract documents *)
Inductive piece := PTxt | PRef (n : str).                 (* character data | &n; *)

Inductive edef :=                                         (* general entity definition *)
| EInt (v : list piece)
| EExt (pub sys : str).

Inductive sitem :=                                        (* what an internal parameter entity may hold *)
| SGE (n : str) (d : edef)
| SPERef (n : str).

Inductive pdef := PInt (v : list sitem) | PExt (pub sys : str).

Inductive ditem :=                                        (* markup declarations of a DTD subset *)
| DGE (n : str) (d : edef)                                (* <!ENTITY n ...> *)
| DPE (n : str) (d : pdef)                                (* <!ENTITY % n ...> *)
| DPERef (n : str)                                        (* %n; between declarations *)
| DAtt (v : list piece).                                  (* <!ATTLIST e a CDATA "v"> : default value *)

Definition ditem_of_sitem (i : sitem) : ditem :=
  match i with SGE n d => DGE n d | SPERef n => DPERef n end.

Inductive skind := SInclude | SImport.
Record sref := { sr_kind : skind; sr_ns : str; sr_loc : str }.

Inductive econtent :=                                     (* what an external resource holds *)
| CDtd (items : list ditem)                               (* external subset / external parameter entity *)
| CEnt (ps : list piece)                                  (* external parsed general entity *)
| CSchema (refs : list sref).                             (* schema document: its include/import list *)

Record hint := { h_ns : str; h_loc : str }.               (* xsi:schemaLocation pair; noNamespace: ns = "" *)

Record doctype := {
  dt_ext : option (str * str);                            (* (publicId, systemId) of the external subset *)
  dt_int : option (list ditem) }.                         (* internal subset *)

Record doc := {
  d_sys : str;                                            (* system id of the document entity *)
  d_doctype : option doctype;
  d_atts : list (list piece);                             (* attribute values of the root start tag *)
  d_hints : list hint;                                    (* schema location hints on the root *)
  d_body : list piece }.

(* ------------------------------------------------------------------------------------------ *)
(** * Events *)
Inductive fatal :=
| FRecursive            (* XMLErrs::RecursiveEntity *)
| FLimit                (* XMLErrs::EntityExpansionLimitExceeded *)
| FOpenFailed           (* Gen_CouldNotOpenDTD / Gen_CouldNotOpenExtEntity *)
| FNet                  (* net accessor asked for a stream *)
| FMalformed            (* MalformedURLException (standard-URI-conformant) *)
| FExtRefInAtt          (* XMLErrs::NoExtRefsInAttValue *)
| FEntNotFound          (* XMLErrs::EntityNotFound (fatal when fStandalone || fHasNoDTD) *)
| FCantHaveIntSS        (* XMLExcepts::Val_CantHaveIntSS: cached DTD grammar and an internal subset *)
| FFuel.                (* model fuel exhausted: proved unreachable *)

Inductive event :=
| EvResolve (k : kind) (sys base pub : str)     (* resolver asked; for schemas [pub] carries the namespace *)
| EvUse (k : kind) (id : str)                   (* source supplied by the resolver is used; id = its system id *)
| EvOpen (k : kind) (t : target) (id : str)     (* default source built and its stream opened *)
| EvPush (n : str)                              (* reader of general entity n pushed (content / attribute value) *)
| EvExpand (inAtt : bool) (n : str)             (* expansion accepted (startEntityReference when not inAtt) *)
| EvPushDtd (n : str)                           (* reader pushed by the DTD scanner (PE, or GE in a default value) *)
| EvFatal (f : fatal).

Definition resolver := str -> str -> str -> option (str * econtent).
Definition filesys := str -> option econtent.

(* ------------------------------------------------------------------------------------------ *)
(** * State *)
Record gdecl := { g_def : edef; g_base : str }.
Record pdecl := { p_def : pdef; p_base : str }.

Record st := {
  s_tr : list event;                  (* newest first *)
  s_ge : list (str * gdecl);
  s_pe : list (str * pdecl);
  s_cnt : nat;                        (* fEntityExpansionCount *)
  s_halt : bool;                      (* a fatal error was emitted (fExitOnFirstFatal) *)
  s_ns : list str;                    (* namespaces for which a schema grammar exists *)
  s_seen : list str }.                (* system ids in fSchemaInfoList *)

Definition st0 : st := {| s_tr := []; s_ge := []; s_pe := []; s_cnt := O; s_halt := false; s_ns := []; s_seen := [] |}.

Definition emit (e : list event) (s : st) : st :=     (* e is in chronological order *)
  {| s_tr := rev e ++ s_tr s; s_ge := s_ge s; s_pe := s_pe s; s_cnt := s_cnt s; s_halt := s_halt s;
     s_ns := s_ns s; s_seen := s_seen s |}.
Definition halt (f : fatal) (s : st) : st :=
  {| s_tr := EvFatal f :: s_tr s; s_ge := s_ge s; s_pe := s_pe s; s_cnt := s_cnt s; s_halt := true;
     s_ns := s_ns s; s_seen := s_seen s |}.
Definition add_ge (n : str) (g : gdecl) (s : st) : st :=
  {| s_tr := s_tr s; s_ge := s_ge s ++ [(n, g)]; s_pe := s_pe s; s_cnt := s_cnt s; s_halt := s_halt s;
     s_ns := s_ns s; s_seen := s_seen s |}.
Definition add_pe (n : str) (p : pdecl) (s : st) : st :=
  {| s_tr := s_tr s; s_ge := s_ge s; s_pe := s_pe s ++ [(n, p)]; s_cnt := s_cnt s; s_halt := s_halt s;
     s_ns := s_ns s; s_seen := s_seen s |}.
Definition incr (s : st) : st :=
  {| s_tr := s_tr s; s_ge := s_ge s; s_pe := s_pe s; s_cnt := S (s_cnt s); s_halt := s_halt s;
     s_ns := s_ns s; s_seen := s_seen s |}.
Definition add_ns (n : str) (s : st) : st :=
  {| s_tr := s_tr s; s_ge := s_ge s; s_pe := s_pe s; s_cnt := s_cnt s; s_halt := s_halt s;
     s_ns := n :: s_ns s; s_seen := s_seen s |}.
Definition add_seen (n : str) (s : st) : st :=
  {| s_tr := s_tr s; s_ge := s_ge s; s_pe := s_pe s; s_cnt := s_cnt s; s_halt := s_halt s;
     s_ns := s_ns s; s_seen := n :: s_seen s |}.

Fixpoint lookup {A} (n : str) (l : list (str * A)) : option A :=
  match l with
  | [] => None
  | (k, v) :: r => if str_eqb n k then Some v else lookup n r
  end.
Definition mem (n : str) (l : list str) : bool := existsb (str_eqb n) l.

(* ------------------------------------------------------------------------------------------ *)
(** * ReaderMgr::createReader(baseURI, sysId, pubId, ..., disableDefaultEntityResolution)
    [rbase] is what the resolver is given as base URI (the declaration's base URI, as is); [base] is what
    the default branch resolves against (the same, or the last external entity's system id when empty). *)
Inductive cr_result :=
| CrOk (id : str) (ct : option econtent)      (* reader created over source with system id [id] *)
| CrNone                                      (* returned 0 *)
| CrThrow (f : fatal).

(** returns the events in chronological order and the outcome *)
Definition create_reader (c : cfg) (rs : option resolver) (fs : filesys) (k : kind) (rbase base sys pub : str)
  : list event * cr_result :=
  let ev1 := match rs with Some _ => [EvResolve k sys rbase pub] | None => [] end in
  match (match rs with Some f => f sys rbase pub | None => None end) with
  | Some (id, ct) => (ev1 ++ [EvUse k id], CrOk id (Some ct))        (* the resolver's source is used *)
  | None =>
    if c_disableDefault c then (ev1, CrNone)                         (* if (disableDefaultEntityResolution) return 0; *)
    else
      match default_source (c_stdUri c) base sys with
      | None => (ev1, CrThrow FMalformed)
      | Some d =>
        match ds_open d with
        | TFile p => match fs p with
                     | Some ct => (ev1 ++ [EvOpen k (TFile p) (ds_sysid d)], CrOk (ds_sysid d) (Some ct))
                     | None => (ev1 ++ [EvOpen k (TFile p) (ds_sysid d)], CrNone)   (* makeStream returned 0 *)
                     end
        | TNet u => match fs u with                    (* the net accessor is asked; [fs] also maps URL texts *)
                    | Some ct => (ev1 ++ [EvOpen k (TNet u) (ds_sysid d)], CrOk (ds_sysid d) (Some ct))
                    | None => (ev1 ++ [EvOpen k (TNet u) (ds_sysid d)], CrThrow FNet)   (* NetAccessorException *)
                    end
        end
      end
  end.

(** pushReaderAdoptEntity: the entity is compared with the readers *below* the current one only *)
Definition push_ok (n : str) (stack : list str) : bool := negb (mem n stack).
Definition push_stack (cur : option str) (stack : list str) : list str :=
  match cur with Some c => c :: stack | None => stack end.

(** the SecurityManager check [fSecurityManager != 0 && ++fEntityExpansionCount > fEntityExpansionLimit] *)
Definition over_limit (c : cfg) (s : st) : bool :=
  match c_limit c with Some l => Nat.ltb l (s_cnt s) | None => false end.

(* ------------------------------------------------------------------------------------------ *)
(** * {IG,DG}XMLScanner::scanEntityRef (content and attribute values) *)
Definition rec_content := bool -> str -> option str -> list str -> list piece -> st -> st.

Definition expand_ref (rec : rec_content) (c : cfg) (rs : option resolver) (fs : filesys)
  (nd : bool) (inAtt : bool) (ext : str) (cur : option str) (stack : list str) (n : str) (s : st) : st :=
  if negb (dtd_scanner c) then halt FEntNotFound s   (* WF/SG: no entity pool, fHasNoDTD stays true *)
  else
  match lookup n (s_ge s) with
  | None => if nd then halt FEntNotFound s else s    (* if (fStandalone || fHasNoDTD) emitError(EntityNotFound) *)
  | Some g =>
    match g_def g with
    | EExt pub sys =>
      if inAtt then halt FExtRefInAtt s          (* emitError(NoExtRefsInAttValue) is fatal *)
      else
        let base := match g_base g with [] => ext | b => b end in
        let '(ev, r) := create_reader c rs fs KEnt (g_base g) base sys pub in
        let s1 := emit ev s in
        match r with
        | CrThrow f => halt f s1
        | CrNone => halt FOpenFailed s1
        | CrOk id ct =>
          if negb (push_ok n stack) then halt FRecursive s1
          else
            let s2 := incr (emit [EvPush n] s1) in
            if over_limit c s2 then halt FLimit s2
            else
              let s3 := emit [EvExpand inAtt n] s2 in
              match ct with
              | Some (CEnt ps) => rec inAtt id (Some n) (push_stack cur stack) ps s3
              | _ => s3
              end
        end
    | EInt v =>
      if negb (push_ok n stack) then halt FRecursive s
      else
        let s2 := incr (emit [EvPush n] s) in
        if over_limit c s2 then halt FLimit s2
        else rec inAtt ext (Some n) (push_stack cur stack) v (emit [EvExpand inAtt n] s2)
    end
  end.

Fixpoint content (d : nat) (c : cfg) (rs : option resolver) (fs : filesys) (nd : bool)
  (inAtt : bool) (ext : str) (cur : option str) (stack : list str) (ps : list piece) (s : st) {struct d} : st :=
  match d with
  | O => if s_halt s then s else halt FFuel s
  | S d' =>
    (fix go (ps : list piece) (s : st) {struct ps} : st :=
       match ps with
       | [] => s
       | PTxt :: r => go r s
       | PRef n :: r =>
         go r (if s_halt s then s else expand_ref (content d' c rs fs nd) c rs fs nd inAtt ext cur stack n s)
       end) ps s
  end.

(* ------------------------------------------------------------------------------------------ *)
(** * DTDScanner: declarations, expandPERef, scanEntityRef (attribute default values) *)
Definition rec_att := str -> option str -> list str -> list piece -> st -> st.

(** a reader pushed by the DTD scanner.  Upstream the DTD scanner never touches the expansion counter (finding
    C19-F1, [c_countDtd c = false]); with the repair it counts like the document scanners do. *)
Definition push_dtd (c : cfg) (n : str) (s : st) : st :=
  if c_countDtd c then
    let s2 := incr (emit [EvPushDtd n] s) in
    if over_limit c s2 then halt FLimit s2 else s2
  else emit [EvPushDtd n] s.

(** DTDScanner::scanEntityRef: general entity reference inside an attribute default value.
    No expansion counter here (faithful). *)
Definition dtd_att_ref (rec : rec_att) (c : cfg) (nd : bool) (ext : str) (cur : option str) (stack : list str) (n : str) (s : st) : st :=
  match lookup n (s_ge s) with
  | None => if nd then halt FEntNotFound s else s
  | Some g =>
    match g_def g with
    | EExt _ _ => halt FExtRefInAtt s
    | EInt v =>
      if negb (push_ok n stack) then halt FRecursive s
      else rec ext (Some n) (push_stack cur stack) v (push_dtd c n s)
    end
  end.

Fixpoint dtd_att (d : nat) (c : cfg) (nd : bool) (ext : str) (cur : option str) (stack : list str) (ps : list piece) (s : st) {struct d} : st :=
  match d with
  | O => if s_halt s then s else halt FFuel s
  | S d' =>
    (fix go (ps : list piece) (s : st) {struct ps} : st :=
       match ps with
       | [] => s
       | PTxt :: r => go r s
       | PRef n :: r => go r (if s_halt s then s else dtd_att_ref (dtd_att d' c nd) c nd ext cur stack n s)
       end) ps s
  end.

Definition rec_dtd := str -> option str -> list str -> list ditem -> st -> st.

(** one markup declaration / PE reference.  [ext] = system id of the last external entity on the reader
    stack (ReaderMgr::getLastExtEntityInfo), recorded as the declaration's base URI. *)
Definition dtd_item (rec : rec_dtd) (datt : rec_att) (c : cfg) (rs : option resolver) (fs : filesys)
  (ext : str) (cur : option str) (stack : list str) (it : ditem) (s : st) : st :=
  match it with
  | DGE n def =>
    match lookup n (s_ge s) with
    | Some _ => s                                  (* first declaration is binding *)
    | None => add_ge n {| g_def := def; g_base := ext |} s
    end
  | DPE n def =>
    match lookup n (s_pe s) with
    | Some _ => s
    | None => add_pe n {| p_def := def; p_base := ext |} s
    end
  | DAtt v => datt ext cur stack v s
  | DPERef n =>
    match lookup n (s_pe s) with
    | None => s
    | Some p =>
      match p_def p with
      | PExt pub sys =>
        let base := match p_base p with [] => ext | b => b end in
        let '(ev, r) := create_reader c rs fs KPE (p_base p) base sys pub in
        let s1 := emit ev s in
        match r with
        | CrThrow f => halt f s1
        | CrNone => halt FOpenFailed s1
        | CrOk id ct =>
          if negb (push_ok n stack) then halt FRecursive s1
          else
            let s2 := push_dtd c n s1 in
            match ct with
            | Some (CDtd items) => rec id (Some n) (push_stack cur stack) items s2
            | _ => s2
            end
        end
      | PInt v =>
        if negb (push_ok n stack) then halt FRecursive s
        else rec ext (Some n) (push_stack cur stack) (map ditem_of_sitem v) (push_dtd c n s)
      end
    end
  end.

Fixpoint dtd_items (d : nat) (c : cfg) (rs : option resolver) (fs : filesys) (nd : bool)
  (ext : str) (cur : option str) (stack : list str) (items : list ditem) (s : st) {struct d} : st :=
  match d with
  | O => if s_halt s then s else halt FFuel s
  | S d' =>
    (fix go (items : list ditem) (s : st) {struct items} : st :=
       match items with
       | [] => s
       | it :: r =>
         go r (if s_halt s then s
               else dtd_item (dtd_items d' c rs fs nd) (dtd_att d' c nd) c rs fs ext cur stack it s)
       end) items s
  end.

(* ------------------------------------------------------------------------------------------ *)
(** * Schema side: resolveSchemaGrammar and TraverseSchema::preprocessInclude/Import *)

(** builds the InputSource for a schema location: resolver first, then the disable flag, then default.
    returns events, and the source (system id, what opening it will yield: None = resolver source) *)
Inductive ssrc := SsNone | SsThrow | SsRes (id : str) (ct : econtent) | SsDef (d : dsrc).

Definition schema_source (c : cfg) (rs : option resolver) (base loc ns : str) : list event * ssrc :=
  let ev1 := match rs with Some _ => [EvResolve KSchema loc base ns] | None => [] end in
  match (match rs with Some f => f loc base ns | None => None end) with
  | Some (id, ct) => (ev1 ++ [EvUse KSchema id], SsRes id ct)
  | None =>
    if c_disableDefault c then (ev1, SsNone)
    else match default_source (c_stdUri c) base loc with
         | None => (ev1, SsThrow)
         | Some d => (ev1, SsDef d)
         end
  end.

Definition ssrc_id (x : ssrc) : str :=
  match x with SsRes id _ => id | SsDef d => ds_sysid d | _ => [] end.

(** parser.parse(srcToFill): open the stream (a missing schema is only a warning) *)
Inductive so_result := SoGot (ct : econtent) | SoMissing | SoThrow (f : fatal).
Definition schema_open (fs : filesys) (x : ssrc) : list event * so_result :=
  match x with
  | SsRes id ct => ([], SoGot ct)
  | SsDef d => ([EvOpen KSchema (ds_open d) (ds_sysid d)],
                match ds_open d with
                | TFile p => match fs p with Some ct => SoGot ct | None => SoMissing end
                | TNet u => match fs u with Some ct => SoGot ct
                                        | None => SoThrow FNet end  (* the exception ends in SchemaScanFatalError *)
                end)
  | _ => ([], SoMissing)
  end.

Definition rec_schema := str -> str -> list sref -> st -> st.     (* current schema URL, target ns, refs *)

Definition schema_ref (rec : rec_schema) (c : cfg) (rs : option resolver) (fs : filesys)
  (url tns : str) (r : sref) (s : st) : st :=
  let ns := match sr_kind r with SInclude => [] | SImport => sr_ns r end in
  let '(ev, src) := schema_source c rs url (sr_loc r) ns in
  let s1 := emit ev s in
  match src with
  | SsNone => s1
  | SsThrow => halt FMalformed s1
  | _ =>
    let id := ssrc_id src in
    if mem id (s_seen s1) then s1                                   (* fSchemaInfoList->get(url, ns) *)
    else if (match sr_kind r with SImport => mem (sr_ns r) (s_ns s1) | SInclude => false end) then s1
    else
      let '(ev2, ct) := schema_open fs src in
      let s2 := emit ev2 s1 in
      match ct with
      | SoGot (CSchema refs) =>
        let tns' := match sr_kind r with SInclude => tns | SImport => sr_ns r end in
        rec id tns' refs (add_seen id (match sr_kind r with SImport => add_ns (sr_ns r) s2 | SInclude => s2 end))
      | SoThrow f => halt f s2
      | _ => s2
      end
  end.

Fixpoint schema_refs (d : nat) (c : cfg) (rs : option resolver) (fs : filesys)
  (url tns : str) (refs : list sref) (s : st) {struct d} : st :=
  match d with
  | O => if s_halt s then s else halt FFuel s
  | S d' =>
    (fix go (refs : list sref) (s : st) {struct refs} : st :=
       match refs with
       | [] => s
       | r :: rest => go rest (if s_halt s then s else schema_ref (schema_refs d' c rs fs) c rs fs url tns r s)
       end) refs s
  end.

(** IGXMLScanner::resolveSchemaGrammar(loc, uri) for one location hint on the root element *)
Definition schema_hint (d : nat) (c : cfg) (rs : option resolver) (fs : filesys) (docsys : str) (h : hint) (s : st) : st :=
  if s_halt s then s
  else if mem (h_ns h) (s_ns s) then s                               (* grammar already known *)
  else if negb (c_loadSchema c) then s                               (* if (fLoadSchema || ignoreLoadSchema) *)
  else
    let '(ev, src) := schema_source c rs docsys (h_loc h) (h_ns h) in
    let s1 := emit ev s in
    match src with
    | SsNone => s1
    | SsThrow => halt FMalformed s1
    | _ =>
      let id := ssrc_id src in
      if mem id (s_seen s1) then s1
      else
        let '(ev2, ct) := schema_open fs src in
        let s2 := emit ev2 s1 in
        match ct with
        | SoGot (CSchema refs) => schema_refs d c rs fs id (h_ns h) refs (add_seen id (add_ns (h_ns h) s2))
        | SoThrow f => halt f s2
        | _ => s2
        end
    end.

(* ------------------------------------------------------------------------------------------ *)
(** * The document *)

(** fValidate after scanDocTypeDecl: Val_Always, or Val_Auto and the DOCTYPE has an internal or external subset *)
Definition validating (c : cfg) (dt : doctype) : bool :=
  match c_val c with
  | VAlways => true
  | VNever => false
  | VAuto => match dt_ext dt, dt_int dt with None, None => false | _, _ => true end
  end.

(** {IG,DG}XMLScanner::scanDocTypeDecl *)
Definition scan_doctype (d : nat) (c : cfg) (rs : option resolver) (fs : filesys) (nd : bool) (docsys : str) (dt : doctype) (s : st) : st :=
  if negb (dtd_scanner c) then s                                      (* WF/SG: just skips over it *)
  else
    let s1 := match dt_int dt with
              | Some items => dtd_items d c rs fs nd docsys None [] items s
              | None => s
              end in
    if s_halt s1 then s1
    else
      match dt_ext dt with
      | None => s1
      | Some (pub, sys) =>
        if c_loadDTD c || validating c dt then                       (* if (fLoadExternalDTD || fValidate) *)
          let '(ev, r) := create_reader c rs fs KDtd docsys docsys sys pub in
          let s2 := emit ev s1 in
          match r with
          | CrThrow f => halt f s2
          | CrNone => halt FOpenFailed s2
          | CrOk id ct =>
            match ct with
            | Some (CDtd items) => dtd_items d c rs fs nd id (Some [68; 84; 68]) [] items s2   (* pseudo entity "DTD" *)
            | _ => s2
            end
          end
        else s1
      end.

Fixpoint scan_atts (d : nat) (c : cfg) (rs : option resolver) (fs : filesys) (nd : bool) (docsys : str) (atts : list (list piece)) (s : st) : st :=
  match atts with
  | [] => s
  | v :: r => scan_atts d c rs fs nd docsys r (content d c rs fs nd true docsys None [] v s)
  end.

Fixpoint scan_hints (d : nat) (c : cfg) (rs : option resolver) (fs : filesys) (docsys : str) (hs : list hint) (s : st) : st :=
  match hs with
  | [] => s
  | h :: r => scan_hints d c rs fs docsys r (schema_hint d c rs fs docsys h s)
  end.

(** fHasNoDTD: true unless the DOCTYPE names an external subset (whether or not it is loaded) *)
Definition no_dtd (x : doc) : bool :=
  match d_doctype x with
  | Some dt => match dt_ext dt with Some _ => false | None => true end
  | None => true
  end.

Definition run_fuel (d : nat) (c : cfg) (rs : option resolver) (fs : filesys) (x : doc) : st :=
  let nd := no_dtd x in
  let s1 := match d_doctype x with
            | Some dt => scan_doctype d c rs fs nd (d_sys x) dt st0
            | None => st0
            end in
  let s2 := scan_atts d c rs fs nd (d_sys x) (d_atts x) s1 in
  let s3 := if schema_scanner c then scan_hints d c rs fs (d_sys x) (d_hints x) s2 else s2 in
  content d c rs fs nd false (d_sys x) None [] (d_body x) s3.

(** fuel: nesting of entity readers is bounded by the number of declared names + 1 (recursion check);
    schema nesting by the number of distinct system ids.  [size_doc] over-approximates both. *)
Fixpoint count_decls (items : list ditem) : nat :=
  match items with
  | [] => O
  | DPE _ (PInt v) :: r => S (length v + count_decls r)
  | _ :: r => S (count_decls r)
  end.

Definition default_fuel : nat := 64.

Definition run (c : cfg) (rs : option resolver) (fs : filesys) (x : doc) : st := run_fuel default_fuel c rs fs x.

Definition trace (s : st) : list event := rev (s_tr s).

(** observables compared with the implementation *)
Definition count_starts (t : list event) : nat :=
  length (filter (fun e => match e with EvExpand false _ => true | _ => false end) t).
Definition first_fatal (t : list event) : option fatal :=
  match filter (fun e => match e with EvFatal _ => true | _ => false end) t with
  | EvFatal f :: _ => Some f
  | _ => None
  end.

(* ------------------------------------------------------------------------------------------ *)
(** * The parser object across parses: SecurityManager, the scanner's cached limit / counter, scanReset.
    XMLScanner::setSecurityManager caches the manager's limit and zeroes the counter; every scanner's scanReset
    refreshes the cached limit from the manager and zeroes the counter again at the start of each parse;
    useScanner creates a fresh scanner and copies the settings with setParseSettings (-> setSecurityManager). *)
Record pstate := {
  ps_mgr : nat;            (* the SecurityManager object's current entity expansion limit *)
  ps_installed : bool;     (* fSecurityManager != 0 in the scanner *)
  ps_limit : nat;          (* fEntityExpansionLimit (cached copy) *)
  ps_count : nat }.        (* fEntityExpansionCount *)

(** a fresh parser; the manager object's own limit is set by the first HSetLimit of a history *)
Definition ps0 : pstate := {| ps_mgr := 0; ps_installed := false; ps_limit := 0; ps_count := 0 |}.

Inductive hop :=
| HInstall (b : bool)        (* parser.setSecurityManager(b ? &mgr : 0) *)
| HSetLimit (l : nat)        (* mgr.setEntityExpansionLimit(l) *)
| HUseScanner (sc : scanner) (* parser.useScanner(name) *)
| HParse (x : doc).

Definition with_limit (c : cfg) (l : option nat) : cfg :=
  {| c_scanner := c_scanner c; c_val := c_val c; c_doSchema := c_doSchema c; c_loadSchema := c_loadSchema c;
     c_loadDTD := c_loadDTD c; c_disableDefault := c_disableDefault c; c_stdUri := c_stdUri c; c_limit := l; c_countDtd := c_countDtd c |}.
Definition with_scanner (c : cfg) (sc : scanner) : cfg :=
  {| c_scanner := sc; c_val := c_val c; c_doSchema := c_doSchema c; c_loadSchema := c_loadSchema c;
     c_loadDTD := c_loadDTD c; c_disableDefault := c_disableDefault c; c_stdUri := c_stdUri c; c_limit := c_limit c; c_countDtd := c_countDtd c |}.

Definition st_from (cnt : nat) : st :=
  {| s_tr := []; s_ge := []; s_pe := []; s_cnt := cnt; s_halt := false; s_ns := []; s_seen := [] |}.

(** [run_fuel] started with the counter the scanner object currently holds *)
Definition run_fuel_from (d : nat) (c : cfg) (rs : option resolver) (fs : filesys) (cnt : nat) (x : doc) : st :=
  let nd := no_dtd x in
  let s1 := match d_doctype x with
            | Some dt => scan_doctype d c rs fs nd (d_sys x) dt (st_from cnt)
            | None => st_from cnt
            end in
  let s2 := scan_atts d c rs fs nd (d_sys x) (d_atts x) s1 in
  let s3 := if schema_scanner c then scan_hints d c rs fs (d_sys x) (d_hints x) s2 else s2 in
  content d c rs fs nd false (d_sys x) None [] (d_body x) s3.

(** XMLScanner::setSecurityManager *)
Definition ps_set_manager (b : bool) (p : pstate) : pstate :=
  if b then {| ps_mgr := ps_mgr p; ps_installed := true; ps_limit := ps_mgr p; ps_count := 0 |}
  else {| ps_mgr := ps_mgr p; ps_installed := false; ps_limit := ps_limit p; ps_count := ps_count p |}.
(** scanReset: "reset security-related things if necessary" *)
Definition ps_scan_reset (p : pstate) : pstate :=
  if ps_installed p then {| ps_mgr := ps_mgr p; ps_installed := true; ps_limit := ps_mgr p; ps_count := 0 |} else p.
(** a new scanner object (constructor: limit 0, count 0) that receives the settings of the old one *)
Definition ps_new_scanner (p : pstate) : pstate :=
  ps_set_manager (ps_installed p) {| ps_mgr := ps_mgr p; ps_installed := false; ps_limit := 0; ps_count := 0 |}.

Definition parse_with (reset : pstate -> pstate) (c : cfg) (rs : option resolver) (fs : filesys) (p : pstate) (x : doc)
  : st * pstate :=
  let p1 := reset p in
  (* without a manager the code never touches the counter (`fSecurityManager != 0 && ++count > limit`): the
     model's run then counts from zero on its own and the object's counter stays what it was *)
  let s := run_fuel_from default_fuel (with_limit c (if ps_installed p1 then Some (ps_limit p1) else None)) rs fs
                         (if ps_installed p1 then ps_count p1 else O) x in
  (s, {| ps_mgr := ps_mgr p1; ps_installed := ps_installed p1; ps_limit := ps_limit p1;
         ps_count := if ps_installed p1 then s_cnt s else ps_count p1 |}).

Definition parse_step := parse_with ps_scan_reset.

Fixpoint run_hist_with (reset : pstate -> pstate) (c : cfg) (rs : option resolver) (fs : filesys) (p : pstate)
  (ops : list hop) : list st :=
  match ops with
  | [] => []
  | HInstall b :: r => run_hist_with reset c rs fs (ps_set_manager b p) r
  | HSetLimit l :: r =>
    run_hist_with reset c rs fs
      {| ps_mgr := l; ps_installed := ps_installed p; ps_limit := ps_limit p; ps_count := ps_count p |} r
  | HUseScanner sc :: r => run_hist_with reset (with_scanner c sc) rs fs (ps_new_scanner p) r
  | HParse x :: r => let '(s, p') := parse_with reset c rs fs p x in s :: run_hist_with reset c rs fs p' r
  end.
Definition run_hist := run_hist_with ps_scan_reset.

(** what the property demands: parse k is judged against the limit in force at its start, counting from zero;
    only (scanner, manager installed?, manager's limit) of the history matter *)
Fixpoint hist_spec (c : cfg) (rs : option resolver) (fs : filesys) (inst : bool) (mgr : nat) (ops : list hop) : list st :=
  match ops with
  | [] => []
  | HInstall b :: r => hist_spec c rs fs b mgr r
  | HSetLimit l :: r => hist_spec c rs fs inst l r
  | HUseScanner sc :: r => hist_spec (with_scanner c sc) rs fs inst mgr r
  | HParse x :: r => run (with_limit c (if inst then Some mgr else None)) rs fs x :: hist_spec c rs fs inst mgr r
  end.

(* ------------------------------------------------------------------------------------------ *)
(** * useCachedGrammarInParse: {IG,DG}XMLScanner::scanDocTypeDecl looks the external subset up in the grammar pool
    first (only when the DOCTYPE has no internal subset).  [resolveSystemId] asks the resolver, honours the
    disable flag and BUILDS the default source without opening it; a pool hit ends the DOCTYPE without any fetch;
    otherwise the already resolved source is opened under the same gate [fLoadExternalDTD || fValidate]. *)
Definition tables := (list (str * gdecl) * list (str * pdecl))%type.
Definition pool := list (str * tables).     (* cached DTD grammars, keyed by the system id they were loaded from *)

Definition dtd_source (c : cfg) (rs : option resolver) (base sys pub : str) : list event * ssrc :=
  let ev1 := match rs with Some _ => [EvResolve KDtd sys base pub] | None => [] end in
  match (match rs with Some f => f sys base pub | None => None end) with
  | Some (id, ct) => (ev1 ++ [EvUse KDtd id], SsRes id ct)
  | None =>
    if c_disableDefault c then (ev1, SsNone)
    else match default_source (c_stdUri c) base sys with
         | None => (ev1, SsThrow)
         | Some d => (ev1, SsDef d)
         end
  end.

Definition set_tables (tb : tables) (s : st) : st :=
  {| s_tr := s_tr s; s_ge := fst tb; s_pe := snd tb; s_cnt := s_cnt s; s_halt := s_halt s; s_ns := s_ns s;
     s_seen := s_seen s |}.

(** createReader(srcUsed, ...): open the source that resolveSystemId built *)
Definition open_resolved (fs : filesys) (x : ssrc) : list event * cr_result :=
  match x with
  | SsRes id ct => ([], CrOk id (Some ct))
  | SsDef d =>
    ([EvOpen KDtd (ds_open d) (ds_sysid d)],
     match ds_open d with
     | TFile p => match fs p with Some ct => CrOk (ds_sysid d) (Some ct) | None => CrNone end
     | TNet u => match fs u with Some ct => CrOk (ds_sysid d) (Some ct) | None => CrThrow FNet end
     end)
  | _ => ([], CrNone)
  end.

Definition scan_doctype_c (d : nat) (c : cfg) (rs : option resolver) (fs : filesys) (nd : bool) (docsys : str)
  (dt : doctype) (uc : option pool) (s : st) : st :=
  match uc, dt_int dt, dt_ext dt with
  | Some pl, None, Some (pub, sys) =>                    (* fUseCachedGrammar && !hasIntSubset *)
    if negb (dtd_scanner c) then s
    else
      let '(ev, src) := dtd_source c rs docsys sys pub in
      let s1 := emit ev s in
      match src with
      | SsThrow => halt FMalformed s1
      | SsNone => scan_doctype d c rs fs nd docsys dt s1  (* srcUsed == 0: the ordinary path (asks again) *)
      | _ =>
        match lookup (ssrc_id src) pl with
        | Some tb => set_tables tb s1                     (* grammar found in the pool: nothing is fetched *)
        | None =>
          if c_loadDTD c || validating c dt then
            let '(ev2, r) := open_resolved fs src in
            let s2 := emit ev2 s1 in
            match r with
            | CrThrow f => halt f s2
            | CrNone => halt FOpenFailed s2
            | CrOk id ct =>
              match ct with
              | Some (CDtd items) => dtd_items d c rs fs nd id (Some [68; 84; 68]) [] items s2
              | _ => s2
              end
            end
          else s1
        end
      end
  | Some pl, Some _, Some (pub, sys) =>                  (* checkInternalDTD: fUseCachedGrammar && hasExtSubset *)
    if negb (dtd_scanner c) then s
    else
      let '(ev, src) := dtd_source c rs docsys sys pub in
      let s1 := emit ev s in
      match src with
      | SsThrow => halt FMalformed s1
      | SsNone => scan_doctype d c rs fs nd docsys dt s1
      | _ => match lookup (ssrc_id src) pl with
             | Some _ => halt FCantHaveIntSS s1             (* the DTD is cached: an internal subset is refused *)
             | None => scan_doctype d c rs fs nd docsys dt s1
             end
      end
  | _, _, _ => scan_doctype d c rs fs nd docsys dt s
  end.

Definition run_fuel_c (d : nat) (c : cfg) (rs : option resolver) (fs : filesys) (uc : option pool) (x : doc) : st :=
  let nd := no_dtd x in
  let s1 := match d_doctype x with
            | Some dt => scan_doctype_c d c rs fs nd (d_sys x) dt uc st0
            | None => st0
            end in
  let s2 := scan_atts d c rs fs nd (d_sys x) (d_atts x) s1 in
  let s3 := if schema_scanner c then scan_hints d c rs fs (d_sys x) (d_hints x) s2 else s2 in
  content d c rs fs nd false (d_sys x) None [] (d_body x) s3.
Definition run_c (c : cfg) (rs : option resolver) (fs : filesys) (uc : option pool) (x : doc) : st :=
  run_fuel_c default_fuel c rs fs uc x.

(** the pool a previous parse with cacheGrammarFromParse leaves behind: the grammar is stored under the system
    id of the source the external subset was read from *)
Definition pool_of (s : st) : pool :=
  match filter (fun e => match e with EvUse KDtd _ | EvOpen KDtd _ _ => true | _ => false end) (trace s) with
  | EvUse _ id :: _ => [(id, (s_ge s, s_pe s))]
  | EvOpen _ _ id :: _ => [(id, (s_ge s, s_pe s))]
  | _ => []
  end.

(** a priming parse with cacheGrammarFromParse (which implies useCachedGrammarInParse) and loadExternalDTD:
    checkInternalDTD refuses an internal subset outright (Val_CantHaveIntSS), so nothing is cached then *)
Definition primed_pool (c : cfg) (rs : option resolver) (fs : filesys) (x : doc) : pool :=
  match d_doctype x with
  | Some dt =>
    match dt_int dt with
    | Some _ => []
    | None =>
      pool_of (run_c {| c_scanner := c_scanner c; c_val := c_val c; c_doSchema := c_doSchema c;
                        c_loadSchema := c_loadSchema c; c_loadDTD := true; c_disableDefault := c_disableDefault c;
                        c_stdUri := c_stdUri c; c_limit := c_limit c; c_countDtd := c_countDtd c |} rs fs (Some []) x)
    end
  | None => []
  end.
