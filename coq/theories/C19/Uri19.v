(** C19 -- URI / path resolution: specification (RFC 2396 section 5.2) and executable models of what
    xerces-c does when it builds the *default* input source for an external identifier
    (ReaderMgr::createReader default branch: XMLURL::setURL(base, sysId) -> URLInputSource, otherwise
    XMLUri::normalizeURI + LocalFileInputSource(base, sysId) -> XMLPlatformUtils::weavePaths).
    Strings are [list N] (UTF-16 code units; all inputs used are ASCII).  NO proofs in this file.

    Model domain (validated by the differential test against the library): ASCII text without white
    space and without NUL; port fields of at most 18 digits; for [xmluri_resolve] additionally: the
    authority has no '@', ':' or '[' and its last label does not start with a digit (otherwise the
    model answers None without claim). *)
From XV Require Import Base.XDefs.
Local Open Scope N_scope.

Definition str := list N.

Definition cSlash : N := 47.   (* '/' *)
Definition cDot : N := 46.     (* '.' *)
Definition cColon : N := 58.   (* ':' *)
Definition cPercent : N := 37. (* '%' *)
Definition cQuest : N := 63.   (* '?' *)
Definition cHash : N := 35.    (* '#' *)
Definition cAt : N := 64.      (* '@' *)
Definition cSpace : N := 32.

Fixpoint str_eqb (a b : str) : bool :=
  match a, b with
  | [], [] => true
  | x :: a', y :: b' => (x =? y) && str_eqb a' b'
  | _, _ => false
  end.

(** split at every '/' : "a/b/" -> ["a";"b";""] ; "" -> [""] *)
Fixpoint split_slash_aux (cur : str) (s : str) : list str :=
  match s with
  | [] => [rev cur]
  | c :: r => if c =? cSlash then rev cur :: split_slash_aux [] r else split_slash_aux (c :: cur) r
  end.
Definition split_slash (s : str) : list str := split_slash_aux [] s.

Fixpoint join_slash (l : list str) : str :=
  match l with
  | [] => []
  | [x] => x
  | x :: r => x ++ cSlash :: join_slash r
  end.

Definition is_dot (s : str) : bool := str_eqb s [cDot].
Definition is_dotdot (s : str) : bool := str_eqb s [cDot; cDot].
Definition is_nil (s : str) : bool := match s with [] => true | _ => false end.

Definition starts_with (p s : str) : bool := str_eqb p (firstn (length p) s).

(** [break_at p s] = (longest prefix without a [p]-character, the rest (empty or starting with one)) *)
Fixpoint break_at (p : N -> bool) (s : str) : str * str :=
  match s with
  | [] => ([], [])
  | c :: r => if p c then ([], s) else let (a, b) := break_at p r in (c :: a, b)
  end.

Definition is_alpha (c : N) : bool := ((65 <=? c) && (c <=? 90)) || ((97 <=? c) && (c <=? 122)).
Definition is_digit (c : N) : bool := (48 <=? c) && (c <=? 57).
Definition is_alnum (c : N) : bool := is_alpha c || is_digit c.
Definition is_hex (c : N) : bool := is_digit c || ((65 <=? c) && (c <=? 70)) || ((97 <=? c) && (c <=? 102)).
Definition hex_val (c : N) : N := if is_digit c then c - 48 else if c <=? 70 then c - 55 else c - 87.
Definition to_lower (c : N) : N := if (65 <=? c) && (c <=? 90) then c + 32 else c.
Definition mem (c : N) (l : list N) : bool := existsb (N.eqb c) l.

(* ------------------------------------------------------------------------------------------ *)
(** * Specification: RFC 2396 section 5.2 on (scheme, authority, path, query, fragment) *)

(** scheme = ALPHA *( ALPHA / DIGIT / "+" / "-" / "." ) followed by ':' *)
Definition is_scheme_char (c : N) : bool := is_alpha c || is_digit c || (c =? 43) || (c =? 45) || (c =? 46).

Fixpoint scheme_split_aux (acc : str) (s : str) : option (str * str) :=
  match s with
  | [] => None
  | c :: r => if c =? cColon then Some (rev acc, r)
              else if is_scheme_char c then scheme_split_aux (c :: acc) r else None
  end.
(** Some (scheme, rest-after-colon) when the text starts with a scheme *)
Definition scheme_split (s : str) : option (str * str) :=
  match s with
  | c :: _ => if is_alpha c then scheme_split_aux [] s else None
  | [] => None
  end.

(** the five components of RFC 2396 appendix B *)
Record uriref := { r_scheme : option str; r_auth : option str; r_path : str;
                   r_query : option str; r_frag : option str }.

Definition is_slash (c : N) : bool := c =? cSlash.
Definition is_qh (c : N) : bool := (c =? cQuest) || (c =? cHash).
Definition is_sqh (c : N) : bool := (c =? cSlash) || (c =? cQuest) || (c =? cHash).
Definition is_hash (c : N) : bool := c =? cHash.

(** query and fragment of the text that follows the path *)
Definition parse_qf (s : str) : option str * option str :=
  match s with
  | [] => (None, None)
  | c :: r => if c =? cHash then (None, Some r)
              else (* c = '?' *)
                let (q, t) := break_at is_hash r in
                (Some q, match t with [] => None | _ :: f => Some f end)
  end.

Definition parse_uriref (s : str) : uriref :=
  let (sch, rest) := match scheme_split s with Some (sc, r) => (Some sc, r) | None => (None, s) end in
  let (auth, rest2) := match rest with
                       | a :: b :: r => if (a =? cSlash) && (b =? cSlash)
                                        then let (au, t) := break_at is_sqh r in (Some au, t)
                                        else (None, rest)
                       | _ => (None, rest)
                       end in
  let (path, rest3) := break_at is_qh rest2 in
  let (q, f) := parse_qf rest3 in
  {| r_scheme := sch; r_auth := auth; r_path := path; r_query := q; r_frag := f |}.

(** step 7 *)
Definition recompose (u : uriref) : str :=
  (match r_scheme u with Some sc => sc ++ [cColon] | None => [] end) ++
  (match r_auth u with Some a => cSlash :: cSlash :: a | None => [] end) ++
  r_path u ++
  (match r_query u with Some q => cQuest :: q | None => [] end) ++
  (match r_frag u with Some f => cHash :: f | None => [] end).

(** step 6 c-f of RFC 2396 5.2 on a list of segments (the last segment is the "file" part; a leading
    "/" of the path is NOT part of the list): remove "." segments, and "<seg>/.." pairs where <seg> is
    not ".."; excess ".." are kept (as in the RFC's examples of appendix C.2) *)
Fixpoint rm_dots (out : list str) (l : list str) : list str :=   (* out is reversed *)
  match l with
  | [] => rev out
  | [x] => if is_dot x then rev ([] :: out)
           else if is_dotdot x then
                  match out with
                  | p :: out' => if is_dotdot p then rev (x :: out) else rev ([] :: out')
                  | [] => rev (x :: out)
                  end
                else rev (x :: out)
  | x :: r => if is_dot x then rm_dots out r
              else if is_dotdot x then
                     match out with
                     | p :: out' => if is_dotdot p then rm_dots (x :: out) r else rm_dots out' r
                     | [] => rm_dots (x :: out) r
                     end
                   else rm_dots (x :: out) r
  end.

(** (rooted?, segments) of a path text: "/a/b" -> (true, [a;b]);  "a/b" -> (false, [a;b]) *)
Definition path_split (p : str) : bool * list str :=
  match p with
  | c :: r => if c =? cSlash then (true, split_slash r) else (false, split_slash p)
  | [] => (false, [[]])
  end.
Definition path_join (rooted : bool) (l : list str) : str :=
  (if rooted then [cSlash] else []) ++ join_slash l.

Definition rm_dots_path (p : str) : str :=
  let (rooted, segs) := path_split p in path_join rooted (rm_dots [] segs).

(** step 6 a: everything of the base path up to and including the last '/' *)
Definition dir_of (p : str) : str :=
  match split_slash p with
  | [] | [_] => []
  | l => join_slash (removelast l ++ [[]])
  end.

Definition rfc_resolve_parts (b r : uriref) : uriref :=
  match r_scheme r with
  | Some _ => r                                                               (* step 3 *)
  | None =>
    match r_auth r with
    | Some _ => {| r_scheme := r_scheme b; r_auth := r_auth r; r_path := r_path r;
                   r_query := r_query r; r_frag := r_frag r |}                (* step 4 *)
    | None =>
      match r_path r, r_query r with
      | [], None => {| r_scheme := r_scheme b; r_auth := r_auth b; r_path := r_path b;
                       r_query := r_query b; r_frag := r_frag r |}            (* step 2: current document *)
      | p, _ =>
        let newpath := if starts_with [cSlash] p then p                       (* step 5 *)
                       else rm_dots_path (dir_of (r_path b) ++ p) in          (* step 6 *)
        {| r_scheme := r_scheme b; r_auth := r_auth b; r_path := newpath;
           r_query := r_query r; r_frag := r_frag r |}
      end
    end
  end.

(** RFC 2396 5.2 on URI text.  A reference to the "current document" is represented by the base (without
    its fragment) plus the fragment of the reference. *)
Definition rfc_resolve (base ref : str) : str :=
  match scheme_split ref with
  | Some _ => ref                                                             (* step 3, text unchanged *)
  | None => recompose (rfc_resolve_parts (parse_uriref base) (parse_uriref ref))
  end.

(** oracle: no "." segment, and no ".." after the first segment that is not ".." *)
Fixpoint no_dotdot (l : list str) : bool :=
  match l with [] => true | x :: r => negb (is_dotdot x) && negb (is_dot x) && no_dotdot r end.
Fixpoint dots_ok (l : list str) : bool :=
  match l with
  | [] => true
  | x :: r => if is_dotdot x then dots_ok r else negb (is_dot x) && no_dotdot r
  end.
(** on the text of a URI reference (or plain path): the check above on the segments of its path *)
Definition no_dot_segments (u : str) : bool := dots_ok (snd (path_split (r_path (parse_uriref u)))).

(** a relative reference made of plain segments only: (../)* then non-empty segments that are not "." or
    "..", without ':' '?' '#' '%' and other characters that are not URI path characters *)
Definition is_plain_char (c : N) : bool :=
  is_alnum c || mem c [45; 95; 46; 33; 126; 42; 39; 40; 41].     (* unreserved of RFC 2396 *)
Definition plain_seg (s : str) : bool :=
  negb (is_nil s) && negb (is_dot s) && negb (is_dotdot s) && forallb is_plain_char s.
Fixpoint plain_segs (l : list str) : bool :=       (* at least one *)
  match l with [] => false | [x] => plain_seg x | x :: r => plain_seg x && plain_segs r end.
Fixpoint strip_dotdots (l : list str) : nat * list str :=
  match l with
  | x :: r => if is_dotdot x then let (n, t) := strip_dotdots r in (S n, t) else (O, l)
  | [] => (O, [])
  end.
Definition plain_rel (ref : str) : bool := plain_segs (snd (strip_dotdots (split_slash ref))).
Definition updepth (ref : str) : nat := fst (strip_dotdots (split_slash ref)).

(* ------------------------------------------------------------------------------------------ *)
(** * Model: what the code does *)

Inductive target :=
| TFile (path : str)      (* a local file is opened through BinFileInputStream *)
| TNet (url : str).       (* handed to the net accessor (http:, ftp:, file: with a host) *)

Record dsrc := { ds_sysid : str;        (* getSystemId() of the InputSource that was built *)
                 ds_open : target }.

Definition file_scheme : str := [102; 105; 108; 101].   (* "file" *)

(** ** XMLPlatformUtils::removeDotSlash / removeDotDotSlash / weavePaths (PlatformUtils.cpp) *)

(** removeDotSlash: every "/./" loses its "/." : a "." segment that is neither the first nor the last
    segment is removed *)
Fixpoint rm_dot_mid (l : list str) : list str :=
  match l with
  | [] => []
  | [x] => [x]
  | x :: r => if is_dot x then rm_dot_mid r else x :: rm_dot_mid r
  end.
Definition rm_dot_slash_segs (l : list str) : list str :=
  match l with [] => [] | x :: r => x :: rm_dot_mid r end.
Definition remove_dot_slash (s : str) : str := join_slash (rm_dot_slash_segs (split_slash s)).

(** removeDotDotSlash on segments.  The C++ looks for "/../" from a moving offset; the candidate ".."
    (not first, not last segment) at text index [index] is removed together with the text after the last
    '/' at a position <= index-2, provided such a '/' exists and that text is not "..":
      - previous segment p non-empty: the '/' in front of p must exist (p is not the first segment), p <> ".."
      - previous segment p empty ("x//../"): the scan starts *before* that empty segment, so "x/" is taken
        as the segment: x and the empty segment are removed (if x is not the first segment) -- deviation
        from the RFC *)
Fixpoint rm_dotdot (out : list str) (l : list str) : list str :=   (* out is reversed *)
  match l with
  | [] => rev out
  | [x] => rev (x :: out)
  | x :: r =>
    if is_dotdot x then
      match out with
      | p :: ((_ :: out') as o1) =>
        if is_nil p then match out' with [] => rm_dotdot (x :: out) r | _ => rm_dotdot out' r end
        else if is_dotdot p then rm_dotdot (x :: out) r
        else rm_dotdot o1 r
      | _ => rm_dotdot (x :: out) r
      end
    else rm_dotdot (x :: out) r
  end.

(** weavePaths(base, rel) *)
Definition weave_paths (base rel : str) : str :=
  match split_slash base with
  | [] | [_] => rel                         (* empty base or no '/' in it: the relative part as is *)
  | bsegs => join_slash (rm_dotdot [] (rm_dot_slash_segs (removelast bsegs ++ split_slash rel)))
  end.

(** PosixFileMgr::isRelative *)
Definition path_is_relative (p : str) : bool :=
  match p with [] => false | c :: _ => negb (c =? cSlash) end.

(** LocalFileInputSource(base, rel).getSystemId() *)
Definition localfile_resolve (base rel : str) : str :=
  if path_is_relative rel then weave_paths base rel else remove_dot_slash rel.

(** XMLUri::normalizeURI : "%20" -> ' ' *)
Fixpoint normalize_uri (s : str) : str :=
  match s with
  | a :: ((b :: ((c :: r) as t2)) as t1) =>
    if (a =? cPercent) && (b =? 50) && (c =? 48) then cSpace :: normalize_uri r else a :: normalize_uri t1
  | a :: t => a :: normalize_uri t
  | [] => []
  end.

(** XMLUri::isURIString : non-empty, only reserved | unreserved | %HH *)
Definition mark_or_reserved : list N :=
  [45; 95; 46; 33; 126; 42; 39; 40; 41; 59; 47; 63; 58; 64; 38; 61; 43; 36; 44; 91; 93].
Definition is_res_or_unres (c : N) : bool := is_alnum c || mem c mark_or_reserved.
Fixpoint uric_all (s : str) : bool :=
  match s with
  | [] => true
  | c :: r => if is_res_or_unres c then uric_all r
              else if c =? cPercent then
                     match r with
                     | h1 :: h2 :: r' => is_hex h1 && is_hex h2 && uric_all r'
                     | _ => false
                     end
                   else false
  end.
Definition is_uri_string (s : str) : bool := negb (is_nil s) && uric_all s.

(** ** XMLURL (XMLURL.cpp) *)
Inductive proto := PFile | PHTTP | PFTP | PHTTPS.
Definition proto_name (p : proto) : str :=
  match p with
  | PFile => file_scheme | PHTTP => [104; 116; 116; 112] | PFTP => [102; 116; 112]
  | PHTTPS => [104; 116; 116; 112; 115]
  end.
Definition lookup_proto (s : str) : option proto :=
  let l := map to_lower s in
  if str_eqb l (proto_name PFile) then Some PFile
  else if str_eqb l (proto_name PHTTP) then Some PHTTP
  else if str_eqb l (proto_name PFTP) then Some PFTP
  else if str_eqb l (proto_name PHTTPS) then Some PHTTPS else None.
Definition proto_eqb (a b : proto) : bool :=
  match a, b with PFile, PFile | PHTTP, PHTTP | PFTP, PFTP | PHTTPS, PHTTPS => true | _, _ => false end.

Record url := { u_proto : option proto; u_user : option str; u_pass : option str; u_host : option str;
                u_port : N; u_path : option str; u_query : option str; u_frag : option str }.

Definition is_ws (c : N) : bool := (c =? 32) || (c =? 9) || (c =? 10) || (c =? 13).
Fixpoint skip_ws (s : str) : str := match s with c :: r => if is_ws c then skip_ws r else s | [] => [] end.

(** "x:/" or "x:\" : a DOS file name, not a URL *)
Definition drive_letter (s : str) : bool :=
  match s with
  | a :: b :: c :: _ => is_alpha a && (b =? cColon) && ((c =? cSlash) || (c =? 92))
  | _ => false
  end.

(** XMLString::textToBin (strtoul base 10 after trim; '-' refused): Some value, None = failure *)
Fixpoint dec_val (acc : N) (s : str) : option N :=
  match s with
  | [] => Some acc
  | c :: r => if is_digit c then dec_val (10 * acc + (c - 48)) r else None
  end.
Definition text_to_bin (s : str) : option N :=
  let d := match s with c :: r => if c =? 43 then r else s | [] => [] end in
  match d with
  | [] => None
  | _ => match dec_val 0 d with
         | Some v => if v <=? 18446744073709551615 then Some (v mod 4294967296) else None
         | None => None
         end
  end.

Definition opt_nonempty (s : str) : option str := match s with [] => None | _ => Some s end.

(** the '@' / ':' grovelling in the host text: Some (user, password, host, port) or None (bad port) *)
Definition parse_hostpart (h : str) : option (option str * option str * option str * N) :=
  let is_at c := c =? cAt in
  let is_colon c := c =? cColon in
  let '(user, pass, h1) :=
    match break_at is_at h with
    | (_, []) => (None, None, h)
    | (u, _ :: h') =>
      match break_at is_colon u with
      | (_, []) => (Some u, None, h')
      | (u', _ :: pw) => (Some u', Some pw, h')
      end
    end in
  match break_at is_colon h1 with
  | (_, []) => Some (user, pass, opt_nonempty h1, 0)
  | (h2, _ :: pt) => match text_to_bin pt with
                     | Some v => Some (user, pass, opt_nonempty h2, v)
                     | None => None
                     end
  end.

(** the part of XMLURL::parse after the protocol *)
Definition parse_after_proto (pr : option proto) (s : str) : option url :=
  let is_http := match pr with Some PHTTP => true | _ => false end in
  let hostres : option (option str * str) :=
    match s with
    | a :: b :: r =>
      if (a =? cSlash) && (b =? cSlash)
      then let (h, rest) := break_at is_slash r in Some (opt_nonempty h, rest)
      else if is_http then None else Some (None, s)
    | _ => if is_http then None else Some (None, s)
    end in
  match hostres with
  | None => None
  | Some (hosttxt, rest) =>
    let hp := match hosttxt with
              | Some h => parse_hostpart h
              | None => Some (None, None, None, 0)
              end in
    match hp with
    | None => None
    | Some (user, pass, host, port) =>
      match rest with
      | [] => Some {| u_proto := pr; u_user := user; u_pass := pass; u_host := host; u_port := port;
                      u_path := match host with Some _ => Some [cSlash] | None => None end;
                      u_query := None; u_frag := None |}
      | _ =>
        let (p, t) := break_at is_qh rest in
        let (q, f) := parse_qf t in
        Some {| u_proto := pr; u_user := user; u_pass := pass; u_host := host; u_port := port;
                u_path := opt_nonempty p; u_query := q; u_frag := f |}
      end
    end
  end.

(** bool XMLURL::parse(urlText, xmlURL) : None = returns false *)
Definition xmlurl_parse (t : str) : option url :=
  match t with
  | [] => None
  | _ =>
    if drive_letter t then None else
    match skip_ws t with
    | [] => None
    | s =>
      match break_at (fun c => (c =? cColon) || (c =? cSlash)) s with
      | (pre, c :: r) =>
        if c =? cColon then
          match lookup_proto pre with
          | Some p => parse_after_proto (Some p) r
          | None => None
          end
        else parse_after_proto None s
      | (_, []) => parse_after_proto None s
      end
    end
  end.

Definition url_is_relative (u : url) : bool :=
  match u_proto u, u_path u with
  | Some _, Some (c :: _) => negb (c =? cSlash)
  | _, _ => true
  end.

Definition opt_is_some {A} (o : option A) : bool := match o with Some _ => true | None => false end.

(** XMLURL::conglomerateWithBase(base, false) : None = returns false *)
Definition conglomerate (u b : url) : option url :=
  if url_is_relative b then None else
  if negb (opt_is_some (u_proto u)) && negb (opt_is_some (u_host u)) && negb (opt_is_some (u_path u))
     && opt_is_some (u_frag u)
  then Some {| u_proto := u_proto b; u_user := u_user b; u_pass := u_pass b; u_host := u_host b;
               u_port := u_port b; u_path := u_path b; u_query := u_query u; u_frag := u_frag u |}
  else if opt_is_some (u_proto u) then Some u else
  let pr := u_proto b in
  let is_file := match pr with Some PFile => true | _ => false end in
  if negb is_file && (opt_is_some (u_host u) || negb (opt_is_some (u_host b)))
  then Some {| u_proto := pr; u_user := u_user u; u_pass := u_pass u; u_host := u_host u;
               u_port := u_port u; u_path := u_path u; u_query := u_query u; u_frag := u_frag u |}
  else
  let '(user, pass, host, port) :=
    if opt_is_some (u_host b) then (u_user b, u_pass b, u_host b, u_port b)
    else (u_user u, u_pass u, u_host u, u_port u) in
  let had_path := opt_is_some (u_path u) in
  let abs := match u_path u with Some (c :: _) => c =? cSlash | _ => false end in
  if abs then Some {| u_proto := pr; u_user := user; u_pass := pass; u_host := host; u_port := port;
                      u_path := u_path u; u_query := u_query u; u_frag := u_frag u |}
  else
  let newpath := match u_path b with
                 | Some bp => Some (weave_paths bp (match u_path u with Some p => p | None => [] end))
                 | None => u_path u
                 end in
  if had_path || opt_is_some (u_query u) || negb (opt_is_some (u_query b))
  then Some {| u_proto := pr; u_user := user; u_pass := pass; u_host := host; u_port := port;
               u_path := newpath; u_query := u_query u; u_frag := u_frag u |}
  else if opt_is_some (u_frag u) || negb (opt_is_some (u_frag b))
  then Some {| u_proto := pr; u_user := user; u_pass := pass; u_host := host; u_port := port;
               u_path := newpath; u_query := u_query b; u_frag := u_frag u |}
  else Some {| u_proto := pr; u_user := user; u_pass := pass; u_host := host; u_port := port;
               u_path := newpath; u_query := u_query b; u_frag := u_frag b |}.

(** bool XMLURL::setURL(base, rel, *this) : None = returns false *)
Definition xmlurl_set (base rel : str) : option url :=
  match xmlurl_parse rel with
  | None => None
  | Some u =>
    if url_is_relative u && negb (is_nil base) then
      match xmlurl_parse base with
      | None => None
      | Some b => conglomerate u b
      end
    else Some u
  end.

(** decimal text of a number (XMLString::binToText radix 10) *)
Fixpoint dec_digits (fuel : nat) (n : N) (acc : str) : str :=
  match fuel with
  | O => acc
  | S f => let acc' := (48 + n mod 10) :: acc in
           if n / 10 =? 0 then acc' else dec_digits f (n / 10) acc'
  end.
Definition dec_text (n : N) : str := dec_digits 25 n [].

(** XMLURL::buildFullText *)
Definition url_text (u : url) : str :=
  (match u_proto u with Some p => proto_name p ++ [cColon; cSlash; cSlash] | None => [] end) ++
  (match u_user u with
   | Some us => us ++ (match u_pass u with Some pw => cColon :: pw | None => [] end) ++ [cAt]
   | None => [] end) ++
  (match u_host u with
   | Some h => h ++ (if u_port u =? 0 then [] else cColon :: dec_text (u_port u))
   | None => [] end) ++
  (match u_path u with Some p => p | None => [] end) ++
  (match u_query u with Some q => cQuest :: q | None => [] end) ++
  (match u_frag u with Some f => cHash :: f | None => [] end).

(** XMLURL::setURL(base, rel, url) && !url.isRelative() -> Some getURLText() *)
Definition xmlurl_resolve (base rel : str) : option str :=
  match xmlurl_set base rel with
  | Some u => if url_is_relative u then None else Some (url_text u)
  | None => None
  end.

(** %xx decoding of XMLURL::makeNewStream: None = MalformedURLException *)
Fixpoint pct_decode (s : str) : option str :=
  match s with
  | [] => Some []
  | c :: r =>
    if c =? cPercent then
      match r with
      | h1 :: h2 :: r' =>
        if is_hex h1 && is_hex h2
        then match pct_decode r' with Some d => Some ((16 * hex_val h1 + hex_val h2) :: d) | None => None end
        else None
      | _ => None
      end
    else match pct_decode r with Some d => Some (c :: d) | None => None end
  end.

(** [pct_decode] above is the SPECIFICATION of unescaping (RFC 2396 2.4.2: each escape is decoded exactly once,
    in a single left-to-right pass; what a decoded octet happens to be never matters).  What follows is the
    MODEL of the loop in XMLURL::makeNewStream:
      percentIndex = indexOf(realPath, '%', 0);
      while (percentIndex != -1) { check two hex digits follow; realPath[percentIndex] = value; shift the tail left by
        two; percentIndex = (percentIndex + 1 < end) ? indexOf(realPath, '%', percentIndex + 1) : -1; }
    The state (realPath, position the next search starts at) is kept as the pair
    ([done] = realPath before that position, [rest] = realPath from that position on). *)
Fixpoint split_pct (s : str) : str * option str :=      (* text before the first '%', text after it *)
  match s with
  | [] => ([], None)
  | c :: r => if c =? cPercent then ([], Some r)
              else let (a, t) := split_pct r in (c :: a, t)
  end.

Fixpoint unesc_loop (fuel : nat) (done rest : str) : option str :=
  match fuel with
  | O => None
  | S f =>
    match split_pct rest with
    | (a, None) => Some (done ++ a)                                   (* indexOf returned -1 *)
    | (a, Some (h1 :: h2 :: r)) =>
      if is_hex h1 && is_hex h2
      then unesc_loop f (done ++ a ++ [16 * hex_val h1 + hex_val h2]) r   (* search resumes AFTER the decoded char *)
      else None                                                       (* MalformedURLException *)
    | (a, Some _) => None                                             (* percentIndex + 2 >= end *)
    end
  end.
Definition unescape_once (s : str) : option str := unesc_loop (S (length s)) [] s.

(** the defective variant (search restarts ON the decoded character): "%25" followed by two hex digits is
    decoded twice.  Only used for the refutation example. *)
Fixpoint unesc_loop_restart (fuel : nat) (done rest : str) : option str :=
  match fuel with
  | O => None
  | S f =>
    match split_pct rest with
    | (a, None) => Some (done ++ a)
    | (a, Some (h1 :: h2 :: r)) =>
      if is_hex h1 && is_hex h2
      then unesc_loop_restart f (done ++ a) ((16 * hex_val h1 + hex_val h2) :: r)
      else None
    | (a, Some _) => None
    end
  end.
Definition unescape_restart (s : str) : option str := unesc_loop_restart (S (length s)) [] s.

Definition localhost : str := [108; 111; 99; 97; 108; 104; 111; 115; 116].

(** does XMLURL::makeNewStream use the local file system?  then Some path-before-decoding *)
Definition url_local_path (u : url) : option str :=
  match u_proto u with
  | Some PFile =>
    let localh := match u_host u with
                  | None => true
                  | Some h => str_eqb (map to_lower h) localhost
                  end in
    if localh then Some (match u_path u with Some p => p | None => [] end) else None
  | _ => None
  end.

Definition url_open (u : url) : target :=
  match url_local_path u with
  | Some p => match unescape_once p with Some d => TFile d | None => TFile p end
  | None => TNet (url_text u)
  end.
Definition url_rec_bad_escape (u : url) : bool :=
  match url_local_path u with
  | Some p => negb (opt_is_some (unescape_once p))
  | None => false
  end.

(** on URL *text* (as produced by [url_text]): the decoded path of a "file:" URL without host (or host
    localhost); None when it names a host, is not a file URL, or has a malformed escape *)
Definition file_url_path (u : str) : option str :=
  match xmlurl_parse u with
  | Some r => match url_local_path r with Some p => unescape_once p | None => None end
  | None => None
  end.
(** on URL text: XMLURL::makeNewStream throws MalformedURLException (malformed %-escape in a local file URL) *)
Definition url_bad_escape (u : str) : bool :=
  match xmlurl_parse u with
  | Some r => url_rec_bad_escape r
  | None => false
  end.

(** ** XMLUri (XMLUri.cpp): XMLUri(const XMLUri* base, spec) = initialize(base, spec); getUriText() *)
Record xuri := { x_scheme : option str; x_host : option str; x_reg : option str;
                 x_path : option str; x_query : option str; x_frag : option str }.

Fixpoint find_idx (c : N) (s : str) : option nat :=
  match s with
  | [] => None
  | x :: r => if x =? c then Some O else match find_idx c r with Some n => Some (S n) | None => None end
  end.
Fixpoint split_on_aux (d : N) (cur : str) (s : str) : list str :=
  match s with
  | [] => [rev cur]
  | c :: r => if c =? d then rev cur :: split_on_aux d [] r else split_on_aux d (c :: cur) r
  end.

Definition unreserved_marks : list N := [45; 95; 46; 33; 126; 42; 39; 40; 41].
Definition is_unreserved (c : N) : bool := is_alnum c || mem c unreserved_marks.
Definition is_path_char (c : N) : bool := mem c [59; 47; 58; 64; 38; 61; 43; 36; 44].
Definition is_regname_char (c : N) : bool := mem c [36; 44; 59; 58; 64; 38; 61; 43].
(** every character satisfies [ok] or starts a %HH escape *)
Fixpoint chars_ok (ok : N -> bool) (s : str) : bool :=
  match s with
  | [] => true
  | c :: r => if c =? cPercent then
                match r with
                | h1 :: h2 :: r' => is_hex h1 && is_hex h2 && chars_ok ok r'
                | _ => false
                end
              else ok c && chars_ok ok r
  end.

Definition conformant_scheme (s : str) : bool :=
  match s with
  | c :: r => is_alpha c && forallb is_scheme_char r
  | [] => false
  end.

(** the hostname branch of isWellFormedAddress *)
Fixpoint host_scan (prev : option N) (cnt : nat) (s : str) : bool :=
  match s with
  | [] => true
  | c :: r =>
    if c =? cDot then
      (match prev with Some p => is_alnum p | None => true end) &&
      (match r with n :: _ => is_alnum n | [] => true end) && host_scan (Some c) O r
    else (is_alnum c || (c =? 45)) && Nat.leb (S cnt) 63 && host_scan (Some c) (S cnt) r
  end.
Definition wellformed_hostname (h : str) : bool :=
  match h with
  | [] => false
  | c :: _ => negb (c =? cDot) && negb (c =? 45) && negb (last h 0 =? 45) &&
              Nat.leb (length h) 255 && host_scan None O h
  end.
(** model domain of the authority: no userinfo, port, IPv6 reference or IPv4 address *)
Definition auth_in_domain (a : str) : bool :=
  negb (existsb (fun c => (c =? cAt) || (c =? cColon) || (c =? 91)) a) &&
  (let labels := rev (split_on_aux cDot [] a) in
   let lastl := match labels with [] :: l2 :: _ => l2 | l1 :: _ => l1 | [] => [] end in
   match lastl with c :: _ => negb (is_digit c) | [] => true end).

Definition opt_lt (colon : nat) (o : option nat) : bool :=
  match o with Some i => Nat.ltb i colon | None => false end.

(** segments of the merged path after 6c-6e; 6d and 6f *)
Definition xuri_6d (l : list str) : list str :=
  match rev l with
  | x :: ((_ :: _) as out) => if is_dot x then rev ([] :: out) else l
  | _ => l
  end.
Definition xuri_6f (l : list str) : option (list str) :=     (* None: ArrayIndexOutOfBoundsException *)
  match rev l with
  | x :: out =>
    if is_dotdot x then
      match out with
      | [] => Some l
      | [p] => if is_nil p then None else Some l
      | p :: ((_ :: out') as o1) =>
        if is_nil p then match out' with [] => Some l | _ => Some (rev ([] :: out')) end
        else if is_dotdot p then Some l else Some (rev ([] :: o1))
      end
    else Some l
  | [] => Some l
  end.

(** initialize(base, spec): None = an exception is thrown *)
Definition xuri_init (base : option xuri) (spec : str) : option xuri :=
  match spec with
  | [] => base                                     (* empty spec: copy of the base, or exception *)
  | _ =>
    let colon := find_idx cColon spec in
    let no_scheme := match colon with
                     | None | Some O => true
                     | Some c => opt_lt c (find_idx cSlash spec) || opt_lt c (find_idx cQuest spec)
                                 || opt_lt c (find_idx cHash spec)
                     end in
    let hdr : option (option str * str) :=
      if no_scheme then
        match colon, base, find_idx cHash spec with
        | Some O, _, _ => None
        | _, None, Some O => Some (None, spec)
        | _, None, _ => None
        | _, Some _, _ => Some (None, spec)
        end
      else
        let (sc, r) := break_at (fun c => c =? cColon) spec in
        if conformant_scheme sc then Some (Some (map to_lower sc), tl r) else None in
    match hdr with
    | None => None
    | Some (sch, rest) =>
      match rest with
      | [] => None
      | c0 :: _ =>
        if opt_is_some sch && (c0 =? cHash) then None else
        (* authority *)
        let authres : option (option str * option str * str) :=      (* host, regauth, rest *)
          match rest with
          | a :: b :: r =>
            if (a =? cSlash) && (b =? cSlash) then
              let (au, t) := break_at is_sqh r in
              match au with
              | [] => Some (Some [], None, t)
              | _ => if negb (auth_in_domain au) then None
                     else if wellformed_hostname au then Some (Some au, None, t)
                     else if chars_ok (fun c => is_unreserved c || is_regname_char c) au
                          then Some (None, Some au, t) else None
              end
            else Some (None, None, rest)
          | _ => Some (None, None, rest)
          end in
        match authres with
        | None => None
        | Some (host, reg, rest2) =>
          match rest2 with
          | [] => Some {| x_scheme := sch; x_host := host; x_reg := reg; x_path := None;
                          x_query := None; x_frag := None |}       (* returns before any resolution *)
          | c1 :: _ =>
            let (p, t) := break_at is_qh rest2 in
            let (q, f) := parse_qf t in
            let path_ok := if negb (opt_is_some sch) || (c1 =? cSlash)
                           then chars_ok (fun c => is_unreserved c || is_path_char c) p
                           else chars_ok is_res_or_unres p in
            let q_ok := match q with Some qq => chars_ok is_res_or_unres qq | None => true end in
            let f_ok := match f with Some ff => chars_ok is_res_or_unres ff | None => true end in
            if negb (path_ok && q_ok && f_ok) then None else
            let f' := match f with Some [] => None | _ => f end in
            let u := {| x_scheme := sch; x_host := host; x_reg := reg; x_path := Some p;
                        x_query := q; x_frag := f' |} in
            match base with
            | None => Some u
            | Some b =>
              let no_auth := negb (opt_is_some host) && negb (opt_is_some reg) in
              if is_nil p && negb (opt_is_some sch) && no_auth then
                Some {| x_scheme := x_scheme b; x_host := x_host b; x_reg := x_reg b; x_path := x_path b;
                        x_query := match q with Some _ => q | None => x_query b end; x_frag := f' |}
              else if opt_is_some sch then Some u
              else if negb no_auth then
                Some {| x_scheme := x_scheme b; x_host := host; x_reg := reg; x_path := Some p;
                        x_query := q; x_frag := f' |}
              else if starts_with [cSlash] p then
                Some {| x_scheme := x_scheme b; x_host := x_host b; x_reg := x_reg b; x_path := Some p;
                        x_query := q; x_frag := f' |}
              else
                let merged := dir_of (match x_path b with Some bp => bp | None => [] end) ++ p in
                let segs := rm_dotdot [] (xuri_6d (rm_dot_slash_segs (split_slash merged))) in
                match xuri_6f segs with
                | None => None
                | Some segs' =>
                  Some {| x_scheme := x_scheme b; x_host := x_host b; x_reg := x_reg b;
                          x_path := Some (join_slash segs'); x_query := q; x_frag := f' |}
                end
            end
          end
        end
      end
    end
  end.

(** XMLUri::buildFullText *)
Definition xuri_text (u : xuri) : str :=
  (match x_scheme u with Some sc => sc ++ [cColon] | None => [] end) ++
  (match x_host u, x_reg u with
   | Some h, _ => cSlash :: cSlash :: h
   | None, Some r => cSlash :: cSlash :: r
   | None, None => [] end) ++
  (match x_path u with Some p => p | None => [] end) ++
  (match x_query u with Some q => cQuest :: q | None => [] end) ++
  (match x_frag u with Some f => cHash :: f | None => [] end).

(** XMLUri(&XMLUri(base), rel).getUriText(); None = an exception is thrown *)
Definition xmluri_resolve (base rel : str) : option str :=
  match xuri_init None base with
  | None => None
  | Some b => match xuri_init (Some b) rel with
              | Some u => Some (xuri_text u)
              | None => None
              end
  end.

(** the default branch of ReaderMgr::createReader: None = MalformedURLException (only with
    standard-URI-conformant on).  When [url_bad_escape (ds_sysid d)] the later makeStream throws and
    [ds_open d] is meaningless (TFile of the undecoded path). *)
Definition default_source (stdUri : bool) (base sys : str) : option dsrc :=
  match xmlurl_set base sys with
  | Some u =>
    if url_is_relative u then
      if stdUri then None
      else let p := localfile_resolve base (normalize_uri sys) in Some {| ds_sysid := p; ds_open := TFile p |}
    else if stdUri && negb (is_uri_string sys) then None
    else Some {| ds_sysid := url_text u; ds_open := url_open u |}
  | None => if stdUri then None
            else let p := localfile_resolve base (normalize_uri sys) in Some {| ds_sysid := p; ds_open := TFile p |}
  end.

(** the URLInputSource built by [default_source] (any stdUri) has a malformed %-escape in its local file
    path: its makeStream throws MalformedURLException.  (Record-level version of [url_bad_escape].) *)
Definition default_bad_escape (base sys : str) : bool :=
  match xmlurl_set base sys with
  | Some u => negb (url_is_relative u) && url_rec_bad_escape u
  | None => false
  end.
